/-
  C16 / C17 — the chain on the grid of the model's builder: `SideCoords` and `HitDartsOK` are THEOREMS there.

  `gridMap10 g ny` = `build_2d_grid(origin, [nx, ny], [cx, cy])` (`Model/Grid.lean: buildGrid2`, the model of C12) with the ten
  storages of the session (`Boundary` = storage 9, anchors 6-8).

  * `crossing_cell`                     in general position, with both ends of the segment inside the grid with a margin of one
                                        cell (`FitsGrid`: what `C16_grid_margins` gives for the kernel's grid), the dart of a
                                        crossing is the side `k` of an interior cell `(ix, iy)` (`C16_crossings_sound` + convexity)
  * `C16_sideCoords_gridMap10`          `SideCoords` from C12's vertex positions (`grid2_att` / `C12_grid2_corners`), `grid2_β1`
  * `C16_hitDartsOK_gridMap10`          `HitDartsOK` from `C12_grid2_beta2` (interior sides are 2-linked)
  * `C16_crossings_are_vertices_on_grid`, `C16_poi_are_vertices_on_grid`, `C17_poi_are_node_vertices_on_grid`
                                        the chain theorems with NO hypothesis about the map: geometry in eps-general position and
                                        inside the grid with one cell of margin, the two `HashMap` hypotheses (`KeysAreHitEdges`,
                                        keys of step 4 are intersections), success of the run, `OnChain` for points of interest
  The example at the end instantiates every hypothesis on a 5 × 3 grid.
-/
import Honeycomb.Props.C12
import Honeycomb.Props.C16Chain

set_option linter.unusedSimpArgs false
set_option linter.unusedVariables false

namespace HC.C16
open HC

/-! ## more storages -/

theorem withStorages_b (m : Map Val) (k : Nat) : (m.withStorages k).b = m.b := rfl
theorem withStorages_n (m : Map Val) (k : Nat) : (m.withStorages k).n = m.n := rfl
theorem withStorages_u (m : Map Val) (k : Nat) : (m.withStorages k).u = m.u := rfl
theorem withStorages_β (m : Map Val) (k : Nat) : (m.withStorages k).β = m.β := rfl

theorem withStorages_asize (m : Map Val) (k : Nat) : (m.withStorages k).a.size = m.a.size + (k - m.a.size) := by
  unfold Map.withStorages; simp

theorem withStorages_rd_lt (m : Map Val) (k : Nat) {s : Nat} (h : s < m.a.size) :
    rd (m.withStorages k).a s = rd m.a s := by
  unfold Map.withStorages rd
  simp [Array.getD_eq_getD_getElem?, Array.getElem?_append, h]

theorem withStorages_rd_ge (m : Map Val) (k : Nat) {s : Nat} (h1 : m.a.size ≤ s) (h2 : s < k) :
    rd (m.withStorages k).a s = Array.replicate (m.n + 1) none := by
  unfold Map.withStorages rd
  have h3 : ¬ s < m.a.size := by omega
  have h4 : s - m.a.size < k - m.a.size := by omega
  simp [Array.getD_eq_getD_getElem?, Array.getElem?_append, h3, h4]

theorem withStorages_att_lt (m : Map Val) (k : Nat) {s : Nat} (h : s < m.a.size) (d : Nat) :
    (m.withStorages k).att s d = m.att s d := by
  unfold Map.att; rw [withStorages_rd_lt m k h]

theorem withStorages_att_ge (m : Map Val) (k : Nat) {s : Nat} (h1 : m.a.size ≤ s) (d : Nat) :
    (m.withStorages k).att s d = none := by
  unfold Map.att
  by_cases h2 : s < k
  · rw [withStorages_rd_ge m k h1 h2]
    by_cases hd : d < m.n + 1
    · exact rd_replicate _ _ _ hd
    · rw [rd_oob]; rfl; simp; omega
  · rw [rd_oob (a := (m.withStorages k).a) (i := s) (by rw [withStorages_asize]; omega)]
    rw [rd_oob]; rfl; exact Nat.zero_le _

theorem withStorages_wf {m : Map Val} (h : WF 3 m) (k : Nat) : WF 3 (m.withStorages k) := by
  have hs := h.toSized
  refine ⟨⟨hs.npos, hs.rows, hs.row, hs.usz, ?_⟩, ⟨h.null, h.range, h.inv01, h.inv10, h.invol, h.unusedFree⟩⟩
  intro s hsz
  by_cases h1 : s < m.a.size
  · rw [withStorages_rd_lt m k h1]; exact hs.asz s h1
  · rw [withStorages_asize] at hsz
    rw [withStorages_rd_ge m k (Nat.le_of_not_lt h1) (by omega)]
    simp
    exact Nat.le_succ _

/-! ## the grid of the builder, with the ten storages of the session -/

/-- `build_2d_grid(origin, [nx, ny], [cx, cy])` with the storages of the session (`Boundary` is storage 9) -/
def gridMap10 (g : GGrid) (ny : Nat) : Map Val := (buildGrid2 g.ox g.oy g.nx ny g.cx g.cy).withStorages 10

theorem buildGrid2_asize (ox oy lx ly : Rat) (nx ny : Nat) : (buildGrid2 ox oy nx ny lx ly).a.size = 6 := by
  rw [(C12.sameTopo_grid2 ox oy nx ny lx ly).asz]
  simp [gridMap, Map.empty]

theorem gridMap10_wf (g : GGrid) {ny : Nat} (hnx : 0 < g.nx) (hny : 0 < ny) : WF 3 (gridMap10 g ny) :=
  withStorages_wf (C12.C12_grid2_WF g.ox g.oy g.cx g.cy hnx hny) 10

theorem gridMap10_notag (g : GGrid) (ny : Nat) : ∀ d, (gridMap10 g ny).att sBd d = none := by
  intro d
  exact withStorages_att_ge _ 10 (by rw [buildGrid2_asize]; decide) d

theorem inUse_withStorages {m : Map Val} (k : Nat) {d : Nat} (h : C01.InUse m d) : C01.InUse (m.withStorages k) d := h

theorem carries_withStorages {m : Map Val} (k : Nat) {d : Nat} {P : Val} (h0 : 0 < m.a.size) (h : Carries m d P) :
    Carries (m.withStorages k) d P := by
  refine ⟨h.1, ?_⟩
  rw [cellId_congr_b (withStorages_b m k) (withStorages_n m k), withStorages_att_lt m k h0]
  exact h.2

/-- the side `k` of cell `(ix, iy)` in the map `build_2d_grid` returns: in use, followed by side `k + 1`, starting at the
    corner `k` of the cell -/
theorem buildGrid2_dart (ox oy lx ly : Rat) {nx ny ix iy k : Nat} (hnx : 0 < nx) (hny : 0 < ny) (hx : ix < nx) (hy : iy < ny)
    (hk : k < 4) :
    C01.InUse (buildGrid2 ox oy nx ny lx ly) (dartOf 4 nx ny ix iy 0 k) ∧
    Carries (buildGrid2 ox oy nx ny lx ly) (dartOf 4 nx ny ix iy 0 k)
      (.pt (ox + ((ix + GridVertex.cdx k : Nat) : Rat) * lx) (oy + ((iy + GridVertex.cdy k : Nat) : Rat) * ly) 0) := by
  have st := C12.sameTopo_grid2 ox oy nx ny lx ly
  have wB := C12.C12_grid2_WF ox oy lx ly hnx hny
  have hsq : Gen.squareK = 4 := rfl
  have hn : (buildGrid2 ox oy nx ny lx ly).n = 4 * (nx * ny * 1) + 1 := by
    rw [st.n, gridMap_n, hsq]; ring
  have hle := dartOf_le (K := 4) (nz := 1) hx hy (Nat.lt_succ_self 0) hk
  have hpos := dartOf_pos (K := 4) (nx := nx) (ny := ny) (ix := ix) (iy := iy) (iz := 0) (o := k)
  have iuB : C01.InUse (buildGrid2 ox oy nx ny lx ly) (dartOf 4 nx ny ix iy 0 k) :=
    ⟨by omega, by rw [hn]; omega, by rw [st.unused, gridMap_unused]⟩
  refine ⟨iuB, iuB, ?_⟩
  have hvid : vid2 (buildGrid2 ox oy nx ny lx ly) (dartOf 4 nx ny ix iy 0 k) =
      C03.cellId (buildGrid2 ox oy nx ny lx ly) .vertex (dartOf 4 nx ny ix iy 0 k) := by
    unfold vid2 okVal
    rw [(C03.C03_vertexId2_min wB iuB.1 iuB.2.1).1]
  rw [← hvid]
  have hd : GridVertex.IsDart nx ny (GridVertex.D nx ny ix iy k) := ⟨ix, iy, k, hx, hy, hk, rfl⟩
  have := GridVertex.grid2_att ox oy lx ly hnx hny hd
  rw [GridVertex.pt_D hx hk] at this
  exact this

/-! ## where a crossing lies -/

/-- the point lies inside the grid with one full cell of margin on every side (what `C16_grid_margins` gives for the grid
    the kernel chooses) -/
def FitsGrid (g : GGrid) (ny : Nat) (p : Pt) : Prop :=
  g.ox + g.cx < p.1 ∧ p.1 < g.ox + ((g.nx : Rat) - 1) * g.cx ∧ g.oy + g.cy < p.2 ∧ p.2 < g.oy + ((ny : Rat) - 1) * g.cy

theorem segPoint_between {a b : Pt} {s lo hi : Rat} (s0 : 0 < s) (s1 : s < 1) (ha : lo < a.1 ∧ a.1 < hi) (hb : lo < b.1 ∧ b.1 < hi) :
    lo < (segPoint a b s).1 ∧ (segPoint a b s).1 < hi := by
  have e : (segPoint a b s).1 = (1 - s) * a.1 + s * b.1 := by simp only [segPoint]; ring
  rw [e]
  constructor <;> nlinarith [mul_pos s0 (sub_pos.2 hb.1), mul_pos s0 (sub_pos.2 hb.2), mul_pos (sub_pos.2 s1) (sub_pos.2 ha.1),
    mul_pos (sub_pos.2 s1) (sub_pos.2 ha.2)]

theorem segPoint_between2 {a b : Pt} {s lo hi : Rat} (s0 : 0 < s) (s1 : s < 1) (ha : lo < a.2 ∧ a.2 < hi) (hb : lo < b.2 ∧ b.2 < hi) :
    lo < (segPoint a b s).2 ∧ (segPoint a b s).2 < hi := by
  have e : (segPoint a b s).2 = (1 - s) * a.2 + s * b.2 := by simp only [segPoint]; ring
  rw [e]
  constructor <;> nlinarith [mul_pos s0 (sub_pos.2 hb.1), mul_pos s0 (sub_pos.2 hb.2), mul_pos (sub_pos.2 s1) (sub_pos.2 ha.1),
    mul_pos (sub_pos.2 s1) (sub_pos.2 ha.2)]

/-- an integer `x` with `1 < x + e < n - 1` for some `0 ≤ e ≤ 1` satisfies `1 ≤ x` and `x + 1 < n` … -/
theorem int_bounds {x : Int} {n : Nat} {e c o : Rat} (hc : 0 < c) (he0 : 0 ≤ e) (he1 : e ≤ 1)
    (h1 : o + c < o + ((x : Rat) + e) * c) (h2 : o + ((x : Rat) + e) * c < o + ((n : Rat) - 1) * c) :
    1 ≤ x ∧ x + 1 < (n : Int) := by
  have a1 : (1 : Rat) < (x : Rat) + e := by
    by_contra hh; push_neg at hh; nlinarith
  have a2 : (x : Rat) + e < (n : Rat) - 1 := by
    by_contra hh; push_neg at hh; nlinarith
  have b1 : (0 : Rat) < (x : Rat) := by linarith
  have b2 : (x : Rat) + 1 < (n : Rat) := by linarith
  have c1 : (0 : Int) < x := by exact_mod_cast b1
  have c2 : x + 1 < (n : Int) := by exact_mod_cast b2
  exact ⟨by omega, c2⟩

/-- **the crossing lies on an interior side of a cell of the grid**: in general position, with both ends of the segment
    inside the grid with a margin of one cell, the dart of a reported crossing is the side `k` of a cell `(ix, iy)` that is
    neither in the first nor in the last row / column, and the crossing point is the point at position `t` of that side -/
theorem crossing_cell {g : GGrid} {eps : Rat} {a b : Pt} {ny : Nat} (H : GenPos g eps a b) (fa : FitsGrid g ny a)
    (fb : FitsGrid g ny b) {c : Cross} (hc : c ∈ crossingsOf g eps a b) :
    ∃ ix iy k, 1 ≤ ix ∧ ix + 1 < g.nx ∧ 1 ≤ iy ∧ iy + 1 < ny ∧ k < 4 ∧ c.dart = dartOf 4 g.nx ny ix iy 0 k ∧
      segPoint a b c.s = sidePoint g (ix : Int) (iy : Int) k c.t ∧ 0 < c.t ∧ c.t < 1 := by
  obtain ⟨s0, s1, t0, t1, x, y, k, hk, hd, hp⟩ := C16_crossings_sound H hc
  have Px := segPoint_between s0 s1 ⟨fa.1, fa.2.1⟩ ⟨fb.1, fb.2.1⟩
  have Py := segPoint_between2 s0 s1 ⟨fa.2.2.1, fa.2.2.2⟩ ⟨fb.2.2.1, fb.2.2.2⟩
  rw [hp] at Px Py
  have hcx := H.cx
  have hcy := H.cy
  have key : (1 ≤ x ∧ x + 1 < (g.nx : Int)) ∧ (1 ≤ y ∧ y + 1 < (ny : Int)) := by
    rcases (by omega : k = 0 ∨ k = 1 ∨ k = 2 ∨ k = 3) with rfl | rfl | rfl | rfl
    · simp only [sidePoint, cornerOf] at Px Py
      exact ⟨int_bounds (e := c.t) hcx (le_of_lt t0) (le_of_lt t1) (by linarith [Px.1]) (by linarith [Px.2]),
        int_bounds (e := 0) hcy (le_refl _) (by norm_num) (by linarith [Py.1]) (by linarith [Py.2])⟩
    · simp only [sidePoint, cornerOf] at Px Py
      exact ⟨int_bounds (e := 1) hcx (by norm_num) (le_refl _) (by linarith [Px.1]) (by linarith [Px.2]),
        int_bounds (e := c.t) hcy (le_of_lt t0) (le_of_lt t1) (by linarith [Py.1]) (by linarith [Py.2])⟩
    · simp only [sidePoint, cornerOf] at Px Py
      exact ⟨int_bounds (e := 1 - c.t) hcx (by linarith) (by linarith) (by linarith [Px.1]) (by linarith [Px.2]),
        int_bounds (e := 1) hcy (by norm_num) (le_refl _) (by linarith [Py.1]) (by linarith [Py.2])⟩
    · simp only [sidePoint, cornerOf] at Px Py
      exact ⟨int_bounds (e := 0) hcx (le_refl _) (by norm_num) (by linarith [Px.1]) (by linarith [Px.2]),
        int_bounds (e := 1 - c.t) hcy (by linarith) (by linarith) (by linarith [Py.1]) (by linarith [Py.2])⟩
  obtain ⟨⟨x1, x2⟩, ⟨y1, y2⟩⟩ := key
  have ex : ((x.toNat : Nat) : Int) = x := Int.toNat_of_nonneg (by omega)
  have ey : ((y.toNat : Nat) : Int) = y := Int.toNat_of_nonneg (by omega)
  refine ⟨x.toNat, y.toNat, k, by omega, by omega, by omega, by omega, hk, ?_, by rw [ex, ey]; exact hp, t0, t1⟩
  rw [hd]
  unfold dBase dartOf cellIdx
  have : (1 + 4 * x + (g.nx : Int) * 4 * y + (k : Int)) =
      ((1 + 4 * (x.toNat + g.nx * (y.toNat + ny * 0)) + k : Nat) : Int) := by
    push_cast; rw [ex, ey]; ring
  rw [this, Int.toNat_natCast]

/-! ## `SideCoords` and `HitDartsOK` hold on the grid of the builder -/

theorem gridMap10_β (g : GGrid) (ny i d : Nat) :
    (gridMap10 g ny).β i d = (buildGrid2 g.ox g.oy g.nx ny g.cx g.cy).β i d := rfl

/-- both ends of every segment lie inside the grid with a margin of one cell -/
def FitsAll (g : GGrid) (ny : Nat) (verts : List Pt) (segs : List (Nat × Nat)) : Prop :=
  ∀ seg, seg ∈ segs → FitsGrid g ny (verts.getD seg.1 (0, 0)) ∧ FitsGrid g ny (verts.getD seg.2 (0, 0))

/-- **`SideCoords` is a theorem on the grid of the builder** (C12's corner coordinates + `C16_crossings_sound`) -/
theorem C16_sideCoords_gridMap10 {g : GGrid} {eps : Rat} {verts : List Pt} {segs : List (Nat × Nat)} {ny : Nat}
    (hgen : ∀ seg, seg ∈ segs → GenPos g eps (verts.getD seg.1 (0, 0)) (verts.getD seg.2 (0, 0)))
    (hfit : FitsAll g ny verts segs) : SideCoords (gridMap10 g ny) g eps verts segs := by
  intro seg hseg c hc
  obtain ⟨ix, iy, k, x1, x2, y1, y2, hk, hd, hp, t0, t1⟩ := crossing_cell (hgen seg hseg) (hfit seg hseg).1 (hfit seg hseg).2 hc
  have hnx : 0 < g.nx := by omega
  have hny : 0 < ny := by omega
  have hx : ix < g.nx := by omega
  have hy : iy < ny := by omega
  obtain ⟨iu, c1⟩ := buildGrid2_dart g.ox g.oy g.cx g.cy hnx hny hx hy hk
  obtain ⟨iu2, c2⟩ := buildGrid2_dart g.ox g.oy g.cx g.cy hnx hny hx hy (Nat.mod_lt (k + 1) (by decide : 0 < 4))
  have hb1 : (gridMap10 g ny).β 1 c.dart = dartOf 4 g.nx ny ix iy 0 ((k + 1) % 4) := by
    rw [hd, gridMap10_β]; exact C12.grid2_β1 g.ox g.oy g.cx g.cy hx hy hk
  have h6 : 0 < (buildGrid2 g.ox g.oy g.nx ny g.cx g.cy).a.size := by rw [buildGrid2_asize]; decide
  refine ⟨by rw [hd]; exact inUse_withStorages 10 iu, by rw [hb1]; have := dartOf_pos (K := 4) (nx := g.nx) (ny := ny) (ix := ix) (iy := iy) (iz := 0) (o := (k + 1) % 4); omega,
    _, _, by rw [hd]; exact carries_withStorages 10 h6 c1, by rw [hb1]; exact carries_withStorages 10 h6 c2, ?_⟩
  rw [hp]
  rcases (by omega : k = 0 ∨ k = 1 ∨ k = 2 ∨ k = 3) with rfl | rfl | rfl | rfl <;>
    simp [placeVal, P2.place, P2.lerp, P2.toVal, Val.p2, sidePoint, cornerOf, GridVertex.cdx, GridVertex.cdy] <;>
    ring

/-- **`HitDartsOK` is a theorem on the grid of the builder**: the darts the slots name are in use, have a successor, are
    2-linked (interior sides: `C12_grid2_beta2`) and their opposite darts have a successor -/
theorem C16_hitDartsOK_gridMap10 {g : GGrid} {eps : Rat} {verts : List Pt} {segs : List (Nat × Nat)} {ny : Nat}
    (hgen : ∀ seg, seg ∈ segs → GenPos g eps (verts.getD seg.1 (0, 0)) (verts.getD seg.2 (0, 0)))
    (hfit : FitsAll g ny verts segs) : HitDartsOK (gridMap10 g ny) (slotsAll g eps verts segs) := by
  intro K d t hK
  -- the slot is a crossing of some segment
  have hmem := List.mem_of_getElem? hK
  unfold slotsAll at hmem
  obtain ⟨seg, hseg, hsl⟩ := List.mem_flatMap.1 hmem
  rw [C16_slots_genpos (hgen seg hseg)] at hsl
  obtain ⟨c, hcm, hce⟩ := List.mem_map.1 hsl
  have hc := ((C16_metadata_same_intersections g eps _ _).1 c).1 hcm
  injection hce with hce
  injection hce with hd' _
  obtain ⟨ix, iy, k, x1, x2, y1, y2, hk, hd, _⟩ := crossing_cell (hgen seg hseg) (hfit seg hseg).1 (hfit seg hseg).2 hc
  have hnx : 0 < g.nx := by omega
  have hny : 0 < ny := by omega
  have hx : ix < g.nx := by omega
  have hy : iy < ny := by omega
  obtain ⟨iu, _⟩ := buildGrid2_dart g.ox g.oy g.cx g.cy hnx hny hx hy hk
  rw [← hd', hd]
  have pos : ∀ a b o, dartOf 4 g.nx ny a b 0 o ≠ 0 := fun a b o => by
    have := dartOf_pos (K := 4) (nx := g.nx) (ny := ny) (ix := a) (iy := b) (iz := 0) (o := o); omega
  obtain ⟨q0, q1, q2, q3⟩ := C12.C12_grid2_beta2 g.ox g.oy g.cx g.cy (nx := g.nx) (ny := ny) hx hy
  simp only at q0 q1 q2 q3
  refine ⟨inUse_withStorages 10 iu, by rw [gridMap10_β, C12.grid2_β1 g.ox g.oy g.cx g.cy hx hy hk]; exact pos _ _ _, ?_⟩
  rcases (by omega : k = 0 ∨ k = 1 ∨ k = 2 ∨ k = 3) with rfl | rfl | rfl | rfl
  · rw [gridMap10_β, gridMap10_β, q0, if_neg (by omega)]
    exact ⟨pos _ _ _, by rw [C12.grid2_β1 g.ox g.oy g.cx g.cy hx (by omega) (by decide)]; exact pos _ _ _⟩
  · rw [gridMap10_β, gridMap10_β, q1, if_neg (by omega)]
    exact ⟨pos _ _ _, by rw [C12.grid2_β1 g.ox g.oy g.cx g.cy (by omega) hy (by decide)]; exact pos _ _ _⟩
  · rw [gridMap10_β, gridMap10_β, q2, if_neg (by omega)]
    exact ⟨pos _ _ _, by rw [C12.grid2_β1 g.ox g.oy g.cx g.cy hx (by omega) (by decide)]; exact pos _ _ _⟩
  · rw [gridMap10_β, gridMap10_β, q3, if_neg (by omega)]
    exact ⟨pos _ _ _, by rw [C12.grid2_β1 g.ox g.oy g.cx g.cy (by omega) hy (by decide)]; exact pos _ _ _⟩

/-! ## the chain on the grid of the builder: no hypothesis about the map -/

/-- **C16 — every crossing is a vertex, on the grid of the model's builder**: for the grid `build_2d_grid` returns (with the
    storages of the session), every geometry whose segments are in eps-general position and lie inside the grid with a margin
    of one cell (what `C16_grid_margins` gives for the grid the kernel chooses), every iteration order of the two `HashMap`s
    (each key once, the keys of step 2 the edges hit, those of step 4 intersections): if the run succeeds, every crossing of
    every segment with a grid line is a vertex of the result at the crossing point.  No coordinate / dart hypothesis is left:
    `SideCoords` and `HitDartsOK` come from C12's builder theorems and `C16_crossings_sound`. -/
theorem C16_crossings_are_vertices_on_grid {g : GGrid} {ny : Nat} {eps : Rat} {poi : List Nat} {verts : List Pt}
    {segs : List (Nat × Nat)} {ha : Bool} {keys2 : List Nat} {keys4 : List GV} {m' : Map Val} (hnx : 0 < g.nx) (hny : 0 < ny)
    (hgen : ∀ seg, seg ∈ segs → GenPos g eps (verts.getD seg.1 (0, 0)) (verts.getD seg.2 (0, 0)))
    (hfit : FitsAll g ny verts segs)
    (hk2 : KeysAreHitEdges ((gridMap10 g ny).β 2) (slotsAll g eps verts segs) keys2)
    (hk4 : ∀ k, k ∈ keys4 → k.isCross = true)
    (hrun : pipelineMap (gridMap10 g ny) g eps poi verts segs ha keys2 keys4 = some m') :
    ∀ seg, seg ∈ segs → ∀ s, IsCrossing g (verts.getD seg.1 (0, 0)) (verts.getD seg.2 (0, 0)) s →
      ∃ x, Carries m' x (.pt (segPoint (verts.getD seg.1 (0, 0)) (verts.getD seg.2 (0, 0)) s).1
                             (segPoint (verts.getD seg.1 (0, 0)) (verts.getD seg.2 (0, 0)) s).2 0) :=
  C16_crossings_are_vertices (gridMap10_wf g hnx hny) (gridMap10_notag g ny) hgen (C16_sideCoords_gridMap10 hgen hfit)
    (C16_hitDartsOK_gridMap10 hgen hfit) hk2 hk4 hrun

/-- **C16 / C17 — every point of interest on a chain between two crossings is a vertex, on the grid of the builder** -/
theorem C16_poi_are_vertices_on_grid {g : GGrid} {ny : Nat} {eps : Rat} {poi : List Nat} {verts : List Pt}
    {segs : List (Nat × Nat)} {ha : Bool} {keys2 : List Nat} {keys4 : List GV} {m' : Map Val} (hnx : 0 < g.nx) (hny : 0 < ny)
    (hgen : ∀ seg, seg ∈ segs → GenPos g eps (verts.getD seg.1 (0, 0)) (verts.getD seg.2 (0, 0)))
    (hfit : FitsAll g ny verts segs)
    (hk2 : KeysAreHitEdges ((gridMap10 g ny).β 2) (slotsAll g eps verts segs) keys2)
    (hk4 : ∀ k, k ∈ keys4 → k.isCross = true)
    (hrun : pipelineMap (gridMap10 g ny) g eps poi verts segs ha keys2 keys4 = some m')
    {v : Nat} (hv : OnChain (segmentsOf g eps poi verts segs) keys4 v) :
    ∃ x j, Carries m' x (.pt (verts.getD v (0, 0)).1 (verts.getD v (0, 0)).2 0) ∧
      (ha = true → CarriesS m' sVA x (.tm (.leaf (4 * j)))) :=
  C16_poi_are_vertices (gridMap10_wf g hnx hny) (gridMap10_notag g ny) hgen (C16_hitDartsOK_gridMap10 hgen hfit) hk2 hk4 hrun hv

/-- **C17 — capture on the grid of the builder: each retained point of interest is a vertex anchored to a node** -/
theorem C17_poi_are_node_vertices_on_grid {g : GGrid} {ny : Nat} {eps : Rat} {poi : List Nat} {verts : List Pt}
    {segs : List (Nat × Nat)} {keys2 : List Nat} {keys4 : List GV} {m' : Map Val} (hnx : 0 < g.nx) (hny : 0 < ny)
    (hgen : ∀ seg, seg ∈ segs → GenPos g eps (verts.getD seg.1 (0, 0)) (verts.getD seg.2 (0, 0)))
    (hfit : FitsAll g ny verts segs)
    (hk2 : KeysAreHitEdges ((gridMap10 g ny).β 2) (slotsAll g eps verts segs) keys2)
    (hk4 : ∀ k, k ∈ keys4 → k.isCross = true)
    (hrun : pipelineMap (gridMap10 g ny) g eps poi verts segs true keys2 keys4 = some m')
    {v : Nat} (hv : OnChain (segmentsOf g eps poi verts segs) keys4 v) :
    ∃ x j, C01.InUse m' x ∧
      m'.att 0 (C03.cellId m' .vertex x) = some (.pt (verts.getD v (0, 0)).1 (verts.getD v (0, 0)).2 0) ∧
      m'.att sVA (C03.cellId m' .vertex x) = some (.tm (.leaf (4 * j))) :=
  C17_poi_are_node_vertices (gridMap10_wf g hnx hny) (gridMap10_notag g ny) hgen (C16_hitDartsOK_gridMap10 hgen hfit) hk2 hk4
    hrun hv

/-! ## the hypotheses are satisfiable together -/

/-- a 5 × 3 grid of unit cells; the chain `a → b → c` of `C16Chain` moved by `(1, 1)`: inside the grid with a margin of one
    cell, both segments in general position, `b` a point of interest -/
def exG5 : GGrid := { ox := 0, oy := 0, cx := 1, cy := 1, nx := 5 }
def exVD : List Pt := [(5/4, 3/2), (11/4, 7/4), (15/4, 3/2)]
def exSD : List (Nat × Nat) := [(0, 1), (1, 2)]

theorem exGenPosD1 : GenPos exG5 (1 / 8) (5/4, 3/2) (11/4, 7/4) := by
  have hx : ∀ s : Rat, (segPoint (5/4, 3/2) (11/4, 7/4) s).1 = 5/4 + s * (3/2) := by
    intro s; simp only [segPoint]; ring
  have hy : ∀ s : Rat, (segPoint (5/4, 3/2) (11/4, 7/4) s).2 = 3/2 + s * (1/4) := by
    intro s; simp only [segPoint]; ring
  have nonint : ∀ (q : Rat) (m : Int), (m : Rat) < q → q < (m : Rat) + 1 → ∀ K : Int, q ≠ (K : Rat) :=
    fun q m h1 h2 K e => no_int_between h1 h2 e
  refine ⟨by norm_num [exG5], by norm_num [exG5], by norm_num, by norm_num [exG5], by norm_num [exG5],
    ?_, ?_, ?_, ?_⟩
  · constructor
    · rintro ⟨K, e⟩; exact nonint (5/4) 1 (by norm_num) (by norm_num) K (by simpa [exG5] using e)
    · rintro ⟨K, e⟩; exact nonint (3/2) 1 (by norm_num) (by norm_num) K (by simpa [exG5] using e)
  · constructor
    · rintro ⟨K, e⟩; exact nonint (11/4) 2 (by norm_num) (by norm_num) K (by simpa [exG5] using e)
    · rintro ⟨K, e⟩; exact nonint (7/4) 1 (by norm_num) (by norm_num) K (by simpa [exG5] using e)
  · rintro s s0 s1 ⟨K, e⟩
    rw [hx] at e
    simp only [exG5, zero_add, mul_one] at e ⊢
    have hK : K = 2 := by
      have a1 : (1 : Rat) < (K : Rat) := by linarith
      have a2 : (K : Rat) < 3 := by linarith
      have b1 : (1 : Int) < K := by exact_mod_cast a1
      have b2 : K < 3 := by exact_mod_cast a2
      omega
    subst hK
    have hs : s = 1/2 := by push_cast at e; linarith
    subst hs
    refine ⟨by norm_num, by norm_num, fun L => ?_⟩
    rw [hy]
    rcases le_or_gt L 1 with h | h
    · have : (L : Rat) ≤ 1 := by exact_mod_cast h
      rw [abs_of_nonneg (by linarith)]; linarith
    · have : (2 : Rat) ≤ (L : Rat) := by exact_mod_cast h
      rw [abs_of_nonpos (by linarith)]; linarith
  · rintro s s0 s1 ⟨L, e⟩
    exfalso
    rw [hy] at e
    simp only [exG5, zero_add, mul_one] at e
    exact nonint (3/2 + s * (1/4)) 1 (by push_cast; linarith) (by push_cast; linarith) L e

theorem exGenPosD2 : GenPos exG5 (1 / 8) (11/4, 7/4) (15/4, 3/2) := by
  have hx : ∀ s : Rat, (segPoint (11/4, 7/4) (15/4, 3/2) s).1 = 11/4 + s * 1 := by
    intro s; simp only [segPoint]; ring
  have hy : ∀ s : Rat, (segPoint (11/4, 7/4) (15/4, 3/2) s).2 = 7/4 - s * (1/4) := by
    intro s; simp only [segPoint]; ring
  have nonint : ∀ (q : Rat) (m : Int), (m : Rat) < q → q < (m : Rat) + 1 → ∀ K : Int, q ≠ (K : Rat) :=
    fun q m h1 h2 K e => no_int_between h1 h2 e
  refine ⟨by norm_num [exG5], by norm_num [exG5], by norm_num, by norm_num [exG5], by norm_num [exG5],
    ?_, ?_, ?_, ?_⟩
  · constructor
    · rintro ⟨K, e⟩; exact nonint (11/4) 2 (by norm_num) (by norm_num) K (by simpa [exG5] using e)
    · rintro ⟨K, e⟩; exact nonint (7/4) 1 (by norm_num) (by norm_num) K (by simpa [exG5] using e)
  · constructor
    · rintro ⟨K, e⟩; exact nonint (15/4) 3 (by norm_num) (by norm_num) K (by simpa [exG5] using e)
    · rintro ⟨K, e⟩; exact nonint (3/2) 1 (by norm_num) (by norm_num) K (by simpa [exG5] using e)
  · rintro s s0 s1 ⟨K, e⟩
    rw [hx] at e
    simp only [exG5, zero_add, mul_one] at e ⊢
    have hK : K = 3 := by
      have a1 : (2 : Rat) < (K : Rat) := by linarith
      have a2 : (K : Rat) < 4 := by linarith
      have b1 : (2 : Int) < K := by exact_mod_cast a1
      have b2 : K < 4 := by exact_mod_cast a2
      omega
    subst hK
    have hs : s = 1/4 := by push_cast at e; linarith
    subst hs
    refine ⟨by norm_num, by norm_num, fun L => ?_⟩
    rw [hy]
    rcases le_or_gt L 1 with h | h
    · have : (L : Rat) ≤ 1 := by exact_mod_cast h
      rw [abs_of_nonneg (by linarith)]; linarith
    · have : (2 : Rat) ≤ (L : Rat) := by exact_mod_cast h
      rw [abs_of_nonpos (by linarith)]; linarith
  · rintro s s0 s1 ⟨L, e⟩
    exfalso
    rw [hy] at e
    simp only [exG5, zero_add, mul_one] at e
    exact nonint (7/4 - s * (1/4)) 1 (by push_cast; linarith) (by push_cast; linarith) L e

theorem exD_gen : ∀ seg, seg ∈ exSD → GenPos exG5 (1/8) (exVD.getD seg.1 (0, 0)) (exVD.getD seg.2 (0, 0)) := by
  intro seg hseg
  have : seg = (0, 1) ∨ seg = (1, 2) := by simpa [exSD] using hseg
  rcases this with rfl | rfl
  · exact exGenPosD1
  · exact exGenPosD2

theorem exD_fit : FitsAll exG5 3 exVD exSD := by
  intro seg hseg
  have : seg = (0, 1) ∨ seg = (1, 2) := by simpa [exSD] using hseg
  rcases this with rfl | rfl <;> (constructor <;> (unfold FitsGrid; norm_num [exG5, exVD]))

theorem exD_hits : hitsOf ((gridMap10 exG5 3).β 2) (slotsAll exG5 (1/8) exVD exSD) =
    [(26, { idx := 0, t := 5/8, dart := 26 }), (30, { idx := 1, t := 11/16, dart := 30 })] := by decide +kernel

theorem exD_keys : KeysAreHitEdges ((gridMap10 exG5 3).β 2) (slotsAll exG5 (1/8) exVD exSD) [26, 30] := by
  refine ⟨by decide, fun e => ?_⟩
  rw [exD_hits]
  constructor
  · intro he
    have : e = 26 ∨ e = 30 := by simpa using he
    rcases this with rfl | rfl
    · exact ⟨{ idx := 0, t := 5/8, dart := 26 }, by simp⟩
    · exact ⟨{ idx := 1, t := 11/16, dart := 30 }, by simp⟩
  · rintro ⟨h, hh⟩
    simp only [List.mem_cons, Prod.mk.injEq, List.not_mem_nil, or_false] at hh
    rcases hh with ⟨rfl, _⟩ | ⟨rfl, _⟩ <;> simp

-- on the grid of the builder: the point of interest `b` is a vertex anchored to a node, the crossing of `x = 3` a vertex
example : ∃ m' x j y, pipelineMap (gridMap10 exG5 3) exG5 (1/8) [1] exVD exSD true [26, 30] [.intersec 0] = some m' ∧
    C01.InUse m' x ∧ m'.att 0 (C03.cellId m' .vertex x) = some (.pt (11/4) (7/4) 0) ∧
    m'.att sVA (C03.cellId m' .vertex x) = some (.tm (.leaf (4 * j))) ∧ Carries m' y (.pt 3 (27/16) 0) := by
  have hsome : (pipelineMap (gridMap10 exG5 3) exG5 (1/8) [1] exVD exSD true [26, 30] [.intersec 0]).isSome = true := by
    decide +kernel
  obtain ⟨m', hm'⟩ := Option.isSome_iff_exists.1 hsome
  have hk4 : ∀ k, k ∈ [GV.intersec 0] → k.isCross = true := by
    intro k hk; have : k = .intersec 0 := by simpa using hk
    subst this; rfl
  obtain ⟨x, j, h1, h2, h3⟩ := C17_poi_are_node_vertices_on_grid (v := 1) (by decide) (by decide) exD_gen exD_fit exD_keys hk4 hm'
    ⟨.intersec 0, .poi 1, [.poi 1], .intersec 1, by simp, by decide +kernel,
      Path.step rfl (by decide +kernel) (Path.stop rfl), by decide +kernel, by simp⟩
  obtain ⟨y, hy⟩ := C16_crossings_are_vertices_on_grid (by decide) (by decide) exD_gen exD_fit exD_keys hk4 hm'
    (1, 2) (by simp [exSD]) (1/4)
    (by show IsCrossing exG5 (11/4, 7/4) (15/4, 3/2) (1/4)
        exact ⟨by norm_num, by norm_num, Or.inl ⟨3, by simp [segPoint, exG5]; norm_num⟩⟩)
  have e : segPoint (exVD.getD 1 (0, 0)) (exVD.getD 2 (0, 0)) (1/4) = (3, 27/16) := by decide +kernel
  simp only at hy
  rw [e] at hy
  exact ⟨m', x, j, y, hm', h1, h2, h3, hy⟩

end HC.C16
