/-
  C04, cell level (1-sew / 1-unsew): the identifiers computed by the operation ARE the cells.

  On a well-formed 2-map, a successful `one_sew l r` with `β2 l = x ≠ 0`:
    * unites the vertex cells of `x` and `r` and leaves every other vertex cell unchanged
      (cell calculus A3/A4, `Lemmas/CellCalc.lean`);
    * the old identifiers are the minima of the two old cells, the new identifier is the minimum of
      the united cell, i.e. `min` of the two old identifiers (C03);
    * in every vertex-bound storage the united cell carries `merge*` of the two old values under
      the new identifier (or keeps its value when `x` and `r` already were one cell), the
      identifier that stopped designating a cell is empty, every other slot is unchanged (C04).
  `one_unsew` is the mirror image.
-/
import Honeycomb.Props.C04
import Honeycomb.Lemmas.CellCalc

set_option linter.unusedSimpArgs false
set_option linter.unusedVariables false

namespace HC.C04
open HC HC.C03 HC.CellCalc
variable {X : Type}

theorem run_ok_inj {α : Type} {p : P X α} {m m1 m2 : Map X} {a b : α}
    (h1 : run p m = (.ok a, m1)) (h2 : run p m = (.ok b, m2)) : a = b := by
  rw [h1] at h2; simp at h2; exact h2.1

/-- membership in the vertex cell, through the orbit -/
theorem mem_cell_iff {m : Map X} (h : WF 3 m) {d : Nat} (hd0 : d ≠ 0) (hd : d < m.n) (e : Nat) :
    e ∈ orb m .vertex d ↔ SameCell (g2 m .vertex) m.n d e :=
  C03_orbit2_is_cell h (pol := .vertex) trivial hd0 hd e

/-- **C04, 1-sew at cell level** -/
theorem C04_oneSew2_cells (cfg : Cfg X) (m m' : Map X) (l r : Nat) (u : Unit)
    (hwf : WF 3 m) (hl : C01.InUse m l) (hr : C01.InUse m r) (hfc : m.fc = 0) (hx : m.β 2 l ≠ 0)
    (h : run (oneSew2 cfg m.n l r) m = (.ok u, m')) :
    WF 3 (link1 m l r) ∧ SameTopo (link1 m l r) m' ∧ (∀ s e, (link1 m l r).att s e = m.att s e) ∧
    -- the new vertex partition: the cells of `β2 l` and `r` are united, nothing else changes
    (∀ d e, SameCell (g2 (link1 m l r) .vertex) m.n d e ↔
      United (g2 m .vertex) m.n (m.β 2 l) r d e) ∧
    -- the new identifier is the smaller of the two old ones
    cellId (link1 m l r) .vertex r = min (cellId m .vertex (m.β 2 l)) (cellId m .vertex r) ∧
    -- the data: merged from the two old identifiers into the new one, in every vertex storage
    MergedIn cfg (vStores cfg) (cellId (link1 m l r) .vertex r)
      (cellId m .vertex (m.β 2 l)) (cellId m .vertex r) (link1 m l r) m' := by
  obtain ⟨hl0, hln, _⟩ := hl
  obtain ⟨hr0, hrn, _⟩ := hr
  have hxn : m.β 2 l < m.n := hwf.range 2 (by omega) l hln
  obtain ⟨m1, hlink, htopo, hcase⟩ := C04_oneSew2_effect cfg m.n l r m m' u hfc h
  obtain ⟨_, _, h1, h0, rfl⟩ := oneLinkCore_ok hlink
  have hwf1 : WF 3 (link1 m l r) := hwf.link1 (by omega) hl0 hr0 hln hrn ‹_› ‹_› h1 h0
  rcases hcase with ⟨hc, _⟩ | ⟨_, v1, v2, nv, hv1, hv2, hnv, hm⟩
  · exact absurd hc hx
  have e1 : v1 = cellId m .vertex (m.β 2 l) := run_ok_inj hv1 (C03_vertexId2_min hwf hx hxn).1
  have e2 : v2 = cellId m .vertex r := run_ok_inj hv2 (C03_vertexId2_min hwf hr0 hrn).1
  have e3 : nv = cellId (link1 m l r) .vertex r :=
    run_ok_inj hnv (C03_vertexId2_min hwf1 (m := link1 m l r) hr0 hrn).1
  subst e1 e2 e3
  have hcells : ∀ d e, SameCell (g2 (link1 m l r) .vertex) m.n d e ↔
      United (g2 m .vertex) m.n (m.β 2 l) r d e := by
    intro d e
    have := vertex_cells_link1 hwf hl0 hr0 hln hrn h1 h0 d e
    rw [if_neg hx] at this; exact this
  refine ⟨hwf1, htopo, fun _ _ => rfl, hcells, ?_, hm⟩
  -- the minimum of the united cell
  have sx := cellId_spec hwf (pol := .vertex) trivial hx hxn
  have sr := cellId_spec hwf (pol := .vertex) trivial hr0 hrn
  have sn := cellId_spec hwf1 (pol := .vertex) (m := link1 m l r) trivial hr0 hrn
  -- nv lies in one of the two old cells
  have hnvU : United (g2 m .vertex) m.n (m.β 2 l) r r (cellId (link1 m l r) .vertex r) :=
    (hcells _ _).1 ((mem_cell_iff hwf1 (m := link1 m l r) hr0 hrn _).1 sn.1)
  have lower : min (cellId m .vertex (m.β 2 l)) (cellId m .vertex r) ≤ cellId (link1 m l r) .vertex r := by
    rcases hnvU with a | ⟨a1, a2⟩ | ⟨a1, a2⟩
    · have := sr.2 _ ((mem_cell_iff hwf hr0 hrn _).2 a); omega
    · have := sr.2 _ ((mem_cell_iff hwf hr0 hrn _).2 a2); omega
    · have := sx.2 _ ((mem_cell_iff hwf hx hxn _).2 a2); omega
  -- both old identifiers lie in the new cell
  have inx : cellId m .vertex (m.β 2 l) ∈ orb (link1 m l r) .vertex r := by
    apply (mem_cell_iff hwf1 (m := link1 m l r) hr0 hrn _).2
    exact (hcells _ _).2 (Or.inr (Or.inr ⟨.refl _, (mem_cell_iff hwf hx hxn _).1 sx.1⟩))
  have inr' : cellId m .vertex r ∈ orb (link1 m l r) .vertex r := by
    apply (mem_cell_iff hwf1 (m := link1 m l r) hr0 hrn _).2
    exact (hcells _ _).2 (Or.inl ((mem_cell_iff hwf hr0 hrn _).1 sr.1))
  have up1 := sn.2 _ inx
  have up2 := sn.2 _ inr'
  omega

/-! ## 1-unsew: the old partition is the new one plus the removed pair -/

/-- the map after `one_unlink_core l` -/
def unlink1 (m : Map X) (l : Nat) : Map X := (m.setβ 1 l 0).setβ 0 (m.β 1 l) 0

theorem g2_congr {m m' : Map X} (hβ : ∀ j e, m'.β j e = m.β j e) (pol : Policy) (a : Nat) :
    g2 m' pol a = g2 m pol a := by
  cases pol <;> simp [g2, hβ]

theorem sameCell_of_beta_eq {m m' : Map X} (hβ : ∀ j e, m'.β j e = m.β j e) (n d e : Nat) :
    SameCell (g2 m' .vertex) n d e ↔ SameCell (g2 m .vertex) n d e := by
  apply sameCell_congr
  intro a b
  unfold GStep
  rw [g2_congr hβ]

theorem unlink1_β {m : Map X} (h : WF 3 m) {l : Nat} (hl : l < m.n) (j e : Nat) :
    (unlink1 m l).β j e =
      if 0 = j ∧ m.β 1 l = e then 0 else if 1 = j ∧ l = e then 0 else m.β j e := by
  unfold unlink1
  have hrn : m.β 1 l < m.n := h.range 1 (by omega) l hl
  have s1 : Sized 3 (m.setβ 1 l 0) := h.toSized.setβ _ _ _
  rw [s1.β_setβ (by omega) (by simpa [Map.n_setβ] using hrn), h.toSized.β_setβ (by omega) hl]

/-- re-linking what was unlinked gives back the same β functions -/
theorem link1_unlink1_β {m : Map X} (h : WF 3 m) {l : Nat} (hl : l < m.n) (hne : m.β 1 l ≠ 0) (j e : Nat) :
    (link1 (unlink1 m l) l (m.β 1 l)).β j e = m.β j e := by
  have hwf1 : WF 3 (unlink1 m l) := h.unlink1 (by omega) hl hne
  have hrn : m.β 1 l < m.n := h.range 1 (by omega) l hl
  rw [link1_β hwf1 (m := unlink1 m l) hl hrn, unlink1_β h hl]
  by_cases c0 : 0 = j ∧ m.β 1 l = e
  · obtain ⟨rfl, rfl⟩ := c0
    simp [h.inv01 l hl hne]
  · by_cases c1 : 1 = j ∧ l = e
    · obtain ⟨rfl, rfl⟩ := c1
      simp
    · simp [c0, c1]

/-- **C04, 1-unsew at cell level** -/
theorem C04_oneUnsew2_cells (cfg : Cfg X) (m m' : Map X) (l : Nat) (u : Unit)
    (hwf : WF 3 m) (hl : C01.InUse m l) (hfc : m.fc = 0) (hx : m.β 2 l ≠ 0)
    (h : run (oneUnsew2 cfg m.n l) m = (.ok u, m')) :
    m.β 1 l ≠ 0 ∧ WF 3 (unlink1 m l) ∧ SameTopo (unlink1 m l) m' ∧
    -- the OLD vertex partition is the new one with the cells of `β2 l` and `β1 l` united
    (∀ d e, SameCell (g2 m .vertex) m.n d e ↔
      United (g2 (unlink1 m l) .vertex) m.n (m.β 2 l) (m.β 1 l) d e) ∧
    -- the old identifier is the smaller of the two new ones
    cellId m .vertex (m.β 1 l) =
      min (cellId (unlink1 m l) .vertex (m.β 2 l)) (cellId (unlink1 m l) .vertex (m.β 1 l)) ∧
    -- the data: split from the old identifier into the two new ones, in every vertex storage
    SplitIn cfg (vStores cfg) (cellId (unlink1 m l) .vertex (m.β 2 l))
      (cellId (unlink1 m l) .vertex (m.β 1 l)) (cellId m .vertex (m.β 1 l)) (unlink1 m l) m' := by
  obtain ⟨hl0, hln, _⟩ := hl
  obtain ⟨m1, hunl, htopo, hcase⟩ := C04_oneUnsew2_effect cfg m.n l m m' u hfc h
  obtain ⟨_, _, hne, rfl⟩ := oneUnlinkCore_ok hunl
  have hrn : m.β 1 l < m.n := hwf.range 1 (by omega) l hln
  have hxn : m.β 2 l < m.n := hwf.range 2 (by omega) l hln
  have hwf1 : WF 3 (unlink1 m l) := hwf.unlink1 (by omega) hln hne
  rcases hcase with ⟨hc, _⟩ | ⟨_, vold, nl, nr, hvold, hnl, hnr, hm⟩
  · exact absurd hc hx
  have e1 : vold = cellId m .vertex (m.β 1 l) := run_ok_inj hvold (C03_vertexId2_min hwf hne hrn).1
  have e2 : nl = cellId (unlink1 m l) .vertex (m.β 2 l) :=
    run_ok_inj hnl (C03_vertexId2_min hwf1 (m := unlink1 m l) hx hxn).1
  have e3 : nr = cellId (unlink1 m l) .vertex (m.β 1 l) :=
    run_ok_inj hnr (C03_vertexId2_min hwf1 (m := unlink1 m l) hne hrn).1
  subst e1 e2 e3
  -- β values of the unlinked map needed by the link calculus
  have hb := unlink1_β hwf hln
  have h1' : (unlink1 m l).β 1 l = 0 := by rw [hb]; simp
  have h0' : (unlink1 m l).β 0 (m.β 1 l) = 0 := by rw [hb]; simp
  have h2' : (unlink1 m l).β 2 l = m.β 2 l := by rw [hb]; simp
  have hcells : ∀ d e, SameCell (g2 m .vertex) m.n d e ↔
      United (g2 (unlink1 m l) .vertex) m.n (m.β 2 l) (m.β 1 l) d e := by
    intro d e
    rw [← sameCell_of_beta_eq (link1_unlink1_β hwf hln hne) m.n d e]
    have := vertex_cells_link1 hwf1 (m := unlink1 m l) hl0 hne hln hrn h1' h0' d e
    rw [h2', if_neg hx] at this
    exact this
  refine ⟨hne, hwf1, htopo, hcells, ?_, hm⟩
  have sx := cellId_spec hwf1 (pol := .vertex) (m := unlink1 m l) trivial hx hxn
  have sr := cellId_spec hwf1 (pol := .vertex) (m := unlink1 m l) trivial hne hrn
  have so := cellId_spec hwf (pol := .vertex) trivial hne hrn
  have hoU : United (g2 (unlink1 m l) .vertex) m.n (m.β 2 l) (m.β 1 l) (m.β 1 l) (cellId m .vertex (m.β 1 l)) :=
    (hcells _ _).1 ((mem_cell_iff hwf hne hrn _).1 so.1)
  have lower : min (cellId (unlink1 m l) .vertex (m.β 2 l)) (cellId (unlink1 m l) .vertex (m.β 1 l))
      ≤ cellId m .vertex (m.β 1 l) := by
    rcases hoU with a | ⟨a1, a2⟩ | ⟨a1, a2⟩
    · have := sr.2 _ ((mem_cell_iff hwf1 (m := unlink1 m l) hne hrn _).2 a); omega
    · have := sr.2 _ ((mem_cell_iff hwf1 (m := unlink1 m l) hne hrn _).2 a2); omega
    · have := sx.2 _ ((mem_cell_iff hwf1 (m := unlink1 m l) hx hxn _).2 a2); omega
  have inx : cellId (unlink1 m l) .vertex (m.β 2 l) ∈ orb m .vertex (m.β 1 l) := by
    apply (mem_cell_iff hwf hne hrn _).2
    exact (hcells _ _).2 (Or.inr (Or.inr ⟨.refl _, (mem_cell_iff hwf1 (m := unlink1 m l) hx hxn _).1 sx.1⟩))
  have inr' : cellId (unlink1 m l) .vertex (m.β 1 l) ∈ orb m .vertex (m.β 1 l) := by
    apply (mem_cell_iff hwf hne hrn _).2
    exact (hcells _ _).2 (Or.inl ((mem_cell_iff hwf1 (m := unlink1 m l) hne hrn _).1 sr.1))
  have up1 := so.2 _ inx
  have up2 := so.2 _ inr'
  omega

/-! ## 2-sew at cell level (both darts have a successor) -/

/-- the minimum of a union of two cells -/
theorem cellId_of_union {m m1 : Map X} (hwf : WF 3 m) (hwf1 : WF 3 m1) (hn : m1.n = m.n)
    {c p q : Nat} (hc0 : c ≠ 0) (hc : c < m.n) (hp0 : p ≠ 0) (hp : p < m.n) (hq0 : q ≠ 0) (hq : q < m.n)
    (hcell : ∀ x, SameCell (g2 m1 .vertex) m.n c x ↔
      (SameCell (g2 m .vertex) m.n p x ∨ SameCell (g2 m .vertex) m.n q x)) :
    cellId m1 .vertex c = min (cellId m .vertex p) (cellId m .vertex q) := by
  have sp := cellId_spec hwf (pol := .vertex) trivial hp0 hp
  have sq := cellId_spec hwf (pol := .vertex) trivial hq0 hq
  have hc' : c < m1.n := by rw [hn]; exact hc
  have sc := cellId_spec hwf1 (pol := .vertex) (m := m1) trivial hc0 hc'
  have mc : ∀ x, x ∈ orb m1 .vertex c ↔ SameCell (g2 m1 .vertex) m.n c x := by
    intro x; have := mem_cell_iff hwf1 (m := m1) hc0 hc' x; rw [hn] at this; exact this
  have hU := (hcell _).1 ((mc _).1 sc.1)
  have lower : min (cellId m .vertex p) (cellId m .vertex q) ≤ cellId m1 .vertex c := by
    rcases hU with a | a
    · have := sp.2 _ ((mem_cell_iff hwf hp0 hp _).2 a); omega
    · have := sq.2 _ ((mem_cell_iff hwf hq0 hq _).2 a); omega
  have up1 := sc.2 _ ((mc _).2 ((hcell _).2 (Or.inl ((mem_cell_iff hwf hp0 hp _).1 sp.1))))
  have up2 := sc.2 _ ((mc _).2 ((hcell _).2 (Or.inr ((mem_cell_iff hwf hq0 hq _).1 sq.1))))
  omega

/-- **C04, 2-sew at cell level** (both darts have a successor; the orientation test passed) -/
theorem C04_twoSew2_cells (cfg : Cfg X) (m m' : Map X) (l r : Nat) (u : Unit)
    (hwf : WF 3 m) (hl : C01.InUse m l) (hr : C01.InUse m r) (hlr : l ≠ r) (hfc : m.fc = 0)
    (hbl : m.β 1 l ≠ 0) (hbr : m.β 1 r ≠ 0)
    (h : run (twoSew2 cfg m.n l r) m = (.ok u, m')) :
    WF 3 (link2 m l r) ∧ SameTopo (link2 m l r) m' ∧
    -- the new vertex partition: cell(l) ∪ cell(β1 r), then cell(r) ∪ cell(β1 l); nothing else changes
    (∃ R : Nat → Nat → Prop,
      (∀ d e, R d e ↔ United (g2 m .vertex) m.n l (m.β 1 r) d e) ∧
      (∀ d e, SameCell (g2 (link2 m l r) .vertex) m.n d e ↔ UnitedR R r (m.β 1 l) d e)) ∧
    -- provided the two end points of the new edge are different vertices AFTER the call, the two
    -- new identifiers are the minima of the respective pairs of old identifiers
    (¬ SameCell (g2 (link2 m l r) .vertex) m.n l r →
      cellId (link2 m l r) .vertex l = min (cellId m .vertex l) (cellId m .vertex (m.β 1 r)) ∧
      cellId (link2 m l r) .vertex r = min (cellId m .vertex (m.β 1 l)) (cellId m .vertex r)) ∧
    -- the data, in the order of the code (built-in vertices for both ends, user vertex storages
    -- for both ends, edge storages), between the identifiers just described
    (∃ ma mb mc md,
      MergedIn cfg [0] (cellId (link2 m l r) .vertex l) (cellId m .vertex l) (cellId m .vertex (m.β 1 r))
        (link2 m l r) ma ∧
      MergedIn cfg [0] (cellId (link2 m l r) .vertex r) (cellId m .vertex (m.β 1 l)) (cellId m .vertex r) ma mb ∧
      MergedIn cfg (storagesOf cfg 0) (cellId (link2 m l r) .vertex l) (cellId m .vertex l)
        (cellId m .vertex (m.β 1 r)) mb mc ∧
      MergedIn cfg (storagesOf cfg 0) (cellId (link2 m l r) .vertex r) (cellId m .vertex (m.β 1 l))
        (cellId m .vertex r) mc md ∧
      MergedIn cfg (eStores cfg) (min l r) l r md m') := by
  obtain ⟨hl0, hln, hlu⟩ := hl
  obtain ⟨hr0, hrn, hru⟩ := hr
  have han : m.β 1 r < m.n := hwf.range 1 (by omega) r hrn
  have hbn : m.β 1 l < m.n := hwf.range 1 (by omega) l hln
  obtain ⟨lv, b1rv, b1lv, rv, m1, lvn, rvn, eid, ma, mb, mc, md, hlv, hb1rv, hb1lv, hrv, _, hlink,
    hlvn, hrvn, heid, rA', rB', rC', rD', rE'⟩ := C04_twoSew2_both cfg m.n l r m m' u hfc hbl hbr h
  obtain ⟨_, _, h2l, h2r, rfl⟩ := iLinkCore_ok hlink
  have hwf1 : WF 3 (link2 m l r) := hwf.linkI (by omega) (by omega) hl0 hr0 hlr hln hrn hlu hru h2l h2r
  have e1 : lv = cellId m .vertex l := run_ok_inj hlv (C03_vertexId2_min hwf hl0 hln).1
  have e2 : b1rv = cellId m .vertex (m.β 1 r) := run_ok_inj hb1rv (C03_vertexId2_min hwf hbr han).1
  have e3 : b1lv = cellId m .vertex (m.β 1 l) := run_ok_inj hb1lv (C03_vertexId2_min hwf hbl hbn).1
  have e4 : rv = cellId m .vertex r := run_ok_inj hrv (C03_vertexId2_min hwf hr0 hrn).1
  have e5 : lvn = cellId (link2 m l r) .vertex l :=
    run_ok_inj hlvn (C03_vertexId2_min hwf1 (m := link2 m l r) hl0 hln).1
  have e6 : rvn = cellId (link2 m l r) .vertex r :=
    run_ok_inj hrvn (C03_vertexId2_min hwf1 (m := link2 m l r) hr0 hrn).1
  -- the new edge id: β2 l = r in the linked map
  have e7 : eid = min l r := by
    have hrl : ¬ r = l := fun hh => hlr hh.symm
    have hb2 : (link2 m l r).β 2 l = r := by rw [link2_β hwf hln hrn]; simp [hlr, hrl]
    have hok : (link2 m l r).okβ 2 l = true := (hwf1.toSized.okβ 2 l).2 ⟨by omega, hln⟩
    have heid' : run (edgeId2 (X := X) l) (link2 m l r) = (.ok eid, link2 m l r) := heid
    unfold edgeId2 at heid'
    simp only [Prog.bind_eq, bind, run_rB, hok, if_true, hb2, hr0, if_false, Prog.pure_eq, run_ret,
      Prod.mk.injEq, Out.ok.injEq] at heid'
    rw [← heid'.1]; exact Nat.min_comm _ _
  subst e1 e2 e3 e4 e5 e6 e7
  have htopo : SameTopo (link2 m l r) m' :=
    (((rA'.topo.trans rB'.topo).trans rC'.topo).trans rD'.topo).trans rE'.topo
  obtain ⟨R, hR, hcells⟩ := vertex_cells_link2 hwf hl0 hr0 hlr hln hrn h2l h2r
  have hR' : ∀ d e, R d e ↔ United (g2 m .vertex) m.n l (m.β 1 r) d e := by
    intro d e; rw [hR, if_neg hbr]
  have hcells' : ∀ d e, SameCell (g2 (link2 m l r) .vertex) m.n d e ↔ UnitedR R r (m.β 1 l) d e := by
    intro d e; rw [hcells, if_neg hbl]
  refine ⟨hwf1, htopo, ⟨R, hR', hcells'⟩, ?_, ⟨ma, mb, mc, md, rA', rB', rC', rD', rE'⟩⟩
  intro hsep
  -- R is an equivalence-like relation: we only need reflexivity-type facts from `United`
  have Rrefl : ∀ d, R d d := fun d => (hR' d d).2 (Or.inl (.refl d))
  -- r and β1 l are in one new cell; l and β1 r are in one R-class
  have hrb : SameCell (g2 (link2 m l r) .vertex) m.n r (m.β 1 l) :=
    (hcells' _ _).2 (Or.inr (Or.inl ⟨Rrefl _, Rrefl _⟩))
  have hla : R l (m.β 1 r) := (hR' _ _).2 (Or.inr (Or.inl ⟨.refl _, .refl _⟩))
  -- consequences of the separation: l is R-related neither to r nor to β1 l
  have nlr : ¬ R l r := fun hh => hsep ((hcells' _ _).2 (Or.inl hh))
  have nlb : ¬ R l (m.β 1 l) := fun hh =>
    hsep (.trans ((hcells' _ _).2 (Or.inl hh)) (.symm hrb))
  have Rsymm : ∀ d e, R d e → R e d := by
    intro d e hh
    exact (hR' _ _).2 (United.symm ((hR' _ _).1 hh))
  have Rtrans : ∀ d b e, R d b → R b e → R d e := by
    intro d b e h1 h2
    exact (hR' _ _).2 (United.trans ((hR' _ _).1 h1) ((hR' _ _).1 h2))
  constructor
  · -- the new cell of l is cell(l) ∪ cell(β1 r)
    apply cellId_of_union hwf hwf1 rfl hl0 hln hl0 hln hbr han
    intro x
    rw [hcells']
    constructor
    · rintro (h1 | ⟨h1, _⟩ | ⟨h1, _⟩)
      · rcases (hR' _ _).1 h1 with a | ⟨_, a2⟩ | ⟨a1, a2⟩
        · exact Or.inl a
        · exact Or.inr a2
        · exact Or.inl a2
      · exact absurd h1 nlr
      · exact absurd h1 nlb
    · rintro (h1 | h1)
      · exact Or.inl ((hR' _ _).2 (Or.inl h1))
      · exact Or.inl ((hR' _ _).2 (Or.inr (Or.inl ⟨.refl _, h1⟩)))
  · -- the new cell of r is cell(β1 l) ∪ cell(r)
    apply cellId_of_union hwf hwf1 rfl hr0 hrn hbl hbn hr0 hrn
    intro x
    rw [hcells']
    -- R-classes of r and β1 l do not contain l or β1 r
    have nrl : ¬ R r l := fun hh => nlr (Rsymm _ _ hh)
    have nbl : ¬ R (m.β 1 l) l := fun hh => nlb (Rsymm _ _ hh)
    have plain : ∀ c, ¬ R c l → ∀ y, R c y → SameCell (g2 m .vertex) m.n c y := by
      intro c hc y hy
      rcases (hR' _ _).1 hy with a | ⟨a1, _⟩ | ⟨a1, _⟩
      · exact a
      · exact absurd ((hR' _ _).2 (Or.inl a1)) hc
      · exact absurd (Rtrans _ _ _ ((hR' _ _).2 (Or.inl a1)) (Rsymm _ _ hla)) hc
    constructor
    · rintro (h1 | ⟨_, h2⟩ | ⟨_, h2⟩)
      · exact Or.inr (plain r nrl x h1)
      · exact Or.inl (plain _ nbl x h2)
      · exact Or.inr (plain r nrl x h2)
    · rintro (h1 | h1)
      · exact Or.inr (Or.inl ⟨Rrefl _, (hR' _ _).2 (Or.inl h1)⟩)
      · exact Or.inl ((hR' _ _).2 (Or.inl h1))

/-! non-vacuity: the two triangles of C01 glued along 2|4; dart 2 is 1-unsewn (its β2 image is 4,
    so the vertex {3, 5} splits into {3} and {5}) and sewn back (the two cells are united again) -/
def glued : Map Val := (run (twoSew2 (stdCfg 3 7) 9 2 4) C01.exMap).2
def opened : Map Val := (run (oneUnsew2 (stdCfg 3 7) 9 2) glued).2

example : WF 3 glued ∧ glued.fc = 0 ∧ glued.n = 9 ∧ glued.β 2 2 = 4 := by decide +kernel
example : (run (oneUnsew2 (stdCfg 3 7) glued.n 2) glued).1 = .ok () := by decide +kernel
example : cellId glued .vertex 3 = 3 ∧ cellId opened .vertex 4 = 4 ∧ cellId opened .vertex 3 = 3 := by
  decide +kernel
example : WF 3 opened ∧ opened.fc = 0 ∧ opened.β 2 2 = 4 ∧ opened.β 1 2 = 0 ∧ opened.β 0 3 = 0 := by
  decide +kernel
example : (run (oneSew2 (stdCfg 3 7) opened.n 2 3) opened).1 = .ok () := by decide +kernel

/-- hypotheses of `C04_twoSew2_cells` on the two triangles of C01, sewing 2 with 4: both darts have
    a successor, the call succeeds, the two end points stay different vertices (different ids ⇔
    different cells, C03), and the new ids are the minima: {2,5} ↦ 2, {3,4} ↦ 3 -/
example : C01.InUse C01.exMap 2 ∧ C01.InUse C01.exMap 4 ∧ C01.exMap.β 1 2 ≠ 0 ∧ C01.exMap.β 1 4 ≠ 0 ∧
    (run (twoSew2 (stdCfg 3 7) C01.exMap.n 2 4) C01.exMap).1 = .ok () := by decide +kernel
example : cellId (link2 C01.exMap 2 4) .vertex 2 = 2 ∧ cellId (link2 C01.exMap 2 4) .vertex 4 = 3 ∧
    cellId C01.exMap .vertex 2 = 2 ∧ cellId C01.exMap .vertex 5 = 5 ∧
    cellId C01.exMap .vertex 3 = 3 ∧ cellId C01.exMap .vertex 4 = 4 := by decide +kernel

end HC.C04
