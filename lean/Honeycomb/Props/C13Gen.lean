/-
  C13 — the fan kernels of `honeycomb-kernels/src/triangulation/fan.rs` (`process_cell`, `process_convex_cell`) and the
  shared pre-check `check_requirements` with the variants of `TriangulateError` (`triangulation/mod.rs`), TRANSLATED from
  the source on every run (`Gen/Fan.lean`, written by tools/gen_lean.py, generator `fan`), interpreted in the model's
  transaction monad, are EQUAL as programs to the hand-written `checkRequirements`, `fanLoop`, `fanFrom`,
  `fanConvexCell`, `fanTest`, `fanCell` of Model/Kernels/Fan.lean, which the C13 theorems are proved about.

  Translated as data: the arms of both `match`es of `check_requirements` (patterns, range kinds, the error variant and
  its payload), the constants of the scrutinee, the variant NAMES of the enum, the message payloads; for both kernels
  the statements before / inside / after the `chunks_exact(2)` loop (β reads, `vertex_id_transac`, `read_vertex …
  .unwrap()`, `sew::<I>` / `unsew::<I>` with their arguments in order, `write_vertex`), the start and the update of the
  loop variable, the orbit policy.  Recognised as rigid shapes (the translator refuses anything else): the collecting
  loops, `if let Err(e) = check_requirements(n, new_darts.len()) { abort(e)?; }`, the `chunks_exact(2)` header with its
  `let [d1, d2] = sl else { unreachable!() }`, and the star search, of which the range start, the two vertex indices
  of a side, the argument order of `cross_product_from_vertices`, the comparison with the reference `signum` and the
  comparison with `T::epsilon()` are data (`Gen.Fan.starShape`).  The public `sew::<I>` / `unsew::<I>` are read as
  `one_sew` / `two_sew` / `one_unsew` / `two_unsew` (`fanSewCall`); that dispatch is itself translated and proved in
  Props/C15Gen.lean (`C15_gen_sew_dispatch`) and Props/C01GenApi.lean, the callees in Props/C01Gen2.lean.
-/
import Honeycomb.Gen.Fan
import Honeycomb.Model.Kernels.Fan
import Honeycomb.Props.C13

namespace HC.GenTie
open HC HC.C13

/-! ## `TriangulateError` and `check_requirements` -/

/-- `TriangulateError::<variant v>` with payload kind `pk` (see the header of Gen/Fan.lean) -/
def fanErrG (v pk : Nat) (diff : Int) (msg : String) : Err :=
  let name := Gen.Fan.errVariants.getD v ""
  match pk with
  | 0 => ⟨name, []⟩
  | 1 => ⟨name, [diff.natAbs]⟩
  | 2 => ⟨name, [diff.toNat]⟩
  | _ => ⟨name ++ " " ++ msg, []⟩

/-- an arm body: `none` = `{}` -/
def fanAct (diff : Int) : List Nat → Option Err
  | [v, pk, k] => some (fanErrG v pk diff (Gen.Fan.msgs.getD k ""))
  | _ => none

def fanFaceArms (nFace : Nat) : List (List Nat × List Nat) → Option Err
  | [] => none
  | (pats, act) :: rest => if nFace ∈ pats then fanAct 0 act else fanFaceArms nFace rest

/-- does `diff` match the pattern? -/
def fanPatHolds (diff : Int) : List Nat → Bool
  | [0, b] => decide (diff < (b : Int))
  | [1, b] => decide (diff = (b : Int))
  | [2, b] => decide ((b : Int) ≤ diff)
  | [3, b] => decide (diff ≤ (b : Int))
  | _ => false

def fanDiffArms (diff : Int) : List (List Nat × List Nat) → Option Err
  | [] => none
  | (pat, act) :: rest => if fanPatHolds diff pat then fanAct diff act else fanDiffArms diff rest

/-- the meaning of the translated `check_requirements` -/
def fanInterpCheck (nFace nAlloc : Nat) : Except Err Unit :=
  match fanFaceArms nFace Gen.Fan.faceArms with
  | some e => .error e
  | none =>
    match Gen.Fan.diffExpr with
    | [a, b] =>
      match fanDiffArms ((nAlloc : Int) - ((nFace : Int) - (a : Int)) * (b : Int)) Gen.Fan.diffArms with
      | some e => .error e
      | none => .ok ()
    | _ => .ok ()

/-- the error variants the kernels produce, by their translated names -/
theorem fanErrG_names (diff : Int) :
    fanErrG 0 0 diff "" = errAlreadyTriangulated ∧ fanErrG 2 0 diff "" = errNonFannable ∧
    fanErrG 3 1 diff "" = errNotEnoughDarts diff.natAbs ∧ fanErrG 4 2 diff "" = errTooManyDarts diff.toNat ∧
    fanErrG 5 3 diff "less-than-3-vertices" = errUndefinedFace "less-than-3-vertices" ∧
    fanErrG 5 3 diff "one-or-more-undefined-vertices" = errUndefinedFace "one-or-more-undefined-vertices" :=
  ⟨rfl, rfl, rfl, rfl, rfl, rfl⟩

/-- **tie of `check_requirements`** -/
theorem C13_gen_check_requirements (nFace nAlloc : Nat) :
    fanInterpCheck nFace nAlloc = checkRequirements nFace nAlloc := by
  unfold fanInterpCheck checkRequirements
  simp only [Gen.Fan.faceArms, Gen.Fan.diffExpr, Gen.Fan.diffArms, Gen.Fan.msgs, fanFaceArms, fanDiffArms, fanAct,
    fanPatHolds, List.mem_cons, List.not_mem_nil, or_false, List.getD_cons_zero, decide_eq_true_eq, Int.cast_ofNat_Int]
  by_cases h12 : nFace = 1 ∨ nFace = 2
  · rw [if_pos h12, if_pos h12]; rfl
  · rw [if_neg h12, if_neg h12]
    by_cases h3 : nFace = 3
    · rw [if_pos h3, if_pos h3]; rfl
    · rw [if_neg h3, if_neg h3]
      by_cases hlt : (nAlloc : Int) - ((nFace : Int) - 3) * 2 < 0
      · simp only [if_pos hlt]; rfl
      · simp only [if_neg hlt]
        by_cases h0 : (nAlloc : Int) - ((nFace : Int) - 3) * 2 = 0
        · simp only [if_pos h0]
        · have h1 : (1 : Int) ≤ (nAlloc : Int) - ((nFace : Int) - 3) * 2 := by omega
          simp only [if_neg h0, if_pos h1]; rfl

/-! ## the straight-line parts and the loop -/

/-- `cmap.sew::<I>(t, a, b)` (k = 0) / `cmap.unsew::<I>(t, a)` (k = 1) -/
def fanSewCall (cfg : Cfg Val) (n : Nat) : Nat → Nat → List Nat → P Val Unit
  | 0, 1, [a, b] => oneSew2 cfg n a b
  | 0, 2, [a, b] => twoSew2 cfg n a b
  | 1, 1, [a] => oneUnsew2 cfg n a
  | 1, 2, [a] => twoUnsew2 cfg n a
  | _, _, _ => Prog.panic

/-- operand: parameters of the part, then the variables bound in it -/
def fanArg (ps env : List Nat) (k : Nat) : Nat := if k < 20 then ps.getD k 0 else env.getD (k - 20) 0

/-- the meaning of a straight-line instruction list, continued by `k` with the variables bound -/
def fanRun {α : Type} (cfg : Cfg Val) (n : Nat) (ps : List Nat) :
    List Nat → List Val → List (Nat × List Nat) → (List Nat → List Val → P Val α) → P Val α
  | env, vals, [], k => k env vals
  | env, vals, (1, [i, a]) :: rest, k => do
      let v ← rB i (fanArg ps env a)
      fanRun cfg n ps (env ++ [v]) vals rest k
  | env, vals, (5, [a]) :: rest, k => do
      let v ← vertexId2 n (fanArg ps env a)
      fanRun cfg n ps (env ++ [v]) vals rest k
  | env, vals, (62, [a]) :: rest, k => do
      let v ← rA 0 (fanArg ps env a)
      match v with
      | none => Prog.panic
      | some v => fanRun cfg n ps env (vals ++ [v]) rest k
  | env, vals, (50, [s, i, a, b]) :: rest, k => do
      fanSewCall cfg n s i [fanArg ps env a, fanArg ps env b]
      fanRun cfg n ps env vals rest k
  | env, vals, (50, [s, i, a]) :: rest, k => do
      fanSewCall cfg n s i [fanArg ps env a]
      fanRun cfg n ps env vals rest k
  | env, vals, (64, [a, v]) :: rest, k => do
      let _ ← writeVtx (fanArg ps env a) (vals.getD v (.pt 0 0 0))
      fanRun cfg n ps env vals rest k
  | _, _, _ :: _, _ => Prog.panic

/-- `for sl in new_darts.chunks_exact(2) { let [d1, d2] = sl else { unreachable!() }; body; d0 = next }`; returns the
    last `d0` -/
def fanInterpLoop (cfg : Cfg Val) (n : Nat) (body : List (Nat × List Nat)) (next : Nat) :
    Nat → List (Nat × Nat) → P Val Nat
  | d0, [] => pure d0
  | d0, (d1, d2) :: rest =>
      fanRun cfg n [d0, d1, d2] [] [] body fun env _ => fanInterpLoop cfg n body next (fanArg [d0, d1, d2] env next) rest

/-- **one turn of the translated fan loop** (of `process_convex_cell`): the reads, the unsew and the four sews of the
    source, in order, with their arguments, then the loop again from `d2` -/
theorem C13_gen_fan_loop_step (cfg : Cfg Val) (n d0 d1 d2 : Nat) (rest : List (Nat × Nat)) :
    fanInterpLoop cfg n Gen.Fan.convexBody Gen.Fan.convexNext d0 ((d1, d2) :: rest) = (do
      let b1d0 ← rB 1 d0
      let b1b1d0 ← rB 1 b1d0
      oneUnsew2 cfg n b1d0
      twoSew2 cfg n d1 d2
      oneSew2 cfg n d2 b1b1d0
      oneSew2 cfg n b1d0 d1
      oneSew2 cfg n d1 d0
      fanInterpLoop cfg n Gen.Fan.convexBody Gen.Fan.convexNext d2 rest) := by
  simp only [fanInterpLoop, Gen.Fan.convexBody, Gen.Fan.convexNext, fanRun, fanArg, fanSewCall, List.getD,
    List.nil_append, List.cons_append, List.getElem?_cons_zero, List.getElem?_cons_succ, Option.getD_some,
    Nat.reduceSub, Nat.reduceLT, if_true, if_false, Prog.bind_eq]

/-- **tie of the fan loop** (`process_convex_cell`) -/
theorem C13_gen_fan_loop (cfg : Cfg Val) (n : Nat) : ∀ (pairs : List (Nat × Nat)) (d0 : Nat),
    fanInterpLoop cfg n Gen.Fan.convexBody Gen.Fan.convexNext d0 pairs = fanLoop cfg n d0 pairs
  | [], d0 => by simp only [fanInterpLoop, fanLoop]
  | (d1, d2) :: rest, d0 => by
      rw [C13_gen_fan_loop_step]
      simp only [fanLoop, C13_gen_fan_loop cfg n rest d2]

/-- the loop of `process_cell` is the same instruction list -/
theorem fanCellBody_eq : Gen.Fan.cellBody = Gen.Fan.convexBody ∧ Gen.Fan.cellNext = Gen.Fan.convexNext := ⟨rfl, rfl⟩

/-- the tail common to both kernels, from the apex dart -/
def fanInterpFrom (cfg : Cfg Val) (n sdart : Nat) (nds : List Nat)
    (pre : List (Nat × List Nat)) (start : Nat) (body : List (Nat × List Nat)) (next : Nat)
    (post : List (Nat × List Nat)) : P Val Unit :=
  fanRun cfg n [sdart] [] [] pre fun _ vals => do
    let d0 ← fanInterpLoop cfg n body next (fanArg [sdart] [] start) (chunks2 nds)
    fanRun cfg n [sdart, d0] [] vals post fun _ _ => pure ()

theorem fan_bind_unit (p : P Val Unit) : p.bind (fun _ => Prog.ret ()) = p := Prog.bind_ret p

/-- **tie of the tail of `process_convex_cell`** (everything after the pre-checks) -/
theorem C13_gen_fanFrom_convex (cfg : Cfg Val) (n sdart : Nat) (nds : List Nat) :
    fanInterpFrom cfg n sdart nds Gen.Fan.convexPre Gen.Fan.convexStart Gen.Fan.convexBody Gen.Fan.convexNext
      Gen.Fan.convexPost = fanFrom cfg n sdart nds := by
  unfold fanInterpFrom fanFrom
  simp only [Gen.Fan.convexPre, Gen.Fan.convexStart, Gen.Fan.convexPost, fanRun, fanArg, fanSewCall, List.getD,
    List.nil_append, List.cons_append, List.getElem?_cons_zero, List.getElem?_cons_succ, Option.getD_some,
    Nat.reduceSub, Nat.reduceLT, if_true, if_false, Prog.bind_eq, Prog.pure_eq, C13_gen_fan_loop]
  rfl

/-- **tie of the tail of `process_cell`** -/
theorem C13_gen_fanFrom_cell (cfg : Cfg Val) (n sdart : Nat) (nds : List Nat) :
    fanInterpFrom cfg n sdart nds Gen.Fan.cellPre Gen.Fan.cellStart Gen.Fan.cellBody Gen.Fan.cellNext
      Gen.Fan.cellPost = fanFrom cfg n sdart nds :=
  C13_gen_fanFrom_convex cfg n sdart nds

/-! ## `process_convex_cell` -/

/-- `OrbitPolicy::…` by its index in the translator's list -/
def fanPolicy : Nat → Policy
  | 0 => .vertex
  | 1 => .vertexLinear
  | 2 => .edge
  | 3 => .face
  | _ => .faceLinear

/-- the translated `process_convex_cell` -/
def fanInterpConvex (cfg : Cfg Val) (n face : Nat) (nds : List Nat) : P Val Unit := do
  let darts ← orbit2 n (fanPolicy Gen.Fan.convexPolicy) face
  match fanInterpCheck darts.length nds.length with
  | .error e => abort e
  | .ok () =>
      (fanInterpFrom cfg n face nds Gen.Fan.convexPre Gen.Fan.convexStart Gen.Fan.convexBody Gen.Fan.convexNext
        Gen.Fan.convexPost)

/-- **tie of `process_convex_cell`** -/
theorem C13_gen_fanConvex (cfg : Cfg Val) (n face : Nat) (nds : List Nat) :
    fanInterpConvex cfg n face nds = fanConvexCell cfg n face nds := by
  unfold fanInterpConvex fanConvexCell
  simp only [C13_gen_check_requirements, C13_gen_fanFrom_convex, Gen.Fan.convexPolicy, fanPolicy]
  rfl

/-- **C13 (a) stated on the translated code**: the translated `check_requirements` accepts exactly a face of at
    least 4 darts with `2 (n - 3)` spare darts -/
theorem C13_gen_check_requirements_ok_iff (nf na : Nat) :
    fanInterpCheck nf na = .ok () ↔ 4 ≤ nf ∧ na = 2 * (nf - 3) := by
  rw [C13_gen_check_requirements]
  exact C13_check_requirements_ok_iff nf na

/-! ## `process_cell`: the vertex loop, the star search -/

/-- `for &d in &darts { vid = vertex_id(d); read_vertex(vid) or abort(<translated error>) }` -/
def fanVerticesG (n : Nat) (e : Option Err) : List Nat → P Val (List Val)
  | [] => pure []
  | d :: ds => do
      let vid ← vertexId2 n d
      let v ← rA 0 vid
      match v, e with
      | some v, _ => do
          let rest ← fanVerticesG n e ds
          pure (v :: rest)
      | none, some e => abort e
      | none, none => Prog.panic

theorem fanVerticesG_eq (n : Nat) : ∀ ds : List Nat,
    fanVerticesG n (fanAct 0 Gen.Fan.cellUndef) ds = faceVertices n ds
  | [] => rfl
  | d :: ds => by
      simp only [fanVerticesG, faceVertices, fanVerticesG_eq n ds]
      congr 1; funext vid; congr 1; funext v
      cases v <;> rfl

def fanSegIdx (n i : Nat) : Nat → Nat
  | 0 => i
  | _ => (i + 1) % n

def fanPickV (v0 v1 v2 : P2) : Nat → P2
  | 0 => v0
  | 1 => v1
  | _ => v2

/-- `v.signum() <sop> signum` -/
def fanSignCmp : Nat → Int → Int → Bool
  | 0, a, b => a != b
  | _, a, b => a == b

/-- `v.abs() <eop> T::epsilon()` -/
def fanEpsCmp : Nat → Rat → Rat → Bool
  | 0, a, b => decide (a < b)
  | 1, a, b => decide (a ≤ b)
  | 2, a, b => decide (b < a)
  | _, a, b => decide (b ≤ a)

/-- the star test of candidate `id` with the translated shape -/
def fanTestG (sh : List Nat) (vs : List P2) (id : Nat) : Option Bool :=
  match sh with
  | [lo, i1, i2, a, b, c, so, eo] =>
    let n := vs.length
    let v0 := vs.getD id default
    let segs := ((List.range n).drop lo).filter (fun i => !(i = id || (i + 1) % n = id))
    let cr := segs.map (fun i =>
      let v1 := vs.getD (fanSegIdx n i i1) default
      let v2 := vs.getD (fanSegIdx n i i2) default
      (cross (fanPickV v0 v1 v2 a) (fanPickV v0 v1 v2 b) (fanPickV v0 v1 v2 c),
       crossNegZero (fanPickV v0 v1 v2 a) (fanPickV v0 v1 v2 b) (fanPickV v0 v1 v2 c)))
    match cr with
    | [] => none
    | (c0, z0) :: rest =>
        let s := signumF c0 z0
        some (rest.all (fun cz => !(fanSignCmp so (signumF cz.1 cz.2) s || fanEpsCmp eo (ratAbs cz.1) eps)))
  | _ => none

theorem fanStarPred_eq (a s : Int) (x : Rat) :
    (!(fanSignCmp 0 a s || fanEpsCmp 0 x eps)) = (decide (a = s) && !(decide (x < eps))) := by
  simp only [fanSignCmp, fanEpsCmp]
  by_cases h : a = s <;> simp [h]

/-- **tie of the star test**: sides `(v_i, v_{(i+1) % n})` for `i` in `0..n` minus the two at the candidate, cross
    product `(v0, v1, v2)`, rejected when `signum` DIFFERS from the first side's or `|cross| < ε` (strict) -/
theorem C13_gen_fanTest (vs : List P2) (id : Nat) : fanTestG Gen.Fan.starShape vs id = fanTest vs id := by
  simp only [fanTestG, Gen.Fan.starShape, fanTest, fanSegs, fanSegIdx, fanPickV, List.drop_zero, fanStarPred_eq]
  rfl

/-- `find_map` over the candidates -/
def fanStarFromG (vs : List P2) : List Nat → Option (Option Nat)
  | [] => some none
  | id :: ids =>
      match fanTestG Gen.Fan.starShape vs id with
      | none => none
      | some true => some (some id)
      | some false => fanStarFromG vs ids

theorem fanStarFromG_eq (vs : List P2) : ∀ ids, fanStarFromG vs ids = fanStarFrom vs ids
  | [] => rfl
  | id :: ids => by
      simp only [fanStarFromG, fanStarFrom, C13_gen_fanTest, fanStarFromG_eq vs ids]
      rfl

/-- the translated `process_cell` -/
def fanInterpCell (cfg : Cfg Val) (n face : Nat) (nds : List Nat) : P Val Unit := do
  let darts ← orbit2 n (fanPolicy Gen.Fan.cellPolicy) face
  let vs ← fanVerticesG n (fanAct 0 Gen.Fan.cellUndef) darts
  match fanInterpCheck darts.length nds.length with
  | .error e => abort e
  | .ok () =>
    match fanStarFromG (vs.map Val.p2) (List.range (vs.map Val.p2).length), fanAct 0 Gen.Fan.cellNoStar with
    | some (some id), _ =>
        (fanInterpFrom cfg n (darts.getD id 0) nds Gen.Fan.cellPre Gen.Fan.cellStart Gen.Fan.cellBody Gen.Fan.cellNext
          Gen.Fan.cellPost)
    | some none, some e => abort e
    | _, _ => Prog.panic

/-- **tie of `process_cell`** -/
theorem C13_gen_fan (cfg : Cfg Val) (n face : Nat) (nds : List Nat) :
    fanInterpCell cfg n face nds = fanCell cfg n face nds := by
  unfold fanInterpCell fanCell fanStar
  simp only [C13_gen_check_requirements, C13_gen_fanFrom_cell, fanVerticesG_eq, fanStarFromG_eq, Gen.Fan.cellPolicy,
    fanPolicy]
  congr 1; funext darts; congr 1; funext vs
  cases checkRequirements darts.length nds.length with
  | error e => rfl
  | ok u =>
    cases u
    simp only
    cases h : fanStarFrom (vs.map Val.p2) (List.range (vs.map Val.p2).length) with
    | none => rfl
    | some r => cases r <;> rfl

/-- **the C13 tie for the fan kernel stated on the translated code**: a successful run of the translated
    `process_cell` read an `n ≥ 4`-gon with `2(n-3)` spare darts whose star search accepted an index -/
theorem C13_gen_fan_kernel_star (cfg : Cfg Val) (n : Nat) (face : Nat) (nds : List Nat) (m m' : Map Val)
    (h : run (fanInterpCell cfg n face nds) m = (.ok (), m')) :
    ∃ (darts : List Nat) (vals : List Val) (id : Nat),
      run (orbit2 n .faceLinear face) m = (.ok darts, m) ∧
      run (faceVertices n darts) m = (.ok vals, m) ∧
      4 ≤ darts.length ∧ nds.length = 2 * (darts.length - 3) ∧
      fanStar (vals.map Val.p2) = some (some id) ∧
      run (fanFrom cfg n (darts.getD id 0) nds) m = (.ok (), m') ∧
      ((fanTriangles (vals.map Val.p2) id).map tri2).sum = area2 (vals.map Val.p2) := by
  rw [C13_gen_fan] at h
  exact C13_fan_kernel_star cfg n face nds m m' h

end HC.GenTie
