/-
  C19 — the arithmetic of the geometric primitives TRANSLATED from the source on every run (`Gen/Geometry.lean`, written by
  tools/gen_lean.py `geom` from geometry/dim2/vector.rs, dim2/vertex.rs, dim3/vector.rs, dim3/vertex.rs): for every function of
  every impl block (the operator impls `Add/Sub/Mul/Div/Neg` and their `…Assign` forms, by value and by reference, `Vertex − Vertex`,
  `Vertex ± Vector`, `dot`, `cross`, `norm`, `normal_dir`, `average`, `cross_product_from_vertices`, the unit vectors, the
  conversions and the accessors) the expression tree of every output COMPONENT over the input components, the statements of the
  `&mut self` bodies in order, and the zero-divisor assertion of `Div` / `DivAssign`.

  Here the trees get their meaning — an evaluator over an ARBITRARY coordinate type that has `+ - * /` and unary minus (operations
  only, no laws: the same assumptions as Model/Geometry.lean, so the statements hold for machine floats as well as for a field) —
  and each evaluated operator is proved EQUAL (`rfl`) to the model function every C19 theorem is about (`V2.add`, `V2.subAssign`,
  `V3.cross`, `P2.average`, …).  The tie is per component: the defect D12 (`Vector2 -= Vector2` subtracting `rhs.0` twice, never
  `rhs.1`) would break `C19_gen_v2_SubAssign_Vector2`.  Nothing is normalised: `a + b` and `b + a`, `(a + b) + c` and `a + (b + c)`
  are different trees (they are different floating-point programs).

  Literals: `T::zero()`, `T::one()`, `T::from(2.0).unwrap()` are `.lit 0/1/2`; the evaluator reads them through an arbitrary
  function `lit : Nat → α`, and the model function is taken at the instances `OfNat α n := ⟨lit n⟩`, so a changed literal is noticed
  (`lit 3` is not `lit 2` for an arbitrary `lit`).  `is_zero()` is comparison with `T::zero()`, i.e. with `lit 0`.

  Completeness (`C19_gen_*_complete`): the list of translated functions per file with their signatures, and the list of blocks the
  translator pins textually instead (the marker impls `Send` / `Sync`, `AttributeUpdate`, `AttributeBind`, `unit_dir`); the translator
  refuses any other top-level item, impl item, statement or expression form, so no impl escapes.

  NOT covered here: `unit_dir` (control flow around `norm` and `Div`, pinned by the translator; the model is `unitDirPre`), the root
  functions `hypot` / `sqrt` themselves (`C19_gen_*_norm` ties the radicand), `#[derive(Default, PartialEq)]` (recorded in
  `Gen.Geometry.structs`, `C19_gen_structs`).
-/
import Honeycomb.Gen.Geometry
import Honeycomb.Model.Geometry
import Honeycomb.Props.C19

namespace HC.GenTie
open HC.Geo HC.Gen.Geometry

/-! ## the evaluator -/
section Eval
variable {α β : Type} [Add α] [Sub α] [Mul α] [Div α] [Neg α]

/-- value of an expression: `lit` interprets the literals, `env k c` is component `c` of parameter `k` -/
def evalE (lit : Nat → α) (env : Nat → Nat → α) : E → α
  | .v k c => env k c
  | .lit n => lit n
  | .add a b => evalE lit env a + evalE lit env b
  | .sub a b => evalE lit env a - evalE lit env b
  | .mul a b => evalE lit env a * evalE lit env b
  | .div a b => evalE lit env a / evalE lit env b
  | .neg a => - evalE lit env a

/-- one statement of a `&mut self` body: the listed components of parameter 0 (self) receive their new values, all of them
    computed in the state BEFORE the statement -/
def assignG (lit : Nat → α) (env : Nat → Nat → α) (grp : List (Nat × E)) : Nat → Nat → α :=
  fun k c => match k with
    | 0 => match grp.find? (fun p => p.1 == c) with
      | some p => evalE lit env p.2
      | none => env 0 c
    | _ => env k c

/-- the statements in source order -/
def runStmts (lit : Nat → α) (env : Nat → Nat → α) : List (List (Nat × E)) → (Nat → Nat → α)
  | [] => env
  | g :: gs => runStmts lit (assignG lit env g) gs

/-- the components of the result: `ret` evaluated after the statements -/
def _root_.HC.Gen.Geometry.Op.vals (op : Op) (lit : Nat → α) (env : Nat → Nat → α) : List α :=
  op.ret.map (evalE lit (runStmts lit env op.stmts))

/-- result of an operator WITHOUT assertion whose `root` code is `r` (0 = the value is `ret` itself); `mk` builds the result
    type from the components.  An operator that has a guard, or another root code, has no value here. -/
def _root_.HC.Gen.Geometry.Op.atRoot (op : Op) (r : Nat) (mk : List α → Option β) (lit : Nat → α) (env : Nat → Nat → α) : Option β :=
  match op.guard, op.root == r with
  | [], true => mk (op.vals lit env)
  | _, _ => none

abbrev _root_.HC.Gen.Geometry.Op.plain (op : Op) (mk : List α → Option β) (lit : Nat → α) (env : Nat → Nat → α) : Option β :=
  op.atRoot 0 mk lit env

/-- the leading assertions `assert!(!e.is_zero())`: `none` (panic) as soon as one of the expressions is `T::zero()` -/
def guarded [DecidableEq α] (lit : Nat → α) (env : Nat → Nat → α) : List E → Option β → Option β
  | [], r => r
  | e :: es, r => if evalE lit env e = lit 0 then none else guarded lit env es r

/-- result of an operator with its assertions (`none` = panic) -/
def _root_.HC.Gen.Geometry.Op.checked [DecidableEq α] (op : Op) (mk : List α → Option β) (lit : Nat → α) (env : Nat → Nat → α) :
    Option β :=
  match op.root with
  | 0 => guarded lit env op.guard (mk (op.vals lit env))
  | _ => none

/-- radicand of `norm`: root code 1 = `(r).sqrt()`, 2 = `x.hypot(y)`, i.e. the root of `x·x + y·y` -/
def _root_.HC.Gen.Geometry.Op.radicand (op : Op) (lit : Nat → α) (env : Nat → Nat → α) : Option α :=
  match op.guard, op.stmts, op.root, op.vals lit env with
  | [], [], 1, [r] => some r
  | [], [], 2, [x, y] => some (x * x + y * y)
  | _, _, _, _ => none

/-! builders of the result types (the number of components must fit) and component functions of the parameters -/
def mk1 : List α → Option α | [x] => some x | _ => none
def mkT2 : List α → Option (α × α) | [x, y] => some (x, y) | _ => none
def mkT3 : List α → Option (α × α × α) | [x, y, z] => some (x, y, z) | _ => none
def mkV2 : List α → Option (V2 α) | [x, y] => some ⟨x, y⟩ | _ => none
def mkP2 : List α → Option (P2 α) | [x, y] => some ⟨x, y⟩ | _ => none
def mkV3 : List α → Option (V3 α) | [x, y, z] => some ⟨x, y, z⟩ | _ => none
def mkP3 : List α → Option (P3 α) | [x, y, z] => some ⟨x, y, z⟩ | _ => none

def cScalar (k : α) : Nat → α := fun _ => k
def cT2 (p : α × α) : Nat → α | 0 => p.1 | _ => p.2
def cT3 (p : α × α × α) : Nat → α | 0 => p.1 | 1 => p.2.1 | _ => p.2.2
def cV2 (a : V2 α) : Nat → α | 0 => a.x | _ => a.y
def cP2 (a : P2 α) : Nat → α | 0 => a.x | _ => a.y
def cV3 (a : V3 α) : Nat → α | 0 => a.x | 1 => a.y | _ => a.z
def cP3 (a : P3 α) : Nat → α | 0 => a.x | 1 => a.y | _ => a.z

/-- environments of a function without / with one / two / three parameters (the translator checks every index it emits against
    the declared parameters and the number of fields of their types) -/
def env0 (lit : Nat → α) : Nat → Nat → α := fun _ _ => lit 0
def env1 (f : Nat → α) : Nat → Nat → α := fun _ c => f c
def env2 (f g : Nat → α) : Nat → Nat → α := fun k c => match k with | 0 => f c | _ => g c
def env3 (f g h : Nat → α) : Nat → Nat → α := fun k c => match k with | 0 => f c | 1 => g c | _ => h c

end Eval

/-! ## the structs -/
theorem C19_gen_structs :
    structs = [("Vector2", 2, ["Debug", "Clone", "Copy", "Default", "PartialEq"]),
               ("Vertex2", 2, ["Debug", "Clone", "Copy", "Default", "PartialEq"]),
               ("Vector3", 3, ["Debug", "Clone", "Copy", "Default", "PartialEq"]),
               ("Vertex3", 3, ["Debug", "Clone", "Copy", "Default", "PartialEq"])] := by decide

variable {α : Type} [Add α] [Sub α] [Mul α] [Div α] [Neg α] (lit : Nat → α)

/-! ## Vector2 (dim2/vector.rs) -/
section V2gen

theorem C19_gen_v2_unit_x :
    letI : OfNat α 0 := ⟨lit 0⟩; letI : OfNat α 1 := ⟨lit 1⟩
    Vector2_unit_x.plain mkV2 lit (env0 lit) = some V2.unitX := rfl
theorem C19_gen_v2_unit_y :
    letI : OfNat α 0 := ⟨lit 0⟩; letI : OfNat α 1 := ⟨lit 1⟩
    Vector2_unit_y.plain mkV2 lit (env0 lit) = some V2.unitY := rfl
theorem C19_gen_v2_into_inner (a : V2 α) : Vector2_into_inner.plain mkT2 lit (env1 (cV2 a)) = some (V2.intoInner a) := rfl
theorem C19_gen_v2_x (a : V2 α) : Vector2_x.plain mk1 lit (env1 (cV2 a)) = some a.x := rfl
theorem C19_gen_v2_y (a : V2 α) : Vector2_y.plain mk1 lit (env1 (cV2 a)) = some a.y := rfl
/-- `norm` is the root (`hypot` in 2-D, `sqrt` in 3-D) of exactly the radicand of the model -/
theorem C19_gen_v2_norm (a : V2 α) : Vector2_norm.radicand lit (env1 (cV2 a)) = some (V2.normSq a) := rfl
/-- `normal_dir` = `unit_dir` of the translated receiver `Self(-self.1, self.0)`, errors mapped to `InvalidNormDir` -/
theorem C19_gen_v2_normal_dir [DecidableEq α] (a : V2 α) :
    letI : OfNat α 0 := ⟨lit 0⟩
    ∃ r, Vector2_normal_dir.atRoot 3 mkV2 lit (env1 (cV2 a)) = some r ∧
      V2.normalDirPre a = (match V2.unitDirPre r with | .ok q => .ok q | .error _ => .error .invalidNormDir) :=
  ⟨_, rfl, rfl⟩
theorem C19_gen_v2_dot (a b : V2 α) : Vector2_dot.plain mk1 lit (env2 (cV2 a) (cV2 b)) = some (V2.dot a b) := rfl
theorem C19_gen_v2_From_tuple (p : α × α) : Vector2_From_tuple.plain mkV2 lit (env1 (cT2 p)) = some (V2.ofTuple p) := rfl
theorem C19_gen_v2_Add_Vector2 (a : V2 α) (b : V2 α) : Vector2_Add_Vector2.plain mkV2 lit (env2 (cV2 a) (cV2 b)) = some (V2.add a b) := rfl
theorem C19_gen_v2_AddAssign_Vector2 (a : V2 α) (b : V2 α) : Vector2_AddAssign_Vector2.plain mkV2 lit (env2 (cV2 a) (cV2 b)) = some (V2.addAssign a b) := rfl
theorem C19_gen_v2_Sub_Vector2 (a : V2 α) (b : V2 α) : Vector2_Sub_Vector2.plain mkV2 lit (env2 (cV2 a) (cV2 b)) = some (V2.sub a b) := rfl
theorem C19_gen_v2_SubAssign_Vector2 (a : V2 α) (b : V2 α) : Vector2_SubAssign_Vector2.plain mkV2 lit (env2 (cV2 a) (cV2 b)) = some (V2.subAssign a b) := rfl
theorem C19_gen_v2_Mul_T (a : V2 α) (k : α) : Vector2_Mul_T.plain mkV2 lit (env2 (cV2 a) (cScalar k)) = some (V2.mul a k) := rfl
theorem C19_gen_v2_MulAssign_T (a : V2 α) (k : α) : Vector2_MulAssign_T.plain mkV2 lit (env2 (cV2 a) (cScalar k)) = some (V2.mulAssign a k) := rfl
/-- with the guard: the translated `assert!(!rhs.is_zero())` is the `none` of the model -/
theorem C19_gen_v2_Div_T [DecidableEq α] (a : V2 α) (k : α) :
    letI : OfNat α 0 := ⟨lit 0⟩
    Vector2_Div_T.checked mkV2 lit (env2 (cV2 a) (cScalar k)) = V2.div a k := rfl
/-- with the guard: the translated `assert!(!rhs.is_zero())` is the `none` of the model -/
theorem C19_gen_v2_DivAssign_T [DecidableEq α] (a : V2 α) (k : α) :
    letI : OfNat α 0 := ⟨lit 0⟩
    Vector2_DivAssign_T.checked mkV2 lit (env2 (cV2 a) (cScalar k)) = V2.divAssign a k := rfl
theorem C19_gen_v2_Neg (a : V2 α) : Vector2_Neg.plain mkV2 lit (env1 (cV2 a)) = some (V2.neg a) := rfl

/-- completeness: exactly these functions of dim2/vector.rs are translated (name, parameter types and passing, result type), in source
    order, and exactly these blocks are pinned instead; an impl that is added, removed or changes its signature shows here -/
theorem C19_gen_v2_complete :
    dim2_vector.map (fun p => (p.1, p.2.args, p.2.out)) =
    [("Vector2_unit_x", [], 1),
     ("Vector2_unit_y", [], 1),
     ("Vector2_into_inner", [(1, 0)], 5),
     ("Vector2_x", [(1, 1)], 0),
     ("Vector2_y", [(1, 1)], 0),
     ("Vector2_norm", [(1, 1)], 0),
     ("Vector2_normal_dir", [(1, 1)], 1),
     ("Vector2_dot", [(1, 1), (1, 1)], 0),
     ("Vector2_From_tuple", [(5, 0)], 1),
     ("Vector2_Add_Vector2", [(1, 0), (1, 0)], 1),
     ("Vector2_AddAssign_Vector2", [(1, 2), (1, 0)], 6),
     ("Vector2_Sub_Vector2", [(1, 0), (1, 0)], 1),
     ("Vector2_SubAssign_Vector2", [(1, 2), (1, 0)], 6),
     ("Vector2_Mul_T", [(1, 0), (0, 0)], 1),
     ("Vector2_MulAssign_T", [(1, 2), (0, 0)], 6),
     ("Vector2_Div_T", [(1, 0), (0, 0)], 1),
     ("Vector2_DivAssign_T", [(1, 2), (0, 0)], 6),
     ("Vector2_Neg", [(1, 0)], 1)] ∧
    dim2_vector_skipped =
    ["marker impl<T:CoordsFloat>Send for Vector2<T>",
     "marker impl<T:CoordsFloat>Sync for Vector2<T>",
     "Vector2::unit_dir"] := by decide

end V2gen

/-! ## Vertex2 (dim2/vertex.rs) -/
section P2gen

theorem C19_gen_p2_into_inner (a : P2 α) : Vertex2_into_inner.plain mkT2 lit (env1 (cP2 a)) = some (P2.intoInner a) := rfl
theorem C19_gen_p2_x (a : P2 α) : Vertex2_x.plain mk1 lit (env1 (cP2 a)) = some a.x := rfl
theorem C19_gen_p2_y (a : P2 α) : Vertex2_y.plain mk1 lit (env1 (cP2 a)) = some a.y := rfl
theorem C19_gen_p2_average (a b : P2 α) :
    letI : OfNat α 2 := ⟨lit 2⟩
    Vertex2_average.plain mkP2 lit (env2 (cP2 a) (cP2 b)) = some (P2.average a b) := rfl
theorem C19_gen_p2_cross_product_from_vertices (v1 v2 v3 : P2 α) :
    Vertex2_cross_product_from_vertices.plain mk1 lit (env3 (cP2 v1) (cP2 v2) (cP2 v3)) = some (P2.orient v1 v2 v3) := rfl
theorem C19_gen_p2_From_tuple (p : α × α) : Vertex2_From_tuple.plain mkP2 lit (env1 (cT2 p)) = some (P2.ofTuple p) := rfl
theorem C19_gen_p2_Add_Vector2 (a : P2 α) (b : V2 α) : Vertex2_Add_Vector2.plain mkP2 lit (env2 (cP2 a) (cV2 b)) = some (P2.addV a b) := rfl
theorem C19_gen_p2_AddAssign_Vector2 (a : P2 α) (b : V2 α) : Vertex2_AddAssign_Vector2.plain mkP2 lit (env2 (cP2 a) (cV2 b)) = some (P2.addVAssign a b) := rfl
theorem C19_gen_p2_Add_refVector2 (a : P2 α) (b : V2 α) : Vertex2_Add_refVector2.plain mkP2 lit (env2 (cP2 a) (cV2 b)) = some (P2.addVRef a b) := rfl
theorem C19_gen_p2_AddAssign_refVector2 (a : P2 α) (b : V2 α) : Vertex2_AddAssign_refVector2.plain mkP2 lit (env2 (cP2 a) (cV2 b)) = some (P2.addVRefAssign a b) := rfl
theorem C19_gen_p2_Sub_Vector2 (a : P2 α) (b : V2 α) : Vertex2_Sub_Vector2.plain mkP2 lit (env2 (cP2 a) (cV2 b)) = some (P2.subV a b) := rfl
theorem C19_gen_p2_SubAssign_Vector2 (a : P2 α) (b : V2 α) : Vertex2_SubAssign_Vector2.plain mkP2 lit (env2 (cP2 a) (cV2 b)) = some (P2.subVAssign a b) := rfl
theorem C19_gen_p2_Sub_refVector2 (a : P2 α) (b : V2 α) : Vertex2_Sub_refVector2.plain mkP2 lit (env2 (cP2 a) (cV2 b)) = some (P2.subVRef a b) := rfl
theorem C19_gen_p2_SubAssign_refVector2 (a : P2 α) (b : V2 α) : Vertex2_SubAssign_refVector2.plain mkP2 lit (env2 (cP2 a) (cV2 b)) = some (P2.subVRefAssign a b) := rfl
theorem C19_gen_p2_Sub_Vertex2 (a : P2 α) (b : P2 α) : Vertex2_Sub_Vertex2.plain mkV2 lit (env2 (cP2 a) (cP2 b)) = some (P2.sub a b) := rfl

/-- completeness: exactly these functions of dim2/vertex.rs are translated (name, parameter types and passing, result type), in source
    order, and exactly these blocks are pinned instead; an impl that is added, removed or changes its signature shows here -/
theorem C19_gen_p2_complete :
    dim2_vertex.map (fun p => (p.1, p.2.args, p.2.out)) =
    [("Vertex2_into_inner", [(2, 0)], 5),
     ("Vertex2_x", [(2, 1)], 0),
     ("Vertex2_y", [(2, 1)], 0),
     ("Vertex2_average", [(2, 1), (2, 1)], 2),
     ("Vertex2_cross_product_from_vertices", [(2, 1), (2, 1), (2, 1)], 0),
     ("Vertex2_From_tuple", [(5, 0)], 2),
     ("Vertex2_Add_Vector2", [(2, 0), (1, 0)], 2),
     ("Vertex2_AddAssign_Vector2", [(2, 2), (1, 0)], 6),
     ("Vertex2_Add_refVector2", [(2, 0), (1, 1)], 2),
     ("Vertex2_AddAssign_refVector2", [(2, 2), (1, 1)], 6),
     ("Vertex2_Sub_Vector2", [(2, 0), (1, 0)], 2),
     ("Vertex2_SubAssign_Vector2", [(2, 2), (1, 0)], 6),
     ("Vertex2_Sub_refVector2", [(2, 0), (1, 1)], 2),
     ("Vertex2_SubAssign_refVector2", [(2, 2), (1, 1)], 6),
     ("Vertex2_Sub_Vertex2", [(2, 0), (2, 0)], 1)] ∧
    dim2_vertex_skipped =
    ["marker impl<T:CoordsFloat>Send for Vertex2<T>",
     "marker impl<T:CoordsFloat>Sync for Vertex2<T>",
     "impl<T:CoordsFloat>AttributeUpdate for Vertex2<T>",
     "impl<T:CoordsFloat>AttributeBind for Vertex2<T>"] := by decide

end P2gen

/-! ## Vector3 (dim3/vector.rs) -/
section V3gen

theorem C19_gen_v3_unit_x :
    letI : OfNat α 0 := ⟨lit 0⟩; letI : OfNat α 1 := ⟨lit 1⟩
    Vector3_unit_x.plain mkV3 lit (env0 lit) = some V3.unitX := rfl
theorem C19_gen_v3_unit_y :
    letI : OfNat α 0 := ⟨lit 0⟩; letI : OfNat α 1 := ⟨lit 1⟩
    Vector3_unit_y.plain mkV3 lit (env0 lit) = some V3.unitY := rfl
theorem C19_gen_v3_unit_z :
    letI : OfNat α 0 := ⟨lit 0⟩; letI : OfNat α 1 := ⟨lit 1⟩
    Vector3_unit_z.plain mkV3 lit (env0 lit) = some V3.unitZ := rfl
theorem C19_gen_v3_into_inner (a : V3 α) : Vector3_into_inner.plain mkT3 lit (env1 (cV3 a)) = some (V3.intoInner a) := rfl
theorem C19_gen_v3_x (a : V3 α) : Vector3_x.plain mk1 lit (env1 (cV3 a)) = some a.x := rfl
theorem C19_gen_v3_y (a : V3 α) : Vector3_y.plain mk1 lit (env1 (cV3 a)) = some a.y := rfl
theorem C19_gen_v3_z (a : V3 α) : Vector3_z.plain mk1 lit (env1 (cV3 a)) = some a.z := rfl
/-- `norm` is the root (`hypot` in 2-D, `sqrt` in 3-D) of exactly the radicand of the model -/
theorem C19_gen_v3_norm (a : V3 α) : Vector3_norm.radicand lit (env1 (cV3 a)) = some (V3.normSq a) := rfl
theorem C19_gen_v3_dot (a b : V3 α) : Vector3_dot.plain mk1 lit (env2 (cV3 a) (cV3 b)) = some (V3.dot a b) := rfl
theorem C19_gen_v3_cross (a b : V3 α) : Vector3_cross.plain mkV3 lit (env2 (cV3 a) (cV3 b)) = some (V3.cross a b) := rfl
theorem C19_gen_v3_From_tuple (p : α × α × α) : Vector3_From_tuple.plain mkV3 lit (env1 (cT3 p)) = some (V3.ofTuple p) := rfl
theorem C19_gen_v3_From_Vector2 (v : V2 α) :
    letI : OfNat α 0 := ⟨lit 0⟩
    Vector3_From_Vector2.plain mkV3 lit (env1 (cV2 v)) = some (V3.ofV2 v) := rfl
theorem C19_gen_v3_Add_Vector3 (a : V3 α) (b : V3 α) : Vector3_Add_Vector3.plain mkV3 lit (env2 (cV3 a) (cV3 b)) = some (V3.add a b) := rfl
theorem C19_gen_v3_AddAssign_Vector3 (a : V3 α) (b : V3 α) : Vector3_AddAssign_Vector3.plain mkV3 lit (env2 (cV3 a) (cV3 b)) = some (V3.addAssign a b) := rfl
theorem C19_gen_v3_Sub_Vector3 (a : V3 α) (b : V3 α) : Vector3_Sub_Vector3.plain mkV3 lit (env2 (cV3 a) (cV3 b)) = some (V3.sub a b) := rfl
theorem C19_gen_v3_SubAssign_Vector3 (a : V3 α) (b : V3 α) : Vector3_SubAssign_Vector3.plain mkV3 lit (env2 (cV3 a) (cV3 b)) = some (V3.subAssign a b) := rfl
theorem C19_gen_v3_Mul_T (a : V3 α) (k : α) : Vector3_Mul_T.plain mkV3 lit (env2 (cV3 a) (cScalar k)) = some (V3.mul a k) := rfl
theorem C19_gen_v3_MulAssign_T (a : V3 α) (k : α) : Vector3_MulAssign_T.plain mkV3 lit (env2 (cV3 a) (cScalar k)) = some (V3.mulAssign a k) := rfl
/-- with the guard: the translated `assert!(!rhs.is_zero())` is the `none` of the model -/
theorem C19_gen_v3_Div_T [DecidableEq α] (a : V3 α) (k : α) :
    letI : OfNat α 0 := ⟨lit 0⟩
    Vector3_Div_T.checked mkV3 lit (env2 (cV3 a) (cScalar k)) = V3.div a k := rfl
/-- with the guard: the translated `assert!(!rhs.is_zero())` is the `none` of the model -/
theorem C19_gen_v3_DivAssign_T [DecidableEq α] (a : V3 α) (k : α) :
    letI : OfNat α 0 := ⟨lit 0⟩
    Vector3_DivAssign_T.checked mkV3 lit (env2 (cV3 a) (cScalar k)) = V3.divAssign a k := rfl
theorem C19_gen_v3_Neg (a : V3 α) : Vector3_Neg.plain mkV3 lit (env1 (cV3 a)) = some (V3.neg a) := rfl

/-- completeness: exactly these functions of dim3/vector.rs are translated (name, parameter types and passing, result type), in source
    order, and exactly these blocks are pinned instead; an impl that is added, removed or changes its signature shows here -/
theorem C19_gen_v3_complete :
    dim3_vector.map (fun p => (p.1, p.2.args, p.2.out)) =
    [("Vector3_unit_x", [], 3),
     ("Vector3_unit_y", [], 3),
     ("Vector3_unit_z", [], 3),
     ("Vector3_into_inner", [(3, 0)], 5),
     ("Vector3_x", [(3, 1)], 0),
     ("Vector3_y", [(3, 1)], 0),
     ("Vector3_z", [(3, 1)], 0),
     ("Vector3_norm", [(3, 1)], 0),
     ("Vector3_dot", [(3, 1), (3, 1)], 0),
     ("Vector3_cross", [(3, 1), (3, 1)], 3),
     ("Vector3_From_tuple", [(5, 0)], 3),
     ("Vector3_From_Vector2", [(1, 0)], 3),
     ("Vector3_Add_Vector3", [(3, 0), (3, 0)], 3),
     ("Vector3_AddAssign_Vector3", [(3, 2), (3, 0)], 6),
     ("Vector3_Sub_Vector3", [(3, 0), (3, 0)], 3),
     ("Vector3_SubAssign_Vector3", [(3, 2), (3, 0)], 6),
     ("Vector3_Mul_T", [(3, 0), (0, 0)], 3),
     ("Vector3_MulAssign_T", [(3, 2), (0, 0)], 6),
     ("Vector3_Div_T", [(3, 0), (0, 0)], 3),
     ("Vector3_DivAssign_T", [(3, 2), (0, 0)], 6),
     ("Vector3_Neg", [(3, 0)], 3)] ∧
    dim3_vector_skipped =
    ["marker impl<T:CoordsFloat>Send for Vector3<T>",
     "marker impl<T:CoordsFloat>Sync for Vector3<T>",
     "Vector3::unit_dir"] := by decide

end V3gen

/-! ## Vertex3 (dim3/vertex.rs) -/
section P3gen

theorem C19_gen_p3_into_inner (a : P3 α) : Vertex3_into_inner.plain mkT3 lit (env1 (cP3 a)) = some (P3.intoInner a) := rfl
theorem C19_gen_p3_x (a : P3 α) : Vertex3_x.plain mk1 lit (env1 (cP3 a)) = some a.x := rfl
theorem C19_gen_p3_y (a : P3 α) : Vertex3_y.plain mk1 lit (env1 (cP3 a)) = some a.y := rfl
theorem C19_gen_p3_z (a : P3 α) : Vertex3_z.plain mk1 lit (env1 (cP3 a)) = some a.z := rfl
theorem C19_gen_p3_average (a b : P3 α) :
    letI : OfNat α 2 := ⟨lit 2⟩
    Vertex3_average.plain mkP3 lit (env2 (cP3 a) (cP3 b)) = some (P3.average a b) := rfl
theorem C19_gen_p3_From_tuple (p : α × α × α) : Vertex3_From_tuple.plain mkP3 lit (env1 (cT3 p)) = some (P3.ofTuple p) := rfl
theorem C19_gen_p3_From_Vertex2 (v : P2 α) :
    letI : OfNat α 0 := ⟨lit 0⟩
    Vertex3_From_Vertex2.plain mkP3 lit (env1 (cP2 v)) = some (P3.ofP2 v) := rfl
theorem C19_gen_p3_Add_Vector3 (a : P3 α) (b : V3 α) : Vertex3_Add_Vector3.plain mkP3 lit (env2 (cP3 a) (cV3 b)) = some (P3.addV a b) := rfl
theorem C19_gen_p3_AddAssign_Vector3 (a : P3 α) (b : V3 α) : Vertex3_AddAssign_Vector3.plain mkP3 lit (env2 (cP3 a) (cV3 b)) = some (P3.addVAssign a b) := rfl
theorem C19_gen_p3_Add_refVector3 (a : P3 α) (b : V3 α) : Vertex3_Add_refVector3.plain mkP3 lit (env2 (cP3 a) (cV3 b)) = some (P3.addVRef a b) := rfl
theorem C19_gen_p3_AddAssign_refVector3 (a : P3 α) (b : V3 α) : Vertex3_AddAssign_refVector3.plain mkP3 lit (env2 (cP3 a) (cV3 b)) = some (P3.addVRefAssign a b) := rfl
theorem C19_gen_p3_Sub_Vector3 (a : P3 α) (b : V3 α) : Vertex3_Sub_Vector3.plain mkP3 lit (env2 (cP3 a) (cV3 b)) = some (P3.subV a b) := rfl
theorem C19_gen_p3_SubAssign_Vector3 (a : P3 α) (b : V3 α) : Vertex3_SubAssign_Vector3.plain mkP3 lit (env2 (cP3 a) (cV3 b)) = some (P3.subVAssign a b) := rfl
theorem C19_gen_p3_Sub_refVector3 (a : P3 α) (b : V3 α) : Vertex3_Sub_refVector3.plain mkP3 lit (env2 (cP3 a) (cV3 b)) = some (P3.subVRef a b) := rfl
theorem C19_gen_p3_SubAssign_refVector3 (a : P3 α) (b : V3 α) : Vertex3_SubAssign_refVector3.plain mkP3 lit (env2 (cP3 a) (cV3 b)) = some (P3.subVRefAssign a b) := rfl
theorem C19_gen_p3_Sub_Vertex3 (a : P3 α) (b : P3 α) : Vertex3_Sub_Vertex3.plain mkV3 lit (env2 (cP3 a) (cP3 b)) = some (P3.sub a b) := rfl

/-- completeness: exactly these functions of dim3/vertex.rs are translated (name, parameter types and passing, result type), in source
    order, and exactly these blocks are pinned instead; an impl that is added, removed or changes its signature shows here -/
theorem C19_gen_p3_complete :
    dim3_vertex.map (fun p => (p.1, p.2.args, p.2.out)) =
    [("Vertex3_into_inner", [(4, 0)], 5),
     ("Vertex3_x", [(4, 1)], 0),
     ("Vertex3_y", [(4, 1)], 0),
     ("Vertex3_z", [(4, 1)], 0),
     ("Vertex3_average", [(4, 1), (4, 1)], 4),
     ("Vertex3_From_tuple", [(5, 0)], 4),
     ("Vertex3_From_Vertex2", [(2, 0)], 4),
     ("Vertex3_Add_Vector3", [(4, 0), (3, 0)], 4),
     ("Vertex3_AddAssign_Vector3", [(4, 2), (3, 0)], 6),
     ("Vertex3_Add_refVector3", [(4, 0), (3, 1)], 4),
     ("Vertex3_AddAssign_refVector3", [(4, 2), (3, 1)], 6),
     ("Vertex3_Sub_Vector3", [(4, 0), (3, 0)], 4),
     ("Vertex3_SubAssign_Vector3", [(4, 2), (3, 0)], 6),
     ("Vertex3_Sub_refVector3", [(4, 0), (3, 1)], 4),
     ("Vertex3_SubAssign_refVector3", [(4, 2), (3, 1)], 6),
     ("Vertex3_Sub_Vertex3", [(4, 0), (4, 0)], 3)] ∧
    dim3_vertex_skipped =
    ["marker impl<T:CoordsFloat>Send for Vertex3<T>",
     "marker impl<T:CoordsFloat>Sync for Vertex3<T>",
     "impl<T:CoordsFloat>AttributeUpdate for Vertex3<T>",
     "impl<T:CoordsFloat>AttributeBind for Vertex3<T>"] := by decide

end P3gen
end HC.GenTie
