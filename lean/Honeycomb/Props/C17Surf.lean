/-
  C17 — the colouring loop of `classify_capture`: surface identifiers.

  On a well-formed 2-map with the anchor storages that carries NO edge and NO face anchor before the call (the
  shape `capture_geometry` returns: only node anchors on vertices), for every size:

  * `C17_surface_edge_faces`     after the three loops, an edge anchored to `Surface(k)` lies between two faces
                                 anchored to `Surface(k)`
  * `C17_edge_anchor_kinds`      an edge anchor is then a curve or a surface
  * `C17_faces_across_non_curve_edge_same`  after `classify_capture = Ok`: an in-use 2-linked dart whose edge is not
                                 anchored to a curve has its edge and both its faces anchored to one `Surface(k)`
  * `C17_surface_connected_same` faces reachable from each other without crossing a curve-anchored edge carry the
                                 same face anchor (one surface identifier per region)
  * `C17_same_surface_linked`    conversely two faces anchored to the same `Surface(k)` are linked by a chain of edges
                                 anchored to `Surface(k)`: regions separated by curves get different identifiers

  Method: loop invariants `DInv` / `SInv` (queue, `marked`, closed faces, status of the two faces of every
  surface-anchored edge) and `TInv` (every face of surface `k` is linked to the face the colouring `k` started from)
  through `colourDarts` / `colourSurface` / `classifySurfaces`; syntactic frames `Writes` (the first two loops only
  write curves, the third only surfaces).
-/
import Honeycomb.Props.C17
import Honeycomb.Lemmas.CmapText

set_option linter.unusedSimpArgs false
set_option linter.unusedVariables false

namespace HC.C17
open HC HC.C03

/-! ## one step of the two inner loops, as equations -/

/-- `edge_id` as a function of the map (`C03_edgeId2_min`: it is the cell identifier) -/
def edOf (m : Map Val) (d : Nat) : Nat := if m.β 2 d = 0 then d else min (m.β 2 d) d

/-- the map after the body of `for_each` for a dart whose edge was unanchored -/
def colourStep (m : Map Val) (sid d : Nat) : Map Val :=
  let m1 := m.setA sEA (edOf m d) (some (vSurface sid))
  if (m1.att sVA (cellId m .vertex d)).isNone then m1.setA sVA (cellId m .vertex d) (some (vSurface sid)) else m1

theorem colourStep_grow (m : Map Val) (sid d : Nat) : Grow m (colourStep m sid d) := by
  unfold colourStep
  simp only
  split
  · exact (Grow.setA _ _ _ _).trans (Grow.setA _ _ _ _)
  · exact Grow.setA _ _ _ _

theorem run_colourDarts_cons {m : Map Val} (h : Ok9 m) {d : Nat} (hd : d < m.n) (sid : Nat)
    (ds q mk : List Nat) :
    run (colourDarts m.n sid (d :: ds) q mk) m =
      if (m.att sEA (edOf m d)).isSome = true then run (colourDarts m.n sid ds q mk) m
      else if mk.contains (cellId m .face (m.β 2 d)) = true then
        run (colourDarts m.n sid ds q mk) (colourStep m sid d)
      else
        run (colourDarts m.n sid ds (q ++ [cellId m .face (m.β 2 d)]) (mk ++ [cellId m .face (m.β 2 d)]))
          (colourStep m sid d) := by
  have helt := eid_lt h.wf hd
  conv => lhs; unfold colourDarts
  simp only [Prog.bind_eq]
  rw [run_bind, run_eid' h.wf hd]
  simp only [run_rA, h.okA (by decide : sEA ≤ 8) helt, if_true]
  have he : (if m.β 2 d = 0 then d else min (m.β 2 d) d) = edOf m d := rfl
  rw [he]
  by_cases ha : (m.att sEA (edOf m d)).isSome = true
  · rw [if_pos ha, if_pos ha]
  · rw [if_neg ha, if_neg ha]
    rw [run_bind, run_eid' h.wf hd]
    simp only [run_wA, h.okA (by decide : sEA ≤ 8) helt, if_true]
    rw [he]
    have g1 : Grow m (m.setA sEA (edOf m d) (some (vSurface sid))) := Grow.setA _ _ _ _
    have hcs : colourStep m sid d =
        (if ((m.setA sEA (edOf m d) (some (vSurface sid))).att sVA (cellId m .vertex d)).isNone
          then (m.setA sEA (edOf m d) (some (vSurface sid))).setA sVA (cellId m .vertex d) (some (vSurface sid))
          else m.setA sEA (edOf m d) (some (vSurface sid))) := rfl
    generalize m.setA sEA (edOf m d) (some (vSurface sid)) = m1 at g1 hcs
    have h1 := h.sameTopo g1.topo
    have hn1 : m1.n = m.n := g1.topo.n
    have hd1 : d < m1.n := by rw [hn1]; exact hd
    have hv1 := vid_lt h1.wf hd1
    have ev : cellId m1 .vertex d = cellId m .vertex d := cellId_sameTopo g1.topo _ _
    -- the tail after the optional vertex write
    have key : ∀ (m2 : Map Val), Grow m1 m2 →
        run (Prog.bind (rB 2 d) fun b2 => Prog.bind (faceId2 m.n b2) fun nf =>
            if mk.contains nf = true then colourDarts m.n sid ds q mk
            else colourDarts m.n sid ds (q ++ [nf]) (mk ++ [nf])) m2
          = if mk.contains (cellId m .face (m.β 2 d)) = true then run (colourDarts m.n sid ds q mk) m2
            else run (colourDarts m.n sid ds (q ++ [cellId m .face (m.β 2 d)])
              (mk ++ [cellId m .face (m.β 2 d)])) m2 := by
      intro m2 g2
      have t2 := g1.topo.trans g2.topo
      have h2 := h.sameTopo t2
      have hn2 : m2.n = m.n := t2.n
      have hd2 : d < m2.n := by rw [hn2]; exact hd
      have hb2 : m2.β 2 d < m2.n := h2.wf.range 2 (by omega) d hd2
      simp only [run_rB, okb h2.wf (by omega : 2 < 3) hd2, if_true]
      rw [← hn2, run_bind, run_fid' h2.wf hb2, cellId_sameTopo t2, t2.β]
      simp only
      split <;> rfl
    have hok : m1.okA sVA (cellId m .vertex d) = true := by
      rw [← ev]; exact h1.okA (by decide : sVA ≤ 8) hv1
    rw [← hn1, run_bind, run_vid' h1.wf hd1, hn1, ev]
    simp only [run_rA, hok, if_true]
    by_cases hav : (m1.att sVA (cellId m .vertex d)).isNone = true
    · rw [hcs, if_pos hav]
      simp only [hav, if_true]
      rw [run_bind, ← hn1, run_bind, run_vid' h1.wf hd1, hn1, ev]
      simp only [run_wA', hok, if_true]
      exact key _ (Grow.setA _ _ _ _)
    · rw [hcs, if_neg hav]
      simp only [hav, if_false, Bool.false_eq_true, Prog.pure_eq]
      rw [run_bind]
      simp only [run_ret]
      exact key m1 (Grow.refl m1)

theorem run_colourSurface_cons {m : Map Val} (h : Ok9 m) {crt : Nat} (hc : crt < m.n) (sid f : Nat)
    (q mk : List Nat) :
    run (colourSurface m.n sid (f + 1) (crt :: q) mk) m =
      match run (colourDarts m.n sid (orb m .face crt) q mk) (m.setA sFA crt (some (vSurface sid))) with
      | (.ok r, m2) => run (colourSurface m.n sid f r.1 r.2) m2
      | (.err e, m2) => (.err e, m2)
      | (.retry, m2) => (.retry, m2)
      | (.panic, m2) => (.panic, m2) := by
  conv => lhs; unfold colourSurface
  simp only [Prog.bind_eq, run_wA, h.okA (by decide : sFA ≤ 8) hc, if_true]
  have g1 : Grow m (m.setA sFA crt (some (vSurface sid))) := Grow.setA _ _ _ _
  have eo : orb (m.setA sFA crt (some (vSurface sid))) .face crt = orb m .face crt := orb_sameTopo g1.topo _ _
  generalize m.setA sFA crt (some (vSurface sid)) = m1 at g1 eo
  have h1 := h.sameTopo g1.topo
  have hn1 : m1.n = m.n := g1.topo.n
  have hc1 : crt < m1.n := by rw [hn1]; exact hc
  rw [← hn1, run_bind, run_orbit2' h1.wf (pol := .face) trivial hc1, eo]
  simp only
  rw [run_bind]
  rcases hr : run (colourDarts m1.n sid (orb m .face crt) q mk) m1 with ⟨o, m2⟩
  cases o with
  | ok r => obtain ⟨q', mk'⟩ := r; rfl
  | err e => rfl
  | retry => rfl
  | panic => rfl

/-! ## combinatorics of edges and faces on a well-formed map -/

theorem edOf_sameTopo {m m' : Map Val} (t : SameTopo m m') (d : Nat) : edOf m' d = edOf m d := by
  unfold edOf; rw [t.β]

section
variable {m0 : Map Val}

/-- `h` is the identifier of a face -/
def FaceId (m0 : Map Val) (h : Nat) : Prop := h ≠ 0 ∧ h < m0.n ∧ cellId m0 .face h = h

theorem face_of_mem (h0 : WF 3 m0) {crt x : Nat} (hc : FaceId m0 crt) (hx : x ∈ orb m0 .face crt) :
    x ≠ 0 ∧ x < m0.n ∧ cellId m0 .face x = crt := by
  obtain ⟨c0, clt, cid⟩ := hc
  have sp := C03_orbit2_spec h0 (pol := .face) trivial c0 clt
  have hxlt := sp.2.2.2.2.2 x hx
  obtain ⟨hx0, hr⟩ := (mem_orb h0 (pol := .face) trivial c0 clt x).1 hx
  refine ⟨hx0, hxlt, ?_⟩
  rw [← cid]
  exact ((C03_same_id_iff_same_cell h0 (pol := .face) trivial c0 clt hx0 hxlt).1.2 hr).symm

theorem mem_own_face (h0 : WF 3 m0) {y : Nat} (hy0 : y ≠ 0) (hy : y < m0.n) :
    FaceId m0 (cellId m0 .face y) ∧ y ∈ orb m0 .face (cellId m0 .face y) := by
  obtain ⟨k0, klt, kid⟩ := cellId_idem h0 (pol := .face) trivial hy0 hy
  refine ⟨⟨k0, klt, kid⟩, ?_⟩
  have sp := cellId_spec h0 (pol := .face) trivial hy0 hy
  have hr := ((mem_orb h0 (pol := .face) trivial hy0 hy _).1 sp.1).2
  exact (mem_orb h0 (pol := .face) trivial k0 klt y).2 ⟨hy0, reach_symm h0 (pol := .face) trivial hy k0 hr⟩

theorem edOf_lt (h0 : WF 3 m0) {x : Nat} (hx : x < m0.n) : edOf m0 x < m0.n := eid_lt h0 hx

theorem edOf_b2 (h0 : WF 3 m0) {x : Nat} (hx : x < m0.n) (hb : m0.β 2 x ≠ 0) :
    edOf m0 (m0.β 2 x) = edOf m0 x := by
  obtain ⟨e1, e2⟩ := h0.invol 2 (by omega) (by omega) x hx hb
  unfold edOf
  rw [e1, if_neg hb]
  have : x ≠ 0 := by
    intro e; rw [e, h0.null 2 (by omega)] at hb; exact hb rfl
  rw [if_neg this]
  exact Nat.min_comm _ _

/-- two darts with the same edge identifier are equal or 2-linked -/
theorem edOf_eq (h0 : WF 3 m0) {x y : Nat} (hx0 : x ≠ 0) (hx : x < m0.n) (hy0 : y ≠ 0) (hy : y < m0.n)
    (e : edOf m0 y = edOf m0 x) : y = x ∨ (m0.β 2 x ≠ 0 ∧ y = m0.β 2 x) := by
  have ix := h0.invol 2 (by omega) (by omega) x hx
  have iy := h0.invol 2 (by omega) (by omega) y hy
  unfold edOf at e
  by_cases bx : m0.β 2 x = 0 <;> by_cases bY : m0.β 2 y = 0
  · simp only [bx, bY, if_true] at e; exact Or.inl e
  · simp only [bx, bY, if_true, if_false] at e
    -- min (β2 y) y = x
    rcases Nat.le_total (m0.β 2 y) y with hle | hle
    · rw [Nat.min_eq_left hle] at e
      exfalso
      have := (iy bY).1
      rw [e, bx] at this
      exact hy0 this.symm
    · rw [Nat.min_eq_right hle] at e; exact Or.inl e
  · simp only [bx, bY, if_true, if_false] at e
    rcases Nat.le_total (m0.β 2 x) x with hle | hle
    · rw [Nat.min_eq_left hle] at e
      exfalso
      have := (ix bx).1
      rw [← e, bY] at this
      exact hx0 this.symm
    · rw [Nat.min_eq_right hle] at e; exact Or.inl e
  · simp only [bx, bY, if_false] at e
    have ix' := ix bx
    have iy' := iy bY
    rcases Nat.le_total (m0.β 2 x) x with hx1 | hx1 <;> rcases Nat.le_total (m0.β 2 y) y with hy1 | hy1
    · rw [Nat.min_eq_left hx1, Nat.min_eq_left hy1] at e
      left
      have := congrArg (m0.β 2) e
      rw [iy'.1, ix'.1] at this; exact this
    · rw [Nat.min_eq_left hx1, Nat.min_eq_right hy1] at e
      exact Or.inr ⟨bx, e⟩
    · rw [Nat.min_eq_right hx1, Nat.min_eq_left hy1] at e
      right
      refine ⟨bx, ?_⟩
      have := congrArg (m0.β 2) e
      rw [iy'.1] at this; exact this
    · rw [Nat.min_eq_right hx1, Nat.min_eq_right hy1] at e
      exact Or.inl e

theorem vSurface_inj {k k' : Nat} (e : some (vSurface k) = some (vSurface k')) : k = k' := by
  unfold vSurface at e
  injection e with e
  injection e with e
  injection e with e
  omega

/-! ## what the body of the colouring writes -/

theorem colourStep_attF (m : Map Val) (sid d x : Nat) : (colourStep m sid d).att sFA x = m.att sFA x := by
  unfold colourStep
  simp only
  split
  · rw [Map.att_setA, if_neg (fun hh => absurd hh.1 (by decide)), Map.att_setA,
      if_neg (fun hh => absurd hh.1 (by decide))]
  · rw [Map.att_setA, if_neg (fun hh => absurd hh.1 (by decide))]

theorem colourStep_attE (m : Map Val) (sid d x : Nat) (hok : m.okA sEA (edOf m d) = true) :
    (colourStep m sid d).att sEA x = if edOf m d = x then some (vSurface sid) else m.att sEA x := by
  unfold colourStep
  simp only
  split
  · rw [Map.att_setA, if_neg (fun hh => absurd hh.1 (by decide)), Map.att_setA]
    by_cases e : edOf m d = x
    · rw [if_pos ⟨rfl, e, hok⟩, if_pos e]
    · rw [if_neg (fun hh => e hh.2.1), if_neg e]
  · rw [Map.att_setA]
    by_cases e : edOf m d = x
    · rw [if_pos ⟨rfl, e, hok⟩, if_pos e]
    · rw [if_neg (fun hh => e hh.2.1), if_neg e]

/-! ## the invariant of the colouring -/

/-- every dart of the face `h` has an anchored edge -/
def Closed (m0 m : Map Val) (h : Nat) : Prop :=
  ∀ x, x ∈ orb m0 .face h → (m.att sEA (edOf m0 x)).isSome = true

/-- the face carries `Surface(k)`, or it is waiting in the queue of the colouring `k` -/
def Status (m : Map Val) (q : List Nat) (sid k h : Nat) : Prop :=
  m.att sFA h = some (vSurface k) ∨ (k = sid ∧ h ∈ q)

/-- invariant inside the colouring `sid`, while the darts of the face `crt` are visited (`pre` = the
    darts already visited) -/
structure DInv (m0 m : Map Val) (q mk : List Nat) (sid crt : Nat) (pre : List Nat) : Prop where
  topo : SameTopo m0 m
  qf : ∀ h, h ∈ q → FaceId m0 h
  mkf : ∀ h, h ∈ mk → h = 0 ∨ FaceId m0 h
  mk0 : 0 ∈ mk
  Q : ∀ h, h ∈ q → m.att sFA h = none ∨ m.att sFA h = some (vSurface sid)
  M : ∀ h, h ∈ mk → h ≠ 0 → h ∈ q ∨ (m.att sFA h).isSome = true
  C : ∀ h, FaceId m0 h → (m.att sFA h).isSome = true → h ≠ crt → Closed m0 m h
  P : m.att sFA crt = some (vSurface sid) ∧ ∀ x, x ∈ pre → (m.att sEA (edOf m0 x)).isSome = true
  crtf : FaceId m0 crt
  R : ∀ x, x ≠ 0 → x < m0.n → m0.β 2 x ≠ 0 → ∀ k, m.att sEA (edOf m0 x) = some (vSurface k) →
    Status m q sid k (cellId m0 .face x) ∧ Status m q sid k (cellId m0 .face (m0.β 2 x))

theorem Status.mono {m m' : Map Val} {q q' : List Nat} {sid k h : Nat} (hs : Status m q sid k h)
    (hF : m'.att sFA h = m.att sFA h) (hq : ∀ x, x ∈ q → x ∈ q') : Status m' q' sid k h := by
  rcases hs with e | ⟨e1, e2⟩
  · exact Or.inl (by rw [hF]; exact e)
  · exact Or.inr ⟨e1, hq h e2⟩

/-- a dart whose edge is already anchored is skipped -/
theorem DInv.skip {m : Map Val} {q mk : List Nat} {sid crt d : Nat} {pre : List Nat}
    (I : DInv m0 m q mk sid crt pre) (ha : (m.att sEA (edOf m0 d)).isSome = true) :
    DInv m0 m q mk sid crt (pre ++ [d]) := by
  refine { I with P := ⟨I.P.1, ?_⟩ }
  intro x hx
  rcases List.mem_append.1 hx with hx | hx
  · exact I.P.2 x hx
  · rw [List.mem_singleton.1 hx]; exact ha

/-- the body of the colouring for a dart `d` of `crt` whose edge was unanchored -/
theorem DInv.write (h0 : Ok9 m0) {m : Map Val} {q mk : List Nat} {sid crt d : Nat} {pre : List Nat}
    (I : DInv m0 m q mk sid crt pre) (hd : d ∈ orb m0 .face crt)
    (ha : ¬ (m.att sEA (edOf m0 d)).isSome = true) :
    (cellId m0 .face (m0.β 2 d) ∈ mk →
      DInv m0 (colourStep m sid d) q mk sid crt (pre ++ [d])) ∧
    (cellId m0 .face (m0.β 2 d) ∉ mk →
      DInv m0 (colourStep m sid d) (q ++ [cellId m0 .face (m0.β 2 d)])
        (mk ++ [cellId m0 .face (m0.β 2 d)]) sid crt (pre ++ [d])) := by
  obtain ⟨hd0, hdlt, hfd⟩ := face_of_mem h0.wf I.crtf hd
  have hm9 := h0.sameTopo I.topo
  have hed : edOf m d = edOf m0 d := edOf_sameTopo I.topo d
  have hok : m.okA sEA (edOf m d) = true := by
    rw [hed]; exact hm9.okA (by decide : sEA ≤ 8) (by rw [I.topo.n]; exact edOf_lt h0.wf hdlt)
  have hnone : m.att sEA (edOf m0 d) = none := by
    cases hx : m.att sEA (edOf m0 d) with
    | none => rfl
    | some v => rw [hx] at ha; exact absurd rfl ha
  -- attribute values after the step
  have aF : ∀ x, (colourStep m sid d).att sFA x = m.att sFA x := colourStep_attF m sid d
  have aE : ∀ x, (colourStep m sid d).att sEA x =
      if edOf m0 d = x then some (vSurface sid) else m.att sEA x := by
    intro x; rw [colourStep_attE m sid d x hok, hed]
  have aEmono : ∀ x, (m.att sEA x).isSome = true → ((colourStep m sid d).att sEA x).isSome = true := by
    intro x hx; rw [aE]; split
    · rfl
    · exact hx
  have topo' : SameTopo m0 (colourStep m sid d) := I.topo.trans (colourStep_grow m sid d).topo
  -- the neighbour face
  have hb2lt : m0.β 2 d < m0.n := h0.wf.range 2 (by omega) d hdlt
  -- a closed face cannot contain a dart of the edge that was still unanchored
  have notClosed : ∀ h, Closed m0 m h → m0.β 2 d ≠ 0 → cellId m0 .face (m0.β 2 d) ≠ h := by
    intro h hcl hb e
    have hmem := (mem_own_face h0.wf hb hb2lt).2
    rw [e] at hmem
    have := hcl _ hmem
    rw [edOf_b2 h0.wf hdlt hb, hnone] at this
    cases this
  -- status of the neighbour face once it is in `marked`
  have common_P : (colourStep m sid d).att sFA crt = some (vSurface sid) ∧
      ∀ x, x ∈ pre ++ [d] → ((colourStep m sid d).att sEA (edOf m0 x)).isSome = true := by
    refine ⟨by rw [aF]; exact I.P.1, ?_⟩
    intro x hx
    rcases List.mem_append.1 hx with hx | hx
    · exact aEmono _ (I.P.2 x hx)
    · rw [List.mem_singleton.1 hx, aE, if_pos rfl]; rfl
  have common_C : ∀ h, FaceId m0 h → ((colourStep m sid d).att sFA h).isSome = true → h ≠ crt →
      Closed m0 (colourStep m sid d) h := by
    intro h hf hs hne x hx
    rw [aF] at hs
    exact aEmono _ (I.C h hf hs hne x hx)
  -- the relation for the darts of the new edge and for the others
  have relR : ∀ (q' : List Nat), (∀ x, x ∈ q → x ∈ q') →
      (m0.β 2 d ≠ 0 → Status (colourStep m sid d) q' sid sid (cellId m0 .face (m0.β 2 d))) →
      ∀ x, x ≠ 0 → x < m0.n → m0.β 2 x ≠ 0 → ∀ k,
        (colourStep m sid d).att sEA (edOf m0 x) = some (vSurface k) →
        Status (colourStep m sid d) q' sid k (cellId m0 .face x) ∧
          Status (colourStep m sid d) q' sid k (cellId m0 .face (m0.β 2 x)) := by
    intro q' hqq hnf x hx0 hx hbx k hk
    rw [aE] at hk
    by_cases e : edOf m0 d = edOf m0 x
    · rw [if_pos e] at hk
      have hks : sid = k := vSurface_inj hk
      subst hks
      have scrt : Status (colourStep m sid d) q' sid sid crt := Or.inl common_P.1
      rcases edOf_eq h0.wf hd0 hdlt hx0 hx e.symm with rfl | ⟨hb, rfl⟩
      · rw [hfd]; exact ⟨scrt, hnf hbx⟩
      · have : m0.β 2 (m0.β 2 d) = d := (h0.wf.invol 2 (by omega) (by omega) d hdlt hb).1
        rw [this, hfd]; exact ⟨hnf hb, scrt⟩
    · rw [if_neg e] at hk
      obtain ⟨s1, s2⟩ := I.R x hx0 hx hbx k hk
      exact ⟨s1.mono (aF _) hqq, s2.mono (aF _) hqq⟩
  constructor
  · -- the neighbour face is already marked
    intro hmk
    refine ⟨topo', I.qf, I.mkf, I.mk0, ?_, ?_, common_C, common_P, I.crtf, ?_⟩
    · intro h hh; rw [aF]; exact I.Q h hh
    · intro h hh hne; rw [aF]; exact I.M h hh hne
    · refine relR q (fun _ hx => hx) ?_
      intro hb
      obtain ⟨nff, _⟩ := mem_own_face h0.wf hb hb2lt
      rcases I.M _ hmk nff.1 with hq | hs
      · exact Or.inr ⟨rfl, hq⟩
      · by_cases hc : cellId m0 .face (m0.β 2 d) = crt
        · rw [hc]; exact Or.inl common_P.1
        · exact absurd rfl (notClosed _ (I.C _ nff hs hc) hb)
  · -- the neighbour face is pushed
    intro hmk
    have hb : m0.β 2 d ≠ 0 := by
      intro e; apply hmk; rw [e, cellId_zero h0.wf (pol := .face) trivial]; exact I.mk0
    obtain ⟨nff, _⟩ := mem_own_face h0.wf hb hb2lt
    refine ⟨topo', ?_, ?_, List.mem_append_left _ I.mk0, ?_, ?_, common_C, common_P, I.crtf, ?_⟩
    · intro h hh
      rcases List.mem_append.1 hh with hh | hh
      · exact I.qf h hh
      · rw [List.mem_singleton.1 hh]; exact nff
    · intro h hh
      rcases List.mem_append.1 hh with hh | hh
      · exact I.mkf h hh
      · rw [List.mem_singleton.1 hh]; exact Or.inr nff
    · intro h hh
      rw [aF]
      rcases List.mem_append.1 hh with hh | hh
      · exact I.Q h hh
      · rw [List.mem_singleton.1 hh]
        cases hs : m.att sFA (cellId m0 .face (m0.β 2 d)) with
        | none => exact Or.inl rfl
        | some v =>
            by_cases hc : cellId m0 .face (m0.β 2 d) = crt
            · right; rw [← hs, hc]; exact I.P.1
            · exact absurd rfl (notClosed _ (I.C _ nff (by rw [hs]; rfl) hc) hb)
    · intro h hh hne
      rw [aF]
      rcases List.mem_append.1 hh with hh | hh
      · rcases I.M h hh hne with hq | hs
        · exact Or.inl (List.mem_append_left _ hq)
        · exact Or.inr hs
      · rw [List.mem_singleton.1 hh]; exact Or.inl (List.mem_append_right _ List.mem_cons_self)
    · exact relR _ (fun _ hx => List.mem_append_left _ hx)
        (fun _ => Or.inr ⟨rfl, List.mem_append_right _ List.mem_cons_self⟩)

theorem contains_iff_mem (l : List Nat) (x : Nat) : l.contains x = true ↔ x ∈ l := by simp

/-- the loop over the darts of the current face keeps the invariant -/
theorem colourDarts_inv (h0 : Ok9 m0) (sid crt : Nat) : ∀ (ds pre q mk : List Nat) (m : Map Val),
    DInv m0 m q mk sid crt pre → orb m0 .face crt = pre ++ ds →
    ∃ q' mk' m', run (colourDarts m0.n sid ds q mk) m = (.ok (q', mk'), m') ∧
      DInv m0 m' q' mk' sid crt (pre ++ ds) := by
  intro ds
  induction ds with
  | nil =>
      intro pre q mk m I _
      exact ⟨q, mk, m, by simp [colourDarts], by simpa using I⟩
  | cons d ds ih =>
      intro pre q mk m I ho
      have hd : d ∈ orb m0 .face crt := by rw [ho]; simp
      obtain ⟨hd0, hdlt, hfd⟩ := face_of_mem h0.wf I.crtf hd
      have hm9 := h0.sameTopo I.topo
      have hn : m.n = m0.n := I.topo.n
      have ho' : orb m0 .face crt = (pre ++ [d]) ++ ds := by rw [ho]; simp
      have e1 : pre ++ d :: ds = (pre ++ [d]) ++ ds := by simp
      rw [← hn, run_colourDarts_cons hm9 (by rw [hn]; exact hdlt), edOf_sameTopo I.topo,
        cellId_sameTopo I.topo, I.topo.β, hn, e1]
      by_cases ha : (m.att sEA (edOf m0 d)).isSome = true
      · rw [if_pos ha]
        exact ih _ q mk m (I.skip ha) ho'
      · rw [if_neg ha]
        obtain ⟨w1, w2⟩ := I.write h0 hd ha
        by_cases hc : mk.contains (cellId m0 .face (m0.β 2 d)) = true
        · rw [if_pos hc]
          exact ih _ q mk _ (w1 ((contains_iff_mem _ _).1 hc)) ho'
        · rw [if_neg hc]
          exact ih _ _ _ _ (w2 (fun hh => hc ((contains_iff_mem _ _).2 hh))) ho'

/-- invariant of the colouring `sid` between two pops of the face queue -/
structure SInv (m0 m : Map Val) (q mk : List Nat) (sid : Nat) : Prop where
  topo : SameTopo m0 m
  qf : ∀ h, h ∈ q → FaceId m0 h
  mkf : ∀ h, h ∈ mk → h = 0 ∨ FaceId m0 h
  mk0 : 0 ∈ mk
  Q : ∀ h, h ∈ q → m.att sFA h = none ∨ m.att sFA h = some (vSurface sid)
  M : ∀ h, h ∈ mk → h ≠ 0 → h ∈ q ∨ (m.att sFA h).isSome = true
  C : ∀ h, FaceId m0 h → (m.att sFA h).isSome = true → Closed m0 m h
  R : ∀ x, x ≠ 0 → x < m0.n → m0.β 2 x ≠ 0 → ∀ k, m.att sEA (edOf m0 x) = some (vSurface k) →
    Status m q sid k (cellId m0 .face x) ∧ Status m q sid k (cellId m0 .face (m0.β 2 x))

/-- popping the head of the queue and anchoring it -/
theorem SInv.pop (h0 : Ok9 m0) {m : Map Val} {crt : Nat} {q mk : List Nat} {sid : Nat}
    (I : SInv m0 m (crt :: q) mk sid) :
    DInv m0 (m.setA sFA crt (some (vSurface sid))) q mk sid crt [] := by
  have hcf := I.qf crt List.mem_cons_self
  have hm9 := h0.sameTopo I.topo
  have hok : m.okA sFA crt = true := hm9.okA (by decide : sFA ≤ 8) (by rw [I.topo.n]; exact hcf.2.1)
  have aF : ∀ x, (m.setA sFA crt (some (vSurface sid))).att sFA x =
      if crt = x then some (vSurface sid) else m.att sFA x := by
    intro x; rw [Map.att_setA]
    by_cases e : crt = x
    · rw [if_pos ⟨rfl, e, hok⟩, if_pos e]
    · rw [if_neg (fun hh => e hh.2.1), if_neg e]
  have aE : ∀ x, (m.setA sFA crt (some (vSurface sid))).att sEA x = m.att sEA x := by
    intro x; rw [Map.att_setA, if_neg (fun hh => absurd hh.1 (by decide))]
  have stat : ∀ k h, Status m (crt :: q) sid k h → Status (m.setA sFA crt (some (vSurface sid))) q sid k h := by
    intro k h hs
    by_cases e : crt = h
    · subst e
      rcases hs with e1 | ⟨e1, _⟩
      · rcases I.Q crt List.mem_cons_self with e2 | e2
        · rw [e1] at e2; cases e2
        · rw [e1] at e2; have := vSurface_inj e2; subst this
          exact Or.inl (by rw [aF, if_pos rfl])
      · subst e1; exact Or.inl (by rw [aF, if_pos rfl])
    · rcases hs with e1 | ⟨e1, e2⟩
      · exact Or.inl (by rw [aF, if_neg e]; exact e1)
      · rcases List.mem_cons.1 e2 with e3 | e3
        · exact absurd e3.symm e
        · exact Or.inr ⟨e1, e3⟩
  refine ⟨I.topo.trans (SameTopo.setA _ _ _ _), fun h hh => I.qf h (List.mem_cons_of_mem _ hh), I.mkf, I.mk0,
    ?_, ?_, ?_, ⟨by rw [aF, if_pos rfl], fun x hx => by cases hx⟩, hcf, ?_⟩
  · intro h hh
    rw [aF]
    by_cases e : crt = h
    · rw [if_pos e]; exact Or.inr rfl
    · rw [if_neg e]; exact I.Q h (List.mem_cons_of_mem _ hh)
  · intro h hh hne
    rw [aF]
    by_cases e : crt = h
    · rw [if_pos e]; exact Or.inr rfl
    · rw [if_neg e]
      rcases I.M h hh hne with hq | hs
      · rcases List.mem_cons.1 hq with e3 | e3
        · exact absurd e3.symm e
        · exact Or.inl e3
      · exact Or.inr hs
  · intro h hf hs hne x hx
    rw [aF, if_neg (fun e => hne e.symm)] at hs
    rw [aE]; exact I.C h hf hs x hx
  · intro x hx0 hx hbx k hk
    rw [aE] at hk
    obtain ⟨s1, s2⟩ := I.R x hx0 hx hbx k hk
    exact ⟨stat _ _ s1, stat _ _ s2⟩

/-- all darts of the popped face have been visited -/
theorem DInv.finish {m : Map Val} {q mk : List Nat} {sid crt : Nat} (I : DInv m0 m q mk sid crt (orb m0 .face crt)) :
    SInv m0 m q mk sid := by
  refine ⟨I.topo, I.qf, I.mkf, I.mk0, I.Q, I.M, ?_, I.R⟩
  intro h hf hs
  by_cases e : h = crt
  · subst e; exact fun x hx => I.P.2 x hx
  · exact I.C h hf hs e

/-- the colouring of one surface keeps the invariant -/
theorem colourSurface_inv (h0 : Ok9 m0) (sid : Nat) : ∀ (f : Nat) (q mk : List Nat) (m : Map Val),
    SInv m0 m q mk sid → ∀ mk' m', run (colourSurface m0.n sid f q mk) m = (.ok mk', m') →
    SInv m0 m' [] mk' sid := by
  intro f
  induction f with
  | zero => intro q mk m _ mk' m' hr; simp [colourSurface, run] at hr
  | succ f ih =>
      intro q mk m I mk' m' hr
      cases q with
      | nil =>
          simp only [colourSurface, Prog.pure_eq, run_ret, Prod.mk.injEq, Out.ok.injEq] at hr
          obtain ⟨e1, e2⟩ := hr
          subst e1; subst e2; exact I
      | cons crt q =>
          have hcf := I.qf crt List.mem_cons_self
          have hm9 := h0.sameTopo I.topo
          have hn : m.n = m0.n := I.topo.n
          rw [← hn, run_colourSurface_cons hm9 (by rw [hn]; exact hcf.2.1), orb_sameTopo I.topo, hn] at hr
          obtain ⟨q', mk1, m1, hr1, I1⟩ := colourDarts_inv h0 sid crt (orb m0 .face crt) [] q mk _ (I.pop h0)
            (by simp)
          rw [hr1] at hr
          simp only [List.nil_append] at I1
          exact ih q' mk1 m1 I1.finish mk' m' hr

theorem SInv.resid {m : Map Val} {mk : List Nat} {sid sid' : Nat} (I : SInv m0 m [] mk sid) :
    SInv m0 m [] mk sid' := by
  refine ⟨I.topo, I.qf, I.mkf, I.mk0, ?_, I.M, I.C, ?_⟩
  · intro h hh; cases hh
  intro x hx0 hx hbx k hk
  obtain ⟨s1, s2⟩ := I.R x hx0 hx hbx k hk
  constructor
  · rcases s1 with e | ⟨_, e⟩
    · exact Or.inl e
    · cases e
  · rcases s2 with e | ⟨_, e⟩
    · exact Or.inl e
    · cases e

/-- the third loop keeps the invariant -/
theorem classifySurfaces_inv (h0 : Ok9 m0) : ∀ (ds : List Nat) (sid : Nat) (mk : List Nat) (m m' : Map Val),
    (∀ d, d ∈ ds → d ≠ 0 ∧ d < m0.n) → SInv m0 m [] mk sid →
    run (classifySurfaces m0.n ds sid mk) m = (.ok (), m') → ∃ mk' sid', SInv m0 m' [] mk' sid' := by
  intro ds
  induction ds with
  | nil =>
      intro sid mk m m' _ I hr
      simp only [classifySurfaces, Prog.pure_eq, run_ret, Prod.mk.injEq, true_and] at hr
      subst hr; exact ⟨mk, sid, I⟩
  | cons x xs ih =>
      intro sid mk m m' hds I hr
      have hx := hds x List.mem_cons_self
      have hxs : ∀ d, d ∈ xs → d ≠ 0 ∧ d < m0.n := fun d hd => hds d (List.mem_cons_of_mem _ hd)
      have hm9 := h0.sameTopo I.topo
      have hn : m.n = m0.n := I.topo.n
      have hxn : x < m.n := by rw [hn]; exact hx.2
      unfold classifySurfaces at hr
      simp only [Prog.bind_eq, run_rU, (hm9.wf.toSized.okU x).2 hxn, if_true] at hr
      by_cases hux : m.unused x = true
      · simp only [hux, if_true] at hr
        exact ih sid mk m m' hxs I hr
      · simp only [hux, if_false, Bool.false_eq_true] at hr
        rw [← hn, run_bind, run_fid' hm9.wf hxn, hn, cellId_sameTopo I.topo] at hr
        simp only at hr
        by_cases hcx : cellId m0 .face x ≠ x
        · simp only [hcx, if_true, ne_eq, not_false_eq_true] at hr
          exact ih sid mk m m' hxs I hr
        · simp only [hcx, if_false] at hr
          have hcx' : cellId m0 .face x = x := Classical.not_not.1 hcx
          simp only [run_rA, hm9.okA (by decide : sFA ≤ 8) hxn, if_true] at hr
          by_cases ha : (m.att sFA x).isSome = true
          · simp only [ha, if_true] at hr
            exact ih sid mk m m' hxs I hr
          · simp only [ha, if_false, Bool.false_eq_true] at hr
            obtain ⟨mk1, m1, h1, hr2⟩ := run_bind_ok hr
            have hnone : m.att sFA x = none := by
              cases hh : m.att sFA x with
              | none => rfl
              | some v => rw [hh] at ha; exact absurd rfl ha
            have Istart : SInv m0 m [x] mk sid := by
              refine ⟨I.topo, ?_, I.mkf, I.mk0, ?_, ?_, I.C, ?_⟩
              · intro h hh; rw [List.mem_singleton.1 hh]; exact ⟨hx.1, hx.2, hcx'⟩
              · intro h hh; rw [List.mem_singleton.1 hh]; exact Or.inl hnone
              · intro h hh hne
                rcases I.M h hh hne with hq | hs
                · cases hq
                · exact Or.inr hs
              · intro y hy0 hy hby k hk
                obtain ⟨s1, s2⟩ := I.R y hy0 hy hby k hk
                exact ⟨s1.mono rfl (fun _ hq => by cases hq), s2.mono rfl (fun _ hq => by cases hq)⟩
            have I1 := colourSurface_inv h0 sid (m0.n + 2) [x] mk m Istart mk1 m1 h1
            exact ih (sid + 1) mk1 m1 m' hxs I1.resid hr2

end

/-! ## frames: the first two loops only write curves, the third only surfaces -/

/-- every slot that changed holds a value `f c` afterwards, in one of the anchor storages -/
def OnlyVals (S : List Nat) (f : Nat → Val) (m m' : Map Val) : Prop :=
  ∀ s d, m'.att s d ≠ m.att s d → s ∈ S ∧ ∃ c, m'.att s d = some (f c)

theorem OnlyVals.refl (S : List Nat) (f : Nat → Val) (m : Map Val) : OnlyVals S f m m := fun _ _ h => absurd rfl h

theorem OnlyVals.trans {S : List Nat} {f : Nat → Val} {m m' m'' : Map Val} (h1 : OnlyVals S f m m')
    (h2 : OnlyVals S f m' m'') : OnlyVals S f m m'' := by
  intro s d hne
  by_cases e : m''.att s d = m'.att s d
  · rw [e] at hne ⊢; exact h1 s d hne
  · exact h2 s d e

theorem OnlyVals.setA (S : List Nat) (f : Nat → Val) (m : Map Val) (s d c : Nat) (hs : s ∈ S) :
    OnlyVals S f m (m.setA s d (some (f c))) := by
  intro t e hne
  rw [Map.att_setA] at hne ⊢
  by_cases hc : s = t ∧ d = e ∧ m.okA s d = true
  · rw [if_pos hc]; exact ⟨hc.1 ▸ hs, c, rfl⟩
  · rw [if_neg hc] at hne; exact absurd rfl hne

/-- the program only writes values `f c` into the anchor storages (whatever its outcome) -/
def Writes {α : Type} (S : List Nat) (f : Nat → Val) (p : P Val α) : Prop :=
  ∀ m : Map Val, OnlyVals S f m (run p m).2

theorem Writes.of_readOnly {α : Type} {S : List Nat} {f : Nat → Val} {p : P Val α} (h : ReadOnly p) : Writes S f p := by
  intro m; rw [h m]; exact OnlyVals.refl S f m

theorem Writes.pure {α : Type} {S : List Nat} {f : Nat → Val} (a : α) : Writes S f (pure a : P Val α) := fun m => OnlyVals.refl S f m
theorem Writes.abort {α : Type} {S : List Nat} {f : Nat → Val} (e : Err) : Writes S f (abort e : P Val α) := fun m => OnlyVals.refl S f m
theorem Writes.retry {α : Type} {S : List Nat} {f : Nat → Val} : Writes S f (Prog.retry : P Val α) := fun m => OnlyVals.refl S f m

theorem Writes.bind {α β : Type} {S : List Nat} {f : Nat → Val} {p : P Val α} {g : α → P Val β}
    (hp : Writes S f p) (hg : ∀ a, Writes S f (g a)) : Writes S f (p.bind g) := by
  intro m
  rw [run_bind_snd]
  have := hp m
  match h : run p m with
  | (.ok a, m') => rw [h] at this; exact this.trans (hg a m')
  | (.err e, m') => rw [h] at this; exact this
  | (.retry, m') => rw [h] at this; exact this
  | (.panic, m') => rw [h] at this; exact this

theorem Writes.wA (S : List Nat) (f : Nat → Val) (s d c : Nat) (hs : s ∈ S) :
    Writes S f (wA s d (some (f c)) : P Val Unit) := by
  intro m; simp only [run_wA']; split
  · exact OnlyVals.setA S f m s d c hs
  · exact OnlyVals.refl S f m

theorem Writes.ite {α : Type} {S : List Nat} {f : Nat → Val} {c : Prop} [Decidable c] {p q : P Val α}
    (hp : Writes S f p) (hq : Writes S f q) : Writes S f (if c then p else q) := by
  split <;> assumption

theorem writes_markCurveLoop (n c : Nat) : ∀ f next, Writes [sVA, sEA] vCurve (markCurveLoop n c f next) := by
  intro f
  induction f with
  | zero => intro next; exact Writes.retry
  | succ f ih =>
      intro next
      unfold markCurveLoop
      refine Writes.bind (Writes.of_readOnly (readOnly_vertexId2 _ _)) fun v =>
        Writes.bind (Writes.of_readOnly (ReadOnly.rA _ _)) fun a => ?_
      refine Writes.ite (Writes.pure _) ?_
      refine Writes.bind (Writes.of_readOnly (readOnly_freeDartOfVertex _ _)) fun fd => ?_
      cases fd with
      | none => exact Writes.abort _
      | some crt =>
          refine Writes.bind (Writes.of_readOnly (readOnly_vertexId2 _ _)) fun vc =>
            Writes.bind (Writes.wA _ vCurve _ _ c (by decide)) fun _ => ?_
          refine Writes.bind (Writes.of_readOnly (readOnly_edgeId2 _)) fun ec =>
            Writes.bind (Writes.wA _ vCurve _ _ c (by decide)) fun _ => ?_
          exact Writes.bind (Writes.of_readOnly (ReadOnly.rB _ _)) fun nx => ih nx

theorem writes_markCurve (n start c : Nat) : Writes [sVA, sEA] vCurve (markCurve n start c) := by
  unfold markCurve
  refine Writes.bind (Writes.of_readOnly (readOnly_edgeId2 _)) fun e =>
    Writes.bind (Writes.wA _ vCurve _ _ c (by decide)) fun _ => ?_
  exact Writes.bind (Writes.of_readOnly (ReadOnly.rB _ _)) fun nx => writes_markCurveLoop _ _ _ _

theorem writes_classifyNodes (n : Nat) : ∀ ds i cid, Writes [sVA, sEA] vCurve (classifyNodes n ds i cid) := by
  intro ds
  induction ds with
  | nil => intro i cid; exact Writes.pure _
  | cons d ds ih =>
      intro i cid
      unfold classifyNodes
      refine Writes.bind (Writes.of_readOnly (ReadOnly.rU _)) fun un => Writes.ite (ih _ _) ?_
      refine Writes.bind (Writes.of_readOnly (readOnly_vertexId2 _ _)) fun vid => Writes.ite (ih _ _) ?_
      refine Writes.bind (Writes.of_readOnly (ReadOnly.rA _ _)) fun a => Writes.ite (ih _ _) ?_
      refine Writes.bind (Writes.of_readOnly (readOnly_freeDartOfVertex _ _)) fun fd => ?_
      cases fd with
      | none => exact ih _ _
      | some dart => exact Writes.bind (writes_markCurve _ _ _) fun _ => ih _ _

theorem writes_classifyLoops (n : Nat) : ∀ f cid, Writes [sVA, sEA] vCurve (classifyLoops n f cid) := by
  intro f
  induction f with
  | zero => intro cid; exact Writes.retry
  | succ f ih =>
      intro cid
      unfold classifyLoops
      refine Writes.bind (Writes.of_readOnly (readOnly_findUnmarkedBoundary _ _)) fun r => ?_
      cases r with
      | none => exact Writes.pure _
      | some dart =>
          refine Writes.bind (Writes.of_readOnly (readOnly_vertexId2 _ _)) fun v =>
            Writes.bind (Writes.wA _ vCurve _ _ (cid + 1) (by decide)) fun _ => ?_
          exact Writes.bind (writes_markCurve _ _ _) fun _ => ih _

theorem writes_colourDarts (n sid : Nat) : ∀ ds q mk, Writes [sVA, sEA, sFA] vSurface (colourDarts n sid ds q mk) := by
  intro ds
  induction ds with
  | nil => intro q mk; exact Writes.pure _
  | cons d ds ih =>
      intro q mk
      unfold colourDarts
      refine Writes.bind (Writes.of_readOnly (readOnly_edgeId2 _)) fun e =>
        Writes.bind (Writes.of_readOnly (ReadOnly.rA _ _)) fun a => Writes.ite (ih _ _) ?_
      refine Writes.bind (Writes.of_readOnly (readOnly_edgeId2 _)) fun e' =>
        Writes.bind (Writes.wA _ vSurface _ _ sid (by decide)) fun _ => ?_
      refine Writes.bind (Writes.of_readOnly (readOnly_vertexId2 _ _)) fun v =>
        Writes.bind (Writes.of_readOnly (ReadOnly.rA _ _)) fun av => ?_
      refine Writes.bind (Writes.ite (Writes.bind (Writes.of_readOnly (readOnly_vertexId2 _ _)) fun v' =>
        Writes.wA _ vSurface _ _ sid (by decide)) (Writes.pure _)) fun _ => ?_
      refine Writes.bind (Writes.of_readOnly (ReadOnly.rB _ _)) fun b2 =>
        Writes.bind (Writes.of_readOnly (readOnly_faceId2 _ _)) fun nf => ?_
      exact Writes.ite (ih _ _) (ih _ _)

theorem writes_colourSurface (n sid : Nat) : ∀ f q mk, Writes [sVA, sEA, sFA] vSurface (colourSurface n sid f q mk) := by
  intro f
  induction f with
  | zero => intro q mk; exact Writes.retry
  | succ f ih =>
      intro q mk
      cases q with
      | nil => unfold colourSurface; exact Writes.pure _
      | cons crt q =>
          unfold colourSurface
          refine Writes.bind (Writes.wA _ vSurface _ _ sid (by decide)) fun _ =>
            Writes.bind (Writes.of_readOnly (readOnly_orbit2 _ _ _)) fun o => ?_
          exact Writes.bind (writes_colourDarts _ _ _ _ _) fun r => ih _ _

theorem writes_classifySurfaces (n : Nat) : ∀ ds sid mk, Writes [sVA, sEA, sFA] vSurface (classifySurfaces n ds sid mk) := by
  intro ds
  induction ds with
  | nil => intro sid mk; exact Writes.pure _
  | cons d ds ih =>
      intro sid mk
      unfold classifySurfaces
      refine Writes.bind (Writes.of_readOnly (ReadOnly.rU _)) fun un => Writes.ite (ih _ _) ?_
      refine Writes.bind (Writes.of_readOnly (readOnly_faceId2 _ _)) fun f => Writes.ite (ih _ _) ?_
      refine Writes.bind (Writes.of_readOnly (ReadOnly.rA _ _)) fun a => Writes.ite (ih _ _) ?_
      exact Writes.bind (writes_colourSurface _ _ _ _ _) fun mk' => ih _ _

theorem curve_ne_surface (c k : Nat) : (some (vCurve c) : Option Val) ≠ some (vSurface k) := by
  unfold vCurve vSurface
  intro e
  injection e with e
  injection e with e
  injection e with e
  omega

/-! ## the property theorems -/

/-- the three loops, taken apart -/
theorem classifyCore_parts {m m' : Map Val} (hr : run (classifyCore m.n) m = (.ok (), m')) :
    ∃ cid r m1 m2, run (classifyNodes m.n (List.range' 1 (m.n - 1)) 0 0) m = (.ok cid, m1) ∧
      run (classifyLoops m.n (m.n + 1) cid) m1 = (.ok r, m2) ∧
      run (classifySurfaces m.n (List.range' 1 (m.n - 1)) 0 [0]) m2 = (.ok (), m') := by
  unfold classifyCore at hr
  simp only [Prog.bind_eq] at hr
  obtain ⟨cid, m1, h1, hr⟩ := run_bind_ok hr
  obtain ⟨r, m2, h2, hr⟩ := run_bind_ok hr
  exact ⟨cid, r, m1, m2, h1, h2, hr⟩

/-- **C17, surfaces — every surface-anchored edge separates two faces of that surface**: run the three
    classification loops on a well-formed 2-map that carries no edge and no face anchor (the shape
    `capture_geometry` returns: only node anchors on vertices).  When they end without error, every
    2-linked dart whose edge is anchored to `Surface(k)` lies between two faces anchored to
    `Surface(k)`. -/
theorem C17_surface_edge_faces {m m' : Map Val} (h : WF 3 m) (hst : 8 < m.a.size)
    (hE : ∀ x, m.att sEA x = none) (hF : ∀ x, m.att sFA x = none)
    (hr : run (classifyCore m.n) m = (.ok (), m')) :
    ∀ x, x ≠ 0 → x < m.n → m.β 2 x ≠ 0 → ∀ k, m'.att sEA (cellId m .edge x) = some (vSurface k) →
      m'.att sFA (cellId m .face x) = some (vSurface k) ∧
      m'.att sFA (cellId m .face (m.β 2 x)) = some (vSurface k) := by
  have h9 : Ok9 m := ⟨h, hst⟩
  obtain ⟨cid, r, m1, m2, h1, h2, h3⟩ := classifyCore_parts hr
  have g1 : Grow m m1 := by
    have := anch_classifyNodes m.n (List.range' 1 (m.n - 1)) 0 0 m; rw [h1] at this; exact this
  have g2 : Grow m1 m2 := by
    have := anch_classifyLoops m.n (m.n + 1) cid m1; rw [h2] at this; exact this
  have w1 : OnlyVals [sVA, sEA] vCurve m m1 := by
    have := writes_classifyNodes m.n (List.range' 1 (m.n - 1)) 0 0 m; rw [h1] at this; exact this
  have w2 : OnlyVals [sVA, sEA] vCurve m1 m2 := by
    have := writes_classifyLoops m.n (m.n + 1) cid m1; rw [h2] at this; exact this
  have w := w1.trans w2
  have I0 : SInv m m2 [] [0] 0 := by
    refine ⟨g1.topo.trans g2.topo, ?_, ?_, by simp, ?_, ?_, ?_, ?_⟩
    · intro h hh; cases hh
    · intro h hh; exact Or.inl (List.mem_singleton.1 hh)
    · intro h hh; cases hh
    · intro h hh hne; exact absurd (List.mem_singleton.1 hh) hne
    · intro h _ hs
      exfalso
      by_cases e : m2.att sFA h = m.att sFA h
      · rw [e, hF] at hs; cases hs
      · exact absurd (w sFA h e).1 (by decide)
    · intro x hx0 hx hbx k hk
      exfalso
      by_cases e : m2.att sEA (edOf m x) = m.att sEA (edOf m x)
      · rw [e, hE] at hk; cases hk
      · obtain ⟨_, c, ec⟩ := w sEA (edOf m x) e
        rw [ec] at hk
        exact curve_ne_surface c k hk
  obtain ⟨mk', sid', I⟩ := classifySurfaces_inv h9 _ 0 [0] m2 m' (fun d hd => mem_darts.1 hd) I0 h3
  intro x hx0 hx hbx k hk
  have he : cellId m .edge x = edOf m x := (C03_edgeId2_min h hx0 hx).2.2.2
  rw [he] at hk
  obtain ⟨s1, s2⟩ := I.R x hx0 hx hbx k hk
  constructor
  · rcases s1 with e | ⟨_, e⟩
    · exact e
    · cases e
  · rcases s2 with e | ⟨_, e⟩
    · exact e
    · cases e

/-- after the three loops on a map without edge anchors, an edge anchor is a curve or a surface -/
theorem C17_edge_anchor_kinds {m m' : Map Val} (hE : ∀ x, m.att sEA x = none)
    (hr : run (classifyCore m.n) m = (.ok (), m')) :
    ∀ x, m'.att sEA x = none ∨ (∃ c, m'.att sEA x = some (vCurve c)) ∨ ∃ k, m'.att sEA x = some (vSurface k) := by
  obtain ⟨cid, r, m1, m2, h1, h2, h3⟩ := classifyCore_parts hr
  have w1 : OnlyVals [sVA, sEA] vCurve m m1 := by
    have := writes_classifyNodes m.n (List.range' 1 (m.n - 1)) 0 0 m; rw [h1] at this; exact this
  have w2 : OnlyVals [sVA, sEA] vCurve m1 m2 := by
    have := writes_classifyLoops m.n (m.n + 1) cid m1; rw [h2] at this; exact this
  have w3 : OnlyVals [sVA, sEA, sFA] vSurface m2 m' := by
    have := writes_classifySurfaces m.n (List.range' 1 (m.n - 1)) 0 [0] m2; rw [h3] at this; exact this
  intro x
  by_cases e3 : m'.att sEA x = m2.att sEA x
  · by_cases e2 : m2.att sEA x = m.att sEA x
    · left; rw [e3, e2, hE]
    · right; left; obtain ⟨_, c, ec⟩ := (w1.trans w2) sEA x e2; exact ⟨c, by rw [e3, ec]⟩
  · right; right; obtain ⟨_, k, ek⟩ := w3 sEA x e3; exact ⟨k, ek⟩

/-- `classify_capture = Ok` is `Ok` of the three loops followed by three read-only assertions -/
theorem classifyCapture_ok_core {n : Nat} {m m' : Map Val} (hr : run (classifyCapture n) m = (.ok (), m')) :
    run (classifyCore n) m = (.ok (), m') := by
  unfold classifyCapture at hr
  simp only [Prog.bind_eq] at hr
  obtain ⟨_, m1, h1, hr⟩ := run_bind_ok hr
  obtain ⟨av, m2, h2, hr⟩ := run_bind_ok hr
  have e2 : m2 = m1 := allAnchored_readOnly_run (readOnly_vertexId2 _) h2
  subst e2
  cases av with
  | false => simp at hr
  | true =>
  simp only [Bool.not_true, Bool.false_eq_true, if_false] at hr
  obtain ⟨ae, m3, h3, hr⟩ := run_bind_ok hr
  have e3 : m3 = m2 := allAnchored_readOnly_run readOnly_edgeId2 h3
  subst e3
  cases ae with
  | false => simp at hr
  | true =>
  simp only [Bool.not_true, Bool.false_eq_true, if_false] at hr
  obtain ⟨af, m4, h4, hr⟩ := run_bind_ok hr
  have e4 : m4 = m3 := allAnchored_readOnly_run (readOnly_faceId2 _) h4
  subst e4
  cases af with
  | false => simp at hr
  | true =>
  simp only [Bool.not_true, Bool.false_eq_true, if_false, Prog.pure_eq, run_ret, Prod.mk.injEq,
    true_and] at hr
  subst hr
  exact h1

/-- **C17, surfaces — faces that touch along an edge which is not anchored to a curve carry the same
    surface identifier**: `classify_capture = Ok` on a well-formed 2-map without edge / face anchors
    (only node anchors, as `capture_geometry` returns it).  For every in-use 2-linked dart whose edge is
    not anchored to a curve, that edge and the two faces on its sides are anchored to one and the same
    `Surface(k)`. -/
theorem C17_faces_across_non_curve_edge_same {m m' : Map Val} (h : WF 3 m) (hst : 8 < m.a.size)
    (hE : ∀ x, m.att sEA x = none) (hF : ∀ x, m.att sFA x = none)
    (hr : run (classifyCapture m.n) m = (.ok (), m')) :
    ∀ x, x ≠ 0 → x < m.n → m.unused x = false → m.β 2 x ≠ 0 →
      (∀ c, m'.att sEA (cellId m .edge x) ≠ some (vCurve c)) →
      ∃ k, m'.att sEA (cellId m .edge x) = some (vSurface k) ∧
        m'.att sFA (cellId m .face x) = some (vSurface k) ∧
        m'.att sFA (cellId m .face (m.β 2 x)) = some (vSurface k) := by
  intro x hx0 hx hu hb hnc
  have hcore := classifyCapture_ok_core hr
  obtain ⟨hw', hall⟩ := C17_classify_ok_all_anchored h hr
  have t := (anch_classifyCapture m.n m).topo
  rw [hr] at t
  have hae := (hall x hx0 (by rw [t.n]; exact hx) (by rw [t.unused]; exact hu)).2.1
  rw [cellId_sameTopo t] at hae
  rcases C17_edge_anchor_kinds hE hcore (cellId m .edge x) with e | ⟨c, e⟩ | ⟨k, e⟩
  · rw [e] at hae; cases hae
  · exact absurd e (hnc c)
  · obtain ⟨f1, f2⟩ := C17_surface_edge_faces h hst hE hF hcore x hx0 hx hb k e
    exact ⟨k, e, f1, f2⟩

/-- faces linked by a chain of in-use 2-linked darts none of whose edges is anchored to a curve -/
inductive NoCurveLinked (m m' : Map Val) : Nat → Nat → Prop where
  | refl (f : Nat) : NoCurveLinked m m' f f
  | step {f x : Nat} : NoCurveLinked m m' f (cellId m .face x) → x ≠ 0 → x < m.n → m.unused x = false →
      m.β 2 x ≠ 0 → (∀ c, m'.att sEA (cellId m .edge x) ≠ some (vCurve c)) →
      NoCurveLinked m m' f (cellId m .face (m.β 2 x))

/-- **C17, one surface identifier per region**: faces that can be reached from each other without
    crossing a curve-anchored edge carry the same face anchor -/
theorem C17_surface_connected_same {m m' : Map Val} (h : WF 3 m) (hst : 8 < m.a.size)
    (hE : ∀ x, m.att sEA x = none) (hF : ∀ x, m.att sFA x = none)
    (hr : run (classifyCapture m.n) m = (.ok (), m')) {f f' : Nat} (hl : NoCurveLinked m m' f f') :
    m'.att sFA f = m'.att sFA f' := by
  induction hl with
  | refl => rfl
  | step _ hx0 hx hu hb hnc ih =>
      obtain ⟨k, _, f1, f2⟩ := C17_faces_across_non_curve_edge_same h hst hE hF hr _ hx0 hx hu hb hnc
      rw [ih, f1, f2]

/-! ## the converse: faces with the same surface identifier are linked by edges of that surface -/

/-- the faces `b` and `c` lie on the two sides of an edge anchored to `Surface(k)` -/
def SAdj (m0 m : Map Val) (k b c : Nat) : Prop :=
  ∃ x, x ≠ 0 ∧ x < m0.n ∧ m0.β 2 x ≠ 0 ∧ m.att sEA (edOf m0 x) = some (vSurface k) ∧
    ((cellId m0 .face x = b ∧ cellId m0 .face (m0.β 2 x) = c) ∨
     (cellId m0 .face x = c ∧ cellId m0 .face (m0.β 2 x) = b))

/-- linked by a chain of edges anchored to `Surface(k)` -/
inductive SLink (m0 m : Map Val) (k : Nat) : Nat → Nat → Prop where
  | refl (a : Nat) : SLink m0 m k a a
  | step {a b c : Nat} : SLink m0 m k a b → SAdj m0 m k b c → SLink m0 m k a c

theorem SAdj.symm {m0 m : Map Val} {k b c : Nat} (h : SAdj m0 m k b c) : SAdj m0 m k c b := by
  obtain ⟨x, h1, h2, h3, h4, h5⟩ := h
  exact ⟨x, h1, h2, h3, h4, h5.symm⟩

theorem SLink.trans {m0 m : Map Val} {k a b c : Nat} (h1 : SLink m0 m k a b) (h2 : SLink m0 m k b c) :
    SLink m0 m k a c := by
  induction h2 with
  | refl => exact h1
  | step _ hadj ih => exact SLink.step ih hadj

theorem SLink.symm {m0 m : Map Val} {k a b : Nat} (h : SLink m0 m k a b) : SLink m0 m k b a := by
  induction h with
  | refl => exact SLink.refl _
  | step _ hadj ih => exact (SLink.step (SLink.refl _) hadj.symm).trans ih

theorem SLink.mono {m0 m m' : Map Val} {k a b : Nat}
    (hE : ∀ x k, m.att sEA x = some (vSurface k) → m'.att sEA x = some (vSurface k))
    (h : SLink m0 m k a b) : SLink m0 m' k a b := by
  induction h with
  | refl => exact SLink.refl _
  | step _ hadj ih =>
      obtain ⟨x, h1, h2, h3, h4, h5⟩ := hadj
      exact SLink.step ih ⟨x, h1, h2, h3, hE _ _ h4, h5⟩

section
variable {m0 : Map Val}

/-- the start face of the colouring `k` is recorded in a ghost function -/
def upd (root : Nat → Nat) (k v : Nat) : Nat → Nat := fun j => if j = k then v else root j

theorem upd_self (root : Nat → Nat) (k v : Nat) : upd root k v k = v := by simp [upd]
theorem upd_ne (root : Nat → Nat) {j k : Nat} (h : j ≠ k) (v : Nat) : upd root k v j = root j := by
  simp [upd, h]

/-- second invariant: every face of the surface `k` (anchored or waiting) is linked to the face the
    colouring `k` started from; identifiers above the current one are not in use -/
structure TInv (m0 m : Map Val) (q : List Nat) (sid : Nat) (root : Nat → Nat) : Prop where
  T : ∀ h k, Status m q sid k h → SLink m0 m k (root k) h
  N : ∀ h k, m.att sFA h = some (vSurface k) → k ≤ sid

theorem TInv.write (h0 : Ok9 m0) {m : Map Val} {q mk : List Nat} {sid crt d : Nat} {pre : List Nat}
    {root : Nat → Nat} (I : DInv m0 m q mk sid crt pre) (J : TInv m0 m q sid root)
    (hd : d ∈ orb m0 .face crt) (ha : ¬ (m.att sEA (edOf m0 d)).isSome = true) :
    TInv m0 (colourStep m sid d) q sid root ∧
    (cellId m0 .face (m0.β 2 d) ∉ mk →
      TInv m0 (colourStep m sid d) (q ++ [cellId m0 .face (m0.β 2 d)]) sid root) := by
  obtain ⟨hd0, hdlt, hfd⟩ := face_of_mem h0.wf I.crtf hd
  have hm9 := h0.sameTopo I.topo
  have hed : edOf m d = edOf m0 d := edOf_sameTopo I.topo d
  have hok : m.okA sEA (edOf m d) = true := by
    rw [hed]; exact hm9.okA (by decide : sEA ≤ 8) (by rw [I.topo.n]; exact edOf_lt h0.wf hdlt)
  have hnone : m.att sEA (edOf m0 d) = none := by
    cases hx : m.att sEA (edOf m0 d) with
    | none => rfl
    | some v => rw [hx] at ha; exact absurd rfl ha
  have aF : ∀ x, (colourStep m sid d).att sFA x = m.att sFA x := colourStep_attF m sid d
  have aE : ∀ x, (colourStep m sid d).att sEA x =
      if edOf m0 d = x then some (vSurface sid) else m.att sEA x := by
    intro x; rw [colourStep_attE m sid d x hok, hed]
  have emono : ∀ x k, m.att sEA x = some (vSurface k) → (colourStep m sid d).att sEA x = some (vSurface k) := by
    intro x k hx
    rw [aE]
    by_cases e : edOf m0 d = x
    · rw [← e, hnone] at hx; cases hx
    · rw [if_neg e]; exact hx
  have oldT : ∀ h k, Status m q sid k h → SLink m0 (colourStep m sid d) k (root k) h :=
    fun h k hs => (J.T h k hs).mono emono
  have hN : ∀ h k, (colourStep m sid d).att sFA h = some (vSurface k) → k ≤ sid := by
    intro h k hh; rw [aF] at hh; exact J.N h k hh
  constructor
  · refine ⟨?_, hN⟩
    intro h k hs
    apply oldT
    rcases hs with e | e
    · exact Or.inl (by rw [← aF]; exact e)
    · exact Or.inr e
  · intro hmk
    have hb : m0.β 2 d ≠ 0 := by
      intro e; apply hmk; rw [e, cellId_zero h0.wf (pol := .face) trivial]; exact I.mk0
    refine ⟨?_, hN⟩
    intro h k hs
    rcases hs with e | ⟨e1, e2⟩
    · exact oldT h k (Or.inl (by rw [← aF]; exact e))
    · rcases List.mem_append.1 e2 with e2 | e2
      · exact oldT h k (Or.inr ⟨e1, e2⟩)
      · rw [List.mem_singleton.1 e2, e1]
        have hcrt := oldT crt sid (Or.inl I.P.1)
        refine SLink.step hcrt ⟨d, hd0, hdlt, hb, by rw [aE, if_pos rfl], Or.inl ⟨hfd, rfl⟩⟩

theorem TInv.pop (h0 : Ok9 m0) {m : Map Val} {crt : Nat} {q mk : List Nat} {sid : Nat} {root : Nat → Nat}
    (I : SInv m0 m (crt :: q) mk sid) (J : TInv m0 m (crt :: q) sid root) :
    TInv m0 (m.setA sFA crt (some (vSurface sid))) q sid root := by
  have hcf := I.qf crt List.mem_cons_self
  have hm9 := h0.sameTopo I.topo
  have hok : m.okA sFA crt = true := hm9.okA (by decide : sFA ≤ 8) (by rw [I.topo.n]; exact hcf.2.1)
  have aF : ∀ x, (m.setA sFA crt (some (vSurface sid))).att sFA x =
      if crt = x then some (vSurface sid) else m.att sFA x := by
    intro x; rw [Map.att_setA]
    by_cases e : crt = x
    · rw [if_pos ⟨rfl, e, hok⟩, if_pos e]
    · rw [if_neg (fun hh => e hh.2.1), if_neg e]
  have aE : ∀ x, (m.setA sFA crt (some (vSurface sid))).att sEA x = m.att sEA x := by
    intro x; rw [Map.att_setA, if_neg (fun hh => absurd hh.1 (by decide))]
  constructor
  · intro h k hs
    have old : Status m (crt :: q) sid k h := by
      rcases hs with e | ⟨e1, e2⟩
      · rw [aF] at e
        by_cases ec : crt = h
        · rw [if_pos ec] at e
          have := vSurface_inj e; subst this; subst ec
          exact Or.inr ⟨rfl, List.mem_cons_self⟩
        · rw [if_neg ec] at e; exact Or.inl e
      · exact Or.inr ⟨e1, List.mem_cons_of_mem _ e2⟩
    exact (J.T h k old).mono (fun x k hx => by rw [aE]; exact hx)
  · intro h k hh
    rw [aF] at hh
    by_cases ec : crt = h
    · rw [if_pos ec] at hh; have := vSurface_inj hh; omega
    · rw [if_neg ec] at hh; exact J.N h k hh

/-- the two invariants through the darts of one face -/
theorem colourDarts_inv2 (h0 : Ok9 m0) (sid crt : Nat) (root : Nat → Nat) :
    ∀ (ds pre q mk : List Nat) (m : Map Val),
    DInv m0 m q mk sid crt pre → TInv m0 m q sid root → orb m0 .face crt = pre ++ ds →
    ∃ q' mk' m', run (colourDarts m0.n sid ds q mk) m = (.ok (q', mk'), m') ∧
      DInv m0 m' q' mk' sid crt (pre ++ ds) ∧ TInv m0 m' q' sid root := by
  intro ds
  induction ds with
  | nil =>
      intro pre q mk m I J _
      exact ⟨q, mk, m, by simp [colourDarts], by simpa using I, J⟩
  | cons d ds ih =>
      intro pre q mk m I J ho
      have hd : d ∈ orb m0 .face crt := by rw [ho]; simp
      obtain ⟨hd0, hdlt, hfd⟩ := face_of_mem h0.wf I.crtf hd
      have hm9 := h0.sameTopo I.topo
      have hn : m.n = m0.n := I.topo.n
      have ho' : orb m0 .face crt = (pre ++ [d]) ++ ds := by rw [ho]; simp
      have e1 : pre ++ d :: ds = (pre ++ [d]) ++ ds := by simp
      rw [← hn, run_colourDarts_cons hm9 (by rw [hn]; exact hdlt), edOf_sameTopo I.topo,
        cellId_sameTopo I.topo, I.topo.β, hn, e1]
      by_cases ha : (m.att sEA (edOf m0 d)).isSome = true
      · rw [if_pos ha]
        exact ih _ q mk m (I.skip ha) J ho'
      · rw [if_neg ha]
        obtain ⟨w1, w2⟩ := I.write h0 hd ha
        obtain ⟨t1, t2⟩ := TInv.write h0 I J hd ha
        by_cases hc : mk.contains (cellId m0 .face (m0.β 2 d)) = true
        · rw [if_pos hc]
          exact ih _ q mk _ (w1 ((contains_iff_mem _ _).1 hc)) t1 ho'
        · rw [if_neg hc]
          have hnm : cellId m0 .face (m0.β 2 d) ∉ mk := fun hh => hc ((contains_iff_mem _ _).2 hh)
          exact ih _ _ _ _ (w2 hnm) (t2 hnm) ho'

theorem colourSurface_inv2 (h0 : Ok9 m0) (sid : Nat) (root : Nat → Nat) :
    ∀ (f : Nat) (q mk : List Nat) (m : Map Val),
    SInv m0 m q mk sid → TInv m0 m q sid root →
    ∀ mk' m', run (colourSurface m0.n sid f q mk) m = (.ok mk', m') →
    SInv m0 m' [] mk' sid ∧ TInv m0 m' [] sid root := by
  intro f
  induction f with
  | zero => intro q mk m _ _ mk' m' hr; simp [colourSurface, run] at hr
  | succ f ih =>
      intro q mk m I J mk' m' hr
      cases q with
      | nil =>
          simp only [colourSurface, Prog.pure_eq, run_ret, Prod.mk.injEq, Out.ok.injEq] at hr
          obtain ⟨e1, e2⟩ := hr
          subst e1; subst e2; exact ⟨I, J⟩
      | cons crt q =>
          have hcf := I.qf crt List.mem_cons_self
          have hm9 := h0.sameTopo I.topo
          have hn : m.n = m0.n := I.topo.n
          rw [← hn, run_colourSurface_cons hm9 (by rw [hn]; exact hcf.2.1), orb_sameTopo I.topo, hn] at hr
          obtain ⟨q', mk1, m1, hr1, I1, J1⟩ := colourDarts_inv2 h0 sid crt root (orb m0 .face crt) [] q mk _
            (I.pop h0) (TInv.pop h0 I J) (by simp)
          rw [hr1] at hr
          simp only [List.nil_append] at I1
          exact ih q' mk1 m1 I1.finish J1 mk' m' hr

/-- the third loop with both invariants: at the end every anchored face is linked to the start face of
    its surface -/
theorem classifySurfaces_inv2 (h0 : Ok9 m0) : ∀ (ds : List Nat) (sid : Nat) (mk : List Nat) (m m' : Map Val)
    (root : Nat → Nat),
    (∀ d, d ∈ ds → d ≠ 0 ∧ d < m0.n) → SInv m0 m [] mk sid → TInv m0 m [] sid root →
    (∀ h k, m.att sFA h = some (vSurface k) → k < sid) →
    run (classifySurfaces m0.n ds sid mk) m = (.ok (), m') →
    ∃ sid' root', TInv m0 m' [] sid' root' := by
  intro ds
  induction ds with
  | nil =>
      intro sid mk m m' root _ _ J _ hr
      simp only [classifySurfaces, Prog.pure_eq, run_ret, Prod.mk.injEq, true_and] at hr
      subst hr; exact ⟨sid, root, J⟩
  | cons x xs ih =>
      intro sid mk m m' root hds I J hfresh hr
      have hx := hds x List.mem_cons_self
      have hxs : ∀ d, d ∈ xs → d ≠ 0 ∧ d < m0.n := fun d hd => hds d (List.mem_cons_of_mem _ hd)
      have hm9 := h0.sameTopo I.topo
      have hn : m.n = m0.n := I.topo.n
      have hxn : x < m.n := by rw [hn]; exact hx.2
      unfold classifySurfaces at hr
      simp only [Prog.bind_eq, run_rU, (hm9.wf.toSized.okU x).2 hxn, if_true] at hr
      by_cases hux : m.unused x = true
      · simp only [hux, if_true] at hr
        exact ih sid mk m m' root hxs I J hfresh hr
      · simp only [hux, if_false, Bool.false_eq_true] at hr
        rw [← hn, run_bind, run_fid' hm9.wf hxn, hn, cellId_sameTopo I.topo] at hr
        simp only at hr
        by_cases hcx : cellId m0 .face x ≠ x
        · simp only [hcx, if_true, ne_eq, not_false_eq_true] at hr
          exact ih sid mk m m' root hxs I J hfresh hr
        · simp only [hcx, if_false] at hr
          have hcx' : cellId m0 .face x = x := Classical.not_not.1 hcx
          simp only [run_rA, hm9.okA (by decide : sFA ≤ 8) hxn, if_true] at hr
          by_cases ha : (m.att sFA x).isSome = true
          · simp only [ha, if_true] at hr
            exact ih sid mk m m' root hxs I J hfresh hr
          · simp only [ha, if_false, Bool.false_eq_true] at hr
            obtain ⟨mk1, m1, h1, hr2⟩ := run_bind_ok hr
            have hnone : m.att sFA x = none := by
              cases hh : m.att sFA x with
              | none => rfl
              | some v => rw [hh] at ha; exact absurd rfl ha
            have Istart : SInv m0 m [x] mk sid := by
              refine ⟨I.topo, ?_, I.mkf, I.mk0, ?_, ?_, I.C, ?_⟩
              · intro h hh; rw [List.mem_singleton.1 hh]; exact ⟨hx.1, hx.2, hcx'⟩
              · intro h hh; rw [List.mem_singleton.1 hh]; exact Or.inl hnone
              · intro h hh hne
                rcases I.M h hh hne with hq | hs
                · cases hq
                · exact Or.inr hs
              · intro y hy0 hy hby k hk
                obtain ⟨s1, s2⟩ := I.R y hy0 hy hby k hk
                exact ⟨s1.mono rfl (fun _ hq => by cases hq), s2.mono rfl (fun _ hq => by cases hq)⟩
            have Jstart : TInv m0 m [x] sid (upd root sid x) := by
              constructor
              · intro h k hs
                rcases hs with e | ⟨e1, e2⟩
                · have hk := hfresh h k e
                  rw [upd_ne root (by omega : k ≠ sid) x]
                  exact J.T h k (Or.inl e)
                · rw [e1, List.mem_singleton.1 e2, upd_self]
                  exact SLink.refl _
              · intro h k e; exact Nat.le_of_lt (hfresh h k e)
            obtain ⟨I1, J1⟩ := colourSurface_inv2 h0 sid _ (m0.n + 2) [x] mk m Istart Jstart mk1 m1 h1
            have J1' : TInv m0 m1 [] (sid + 1) (upd root sid x) := by
              refine ⟨?_, fun h k e => by have := J1.N h k e; omega⟩
              intro h k hs
              rcases hs with e | ⟨_, e⟩
              · exact J1.T h k (Or.inl e)
              · cases e
            exact ih (sid + 1) mk1 m1 m' _ hxs I1.resid J1'
              (fun h k e => by have := J1.N h k e; omega) hr2

end

/-- **C17, surfaces — two faces with the same surface identifier are linked**: after the three loops
    on a well-formed 2-map without edge and face anchors, two faces anchored to the same `Surface(k)`
    are joined by a chain of edges anchored to `Surface(k)` (so two regions separated by curve-anchored
    edges never share an identifier) -/
theorem C17_same_surface_linked {m m' : Map Val} (h : WF 3 m) (hst : 8 < m.a.size)
    (hE : ∀ x, m.att sEA x = none) (hF : ∀ x, m.att sFA x = none)
    (hr : run (classifyCore m.n) m = (.ok (), m')) {f f' k : Nat}
    (e1 : m'.att sFA f = some (vSurface k)) (e2 : m'.att sFA f' = some (vSurface k)) :
    SLink m m' k f f' := by
  have h9 : Ok9 m := ⟨h, hst⟩
  obtain ⟨cid, r, m1, m2, h1, h2, h3⟩ := classifyCore_parts hr
  have g1 : Grow m m1 := by
    have := anch_classifyNodes m.n (List.range' 1 (m.n - 1)) 0 0 m; rw [h1] at this; exact this
  have g2 : Grow m1 m2 := by
    have := anch_classifyLoops m.n (m.n + 1) cid m1; rw [h2] at this; exact this
  have w1 : OnlyVals [sVA, sEA] vCurve m m1 := by
    have := writes_classifyNodes m.n (List.range' 1 (m.n - 1)) 0 0 m; rw [h1] at this; exact this
  have w2 : OnlyVals [sVA, sEA] vCurve m1 m2 := by
    have := writes_classifyLoops m.n (m.n + 1) cid m1; rw [h2] at this; exact this
  have w := w1.trans w2
  have hF2 : ∀ x, m2.att sFA x = none := by
    intro x
    by_cases e : m2.att sFA x = m.att sFA x
    · rw [e, hF]
    · exact absurd (w sFA x e).1 (by decide)
  have I0 : SInv m m2 [] [0] 0 := by
    refine ⟨g1.topo.trans g2.topo, ?_, ?_, by simp, ?_, ?_, ?_, ?_⟩
    · intro h hh; cases hh
    · intro h hh; exact Or.inl (List.mem_singleton.1 hh)
    · intro h hh; cases hh
    · intro h hh hne; exact absurd (List.mem_singleton.1 hh) hne
    · intro h _ hs; rw [hF2] at hs; cases hs
    · intro x hx0 hx hbx k hk
      exfalso
      by_cases e : m2.att sEA (edOf m x) = m.att sEA (edOf m x)
      · rw [e, hE] at hk; cases hk
      · obtain ⟨_, c, ec⟩ := w sEA (edOf m x) e
        rw [ec] at hk
        exact curve_ne_surface c k hk
  have J0 : TInv m m2 [] 0 (fun _ => 0) := by
    constructor
    · intro h k hs
      rcases hs with e | ⟨_, e⟩
      · rw [hF2] at e; cases e
      · cases e
    · intro h k e; rw [hF2] at e; cases e
  obtain ⟨sid', root', J⟩ := classifySurfaces_inv2 h9 _ 0 [0] m2 m' _ (fun d hd => mem_darts.1 hd) I0 J0
    (fun h k e => by rw [hF2] at e; cases e) h3
  exact (J.T f k (Or.inl e1)).symm.trans (J.T f' k (Or.inl e2))

/-! ## non-vacuity -/

/-- two triangles 1-2-3 and 4-5-6 glued along the edge 2|4, nine storages, no anchor -/
def exTwo : Map Val :=
  { (Map.empty 3 9 7 : Map Val) with
    b := #[#[0, 3, 1, 2, 6, 4, 5], #[0, 2, 3, 1, 5, 6, 4], #[0, 0, 4, 0, 2, 0, 0]] }

theorem exTwo_wf : WF 3 exTwo := by decide
example : 8 < exTwo.a.size := by decide
example : (∀ x, x < 8 → exTwo.att sEA x = none ∧ exTwo.att sFA x = none) := by decide
example : (run (classifyCapture exTwo.n) exTwo).1 = .ok () := by decide +kernel
-- the glued edge (identifier 2) is anchored to the surface 0, as are the two triangles (1 and 4);
-- the outer sides form one curve
example : ((run (classifyCapture exTwo.n) exTwo).2).att sEA 2 = some (vSurface 0) := by decide +kernel
example : ((run (classifyCapture exTwo.n) exTwo).2).att sFA 1 = some (vSurface 0) ∧
    ((run (classifyCapture exTwo.n) exTwo).2).att sFA 4 = some (vSurface 0) := by decide +kernel
example : ((run (classifyCapture exTwo.n) exTwo).2).att sEA 1 = some (vCurve 1) := by decide +kernel
example : cellId exTwo .face 2 = 1 ∧ cellId exTwo .face (exTwo.β 2 2) = 4 ∧ cellId exTwo .edge 2 = 2 := by
  decide +kernel

theorem exTwo_blank (s x : Nat) : exTwo.att s x = none := CmapText.att_empty 9 7 s x

-- the theorems apply to it: dart 2 links the faces 1 and 4 without crossing a curve
example : ((run (classifyCapture exTwo.n) exTwo).2).att sFA 1 = ((run (classifyCapture exTwo.n) exTwo).2).att sFA 4 := by
  have hr : run (classifyCapture exTwo.n) exTwo = (.ok (), (run (classifyCapture exTwo.n) exTwo).2) := by
    have : (run (classifyCapture exTwo.n) exTwo).1 = .ok () := by decide +kernel
    rw [← this]
  have e1 : cellId exTwo .face 2 = 1 := by decide +kernel
  have e2 : cellId exTwo .face (exTwo.β 2 2) = 4 := by decide +kernel
  have l : NoCurveLinked exTwo (run (classifyCapture exTwo.n) exTwo).2 1 4 := by
    rw [← e2]
    refine NoCurveLinked.step (by rw [e1]; exact NoCurveLinked.refl 1) (by decide) (by decide) (by decide)
      (by decide) ?_
    intro c
    have : ((run (classifyCapture exTwo.n) exTwo).2).att sEA (cellId exTwo .edge 2) = some (vSurface 0) := by
      decide +kernel
    rw [this]
    exact fun e => curve_ne_surface c 0 e.symm
  exact C17_surface_connected_same exTwo_wf (by decide) (exTwo_blank sEA) (exTwo_blank sFA) hr l

end HC.C17
