/-
  C02 — `CMap3::one_link` / `CMap3::one_unlink` of dim3/links/one.rs (the 1-links that keep 3-glued faces
  mirrored), TRANSLATED from the source on every run (`Gen/Links3.lean`, written by tools/gen_lean.py),
  interpreted in the model's transaction monad, are EQUAL as programs to the hand-written `oneLink3` /
  `oneUnlink3` of Model/Ops3.lean, which the Mirror clause of C02 is proved about.  The cores they call are
  tied in Props/C01Gen.lean.
-/
import Honeycomb.Gen.Links3
import Honeycomb.Model.Ops3
import Honeycomb.Props.C02

namespace HC.GenTie
open HC HC.C02
variable {X : Type}

/-- operand of a generated instruction: parameters, the null dart, bound variables -/
def linkArg (l r : Nat) (env : List Nat) : Nat → Nat
  | 0 => l
  | 1 => r
  | 2 => 0
  | n => env.getD (n - 20) 0

/-- the `*_core` function of a call instruction -/
def coreCall : Nat → Nat → Nat → Option (P X Unit)
  | 0, a, b => some (oneLinkCore a b)
  | 1, a, b => some (iLinkCore 2 a b)
  | 2, a, b => some (iLinkCore 3 a b)
  | 3, a, _ => some (oneUnlinkCore a)
  | 4, a, _ => some (iUnlinkCore 2 a)
  | 5, a, _ => some (iUnlinkCore 3 a)
  | _, _, _ => none

def linkErr : Nat → String
  | 0 => "NonFreeBase"
  | 1 => "NonFreeImage"
  | 2 => "AlreadyFree"
  | _ => "AsymmetricalFaces"

/-- the meaning of a generated instruction list (see the header of Gen/Links3.lean); the fuel only makes the
    recursion structural (an `if` skips its block with `List.drop`) -/
def interpLink (l r : Nat) : Nat → List Nat → List (Nat × List Nat) → P X Unit
  | 0, _, _ => Prog.panic
  | _ + 1, _, [] => pure ()
  | f + 1, env, (0, [c, a, b]) :: rest =>
      match coreCall c (linkArg l r env a) (linkArg l r env b) with
      | some p => do p; interpLink l r f env rest
      | none => Prog.panic
  | f + 1, env, (1, [i, a]) :: rest => do
      let v ← rB i (linkArg l r env a)
      interpLink l r f (env ++ [v]) rest
  | f + 1, env, (2, [a, b, n]) :: rest =>
      if linkArg l r env a ≠ 0 ∧ linkArg l r env b ≠ 0 then interpLink l r f env rest
      else interpLink l r f env (rest.drop n)
  | f + 1, env, (3, i :: a :: b :: k :: es) :: rest => do
      let x ← rB i (linkArg l r env a)
      if x ≠ linkArg l r env b then abort ⟨linkErr k, es.map (linkArg l r env)⟩ else
      interpLink l r f env rest
  | _, _, _ => Prog.panic

theorem bind_unit (p : P X Unit) : p.bind (fun _ => Prog.ret ()) = p := Prog.bind_ret p

/-- **tie of `CMap3::one_link`** -/
theorem C02_gen_oneLink3 (l r : Nat) : interpLink (X := X) l r 16 [] Gen.oneLink3 = oneLink3 l r := by
  simp only [Gen.oneLink3, interpLink, coreCall, linkArg, oneLink3, List.drop, List.getD, List.nil_append,
    List.cons_append, Prog.bind_eq, Prog.pure_eq, bind_unit]
  rfl

/-- **tie of `CMap3::one_unlink`** -/
theorem C02_gen_oneUnlink3 (l : Nat) : interpLink (X := X) l 0 16 [] Gen.oneUnlink3 = oneUnlink3 l := by
  simp only [Gen.oneUnlink3, interpLink, coreCall, linkArg, oneUnlink3, List.drop, List.getD, List.nil_append,
    List.cons_append, Prog.bind_eq, Prog.pure_eq, bind_unit]
  rfl

/-- **C02 stated on the translated code**: every successful run of the translated `CMap3::one_link` /
    `one_unlink` on a well-formed 3-map with in-use arguments ends in a well-formed map, and in a mirrored one
    if it started from a mirrored one -/
theorem C02_gen_one_links_preserve_WF_and_Mirror (l r : Nat) :
    Safe (fun m : Map X => InUse m l ∧ InUse m r) (interpLink (X := X) l r 16 [] Gen.oneLink3) ∧
    Safe (fun m : Map X => InUse m l) (interpLink (X := X) l 0 16 [] Gen.oneUnlink3) := by
  rw [C02_gen_oneLink3, C02_gen_oneUnlink3]
  exact ⟨safe_oneLink3 l r, safe_oneUnlink3 l⟩

/-- a list the interpreter does not understand is a panic, not a silent success -/
example (l r : Nat) : interpLink (X := X) l r 4 [] [(9, [])] = Prog.panic := rfl

end HC.GenTie
