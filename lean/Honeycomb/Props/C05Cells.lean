/-
  C05 at cell level — the identification of the identifiers computed by the 3-D `one_sew` /
  `one_unsew` with the vertex CELLS (the piece left "NOT PROVED" in Props/C05.lean, provable since
  /repo e8bc83e repaired D13: the six vertex images are closed under inverse on every well-formed
  3-map, open 3-sewn faces included).

  Vertex cell of a dart = its class under `SameCell (g3v m)`: the closure under the six images of
  `vertex_id_transac` AND their inverses (`Lemmas/Cell3.lean`).  `IsVid3 m d v`: `v` is the
  smallest dart of the vertex cell of `d`.

  * `C05_vertexId3_is_cell_min`: whatever `vertex_id_transac` returns on a non-null dart of a
    well-formed 3-map is the smallest dart of its vertex cell.
  * `C05_oneSew3_cells`: after a successful 1-sew the vertex partition is the old one with the cell
    of the head of `l` (read through β3, else β2) and the cell of `r` united and nothing else
    changed; the two identifiers the code merges are the smallest darts of these two cells; the
    identifier it merges INTO, `min` of the two, is the smallest dart of the united cell (so no
    value is left under an identifier that stopped designating a cell: `MergedIn.cleared`); every
    other slot is untouched (`MergedIn.frame/other`).
  * `C05_oneUnsew3_cells`: after a successful 1-unsew the OLD partition is the new one with the
    cells of the head of `l` and of `r = β1 l` united; the identifier split FROM is the smallest dart
    of the old cell and equals `min` of the two new ones; the two identifiers split INTO are the
    smallest darts of the two new cells; when they coincide (the vertex does not split) nothing is
    touched.

  NOT PROVED here: the same identification for 2- and 3-(un)sews (several simultaneous pairs;
  oracle of tools/props/c05.py); termination of `popLoop` within its fuel (the statements are about
  runs that return `Ok`, which is what the sews use).
-/
import Honeycomb.Lemmas.Cell3
import Honeycomb.Props.C05

set_option linter.unusedSimpArgs false
set_option linter.unusedVariables false

namespace HC.C05
open HC HC.CellCalc HC.Cell3
open HC.C04 (vStores)
variable {X : Type}

/-- **`vertex_id_transac` = smallest dart of the vertex cell** (3-D, every well-formed map) -/
theorem C05_vertexId3_is_cell_min {m m' : Map X} (h : WF 4 m) {n' d v : Nat} (hd0 : d ≠ 0) (hd : d < m.n)
    (hr : run (vertexId3 (X := X) n' d) m = (.ok v, m')) : IsVid3 m d v :=
  (vertexId3_spec h hd0 hd hr).2

theorem headOf_lt {m : Map X} (h : WF 4 m) {l : Nat} (hl : l < m.n) : headOf m l < m.n := by
  unfold headOf; split
  · exact h.range 3 (by omega) l hl
  · exact h.range 2 (by omega) l hl

/-- **C05, 1-sew at cell level** -/
theorem C05_oneSew3_cells (cfg : Cfg X) (n : Nat) (m m' : Map X) (l r : Nat) (u : Unit)
    (hwf : WF 4 m) (hl : C02.InUse m l) (hr : C02.InUse m r) (hfc : m.fc = 0)
    (h : run (oneSew3 cfg n l r) m = (.ok u, m')) :
    ∃ m1, run (oneLink3 (X := X) l r) m = (.ok (), m1) ∧ WF 4 m1 ∧ SameTopo m1 m' ∧ m1.a = m.a ∧
      ((headOf m l = 0 ∧ m' = m1 ∧ ∀ d e, SameCell (g3v m1) m.n d e ↔ SameCell (g3v m) m.n d e) ∨
       (headOf m l ≠ 0 ∧ ∃ vl vr,
          -- the two identifiers the code merges are the smallest darts of the two old cells
          IsVid3 m (headOf m l) vl ∧ IsVid3 m r vr ∧
          -- the new partition: these two cells united, nothing else changed
          (∀ d e, SameCell (g3v m1) m.n d e ↔ United (g3v m) m.n (headOf m l) r d e) ∧
          -- the identifier merged into is the smallest dart of the united cell
          IsVid3 m1 r (min vr vl) ∧
          MergedIn cfg (vStores cfg) (min vr vl) vl vr m1 m')) := by
  obtain ⟨hl0, hln, hul⟩ := hl
  obtain ⟨hr0, hrn, hur⟩ := hr
  obtain ⟨vl, vr, m1, hleft, hvr, hlink, htopo, hcase⟩ := C05_oneSew3_effect cfg n l r m m' u hfc h
  obtain ⟨hw1, ho, _⟩ := oneLink3_ok hwf hl0 hr0 hln hrn hul hur hlink
  have hcells := vertex_cells_oneLink3 hwf hl0 hr0 hln hrn hul hur hlink
  refine ⟨m1, hlink, hw1, htopo, ho.a, ?_⟩
  have sr := (vertexId3_spec hwf hr0 hrn hvr).2
  -- what the code read on the left-hand side
  rcases hleft with ⟨h3, hv⟩ | ⟨h3, h2, hv⟩ | ⟨h3, h2, hv0⟩
  · have hh : headOf m l = m.β 3 l := by unfold headOf; rw [if_pos h3]
    have sl := (vertexId3_spec hwf h3 (hwf.range 3 (by omega) l hln) hv).2
    have hvl0 := sl.ne_zero hwf h3 (hwf.range 3 (by omega) l hln)
    rcases hcase with ⟨hc, _⟩ | ⟨_, hm⟩
    · exact absurd hc hvl0
    right
    rw [hh]
    have hc : ∀ d e, SameCell (g3v m1) m.n d e ↔ United (g3v m) m.n (m.β 3 l) r d e := by
      intro d e; have := hcells d e; rw [hh, if_neg h3] at this; exact this
    exact ⟨h3, vl, vr, sl, sr, hc, isVid3_united ho.n hc sl sr hvl0 (sr.ne_zero hwf hr0 hrn), hm⟩
  · have hh : headOf m l = m.β 2 l := by unfold headOf; rw [if_neg (by omega)]
    have sl := (vertexId3_spec hwf h2 (hwf.range 2 (by omega) l hln) hv).2
    have hvl0 := sl.ne_zero hwf h2 (hwf.range 2 (by omega) l hln)
    rcases hcase with ⟨hc, _⟩ | ⟨_, hm⟩
    · exact absurd hc hvl0
    right
    rw [hh]
    have hc : ∀ d e, SameCell (g3v m1) m.n d e ↔ United (g3v m) m.n (m.β 2 l) r d e := by
      intro d e; have := hcells d e; rw [hh, if_neg h2] at this; exact this
    exact ⟨h2, vl, vr, sl, sr, hc, isVid3_united ho.n hc sl sr hvl0 (sr.ne_zero hwf hr0 hrn), hm⟩
  · have hh : headOf m l = 0 := by unfold headOf; rw [if_neg (by omega)]; exact h2
    rcases hcase with ⟨_, hm⟩ | ⟨hc, _⟩
    · left
      refine ⟨hh, hm, fun d e => ?_⟩
      have := hcells d e; rw [if_pos hh] at this; exact this
    · exact absurd hv0 hc

/-- **C05, 1-unsew at cell level** -/
theorem C05_oneUnsew3_cells (cfg : Cfg X) (n : Nat) (m m' : Map X) (l : Nat) (u : Unit)
    (hwf : WF 4 m) (hl : C02.InUse m l) (hfc : m.fc = 0)
    (h : run (oneUnsew3 cfg n l) m = (.ok u, m')) :
    ∃ m1 vold, run (oneUnlink3 (X := X) l) m = (.ok (), m1) ∧ WF 4 m1 ∧ SameTopo m1 m' ∧ m1.a = m.a ∧
      m.β 1 l ≠ 0 ∧
      -- the identifier split from is the smallest dart of the old vertex cell of `r = β1 l`
      IsVid3 m (m.β 1 l) vold ∧
      ((headOf m l = 0 ∧ m' = m1 ∧ ∀ d e, SameCell (g3v m) m.n d e ↔ SameCell (g3v m1) m.n d e) ∨
       (headOf m l ≠ 0 ∧ ∃ vl vr,
          -- the two identifiers split into are the smallest darts of the two new cells
          IsVid3 m1 (headOf m l) vl ∧ IsVid3 m1 (m.β 1 l) vr ∧
          -- the old partition is the new one with these two cells united
          (∀ d e, SameCell (g3v m) m.n d e ↔ United (g3v m1) m.n (headOf m l) (m.β 1 l) d e) ∧
          vold = min vr vl ∧
          ((vl = vr ∧ m' = m1) ∨ (vl ≠ vr ∧ SplitIn cfg (vStores cfg) vl vr vold m1 m')))) := by
  obtain ⟨hl0, hln, hul⟩ := hl
  obtain ⟨vold, m1, hvold, hunl, htopo, hcase⟩ := C05_oneUnsew3_effect cfg n l m m' u hfc h
  obtain ⟨hw1, ho, _⟩ := oneUnlink3_ok hwf hln hunl
  obtain ⟨hne, hn1, hβ, hcells⟩ := vertex_cells_oneUnlink3 hwf hl0 hln hul hunl
  have ir := hwf.image_inUse (i := 1) (by omega) hln hne
  have sold := (vertexId3_spec hwf hne ir.1 hvold).2
  refine ⟨m1, vold, hunl, hw1, htopo, ho.a, hne, sold, ?_⟩
  have e2 : m1.β 2 l = m.β 2 l := hβ 2 l (by omega)
  have e3 : m1.β 3 l = m.β 3 l := hβ 3 l (by omega)
  rw [e2, e3] at hcase
  rcases hcase with ⟨c2, c3, hm⟩ | ⟨hc, vl, vr, hvl, hvr, hsplit⟩
  · have hh : headOf m l = 0 := by unfold headOf; rw [c3]; simp [c2]
    left
    refine ⟨hh, hm, fun d e => ?_⟩
    have := hcells d e; rw [if_pos hh] at this; exact this
  · have hh : headOf m l ≠ 0 := by
      unfold headOf
      by_cases h3 : m.β 3 l ≠ 0
      · rw [if_pos h3]; exact h3
      · rw [if_neg h3]; intro h2; exact hc ⟨h2, by omega⟩
    right
    have hhn : headOf m l < m1.n := by rw [hn1]; exact headOf_lt hwf hln
    have hc' : ∀ d e, SameCell (g3v m) m.n d e ↔ United (g3v m1) m.n (headOf m l) (m.β 1 l) d e := by
      intro d e; have := hcells d e; rw [if_neg hh] at this; exact this
    -- the dart the code starts from (β2 first) is in the cell of the head (β3 first)
    have sl0 : IsVid3 m1 (if m.β 2 l ≠ 0 then m.β 2 l else m.β 3 l) vl := by
      have hd0 : (if m.β 2 l ≠ 0 then m.β 2 l else m.β 3 l) ≠ 0 := by
        split
        · assumption
        · intro h3; exact hc ⟨by omega, h3⟩
      have hdn : (if m.β 2 l ≠ 0 then m.β 2 l else m.β 3 l) < m1.n := by
        rw [hn1]; split
        · exact hwf.range 2 (by omega) l hln
        · exact hwf.range 3 (by omega) l hln
      exact (vertexId3_spec hw1 hd0 hdn hvl).2
    have sl : IsVid3 m1 (headOf m l) vl := by
      unfold headOf
      by_cases h3 : m.β 3 l ≠ 0
      · rw [if_pos h3]
        by_cases h2 : m.β 2 l ≠ 0
        · rw [if_pos h2] at sl0
          have hs := head_same hw1 (l := l) (by rw [hn1]; exact hln) (by rw [e2]; exact h2) (by rw [e3]; exact h3)
          rw [e2, e3] at hs
          exact sl0.congr hs
        · rw [if_neg h2] at sl0; exact sl0
      · rw [if_neg h3]
        have h2 : m.β 2 l ≠ 0 := fun h2 => hc ⟨h2, by omega⟩
        rw [if_pos h2] at sl0; exact sl0
    have sr := (vertexId3_spec hw1 hne (by rw [hn1]; exact ir.1) hvr).2
    have hvl0 := sl.ne_zero hw1 hh hhn
    have hvr0 := sr.ne_zero hw1 hne (by rw [hn1]; exact ir.1)
    -- the old identifier is the minimum of the two new ones
    have hc'' : ∀ d e, SameCell (g3v m) m1.n d e ↔ United (g3v m1) m1.n (headOf m l) (m.β 1 l) d e := by
      rw [hn1]; exact hc'
    have hu := isVid3_united (m := m1) (m1 := m) hn1.symm hc'' sl sr hvl0 hvr0
    have hold : vold = min vr vl :=
      sold.unique hu (sold.ne_zero hwf hne ir.1) (by omega)
    exact ⟨hh, vl, vr, sl, sr, hc', hold, hsplit⟩


/-! ## non-vacuity: the configuration of the former defect D13 -/

/-- three triangles 1-2-3, 4-5-6, 7-8-9; vertices of the first one and of dart 4 embedded -/
def exBase : Map Val :=
  { (Map.empty 4 6 10 : Map Val) with
    b := #[#[0, 3, 1, 2, 6, 4, 5, 9, 7, 8], #[0, 2, 3, 1, 5, 6, 4, 8, 9, 7],
           Array.replicate 10 0, Array.replicate 10 0]
    a := #[#[none, some (.pt 1 0 0), some (.pt 0 1 0), some (.pt 0 0 1), some (.pt 2 0 0), none, none, none,
             none, none],
           #[none, some (.tm (.leaf 11)), none, none, none, none, none, none, none, none, none],
           Array.replicate 11 none, Array.replicate 11 none, Array.replicate 11 none, Array.replicate 11 none] }

/-- … the second and third 3-linked along `(4, 7)`, the third 2-linked to the first along `(9, 1)`:
    the vertex of dart 1 is `{1, 5, 7}` and has a boundary -/
def exGlued : Map Val := (run (iLinkCore 2 9 1) (run (threeLink3 10 4 7) exBase).2).2

/-- … and dart 4 1-unsewn: its 3-sewn face is open, the vertex of dart 1 is `{1, 5}` -/
def exOpened : Map Val := (run (oneUnsew3 C02.exCfg 10 4) exGlued).2

example : WF 4 exGlued ∧ Mirror exGlued ∧ exGlued.β 3 4 = 7 ∧ exGlued.β 2 9 = 1 := by decide +kernel
example : (run (oneUnsew3 C02.exCfg 10 4) exGlued).1 = .ok () := by decide +kernel
/-- the vertex ids on the opened face are the smallest darts of the cells (D13: `vid 5` was 5) -/
example : (run (vertexId3 10 5) exOpened).1 = .ok 1 ∧ (run (vertexId3 10 7) exOpened).1 = .ok 7 := by
  decide +kernel
example : IsVid3 exOpened 5 1 :=
  C05_vertexId3_is_cell_min (m' := exOpened) (n' := 10) (by decide +kernel) (by decide) (by decide +kernel)
    (Prod.ext (by decide +kernel : (run (vertexId3 10 5) exOpened).1 = .ok 1)
      ((readOnly_vertexId3 10 5).run_ok (Prod.ext rfl rfl)))
/-- the vertex `{1, 5}` keeps its coordinates under its identifier 1, the split-off vertex `{7}` gets
    its half (before the repair: `rv 1 = none`, the value parked under 5) -/
example : exOpened.att 0 1 = some (.pt 1 0 0) ∧ exOpened.att 0 7 = some (.pt 1 0 0) ∧ exOpened.att 0 5 = none ∧
    exOpened.att 1 1 = some (.tm (.spr (.leaf 11))) ∧ exOpened.att 1 7 = some (.tm (.spl (.leaf 11))) := by
  decide +kernel
/-- the hypotheses of the two cell-level theorems are satisfiable -/
example := C05_oneUnsew3_cells C02.exCfg 10 exGlued exOpened 4 () (by decide +kernel) (by decide +kernel) rfl
  (Prod.ext (by decide +kernel : (run (oneUnsew3 C02.exCfg 10 4) exGlued).1 = .ok ()) rfl)
example : (run (oneSew3 C02.exCfg 10 4 5) exOpened).1 = .ok () := by decide +kernel
example := C05_oneSew3_cells C02.exCfg 10 exOpened (run (oneSew3 C02.exCfg 10 4 5) exOpened).2 4 5 ()
  (by decide +kernel) (by decide +kernel) (by decide +kernel) (by decide +kernel)
  (Prod.ext (by decide +kernel : (run (oneSew3 C02.exCfg 10 4 5) exOpened).1 = .ok ()) rfl)
/-- … and the 1-sew back merges the two halves into the identifier of the united vertex -/
example : (run (oneSew3 C02.exCfg 10 4 5) exOpened).2.att 0 1 = some (.pt 1 0 0) ∧
    (run (oneSew3 C02.exCfg 10 4 5) exOpened).2.att 0 7 = none ∧ headOf exOpened 4 = 7 := by decide +kernel

end HC.C05
