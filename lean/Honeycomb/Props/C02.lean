/-
  C02 — 3-map structural integrity, mirrored 3-sewn faces, refusal of non-mirrorable 3-links.

  Proved here, for every attribute configuration `cfg` (any storages, any laws), on the model
  `Model/Ops3.lean` of `honeycomb-core/src/cmap/dim3/**` (state of /repo AFTER the `fix:` commits
  for D1/D1b — `three_link` re-checks the right-hand walk when the left one ends):

  (1) `C02_step_preserves_WF`, `C02_history_preserves_WF`: from a well-formed 3-map (`WF 4`),
      every public editing call (dart allocation / removal, link, unlink, sew, unsew in
      dimensions 1, 2, 3; transactional and `force_` forms share the closure) made with non-null
      in-use darts — distinct darts for 2- and 3-links/sews — leaves a well-formed 3-map, whether
      the call succeeds, returns an error or panics; hence so does every finite history.
      The lock-step walks of `three_link` / `three_unlink` are handled by ONE induction on their
      fuel (`Lemmas/Link3.lean`, `linkWalk_ok` / `unlinkWalk_ok`).  The only delicate point is the
      distinctness of the two darts handed to `three_link_core` inside the walk: when both faces
      are the same face the walk CAN call the core with `lside == rside` (it then writes a β3
      fixed point) — but the very next round is then necessarily refused (its left dart is the
      right dart linked one round earlier), so no successful call ever publishes such a state.
      This is proved (no extra hypothesis), see `linkWalk_ok`, case `ls = rs`.
  (2) `C02_step_preserves_Mirror`, `C02_history_preserves_WF_and_Mirror`: the mirror condition
      (`Model/WF.lean`, `Mirror`) is preserved by EVERY call, for closed and open faces alike
      (full statement, no `_partial`).
  (3) `C02_refusal`, `C02_refusal_sew`: if the β1-walk from `ld` and the β0-walk from `rd` do not
      have the same shape (`HasShape`: closed with `L` darts / open with `F` darts ahead and `B`
      behind, the argument dart included) the 3-link / 3-sew does not return `Ok` and the map is
      unchanged; conversely `C02_three_link_checks_shape`: a successful call has verified
      `SameShape`.
  (4) `C02_unused_is_nobodys_image`: removed darts are nobody's image (consequence of `WF 4`).

  NOT PROVED here: nothing of the property's statement is left to `_partial`; what the theorems do
  not cover is (i) the correspondence model ↔ Rust code (tools/props/c02.py), (ii) concurrency
  (C07), (iii) transactions composed of several calls (C08; the closures proved safe here compose:
  `Safe` is about `run`, and since /repo f79acf8 — the repair of DESIGN.md §8-D4 — `three_sew` /
  `three_unsew` walk the faces through the transaction like the model).
-/
import Honeycomb.Lemmas.Sew3
import Honeycomb.Props.C01
import Honeycomb.Model.Val

set_option linter.unusedSimpArgs false
set_option linter.unusedVariables false

namespace HC.C02
open HC
variable {X : Type}

/-- public editing calls of `CMap3` (the `force_` variants run the same closure through
    `atomically_with_err`, hence share the constructor) -/
inductive Op3 where
  | link (i l r : Nat)
  | unlink (i l : Nat)
  | sew (i l r : Nat)
  | unsew (i l : Nat)
  | addFreeDarts (k : Nat)
  | insertFreeDart
  | removeFreeDart (d : Nat)
  | removeFreeDartTx (d : Nat)
  deriving Repr, DecidableEq

/-- the transactional closure of a call (`assert!(I < 4); assert_ne!(I, 0)` ⇒ `panic`) -/
def prog (cfg : Cfg X) (n : Nat) : Op3 → P X Unit
  | .link 1 l r => oneLink3 l r
  | .link 2 l r => iLinkCore 2 l r
  | .link 3 l r => threeLink3 n l r
  | .unlink 1 l => oneUnlink3 l
  | .unlink 2 l => iUnlinkCore 2 l
  | .unlink 3 l => threeUnlink3 n l
  | .sew 1 l r => oneSew3 cfg n l r
  | .sew 2 l r => twoSew3 cfg n l r
  | .sew 3 l r => threeSew3 cfg n l r
  | .unsew 1 l => oneUnsew3 cfg n l
  | .unsew 2 l => twoUnsew3 cfg n l
  | .unsew 3 l => threeUnsew3 cfg n l
  | .removeFreeDartTx d => do let _ ← removeFreeDartTx d; pure ()
  | _ => Prog.panic

/-- one public call, as the user observes it (state after the call) -/
def step (cfg : Cfg X) (m : Map X) : Op3 → Map X
  | .addFreeDarts k => (m.addFreeDarts k).2
  | .insertFreeDart => m.insertFreeDart.2
  | .removeFreeDart d => (m.removeFreeDart 4 d).2
  | op => (atomically (prog cfg m.n op) m).2

/-- a non-null, existing, not removed dart -/
def InUse (m : Map X) (d : Nat) : Prop := d ≠ 0 ∧ d < m.n ∧ m.unused d = false

/-- the argument guard of the property -/
def ArgsOK (m : Map X) : Op3 → Prop
  | .link i l r => InUse m l ∧ InUse m r ∧ (i = 2 ∨ i = 3 → l ≠ r)
  | .sew i l r => InUse m l ∧ InUse m r ∧ (i = 2 ∨ i = 3 → l ≠ r)
  | .unlink _ l => InUse m l
  | .unsew _ l => InUse m l
  | .addFreeDarts _ => True
  | .insertFreeDart => True
  | .removeFreeDart d => InUse m d
  | .removeFreeDartTx d => InUse m d ∧ m.isFree 4 d = true

/-- every call of the history has admissible arguments in the state it is applied to -/
def HistoryOK (cfg : Cfg X) : Map X → List Op3 → Prop
  | _, [] => True
  | m, op :: ops => ArgsOK m op ∧ HistoryOK cfg (step cfg m op) ops

instance (m : Map X) (d : Nat) : Decidable (InUse m d) :=
  inferInstanceAs (Decidable (d ≠ 0 ∧ d < m.n ∧ m.unused d = false))

instance (m : Map X) : (op : Op3) → Decidable (ArgsOK m op)
  | .link i l r => inferInstanceAs (Decidable (InUse m l ∧ InUse m r ∧ (i = 2 ∨ i = 3 → l ≠ r)))
  | .sew i l r => inferInstanceAs (Decidable (InUse m l ∧ InUse m r ∧ (i = 2 ∨ i = 3 → l ≠ r)))
  | .unlink _ l => inferInstanceAs (Decidable (InUse m l))
  | .unsew _ l => inferInstanceAs (Decidable (InUse m l))
  | .addFreeDarts _ => isTrue trivial
  | .insertFreeDart => isTrue trivial
  | .removeFreeDart d => inferInstanceAs (Decidable (InUse m d))
  | .removeFreeDartTx d => inferInstanceAs (Decidable (InUse m d ∧ m.isFree 4 d = true))

instance instDecHistoryOK (cfg : Cfg X) : (m : Map X) → (ops : List Op3) → Decidable (HistoryOK cfg m ops)
  | _, [] => isTrue trivial
  | m, op :: ops =>
      @instDecidableAnd _ _ (inferInstanceAs (Decidable (ArgsOK m op))) (instDecHistoryOK cfg (step cfg m op) ops)

/-! ## successful closures preserve WF and the mirror condition -/

/-- `p` keeps the map well-formed — and mirrored if it was — whenever it returns `Ok`, from WF
    states satisfying `Q` -/
def Safe (Q : Map X → Prop) {α : Type} (p : P X α) : Prop :=
  ∀ (m m' : Map X) (a : α), WF 4 m → Q m → run p m = (.ok a, m') → WF 4 m' ∧ (Mirror m → Mirror m')

theorem Safe.mono {Q Q' : Map X → Prop} {α : Type} {p : P X α} (h : Safe Q p) (hq : ∀ m, Q' m → Q m) :
    Safe Q' p := fun m m' a hwf hq' hr => h m m' a hwf (hq m hq') hr

theorem Safe.panic {Q : Map X → Prop} {α : Type} : Safe Q (Prog.panic : P X α) := by
  intro m m' a _ _ h; simp at h

/-- a closure that does on the topology what `q` does (and otherwise only writes attribute
    values) is as safe as `q` -/
theorem Safe.of_topology {Q : Map X → Prop} {α β : Type} {p : P X α} {q : P X β} (hq : Safe Q q)
    (ht : ∀ (m m' : Map X) (a : α), run p m = (.ok a, m') → ∃ b m1, run q m = (.ok b, m1) ∧ SameTopo m1 m') :
    Safe Q p := by
  intro m m' a hwf hQ h
  obtain ⟨b, m1, h1, st⟩ := ht m m' a h
  obtain ⟨w1, hM⟩ := hq m m1 b hwf hQ h1
  exact ⟨w1.sameTopo st, fun hm => st.mirror (hM hm)⟩

theorem safe_oneLink3 (l r : Nat) :
    Safe (fun m : Map X => InUse m l ∧ InUse m r) (oneLink3 l r) := by
  intro m m' u hwf ⟨hl, hr⟩ h
  obtain ⟨w, _, hM⟩ := oneLink3_ok hwf hl.1 hr.1 hl.2.1 hr.2.1 hl.2.2 hr.2.2 h
  exact ⟨w, hM⟩

theorem safe_twoLinkCore (l r : Nat) :
    Safe (fun m : Map X => InUse m l ∧ InUse m r ∧ l ≠ r) (iLinkCore 2 l r) := by
  intro m m' u hwf ⟨hl, hr, hlr⟩ h
  obtain ⟨_, _, h1, h0, rfl⟩ := iLinkCore_ok h
  refine ⟨hwf.linkI (by omega) (by omega) hl.1 hr.1 hlr hl.2.1 hr.2.1 hl.2.2 hr.2.2 h1 h0, ?_⟩
  have eβ := hwf.toSized.β_linkI (i := 2) (by omega) hl.2.1 hr.2.1
  refine mirror_of_β13 rfl ?_ ?_
  · intro d; show (m.linkI 2 l r).β 1 d = _; rw [eβ]; simp
  · intro d; show (m.linkI 2 l r).β 3 d = _; rw [eβ]; simp

theorem safe_threeLink3 (n l r : Nat) :
    Safe (fun m : Map X => InUse m l ∧ InUse m r ∧ l ≠ r) (threeLink3 n l r) := by
  intro m m' u hwf ⟨hl, hr, hlr⟩ h
  obtain ⟨w, _, hM, _⟩ := threeLink3_ok hwf hl.1 hr.1 hl.2.1 hr.2.1 hl.2.2 hr.2.2 hlr h
  exact ⟨w, hM⟩

theorem safe_oneUnlink3 (l : Nat) : Safe (fun m : Map X => InUse m l) (oneUnlink3 l) := by
  intro m m' u hwf hl h
  obtain ⟨w, _, hM⟩ := oneUnlink3_ok hwf hl.2.1 h
  exact ⟨w, hM⟩

theorem safe_twoUnlinkCore (l : Nat) : Safe (fun m : Map X => InUse m l) (iUnlinkCore 2 l) := by
  intro m m' u hwf hl h
  obtain ⟨_, _, hne, rfl⟩ := iUnlinkCore_ok h
  refine ⟨hwf.unlinkI (by omega) (by omega) hl.2.1 hne, ?_⟩
  have eβ := hwf.toSized.β_unlinkI (i := 2) (by omega) hl.2.1 (hwf.range 2 (by omega) l hl.2.1)
  refine mirror_of_β13 rfl ?_ ?_
  · intro d; show (m.unlinkI 2 l).β 1 d = _; rw [eβ]; simp
  · intro d; show (m.unlinkI 2 l).β 3 d = _; rw [eβ]; simp

theorem safe_threeUnlink3 (n l : Nat) : Safe (fun m : Map X => InUse m l) (threeUnlink3 n l) := by
  intro m m' u hwf hl h
  obtain ⟨w, hs⟩ := threeUnlink3_ok hwf hl.2.1 h
  exact ⟨w, hs.mirror⟩

theorem safe_oneSew3 (cfg : Cfg X) (n l r : Nat) :
    Safe (fun m : Map X => InUse m l ∧ InUse m r) (oneSew3 cfg n l r) :=
  (safe_oneLink3 l r).of_topology fun m m' a h =>
    let ⟨m1, h1, st⟩ := oneSew3_topology cfg n l r m m' a h; ⟨(), m1, h1, st⟩

theorem safe_twoSew3 (cfg : Cfg X) (n l r : Nat) :
    Safe (fun m : Map X => InUse m l ∧ InUse m r ∧ l ≠ r) (twoSew3 cfg n l r) :=
  (safe_twoLinkCore l r).of_topology fun m m' a h =>
    let ⟨m1, h1, st⟩ := twoSew3_topology cfg n l r m m' a h; ⟨(), m1, h1, st⟩

theorem safe_threeSew3 (cfg : Cfg X) (n l r : Nat) :
    Safe (fun m : Map X => InUse m l ∧ InUse m r ∧ l ≠ r) (threeSew3 cfg n l r) :=
  (safe_threeLink3 n l r).of_topology fun m m' a h =>
    let ⟨m1, h1, st⟩ := threeSew3_topology cfg n l r m m' a h; ⟨(), m1, h1, st⟩

theorem safe_oneUnsew3 (cfg : Cfg X) (n l : Nat) :
    Safe (fun m : Map X => InUse m l) (oneUnsew3 cfg n l) :=
  (safe_oneUnlink3 l).of_topology fun m m' a h =>
    let ⟨m1, h1, st⟩ := oneUnsew3_topology cfg n l m m' a h; ⟨(), m1, h1, st⟩

theorem safe_twoUnsew3 (cfg : Cfg X) (n l : Nat) :
    Safe (fun m : Map X => InUse m l) (twoUnsew3 cfg n l) :=
  (safe_twoUnlinkCore l).of_topology fun m m' a h =>
    let ⟨m1, h1, st⟩ := twoUnsew3_topology cfg n l m m' a h; ⟨(), m1, h1, st⟩

theorem safe_threeUnsew3 (cfg : Cfg X) (n l : Nat) :
    Safe (fun m : Map X => InUse m l) (threeUnsew3 cfg n l) :=
  (safe_threeUnlink3 n l).of_topology fun m m' a h =>
    let ⟨m1, h1, st⟩ := threeUnsew3_topology cfg n l m m' a h; ⟨(), m1, h1, st⟩

theorem safe_prog (cfg : Cfg X) (n : Nat) (op : Op3) :
    Safe (fun m : Map X => ArgsOK m op) (prog cfg n op) := by
  unfold prog
  split
  · exact (safe_oneLink3 _ _).mono fun m h => ⟨h.1, h.2.1⟩
  · exact (safe_twoLinkCore _ _).mono fun m h => ⟨h.1, h.2.1, h.2.2 (Or.inl rfl)⟩
  · exact (safe_threeLink3 _ _ _).mono fun m h => ⟨h.1, h.2.1, h.2.2 (Or.inr rfl)⟩
  · exact (safe_oneUnlink3 _).mono fun m h => h
  · exact (safe_twoUnlinkCore _).mono fun m h => h
  · exact (safe_threeUnlink3 _ _).mono fun m h => h
  · exact (safe_oneSew3 _ _ _ _).mono fun m h => ⟨h.1, h.2.1⟩
  · exact (safe_twoSew3 _ _ _ _).mono fun m h => ⟨h.1, h.2.1, h.2.2 (Or.inl rfl)⟩
  · exact (safe_threeSew3 _ _ _ _).mono fun m h => ⟨h.1, h.2.1, h.2.2 (Or.inr rfl)⟩
  · exact (safe_oneUnsew3 _ _ _).mono fun m h => h
  · exact (safe_twoUnsew3 _ _ _).mono fun m h => h
  · exact (safe_threeUnsew3 _ _ _).mono fun m h => h
  · rename_i d
    intro m m' a hwf hq h
    obtain ⟨b, m1, h1, h2⟩ := run_bind_ok h
    rw [run_removeFreeDartTx] at h1
    have hok : m.okU d = true := (hwf.toSized.okU d).2 hq.1.2.1
    simp only [hok, if_true, Prod.mk.injEq] at h1
    simp at h2
    rw [← h2, ← h1.2]
    exact ⟨hwf.setU_free hq.1.2.1 true ((isFree_iff m 4 d).1 hq.2), fun hM => hM⟩
  · exact Safe.panic

/-! ## one call -/

theorem safe_atomically {Q : Map X → Prop} {α : Type} {p : P X α} (hp : Safe Q p) {m : Map X}
    (hwf : WF 4 m) (hq : Q m) : WF 4 (atomically p m).2 ∧ (Mirror m → Mirror (atomically p m).2) := by
  unfold atomically
  match h : run p m with
  | (.ok a, m') => simp only [h]; exact hp m m' a hwf hq h
  | (.err e, m') => simp only [h]; exact ⟨hwf, id⟩
  | (.retry, m') => simp only [h]; exact ⟨hwf, id⟩
  | (.panic, m') => simp only [h]; exact ⟨hwf, id⟩

theorem mirror_addFreeDarts {m : Map X} (hwf : WF 4 m) (k : Nat) (hM : Mirror m) :
    Mirror (m.addFreeDarts k).2 := by
  have eβ := fun i d (hi : i < 4) => addFreeDarts_β hwf.toSized k i d hi
  intro d hd
  rw [eβ 1 d (by omega), eβ 3 d (by omega)]
  by_cases hdn : d < m.n
  · simp only [hdn, if_true]
    intro g1 g2
    rw [eβ 3 _ (by omega)]
    simp only [hwf.range 1 (by omega) d hdn, if_true]
    intro g3
    rw [eβ 1 _ (by omega)]
    simp only [hwf.range 3 (by omega) _ (hwf.range 1 (by omega) d hdn), if_true]
    exact hM d hdn g1 g2 g3
  · simp [hdn]

theorem step_ok (cfg : Cfg X) (m : Map X) (op : Op3) (hwf : WF 4 m) (hargs : ArgsOK m op) :
    WF 4 (step cfg m op) ∧ (Mirror m → Mirror (step cfg m op)) := by
  cases op with
  | addFreeDarts k => exact ⟨hwf.addFreeDarts (by omega) k, mirror_addFreeDarts hwf k⟩
  | insertFreeDart =>
      refine ⟨hwf.insertFreeDart (by omega), ?_⟩
      intro hM
      show Mirror m.insertFreeDart.2
      unfold Map.insertFreeDart
      split
      · exact mirror_of_β13 rfl (fun _ => rfl) (fun _ => rfl) hM
      · exact mirror_addFreeDarts hwf 1 hM
  | removeFreeDart d =>
      refine ⟨hwf.removeFreeDart d, ?_⟩
      intro hM
      show Mirror (m.removeFreeDart 4 d).2
      unfold Map.removeFreeDart
      split
      · rename_i hd
        split
        · unfold atomically
          rw [run_removeFreeDartTx]
          have : m.okU d = true := (hwf.toSized.okU d).2 hd
          simp only [this, if_true]
          cases m.unused d <;> exact mirror_of_β13 rfl (fun _ => rfl) (fun _ => rfl) hM
        · exact hM
      · exact hM
  | link i l r => exact safe_atomically (safe_prog cfg m.n _) hwf hargs
  | unlink i l => exact safe_atomically (safe_prog cfg m.n _) hwf hargs
  | sew i l r => exact safe_atomically (safe_prog cfg m.n _) hwf hargs
  | unsew i l => exact safe_atomically (safe_prog cfg m.n _) hwf hargs
  | removeFreeDartTx d => exact safe_atomically (safe_prog cfg m.n _) hwf hargs

/-- **C02, one call**: every public editing call with admissible arguments keeps a well-formed
    3-map well-formed (success, error and panic branches alike) -/
theorem C02_step_preserves_WF (cfg : Cfg X) (m : Map X) (op : Op3)
    (hwf : WF 4 m) (hargs : ArgsOK m op) : WF 4 (step cfg m op) :=
  (step_ok cfg m op hwf hargs).1

/-- **C02, one call, mirror**: … and keeps 3-sewn faces mirrored -/
theorem C02_step_preserves_Mirror (cfg : Cfg X) (m : Map X) (op : Op3)
    (hwf : WF 4 m) (hM : Mirror m) (hargs : ArgsOK m op) : Mirror (step cfg m op) :=
  (step_ok cfg m op hwf hargs).2 hM

/-- **C02**: well-formedness survives every finite editing history -/
theorem C02_history_preserves_WF (cfg : Cfg X) (ops : List Op3) :
    ∀ m : Map X, WF 4 m → HistoryOK cfg m ops → WF 4 (ops.foldl (step cfg) m) := by
  induction ops with
  | nil => intro m h _; exact h
  | cons op ops ih =>
      intro m h hh
      exact ih _ (C02_step_preserves_WF cfg m op h hh.1) hh.2

/-- **C02**: well-formedness and mirrored faces survive every finite editing history -/
theorem C02_history_preserves_WF_and_Mirror (cfg : Cfg X) (ops : List Op3) :
    ∀ m : Map X, WF 4 m → Mirror m → HistoryOK cfg m ops →
      WF 4 (ops.foldl (step cfg) m) ∧ Mirror (ops.foldl (step cfg) m) := by
  induction ops with
  | nil => intro m h hM _; exact ⟨h, hM⟩
  | cons op ops ih =>
      intro m h hM hh
      exact ih _ (C02_step_preserves_WF cfg m op h hh.1) (C02_step_preserves_Mirror cfg m op h hM hh.1) hh.2

/-- an error (or panic) of any transactional call publishes nothing -/
theorem C02_failed_call_changes_nothing {α : Type} (p : P X α) (m : Map X)
    (h : ∀ a, (atomically p m).1 ≠ .ok a) : (atomically p m).2 = m :=
  C01.C01_failed_call_changes_nothing p m h

/-- removed darts are nobody's image on a well-formed 3-map -/
theorem C02_unused_is_nobodys_image {m : Map X} (h : WF 4 m) : NoImageOfUnused 4 m :=
  h.noImageOfUnused4


/-! ## refusal of faces that cannot be mirrored onto each other -/

/-- shape of the face of a dart, read along `β i` (forward) and `β j` (backward):
    closed with `len` darts, or open with `fwd` darts from the dart to the end of the face ahead
    (the dart included) and `bwd` darts to the end behind (the dart included) -/
inductive Shape where
  | closed (len : Nat)
  | opened (fwd bwd : Nat)
  deriving DecidableEq, Repr

/-- explicit walks on the pure map: `it m i t d` is the `t`-th `β i` successor of `d` -/
def HasShape (m : Map X) (i j d : Nat) : Shape → Prop
  | .closed L => 0 < L ∧ it m i L d = d ∧ ∀ t, t < L → 0 < t → it m i t d ≠ d
  | .opened F B => it m i F d = 0 ∧ (∀ t, t < F → it m i t d ≠ 0) ∧
      it m j B d = 0 ∧ (∀ t, t < B → it m j t d ≠ 0)

instance (m : Map X) (i j d : Nat) : (s : Shape) → Decidable (HasShape m i j d s)
  | .closed L => inferInstanceAs (Decidable (0 < L ∧ it m i L d = d ∧ ∀ t, t < L → 0 < t → it m i t d ≠ d))
  | .opened F B => inferInstanceAs (Decidable (it m i F d = 0 ∧ (∀ t, t < F → it m i t d ≠ 0) ∧
      it m j B d = 0 ∧ (∀ t, t < B → it m j t d ≠ 0)))

theorem periodic_never_null {m : Map X} {i d L : Nat} (hnull : m.β i 0 = 0) (hL : 0 < L)
    (hp : it m i L d = d) (hd : d ≠ 0) : ∀ T, it m i T d ≠ 0 := by
  have hc : ∀ c, it m i (c * L) d = d := by
    intro c
    induction c with
    | zero => simp
    | succ c ih => rw [Nat.succ_mul, it_add, ih, hp]
  intro T hT
  have hle : T ≤ T * L := Nat.le_mul_of_pos_right T hL
  have : it m i (T + (T * L - T)) d = 0 := by rw [it_add, hT, it_null hnull]
  rw [show T + (T * L - T) = T * L by omega, hc] at this
  exact hd this

theorem first_null_unique {m : Map X} {i d F F' : Nat}
    (h1 : it m i F d = 0) (h2 : ∀ t, t < F → it m i t d ≠ 0)
    (h1' : it m i F' d = 0) (h2' : ∀ t, t < F' → it m i t d ≠ 0) : F = F' := by
  rcases Nat.lt_trichotomy F F' with h | h | h
  · exact absurd h1 (h2' F h)
  · exact h
  · exact absurd h1' (h2 F' h)

/-- two faces that passed the checks of `three_link` have the same shape -/
theorem sameShape_shapes {m : Map X} (hw : WF 4 m) {ld rd : Nat} (hl0 : ld ≠ 0) (hr0 : rd ≠ 0)
    (h : SameShape m ld rd) {s s' : Shape} (hs : HasShape m 1 0 ld s) (hs' : HasShape m 0 1 rd s') :
    s = s' := by
  have n1 : m.β 1 0 = 0 := hw.null 1 (by omega)
  have n0 : m.β 0 0 = 0 := hw.null 0 (by omega)
  rcases h with ⟨L, hL, hpl, hpr, hmin⟩ | ⟨F, B, h1, h2, h3, h4, hf, hb⟩
  · have e1 : s = .closed L := by
      cases s with
      | closed L1 =>
          obtain ⟨hL1, hp1, hmin1⟩ := hs
          rcases Nat.lt_trichotomy L1 L with h | h | h
          · exact absurd hp1 (hmin L1 hL1 h).1
          · rw [h]
          · exact absurd hpl (hmin1 L h hL)
      | opened F1 B1 => exact absurd hs.1 (periodic_never_null n1 hL hpl hl0 F1)
    have e2 : s' = .closed L := by
      cases s' with
      | closed L1 =>
          obtain ⟨hL1, hp1, hmin1⟩ := hs'
          rcases Nat.lt_trichotomy L1 L with h | h | h
          · exact absurd hp1 (hmin L1 hL1 h).2.2.1
          · rw [h]
          · exact absurd hpr (hmin1 L h hL)
      | opened F1 B1 => exact absurd hs'.1 (periodic_never_null n0 hL hpr hr0 F1)
    rw [e1, e2]
  · have e1 : s = .opened F B := by
      cases s with
      | closed L1 => exact absurd h1 (periodic_never_null n1 hs.1 hs.2.1 hl0 F)
      | opened F1 B1 =>
          obtain ⟨a1, a2, a3, a4⟩ := hs
          rw [first_null_unique a1 a2 h1 (fun t ht => (hf t ht).1),
            first_null_unique a3 a4 h3 (fun t ht => (hb t ht).1)]
    have e2 : s' = .opened F B := by
      cases s' with
      | closed L1 => exact absurd h2 (periodic_never_null n0 hs'.1 hs'.2.1 hr0 F)
      | opened F1 B1 =>
          obtain ⟨a1, a2, a3, a4⟩ := hs'
          rw [first_null_unique a1 a2 h2 (fun t ht => (hf t ht).2),
            first_null_unique a3 a4 h4 (fun t ht => (hb t ht).2)]
    rw [e1, e2]

/-- **C02 (what a successful 3-link has checked)**: both faces closed with the same number of
    darts, or both open with the same numbers of darts ahead and behind -/
theorem C02_three_link_checks_shape (n : Nat) {m m' : Map X} {ld rd : Nat} {u : Unit} (hw : WF 4 m)
    (hl : InUse m ld) (hr : InUse m rd) (hne : ld ≠ rd)
    (h : run (threeLink3 (X := X) n ld rd) m = (.ok u, m')) : SameShape m ld rd :=
  (threeLink3_ok hw hl.1 hr.1 hl.2.1 hr.2.1 hl.2.2 hr.2.2 hne h).2.2.2

/-- **C02 (refusal)**: a 3-link of two faces of different shapes — closed faces with different
    numbers of sides, a closed and an open face, open faces with different numbers of darts ahead
    of or behind the two darts — does not return `Ok` (error or panic) -/
theorem C02_refusal (n : Nat) {m : Map X} {ld rd : Nat} {s s' : Shape} (hw : WF 4 m)
    (hl : InUse m ld) (hr : InUse m rd) (hne : ld ≠ rd)
    (hs : HasShape m 1 0 ld s) (hs' : HasShape m 0 1 rd s') (hdiff : s ≠ s') :
    ∀ u m', run (threeLink3 (X := X) n ld rd) m ≠ (.ok u, m') := by
  intro u m' h
  exact hdiff (sameShape_shapes hw hl.1 hr.1 (C02_three_link_checks_shape n hw hl hr hne h) hs hs')

/-- the same for `three_sew` -/
theorem C02_refusal_sew (cfg : Cfg X) (n : Nat) {m : Map X} {ld rd : Nat} {s s' : Shape} (hw : WF 4 m)
    (hl : InUse m ld) (hr : InUse m rd) (hne : ld ≠ rd)
    (hs : HasShape m 1 0 ld s) (hs' : HasShape m 0 1 rd s') (hdiff : s ≠ s') :
    ∀ u m', run (threeSew3 cfg n ld rd) m ≠ (.ok u, m') := by
  intro u m' h
  obtain ⟨m1, h1, _⟩ := threeSew3_topology cfg n ld rd m m' u h
  exact C02_refusal n hw hl hr hne hs hs' hdiff () m1 h1

/-- the refused call, as the user observes it: not `Ok`, map unchanged -/
theorem C02_refused_call_changes_nothing (cfg : Cfg X) {m : Map X} {ld rd : Nat} {s s' : Shape} (hw : WF 4 m)
    (hl : InUse m ld) (hr : InUse m rd) (hne : ld ≠ rd)
    (hs : HasShape m 1 0 ld s) (hs' : HasShape m 0 1 rd s') (hdiff : s ≠ s') (sew : Bool) :
    let op := if sew then Op3.sew 3 ld rd else Op3.link 3 ld rd
    (∀ a, (atomically (prog cfg m.n op) m).1 ≠ .ok a) ∧ step cfg m op = m := by
  have key : ∀ (p : P X Unit), (∀ u m', run p m ≠ (.ok u, m')) →
      (∀ a, (atomically p m).1 ≠ .ok a) ∧ (atomically p m).2 = m := by
    intro p hp
    have h1 : ∀ a, (atomically p m).1 ≠ .ok a := by
      intro a
      unfold atomically
      match hr : run p m with
      | (.ok b, m') => exact absurd hr (hp b m')
      | (.err e, m') => simp
      | (.retry, m') => simp
      | (.panic, m') => simp
    exact ⟨h1, C02_failed_call_changes_nothing p m h1⟩
  cases sew with
  | true => exact key _ (C02_refusal_sew cfg m.n hw hl hr hne hs hs' hdiff)
  | false => exact key _ (C02_refusal m.n hw hl hr hne hs hs' hdiff)


/-! ## non-vacuity: a concrete well-formed mirrored 3-map and an admissible history of every op kind -/

/-- two triangles 1-2-3 and 4-5-6 (geometrically mirror images: 3-sewable along `(1, 4)`), a
    square 7-8-9-10, an open chain 11-12-13, a free dart 14, dart 15 removed -/
def exMap : Map Val :=
  { (Map.empty 4 6 16 : Map Val) with
    b := #[#[0, 3, 1, 2, 6, 4, 5, 10, 7, 8, 9, 0, 11, 12, 0, 0],
           #[0, 2, 3, 1, 5, 6, 4, 8, 9, 10, 7, 12, 13, 0, 0, 0],
           Array.replicate 16 0, Array.replicate 16 0]
    u := #[false, false, false, false, false, false, false, false, false, false, false, false, false, false,
           false, true]
    a := #[#[none, some (.pt 0 0 0), some (.pt 1 0 0), some (.pt 0 1 0), some (.pt 1 0 0), some (.pt 0 0 0),
             some (.pt 0 1 0), some (.pt 0 0 1), some (.pt 1 0 1), some (.pt 1 1 1), some (.pt 0 1 1),
             some (.pt 1 0 1), some (.pt 0 0 1), some (.pt 0 (-1) 1), some (.pt 5 5 5), none],
           #[none, some (.tm (.leaf 1)), none, none, some (.tm (.leaf 4)), none, none, none, none, none, none,
             none, none, none, none, none, none],
           Array.replicate 17 none,
           #[none, some (.tm (.leaf 10)), none, none, none, none, none, none, none, none, none,
             none, none, none, none, none, none],
           Array.replicate 17 none, Array.replicate 17 none] }

/-- vertices, a vertex attribute (`VTerm`) and a face attribute (`FTerm`) -/
def exCfg : Cfg Val := stdCfg 4 5

/-- every op kind; outcomes, in order: four successes, three refusals (`NonFreeImage`: square on a
    triangle; `AsymmetricalFaces`: triangle on a square, open chain on a triangle), the same-face
    3-link (refused after a transient β3 fixed point), then successes -/
def exHistory : List Op3 :=
  [.sew 3 1 4, .unlink 1 2, .link 1 2 3, .unsew 3 2, .link 3 7 1, .link 3 1 7, .link 3 11 1, .link 3 7 9,
   .sew 2 7 11, .unsew 2 7, .link 2 1 4, .unlink 2 4, .sew 1 13 14, .unsew 1 13,
   .link 3 1 4, .unlink 3 6,
   .removeFreeDart 14, .insertFreeDart, .addFreeDarts 2, .link 3 16 17, .removeFreeDartTx 14]

example : WF 4 exMap := by decide +kernel
example : Mirror exMap := by decide +kernel
example : HistoryOK exCfg exMap exHistory := by decide +kernel
/-- the history is not trivial: the 3-sew really glues the two triangles, mirrored -/
example : (List.range 7).map (((exHistory.take 1).foldl (step exCfg) exMap).β 3) = [0, 4, 6, 5, 1, 3, 2] := by
  decide +kernel
/-- … and merges the vertex data of `(β1 l, r)` pairs into the smaller id -/
example : ((exHistory.take 1).foldl (step exCfg) exMap).att 0 1 = some (.pt 0 0 0) ∧
    ((exHistory.take 1).foldl (step exCfg) exMap).att 0 5 = none ∧
    ((exHistory.take 1).foldl (step exCfg) exMap).att 1 2 = some (.tm (.minc (.leaf 4))) := by decide +kernel
/-- the 3-D 1-unlink also unlinks the β3 images -/
example : ((exHistory.take 2).foldl (step exCfg) exMap).β 1 5 = 0 := by decide +kernel
example : (exHistory.foldl (step exCfg) exMap).n = 18 ∧ (exHistory.foldl (step exCfg) exMap).β 3 16 = 17 := by
  decide +kernel
example : WF 4 (exHistory.foldl (step exCfg) exMap) ∧ Mirror (exHistory.foldl (step exCfg) exMap) :=
  C02_history_preserves_WF_and_Mirror _ _ _ (by decide +kernel) (by decide +kernel) (by decide +kernel)
example : WF 4 (step exCfg exMap (.sew 3 1 4)) :=
  C02_step_preserves_WF _ _ _ (by decide +kernel) (by decide +kernel)
example : Mirror (step exCfg exMap (.link 3 11 12)) :=
  C02_step_preserves_Mirror _ _ _ (by decide +kernel) (by decide +kernel) (by decide +kernel)
example : NoImageOfUnused 4 exMap := C02_unused_is_nobodys_image (by decide +kernel)

/-- refusal, closed faces of different lengths (triangle on the left, square on the right: the
    case that was accepted before the D1 fix) -/
example : HasShape exMap 1 0 1 (.closed 3) ∧ HasShape exMap 0 1 7 (.closed 4) := by decide +kernel
example : ∀ u m', run (threeLink3 16 1 7) exMap ≠ (.ok u, m') :=
  C02_refusal 16 (s := .closed 3) (s' := .closed 4) (by decide +kernel) (by decide +kernel) (by decide +kernel)
    (by decide) (by decide +kernel) (by decide +kernel) (by decide)
example : (run (threeLink3 16 1 7) exMap).1 = .err (errAsym 1 7) := by decide +kernel
example : (run (threeLink3 16 7 1) exMap).1 = .err (errNonFreeImage 3 10 1) := by decide +kernel
/-- refusal, closed against open (dart 12 has one dart ahead, one behind) -/
example : HasShape exMap 0 1 12 (.opened 2 2) ∧ HasShape exMap 1 0 12 (.opened 2 2) := by decide +kernel
example : ∀ u m', run (threeSew3 exCfg 16 1 12) exMap ≠ (.ok u, m') :=
  C02_refusal_sew exCfg 16 (s := .closed 3) (s' := .opened 2 2) (by decide +kernel) (by decide +kernel)
    (by decide +kernel) (by decide) (by decide +kernel) (by decide +kernel) (by decide)
/-- two open chains 1-2-3 and 4-5-6 -/
def exOpen : Map Val :=
  { (Map.empty 4 1 7 : Map Val) with
    b := #[#[0, 0, 1, 2, 0, 4, 5], #[0, 2, 3, 0, 5, 6, 0], Array.replicate 7 0, Array.replicate 7 0] }

/-- refusal, open faces offset by one dart: `1` has 3 darts ahead and 1 behind; read as a right
    dart (β0 ahead, β1 behind) so has `6`, but `5` has 2 and 2 -/
example : HasShape exOpen 1 0 1 (.opened 3 1) ∧ HasShape exOpen 0 1 6 (.opened 3 1) ∧
    HasShape exOpen 0 1 5 (.opened 2 2) := by decide +kernel
example : (run (threeLink3 7 1 6) exOpen).1 = .ok () := by decide +kernel
example : (run (threeLink3 7 1 5) exOpen).1 = .err (errAsym 1 5) := by decide +kernel
example : step exCfg exOpen (.link 3 1 5) = exOpen :=
  (C02_refused_call_changes_nothing exCfg (m := exOpen) (ld := 1) (rd := 5)
    (s := .opened 3 1) (s' := .opened 2 2) (by decide +kernel) (by decide +kernel) (by decide +kernel)
    (by decide) (by decide +kernel) (by decide +kernel) (by decide) false).2
example : (atomically (threeSew3 exCfg 16 1 7) exMap).2 = exMap :=
  C02_failed_call_changes_nothing _ _ (fun ⟨⟩ => by decide +kernel)
/-- a successful 3-link has checked the shapes -/
example : SameShape exMap 1 4 :=
  C02_three_link_checks_shape 16 (m' := (run (threeLink3 16 1 4) exMap).2) (u := ())
    (by decide +kernel) (by decide +kernel) (by decide +kernel) (by decide)
    (Prod.ext (by decide +kernel : (run (threeLink3 16 1 4) exMap).1 = .ok ()) rfl)
/-- the same-face 3-link: the walk hands `(8, 8)` to the core, the next round `(9, 7)` is refused -/
example : (run (threeLink3 16 7 9) exMap).1 = .err (errNonFreeBase 3 9 7) := by decide +kernel
/-- `ArgsOK` is needed: a 3-link of a loop dart with itself "succeeds" with a β3 fixed point -/
example : ¬ WF 4 (atomically (threeLink3 2 1 1)
    ({ (Map.empty 4 1 2 : Map Val) with b := #[#[0, 1], #[0, 1], #[0, 0], #[0, 0]] })).2 := by decide +kernel

end HC.C02
