/-
  C11, writer side — the legacy ASCII text at token level.

  `C11_ascii_tokens_parse`: reading (`VtkText.parseTokens`, the legacy format as specified) the tokens written
  (`VtkText.renderTokens`, the model of vtkio's `write_legacy_ascii`, tied to the real output of `to_vtk_ascii` by
  the `vtkascii` stream) gives back exactly the piece — points, `num_cells`, flat list, type codes.
  `C11_asciiTokens_export`: hence the tokens of `to_vtk_ascii` denote the piece of `exportPiece`.

  What stays TRUSTED after this: vtkio's BINARY writer, vtkio's reader (both formats) — the harness checks on every
  case that both files are read back to the same piece and build the same map —, the blanks / line structure of the
  text and the decimal printing and parsing of floats (coordinates are opaque tokens here; exactness of the float
  text is validated by the wide-coordinate stream).
-/
import Honeycomb.Model.VtkText
import Honeycomb.Lemmas.CmapText
import Honeycomb.Props.C11

set_option linter.unusedSimpArgs false
set_option linter.unusedVariables false

namespace HC.C11
open HC HC.Vtk HC.VtkText HC.CmapText

theorem stripPrefix_append : ∀ (p l : List Tok), stripPrefix p (p ++ l) = some l := by
  intro p
  induction p with
  | nil => intro l; cases l <;> rfl
  | cons a p ih => intro l; simp [stripPrefix, ih]

theorem takeN_append (a b : List Tok) {n : Nat} (h : a.length = n) : takeN n (a ++ b) = some (a, b) := by
  unfold takeN
  rw [if_pos (by rw [List.length_append]; omega), List.take_left' h, List.drop_left' h]

theorem coordToks_length : ∀ (pts : List Val), (coordToks pts).length = 3 * pts.length := by
  intro pts
  induction pts with
  | nil => rfl
  | cons p ps ih =>
      have : coordToks (p :: ps) = ptToks p ++ coordToks ps := by simp [coordToks]
      rw [this, List.length_append, ih]
      cases p <;> simp [ptToks] <;> omega

theorem parseAll_natTok : ∀ (l : List Nat), (∀ v, v ∈ l → v < usizeBound) →
    parseAll parseUsize (l.map natTok) = some l := by
  intro l
  induction l with
  | nil => intro _; rfl
  | cons v l ih =>
      intro h
      unfold parseAll at ih ⊢
      simp only [List.map_cons]
      rw [parseUsize_natTok (h v List.mem_cons_self)]
      simp only [optAll, ih (fun w hw => h w (List.mem_cons_of_mem _ hw))]

/-- a coordinate the token notation can carry: numerator and denominator below `10^18` -/
def SmallQ (q : Rat) : Prop := q.num.natAbs < 10 ^ 18 ∧ q.den < 10 ^ 18
instance (q : Rat) : Decidable (SmallQ q) := by unfold SmallQ; exact inferInstance
/-- a point with printable coordinates -/
def PrintablePt (p : Val) : Prop := ∃ x y z, p = .pt x y z ∧ SmallQ x ∧ SmallQ y ∧ SmallQ z

def coordsOf : List Val → List Rat
  | [] => []
  | .pt x y z :: r => x :: y :: z :: coordsOf r
  | _ :: r => coordsOf r

theorem parseAll_coordToks : ∀ (pts : List Val), (∀ p, p ∈ pts → PrintablePt p) →
    parseAll parseCoord (coordToks pts) = some (coordsOf pts) ∧ triplesV (coordsOf pts) = some pts := by
  intro pts
  induction pts with
  | nil => intro _; exact ⟨rfl, rfl⟩
  | cons p ps ih =>
      intro h
      obtain ⟨x, y, z, rfl, hx, hy, hz⟩ := h p List.mem_cons_self
      obtain ⟨i1, i2⟩ := ih (fun q hq => h q (List.mem_cons_of_mem _ hq))
      have e : coordToks (Val.pt x y z :: ps) = ratStr x :: ratStr y :: ratStr z :: coordToks ps := by
        simp [coordToks, ptToks]
      unfold parseAll at i1 ⊢
      constructor
      · rw [e]
        simp only [List.map_cons, coordsOf]
        rw [parseCoord_ratStr x hx.1 hx.2, parseCoord_ratStr y hy.1 hy.2, parseCoord_ratStr z hz.1 hz.2]
        simp only [optAll, i1]
      · simp only [coordsOf, triplesV, i2]

/-- **C11 (f1)**: the legacy ASCII tokens of a piece are read back as the same piece -/
theorem C11_ascii_tokens_parse (pts : List Val) (nc : Nat) (verts types : List Nat)
    (hp : ∀ p, p ∈ pts → PrintablePt p) (hn : pts.length < usizeBound) (hnc : nc < usizeBound)
    (hv : verts.length < usizeBound ∧ ∀ v, v ∈ verts → v < usizeBound)
    (ht : types.length < usizeBound ∧ ∀ t, t ∈ types → t < usizeBound) :
    parseTokens (renderTokens pts nc verts types) = some (pts, nc, verts, types) := by
  obtain ⟨c1, c2⟩ := parseAll_coordToks pts hp
  unfold parseTokens renderTokens
  rw [stripPrefix_append]
  simp only [List.cons_append, List.nil_append, parsePoints]
  rw [if_neg (by decide), parseUsize_natTok hn]
  simp only
  rw [takeN_append _ _ (coordToks_length pts)]
  simp only [c1, c2, parseCells]
  rw [parseUsize_natTok hnc, parseUsize_natTok hv.1]
  simp only
  rw [takeN_append _ _ (by simp)]
  simp only [parseAll_natTok verts hv.2, parseTypes]
  rw [parseUsize_natTok ht.1]
  simp only
  rw [takeN_append _ _ (by simp)]
  simp only [parseAll_natTok types ht.2, parseTail]

/-- **C11 (f2)**: the tokens of `to_vtk_ascii` denote the exported piece -/
theorem C11_asciiTokens_export (m : Map Val) (pts : List Val) (cells : List VCell)
    (h : exportPiece m = .ok (pts, cells)) (hp : ∀ p, p ∈ pts → PrintablePt p)
    (hb : pts.length < usizeBound ∧ cells.length < usizeBound ∧
      (toLegacy cells).2.1.length < usizeBound ∧ (∀ v, v ∈ (toLegacy cells).2.1 → v < usizeBound) ∧
      ∀ t, t ∈ (toLegacy cells).2.2 → t < usizeBound) :
    ∃ toks, asciiTokens m = .ok toks ∧
      parseTokens toks = some (pts, (toLegacy cells).1, (toLegacy cells).2.1, (toLegacy cells).2.2) := by
  refine ⟨_, by unfold asciiTokens; rw [h], ?_⟩
  exact C11_ascii_tokens_parse _ _ _ _ hp hb.1 (by simpa [toLegacy] using hb.2.1) ⟨hb.2.2.1, hb.2.2.2.1⟩
    ⟨by simpa [toLegacy] using hb.2.1, hb.2.2.2.2⟩

/-- non-vacuity: the piece of `exMap` -/
example : parseTokens (renderTokens [.pt 0 0 0, .pt (1/2) 1 0] 1 [2, 0, 1] [3]) =
    some ([.pt 0 0 0, .pt (1/2) 1 0], 1, [2, 0, 1], [3]) :=
  C11_ascii_tokens_parse _ _ _ _
    (by
      intro p hp
      simp only [List.mem_cons, List.not_mem_nil, or_false] at hp
      rcases hp with rfl | rfl
      · exact ⟨0, 0, 0, rfl, by decide, by decide, by decide⟩
      · exact ⟨1/2, 1, 0, rfl, by decide +kernel, by decide, by decide⟩)
    (by decide) (by decide) ⟨by decide, by decide⟩ ⟨by decide, by decide⟩

end HC.C11
