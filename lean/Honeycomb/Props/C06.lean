/-
  C06 — a call that reports an error leaves the map exactly as it was.

  Model-level content: every core editing call and every transactional kernel is a closure
  `P X α` run through `atomically_with_err`; its writes go to the transaction log only
  (`atomicallyLog`, the semantics of `Transaction::read/write` + commit-on-Ok), and that is
  provably the same as the sequential semantics `atomically` (T1).  Hence *any* outcome other
  than `Ok` — an error raised anywhere in the closure, in particular by the k-th user
  `AttributeUpdate` call for every `k` (the fault countdown `fc` is part of the quantified
  state), a `retry`, a panic inside the closure — leaves every observable part of the map
  (all β images, flags, every slot of every storage) identical.

  The part that is a fact about the CODE rather than about the model — that the operations touch
  shared state only through their `Transaction` — is established by the tie (fault-injection
  campaign + differential run, see tools/props/c06.py), not by these theorems.
-/
import Honeycomb.Lemmas.MapLawful
import Honeycomb.Lemmas.WFAlloc
import Honeycomb.Props.C01

namespace HC.C06
open HC
variable {X : Type}

/-- T2 on maps: no `Ok`, no change — for EVERY closure -/
theorem C06_error_leaves_map_unchanged {α : Type} (p : P X α) (m : Map X) (e : Err)
    (h : (atomically p m).1 = .err e) : (atomically p m).2 = m :=
  atomically_not_ok p m (by intro a; rw [h]; simp)

theorem C06_panic_or_retry_leaves_map_unchanged {α : Type} (p : P X α) (m : Map X)
    (h : (atomically p m).1 = .panic ∨ (atomically p m).1 = .retry) : (atomically p m).2 = m :=
  atomically_not_ok p m (by intro a; rcases h with h | h <;> rw [h] <;> simp)

/-- the same through the real mechanism (transaction log, commit only on `Ok`) -/
theorem C06_log_error_leaves_map_unchanged {α : Type} (p : P X α) (m : Map X) (e : Err)
    (h : (atomicallyLog p m).1 = .err e) : (atomicallyLog p m).2 = m := by
  rw [T1_atomicallyLog_eq] at h ⊢
  exact C06_error_leaves_map_unchanged p m e h

/-- instance: every public editing call of CMap2, any attribute configuration, any laws, any
    fault position (`m.fc` is arbitrary) -/
theorem C06_core_call_2d (cfg : Cfg X) (m : Map X) (op : C01.Op2) (e : Err)
    (h : (atomically (C01.prog cfg m.n op) m).1 = .err e) :
    (atomically (C01.prog cfg m.n op) m).2 = m :=
  C06_error_leaves_map_unchanged _ m e h

/-- when a law call is the `k`-th and `fc = k`, the call fails (the fault campaign is not vacuous) -/
theorem C06_fault_fires {Y : Type} (e : Err) (r : Except Err Y) (m : Map X) (h : m.fc = 1) :
    (run (lawCall (X := X) true e r) m).1 = .err e := by
  unfold lawCall
  simp only [if_true, Prog.bind_eq, run_rF, h]
  rfl

/-- `remove_free_dart` that refuses (panics) has changed nothing observable:
    either it stopped at the first assertion, or it re-wrote an already set flag -/
theorem C06_remove_refused_unchanged {nb : Nat} (m : Map X) (d : Nat)
    (h : (m.removeFreeDart nb d).1 = .panic) :
    ∀ e, (m.removeFreeDart nb d).2.unused e = m.unused e ∧
      (∀ i, (m.removeFreeDart nb d).2.β i e = m.β i e) ∧
      (∀ s, (m.removeFreeDart nb d).2.att s e = m.att s e) := by
  intro e
  unfold Map.removeFreeDart at h ⊢
  by_cases h1 : d < m.n
  · by_cases h2 : m.isFree nb d = true
    · simp only [h1, h2, if_true] at h ⊢
      unfold atomically at h ⊢
      rw [run_removeFreeDartTx] at h ⊢
      by_cases hok : m.okU d = true
      · simp only [hok, if_true] at h ⊢
        cases hu : m.unused d
        · simp [hu] at h
        · simp only [hu]
          refine ⟨?_, fun i => rfl, fun s => rfl⟩
          rw [Map.unused_setU]
          by_cases hde : d = e
          · subst hde; simp [hok, hu]
          · simp [hde]
      · simp only [hok]
        exact ⟨rfl, fun i => rfl, fun s => rfl⟩
    · simp only [h1, h2, if_true]
      exact ⟨rfl, fun i => rfl, fun s => rfl⟩
  · simp only [h1]
    exact ⟨rfl, fun i => rfl, fun s => rfl⟩

/-! non-vacuity: a 2-sew that fails at the first, second … attribute update -/

/-- the two triangles of C01 with every vertex defined -/
def exMap : Map Val := C01.exMap

example : (atomically (C01.prog (stdCfg 3 7) 9 (.sew 2 2 4)) exMap).1 = .ok () := by decide +kernel
example : (atomically (C01.prog (stdCfg 3 7) 9 (.sew 2 2 4)) { exMap with fc := 1 }).1
    = .err errFailedMerge := by decide +kernel
example : (atomically (C01.prog (stdCfg 3 7) 9 (.sew 2 2 4)) { exMap with fc := 2 }).1
    = .err errFailedMerge := by decide +kernel
example : (atomically (C01.prog (stdCfg 3 7) 9 (.sew 2 2 4)) { exMap with fc := 2 }).2
    = { exMap with fc := 2 } :=
  C06_error_leaves_map_unchanged _ _ errFailedMerge (by decide +kernel)

end HC.C06
