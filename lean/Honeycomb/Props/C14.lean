/-
  C14 — inserting vertices on an edge (`honeycomb-kernels/src/cell_insertion/vertices.rs`,
  model `Honeycomb/Model/Kernels/VertexInsertion.lean`).

  PROVED (all maps, all darts, all position lists; no bound)
  (a) well-formedness, full strength:
      * `C14_insertVertex_preserves_WF`    — `insert_vertex_on_edge`, every edge with a second end point;
      * `C14_insertVertices_preserves_WF`  — `insert_vertices_on_edge`, every edge shape (the former exclusion of
        finding D8 — two-dart edge whose base dart is 1-free — is gone with /repo e966dbe; an `example` runs that
        shape: `Ok`, `β0(0) = 0`, well formed).
      The guards are the code's own (counts, freeness read through the transaction, non-null darts, bounds,
      defined end points); the user-side hypotheses are: the edge dart is in use, spare darts are not removed
      darts, and (two-dart edge) pairwise distinct.
  (b) validation: `C14_error_leaves_map_unchanged(_single)` (instance of `C06_error_leaves_map_unchanged`: an
      error of any kind publishes nothing), `C14_ok_implies_guards(_single)` (a successful call passed every
      documented check), and the error kinds returned exactly when a check fails, in the code's order:
      `C14_wrong_count`, `C14_not_free`, `C14_null_first`, `C14_null_second`, `C14_bound`,
      `C14_bound_single`, `C14_first_dart_single`.  Each of these returns the state `m` itself: the error
      happens before any write.
  (c) positions: `C14_new_vertex_position` — the i-th new point `v1 + (v2 - v1)·t_i` sits in the slot of the VERTEX
      identifier of the i-th new dart in the resulting map (/repo 54572f5; former finding D11), every other slot of
      every storage is unchanged; hypothesis: the new darts lie in pairwise distinct vertices of the result.
      `C14_lerp_ratio`, `C14_lerp_collinear`, `C14_lerp_strictly_between`, `C14_lerp_order` over ℚ.

  CONTINUED in Props/C14b.lean: the exact β tables after `insert_vertices_on_edge` and `insert_vertex_on_edge` (chain base → nd₁ → … → nd_k → old
  successor on both sides, reversed β2 pairing, every other image unchanged), the vertices of the new darts (pairwise
  distinct), and `C14_new_vertex_position_full` (the position theorem without side hypothesis); in Props/C14c.lean: the
  vertices of all old darts — the two end points included — keep their dart sets, identifiers and coordinates.

  CONTINUED in Props/C14d.lean: the `UndefinedEdge` error as an exact characterisation (`C14_undefined_edge_iff(_single)`,
  with the totality of the vertex-id BFS on well-formed maps from C03); the direction "Ok ⇒ both end points defined" is
  part of `C14_ok_implies_guards` here.
  The freeness test is transactional since /repo cc2bcd4 (former finding D3 of C08): the kernels are plain
  closures over the transaction and C06/C08's theorems apply to them without a side condition.
-/
import Honeycomb.Lemmas.KernelWF
import Honeycomb.Props.C06
import Honeycomb.Model.Kernels.VertexInsertion
import Mathlib.Tactic.Ring
import Mathlib.Tactic.Linarith

set_option linter.unusedSimpArgs false
set_option linter.unusedVariables false

namespace HC.C14
open HC

variable {n : Nat} {u : Array Bool}

/-! ## the editing parts keep the map well formed -/

theorem keeps_whenP {c : Bool} {p : P Val Unit} (h : c = true → Keeps n u p) : Keeps n u (whenP c p) := by
  unfold whenP
  cases c
  · exact Keeps.pure ()
  · exact h rfl

theorem attrOnly_writeVtx (d : Nat) (v : Val) : AttrOnly (writeVtx d v) := by
  unfold writeVtx
  refine AttrOnly.bind (AttrOnly.of_readOnly (ReadOnly.rA _ _)) fun _ => ?_
  exact AttrOnly.bind (AttrOnly.wA _ _ _) fun _ => AttrOnly.pure _

theorem keeps_chainFirst : ∀ (l : List Nat) (prev : Nat), Live n u prev →
    (∀ x ∈ l, Live n u x) → KeepsR n u (chainFirst prev l) (fun a => Live n u a) := by
  intro l
  induction l with
  | nil => intro prev hp _; exact KeepsR.pure _ hp
  | cons nd rest ih =>
      intro prev hp hl
      unfold chainFirst
      have hnd : Live n u nd := hl nd (by simp)
      refine KeepsR.keeps_bindR (Keeps.oneLinkCore hp hnd) fun _ => ?_
      exact ih nd hnd (fun y hy => hl y (by simp [hy]))

theorem attrOnly_placeVertices (k : Nat) (v1 v2 : Val) : ∀ (l : List (Rat × Nat)), AttrOnly (placeVertices k v1 v2 l) := by
  intro l
  induction l with
  | nil => exact AttrOnly.pure _
  | cons x rest ih =>
      obtain ⟨t, nd⟩ := x
      unfold placeVertices
      refine AttrOnly.bind (AttrOnly.of_readOnly (readOnly_vertexId2 _ _)) fun _ => ?_
      exact AttrOnly.bind (attrOnly_writeVtx _ _) fun _ => ih

theorem keeps_chainSecond : ∀ (l : List (Nat × Nat)) (prev : Nat), Live n u prev →
    (∀ x ∈ l, Live n u x.1 ∧ Live n u x.2) → (∀ y ∈ l, prev ≠ y.1) → (∀ x ∈ l, ∀ y ∈ l, x.2 ≠ y.1) →
    KeepsR n u (chainSecond prev l) (fun a => a ∈ prev :: l.map Prod.snd) := by
  intro l
  induction l with
  | nil => intro prev hp _ _ _; exact KeepsR.pure _ (by simp)
  | cons x rest ih =>
      intro prev hp hl hprev hcross
      obtain ⟨d, nd⟩ := x
      unfold chainSecond
      have hx := hl (d, nd) (by simp)
      refine KeepsR.keeps_bindR (Keeps.twoLinkCore hp hx.1 (hprev (d, nd) (by simp))) fun _ => ?_
      refine KeepsR.keeps_bindR (Keeps.oneLinkCore hp hx.2) fun _ => ?_
      have := ih nd hx.2 (fun y hy => hl y (by simp [hy]))
        (fun y hy => hcross (d, nd) (by simp) y (by simp [hy]))
        (fun a ha b hb => hcross a (by simp [ha]) b (by simp [hb]))
      intro m m' a hi hr
      obtain ⟨i1, r1⟩ := this m m' a hi hr
      refine ⟨i1, ?_⟩
      simp only [List.map_cons, List.mem_cons] at r1 ⊢
      rcases r1 with r1 | r1
      · exact Or.inr (Or.inl r1)
      · exact Or.inr (Or.inr r1)

theorem mem_zip_fst {α β : Type} {l1 : List α} {l2 : List β} {x : α × β} (h : x ∈ l1.zip l2) : x.1 ∈ l1 :=
  (List.of_mem_zip h).1
theorem mem_zip_snd {α β : Type} {l1 : List α} {l2 : List β} {x : α × β} (h : x ∈ l1.zip l2) : x.2 ∈ l2 :=
  (List.of_mem_zip h).2

theorem keeps_side2 (base1 base2 : Nat) (fh sh : List Nat)
    (hb1 : Live n u base1) (hb2 : Live n u base2) (hfh : ∀ d ∈ fh, Live n u d) (hsh : ∀ d ∈ sh, Live n u d)
    (hne : base2 ≠ base1) (hb2fh : ∀ d ∈ fh, base2 ≠ d) (hshfh : ∀ x ∈ sh, ∀ d ∈ fh, x ≠ d)
    (hsh1 : ∀ x ∈ sh, x ≠ base1) :
    Keeps n u (insertVerticesSide2 base1 base2 fh sh) := by
  unfold insertVerticesSide2
  refine Keeps.rB_bind fun b1d2 _ _ _ hlive => ?_
  refine Keeps.bind (keeps_whenP fun _ => Keeps.oneUnlinkCore hb2) fun _ => ?_
  have hc := keeps_chainSecond (n := n) (u := u) (fh.reverse.zip sh) base2 hb2
    (fun x hx => ⟨hfh _ (by simpa using mem_zip_fst hx), hsh _ (mem_zip_snd hx)⟩)
    (fun y hy => hb2fh _ (by simpa using mem_zip_fst hy))
    (fun x hx y hy => hshfh _ (mem_zip_snd hx) _ (by simpa using mem_zip_fst hy))
  refine KeepsR.bind hc fun prev hprev => ?_
  have hpl : Live n u prev ∧ prev ≠ base1 := by
    simp only [List.mem_cons, List.mem_map] at hprev
    rcases hprev with rfl | ⟨x, hx, rfl⟩
    · exact ⟨hb2, hne⟩
    · exact ⟨hsh _ (mem_zip_snd hx), hsh1 _ (mem_zip_snd hx)⟩
  refine Keeps.bind (keeps_whenP fun hc => ?_) fun _ => ?_
  · exact Keeps.oneLinkCore hpl.1 (hlive (by simpa using hc))
  · exact Keeps.twoLinkCore hpl.1 hb1 hpl.2

theorem keeps_insertVerticesBody (k : Nat) (v1 v2 : Val) (base1 base2 b1 : Nat) (fh sh : List Nat) (ts : List Rat)
    (hb1 : Live n u base1) (hb1old : b1 ≠ 0 → Live n u b1) (hfh : ∀ d ∈ fh, Live n u d)
    (h2 : base2 ≠ 0 → Live n u base2 ∧ (∀ d ∈ sh, Live n u d) ∧ base2 ≠ base1 ∧ (∀ d ∈ fh, base2 ≠ d) ∧
      (∀ x ∈ sh, ∀ d ∈ fh, x ≠ d) ∧ (∀ x ∈ sh, x ≠ base1)) :
    Keeps n u (insertVerticesBody k v1 v2 base1 base2 b1 fh sh ts) := by
  unfold insertVerticesBody
  refine Keeps.bind (keeps_whenP fun _ => Keeps.oneUnlinkCore hb1) fun _ => ?_
  refine Keeps.bind (keeps_whenP fun _ => Keeps.twoUnlinkCore hb1) fun _ => ?_
  refine KeepsR.bind (keeps_chainFirst fh base1 hb1 hfh) fun prev hprev => ?_
  refine Keeps.bind (keeps_whenP fun hc => Keeps.oneLinkCore hprev (hb1old (by simpa using hc))) fun _ => ?_
  refine Keeps.bind (keeps_whenP fun hc => ?_) fun _ => Keeps.of_attrOnly (attrOnly_placeVertices _ _ _ _)
  obtain ⟨a, b, c, d, e, f⟩ := h2 (by simpa using hc)
  exact keeps_side2 base1 base2 fh sh hb1 a hfh b c d e f

theorem keeps_insertVertexBody1 (v1 v2 : Val) (base1 b1 nd1 : Nat) (t : Option Rat)
    (hb1 : Live n u base1) (hb1old : Live n u b1) (hnd1 : Live n u nd1) :
    Keeps n u (insertVertexBody1 n v1 v2 base1 b1 nd1 t) := by
  unfold insertVertexBody1
  refine Keeps.bind (keeps_whenP fun _ => Keeps.oneUnlinkCore hb1) fun _ => ?_
  refine Keeps.bind (Keeps.oneLinkCore hb1 hnd1) fun _ => ?_
  refine Keeps.bind (Keeps.oneLinkCore hnd1 hb1old) fun _ => ?_
  refine Keeps.ro_bind (readOnly_vertexId2 _ _) fun _ => ?_
  exact Keeps.bind (Keeps.of_attrOnly (attrOnly_writeVtx _ _)) fun _ => Keeps.pure _

theorem keeps_insertVertexBody2 (v1 v2 : Val) (base1 base2 b1 b2 nd1 nd2 : Nat) (t : Option Rat)
    (hb1 : Live n u base1) (hb2 : Live n u base2) (hb1old : b1 ≠ 0 → Live n u b1) (hb2old : b2 ≠ 0 → Live n u b2)
    (hnd1 : Live n u nd1) (hnd2 : Live n u nd2) (h12 : base1 ≠ nd2) (h21 : base2 ≠ nd1) :
    Keeps n u (insertVertexBody2 n v1 v2 base1 base2 b1 b2 nd1 nd2 t) := by
  unfold insertVertexBody2
  refine Keeps.bind (keeps_whenP fun _ => Keeps.oneUnlinkCore hb1) fun _ => ?_
  refine Keeps.bind (keeps_whenP fun _ => Keeps.oneUnlinkCore hb2) fun _ => ?_
  refine Keeps.bind (Keeps.twoUnlinkCore hb1) fun _ => ?_
  refine Keeps.bind (Keeps.oneLinkCore hb1 hnd1) fun _ => ?_
  refine Keeps.bind (keeps_whenP fun hc => Keeps.oneLinkCore hnd1 (hb1old (by simpa using hc))) fun _ => ?_
  refine Keeps.bind (Keeps.oneLinkCore hb2 hnd2) fun _ => ?_
  refine Keeps.bind (keeps_whenP fun hc => Keeps.oneLinkCore hnd2 (hb2old (by simpa using hc))) fun _ => ?_
  refine Keeps.bind (Keeps.twoLinkCore hb1 hnd2 h12) fun _ => ?_
  refine Keeps.bind (Keeps.twoLinkCore hb2 hnd1 h21) fun _ => ?_
  refine Keeps.ro_bind (readOnly_vertexId2 _ _) fun _ => ?_
  exact Keeps.bind (Keeps.of_attrOnly (attrOnly_writeVtx _ _)) fun _ => Keeps.pure _

/-! ## the validation prefix -/

/-- `is_free_transac` unfolded -/
theorem run_isFreeTx_unfold (m : Map Val) (d : Nat) :
    run (isFreeTx d) m =
      if m.okβ 0 d = true then
        if m.β 0 d ≠ 0 then (.ok false, m)
        else if m.okβ 1 d = true then
          if m.β 1 d ≠ 0 then (.ok false, m)
          else if m.okβ 2 d = true then (.ok (decide (m.β 2 d = 0)), m) else (.panic, m)
        else (.panic, m)
      else (.panic, m) := by
  unfold isFreeTx
  simp only [Prog.bind_eq, bind, run_rB]
  by_cases h0 : m.okβ 0 d = true
  · simp only [h0, if_true]
    by_cases b0 : m.β 0 d = 0
    · simp only [b0, ne_eq, not_true_eq_false, if_false, run_rB]
      by_cases h1 : m.okβ 1 d = true
      · simp only [h1, if_true]
        by_cases b1 : m.β 1 d = 0
        · simp only [b1, ne_eq, not_true_eq_false, if_false, run_rB]
          by_cases h2 : m.okβ 2 d = true
          · simp [h2]
          · simp [h2]
        · simp [b1]
      · simp [h1]
    · simp [b0]
  · simp [h0]

theorem isFree3 (m : Map Val) (d : Nat) :
    m.isFree 3 d = (decide (m.β 0 d = 0) && decide (m.β 1 d = 0) && decide (m.β 2 d = 0)) := by
  unfold Map.isFree
  have : List.range 3 = [0, 1, 2] := by decide
  rw [this]; simp [Bool.and_assoc]

/-- on a map with all its rows, `is_free_transac` computes `is_free` -/
theorem run_isFreeTx (m : Map Val) (d : Nat) (h : ∀ i, i < 3 → m.okβ i d = true) :
    run (isFreeTx d) m = (.ok (m.isFree 3 d), m) := by
  rw [run_isFreeTx_unfold, isFree3, h 0 (by omega), h 1 (by omega), h 2 (by omega)]
  by_cases b0 : m.β 0 d = 0 <;> by_cases b1 : m.β 1 d = 0 <;> simp [b0, b1]

theorem readOnly_isFreeTx (d : Nat) : ReadOnly (isFreeTx (X := Val) d) := by
  intro m; rw [run_isFreeTx_unfold]; repeat' split
  all_goals rfl

theorem isFreeTx_ok {m m' : Map Val} {d : Nat} {b : Bool} (h : run (isFreeTx d) m = (.ok b, m')) :
    m.okβ 0 d = true ∧ b = m.isFree 3 d := by
  rw [run_isFreeTx_unfold, isFree3] at *
  by_cases h0 : m.okβ 0 d = true
  · refine ⟨h0, ?_⟩
    simp only [h0, if_true] at h
    by_cases b0 : m.β 0 d = 0
    · simp only [b0, ne_eq, not_true_eq_false, if_false] at h
      by_cases h1 : m.okβ 1 d = true
      · simp only [h1, if_true] at h
        by_cases b1 : m.β 1 d = 0
        · simp only [b1, ne_eq, not_true_eq_false, if_false] at h
          by_cases h2 : m.okβ 2 d = true
          · simp only [h2, if_true, Prod.mk.injEq, Out.ok.injEq] at h
            simp [b0, b1, ← h.1]
          · simp [h2] at h
        · simp [b1] at h; rw [h.1]; simp [b1]
      · simp [h1] at h
    · simp [b0] at h; rw [h.1]; simp [b0]
  · simp [h0] at h

theorem readOnly_nullOrNotFreeTx (d : Nat) : ReadOnly (nullOrNotFreeTx (X := Val) d) := by
  unfold nullOrNotFreeTx
  split
  · exact ReadOnly.pure _
  · exact ReadOnly.bind (readOnly_isFreeTx d) fun _ => ReadOnly.pure _

theorem readOnly_anyNotFreeTx : ∀ l, ReadOnly (anyNotFreeTx (X := Val) l) := by
  intro l
  induction l with
  | nil => exact ReadOnly.pure _
  | cons d ds ih =>
      unfold anyNotFreeTx
      exact ReadOnly.bind (readOnly_isFreeTx d) fun f => ReadOnly.ite (ReadOnly.pure _) ih

/-- what the freeness loop over `new_darts` established -/
theorem anyNotFreeTx_ok : ∀ (l : List Nat) (m m' : Map Val) (b : Bool),
    run (anyNotFreeTx l) m = (.ok b, m') →
      (b = false → ∀ d ∈ l, m.okβ 0 d = true ∧ m.isFree 3 d = true) ∧
      (b = true → ∃ d ∈ l, m.okβ 0 d = true ∧ m.isFree 3 d = false) := by
  intro l
  induction l with
  | nil =>
      intro m m' b h
      simp [anyNotFreeTx] at h
      obtain ⟨hb, _⟩ := h
      subst hb
      simp
  | cons d ds ih =>
      intro m m' b h
      unfold anyNotFreeTx at h
      obtain ⟨f, h1, h2⟩ := ro_bind_ok (readOnly_isFreeTx d) h
      obtain ⟨hok, hf⟩ := isFreeTx_ok h1
      subst hf
      cases hfr : m.isFree 3 d
      · rw [hfr] at h2
        simp at h2
        obtain ⟨hb, _⟩ := h2
        subst hb
        exact ⟨by simp, fun _ => ⟨d, by simp, hok, hfr⟩⟩
      · rw [hfr] at h2
        simp at h2
        obtain ⟨i1, i2⟩ := ih m m' b h2
        refine ⟨fun hb => ?_, fun hb => ?_⟩
        · intro x hx
          simp only [List.mem_cons] at hx
          rcases hx with rfl | hx
          · exact ⟨hok, hfr⟩
          · exact i1 hb x hx
        · obtain ⟨x, hx, hh⟩ := i2 hb
          exact ⟨x, by simp [hx], hh⟩

theorem nullOrNotFreeTx_ok (m m' : Map Val) (d : Nat) (b : Bool)
    (h : run (nullOrNotFreeTx d) m = (.ok b, m')) :
    b = (decide (d = 0) || !(m.isFree 3 d)) ∧ (d ≠ 0 → m.okβ 0 d = true) := by
  unfold nullOrNotFreeTx at h
  by_cases hd : d = 0
  · simp [hd] at h ⊢; exact h.1
  · simp only [hd, if_false] at h
    obtain ⟨f, h1, h2⟩ := ro_bind_ok (readOnly_isFreeTx d) h
    obtain ⟨hok, hf⟩ := isFreeTx_ok h1
    simp at h2
    obtain ⟨h3, _⟩ := h2
    subst hf
    have : b = !(m.isFree 3 d) := by rw [h3]; simp
    rw [this]
    simp [hd, hok]

theorem withEnds_ok {α : Type} {v1 v2 : Option Val} {k : Val → Val → P Val α} {m m' : Map Val} {a : α}
    (h : run (withEnds v1 v2 k) m = (.ok a, m')) :
    ∃ x y, v1 = some x ∧ v2 = some y ∧ run (k x y) m = (.ok a, m') := by
  unfold withEnds at h
  cases v1 with
  | none => simp at h
  | some x =>
    cases v2 with
    | none => simp at h
    | some y => exact ⟨x, y, rfl, rfl, h⟩

theorem rA_bind_ok {α : Type} {s d : Nat} {k : Option Val → P Val α} {m m' : Map Val} {a : α}
    (h : run ((rA s d).bind k) m = (.ok a, m')) : run (k (m.att s d)) m = (.ok a, m') := by
  rw [run_rA] at h
  by_cases hok : m.okA s d = true
  · simpa [hok] using h
  · simp [hok] at h

theorem rB_bind_ok {α : Type} {i d : Nat} {k : Nat → P Val α} {m m' : Map Val} {a : α}
    (h : run ((rB i d).bind k) m = (.ok a, m')) : m.okβ i d = true ∧ run (k (m.β i d)) m = (.ok a, m') := by
  rw [run_rB] at h
  by_cases hok : m.okβ i d = true
  · exact ⟨hok, by simpa [hok] using h⟩
  · simp [hok] at h

/-- everything a successful `insert_vertices_on_edge` has checked and read before its first write -/
theorem insertVertices_ok_elim {n : Nat} {m m' : Map Val} {e : Nat} {nds : List Nat} {ts : List Rat}
    (h : run (insertVerticesOnEdge n e nds ts) m = (.ok (), m')) :
    nds.length = 2 * ts.length ∧
    (∀ d ∈ nds, m.okβ 0 d = true ∧ m.isFree 3 d = true) ∧
    m.okβ 2 e = true ∧
    (∀ d ∈ nds.take ts.length, d ≠ 0) ∧
    (m.β 2 e ≠ 0 → ∀ d ∈ nds.drop ts.length, d ≠ 0) ∧
    (∀ t ∈ ts, outOfUnit t = false) ∧
    (m.β 1 e ≠ 0 ∨ m.β 2 e ≠ 0) ∧
    ∃ vid1 vid2 v1 v2,
      run (vertexId2 n e) m = (.ok vid1, m) ∧
      run (vertexId2 n (if m.β 1 e ≠ 0 then m.β 1 e else m.β 2 e)) m = (.ok vid2, m) ∧
      m.att 0 vid1 = some v1 ∧ m.att 0 vid2 = some v2 ∧
      run (insertVerticesBody n v1 v2 e (m.β 2 e) (m.β 1 e) (nds.take ts.length) (nds.drop ts.length) ts) m
        = (.ok (), m') := by
  unfold insertVerticesOnEdge at h
  simp only [Prog.bind_eq, bind] at h
  by_cases hc : nds.length = 2 * ts.length
  · simp only [hc, ne_eq, not_true_eq_false, if_false] at h
    obtain ⟨nf, h1, h⟩ := ro_bind_ok (readOnly_anyNotFreeTx nds) h
    cases nf
    · simp only [Bool.false_eq_true, if_false] at h
      have hfree := (anyNotFreeTx_ok nds m m false h1).1 rfl
      obtain ⟨hok, h⟩ := rB_bind_ok h
      by_cases c1 : ((List.take ts.length nds).any fun x => decide (x = 0)) = true
      · rw [if_pos c1] at h; simp at h
      · rw [if_neg c1] at h
        by_cases c2 : (decide ¬m.β 2 e = 0 && (List.drop ts.length nds).any fun x => decide (x = 0)) = true
        · rw [if_pos c2] at h; simp at h
        · rw [if_neg c2] at h
          by_cases c3 : ts.any outOfUnit = true
          · rw [if_pos c3] at h; simp at h
          · rw [if_neg c3] at h
            obtain ⟨_, h⟩ := rB_bind_ok h
            obtain ⟨_, h⟩ := rB_bind_ok h
            obtain ⟨vid1, hv1, h⟩ := ro_bind_ok (readOnly_vertexId2 _ _) h
            unfold secondEnd at h
            by_cases d1 : m.β 1 e ≠ 0
            · simp only [d1, ne_eq, not_false_eq_true, if_true, Prog.ret_bind, Prog.pure_eq] at h
              obtain ⟨vid2, hv2, h⟩ := ro_bind_ok (readOnly_vertexId2 _ _) h
              have h := rA_bind_ok h
              have h := rA_bind_ok h
              obtain ⟨x, y, hx, hy, h⟩ := withEnds_ok h
              refine ⟨hc, hfree, hok, ?_, ?_, ?_, Or.inl d1, vid1, vid2, x, y, hv1, by simpa [d1] using hv2, hx, hy, h⟩
              · intro d hd hd0; apply c1; simp only [List.any_eq_true, decide_eq_true_eq]; exact ⟨d, hd, hd0⟩
              · intro hb d hd hd0; apply c2
                simp only [Bool.and_eq_true, decide_eq_true_eq, List.any_eq_true]; exact ⟨hb, d, hd, hd0⟩
              · intro t ht
                cases hh : outOfUnit t
                · rfl
                · exfalso; apply c3; simp only [List.any_eq_true]; exact ⟨t, ht, hh⟩
            · by_cases d2 : m.β 2 e ≠ 0
              · simp only [d1, d2, ne_eq, not_false_eq_true, if_true, if_false, Prog.ret_bind, Prog.pure_eq] at h
                obtain ⟨vid2, hv2, h⟩ := ro_bind_ok (readOnly_vertexId2 _ _) h
                have h := rA_bind_ok h
                have h := rA_bind_ok h
                obtain ⟨x, y, hx, hy, h⟩ := withEnds_ok h
                refine ⟨hc, hfree, hok, ?_, ?_, ?_, Or.inr d2, vid1, vid2, x, y, hv1, by simpa [d1] using hv2, hx, hy, h⟩
                · intro d hd hd0; apply c1; simp only [List.any_eq_true, decide_eq_true_eq]; exact ⟨d, hd, hd0⟩
                · intro hb d hd hd0; apply c2
                  simp only [Bool.and_eq_true, decide_eq_true_eq, List.any_eq_true]; exact ⟨hb, d, hd, hd0⟩
                · intro t ht
                  cases hh : outOfUnit t
                  · rfl
                  · exfalso; apply c3; simp only [List.any_eq_true]; exact ⟨t, ht, hh⟩
              · simp [d1, d2, HC.abort] at h
    · simp at h
  · simp [hc] at h
/-- a non-null β image on a well-formed map is a live dart -/
theorem live_image {m : Map Val} (hwf : WF 3 m) {i d : Nat} (hi : i < 3) (hd : d < m.n) (hne : m.β i d ≠ 0) :
    Live m.n m.u (m.β i d) := by
  refine ⟨hne, hwf.range i hi d hd, ?_⟩
  have hno := C01.C01_unused_is_nobodys_image hwf i hi d hd
  cases hc : m.unused (m.β i d)
  · exact hc
  · exact absurd (hno hc) hne

theorem free_β {m : Map Val} {d : Nat} (h : m.isFree 3 d = true) (i : Nat) (hi : i < 3) : m.β i d = 0 :=
  (isFree_iff m 3 d).1 h i hi

/-- the same, with the dart count and the removal flags -/
theorem insertVertices_inv (m m' : Map Val) (e : Nat) (nds : List Nat) (ts : List Rat)
    (hwf : WF 3 m) (he : C01.InUse m e)
    (hlive : ∀ d ∈ nds, m.unused d = false)
    (hnodup : m.β 2 e ≠ 0 → nds.Nodup)
    (h : run (insertVerticesOnEdge m.n e nds ts) m = (.ok (), m')) : Inv m.n m.u m' := by
  obtain ⟨hc, hfree, hok, hfh0, hsh0, _, hend, vid1, vid2, v1, v2, _, _, _, _, hbody⟩ := insertVertices_ok_elim h
  have hL : ∀ d ∈ nds, d ≠ 0 → Live m.n m.u d :=
    fun d hd h0 => ⟨h0, ((hwf.toSized.okβ 0 d).1 (hfree d hd).1).2, hlive d hd⟩
  have hfhL : ∀ d ∈ nds.take ts.length, Live m.n m.u d :=
    fun d hd => hL d (List.mem_of_mem_take hd) (hfh0 d hd)
  have key := keeps_insertVerticesBody (n := m.n) (u := m.u) m.n v1 v2 e (m.β 2 e) (m.β 1 e)
    (nds.take ts.length) (nds.drop ts.length) ts he (fun hb1 => live_image hwf (by omega) he.2.1 hb1) hfhL ?_
  · exact key m m' () (Inv.of_wf hwf) hbody
  · intro h2
    have hinv := hwf.invol 2 (by omega) (by omega) e he.2.1 h2
    have hb2L := live_image hwf (by omega : 2 < 3) he.2.1 h2
    have hnd := hnodup h2
    rw [← List.take_append_drop ts.length nds] at hnd
    have hdisj := (List.nodup_append.1 hnd).2.2
    refine ⟨hb2L, fun d hd => hL d (List.mem_of_mem_drop hd) (hsh0 h2 d hd), hinv.2, ?_, ?_, ?_⟩
    · intro d hd heq
      have := free_β (hfree d (List.mem_of_mem_take hd)).2 2 (by omega)
      rw [← heq, hinv.1] at this
      exact he.1 this
    · intro x hx d hd heq
      exact hdisj d hd x hx heq.symm
    · intro x hx heq
      have := free_β (hfree x (List.mem_of_mem_drop hx)).2 2 (by omega)
      rw [heq] at this
      exact h2 this

/-- **C14 (a)**: a successful `insert_vertices_on_edge` keeps a well-formed 2-map well formed — every edge shape,
    every `k`, every position list (full strength since /repo e966dbe; before, the statement was false on two-dart
    edges whose base dart is 1-free: finding D8).
    User-side hypotheses: the edge dart is a live dart, the spare darts are not removed darts and (on a two-dart
    edge, where all of them are used) pairwise distinct.  Everything else — counts, freeness, non-nullness, bounds,
    defined end points — is checked by the code itself. -/
theorem C14_insertVertices_preserves_WF (m m' : Map Val) (e : Nat) (nds : List Nat) (ts : List Rat)
    (hwf : WF 3 m) (he : C01.InUse m e)
    (hlive : ∀ d ∈ nds, m.unused d = false)
    (hnodup : m.β 2 e ≠ 0 → nds.Nodup)
    (h : run (insertVerticesOnEdge m.n e nds ts) m = (.ok (), m')) : WF 3 m' :=
  (insertVertices_inv m m' e nds ts hwf he hlive hnodup h).wf

/-- everything a successful `insert_vertex_on_edge` has checked and read before its first write -/
theorem insertVertex_ok_elim {n : Nat} {m m' : Map Val} {e nd1 nd2 : Nat} {t : Option Rat}
    (h : run (insertVertexOnEdge n e nd1 nd2 t) m = (.ok (), m')) :
    (∀ x, t = some x → outOfUnit x = false) ∧ m.okβ 2 e = true ∧
    (nd1 ≠ 0 ∧ m.okβ 0 nd1 = true ∧ m.isFree 3 nd1 = true) ∧
    (m.β 2 e ≠ 0 → nd2 ≠ 0 ∧ m.okβ 0 nd2 = true ∧ m.isFree 3 nd2 = true) ∧
    ∃ vid1 vid2 v1 v2,
      run (vertexId2 n e) m = (.ok vid1, m) ∧
      run (vertexId2 n (if m.β 2 e = 0 then m.β 1 e else m.β 2 e)) m = (.ok vid2, m) ∧
      m.att 0 vid1 = some v1 ∧ m.att 0 vid2 = some v2 ∧
      (m.β 2 e = 0 → run (insertVertexBody1 n v1 v2 e (m.β 1 e) nd1 t) m = (.ok (), m')) ∧
      (m.β 2 e ≠ 0 →
        run (insertVertexBody2 n v1 v2 e (m.β 2 e) (m.β 1 e) (m.β 1 (m.β 2 e)) nd1 nd2 t) m = (.ok (), m')) := by
  unfold insertVertexOnEdge at h
  simp only [Prog.bind_eq, bind] at h
  by_cases c0 : optOutOfUnit t = true
  · rw [if_pos c0] at h; simp at h
  · rw [if_neg c0] at h
    obtain ⟨hok, h⟩ := rB_bind_ok h
    obtain ⟨bad1, hb1, h⟩ := ro_bind_ok (readOnly_nullOrNotFreeTx nd1) h
    obtain ⟨e1, e1'⟩ := nullOrNotFreeTx_ok m m nd1 bad1 hb1
    cases bad1
    · rw [if_neg (by simp)] at h
      have hnd1 : nd1 ≠ 0 ∧ m.okβ 0 nd1 = true ∧ m.isFree 3 nd1 = true := by
        have : nd1 ≠ 0 := by intro h0; simp [h0] at e1
        refine ⟨this, e1' this, ?_⟩
        cases hf : m.isFree 3 nd1
        · simp [hf] at e1
        · rfl
      have ht : ∀ x, t = some x → outOfUnit x = false := by
        intro x hx; subst hx
        cases hh : outOfUnit x
        · rfl
        · exact absurd (by simpa [optOutOfUnit] using hh) c0
      by_cases b2 : m.β 2 e = 0
      · simp only [b2, ne_eq, not_true_eq_false, if_false, Prog.ret_bind, Prog.pure_eq, Bool.false_eq_true] at h
        obtain ⟨_, h⟩ := rB_bind_ok h
        simp only [b2, if_true] at h
        obtain ⟨_, h⟩ := rB_bind_ok h
        obtain ⟨vid1, hv1, h⟩ := ro_bind_ok (readOnly_vertexId2 _ _) h
        obtain ⟨vid2, hv2, h⟩ := ro_bind_ok (readOnly_vertexId2 _ _) h
        have h := rA_bind_ok h
        have h := rA_bind_ok h
        obtain ⟨x, y, hx, hy, h⟩ := withEnds_ok h
        exact ⟨ht, hok, hnd1, fun hh => absurd b2 hh, vid1, vid2, x, y, hv1, by simpa [b2] using hv2, hx, hy,
          fun _ => h, fun hh => absurd b2 hh⟩
      · simp only [b2, ne_eq, not_false_eq_true, if_true] at h
        obtain ⟨bad2, hb2, h⟩ := ro_bind_ok (readOnly_nullOrNotFreeTx nd2) h
        obtain ⟨e2, e2'⟩ := nullOrNotFreeTx_ok m m nd2 bad2 hb2
        cases bad2
        · rw [if_neg (by simp)] at h
          have hnd2 : nd2 ≠ 0 ∧ m.okβ 0 nd2 = true ∧ m.isFree 3 nd2 = true := by
            have : nd2 ≠ 0 := by intro h0; simp [h0] at e2
            refine ⟨this, e2' this, ?_⟩
            cases hf : m.isFree 3 nd2
            · simp [hf] at e2
            · rfl
          obtain ⟨_, h⟩ := rB_bind_ok h
          simp only [b2, if_false] at h
          obtain ⟨_, h⟩ := rB_bind_ok h
          obtain ⟨_, h⟩ := rB_bind_ok h
          obtain ⟨vid1, hv1, h⟩ := ro_bind_ok (readOnly_vertexId2 _ _) h
          obtain ⟨vid2, hv2, h⟩ := ro_bind_ok (readOnly_vertexId2 _ _) h
          have h := rA_bind_ok h
          have h := rA_bind_ok h
          obtain ⟨x, y, hx, hy, h⟩ := withEnds_ok h
          exact ⟨ht, hok, hnd1, fun _ => hnd2, vid1, vid2, x, y, hv1, by simpa [b2] using hv2, hx, hy,
            fun hh => absurd hh b2, fun _ => h⟩
        · rw [if_pos rfl] at h; simp at h
    · rw [if_pos rfl] at h; simp at h

/-- **C14 (a)**: a successful `insert_vertex_on_edge` keeps a well-formed 2-map well formed, on every
    edge that has a second end point (`β1(e) ≠ 0` or `β2(e) ≠ 0`; a dart without successor and without
    opposite is not an edge with two end points — the code then reads the vertex slot of the null dart,
    which is empty on embedded maps).  The spare darts that are used must not be removed darts. -/
theorem C14_insertVertex_preserves_WF (m m' : Map Val) (e nd1 nd2 : Nat) (t : Option Rat)
    (hwf : WF 3 m) (he : C01.InUse m e)
    (hl1 : m.unused nd1 = false) (hl2 : m.β 2 e ≠ 0 → m.unused nd2 = false)
    (hend : m.β 1 e ≠ 0 ∨ m.β 2 e ≠ 0)
    (h : run (insertVertexOnEdge m.n e nd1 nd2 t) m = (.ok (), m')) : WF 3 m' := by
  obtain ⟨_, _, hnd1, hnd2, vid1, vid2, v1, v2, _, _, _, _, hB1, hB2⟩ := insertVertex_ok_elim h
  have hL1 : Live m.n m.u nd1 := ⟨hnd1.1, ((hwf.toSized.okβ 0 nd1).1 hnd1.2.1).2, hl1⟩
  by_cases b2 : m.β 2 e = 0
  · have hb1 : m.β 1 e ≠ 0 := by
      rcases hend with h1 | h1
      · exact h1
      · exact absurd b2 h1
    have key := keeps_insertVertexBody1 (n := m.n) (u := m.u) v1 v2 e (m.β 1 e) nd1 t he
      (live_image hwf (by omega) he.2.1 hb1) hL1
    exact (key m m' () (Inv.of_wf hwf) (hB1 b2)).wf
  · obtain ⟨g1, g2, g3⟩ := hnd2 b2
    have hL2 : Live m.n m.u nd2 := ⟨g1, ((hwf.toSized.okβ 0 nd2).1 g2).2, hl2 b2⟩
    have hinv := hwf.invol 2 (by omega) (by omega) e he.2.1 b2
    have hb2L := live_image hwf (by omega : 2 < 3) he.2.1 b2
    have key := keeps_insertVertexBody2 (n := m.n) (u := m.u) v1 v2 e (m.β 2 e) (m.β 1 e) (m.β 1 (m.β 2 e))
      nd1 nd2 t he hb2L (fun hh => live_image hwf (by omega) he.2.1 hh)
      (fun hh => live_image hwf (by omega) hb2L.2.1 hh) hL1 hL2 ?_ ?_
    · exact (key m m' () (Inv.of_wf hwf) (hB2 b2)).wf
    · intro heq
      have := free_β g3 2 (by omega)
      rw [← heq] at this
      exact b2 this
    · intro heq
      have := free_β hnd1.2.2 2 (by omega)
      rw [← heq, hinv.1] at this
      exact he.1 this

/-! ## (b) validation: errors before any write, error kinds -/

/-- **C14 (b)**: whatever error a call reports (validation error, failed core operation), the map is
    exactly what it was — instance of C06's theorem for the two kernels -/
theorem C14_error_leaves_map_unchanged (m : Map Val) (e : Nat) (nds : List Nat) (ts : List Rat) (err : Err)
    (h : (atomically (insertVerticesOnEdge m.n e nds ts) m).1 = .err err) :
    (atomically (insertVerticesOnEdge m.n e nds ts) m).2 = m :=
  C06.C06_error_leaves_map_unchanged _ m err h

theorem C14_error_leaves_map_unchanged_single (m : Map Val) (e nd1 nd2 : Nat) (t : Option Rat) (err : Err)
    (h : (atomically (insertVertexOnEdge m.n e nd1 nd2 t) m).1 = .err err) :
    (atomically (insertVertexOnEdge m.n e nd1 nd2 t) m).2 = m :=
  C06.C06_error_leaves_map_unchanged _ m err h

/-- a successful call has passed every documented check -/
theorem C14_ok_implies_guards {n : Nat} {m m' : Map Val} {e : Nat} {nds : List Nat} {ts : List Rat}
    (h : run (insertVerticesOnEdge n e nds ts) m = (.ok (), m')) :
    nds.length = 2 * ts.length ∧
    (∀ d ∈ nds, m.okβ 0 d = true ∧ m.isFree 3 d = true) ∧
    (∀ d ∈ nds.take ts.length, d ≠ 0) ∧
    (m.β 2 e ≠ 0 → ∀ d ∈ nds.drop ts.length, d ≠ 0) ∧
    (∀ t ∈ ts, 0 < t ∧ t < 1) ∧
    (m.β 1 e ≠ 0 ∨ m.β 2 e ≠ 0) ∧
    ∃ vid1 vid2 v1 v2,
      run (vertexId2 n e) m = (.ok vid1, m) ∧
      run (vertexId2 n (if m.β 1 e ≠ 0 then m.β 1 e else m.β 2 e)) m = (.ok vid2, m) ∧
      m.att 0 vid1 = some v1 ∧ m.att 0 vid2 = some v2 := by
  obtain ⟨a, b, _, c', d, f, g, vid1, vid2, v1, v2, h1, h2, h3, h4, _⟩ := insertVertices_ok_elim h
  refine ⟨a, b, c', d, ?_, g, vid1, vid2, v1, v2, h1, h2, h3, h4⟩
  intro t ht
  have := f t ht
  unfold outOfUnit at this
  simp only [ge_iff_le, Bool.or_eq_false_iff, decide_eq_false_iff_not, not_le] at this
  exact ⟨this.2, this.1⟩

theorem C14_ok_implies_guards_single {n : Nat} {m m' : Map Val} {e nd1 nd2 : Nat} {t : Option Rat}
    (h : run (insertVertexOnEdge n e nd1 nd2 t) m = (.ok (), m')) :
    (∀ x, t = some x → 0 < x ∧ x < 1) ∧
    (nd1 ≠ 0 ∧ m.okβ 0 nd1 = true ∧ m.isFree 3 nd1 = true) ∧
    (m.β 2 e ≠ 0 → nd2 ≠ 0 ∧ m.okβ 0 nd2 = true ∧ m.isFree 3 nd2 = true) ∧
    ∃ vid1 vid2 v1 v2,
      run (vertexId2 n e) m = (.ok vid1, m) ∧
      run (vertexId2 n (if m.β 2 e = 0 then m.β 1 e else m.β 2 e)) m = (.ok vid2, m) ∧
      m.att 0 vid1 = some v1 ∧ m.att 0 vid2 = some v2 := by
  obtain ⟨a, _, b, c', vid1, vid2, v1, v2, h1, h2, h3, h4, _⟩ := insertVertex_ok_elim h
  refine ⟨?_, b, c', vid1, vid2, v1, v2, h1, h2, h3, h4⟩
  intro x hx
  have := a x hx
  unfold outOfUnit at this
  simp only [ge_iff_le, Bool.or_eq_false_iff, decide_eq_false_iff_not, not_le] at this
  exact ⟨this.2, this.1⟩

/-- wrong number of spare darts -/
theorem C14_wrong_count (n : Nat) (m : Map Val) (e : Nat) (nds : List Nat) (ts : List Rat)
    (h : nds.length ≠ 2 * ts.length) :
    run (insertVerticesOnEdge n e nds ts) m = (.err (errWrongAmountDarts (2 * ts.length) nds.length), m) := by
  unfold insertVerticesOnEdge
  simp only [Prog.bind_eq, bind]
  rw [if_pos h]; rfl

/-- every β row of an existing dart can be read -/
theorem okβ_of_lt {m : Map Val} (hs : Sized 3 m) {d : Nat} (hd : d < m.n) : ∀ i, i < 3 → m.okβ i d = true :=
  fun i hi => (hs.okβ i d).2 ⟨hi, hd⟩

theorem run_anyNotFreeTx (m : Map Val) (hs : Sized 3 m) : ∀ (l : List Nat), (∀ d ∈ l, d < m.n) →
    run (anyNotFreeTx l) m = (.ok (l.any fun d => !m.isFree 3 d), m) := by
  intro l
  induction l with
  | nil => intro _; rfl
  | cons d ds ih =>
      intro hr
      unfold anyNotFreeTx
      simp only [Prog.bind_eq, bind]
      rw [run_bind, run_isFreeTx m d (okβ_of_lt hs (hr d (by simp)))]
      simp only [List.any_cons]
      cases hf : m.isFree 3 d
      · simp
      · simp only [Bool.not_true, Bool.false_eq_true, if_false, Bool.false_or]
        exact ih (fun x hx => hr x (by simp [hx]))

/-- a spare dart that is not free (the test goes through the transaction: it sees the map as the transaction
    sees it) -/
theorem C14_not_free (n : Nat) (m : Map Val) (hs : Sized 3 m) (e : Nat) (nds : List Nat) (ts : List Rat)
    (hlen : nds.length = 2 * ts.length) (hr : ∀ d ∈ nds, d < m.n) (hnf : ∃ d ∈ nds, m.isFree 3 d = false) :
    run (insertVerticesOnEdge n e nds ts) m = (.err (errInvalidDarts "one-dart-is-not-free"), m) := by
  unfold insertVerticesOnEdge
  simp only [Prog.bind_eq, bind]
  rw [if_neg (by simpa using hlen), run_bind, run_anyNotFreeTx m hs nds hr]
  have : (nds.any fun d => !m.isFree 3 d) = true := by
    obtain ⟨d, hd, hf⟩ := hnf
    simp only [List.any_eq_true]; exact ⟨d, hd, by simp [hf]⟩
  simp only [this, if_true]; rfl

/-- a null dart in the first half -/
theorem C14_null_first (n : Nat) (m : Map Val) (hs : Sized 3 m) (e : Nat) (nds : List Nat) (ts : List Rat)
    (hlen : nds.length = 2 * ts.length) (hfree : ∀ d ∈ nds, d < m.n ∧ m.isFree 3 d = true)
    (hok : m.okβ 2 e = true) (h0 : 0 ∈ nds.take ts.length) :
    run (insertVerticesOnEdge n e nds ts) m
      = (.err (errInvalidDarts "one-dart-of-the-first-half-is-null"), m) := by
  unfold insertVerticesOnEdge
  simp only [Prog.bind_eq, bind]
  rw [if_neg (by simpa using hlen), run_bind, run_anyNotFreeTx m hs nds (fun d hd => (hfree d hd).1)]
  have : (nds.any fun d => !m.isFree 3 d) = false := by
    simp only [List.any_eq_false]; intro d hd; simp [(hfree d hd).2]
  simp only [this, Bool.false_eq_true, if_false, run_rB, hok, if_true]
  rw [if_pos (by simp only [List.any_eq_true, decide_eq_true_eq]; exact ⟨0, h0, rfl⟩)]; rfl

/-- a null dart in the second half of a two-dart edge -/
theorem C14_null_second (n : Nat) (m : Map Val) (hs : Sized 3 m) (e : Nat) (nds : List Nat) (ts : List Rat)
    (hlen : nds.length = 2 * ts.length) (hfree : ∀ d ∈ nds, d < m.n ∧ m.isFree 3 d = true)
    (hok : m.okβ 2 e = true) (h1 : 0 ∉ nds.take ts.length) (h2 : m.β 2 e ≠ 0) (h0 : 0 ∈ nds.drop ts.length) :
    run (insertVerticesOnEdge n e nds ts) m
      = (.err (errInvalidDarts "one-dart-of-the-second-half-is-null"), m) := by
  unfold insertVerticesOnEdge
  simp only [Prog.bind_eq, bind]
  rw [if_neg (by simpa using hlen), run_bind, run_anyNotFreeTx m hs nds (fun d hd => (hfree d hd).1)]
  have : (nds.any fun d => !m.isFree 3 d) = false := by
    simp only [List.any_eq_false]; intro d hd; simp [(hfree d hd).2]
  simp only [this, Bool.false_eq_true, if_false, run_rB, hok, if_true]
  rw [if_neg (by simp only [List.any_eq_true, decide_eq_true_eq]; rintro ⟨x, hx, rfl⟩; exact h1 hx)]
  rw [if_pos (by
    simp only [Bool.and_eq_true, decide_eq_true_eq, List.any_eq_true]; exact ⟨h2, 0, h0, rfl⟩)]
  rfl

/-- a position outside `]0,1[` -/
theorem C14_bound (n : Nat) (m : Map Val) (hs : Sized 3 m) (e : Nat) (nds : List Nat) (ts : List Rat)
    (hlen : nds.length = 2 * ts.length) (hfree : ∀ d ∈ nds, d < m.n ∧ m.isFree 3 d = true)
    (hok : m.okβ 2 e = true) (h1 : 0 ∉ nds.take ts.length) (h2 : m.β 2 e ≠ 0 → 0 ∉ nds.drop ts.length)
    (ht : ∃ t ∈ ts, t ≤ 0 ∨ 1 ≤ t) :
    run (insertVerticesOnEdge n e nds ts) m = (.err errVertexBound, m) := by
  unfold insertVerticesOnEdge
  simp only [Prog.bind_eq, bind]
  rw [if_neg (by simpa using hlen), run_bind, run_anyNotFreeTx m hs nds (fun d hd => (hfree d hd).1)]
  have : (nds.any fun d => !m.isFree 3 d) = false := by
    simp only [List.any_eq_false]; intro d hd; simp [(hfree d hd).2]
  simp only [this, Bool.false_eq_true, if_false, run_rB, hok, if_true]
  rw [if_neg (by simp only [List.any_eq_true, decide_eq_true_eq]; rintro ⟨x, hx, rfl⟩; exact h1 hx)]
  rw [if_neg (by
    simp only [Bool.and_eq_true, decide_eq_true_eq, List.any_eq_true]
    rintro ⟨hb, x, hx, rfl⟩; exact h2 hb hx)]
  rw [if_pos (by
    obtain ⟨t, ht, hh⟩ := ht
    simp only [List.any_eq_true]; refine ⟨t, ht, ?_⟩
    unfold outOfUnit; rcases hh with hh | hh <;> simp [hh])]
  rfl

/-- single insertion: position outside `]0,1[`, null / non-free first spare dart -/
theorem C14_bound_single (n : Nat) (m : Map Val) (e nd1 nd2 : Nat) (t : Rat) (ht : t ≤ 0 ∨ 1 ≤ t) :
    run (insertVertexOnEdge n e nd1 nd2 (some t)) m = (.err errVertexBound, m) := by
  unfold insertVertexOnEdge
  have : optOutOfUnit (some t) = true := by
    unfold optOutOfUnit outOfUnit; rcases ht with hh | hh <;> simp [hh]
  simp only [Prog.bind_eq, bind]
  rw [if_pos this]; rfl

theorem C14_first_dart_single (n : Nat) (m : Map Val) (hs : Sized 3 m) (e nd1 nd2 : Nat) (t : Option Rat)
    (ht : optOutOfUnit t = false) (hok : m.okβ 2 e = true)
    (h1 : nd1 = 0 ∨ (nd1 < m.n ∧ m.isFree 3 nd1 = false)) :
    run (insertVertexOnEdge n e nd1 nd2 t) m
      = (.err (errInvalidDarts "first-dart-is-null-or-not-free"), m) := by
  unfold insertVertexOnEdge
  simp only [Prog.bind_eq, bind]
  rw [if_neg (by simp [ht])]
  simp only [run_rB, hok, if_true]
  rw [run_bind]
  have : run (nullOrNotFreeTx nd1) m = (.ok true, m) := by
    unfold nullOrNotFreeTx
    rcases h1 with h1 | ⟨h1, h2⟩
    · simp [h1]
    · by_cases h0 : nd1 = 0
      · simp [h0]
      · simp only [h0, if_false, Prog.bind_eq, bind]
        rw [run_bind, run_isFreeTx m nd1 (okβ_of_lt hs h1)]; simp [h2]
  rw [this]; rfl

/-! ## (c) positions of the new vertices -/

/-- the program never writes an attribute slot (whatever its outcome) -/
def KeepsAtt {α : Type} (p : P Val α) : Prop := ∀ m : Map Val, (run p m).2.a = m.a

theorem KeepsAtt.pure {α : Type} (a : α) : KeepsAtt (pure a : P Val α) := fun _ => rfl

theorem KeepsAtt.bind {α β : Type} {p : P Val α} {f : α → P Val β} (hp : KeepsAtt p) (hf : ∀ a, KeepsAtt (f a)) :
    KeepsAtt (p.bind f) := by
  intro m
  rw [run_bind_snd]
  have := hp m
  match h : run p m with
  | (.ok a, m') => rw [h] at this; simp only; rw [hf a m']; exact this
  | (.err e, m') => rw [h] at this; exact this
  | (.retry, m') => rw [h] at this; exact this
  | (.panic, m') => rw [h] at this; exact this

theorem KeepsAtt.of_readOnly {α : Type} {p : P Val α} (hp : ReadOnly p) : KeepsAtt p := by
  intro m; rw [hp m]

theorem keepsAtt_wB (i d v : Nat) : KeepsAtt (wB i d v : P Val Unit) := by
  intro m; rw [run_wB']; split <;> rfl

theorem keepsAtt_oneLinkCore (l r : Nat) : KeepsAtt (oneLinkCore (X := Val) l r) := by
  unfold oneLinkCore
  refine KeepsAtt.bind (KeepsAtt.of_readOnly (ReadOnly.rB _ _)) fun _ => ?_
  split
  · exact fun _ => rfl
  · refine KeepsAtt.bind (KeepsAtt.of_readOnly (ReadOnly.rB _ _)) fun _ => ?_
    split
    · exact fun _ => rfl
    · exact KeepsAtt.bind (keepsAtt_wB _ _ _) fun _ => keepsAtt_wB _ _ _

theorem keepsAtt_iLinkCore (i l r : Nat) : KeepsAtt (iLinkCore (X := Val) i l r) := by
  unfold iLinkCore
  refine KeepsAtt.bind (KeepsAtt.of_readOnly (ReadOnly.rB _ _)) fun _ => ?_
  split
  · exact fun _ => rfl
  · refine KeepsAtt.bind (KeepsAtt.of_readOnly (ReadOnly.rB _ _)) fun _ => ?_
    split
    · exact fun _ => rfl
    · exact KeepsAtt.bind (keepsAtt_wB _ _ _) fun _ => keepsAtt_wB _ _ _

theorem keepsAtt_oneUnlinkCore (l : Nat) : KeepsAtt (oneUnlinkCore (X := Val) l) := by
  unfold oneUnlinkCore
  refine KeepsAtt.bind (KeepsAtt.of_readOnly (ReadOnly.rB _ _)) fun _ => ?_
  refine KeepsAtt.bind (keepsAtt_wB _ _ _) fun _ => ?_
  split
  · exact fun _ => rfl
  · exact keepsAtt_wB _ _ _

theorem keepsAtt_iUnlinkCore (i l : Nat) : KeepsAtt (iUnlinkCore (X := Val) i l) := by
  unfold iUnlinkCore
  refine KeepsAtt.bind (KeepsAtt.of_readOnly (ReadOnly.rB _ _)) fun _ => ?_
  refine KeepsAtt.bind (keepsAtt_wB _ _ _) fun _ => ?_
  split
  · exact fun _ => rfl
  · exact keepsAtt_wB _ _ _

theorem keepsAtt_whenP {c : Bool} {p : P Val Unit} (h : KeepsAtt p) : KeepsAtt (whenP c p) := by
  unfold whenP; cases c
  · exact KeepsAtt.pure ()
  · exact h

theorem keepsAtt_chainSecond : ∀ (l : List (Nat × Nat)) (prev : Nat), KeepsAtt (chainSecond prev l) := by
  intro l
  induction l with
  | nil => intro prev; exact KeepsAtt.pure _
  | cons x rest ih =>
      intro prev
      obtain ⟨d, nd⟩ := x
      unfold chainSecond
      exact KeepsAtt.bind (keepsAtt_iLinkCore _ _ _) fun _ => KeepsAtt.bind (keepsAtt_oneLinkCore _ _) fun _ => ih nd

theorem keepsAtt_side2 (base1 base2 : Nat) (fh sh : List Nat) : KeepsAtt (insertVerticesSide2 base1 base2 fh sh) := by
  unfold insertVerticesSide2
  refine KeepsAtt.bind (KeepsAtt.of_readOnly (ReadOnly.rB _ _)) fun _ => ?_
  refine KeepsAtt.bind (keepsAtt_whenP (keepsAtt_oneUnlinkCore _)) fun _ => ?_
  refine KeepsAtt.bind (keepsAtt_chainSecond _ _) fun _ => ?_
  exact KeepsAtt.bind (keepsAtt_whenP (keepsAtt_oneLinkCore _ _)) fun _ => keepsAtt_iLinkCore _ _ _

theorem KeepsAtt.att {α : Type} {p : P Val α} (hp : KeepsAtt p) {m m' : Map Val} {a : α}
    (h : run p m = (.ok a, m')) (s d : Nat) : m'.att s d = m.att s d := by
  have := hp m; rw [h] at this; unfold Map.att; rw [this]

theorem keepsAtt_chainFirst : ∀ (l : List Nat) (prev : Nat), KeepsAtt (chainFirst prev l) := by
  intro l
  induction l with
  | nil => intro prev; exact KeepsAtt.pure _
  | cons nd rest ih =>
      intro prev
      unfold chainFirst
      exact KeepsAtt.bind (keepsAtt_oneLinkCore _ _) fun _ => ih nd

/-- the outcome of the program depends on the β tables only, and it writes nothing -/
def BOnly {α : Type} (p : P Val α) : Prop :=
  ReadOnly p ∧ ∀ m m1 : Map Val, m1.b = m.b → (run p m1).1 = (run p m).1

theorem BOnly.pure {α : Type} (a : α) : BOnly (pure a : P Val α) := ⟨ReadOnly.pure a, fun _ _ _ => rfl⟩

theorem BOnly.bind {α β : Type} {p : P Val α} {f : α → P Val β} (hp : BOnly p) (hf : ∀ a, BOnly (f a)) :
    BOnly (p.bind f) := by
  refine ⟨ReadOnly.bind hp.1 fun a => (hf a).1, ?_⟩
  intro m m1 hb
  rw [run_bind, run_bind]
  have e := hp.2 m m1 hb
  have s1 := hp.1 m1
  have s0 := hp.1 m
  match h1 : run p m1, h0 : run p m with
  | (o1, x1), (o0, x0) =>
      rw [h1] at e s1; rw [h0] at e s0
      simp only at e s1 s0
      subst e s1 s0
      cases o1 with
      | ok a => exact (hf a).2 _ _ hb
      | err e => rfl
      | retry => rfl
      | panic => rfl

theorem BOnly.rB (i d : Nat) : BOnly (rB i d : P Val Nat) := by
  refine ⟨ReadOnly.rB i d, ?_⟩
  intro m m1 hb
  simp only [run_rB']
  have e1 : m1.okβ i d = m.okβ i d := by unfold Map.okβ; rw [hb]
  have e2 : m1.β i d = m.β i d := by unfold Map.β; rw [hb]
  rw [e1, e2]; split <;> rfl

theorem bOnly_bfs (gen : Nat → P Val (List Nat)) (hg : ∀ d, BOnly (gen d)) :
    ∀ fuel pending marked out, BOnly (bfs gen fuel pending marked out) := by
  intro fuel
  induction fuel with
  | zero => intro p mk o; exact BOnly.pure _
  | succ f ih =>
      intro p mk o
      cases p with
      | nil => exact BOnly.pure _
      | cons d rest =>
          unfold bfs
          exact BOnly.bind (hg d) (fun ims => ih _ _ _)

theorem bOnly_vertexId2 (k d : Nat) : BOnly (vertexId2 (X := Val) k d) := by
  unfold vertexId2 orbitWith
  refine BOnly.bind (bOnly_bfs _ (fun x => ?_) _ _ _ _) fun _ => BOnly.pure _
  unfold gen2
  exact BOnly.bind (BOnly.rB _ _) fun _ => BOnly.bind (BOnly.rB _ _) fun _ =>
    BOnly.bind (BOnly.rB _ _) fun _ => BOnly.bind (BOnly.rB _ _) fun _ => BOnly.pure _

/-- the placement loop: each point goes to the slot `vertex_id_transac(new_d)`; nothing else is written -/
theorem placeVertices_att (k : Nat) (v1 v2 : Val) : ∀ (l : List (Rat × Nat)) (m m' : Map Val),
    run (placeVertices k v1 v2 l) m = (.ok (), m') →
    (l.map (fun x => (run (vertexId2 k x.2) m).1)).Nodup →
      m'.b = m.b ∧
      (∀ x ∈ l, ∀ vid, (run (vertexId2 k x.2) m).1 = .ok vid → m'.att 0 vid = some (placeVal v1 v2 (some x.1))) ∧
      (∀ s d, (s ≠ 0 ∨ ∀ x ∈ l, (run (vertexId2 k x.2) m).1 ≠ .ok d) → m'.att s d = m.att s d) := by
  intro l
  induction l with
  | nil =>
      intro m m' h _
      simp [placeVertices] at h
      subst h
      exact ⟨rfl, by simp, fun _ _ _ => rfl⟩
  | cons x rest ih =>
      intro m m' h hnd
      obtain ⟨t, nd⟩ := x
      unfold placeVertices at h
      obtain ⟨vid0, hv0, h⟩ := ro_bind_ok (readOnly_vertexId2 k nd) h
      obtain ⟨_, m1, h2, h⟩ := run_bind_ok h
      unfold writeVtx at h2
      simp only [Prog.bind_eq, bind] at h2
      rw [run_rA] at h2
      by_cases hok : m.okA 0 vid0 = true
      · simp only [hok, if_true, run_wA, Prog.ret_bind, Prog.pure_eq, run_ret, Prod.mk.injEq] at h2
        obtain ⟨_, rfl⟩ := h2
        have hb1 : (m.setA 0 vid0 (some (placeVal v1 v2 (some t)))).b = m.b := rfl
        have hout : ∀ d, (run (vertexId2 k d) (m.setA 0 vid0 (some (placeVal v1 v2 (some t))))).1
            = (run (vertexId2 k d) m).1 := fun d => (bOnly_vertexId2 k d).2 _ _ hb1
        simp only [List.map_cons, List.nodup_cons, List.mem_map, not_exists, not_and] at hnd
        obtain ⟨hhead, hrest⟩ := hnd
        have hrest' : (rest.map (fun x => (run (vertexId2 k x.2)
            (m.setA 0 vid0 (some (placeVal v1 v2 (some t))))).1)).Nodup := by
          simp only [hout]; exact hrest
        obtain ⟨i0, i1, i2⟩ := ih _ m' h hrest'
        simp only [hout] at i1 i2
        have hv0' : (run (vertexId2 k nd) m).1 = .ok vid0 := by rw [hv0]
        refine ⟨i0.trans hb1, ?_, ?_⟩
        · intro y hy vid hvid
          simp only [List.mem_cons] at hy
          rcases hy with rfl | hy
          · simp only at hvid
            rw [hv0'] at hvid
            simp only [Out.ok.injEq] at hvid
            subst hvid
            rw [i2 0 vid0 (Or.inr fun z hz hh => hhead z hz (by rw [hh, hv0'])), Map.att_setA]
            simp [hok]
          · exact i1 y hy vid hvid
        · intro s d hsd
          have c1 : s ≠ 0 ∨ ∀ x ∈ rest, (run (vertexId2 k x.2) m).1 ≠ .ok d := by
            rcases hsd with hs | hd
            · exact Or.inl hs
            · exact Or.inr fun z hz => hd z (by simp [hz])
          rw [i2 s d c1, Map.att_setA]
          have : ¬ (0 = s ∧ vid0 = d ∧ m.okA 0 vid0 = true) := by
            rintro ⟨rfl, rfl, _⟩
            rcases hsd with hs | hd
            · exact hs rfl
            · exact hd (t, nd) (by simp) hv0'
          simp [this]
      · simp [hok] at h2

/-- **C14 (c)**: after a successful `insert_vertices_on_edge` the `i`-th new point `v1 + (v2 - v1)·t_i` sits in the
    slot of the VERTEX identifier of the `i`-th new dart, computed on the resulting map (since /repo 54572f5;
    before, it sat in the slot of the dart id: finding D11), and no other slot of any storage has changed.
    `v1`, `v2` are the end points read before the first write.  Hypothesis: the new darts belong to pairwise
    distinct vertices of the result (true whenever the first-half darts are distinct; validated by the oracle, not
    proved — it needs the orbit calculus of C03). -/
theorem C14_new_vertex_position {n : Nat} {m m' : Map Val} {e : Nat} {nds : List Nat} {ts : List Rat}
    (h : run (insertVerticesOnEdge n e nds ts) m = (.ok (), m'))
    (hnd : ((ts.zip (nds.take ts.length)).map (fun x => (run (vertexId2 n x.2) m').1)).Nodup) :
    ∃ vid1 vid2 v1 v2,
      run (vertexId2 n e) m = (.ok vid1, m) ∧
      run (vertexId2 n (if m.β 1 e ≠ 0 then m.β 1 e else m.β 2 e)) m = (.ok vid2, m) ∧
      m.att 0 vid1 = some v1 ∧ m.att 0 vid2 = some v2 ∧
      (∀ x ∈ ts.zip (nds.take ts.length), ∀ vid, (run (vertexId2 n x.2) m').1 = .ok vid →
        m'.att 0 vid = some (placeVal v1 v2 (some x.1))) ∧
      (∀ s d, (s ≠ 0 ∨ ∀ x ∈ ts.zip (nds.take ts.length), (run (vertexId2 n x.2) m').1 ≠ .ok d) →
        m'.att s d = m.att s d) := by
  obtain ⟨hlen, _, _, _, _, _, _, vid1, vid2, v1, v2, h1, h2, h3, h4, hbody⟩ := insertVertices_ok_elim h
  refine ⟨vid1, vid2, v1, v2, h1, h2, h3, h4, ?_⟩
  unfold insertVerticesBody at hbody
  obtain ⟨_, ma, ha, hbody⟩ := run_bind_ok hbody
  have ea := (keepsAtt_whenP (keepsAtt_oneUnlinkCore e)).att ha
  obtain ⟨_, mb, hb, hbody⟩ := run_bind_ok hbody
  have eb := (keepsAtt_whenP (keepsAtt_iUnlinkCore 2 e)).att hb
  obtain ⟨prev, mc, hc, hbody⟩ := run_bind_ok hbody
  have ec := (keepsAtt_chainFirst _ _).att hc
  obtain ⟨_, md, hd, hbody⟩ := run_bind_ok hbody
  have ed := (keepsAtt_whenP (keepsAtt_oneLinkCore prev (m.β 1 e))).att hd
  obtain ⟨_, me, he, hbody⟩ := run_bind_ok hbody
  have ee := (keepsAtt_whenP (keepsAtt_side2 e (m.β 2 e) _ _)).att he
  -- the β tables of the result are those before the placement loop
  have hbb : m'.b = me.b := by
    have st := attrOnly_placeVertices n v1 v2 (ts.zip (nds.take ts.length)) me
    rw [hbody] at st; exact st.b
  have hout : ∀ d, (run (vertexId2 n d) m').1 = (run (vertexId2 n d) me).1 :=
    fun d => (bOnly_vertexId2 n d).2 _ _ hbb
  simp only [hout] at hnd ⊢
  obtain ⟨_, i1, i2⟩ := placeVertices_att n v1 v2 _ _ _ hbody hnd
  refine ⟨i1, fun s d hsd => ?_⟩
  rw [i2 s d hsd, ee, ed, ec, eb, ea]

/-! geometry of the written point over ℚ -/

theorem placeVal_some (a b : P2) (t : Rat) :
    (placeVal a.toVal b.toVal (some t)).p2 = ⟨a.x + (b.x - a.x) * t, a.y + (b.y - a.y) * t⟩ := rfl

theorem placeVal_none (a b : P2) :
    (placeVal a.toVal b.toVal none).p2 = ⟨(a.x + b.x) / 2, (a.y + b.y) / 2⟩ := rfl

/-- the written point divides the segment in the ratio `t : 1 - t` -/
theorem C14_lerp_ratio (a b : P2) (t : Rat) :
    (P2.lerp a b t).x - a.x = t * (b.x - a.x) ∧ b.x - (P2.lerp a b t).x = (1 - t) * (b.x - a.x) ∧
    (P2.lerp a b t).y - a.y = t * (b.y - a.y) ∧ b.y - (P2.lerp a b t).y = (1 - t) * (b.y - a.y) := by
  unfold P2.lerp
  refine ⟨by ring, by ring, by ring, by ring⟩

/-- it lies on the line through the end points … -/
theorem C14_lerp_collinear (a b : P2) (t : Rat) : cross a (P2.lerp a b t) b = 0 := by
  unfold cross P2.lerp; ring

/-- … strictly between them when `0 < t < 1` (it differs from both ends of a non-degenerate edge and its
    barycentric weights are positive) … -/
theorem C14_lerp_strictly_between (a b : P2) (t : Rat) (h0 : 0 < t) (h1 : t < 1) (hab : a ≠ b) :
    P2.lerp a b t ≠ a ∧ P2.lerp a b t ≠ b ∧
    0 < ((P2.lerp a b t).x - a.x) * (b.x - (P2.lerp a b t).x) + ((P2.lerp a b t).y - a.y) * (b.y - (P2.lerp a b t).y) := by
  obtain ⟨e1, e2, e3, e4⟩ := C14_lerp_ratio a b t
  have hd : 0 < (b.x - a.x) ^ 2 + (b.y - a.y) ^ 2 := by
    by_contra hh
    have hx : (b.x - a.x) ^ 2 = 0 := by nlinarith [sq_nonneg (b.x - a.x), sq_nonneg (b.y - a.y)]
    have hy : (b.y - a.y) ^ 2 = 0 := by nlinarith [sq_nonneg (b.x - a.x), sq_nonneg (b.y - a.y)]
    have hx' : b.x = a.x := by nlinarith [pow_eq_zero_iff (two_ne_zero) |>.1 hx]
    have hy' : b.y = a.y := by nlinarith [pow_eq_zero_iff (two_ne_zero) |>.1 hy]
    apply hab
    cases a; cases b; simp_all
  have key : ((P2.lerp a b t).x - a.x) * (b.x - (P2.lerp a b t).x) + ((P2.lerp a b t).y - a.y) * (b.y - (P2.lerp a b t).y)
      = t * (1 - t) * ((b.x - a.x) ^ 2 + (b.y - a.y) ^ 2) := by
    rw [e1, e2, e3, e4]; ring
  have hpos : 0 < t * (1 - t) * ((b.x - a.x) ^ 2 + (b.y - a.y) ^ 2) := by
    apply mul_pos (mul_pos h0 (by linarith)) hd
  refine ⟨?_, ?_, by rw [key]; exact hpos⟩
  · intro heq; rw [heq] at key
    have : (0 : Rat) = t * (1 - t) * ((b.x - a.x) ^ 2 + (b.y - a.y) ^ 2) := by rw [← key]; ring
    rw [← this] at hpos; exact lt_irrefl _ hpos
  · intro heq; rw [heq] at key
    have : (0 : Rat) = t * (1 - t) * ((b.x - a.x) ^ 2 + (b.y - a.y) ^ 2) := by rw [← key]; ring
    rw [← this] at hpos; exact lt_irrefl _ hpos

/-- … and the points come in the order of their parameters -/
theorem C14_lerp_order (a b : P2) (t t' : Rat) :
    (P2.lerp a b t').x - (P2.lerp a b t).x = (t' - t) * (b.x - a.x) ∧
    (P2.lerp a b t').y - (P2.lerp a b t).y = (t' - t) * (b.y - a.y) := by
  unfold P2.lerp; exact ⟨by ring, by ring⟩

/-! ## non-vacuity -/

/-- triangle 1-2-3, dart 4 opposite to dart 1 and 1-free (base dart 4 is the shape of the former finding D8),
    spare darts 5, 6 -/
def exMap : Map Val :=
  { (Map.empty 3 6 7 : Map Val) with
    b := #[#[0, 3, 1, 2, 0, 0, 0], #[0, 2, 3, 1, 0, 0, 0], #[0, 4, 0, 0, 1, 0, 0]]
    a := #[#[none, some (.pt 0 0 0), some (.pt 4 0 0), some (.pt 0 4 0), none, none, none],
           Array.replicate 8 none, Array.replicate 8 none, Array.replicate 8 none,
           Array.replicate 8 none, Array.replicate 8 none] }

theorem ok_of_fst {p : P Val Unit} {m : Map Val} (h : (run p m).1 = .ok ()) : run p m = (.ok (), (run p m).2) := by
  revert h
  generalize run p m = r
  obtain ⟨o, m'⟩ := r
  intro h; simp at h; subst h; rfl

example : WF 3 exMap := by decide +kernel
example : (run (insertVerticesOnEdge exMap.n 1 [5, 6] [1/4]) exMap).1 = .ok () := by decide +kernel
/-- the theorem applies to a successful two-dart insertion … -/
example : WF 3 (run (insertVerticesOnEdge exMap.n 1 [5, 6] [1/4]) exMap).2 :=
  C14_insertVertices_preserves_WF exMap _ 1 [5, 6] [1/4] (by decide +kernel) (by decide +kernel)
    (by decide +kernel) (by decide +kernel) (ok_of_fst (by decide +kernel))
/-- … and to the shape of the former finding D8 (two-dart edge, base dart 4 is 1-free): the call succeeds, the null
    dart keeps its null images, the result is well formed -/
example : (run (insertVerticesOnEdge exMap.n 4 [5, 6] [1/2]) exMap).1 = .ok () := by decide +kernel
example : (run (insertVerticesOnEdge exMap.n 4 [5, 6] [1/2]) exMap).2.β 0 0 = 0 := by decide +kernel
example : WF 3 (run (insertVerticesOnEdge exMap.n 4 [5, 6] [1/2]) exMap).2 :=
  C14_insertVertices_preserves_WF exMap _ 4 [5, 6] [1/2] (by decide +kernel) (by decide +kernel)
    (by decide +kernel) (by decide +kernel) (ok_of_fst (by decide +kernel))
/-- the new point sits at the vertex id: with the spare darts in the order (6, 5) the new vertex {6, 5} has id 5
    (former finding D11: the point used to be stored in slot 6) -/
example : (run (insertVerticesOnEdge exMap.n 1 [6, 5] [1/4]) exMap).2.att 0 5 = some (.pt 1 0 0) ∧
    (run (vertexId2 exMap.n 6) (run (insertVerticesOnEdge exMap.n 1 [6, 5] [1/4]) exMap).2).1 = .ok 5 := by
  decide +kernel
example : (run (insertVertexOnEdge exMap.n 2 5 0 none) exMap).1 = .ok () := by decide +kernel
example : WF 3 (run (insertVertexOnEdge exMap.n 2 5 0 none) exMap).2 :=
  C14_insertVertex_preserves_WF exMap _ 2 5 0 none (by decide +kernel) (by decide +kernel) (by decide +kernel)
    (by decide +kernel) (by decide +kernel) (ok_of_fst (by decide +kernel))
/-- the error theorems' hypotheses are satisfiable -/
example : (run (insertVerticesOnEdge exMap.n 1 [5] [1/4]) exMap).1 = .err (errWrongAmountDarts 2 1) := by
  rw [C14_wrong_count _ _ _ _ _ (by decide)]; rfl
example : (atomically (insertVerticesOnEdge exMap.n 1 [5, 2] [1/4]) exMap).1
    = .err (errInvalidDarts "one-dart-is-not-free") := by decide +kernel
example : (atomically (insertVerticesOnEdge exMap.n 1 [5, 6] [5/4]) exMap).1 = .err errVertexBound := by
  decide +kernel
example : (atomically (insertVerticesOnEdge exMap.n 4 [5, 0] [1/2]) exMap).1
    = .err (errInvalidDarts "one-dart-of-the-second-half-is-null") := by decide +kernel
example : (P2.lerp ⟨0, 0⟩ ⟨4, 0⟩ (1/4)) = ⟨1, 0⟩ := by decide +kernel

end HC.C14
