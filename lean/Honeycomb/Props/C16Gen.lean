/-
  C16, translated part: the case analysis of `generate_intersection_data` and the four `*_intersec!` macros
  (honeycomb-kernels/src/grisubal/routines/compute_intersecs.rs), REGENERATED from the source by
  `tools/gen_lean.py gcross` (Gen/GCross.lean), given their meaning here and proved EQUAL to the hand-written
  model (`leftI … upI`, `vCross`, `hCross`, `diagPick`, `crossingsOf` of Model/Grisubal.lean).

  What is data (holes of the generator's template): every macro formula, every macro / cell size / dart offset
  per arm, the patterns of the neighbour case, the bounds of the ranges, the comparison operators of the
  corner / acceptance / retain tests, the divisors of the cell coordinates.  What is fixed by the template:
  the control skeleton (the `match dist`, the `is_positive()` selections, the reversal, sort and zip).
-/
import Honeycomb.Gen.GCross
import Honeycomb.Model.Grisubal
import Honeycomb.Props.C16Cross

namespace HC.GenTie
open HC HC.Gen

/-! ## meaning of the data -/

def gxEval (va vb vd : Pt) (c s : Rat) : GxE → Rat
  | .vax => va.1 | .vay => va.2 | .vbx => vb.1 | .vby => vb.2 | .vdx => vd.1 | .vdy => vd.2
  | .s => s | .c => c
  | .sub a b => gxEval va vb vd c s a - gxEval va vb vd c s b
  | .mul a b => gxEval va vb vd c s a * gxEval va vb vd c s b
  | .div a b => gxEval va vb vd c s a / gxEval va vb vd c s b

/-- `{{ let s = …; (s, …) }}` -/
def gxRun (m : GxMacro) (va vb vd : Pt) (c : Rat) : Rat × Rat :=
  let s := gxEval va vb vd c 0 m.s
  (s, gxEval va vb vd c s m.t)

def gxMac (k : Nat) : GxMacro := gxMacros.getD k ⟨"", .s, .s⟩

def gxCellSize (g : GGrid) : GxCell → Rat
  | .cx => g.cx
  | .cy => g.cy

/-- one macro call on the dart `d_base + off` of cell `(x, y)` -/
def gxSide (g : GGrid) (va vb : Pt) (sd : GxSide) (x y : Int) : Cross :=
  let st := gxRun (gxMac sd.mac) va vb (cornerOf g x y sd.off) (gxCellSize g sd.cell)
  { dart := (dBase g x y + (sd.off : Int)).toNat, t := st.2, s := st.1 }

def gxLinV (l : GxLin) (base off : Int) : Int := l.b * base + l.o * off + l.k
def gxLo (r : GxRange) (base off : Int) : Int := min (gxLinV r.lo1 base off) (gxLinV r.lo2 base off)
def gxHi (r : GxRange) (base off : Int) : Int := max (gxLinV r.hi1 base off) (gxLinV r.hi2 base off)

def gxCmpB (c : GxCmp) (a b : Rat) : Bool :=
  match c with
  | .lt => decide (a < b)
  | .le => decide (a ≤ b)

def gxCellOf (g : GGrid) (p : Pt) (k : Nat) : Nat × Nat :=
  (((p.1 - g.ox) / gxCellSize g (gxCellDiv.getD k .cy)).floor.toNat,
   ((p.2 - g.oy) / gxCellSize g (gxCellDiv.getD (k + 1) .cx)).floor.toNat)

/-- the `filter_map` closure of the diagonal arm with the translated operators -/
def gxDiagPick (d : GxDiag) (eps : Rat) (i j : Int) (v h : Cross) : Option Cross :=
  let ab : Rat → Rat := fun x => if x < 0 then -x else x
  let corner : Option Cross :=
    if decide (0 < i) = decide (0 < j) then
      if gxCmpB (d.corner.getD 0 .le) (ab (v.t - 1)) eps ∧ gxCmpB (d.corner.getD 1 .le) (ab h.t) eps then
        some { h with t := 0 }
      else none
    else
      if gxCmpB (d.corner.getD 2 .le) (ab v.t) eps ∧ gxCmpB (d.corner.getD 3 .le) (ab (h.t - 1)) eps then
        some { v with t := 0 }
      else none
  match corner with
  | some c => some c
  | none =>
    if gxCmpB (d.vacc.getD 0 .lt) eps v.s ∧ gxCmpB (d.vacc.getD 1 .lt) v.s (1 - eps)
        ∧ gxCmpB (d.vacc.getD 2 .lt) eps v.t ∧ gxCmpB (d.vacc.getD 3 .lt) v.t (1 - eps) then some v
    else if gxCmpB (d.hacc.getD 0 .le) eps h.s ∧ gxCmpB (d.hacc.getD 1 .lt) h.s (1 - eps)
        ∧ gxCmpB (d.hacc.getD 2 .lt) eps h.t ∧ gxCmpB (d.hacc.getD 3 .lt) h.t (1 - eps) then some h
    else none

/-- a straight arm: the range, the side chosen by `is_positive()`, the reversal -/
def gxStraightList (g : GGrid) (va vb : Pt) (a : GxStraight) (alongX : Bool) (d ib jb : Int) : List Cross :=
  let sd := if 0 < d then a.pos else a.neg
  let base := if alongX then ib else jb
  let l := (irange (gxLo a.range base d) (gxHi a.range base d)).map
    (fun z => if alongX then gxSide g va vb sd z jb else gxSide g va vb sd ib z)
  if 0 < d then l else l.reverse

/-- the translated step for one segment -/
def gxCrossings (g : GGrid) (eps : Rat) (va vb : Pt) : List Cross :=
  let c1 := gxCellOf g va 0
  let c2 := gxCellOf g vb 2
  let i : Int := (c2.1 : Int) - (c1.1 : Int)
  let j : Int := (c2.2 : Int) - (c1.2 : Int)
  let dist := i.natAbs + j.natAbs
  let ib : Int := c1.1
  let jb : Int := c1.2
  match dist with
  | 0 => []
  | 1 =>
      match gxUnit.find? (fun a => decide (a.di = i ∧ a.dj = j)) with
      | some a => [gxSide g va vb a.side ib jb]
      | none => []
  | _ =>
      if j = 0 then gxStraightList g va vb gxRow true i ib jb
      else if i = 0 then gxStraightList g va vb gxCol false j ib jb
      else
        let xs := irange (gxLo gxDiag.xr ib i) (gxHi gxDiag.xr ib i + 1)
        let ys := irange (gxLo gxDiag.yr jb j) (gxHi gxDiag.yr jb j + 1)
        let cand := xs.flatMap (fun x => ys.filterMap (fun y =>
          gxDiagPick gxDiag eps i j
            (gxSide g va vb (if 0 < i then gxDiag.vpos else gxDiag.vneg) x y)
            (gxSide g va vb (if 0 < j then gxDiag.hpos else gxDiag.hneg) x y)))
        (sortByS (cand.filter (fun c =>
          gxCmpB (gxDiag.retain.getD 0 .lt) 0 c.s && gxCmpB (gxDiag.retain.getD 1 .lt) c.s 1))).take dist

/-! ## the macros -/

theorem C16_gen_cross_macro_names : gxMacros.map (·.name) = ["left_intersec", "right_intersec", "down_intersec", "up_intersec"] := by
  decide

theorem C16_gen_cross_left (va vb vd : Pt) (c : Rat) : gxRun (gxMac 0) va vb vd c = leftI va vb vd c := rfl
theorem C16_gen_cross_right (va vb vd : Pt) (c : Rat) : gxRun (gxMac 1) va vb vd c = rightI va vb vd c := rfl
theorem C16_gen_cross_down (va vb vd : Pt) (c : Rat) : gxRun (gxMac 2) va vb vd c = downI va vb vd c := rfl
theorem C16_gen_cross_up (va vb vd : Pt) (c : Rat) : gxRun (gxMac 3) va vb vd c = upI va vb vd c := rfl

/-! ## the arms -/

/-- completeness: the neighbour case has exactly the four unit patterns, the far case the three arms of the template -/
theorem C16_gen_cross_arms_complete :
    gxUnit.map (fun a => (a.di, a.dj)) = [(-1, 0), (1, 0), (0, -1), (0, 1)] ∧ gxUnit.length = 4 := by
  decide

theorem C16_gen_cross_cell (g : GGrid) (p : Pt) : gxCellOf g p 0 = gridCellOf g p ∧ gxCellOf g p 2 = gridCellOf g p :=
  ⟨rfl, rfl⟩

theorem C16_gen_cross_row_pos (g : GGrid) (va vb : Pt) (x y : Int) : gxSide g va vb gxRow.pos x y = vCross g va vb true x y := rfl
theorem C16_gen_cross_row_neg (g : GGrid) (va vb : Pt) (x y : Int) : gxSide g va vb gxRow.neg x y = vCross g va vb false x y := rfl
theorem C16_gen_cross_col_pos (g : GGrid) (va vb : Pt) (x y : Int) : gxSide g va vb gxCol.pos x y = hCross g va vb true x y := rfl
theorem C16_gen_cross_col_neg (g : GGrid) (va vb : Pt) (x y : Int) : gxSide g va vb gxCol.neg x y = hCross g va vb false x y := rfl
theorem C16_gen_cross_diag_vpos (g : GGrid) (va vb : Pt) (x y : Int) : gxSide g va vb gxDiag.vpos x y = vCross g va vb true x y := rfl
theorem C16_gen_cross_diag_vneg (g : GGrid) (va vb : Pt) (x y : Int) : gxSide g va vb gxDiag.vneg x y = vCross g va vb false x y := rfl
theorem C16_gen_cross_diag_hpos (g : GGrid) (va vb : Pt) (x y : Int) : gxSide g va vb gxDiag.hpos x y = hCross g va vb true x y := rfl
theorem C16_gen_cross_diag_hneg (g : GGrid) (va vb : Pt) (x y : Int) : gxSide g va vb gxDiag.hneg x y = hCross g va vb false x y := rfl

/-- the four arms of the neighbour case, one by one -/
theorem C16_gen_cross_unit (g : GGrid) (va vb : Pt) (x y : Int) :
    gxUnit.map (fun a => gxSide g va vb a.side x y) =
      [vCross g va vb false x y, vCross g va vb true x y, hCross g va vb false x y, hCross g va vb true x y] := rfl

theorem gxSidePick_v (g : GGrid) (va vb : Pt) (p n : GxSide) (d : Int)
    (hp : ∀ x y, gxSide g va vb p x y = vCross g va vb true x y)
    (hn : ∀ x y, gxSide g va vb n x y = vCross g va vb false x y) (x y : Int) :
    gxSide g va vb (if 0 < d then p else n) x y = vCross g va vb (decide (0 < d)) x y := by
  by_cases h : 0 < d <;> simp [h, hp, hn]

theorem gxSidePick_h (g : GGrid) (va vb : Pt) (p n : GxSide) (d : Int)
    (hp : ∀ x y, gxSide g va vb p x y = hCross g va vb true x y)
    (hn : ∀ x y, gxSide g va vb n x y = hCross g va vb false x y) (x y : Int) :
    gxSide g va vb (if 0 < d then p else n) x y = hCross g va vb (decide (0 < d)) x y := by
  by_cases h : 0 < d <;> simp [h, hp, hn]

/-- the arm `(i, 0)`: range, macros, cell size, dart offsets, reversal -/
theorem C16_gen_cross_row (g : GGrid) (va vb : Pt) (i ib jb : Int) :
    gxStraightList g va vb gxRow true i ib jb = HC.C16.rowList g va vb i ib jb := by
  unfold gxStraightList HC.C16.rowList
  have hs := gxSidePick_v g va vb gxRow.pos gxRow.neg i (C16_gen_cross_row_pos g va vb) (C16_gen_cross_row_neg g va vb)
  have hlo : gxLo gxRow.range ib i = min ib (ib + 1 + i) := by
    simp only [gxLo, gxLinV, gxRow]; congr 1 <;> omega
  have hhi : gxHi gxRow.range ib i = max (ib + i) (ib + 1) := by
    simp only [gxHi, gxLinV, gxRow]; congr 1 <;> omega
  simp only [if_true, hs, hlo, hhi]

/-- the arm `(0, j)` -/
theorem C16_gen_cross_col (g : GGrid) (va vb : Pt) (j ib jb : Int) :
    gxStraightList g va vb gxCol false j ib jb = HC.C16.colList g va vb j ib jb := by
  unfold gxStraightList HC.C16.colList
  have hs := gxSidePick_h g va vb gxCol.pos gxCol.neg j (C16_gen_cross_col_pos g va vb) (C16_gen_cross_col_neg g va vb)
  have hlo : gxLo gxCol.range jb j = min jb (jb + 1 + j) := by
    simp only [gxLo, gxLinV, gxCol]; congr 1 <;> omega
  have hhi : gxHi gxCol.range jb j = max (jb + j) (jb + 1) := by
    simp only [gxHi, gxLinV, gxCol]; congr 1 <;> omega
  simp only [Bool.false_eq_true, if_false, hs, hlo, hhi]

/-- the acceptance tests of the diagonal arm, with their strictness -/
theorem C16_gen_cross_diag_pick (eps : Rat) (i j : Int) (v h : Cross) :
    gxDiagPick gxDiag eps i j v h = diagPick eps i j v h := by
  unfold gxDiagPick diagPick
  simp only [gxDiag, gxCmpB, List.getD_cons_zero, List.getD_cons_succ, decide_eq_true_eq]
  generalize (if decide (0 < i) = decide (0 < j) then _ else _ : Option Cross) = cr
  cases cr <;> rfl

/-- the whole step for one segment: the translated case analysis IS the model's `crossingsOf` -/
theorem C16_gen_cross_step (g : GGrid) (eps : Rat) (va vb : Pt) : gxCrossings g eps va vb = crossingsOf g eps va vb := by
  unfold gxCrossings crossingsOf
  simp only [(C16_gen_cross_cell g _).1, (C16_gen_cross_cell g _).2]
  generalize ((gridCellOf g vb).1 : Int) - ((gridCellOf g va).1 : Int) = i
  generalize ((gridCellOf g vb).2 : Int) - ((gridCellOf g va).2 : Int) = j
  generalize ((gridCellOf g va).1 : Int) = ib
  generalize ((gridCellOf g va).2 : Int) = jb
  generalize hd : i.natAbs + j.natAbs = dist
  match dist, hd with
  | 0, _ => rfl
  | 1, hd =>
    have h4 : (i = -1 ∧ j = 0) ∨ (i = 1 ∧ j = 0) ∨ (i = 0 ∧ j = -1) ∨ (i = 0 ∧ j = 1) := by omega
    rcases h4 with ⟨rfl, rfl⟩ | ⟨rfl, rfl⟩ | ⟨rfl, rfl⟩ | ⟨rfl, rfl⟩ <;> rfl
  | n + 2, hd =>
    have hv := gxSidePick_v g va vb gxDiag.vpos gxDiag.vneg i (C16_gen_cross_diag_vpos g va vb) (C16_gen_cross_diag_vneg g va vb)
    have hh := gxSidePick_h g va vb gxDiag.hpos gxDiag.hneg j (C16_gen_cross_diag_hpos g va vb) (C16_gen_cross_diag_hneg g va vb)
    have hxl : gxLo gxDiag.xr ib i = min ib (ib + i) := by
      simp only [gxLo, gxLinV, gxDiag]; congr 1 <;> omega
    have hxh : gxHi gxDiag.xr ib i = max (ib + i) ib := by
      simp only [gxHi, gxLinV, gxDiag]; congr 1 <;> omega
    have hyl : gxLo gxDiag.yr jb j = min jb (jb + j) := by
      simp only [gxLo, gxLinV, gxDiag]; congr 1 <;> omega
    have hyh : gxHi gxDiag.yr jb j = max (jb + j) jb := by
      simp only [gxHi, gxLinV, gxDiag]; congr 1 <;> omega
    have hr : ∀ c : Cross, (gxCmpB (gxDiag.retain.getD 0 .lt) 0 c.s && gxCmpB (gxDiag.retain.getD 1 .lt) c.s 1)
        = decide (0 ≤ c.s ∧ c.s ≤ 1) := by
      intro c; simp [gxDiag, gxCmpB]
    simp only [C16_gen_cross_row, C16_gen_cross_col, HC.C16.rowList, HC.C16.colList, C16_gen_cross_diag_pick,
      hv, hh, hxl, hxh, hyl, hyh, hr]

/-- `C16_crossings_sorted` of Props/C16Cross.lean, restated on the translated step -/
theorem C16_gen_cross_sorted {g : GGrid} {eps : Rat} {a b : Pt} (H : HC.C16.GenPos g eps a b) :
    (gxCrossings g eps a b).Pairwise (fun c d => c.s < d.s) := by
  rw [C16_gen_cross_step]; exact HC.C16.C16_crossings_sorted H

end HC.GenTie
