/-
  C14 — the multi-vertex insertion kernel `insert_vertices_on_edge` of
  `honeycomb-kernels/src/cell_insertion/vertices.rs`, TRANSLATED from the source on every run
  (`Gen/VertexInsertionN.lean`, written by tools/gen_lean.py, generator `vinsn`), interpreted in the model's transaction
  monad, is EQUAL as a program to the hand-written `insertVerticesOnEdge` of Model/Kernels/VertexInsertion.lean.

  The three `for` loops are translated as BODY lists (`Gen.chainFirstBody`, `Gen.chainSecondBody`,
  `Gen.placeVerticesBody`); each has a one-step theorem (`C14_gen_…_step`: one iteration of the translated body is one
  unfolding of the model's recursion) and a lift over the whole list by induction (`C14_gen_chainFirst`, …).
  `cmap.link::<I>` / `unlink::<I>` are resolved through the translated dispatch of Props/C14Gen.lean
  (`vinsLinkCall`, `vinsUnlinkCall`), `is_free_transac` is the translated `Gen.isFreeTransac`.
-/
import Honeycomb.Gen.VertexInsertionN
import Honeycomb.Props.C14Gen

namespace HC.GenTie
open HC HC.C14

/-! ## loop bodies -/

/-- operand of a generated instruction: `edge_id`, `prev_d`, the loop's dart variables, the null dart, bound variables -/
def vinsnArg (e prev x y : Nat) (env : List Nat) : Nat → Nat
  | 0 => e
  | 1 => prev
  | 2 => x
  | 3 => 0
  | 4 => y
  | k => env.getD (k - 20) 0

/-- `r + (s - u) * t` on vertices -/
def vinsnPlaceG (r s u : Val) (t : Rat) : Val :=
  P2.toVal ⟨r.p2.x + (s.p2.x - u.p2.x) * t, r.p2.y + (s.p2.y - u.p2.y) * t⟩

theorem vinsnPlaceG_eq (v1 v2 : Val) (t : Rat) : vinsnPlaceG v1 v2 v1 t = placeVal v1 v2 (some t) := rfl

/-- one iteration of a translated loop body; the result is the value of `prev_d` after the iteration -/
def vinsnBody (n e : Nat) (vals : List Val) (t : Rat) (x y : Nat) :
    Nat → List Nat → List (Nat × List Nat) → P Val Nat
  | prev, _, [] => pure prev
  | prev, env, (46, [0, i, a, b]) :: rest => do
      vinsLinkCall i (vinsnArg e prev x y env a) (vinsnArg e prev x y env b)
      vinsnBody n e vals t x y prev env rest
  | prev, env, (46, [1, i, a, _]) :: rest => do
      vinsUnlinkCall i (vinsnArg e prev x y env a)
      vinsnBody n e vals t x y prev env rest
  | prev, env, (48, [a]) :: rest => vinsnBody n e vals t x y (vinsnArg e prev x y env a) env rest
  | prev, env, (5, [a]) :: rest => do
      let v ← vertexId2 n (vinsnArg e prev x y env a)
      vinsnBody n e vals t x y prev (env ++ [v]) rest
  | prev, env, (49, [w, r, s, u]) :: rest => do
      let _ ← writeVtx (vinsnArg e prev x y env w) (vinsnPlaceG (vinsVal vals r) (vinsVal vals s) (vinsVal vals u) t)
      vinsnBody n e vals t x y prev env rest
  | _, _, _ => Prog.panic

/-- `for &new_d in L { body }` -/
def vinsnLoop1 (n e : Nat) (vals : List Val) (body : List (Nat × List Nat)) : Nat → List Nat → P Val Nat
  | prev, [] => pure prev
  | prev, x :: rest => do
      let p ← vinsnBody n e vals 0 x 0 prev [] body
      vinsnLoop1 n e vals body p rest

/-- `for (d, new_d) in L.iter().rev().zip(M.iter()) { body }` (over the zipped list) -/
def vinsnLoop2 (n e : Nat) (vals : List Val) (body : List (Nat × List Nat)) : Nat → List (Nat × Nat) → P Val Nat
  | prev, [] => pure prev
  | prev, (x, y) :: rest => do
      let p ← vinsnBody n e vals 0 x y prev [] body
      vinsnLoop2 n e vals body p rest

/-- `for (&t, &new_d) in midpoint_vertices.iter().zip(L.iter()) { body }` (over the zipped list); `prev_d` is in scope
    but a body that assigns it is not expected: the value is dropped -/
def vinsnLoop3 (n e : Nat) (vals : List Val) (body : List (Nat × List Nat)) (prev : Nat) : List (Rat × Nat) → P Val Unit
  | [] => pure ()
  | (t, x) :: rest => do
      let _ ← vinsnBody n e vals t x 0 prev [] body
      vinsnLoop3 n e vals body prev rest

/-- **one iteration of the first-side loop** is one unfolding of `chainFirst` -/
theorem C14_gen_chainFirst_step (n e : Nat) (vals : List Val) (prev nd : Nat) (rest : List Nat) :
    (vinsnBody n e vals 0 nd 0 prev [] Gen.chainFirstBody >>= fun p => chainFirst p rest) = chainFirst prev (nd :: rest) := by
  simp only [Gen.chainFirstBody, vinsnBody, vinsnArg, chainFirst, vinsLinkCall_one, Prog.bind_eq, Prog.pure_eq, Prog.bind_assoc,
    Prog.ret_bind]

/-- **the first-side loop** -/
theorem C14_gen_chainFirst (n e : Nat) (vals : List Val) (prev : Nat) (l : List Nat) :
    vinsnLoop1 n e vals Gen.chainFirstBody prev l = chainFirst prev l := by
  induction l generalizing prev with
  | nil => rfl
  | cons nd rest ih =>
      rw [← C14_gen_chainFirst_step n e vals prev nd rest]
      simp only [vinsnLoop1, ih]

/-- **one iteration of the second-side loop** is one unfolding of `chainSecond` -/
theorem C14_gen_chainSecond_step (n e : Nat) (vals : List Val) (prev d nd : Nat) (rest : List (Nat × Nat)) :
    (vinsnBody n e vals 0 d nd prev [] Gen.chainSecondBody >>= fun p => chainSecond p rest) = chainSecond prev ((d, nd) :: rest) := by
  simp only [Gen.chainSecondBody, vinsnBody, vinsnArg, chainSecond, vinsLinkCall_one, vinsLinkCall_two, Prog.bind_eq, Prog.pure_eq,
    Prog.bind_assoc, Prog.ret_bind]

/-- **the second-side loop** -/
theorem C14_gen_chainSecond (n e : Nat) (vals : List Val) (prev : Nat) (l : List (Nat × Nat)) :
    vinsnLoop2 n e vals Gen.chainSecondBody prev l = chainSecond prev l := by
  induction l generalizing prev with
  | nil => rfl
  | cons hd rest ih =>
      obtain ⟨d, nd⟩ := hd
      rw [← C14_gen_chainSecond_step n e vals prev d nd rest]
      simp only [vinsnLoop2, ih]

/-- **one iteration of the placement loop** is one unfolding of `placeVertices`: the point is written under
    `vertex_id_transac(new_d)`, not under the dart -/
theorem C14_gen_placeVertices_step (n e : Nat) (v1 v2 : Val) (prev : Nat) (t : Rat) (nd : Nat) (rest : List (Rat × Nat)) :
    (vinsnBody n e [v1, v2] t nd 0 prev [] Gen.placeVerticesBody >>= fun _ => placeVertices n v1 v2 rest)
      = placeVertices n v1 v2 ((t, nd) :: rest) := by
  simp only [Gen.placeVerticesBody, vinsnBody, vinsnArg, vinsVal, placeVertices, vinsnPlaceG_eq, List.getD, List.nil_append,
    List.getElem?_cons_zero, List.getElem?_cons_succ, Option.getD_some, Nat.reduceSub, Prog.bind_eq, Prog.pure_eq, Prog.bind_assoc,
    Prog.ret_bind]

/-- **the placement loop** -/
theorem C14_gen_placeVertices (n e : Nat) (v1 v2 : Val) (prev : Nat) (l : List (Rat × Nat)) :
    vinsnLoop3 n e [v1, v2] Gen.placeVerticesBody prev l = placeVertices n v1 v2 l := by
  induction l with
  | nil => rfl
  | cons hd rest ih =>
      obtain ⟨t, nd⟩ := hd
      rw [← C14_gen_placeVertices_step n e v1 v2 prev t nd rest]
      simp only [vinsnLoop3, ih]

/-! ## validation prefix -/

/-- `for d in new_darts { if !is_free_transac(cmap, trans, *d)? { … } }` with the TRANSLATED `is_free_transac`:
    is the abort reached? -/
def vinsnAnyNotFree {X : Type} : List Nat → P X Bool
  | [] => pure false
  | d :: ds => do
      let f ← vinsInterpFree d Gen.isFreeTransac
      if !f then pure true else vinsnAnyNotFree ds

theorem vinsnAnyNotFree_eq {X : Type} (l : List Nat) : vinsnAnyNotFree (X := X) l = anyNotFreeTx l := by
  induction l with
  | nil => rfl
  | cons d ds ih => simp only [vinsnAnyNotFree, anyNotFreeTx, C14_gen_isFreeTx, ih]

/-- `if a != NULL_DART_ID { a } else if b != NULL_DART_ID { b } else { abort(err)? }` -/
def vinsnSecondEndG (err : Err) (a b : Nat) : P Val Nat :=
  if a ≠ 0 then pure a else if b ≠ 0 then pure b else abort err

theorem vinsnSecondEndG_eq (a b : Nat) : vinsnSecondEndG errUndefinedEdge a b = secondEnd a b := rfl

def vinsnList (ls : List (List Nat)) (k : Nat) : List Nat := ls.getD k []

/-! ## the whole function -/

/-- the meaning of `Gen.insertVerticesOnEdge` (see the header of Gen/VertexInsertionN.lean); the fuel only makes the
    recursion structural.  `ls`: the slice variables (0 = `new_darts`), `prev`: the `let mut prev_d` in scope -/
def interpVinsN (n e : Nat) (nds : List Nat) (ts : List Rat) :
    Nat → List Nat → Nat → List Val → List (List Nat) → List (Nat × List Nat) → P Val Unit
  | 0, _, _, _, _, _ => Prog.panic
  | _ + 1, _, _, _, _, [] => pure ()
  | f + 1, env, prev, vals, ls, (60, [c1, c2]) :: rest =>
      if nds.length ≠ c1 * ts.length then abort (errWrongAmountDarts (c2 * ts.length) nds.length) else
      interpVinsN n e nds ts f env prev vals ls rest
  | f + 1, env, prev, vals, ls, (61, [k]) :: rest => do
      let notFree ← vinsnAnyNotFree nds
      if notFree then abort (errInvalidDarts (Gen.vinsnMsgs.getD k "")) else
      interpVinsN n e nds ts f env prev vals ls rest
  | f + 1, env, prev, vals, ls, (62, [0]) :: rest =>
      interpVinsN n e nds ts f env prev vals (ls ++ [nds.take ts.length]) rest
  | f + 1, env, prev, vals, ls, (62, [1]) :: rest =>
      interpVinsN n e nds ts f env prev vals (ls ++ [nds.drop ts.length]) rest
  | f + 1, env, prev, vals, ls, (1, [i, a]) :: rest => do
      let v ← rB i (vinsnArg e prev 0 0 env a)
      interpVinsN n e nds ts f (env ++ [v]) prev vals ls rest
  | f + 1, env, prev, vals, ls, (63, [l, k]) :: rest =>
      if (vinsnList ls l).any (· = 0) then abort (errInvalidDarts (Gen.vinsnMsgs.getD k "")) else
      interpVinsN n e nds ts f env prev vals ls rest
  | f + 1, env, prev, vals, ls, (64, [g, l, k]) :: rest =>
      if vinsnArg e prev 0 0 env g ≠ 0 && (vinsnList ls l).any (· = 0) then abort (errInvalidDarts (Gen.vinsnMsgs.getD k "")) else
      interpVinsN n e nds ts f env prev vals ls rest
  | f + 1, env, prev, vals, ls, (65, [k]) :: rest =>
      if ts.any outOfUnit then abort (vinsErr k) else interpVinsN n e nds ts f env prev vals ls rest
  | f + 1, env, prev, vals, ls, (5, [a]) :: rest => do
      let v ← vertexId2 n (vinsnArg e prev 0 0 env a)
      interpVinsN n e nds ts f (env ++ [v]) prev vals ls rest
  | f + 1, env, prev, vals, ls, (66, [a, b, k]) :: rest => do
      let v ← vinsnSecondEndG (vinsErr k) (vinsnArg e prev 0 0 env a) (vinsnArg e prev 0 0 env b)
      interpVinsN n e nds ts f (env ++ [v]) prev vals ls rest
  | f + 1, env, prev, vals, ls, (44, [a, b, k]) :: rest => do
      let x ← rA 0 (vinsnArg e prev 0 0 env a)
      let y ← rA 0 (vinsnArg e prev 0 0 env b)
      vinsWithEndsG (vinsErr k) x y fun v w => interpVinsN n e nds ts f env prev (vals ++ [v, w]) ls rest
  | f + 1, env, prev, vals, ls, (45, [a, k]) :: rest => do
      whenP (decide (vinsnArg e prev 0 0 env a ≠ 0)) (interpVinsN n e nds ts f env prev vals ls (rest.take k))
      interpVinsN n e nds ts f env prev vals ls (rest.drop k)
  | f + 1, env, prev, vals, ls, (46, [0, i, a, b]) :: rest => do
      vinsLinkCall i (vinsnArg e prev 0 0 env a) (vinsnArg e prev 0 0 env b)
      interpVinsN n e nds ts f env prev vals ls rest
  | f + 1, env, prev, vals, ls, (46, [1, i, a, _]) :: rest => do
      vinsUnlinkCall i (vinsnArg e prev 0 0 env a)
      interpVinsN n e nds ts f env prev vals ls rest
  | f + 1, env, prev, vals, ls, (50, [a]) :: rest =>
      interpVinsN n e nds ts f env (vinsnArg e prev 0 0 env a) vals ls rest
  | f + 1, env, prev, vals, ls, (51, [l]) :: rest => do
      let p ← vinsnLoop1 n e vals Gen.chainFirstBody prev (vinsnList ls l)
      interpVinsN n e nds ts f env p vals ls rest
  | f + 1, env, prev, vals, ls, (52, [l, m]) :: rest => do
      let p ← vinsnLoop2 n e vals Gen.chainSecondBody prev ((vinsnList ls l).reverse.zip (vinsnList ls m))
      interpVinsN n e nds ts f env p vals ls rest
  | f + 1, env, prev, vals, ls, (53, [l]) :: rest => do
      vinsnLoop3 n e vals Gen.placeVerticesBody prev (ts.zip (vinsnList ls l))
      interpVinsN n e nds ts f env prev vals ls rest
  | _, _, _, _, _, _ => Prog.panic

/-- **tie of `insert_vertices_on_edge`** (validation prefix, reads, editing part with its three loops) -/
theorem C14_gen_insertVerticesOnEdge (n e : Nat) (nds : List Nat) (ts : List Rat) :
    interpVinsN n e nds ts 64 [] 0 [] [nds] Gen.insertVerticesOnEdge = insertVerticesOnEdge n e nds ts := by
  simp only [Gen.insertVerticesOnEdge, Gen.vinsnMsgs, interpVinsN, vinsnArg, vinsnList, vinsErr, insertVerticesOnEdge,
    insertVerticesBody, insertVerticesSide2, vinsnAnyNotFree_eq, vinsnSecondEndG_eq, vinsWithEndsG_eq, C14_gen_chainFirst,
    C14_gen_chainSecond, C14_gen_placeVertices, vinsLinkCall_one, vinsLinkCall_two,
    vinsUnlinkCall_one, vinsUnlinkCall_two, List.drop, List.take, List.getD, List.nil_append, List.cons_append,
    List.getElem?_cons_zero, List.getElem?_cons_succ, Option.getD_some, Nat.reduceSub, Prog.bind_eq, Prog.pure_eq,
    vins_bind_unit]

/-- **C14 (a) stated on the translated code**: a successful run of the translated `insert_vertices_on_edge` keeps a
    well-formed 2-map well formed (hypotheses as in `C14_insertVertices_preserves_WF`) -/
theorem C14_gen_insertVertices_preserves_WF (m m' : Map Val) (e : Nat) (nds : List Nat) (ts : List Rat)
    (hwf : WF 3 m) (he : C01.InUse m e)
    (hlive : ∀ d ∈ nds, m.unused d = false)
    (hnodup : m.β 2 e ≠ 0 → nds.Nodup)
    (h : run (interpVinsN m.n e nds ts 64 [] 0 [] [nds] Gen.insertVerticesOnEdge) m = (.ok (), m')) : WF 3 m' := by
  rw [C14_gen_insertVerticesOnEdge] at h
  exact C14_insertVertices_preserves_WF m m' e nds ts hwf he hlive hnodup h

/-- **the amount check stated on the translated code**: a wrong number of spare darts is refused with
    `WrongAmountDarts(2 * n_t, n_d)` before anything is read or written -/
theorem C14_gen_wrong_count (n : Nat) (m : Map Val) (e : Nat) (nds : List Nat) (ts : List Rat)
    (h : nds.length ≠ 2 * ts.length) :
    run (interpVinsN n e nds ts 64 [] 0 [] [nds] Gen.insertVerticesOnEdge) m
      = (.err (errWrongAmountDarts (2 * ts.length) nds.length), m) := by
  rw [C14_gen_insertVerticesOnEdge]
  exact C14_wrong_count n m e nds ts h

/-- a list the interpreter does not understand is a panic, not a silent success -/
example (n e : Nat) (nds : List Nat) (ts : List Rat) : interpVinsN n e nds ts 4 [] 0 [] [nds] [(60, [])] = Prog.panic := rfl

end HC.GenTie
