/-
  C20, third part — "every stored normal is a finite unit vector", in the rounding model.

  The viewer (honeycomb-render/src/import_map.rs, 2-D and 3-D systems) stores `w.normalize()` for vectors `w`
  built from the corner sides; glam's `Vec3::normalize` (scalar `f32` path) is
      d = (x*x + y*y) + z*z        -- `dot(self, self)`, three products and two sums, each rounded
      s = sqrt(d)                  -- `length()`
      r = 1.0 / s                  -- `length_recip()`
      (x*r, y*r, z*r)              -- `self * r`
  `normalizeFl fl sq` is this computation in the arithmetic "`fl` after every operation" of Props/C19.lean.

  ASSUMPTIONS, stated exactly:
  * `RoundModel fl u`: every `+ * /` returns `fl` of the exact result, `|fl t − t| ≤ u·|t|`, `u < 1`.  PROVED to hold
    for idealised binary32 (`rnd 24`, `u = 2⁻²⁴`, unbounded exponent — `C19b_roundModel_f32`); the identification
    with the hardware is validated by the C19 `flop` stream; overflow / underflow are excluded (for squares of
    binary32 numbers that means `2⁻⁶³ ≤ |x| ≤ 2⁶²` or zero, cf. Props/C19c.lean) — "moderate magnitude".
  * `SqrtModel sq u`: for `d > 0`, `sq d > 0` and `d(1−u)² ≤ (sq d)² ≤ d(1+u)²`, i.e. `|sq d − √d| ≤ u·√d`, stated
    without a real square root.  IEEE-754 `sqrt` is correctly rounded (`sq d = fl(√d)`), which implies it; this
    is an ASSUMPTION here, not proved (no sqrt in the model).

  THEOREMS
  * `C20c_normalize_unit`      for every nonzero input and `u ≤ 1/64`: `1 − 10u ≤ ‖n‖² ≤ 1 + 10u` for the
                                 computed `n` (exact sum of the squares of the computed components);
  * `C20c_norm_within`         hence `|‖n‖ − 1| ≤ 10u` for the (real) norm;
  * `C20c_normalize_unit_f32`  binary32: `|‖n‖² − 1| ≤ 10·2⁻²⁴ < 10⁻⁶` — two orders below the oracle's `10⁻⁴`;
  * `C20c_normal_nonzero_iff_not_straight`, `C20c_corner_normal_unit`
                                 link to the exact normals of the model (Props/C20b): the plane normal
                                 `vec_in × vec_out` is nonzero iff the corner is not straight (D20a is exactly the
                                 excluded case), and then its normalisation is a unit vector up to `10u`;
  * `C20c_final_normal_unit_partial`  the vector finally stored, `(a·n₁ + b·n₂).normalize()`: unit up to `10u`
                                 PROVIDED the computed sum handed to `normalize` is not the zero vector
                                 (PARTIAL: exact nonzero-ness is `C20_3d_normal_nonzero`; that the rounded sum
                                 of a nearly-spiked corner does not cancel to zero is not proved).
  NOT PROVED: correct rounding of the hardware `sqrt`; glam's SIMD paths (`Vec3A`; the viewer uses `Vec3`);
  finiteness is the absence of overflow — excluded, not modelled.
-/
import Honeycomb.Props.C19b
import Honeycomb.Props.C20b

namespace HC.C20
open HC.C19 HC.Geo HC.Rounding

section Normalize
variable {K : Type} [Field K] [LinearOrder K] [IsStrictOrderedRing K]

/-- what is assumed about the square-root routine: relative error `u`, stated on squares -/
structure SqrtModel (sq : K → K) (u : K) : Prop where
  pos : ∀ d, 0 < d → 0 < sq d
  bounds : ∀ d, 0 < d → d * (1 - u) ^ 2 ≤ sq d ^ 2 ∧ sq d ^ 2 ≤ d * (1 + u) ^ 2

/-- glam `Vec3::normalize` (scalar path), operation by operation -/
def normalizeFl (fl sq : K → K) (x y z : K) : K × K × K :=
  let d := fl (fl (fl (x * x) + fl (y * y)) + fl (z * z))
  let r := fl (1 / sq d)
  (fl (x * r), fl (y * r), fl (z * r))

/-- exact squared norm -/
def normSq3 (n : K × K × K) : K := n.1 * n.1 + n.2.1 * n.2.1 + n.2.2 * n.2.2

theorem sq_interval {u E : K} (_hu0 : 0 ≤ u) (hu1 : u < 1) (h : |E - 1| ≤ u) :
    (1 - u) ^ 2 ≤ E ^ 2 ∧ E ^ 2 ≤ (1 + u) ^ 2 := by
  obtain ⟨h1, h2⟩ := abs_le.mp h
  have a : 0 ≤ 1 - u := by linarith
  have b : 1 - u ≤ E := by linarith
  have c : E ≤ 1 + u := by linarith
  exact ⟨pow_le_pow_left₀ a b 2, pow_le_pow_left₀ (a.trans b) c 2⟩

theorem upper_poly {u : K} (h0 : 0 ≤ u) (h1 : u ≤ 1 / 64) :
    (1 + u) ^ 4 ≤ (1 + 10 * u) * (1 - (3 * u + 3 * u ^ 2 + u ^ 3)) * (1 - u) ^ 2 := by
  have e : (1 + 10 * u) * (1 - (3 * u + 3 * u ^ 2 + u ^ 3)) * (1 - u) ^ 2 - (1 + u) ^ 4
      = u * (1 - 52 * u) + u ^ 3 * (38 + 18 * u - 11 * u ^ 2 - 10 * u ^ 3) := by ring
  have a : 0 ≤ u * (1 - 52 * u) := mul_nonneg h0 (by linarith)
  have hu2 : u ^ 2 ≤ 1 := by nlinarith
  have hu3 : u ^ 3 ≤ 1 := by nlinarith
  have b : 0 ≤ u ^ 3 * (38 + 18 * u - 11 * u ^ 2 - 10 * u ^ 3) :=
    mul_nonneg (by positivity) (by nlinarith)
  linarith

theorem lower_poly {u : K} (h0 : 0 ≤ u) :
    (1 - 10 * u) * (1 + (3 * u + 3 * u ^ 2 + u ^ 3)) * (1 + u) ^ 2 ≤ (1 - u) ^ 4 := by
  have e : (1 - u) ^ 4 - (1 - 10 * u) * (1 + (3 * u + 3 * u ^ 2 + u ^ 3)) * (1 + u) ^ 2
      = 10 * u ^ 6 + 49 * u ^ 5 + 96 * u ^ 4 + 86 * u ^ 3 + 46 * u ^ 2 + u := by ring
  have : 0 ≤ 10 * u ^ 6 + 49 * u ^ 5 + 96 * u ^ 4 + 86 * u ^ 3 + 46 * u ^ 2 + u := by positivity
  linarith

/-- **the normalised vector is a unit vector up to `10u`** (squared norm) -/
theorem C20c_normalize_unit {fl sq : K → K} {u : K} (hfl : RoundModel fl u) (hsq : SqrtModel sq u)
    (hu : u ≤ 1 / 64) {x y z : K} (hne : (x, y, z) ≠ ((0, 0, 0) : K × K × K)) :
    1 - 10 * u ≤ normSq3 (normalizeFl fl sq x y z) ∧ normSq3 (normalizeFl fl sq x y z) ≤ 1 + 10 * u := by
  have hu0 := hfl.u_nonneg
  have hu1 := hfl.u_lt_one
  -- exact squared norm of the input
  set N2 : K := x * x + y * y + z * z with hN2
  have hN2pos : 0 < N2 := by
    have h1 := mul_self_nonneg x
    have h2 := mul_self_nonneg y
    have h3 := mul_self_nonneg z
    rcases lt_or_eq_of_le (add_nonneg (add_nonneg h1 h2) h3) with h | h
    · exact h
    · exfalso; apply hne
      have hx : x * x = 0 := by linarith
      have hy : y * y = 0 := by linarith
      have hz : z * z = 0 := by linarith
      rw [mul_self_eq_zero.mp hx, mul_self_eq_zero.mp hy, mul_self_eq_zero.mp hz]
  -- the computed squared length d
  set g3 : K := 3 * u + 3 * u ^ 2 + u ^ 3 with hg3
  have hg3lt : g3 < 1 := by
    have : u ^ 2 ≤ u := by nlinarith
    have : u ^ 3 ≤ u := by nlinarith
    linarith
  set d : K := fl (fl (fl (x * x) + fl (y * y)) + fl (z * z)) with hd
  have hdb := abs_le.mp (hfl.dot3_bound (x * x) (y * y) (z * z))
  rw [abs_of_nonneg (mul_self_nonneg x), abs_of_nonneg (mul_self_nonneg y), abs_of_nonneg (mul_self_nonneg z),
    ← hN2, ← hd, ← hg3] at hdb
  have hd_lo : N2 * (1 - g3) ≤ d := by linarith [hdb.1]
  have hd_hi : d ≤ N2 * (1 + g3) := by linarith [hdb.2]
  have hdpos : 0 < d := lt_of_lt_of_le (mul_pos hN2pos (by linarith)) hd_lo
  -- the square root, the reciprocal, the products
  set s : K := sq d with hs
  have hspos : 0 < s := hsq.pos d hdpos
  obtain ⟨hs_lo, hs_hi⟩ := hsq.bounds d hdpos
  obtain ⟨R, hR, eR⟩ := hfl.fl_rel (1 / s)
  obtain ⟨E1, hE1, e1⟩ := hfl.fl_rel (x * fl (1 / s))
  obtain ⟨E2, hE2, e2⟩ := hfl.fl_rel (y * fl (1 / s))
  obtain ⟨E3, hE3, e3⟩ := hfl.fl_rel (z * fl (1 / s))
  obtain ⟨R_lo, R_hi⟩ := sq_interval hu0 hu1 hR
  obtain ⟨a_lo, a_hi⟩ := sq_interval hu0 hu1 hE1
  obtain ⟨b_lo, b_hi⟩ := sq_interval hu0 hu1 hE2
  obtain ⟨c_lo, c_hi⟩ := sq_interval hu0 hu1 hE3
  -- Q · s² = R² · T with T the weighted sum of the E_i²
  set T : K := x * x * E1 ^ 2 + y * y * E2 ^ 2 + z * z * E3 ^ 2 with hT
  have hn1 : (normalizeFl fl sq x y z).1 = x * (1 / s * R) * E1 := by
    show fl (x * fl (1 / sq d)) = _
    rw [← hs, e1, eR]
  have hn2 : (normalizeFl fl sq x y z).2.1 = y * (1 / s * R) * E2 := by
    show fl (y * fl (1 / sq d)) = _
    rw [← hs, e2, eR]
  have hn3 : (normalizeFl fl sq x y z).2.2 = z * (1 / s * R) * E3 := by
    show fl (z * fl (1 / sq d)) = _
    rw [← hs, e3, eR]
  have hs0 : s ≠ 0 := hspos.ne'
  have hQ : normSq3 (normalizeFl fl sq x y z) * s ^ 2 = R ^ 2 * T := by
    unfold normSq3
    rw [hn1, hn2, hn3, hT]
    field_simp
  have hT_lo : N2 * (1 - u) ^ 2 ≤ T := by
    have := mul_le_mul_of_nonneg_left a_lo (mul_self_nonneg x)
    have := mul_le_mul_of_nonneg_left b_lo (mul_self_nonneg y)
    have := mul_le_mul_of_nonneg_left c_lo (mul_self_nonneg z)
    rw [hT, hN2]; linarith
  have hT_hi : T ≤ N2 * (1 + u) ^ 2 := by
    have := mul_le_mul_of_nonneg_left a_hi (mul_self_nonneg x)
    have := mul_le_mul_of_nonneg_left b_hi (mul_self_nonneg y)
    have := mul_le_mul_of_nonneg_left c_hi (mul_self_nonneg z)
    rw [hT, hN2]; linarith
  have hs2pos : 0 < s ^ 2 := by positivity
  have hTpos : 0 ≤ T := le_trans (by positivity) hT_lo
  have h1u : 0 ≤ (1 - u) ^ 2 := by positivity
  have h1u' : 0 ≤ (1 + u) ^ 2 := by positivity
  -- bounds of R²T and of s²
  have RT_hi : R ^ 2 * T ≤ N2 * (1 + u) ^ 4 := by
    calc R ^ 2 * T ≤ (1 + u) ^ 2 * (N2 * (1 + u) ^ 2) := mul_le_mul R_hi hT_hi hTpos h1u'
      _ = N2 * (1 + u) ^ 4 := by ring
  have RT_lo : N2 * (1 - u) ^ 4 ≤ R ^ 2 * T := by
    calc N2 * (1 - u) ^ 4 = (1 - u) ^ 2 * (N2 * (1 - u) ^ 2) := by ring
      _ ≤ R ^ 2 * T := mul_le_mul R_lo hT_lo (by positivity) (by positivity)
  have s2_lo : N2 * (1 - g3) * (1 - u) ^ 2 ≤ s ^ 2 :=
    (mul_le_mul_of_nonneg_right hd_lo h1u).trans hs_lo
  have s2_hi : s ^ 2 ≤ N2 * (1 + g3) * (1 + u) ^ 2 :=
    hs_hi.trans (mul_le_mul_of_nonneg_right hd_hi h1u')
  have up := upper_poly hu0 hu
  have lo := lower_poly (u := u) hu0
  rw [← hg3] at up lo
  constructor
  · -- (1 - 10u)·s² ≤ Q·s²
    by_cases h10 : 1 - 10 * u ≤ 0
    · exfalso; linarith
    · have h10' : 0 < 1 - 10 * u := not_le.mp h10
      have : (1 - 10 * u) * s ^ 2 ≤ normSq3 (normalizeFl fl sq x y z) * s ^ 2 := by
        rw [hQ]
        calc (1 - 10 * u) * s ^ 2 ≤ (1 - 10 * u) * (N2 * (1 + g3) * (1 + u) ^ 2) :=
              mul_le_mul_of_nonneg_left s2_hi h10'.le
          _ = N2 * ((1 - 10 * u) * (1 + g3) * (1 + u) ^ 2) := by ring
          _ ≤ N2 * (1 - u) ^ 4 := mul_le_mul_of_nonneg_left lo hN2pos.le
          _ ≤ R ^ 2 * T := RT_lo
      exact le_of_mul_le_mul_right this hs2pos
  · have : normSq3 (normalizeFl fl sq x y z) * s ^ 2 ≤ (1 + 10 * u) * s ^ 2 := by
      rw [hQ]
      calc R ^ 2 * T ≤ N2 * (1 + u) ^ 4 := RT_hi
        _ ≤ N2 * ((1 + 10 * u) * (1 - g3) * (1 - u) ^ 2) := mul_le_mul_of_nonneg_left up hN2pos.le
        _ = (1 + 10 * u) * (N2 * (1 - g3) * (1 - u) ^ 2) := by ring
        _ ≤ (1 + 10 * u) * s ^ 2 := mul_le_mul_of_nonneg_left s2_lo (by linarith)
    exact le_of_mul_le_mul_right this hs2pos

/-- from the squared norm to the norm: any `ν ≥ 0` with `ν² = ‖n‖²` is within `10u` of 1 -/
theorem C20c_norm_within {u Q ν : K} (hu0 : 0 ≤ u) (hQ : 1 - 10 * u ≤ Q ∧ Q ≤ 1 + 10 * u) (hν : 0 ≤ ν)
    (hνQ : ν ^ 2 = Q) : |ν - 1| ≤ 10 * u := by
  rw [abs_le]
  constructor
  · by_contra h
    have h' : ν < 1 - 10 * u := by linarith [not_le.mp h]
    have h1 : 0 ≤ 1 - 10 * u := hν.trans h'.le
    have : ν ^ 2 < (1 - 10 * u) ^ 2 := pow_lt_pow_left₀ h' hν (by norm_num)
    have : (1 - 10 * u) ^ 2 ≤ 1 - 10 * u := by nlinarith
    linarith [hQ.1]
  · by_contra h
    have h' : 1 + 10 * u < ν := by linarith [not_le.mp h]
    have : (1 + 10 * u) ^ 2 < ν ^ 2 := pow_lt_pow_left₀ h' (by linarith) (by norm_num)
    have : 1 + 10 * u ≤ (1 + 10 * u) ^ 2 := by nlinarith
    linarith [hQ.2]

end Normalize

/-! ## binary32 -/

/-- **binary32** (`rnd 24`, PROVED rounding model; `sq` any square root routine with relative error `2⁻²⁴`):
    the squared norm of every normalised nonzero vector is within `10·2⁻²⁴` of 1 -/
theorem C20c_normalize_unit_f32 {sq : ℚ → ℚ} (hsq : SqrtModel sq (uro 24)) {x y z : ℚ}
    (hne : (x, y, z) ≠ ((0, 0, 0) : ℚ × ℚ × ℚ)) :
    1 - 10 * uro 24 ≤ normSq3 (normalizeFl (rnd 24) sq x y z) ∧
      normSq3 (normalizeFl (rnd 24) sq x y z) ≤ 1 + 10 * uro 24 :=
  C20c_normalize_unit C19b_roundModel_f32 hsq (by
    have : uro 24 ≤ (2 : ℚ) ^ (-(6 : ℤ)) := two_zpow_le (by norm_num)
    have e : (2 : ℚ) ^ (-(6 : ℤ)) = 1 / 64 := by norm_num
    rw [e] at this; exact this) hne

/-- the bound is below `10⁻⁶`, two orders of magnitude under the tolerance `10⁻⁴` of the oracle -/
theorem C20c_bound_f32 : 10 * uro 24 < 1 / 10 ^ 6 := by
  have e : uro 24 = 1 / 16777216 := by unfold uro; norm_num
  rw [e]; norm_num

/-! ## link with the exact normals of the model (Props/C20b) -/

/-- the plane normal `vec_in × vec_out` of a corner with a non-degenerate incoming side is NOT zero iff the
    corner is not straight — finding D20a is exactly the excluded case -/
theorem C20c_normal_nonzero_iff_not_straight (u v : V3) (hu : u ≠ vzero) :
    cross3 u v ≠ vzero ↔ ¬ ∃ t : Rat, v = vsmul t u :=
  not_congr (C20_D20a_zero_normal_iff u v hu)

/-- **a non-straight corner gets a unit plane normal**: normalising the exact plane normal of the model in
    rounded arithmetic gives a vector whose squared norm is within `10u` of 1 -/
theorem C20c_corner_normal_unit {fl sq : ℚ → ℚ} {u₀ : ℚ} (hfl : RoundModel fl u₀) (hsq : SqrtModel sq u₀)
    (hu : u₀ ≤ 1 / 64) (u v : V3) (hu0 : u ≠ vzero) (hns : ¬ ∃ t : Rat, v = vsmul t u) :
    1 - 10 * u₀ ≤ normSq3 (normalizeFl fl sq (cross3 u v).1 (cross3 u v).2.1 (cross3 u v).2.2) ∧
      normSq3 (normalizeFl fl sq (cross3 u v).1 (cross3 u v).2.1 (cross3 u v).2.2) ≤ 1 + 10 * u₀ := by
  apply C20c_normalize_unit hfl hsq hu
  have := (C20c_normal_nonzero_iff_not_straight u v hu0).mpr hns
  intro h
  apply this
  simpa [vzero] using h

/-- PARTIAL — the vector finally stored is `(a·n₁ + b·n₂).normalize()`; it is a unit vector up to `10u` as soon
    as the COMPUTED sum `w` handed to `normalize` is not the zero vector.  (In exact arithmetic the sum is nonzero
    for every non-straight corner, `C20_3d_normal_nonzero`; that rounding cannot cancel it is not proved.) -/
theorem C20c_final_normal_unit_partial {fl sq : ℚ → ℚ} {u₀ : ℚ} (hfl : RoundModel fl u₀) (hsq : SqrtModel sq u₀)
    (hu : u₀ ≤ 1 / 64) (w : V3) (hw : w ≠ vzero) :
    1 - 10 * u₀ ≤ normSq3 (normalizeFl fl sq w.1 w.2.1 w.2.2) ∧
      normSq3 (normalizeFl fl sq w.1 w.2.1 w.2.2) ≤ 1 + 10 * u₀ := by
  apply C20c_normalize_unit hfl hsq hu
  intro h; apply hw; simpa [vzero] using h

/-! ## Non-vacuity -/
section Examples

/-- exact arithmetic with the real square root satisfies both structures with `u = 0` … -/
theorem sqrtModel_real : SqrtModel Real.sqrt (0 : ℝ) where
  pos := fun d hd => Real.sqrt_pos.mpr hd
  bounds := fun d hd => by
    have := Real.sq_sqrt hd.le
    constructor <;> simp [this]

/-- … and the theorem then says the normalised `(3, 4, 0)` has squared norm exactly 1 -/
example : normSq3 (normalizeFl (id : ℝ → ℝ) Real.sqrt 3 4 0) = 1 := by
  have := C20c_normalize_unit (K := ℝ) roundModel_id sqrtModel_real (by norm_num) (x := 3) (y := 4) (z := 0)
    (by simp)
  simp only [mul_zero, sub_zero, add_zero] at this
  exact le_antisymm this.2 this.1

/-- an INEXACT instance: every operation and the square root are 1/128 too large -/
theorem roundModel_128 : RoundModel (fun x : ℝ => x * (1 + 1 / 128)) (1 / 128) :=
  ⟨by norm_num, by norm_num, fun x => by
    have : x * (1 + 1 / 128) - x = 1 / 128 * x := by ring
    rw [this, abs_mul]; norm_num⟩

theorem sqrtModel_128 : SqrtModel (fun d : ℝ => Real.sqrt d * (1 + 1 / 128)) (1 / 128) where
  pos := fun d hd => mul_pos (Real.sqrt_pos.mpr hd) (by norm_num)
  bounds := fun d hd => by
    have h := Real.sq_sqrt hd.le
    have e : (Real.sqrt d * (1 + 1 / 128)) ^ 2 = d * (1 + 1 / 128) ^ 2 := by rw [mul_pow, h]
    rw [e]
    constructor
    · apply mul_le_mul_of_nonneg_left _ hd.le; norm_num
    · exact le_refl _

example : 1 - 10 * (1 / 128 : ℝ) ≤ normSq3 (normalizeFl (fun x : ℝ => x * (1 + 1 / 128))
      (fun d : ℝ => Real.sqrt d * (1 + 1 / 128)) 3 4 0) :=
  (C20c_normalize_unit roundModel_128 sqrtModel_128 (by norm_num) (x := 3) (y := 4) (z := 0) (by simp)).1

/-- the hypothesis of the binary32 theorem is satisfiable: for every `0 < u < 1` there IS a rational-valued
    square-root routine with relative error `u` (rationals are dense) -/
theorem exists_sqrtModel {u : ℚ} (hu0 : 0 < u) (hu1 : u < 1) : ∃ sq : ℚ → ℚ, SqrtModel sq u := by
  have ex : ∀ d : ℚ, 0 < d → ∃ q : ℚ, 0 < q ∧ d * (1 - u) ^ 2 ≤ q ^ 2 ∧ q ^ 2 ≤ d * (1 + u) ^ 2 := by
    intro d hd
    have hdR : (0 : ℝ) < (d : ℝ) := by exact_mod_cast hd
    have hr : 0 < Real.sqrt (d : ℝ) := Real.sqrt_pos.mpr hdR
    have hu0R : (0 : ℝ) < (u : ℝ) := by exact_mod_cast hu0
    have hu1R : (u : ℝ) < 1 := by exact_mod_cast hu1
    have hlt : Real.sqrt (d : ℝ) * (1 - (u : ℝ)) < Real.sqrt (d : ℝ) * (1 + (u : ℝ)) :=
      mul_lt_mul_of_pos_left (by linarith) hr
    obtain ⟨q, hq1, hq2⟩ := exists_rat_btwn hlt
    have hlo : 0 < Real.sqrt (d : ℝ) * (1 - (u : ℝ)) := mul_pos hr (by linarith)
    have hqpos : (0 : ℝ) < (q : ℝ) := hlo.trans hq1
    have hsq := Real.sq_sqrt hdR.le
    have h1 : (d : ℝ) * (1 - (u : ℝ)) ^ 2 ≤ (q : ℝ) ^ 2 := by
      have := pow_le_pow_left₀ hlo.le hq1.le 2
      rwa [mul_pow, hsq] at this
    have h2 : (q : ℝ) ^ 2 ≤ (d : ℝ) * (1 + (u : ℝ)) ^ 2 := by
      have := pow_le_pow_left₀ hqpos.le hq2.le 2
      rwa [mul_pow, hsq] at this
    exact ⟨q, by exact_mod_cast hqpos, by exact_mod_cast h1, by exact_mod_cast h2⟩
  classical
  refine ⟨fun d => if h : 0 < d then Classical.choose (ex d h) else 0, ⟨?_, ?_⟩⟩
  · intro d hd
    simp only [hd, dif_pos]
    exact (Classical.choose_spec (ex d hd)).1
  · intro d hd
    simp only [hd, dif_pos]
    exact (Classical.choose_spec (ex d hd)).2

/-- … so the binary32 theorem is not vacuous -/
example : ∃ sq : ℚ → ℚ, 1 - 10 * uro 24 ≤ normSq3 (normalizeFl (rnd 24) sq 3 4 0) ∧
    normSq3 (normalizeFl (rnd 24) sq 3 4 0) ≤ 1 + 10 * uro 24 := by
  obtain ⟨sq, hsq⟩ := exists_sqrtModel (u := uro 24) (two_zpow_pos _) (by
    have : uro 24 < (2 : ℚ) ^ (0 : ℤ) := two_zpow_lt_iff.mpr (by norm_num)
    simpa using this)
  exact ⟨sq, C20c_normalize_unit_f32 hsq (by simp)⟩

example : 10 * uro 24 < 1 / 10 ^ 6 := C20c_bound_f32
/-- a right corner is not straight: its plane normal is not zero … -/
example : cross3 (1, 0, 0) (0, 1, 0) ≠ vzero :=
  (C20c_normal_nonzero_iff_not_straight _ _ (by simp [vzero])).mpr (by
    rintro ⟨t, ht⟩
    simp [vsmul] at ht)
/-- … and its normalisation is a unit vector up to `10u` (here with the exact instance over ℚ impossible — use
    the existence of a square-root routine) -/
example : ∃ sq : ℚ → ℚ,
    normSq3 (normalizeFl (rnd 24) sq (cross3 (1, 0, 0) (0, 1, 0)).1 (cross3 (1, 0, 0) (0, 1, 0)).2.1
      (cross3 (1, 0, 0) (0, 1, 0)).2.2) ≤ 1 + 10 * uro 24 := by
  obtain ⟨sq, hsq⟩ := exists_sqrtModel (u := uro 24) (two_zpow_pos _) (by
    have : uro 24 < (2 : ℚ) ^ (0 : ℤ) := two_zpow_lt_iff.mpr (by norm_num)
    simpa using this)
  refine ⟨sq, (C20c_corner_normal_unit C19b_roundModel_f32 hsq ?_ (1, 0, 0) (0, 1, 0) (by simp [vzero]) ?_).2⟩
  · have : uro 24 ≤ (2 : ℚ) ^ (-(6 : ℤ)) := two_zpow_le (by norm_num)
    have e : (2 : ℚ) ^ (-(6 : ℤ)) = 1 / 64 := by norm_num
    rw [e] at this; exact this
  · rintro ⟨t, ht⟩
    simp [vsmul] at ht
example (w : V3) (hw : w ≠ vzero) {sq : ℚ → ℚ} (hsq : SqrtModel sq (uro 24)) :=
  C20c_final_normal_unit_partial C19b_roundModel_f32 hsq (by
    have : uro 24 ≤ (2 : ℚ) ^ (-(6 : ℤ)) := two_zpow_le (by norm_num)
    have e : (2 : ℚ) ^ (-(6 : ℤ)) = 1 / 64 := by norm_num
    rw [e] at this; exact this) w hw
example : |(1 : ℚ) - 1| ≤ 10 * (1 / 64) :=
  C20c_norm_within (u := 1 / 64) (Q := 1) (ν := 1) (by norm_num) (by norm_num) (by norm_num) (by norm_num)
example : (1 - 1 / 64 : ℚ) ^ 2 ≤ (1 : ℚ) ^ 2 ∧ (1 : ℚ) ^ 2 ≤ (1 + 1 / 64) ^ 2 :=
  sq_interval (u := 1 / 64) (E := 1) (by norm_num) (by norm_num) (by norm_num)
example := upper_poly (K := ℚ) (u := 1 / 64) (by norm_num) (by norm_num)
example := lower_poly (K := ℚ) (u := 1 / 64) (by norm_num)

end Examples

end HC.C20
