/-
  C05 at cell level on OPEN faces: 3-sew and 3-unsew.

  On an open face `three_link` / `three_unlink` walk β1 forward from `ld` (β0 from `rd`) until the
  null dart, then β0 backward from `β0 ld` (β1 from `β1 rd`) until the null dart; both sides must
  end at the same step (`OpenPair`).  The pairs they link / unlink are exactly
  `openPairs m ld rd F B` (`threeLink3_linked_open`, `threeUnlink3_unlinked_open`).
-/
import Honeycomb.Props.C05Succ

set_option linter.unusedSimpArgs false
set_option linter.unusedVariables false

namespace HC.C05
open HC HC.CellCalc HC.Cell3
open HC.C04 (vStores eStores)
variable {X : Type}

/-! ## the exact pairs of a 3-link of two open faces -/

/-- two open faces of the same shape: `F` darts from `ld` on along β1 (from `rd` along β0), `B` darts
    behind `ld` along β0 (behind `rd` along β1) -/
structure OpenPair (m : Map X) (ld rd F B : Nat) : Prop where
  fpos : 0 < F
  endF : it m 1 F ld = 0
  endG : it m 0 F rd = 0
  endA : it m 0 B (m.β 0 ld) = 0
  endB : it m 1 B (m.β 1 rd) = 0
  nzF : ∀ t, t < F → it m 1 t ld ≠ 0 ∧ it m 0 t rd ≠ 0
  nzB : ∀ s, s < B → it m 0 s (m.β 0 ld) ≠ 0 ∧ it m 1 s (m.β 1 rd) ≠ 0

/-- the pairs `(β1^t ld, β0^t rd)`, `t < F`, then `(β0^(s+1) ld, β1^(s+1) rd)`, `s < B` -/
def openPairs (m : Map X) (ld rd F B : Nat) : List (Nat × Nat) :=
  walkPairs m 1 0 F ld rd ++ walkPairs m 0 1 B (m.β 0 ld) (m.β 1 rd)

/-- **`three_link` on an open left face**: both faces are open with the same shape and exactly the
    pairs of `openPairs` get 3-linked -/
theorem threeLink3_linked_open {n ld rd : Nat} {m m' : Map X} {u : Unit} (hw : WF 4 m)
    (hl0 : ld ≠ 0) (hr0 : rd ≠ 0) (hopen : ∃ t, it m 1 t ld = 0)
    (h : run (threeLink3 (X := X) n ld rd) m = (.ok u, m')) :
    ∃ F B, OpenPair m ld rd F B ∧ Linked3 m m' (openPairs m ld rd F B) := by
  have hs := hw.toSized
  unfold threeLink3 at h
  obtain ⟨_, m0, hl, h⟩ := run_bind_ok h
  obtain ⟨ok1, ok2, f1, f2, rfl⟩ := iLinkCore_ok hl
  have em : (m.setβ 3 ld rd).setβ 3 rd ld = m.linkI 3 ld rd := rfl
  rw [em] at h
  obtain ⟨ls0, hb, h⟩ := run_ro_bind_ok (ReadOnly.rB _ _) h
  obtain ⟨rfl, _, _⟩ := run_rB_ok hb
  obtain ⟨rs0, hb', h⟩ := run_ro_bind_ok (ReadOnly.rB _ _) h
  obtain ⟨rfl, _, _⟩ := run_rB_ok hb'
  obtain ⟨⟨a, b⟩, m1, hwalk, h⟩ := run_bind_ok h
  simp only [] at h
  have hln : ld < m.n := ((hs.okβ 3 ld).1 ok1).2
  have hrn : rd < m.n := ((hs.okβ 3 rd).1 ok2).2
  have L0 := Linked3.single hs hl0 hr0 hln hrn f1 f2
  have hs0 : Sized 4 (m.linkI 3 ld rd) := (hs.setβ _ _ _).setβ _ _ _
  obtain ⟨k, L1, ha, hb2, hst, hne, hs1⟩ := linkWalk_linked (by omega) (by omega) _ _ _ _ m1 a b hs0 hwalk
  have hβ1 : ∀ x, (m.linkI 3 ld rd).β 1 x = m.β 1 x := fun x => L0.other 1 x (by omega)
  have hβ0 : ∀ x, (m.linkI 3 ld rd).β 0 x = m.β 0 x := fun x => L0.other 0 x (by omega)
  rw [walkPairs_congr hβ1 hβ0, hβ1, hβ0] at L1
  rw [it_congr hβ1, hβ1] at ha
  rw [it_congr hβ0, hβ0] at hb2
  have ha' : a = it m 1 (k + 1) ld := ha
  have hb' : b = it m 0 (k + 1) rd := hb2
  have LF : Linked3 m m1 (walkPairs m 1 0 (k + 1) ld rd) := L0.append L1
  by_cases ha0 : a = 0
  · rw [if_pos ha0] at h
    by_cases hb0 : b ≠ 0
    · rw [if_pos hb0] at h; simp at h
    · rw [if_neg hb0] at h
      have hb0' : b = 0 := by omega
      obtain ⟨ls1, hc, h⟩ := run_ro_bind_ok (ReadOnly.rB _ _) h
      obtain ⟨rfl, _, _⟩ := run_rB_ok hc
      obtain ⟨rs1, hc', h⟩ := run_ro_bind_ok (ReadOnly.rB _ _) h
      obtain ⟨rfl, _, _⟩ := run_rB_ok hc'
      obtain ⟨⟨a2, b2⟩, m2, hwalk2, h⟩ := run_bind_ok h
      simp only [] at h
      by_cases hb2' : b2 ≠ 0
      · rw [if_pos hb2'] at h; simp at h
      · rw [if_neg hb2'] at h
        obtain ⟨_, hm'⟩ := run_pure_ok h
        rw [hm']
        have hb20 : b2 = 0 := by omega
        obtain ⟨k', L2, ha2, hb22, hst2, _, _⟩ := linkWalk_linked (by omega) (by omega) _ _ _ _ m2 a2 b2 hs1 hwalk2
        have gβ1 : ∀ x, m1.β 1 x = m.β 1 x := fun x => LF.other 1 x (by omega)
        have gβ0 : ∀ x, m1.β 0 x = m.β 0 x := fun x => LF.other 0 x (by omega)
        rw [walkPairs_congr gβ0 gβ1, gβ0, gβ1] at L2
        rw [it_congr gβ0, gβ0] at ha2
        rw [it_congr gβ1, gβ1] at hb22
        have ha20 : a2 = 0 := by rcases hst2 with hh | hh <;> exact hh
        have LA := LF.append L2
        refine ⟨k + 1, k', ⟨by omega, by rw [← ha']; exact ha0, by rw [← hb']; exact hb0',
          by rw [← ha2]; exact ha20, by rw [← hb22]; exact hb20, ?_, ?_⟩, LA⟩
        · intro t ht
          obtain ⟨_, _, _, _, a5, a6, _, _⟩ := LF.pairs _ ((mem_walkPairs _ ld rd _).2 ⟨t, ht, rfl⟩)
          exact ⟨a5, a6⟩
        · intro s hs'
          obtain ⟨_, _, _, _, a5, a6, _, _⟩ := L2.pairs _ ((mem_walkPairs _ _ _ _).2 ⟨s, hs', rfl⟩)
          exact ⟨a5, a6⟩
  · exfalso
    have hald : a = ld := by rcases hst with hh | hh; exact hh; exact absurd hh ha0
    have hpl : it m 1 (k + 1) ld = ld := by rw [← ha']; exact hald
    obtain ⟨t, ht⟩ := hopen
    exact periodic_nz (hw.null 1 (by omega)) (by omega) hpl hl0 t ht


/-! ## faces, edges: the partitions -/

/-- the darts of a β0 / β1 walk are in the face cell of its first dart -/
theorem face_walk_same {m : Map X} (hw : WF 4 m) {i d : Nat} (hi : i = 1 ∨ i = 0) (hd : d < m.n) :
    ∀ t, (∀ s, s ≤ t → it m i s d ≠ 0) → SameCell (g3f m) m.n d (it m i t d) := by
  have hi4 : i < 4 := by omega
  intro t
  induction t with
  | zero => intro _; exact .refl _
  | succ t ih =>
      intro hnz
      refine .trans (ih fun s hs => hnz s (by omega)) (.step ((gstep3f_iff m _ _).2
        ⟨hnz t (by omega), it_lt hw hi4 t d hd, hnz (t + 1) (by omega), ?_⟩))
      rw [it_succ']
      rcases hi with rfl | rfl
      · exact Or.inl rfl
      · exact Or.inr (Or.inl rfl)

theorem mem_openPairs {m : Map X} {ld rd F B : Nat} (pq : Nat × Nat) :
    pq ∈ openPairs m ld rd F B ↔ (∃ t, t < F ∧ pq = (it m 1 t ld, it m 0 t rd)) ∨
      (∃ s, s < B ∧ pq = (it m 0 (s + 1) ld, it m 1 (s + 1) rd)) := by
  unfold openPairs
  rw [List.mem_append, mem_walkPairs, mem_walkPairs]
  rfl

/-- every pair of `openPairs` joins the face of `ld` to the face of `rd` -/
theorem openPairs_faces {m : Map X} (hw : WF 4 m) {ld rd F B : Nat} (hln : ld < m.n) (hrn : rd < m.n)
    (O : OpenPair m ld rd F B) (pq : Nat × Nat) (hm : pq ∈ openPairs m ld rd F B) :
    SameCell (g3f m) m.n pq.1 ld ∧ SameCell (g3f m) m.n pq.2 rd := by
  rcases (mem_openPairs pq).1 hm with ⟨t, ht, rfl⟩ | ⟨s, hs, rfl⟩
  · exact ⟨.symm (face_walk_same hw (Or.inl rfl) hln t fun s hs => (O.nzF s (by omega)).1),
      .symm (face_walk_same hw (Or.inr rfl) hrn t fun s hs => (O.nzF s (by omega)).2)⟩
  · have nzA : ∀ r, r ≤ s + 1 → it m 0 r ld ≠ 0 := by
      intro r hr
      cases r with
      | zero => exact (O.nzF 0 O.fpos).1
      | succ r => exact (O.nzB r (by omega)).1
    have nzB : ∀ r, r ≤ s + 1 → it m 1 r rd ≠ 0 := by
      intro r hr
      cases r with
      | zero => exact (O.nzF 0 O.fpos).2
      | succ r => exact (O.nzB r (by omega)).2
    exact ⟨.symm (face_walk_same hw (Or.inr rfl) hln (s + 1) nzA),
      .symm (face_walk_same hw (Or.inl rfl) hrn (s + 1) nzB)⟩

/-- **faces and edges after 3-linking a list of pairs that all join the faces of `ld` and `rd`** -/
theorem faces_edges_linked3 {m m1 : Map X} {ps : List (Nat × Nat)} {ld rd : Nat} (hL : Linked3 m m1 ps)
    (hmem : (ld, rd) ∈ ps)
    (hall : ∀ pq, pq ∈ ps → SameCell (g3f m) m.n pq.1 ld ∧ SameCell (g3f m) m.n pq.2 rd) :
    (∀ d e, SameCell (g3f m1) m.n d e ↔ Glue (SameCell (g3f m) m.n) [(ld, rd)] d e) ∧
    (∀ d e, SameCell (g3e m1) m.n d e ↔ Glue (SameCell (g3e m) m.n) ps d e) := by
  have e1 : ∀ x, m1.β 1 x = m.β 1 x := fun x => hL.other 1 x (by omega)
  have e0 : ∀ x, m1.β 0 x = m.β 0 x := fun x => hL.other 0 x (by omega)
  constructor
  · intro d e
    have := cells_linked3 (base := fun m x => [m.β 1 x, m.β 0 x]) (m := m) (m' := m1)
      (fun x => by simp only [e1, e0]) hL d e
    rw [show gB3 (fun m x => [m.β 1 x, m.β 0 x]) m = g3f m from rfl,
      show gB3 (fun m x => [m.β 1 x, m.β 0 x]) m1 = g3f m1 from rfl] at this
    rw [this]
    exact glue_same_cells (sameCell_equiv (g3f m) m.n) hall ⟨_, hmem⟩ d e
  · intro d e
    exact cells_linked3 (base := fun m x => [m.β 2 x]) (m := m) (m' := m1)
      (fun x => by simp only [hL.other 2 x (by omega)]) hL d e

/-! ## vertices: the general partition after 3-linking a list of pairs -/

/-- the head of a linked dart, as `three_sew` looks for it: its successor, else its β2 image (which
    starts at the head) -/
def headG (m : Map X) (x : Nat) : Nat := if m.β 1 x ≠ 0 then m.β 1 x else m.β 2 x

/-- the vertex pairs united by 3-linking `ps` (any faces): the head of each linked dart with its
    partner, when the head exists -/
def pairsV3g (m : Map X) (ps : List (Nat × Nat)) : List (Nat × Nat) :=
  ps.flatMap fun pq =>
    (if headG m pq.1 ≠ 0 then [(headG m pq.1, pq.2)] else []) ++
    (if headG m pq.2 ≠ 0 then [(pq.1, headG m pq.2)] else [])

theorem mem_pairsV3g {m : Map X} {ps : List (Nat × Nat)} (x : Nat × Nat) :
    x ∈ pairsV3g m ps ↔ ∃ pq, pq ∈ ps ∧ ((headG m pq.1 ≠ 0 ∧ x = (headG m pq.1, pq.2)) ∨
      (headG m pq.2 ≠ 0 ∧ x = (pq.1, headG m pq.2))) := by
  unfold pairsV3g
  rw [List.mem_flatMap]
  constructor
  · rintro ⟨pq, hm, hx⟩
    refine ⟨pq, hm, ?_⟩
    rcases List.mem_append.1 hx with hx | hx
    · by_cases c : headG m pq.1 ≠ 0
      · rw [if_pos c] at hx; exact Or.inl ⟨c, by simpa using hx⟩
      · rw [if_neg c] at hx; simp at hx
    · by_cases c : headG m pq.2 ≠ 0
      · rw [if_pos c] at hx; exact Or.inr ⟨c, by simpa using hx⟩
      · rw [if_neg c] at hx; simp at hx
  · rintro ⟨pq, hm, ⟨c, rfl⟩ | ⟨c, rfl⟩⟩
    · exact ⟨pq, hm, List.mem_append_left _ (by rw [if_pos c]; simp)⟩
    · exact ⟨pq, hm, List.mem_append_right _ (by rw [if_pos c]; simp)⟩

/-- **vertex cells after 3-linking the pairs of `ps`** (no hypothesis on the faces) -/
theorem vertex_cells_linked3_gen {m m' : Map X} (h : WF 4 m) (h' : WF 4 m') {ps : List (Nat × Nat)}
    (L : Linked3 m m' ps) (d e : Nat) :
    SameCell (g3v m') m.n d e ↔ Glue (SameCell (g3v m) m.n) (pairsV3g m ps) d e := by
  have hstep := gstep3_linked3 h h' L
  have memH : ∀ x y, PairOf ps x y → headG m x ≠ 0 →
      (headG m x, y) ∈ pairsV3g m ps ∨ (y, headG m x) ∈ pairsV3g m ps := by
    rintro x y (hp | hp) hh
    · exact Or.inl ((mem_pairsV3g _).2 ⟨(x, y), hp, Or.inl ⟨hh, rfl⟩⟩)
    · exact Or.inr ((mem_pairsV3g _).2 ⟨(y, x), hp, Or.inr ⟨hh, rfl⟩⟩)
  refine sameCell_glue (N := NV m ps) hstep (fun a b k => ?_) (fun pq hm => ?_) d e
  · obtain ⟨x, y, hp, ⟨k1, k2⟩ | ⟨k1, k2, k3⟩⟩ := k
    · obtain ⟨_, _, x0, _, xn, _⟩ := L.of_pair hp
      have ha : a = m.β 2 x := by
        have hbn : m.β 2 a ≠ 0 := by rw [k1]; exact x0
        have han : a < m.n := by
          by_cases han : a < m.n
          · exact han
          · exfalso; apply hbn; unfold Map.β; rw [rd_oob]; rfl; rw [h.row 2 (by omega)]; omega
        have := invol_back h (i := 2) (by omega) (by omega) han hbn
        rw [k1] at this; exact this.symm
      have ha0 : m.β 2 x ≠ 0 := by
        rw [← ha]; intro hh; exact x0 (by rw [← k1, hh]; exact h.null 2 (by omega))
      have hh0 : headG m x ≠ 0 := by
        unfold headG; by_cases c : m.β 1 x ≠ 0
        · rw [if_pos c]; exact c
        · rw [if_neg c]; exact ha0
      have hs : SameCell (g3v m) m.n a (headG m x) := by
        unfold headG; by_cases c : m.β 1 x ≠ 0
        · rw [if_pos c, ha]; exact head21_same h xn ha0 c
        · rw [if_neg c, ha]; exact .refl _
      rcases memH x y hp hh0 with hm | hm
      · exact ⟨_, hm, Or.inl ⟨hs, by rw [k2]; exact .refl _⟩⟩
      · exact ⟨_, hm, Or.inr ⟨hs, by rw [k2]; exact .refl _⟩⟩
    · have hb : b = headG m y := by
        unfold headG; rw [if_pos (by rw [← k2]; exact k3)]; exact k2
      rcases memH y x hp.symm (by rw [← hb]; exact k3) with hm | hm
      · exact ⟨_, hm, Or.inr ⟨by rw [k1]; exact .refl _, by rw [hb]; exact .refl _⟩⟩
      · exact ⟨_, hm, Or.inl ⟨by rw [k1]; exact .refl _, by rw [hb]; exact .refl _⟩⟩
  · obtain ⟨⟨x, y⟩, hp, ⟨c, rfl⟩ | ⟨c, rfl⟩⟩ := (mem_pairsV3g pq).1 hm
    · -- (headG x, y)
      obtain ⟨_, _, _, _, x0, y0, xn, yn⟩ := L.pairs _ hp
      simp only at c x0 y0 xn yn ⊢
      unfold headG at c ⊢
      by_cases c1 : m.β 1 x ≠ 0
      · rw [if_pos c1]
        exact .symm (.step ((hstep _ _).2 (Or.inr (Or.inl ⟨y, x, Or.inr hp, Or.inr ⟨rfl, rfl, c1⟩⟩))))
      · rw [if_neg c1] at c ⊢
        exact .step ((hstep _ _).2 (Or.inr (Or.inl ⟨x, y, Or.inl hp,
          Or.inl ⟨invol_back h (by omega) (by omega) xn c, rfl⟩⟩)))
    · obtain ⟨_, _, _, _, x0, y0, xn, yn⟩ := L.pairs _ hp
      simp only at c x0 y0 xn yn ⊢
      unfold headG at c ⊢
      by_cases c1 : m.β 1 y ≠ 0
      · rw [if_pos c1]
        exact .step ((hstep _ _).2 (Or.inr (Or.inl ⟨x, y, Or.inl hp, Or.inr ⟨rfl, rfl, c1⟩⟩)))
      · rw [if_neg c1] at c ⊢
        exact .symm (.step ((hstep _ _).2 (Or.inr (Or.inl ⟨y, x, Or.inr hp,
          Or.inl ⟨invol_back h (by omega) (by omega) yn c, rfl⟩⟩))))


/-! ## the pairs of two open faces are closed under the paired β1/β0 steps -/

/-- a list of linked pairs closed, pair by pair, under `(β1, β0)` and `(β0, β1)` (or both null) -/
def PCov (m : Map X) (ps : List (Nat × Nat)) : Prop :=
  ∀ x y, (x, y) ∈ ps →
    ((m.β 1 x, m.β 0 y) ∈ ps ∨ (m.β 1 x = 0 ∧ m.β 0 y = 0)) ∧
    ((m.β 0 x, m.β 1 y) ∈ ps ∨ (m.β 0 x = 0 ∧ m.β 1 y = 0))

theorem openPairs_cov {m : Map X} (hw : WF 4 m) {ld rd F B : Nat} (hln : ld < m.n) (hrn : rd < m.n)
    (O : OpenPair m ld rd F B) : PCov m (openPairs m ld rd F B) := by
  have d10 : Dir 1 0 := Or.inl ⟨rfl, rfl⟩
  have d01 : Dir 0 1 := Or.inr ⟨rfl, rfl⟩
  have memF : ∀ t, t < F → (it m 1 t ld, it m 0 t rd) ∈ openPairs m ld rd F B :=
    fun t ht => (mem_openPairs _).2 (Or.inl ⟨t, ht, rfl⟩)
  have memB : ∀ s, s < B → (it m 0 (s + 1) ld, it m 1 (s + 1) rd) ∈ openPairs m ld rd F B :=
    fun s hs => (mem_openPairs _).2 (Or.inr ⟨s, hs, rfl⟩)
  intro x y hm
  rcases (mem_openPairs _).1 hm with ⟨t, ht, hxy⟩ | ⟨s, hs, hxy⟩
  · obtain ⟨rfl, rfl⟩ := Prod.mk.inj hxy
    constructor
    · rw [← it_succ', ← it_succ']
      by_cases c : t + 1 < F
      · exact Or.inl (memF _ c)
      · have : t + 1 = F := by omega
        rw [this]; exact Or.inr ⟨O.endF, O.endG⟩
    · cases t with
      | zero =>
          simp only [it_zero]
          by_cases c : 0 < B
          · exact Or.inl (memB 0 c)
          · have : B = 0 := by omega
            have a := O.endA; have b := O.endB
            rw [this] at a b
            exact Or.inr ⟨a, b⟩
      | succ t =>
          rw [walk_back hw d10 hln (O.nzF (t + 1) ht).1, walk_back hw d01 hrn (O.nzF (t + 1) ht).2]
          exact Or.inl (memF t (by omega))
  · obtain ⟨rfl, rfl⟩ := Prod.mk.inj hxy
    have nz := O.nzB s hs
    have nz1 : it m 0 (s + 1) ld ≠ 0 := nz.1
    have nz2 : it m 1 (s + 1) rd ≠ 0 := nz.2
    constructor
    · rw [walk_back hw d01 hln nz1, walk_back hw d10 hrn nz2]
      cases s with
      | zero => exact Or.inl (memF 0 O.fpos)
      | succ s => exact Or.inl (memB s (by omega))
    · rw [← it_succ', ← it_succ']
      by_cases c : s + 1 < B
      · exact Or.inl (memB _ c)
      · have : s + 1 = B := by omega
        refine Or.inr ⟨?_, ?_⟩
        · show it m 0 (s + 1) (m.β 0 ld) = 0
          rw [this]; exact O.endA
        · show it m 1 (s + 1) (m.β 1 rd) = 0
          rw [this]; exact O.endB

theorem reach_it {m : Map X} {i j d : Nat} (hij : True) : ∀ t, Reach (gIJ m i j) d (it m i t d) ∧
    Reach (gIJ m i j) d (it m j t d) := by
  intro t
  induction t with
  | zero => exact ⟨.refl _, .refl _⟩
  | succ t ih =>
      rw [it_succ', it_succ']
      exact ⟨.tail ih.1 (by unfold gIJ; simp), .tail ih.2 (by unfold gIJ; simp)⟩

theorem openPairs_reach {m : Map X} {ld rd F B : Nat} (pq : Nat × Nat) (hm : pq ∈ openPairs m ld rd F B) :
    Reach (gIJ m 1 0) ld pq.1 ∧ Reach (gIJ m 0 1) rd pq.2 := by
  rcases (mem_openPairs _).1 hm with ⟨t, ht, rfl⟩ | ⟨s, hs, rfl⟩
  · exact ⟨(reach_it trivial t).1, (reach_it trivial t).1⟩
  · exact ⟨(reach_it trivial (s + 1)).2, (reach_it trivial (s + 1)).2⟩

/-! ## the two face walks of the code, in lock-step along linked pairs -/

/-- **the zipped face walks of `three_sew` / `three_unsew` list exactly the linked pairs**, for any
    list of pairs that is 3-linked in some map, closed under the paired steps and reachable -/
theorem zip_walks_linked {m m1 : Map X} (hw : WF 4 m) {ps : List (Nat × Nat)} (hL : Linked3 m m1 ps)
    {ld rd : Nat} (hl0 : ld ≠ 0) (hln : ld < m.n) (hr0 : rd ≠ 0) (hrn : rd < m.n) (hmem : (ld, rd) ∈ ps)
    (hcov : PCov m ps) (hreach : ∀ pq, pq ∈ ps → Reach (gIJ m 1 0) ld pq.1) (pq : Nat × Nat) :
    pq ∈ (bfsPure (gIJ m 1 0) (m.n + 1) [ld] [0, ld] []).zip (bfsPure (gIJ m 0 1) (m.n + 1) [rd] [0, rd] []) ↔
      pq ∈ ps := by
  let Φ : Nat → Nat → Prop := fun x y => (x = 0 ∧ y = 0) ∨ (x, y) ∈ ps
  have nzp : ∀ x y, (x, y) ∈ ps → x ≠ 0 ∧ y ≠ 0 := by
    intro x y h
    obtain ⟨_, _, _, _, a5, a6, _, _⟩ := hL.pairs _ h
    exact ⟨a5, a6⟩
  have hb : BiUnique Φ := by
    rintro x y x' y' (⟨rfl, rfl⟩ | h1) (⟨rfl, rfl⟩ | h2)
    · exact ⟨fun _ => rfl, fun _ => rfl⟩
    · exact ⟨fun hh => absurd hh.symm (nzp _ _ h2).1, fun hh => absurd hh.symm (nzp _ _ h2).2⟩
    · exact ⟨fun hh => absurd hh (nzp _ _ h1).1, fun hh => absurd hh (nzp _ _ h1).2⟩
    · obtain ⟨a1, a2, _⟩ := hL.pairs _ h1
      obtain ⟨b1, b2, _⟩ := hL.pairs _ h2
      simp only at a1 a2 b1 b2
      constructor
      · intro hh; rw [← a1, ← b1, hh]
      · intro hh; rw [← a2, ← b2, hh]
  have n0 := hw.null 0 (by omega)
  have n1 := hw.null 1 (by omega)
  have hstep : ∀ x y, Φ x y → Rel2 Φ (gIJ m 1 0 x) (gIJ m 0 1 y) := by
    rintro x y (⟨rfl, rfl⟩ | h1)
    · unfold gIJ; rw [n0, n1]
      exact .cons (Or.inl ⟨rfl, rfl⟩) (.cons (Or.inl ⟨rfl, rfl⟩) .nil)
    · unfold gIJ
      obtain ⟨c1, c2⟩ := hcov x y h1
      refine .cons ?_ (.cons ?_ .nil)
      · rcases c1 with k | k
        · exact Or.inr k
        · exact Or.inl k
      · rcases c2 with k | k
        · exact Or.inr k
        · exact Or.inl k
  have phi0 : Φ ld rd := Or.inr hmem
  have R := bfsPure_lockstep hb hstep (m.n + 1) [ld] [rd] [0, ld] [0, rd] [] []
    (.cons phi0 .nil) (.cons (Or.inl ⟨rfl, rfl⟩) (.cons phi0 .nil)) .nil
  obtain ⟨z1, z2⟩ := R.zip_mem
  obtain ⟨_, _, hno0, hmemb, _⟩ := bfsPure_spec (gIJ_null hw (i := 1) (j := 0) (by omega) (by omega))
    (gIJ_range hw (i := 1) (j := 0) (by omega) (by omega)) hl0 hln
  constructor
  · intro hm
    have hx : pq.1 ∈ bfsPure (gIJ m 1 0) (m.n + 1) [ld] [0, ld] [] := (List.of_mem_zip hm).1
    rcases z1 pq hm with ⟨k1, _⟩ | k
    · exact absurd (k1 ▸ hx) hno0
    · exact k
  · intro hm
    obtain ⟨x, y⟩ := pq
    obtain ⟨y', hy'⟩ := z2 x ((hmemb x).2 ⟨(nzp x y hm).1, hreach _ hm⟩)
    have : y' = y := (hb _ _ _ _ (z1 _ hy') (Or.inr hm)).1 rfl
    rw [← this]; exact hy'


/-! ## a 3-free face given as a set of darts: its cell, its identifier -/

theorem face_cell_of_set {m : Map X} (hw : WF 4 m) {S : Nat → Prop} {d : Nat}
    (hS0 : ∀ x, S x → x ≠ 0 ∧ x < m.n ∧ m.β 3 x = 0)
    (hSstep : ∀ x, S x → (m.β 1 x ≠ 0 → S (m.β 1 x)) ∧ (m.β 0 x ≠ 0 → S (m.β 0 x)))
    (hSd : S d) (hSsame : ∀ x, S x → SameCell (g3f m) m.n d x) (e : Nat) :
    SameCell (g3f m) m.n d e ↔ S e := by
  have key : ∀ a b, GStep (g3f m) m.n a b → (S a ↔ S b) := by
    intro a b hs
    obtain ⟨a0, han, b0, hb⟩ := (gstep3f_iff m a b).1 hs
    constructor
    · intro sa
      rcases hb with rfl | rfl | rfl
      · exact (hSstep a sa).1 b0
      · exact (hSstep a sa).2 b0
      · exact absurd (hS0 a sa).2.2 b0
    · intro sb
      rcases hb with rfl | rfl | rfl
      · have := hw.inv01 a han b0
        rw [← this]; exact (hSstep _ sb).2 (by rw [this]; exact a0)
      · have := hw.inv10 a han b0
        rw [← this]; exact (hSstep _ sb).1 (by rw [this]; exact a0)
      · have := invol_back hw (i := 3) (by omega) (by omega) han b0
        rw [(hS0 _ sb).2.2] at this
        exact absurd this.symm a0
  constructor
  · intro h
    have aux : ∀ a b, SameCell (g3f m) m.n a b → (S a ↔ S b) := by
      intro a b hab
      induction hab with
      | refl a => exact Iff.rfl
      | step hs => exact key _ _ hs
      | symm _ ih => exact ih.symm
      | trans _ _ ih1 ih2 => exact ih1.trans ih2
    exact (aux d e h).1 hSd
  · exact hSsame e

/-- the face identifier the code computes (minimum of its face walk) is the smallest dart of the
    face cell, on a 3-free face given as a set of darts -/
theorem face_min_of_set {m : Map X} (hw : WF 4 m) {S : Nat → Prop} {i j d : Nat} (dir : Dir i j)
    (hS0 : ∀ x, S x → x ≠ 0 ∧ x < m.n ∧ m.β 3 x = 0)
    (hSstep : ∀ x, S x → (m.β 1 x ≠ 0 → S (m.β 1 x)) ∧ (m.β 0 x ≠ 0 → S (m.β 0 x)))
    (hSd : S d) (hSsame : ∀ x, S x → SameCell (g3f m) m.n d x)
    (hSreach : ∀ x, S x → Reach (gIJ m i j) d x) :
    IsFid3 m d (listMin (bfsPure (gIJ m i j) (m.n + 1) [d] [0, d] []) d) := by
  have hi4 : i < 4 := by have := dir.ilt; omega
  have hj4 : j < 4 := by have := dir.jlt; omega
  obtain ⟨hd0, hdn, _⟩ := hS0 d hSd
  obtain ⟨_, _, _, hmemb, _⟩ := bfsPure_spec (gIJ_null hw hi4 hj4) (gIJ_range hw hi4 hj4) hd0 hdn
  have hinv : ∀ x, Reach (gIJ m i j) d x → x = 0 ∨ S x := by
    intro x hr
    induction hr with
    | refl => exact Or.inr hSd
    | @tail b c _ hc ih =>
        rcases ih with rfl | sb
        · exact Or.inl (gIJ_null hw hi4 hj4 c hc)
        · have hc' : c = m.β i b ∨ c = m.β j b := by
            unfold gIJ at hc; simpa using hc
          by_cases c0 : c = 0
          · exact Or.inl c0
          · right
            rcases dir with ⟨rfl, rfl⟩ | ⟨rfl, rfl⟩
            · rcases hc' with rfl | rfl
              · exact (hSstep b sb).1 c0
              · exact (hSstep b sb).2 c0
            · rcases hc' with rfl | rfl
              · exact (hSstep b sb).2 c0
              · exact (hSstep b sb).1 c0
  have hmem : ∀ x, x ∈ bfsPure (gIJ m i j) (m.n + 1) [d] [0, d] [] ↔ S x := by
    intro x
    rw [hmemb]
    constructor
    · rintro ⟨x0, hr⟩
      rcases hinv x hr with k | k
      · exact absurd k x0
      · exact k
    · intro sx; exact ⟨(hS0 x sx).1, hSreach x sx⟩
  have hdm : d ∈ bfsPure (gIJ m i j) (m.n + 1) [d] [0, d] [] := (hmem d).2 hSd
  obtain ⟨k1, k2⟩ := listMin_spec hdm
  constructor
  · exact (face_cell_of_set hw hS0 hSstep hSd hSsame _).2 ((hmem _).1 k1)
  · intro e he _
    exact k2 e ((hmem e).2 ((face_cell_of_set hw hS0 hSstep hSd hSsame e).1 he))


/-! ## the identifier pairs the code collects, on any faces -/

theorem vid_zero (n : Nat) (m : Map X) : run (vertexId3 (X := X) n 0) m = (.ok 0, m) := by
  unfold vertexId3
  rw [show 8 * n + 8 = (8 * n + 6) + 1 + 1 by omega]
  unfold popLoop
  simp only [List.contains_cons, beq_self_eq_true, Bool.true_or, if_true]
  unfold popLoop
  rfl

/-- the vertex identifier of a dart that may be null (`vertex_id(NULL) = NULL`) -/
def VidOr0 (m : Map X) (d v : Nat) : Prop := (d ≠ 0 ∧ IsVid3 m d v) ∨ (d = 0 ∧ v = 0)

theorem vidOr0_spec {m : Map X} (hwf : WF 4 m) {n d v : Nat} (hd : d < m.n)
    (hr : run (vertexId3 (X := X) n d) m = (.ok v, m)) : VidOr0 m d v := by
  by_cases d0 : d = 0
  · subst d0
    rw [vid_zero] at hr
    simp only [Prod.mk.injEq, Out.ok.injEq, and_true] at hr
    exact Or.inr ⟨rfl, hr.symm⟩
  · exact Or.inl ⟨d0, (vertexId3_spec hwf d0 hd hr).2⟩

theorem head_code_eq (m : Map X) (l : Nat) : (if m.β 1 l = 0 then m.β 2 l else m.β 1 l) = headG m l := by
  unfold headG
  by_cases c : m.β 1 l = 0
  · simp [c]
  · simp [c]

theorem headG_lt {m : Map X} (hwf : WF 4 m) {l : Nat} (hl : l < m.n) : headG m l < m.n := by
  unfold headG
  split
  · exact hwf.range 1 (by omega) l hl
  · exact hwf.range 2 (by omega) l hl

/-- what the collecting loop of `three_sew` records, pair by pair, on ANY faces: the edge ids of the
    two darts; the vertex id of the head of the left dart (null when the dart has no head) with the
    vertex id of the right dart; and, when the left dart has no predecessor, the vertex id of the
    left dart with the vertex id of the head of the right dart — each the smallest dart of its cell -/
theorem collected_ids_gen {m : Map X} (hwf : WF 4 m) :
    ∀ {zs es vs : List (Nat × Nat)}, Collected m.n m zs es vs →
      (∀ lr, lr ∈ zs → lr.1 ≠ 0 ∧ lr.1 < m.n ∧ lr.2 ≠ 0 ∧ lr.2 < m.n) →
      (∀ p, p ∈ es → ∃ lr, lr ∈ zs ∧ IsEid3 m lr.1 p.1 ∧ IsEid3 m lr.2 p.2) ∧
      (∀ lr, lr ∈ zs → ∃ p, p ∈ es ∧ IsEid3 m lr.1 p.1 ∧ IsEid3 m lr.2 p.2) ∧
      (∀ p, p ∈ vs → ∃ lr, lr ∈ zs ∧ ((VidOr0 m (headG m lr.1) p.1 ∧ IsVid3 m lr.2 p.2) ∨
        (m.β 0 lr.1 = 0 ∧ IsVid3 m lr.1 p.1 ∧ VidOr0 m (headG m lr.2) p.2))) ∧
      (∀ lr, lr ∈ zs → (∃ p, p ∈ vs ∧ VidOr0 m (headG m lr.1) p.1 ∧ IsVid3 m lr.2 p.2) ∧
        (m.β 0 lr.1 = 0 → ∃ p, p ∈ vs ∧ IsVid3 m lr.1 p.1 ∧ VidOr0 m (headG m lr.2) p.2)) := by
  intro zs es vs hC
  induction hC with
  | nil => intro _; exact ⟨fun p h => absurd h (by simp), fun p h => absurd h (by simp),
      fun p h => absurd h (by simp), fun p h => absurd h (by simp)⟩
  | @cons l r rest es vs es' vs' hP _ ih =>
      intro hz
      obtain ⟨i1, i2, i3, i4⟩ := ih (fun lr hm => hz lr (List.mem_cons_of_mem _ hm))
      obtain ⟨hl0, hln, hr0, hrn⟩ := hz (l, r) (by simp)
      simp only at hl0 hln hr0 hrn
      obtain ⟨el, er, v1, v2, hel, her, hv1, hv2, hes, hvs⟩ := hP
      rw [head_code_eq] at hv1
      have s1 := (edgeId3_spec hwf hl0 hln hel).2
      have s2 := (edgeId3_spec hwf hr0 hrn her).2
      have s3 := vidOr0_spec hwf (headG_lt hwf hln) hv1
      have s4 := (vertexId3_spec hwf hr0 hrn hv2).2
      -- the local pairs
      have loc : (∀ p, p ∈ vs → (VidOr0 m (headG m l) p.1 ∧ IsVid3 m r p.2) ∨
            (m.β 0 l = 0 ∧ IsVid3 m l p.1 ∧ VidOr0 m (headG m r) p.2)) ∧
          (∃ p, p ∈ vs ∧ VidOr0 m (headG m l) p.1 ∧ IsVid3 m r p.2) ∧
          (m.β 0 l = 0 → ∃ p, p ∈ vs ∧ IsVid3 m l p.1 ∧ VidOr0 m (headG m r) p.2) := by
        rcases hvs with ⟨c, rfl⟩ | ⟨c, v3, v4, hv3, hv4, rfl⟩
        · refine ⟨fun p hp => ?_, ⟨(v1, v2), by simp, s3, s4⟩, fun hh => absurd hh c⟩
          have : p = (v1, v2) := by simpa using hp
          subst this; exact Or.inl ⟨s3, s4⟩
        · rw [head_code_eq] at hv4
          have s5 := (vertexId3_spec hwf hl0 hln hv3).2
          have s6 := vidOr0_spec hwf (headG_lt hwf hrn) hv4
          refine ⟨fun p hp => ?_, ⟨(v1, v2), by simp, s3, s4⟩, fun _ => ⟨(v3, v4), by simp, s5, s6⟩⟩
          have : p = (v1, v2) ∨ p = (v3, v4) := by simpa using hp
          rcases this with rfl | rfl
          · exact Or.inl ⟨s3, s4⟩
          · exact Or.inr ⟨c, s5, s6⟩
      obtain ⟨loc1, loc2, loc3⟩ := loc
      subst hes
      refine ⟨?_, ?_, ?_, ?_⟩
      · intro p hp
        rcases List.mem_append.1 hp with hp | hp
        · have : p = (el, er) := by simpa using hp
          subst this; exact ⟨(l, r), by simp, s1, s2⟩
        · obtain ⟨lr, hm, k⟩ := i1 p hp
          exact ⟨lr, List.mem_cons_of_mem _ hm, k⟩
      · intro lr hm
        rcases List.mem_cons.1 hm with rfl | hm
        · exact ⟨(el, er), by simp, s1, s2⟩
        · obtain ⟨p, hp, k⟩ := i2 lr hm
          exact ⟨p, List.mem_append_right _ hp, k⟩
      · intro p hp
        rcases List.mem_append.1 hp with hp | hp
        · exact ⟨(l, r), by simp, loc1 p hp⟩
        · obtain ⟨lr, hm, k⟩ := i3 p hp
          exact ⟨lr, List.mem_cons_of_mem _ hm, k⟩
      · intro lr hm
        rcases List.mem_cons.1 hm with rfl | hm
        · obtain ⟨p, hp, k⟩ := loc2
          refine ⟨⟨p, List.mem_append_left _ hp, k⟩, fun hh => ?_⟩
          obtain ⟨q, hq, k'⟩ := loc3 hh
          exact ⟨q, List.mem_append_left _ hq, k'⟩
        · obtain ⟨⟨p, hp, k⟩, k2⟩ := i4 lr hm
          refine ⟨⟨p, List.mem_append_right _ hp, k⟩, fun hh => ?_⟩
          obtain ⟨q, hq, k'⟩ := k2 hh
          exact ⟨q, List.mem_append_right _ hq, k'⟩

/-! ## the vertex pairs of the code: the same unions as the general partition -/

/-- the vertex pairs `three_sew` collects (cells, not identifiers): the head of each left dart with
    its partner; and, for a left dart without predecessor, the dart with the head of its partner -/
def codePairs (m : Map X) (ps : List (Nat × Nat)) : List (Nat × Nat) :=
  ps.flatMap fun pq =>
    (if headG m pq.1 ≠ 0 then [(headG m pq.1, pq.2)] else []) ++
    (if m.β 0 pq.1 = 0 ∧ headG m pq.2 ≠ 0 then [(pq.1, headG m pq.2)] else [])

theorem mem_codePairs {m : Map X} {ps : List (Nat × Nat)} (x : Nat × Nat) :
    x ∈ codePairs m ps ↔ ∃ pq, pq ∈ ps ∧ ((headG m pq.1 ≠ 0 ∧ x = (headG m pq.1, pq.2)) ∨
      (m.β 0 pq.1 = 0 ∧ headG m pq.2 ≠ 0 ∧ x = (pq.1, headG m pq.2))) := by
  unfold codePairs
  rw [List.mem_flatMap]
  constructor
  · rintro ⟨pq, hm, hx⟩
    refine ⟨pq, hm, ?_⟩
    rcases List.mem_append.1 hx with hx | hx
    · by_cases c : headG m pq.1 ≠ 0
      · rw [if_pos c] at hx; exact Or.inl ⟨c, by simpa using hx⟩
      · rw [if_neg c] at hx; simp at hx
    · by_cases c : m.β 0 pq.1 = 0 ∧ headG m pq.2 ≠ 0
      · rw [if_pos c] at hx; exact Or.inr ⟨c.1, c.2, by simpa using hx⟩
      · rw [if_neg c] at hx; simp at hx
  · rintro ⟨pq, hm, ⟨c, rfl⟩ | ⟨c1, c2, rfl⟩⟩
    · exact ⟨pq, hm, List.mem_append_left _ (by rw [if_pos c]; simp)⟩
    · exact ⟨pq, hm, List.mem_append_right _ (by rw [if_pos ⟨c1, c2⟩]; simp)⟩

/-- on a list of pairs closed under the paired steps, the pair "left dart — head of its partner" of a
    dart WITH a predecessor is the pair "head of the predecessor — its partner" -/
theorem codePairs_iff {m m1 : Map X} (hw : WF 4 m) {ps : List (Nat × Nat)} (hL : Linked3 m m1 ps)
    (hcov : PCov m ps) (x : Nat × Nat) : x ∈ pairsV3g m ps ↔ x ∈ codePairs m ps := by
  rw [mem_pairsV3g, mem_codePairs]
  constructor
  · rintro ⟨⟨l, r⟩, hm, ⟨c, rfl⟩ | ⟨c, rfl⟩⟩
    · exact ⟨(l, r), hm, Or.inl ⟨c, rfl⟩⟩
    · by_cases c0 : m.β 0 l = 0
      · exact ⟨(l, r), hm, Or.inr ⟨c0, c, rfl⟩⟩
      · obtain ⟨_, _, _, _, l0, r0, ln, rn⟩ := hL.pairs _ hm
        simp only at l0 r0 ln rn c
        have hm' : (m.β 0 l, m.β 1 r) ∈ ps := by
          rcases (hcov l r hm).2 with k | k
          · exact k
          · exact absurd k.1 c0
        obtain ⟨_, _, _, _, _, r0', _, _⟩ := hL.pairs _ hm'
        simp only at r0'
        have inv := hw.inv10 l ln c0
        have h1 : headG m (m.β 0 l) = l := by
          unfold headG; rw [if_pos (by rw [inv]; exact l0)]; exact inv
        have h2 : headG m r = m.β 1 r := by unfold headG; rw [if_pos r0']
        refine ⟨(m.β 0 l, m.β 1 r), hm', Or.inl ⟨by rw [h1]; exact l0, ?_⟩⟩
        simp only [h1, h2]
  · rintro ⟨pq, hm, ⟨c, rfl⟩ | ⟨_, c, rfl⟩⟩
    · exact ⟨pq, hm, Or.inl ⟨c, rfl⟩⟩
    · exact ⟨pq, hm, Or.inr ⟨c, rfl⟩⟩


/-! ## the two face walks of the code on a list of linked pairs -/

/-- everything the cell-level theorems need about a list `ps` of pairs 3-linked between `m` and
    `m1`, closed under the paired steps, on the faces of `ld` and `rd`: the zipped walks, the three
    partitions, the face identifiers -/
theorem linked_faces_cells {m m1 : Map X} (hwf : WF 4 m) (hw1 : WF 4 m1) {ps : List (Nat × Nat)}
    (hL : Linked3 m m1 ps) {ld rd : Nat} (hmem : (ld, rd) ∈ ps) (hcov : PCov m ps)
    (hreach : ∀ pq, pq ∈ ps → Reach (gIJ m 1 0) ld pq.1 ∧ Reach (gIJ m 0 1) rd pq.2)
    (hfaces : ∀ pq, pq ∈ ps → SameCell (g3f m) m.n pq.1 ld ∧ SameCell (g3f m) m.n pq.2 rd) :
    run (faceOrbits3 (X := X) m.n ld rd) m =
      (.ok (bfsPure (gIJ m 1 0) (m.n + 1) [ld] [0, ld] [], bfsPure (gIJ m 0 1) (m.n + 1) [rd] [0, rd] []), m) ∧
    (∀ pq, pq ∈ (bfsPure (gIJ m 1 0) (m.n + 1) [ld] [0, ld] []).zip
      (bfsPure (gIJ m 0 1) (m.n + 1) [rd] [0, rd] []) ↔ pq ∈ ps) ∧
    (∀ d e, SameCell (g3f m1) m.n d e ↔ Glue (SameCell (g3f m) m.n) [(ld, rd)] d e) ∧
    (∀ d e, SameCell (g3e m1) m.n d e ↔ Glue (SameCell (g3e m) m.n) ps d e) ∧
    (∀ d e, SameCell (g3v m1) m.n d e ↔ Glue (SameCell (g3v m) m.n) (codePairs m ps) d e) ∧
    IsFid3 m ld (listMin (bfsPure (gIJ m 1 0) (m.n + 1) [ld] [0, ld] []) ld) ∧
    IsFid3 m rd (listMin (bfsPure (gIJ m 0 1) (m.n + 1) [rd] [0, rd] []) rd) := by
  have d10 : Dir 1 0 := Or.inl ⟨rfl, rfl⟩
  have d01 : Dir 0 1 := Or.inr ⟨rfl, rfl⟩
  obtain ⟨_, _, f3l, f3r, hl0, hr0, hln, hrn⟩ := hL.pairs _ hmem
  simp only at f3l f3r hl0 hr0 hln hrn
  have o1 : run (orbitWith m.n (gen3 (X := X) (.custom [1, 0])) ld) m = _ :=
    run_orbitWith (fun x hx => run_gen3_custom2 hwf (i := 1) (j := 0) (by omega) (by omega) hx)
      (gIJ_range hwf (i := 1) (j := 0) (by omega) (by omega)) hl0 hln
  have o2 : run (orbitWith m.n (gen3 (X := X) (.custom [0, 1])) rd) m = _ :=
    run_orbitWith (fun x hx => run_gen3_custom2 hwf (i := 0) (j := 1) (by omega) (by omega) hx)
      (gIJ_range hwf (i := 0) (j := 1) (by omega) (by omega)) hr0 hrn
  have hfo : run (faceOrbits3 (X := X) m.n ld rd) m =
      (.ok (bfsPure (gIJ m 1 0) (m.n + 1) [ld] [0, ld] [], bfsPure (gIJ m 0 1) (m.n + 1) [rd] [0, rd] []), m) := by
    unfold faceOrbits3
    simp only [Prog.bind_eq, bind]
    rw [run_bind_of_ok o1, run_bind_of_ok o2]
    rfl
  obtain ⟨pf, pe⟩ := faces_edges_linked3 hL hmem hfaces
  have pv : ∀ d e, SameCell (g3v m1) m.n d e ↔ Glue (SameCell (g3v m) m.n) (codePairs m ps) d e := by
    intro d e
    rw [vertex_cells_linked3_gen hwf hw1 hL d e]
    constructor
    · exact Glue.mono fun x hx => (codePairs_iff hwf hL hcov x).1 hx
    · exact Glue.mono fun x hx => (codePairs_iff hwf hL hcov x).2 hx
  have stepL : ∀ x, (∃ y, (x, y) ∈ ps) → (m.β 1 x ≠ 0 → ∃ y, (m.β 1 x, y) ∈ ps) ∧
      (m.β 0 x ≠ 0 → ∃ y, (m.β 0 x, y) ∈ ps) := by
    rintro x ⟨y, hm⟩
    obtain ⟨c1, c2⟩ := hcov x y hm
    constructor
    · intro hh
      rcases c1 with k | k
      · exact ⟨_, k⟩
      · exact absurd k.1 hh
    · intro hh
      rcases c2 with k | k
      · exact ⟨_, k⟩
      · exact absurd k.1 hh
  have stepR : ∀ y, (∃ x, (x, y) ∈ ps) → (m.β 1 y ≠ 0 → ∃ x, (x, m.β 1 y) ∈ ps) ∧
      (m.β 0 y ≠ 0 → ∃ x, (x, m.β 0 y) ∈ ps) := by
    rintro y ⟨x, hm⟩
    obtain ⟨c1, c2⟩ := hcov x y hm
    constructor
    · intro hh
      rcases c2 with k | k
      · exact ⟨_, k⟩
      · exact absurd k.2 hh
    · intro hh
      rcases c1 with k | k
      · exact ⟨_, k⟩
      · exact absurd k.2 hh
  refine ⟨hfo, zip_walks_linked hwf hL hl0 hln hr0 hrn hmem hcov (fun pq hm => (hreach pq hm).1), pf, pe, pv, ?_, ?_⟩
  · refine face_min_of_set hwf (S := fun x => ∃ y, (x, y) ∈ ps) d10 ?_ stepL ⟨rd, hmem⟩ ?_ ?_
    · rintro x ⟨y, hm⟩
      obtain ⟨_, _, a3, _, a5, _, a7, _⟩ := hL.pairs _ hm
      exact ⟨a5, a7, a3⟩
    · rintro x ⟨y, hm⟩; exact .symm (hfaces _ hm).1
    · rintro x ⟨y, hm⟩; exact (hreach _ hm).1
  · refine face_min_of_set hwf (S := fun y => ∃ x, (x, y) ∈ ps) d01 ?_ stepR ⟨ld, hmem⟩ ?_ ?_
    · rintro y ⟨x, hm⟩
      obtain ⟨_, _, _, a4, _, a6, _, a8⟩ := hL.pairs _ hm
      exact ⟨a6, a8, a4⟩
    · rintro y ⟨x, hm⟩; exact .symm (hfaces _ hm).2
    · rintro y ⟨x, hm⟩; exact (hreach _ hm).2

/-- the identifier a pair is merged into, under the proviso on a list of pairs to unite -/
theorem min_of_far {R R1 : Nat → Nat → Prop} (hR : Equivalence R) {qs : List (Nat × Nat)}
    (hglue : ∀ d e, R1 d e ↔ Glue R qs d e) (hfar : qs.Pairwise (Far R)) {x : Nat × Nat} (hx : x ∈ qs)
    {va vb : Nat} (ha : IsMinOf R x.1 va) (hb : IsMinOf R x.2 vb) : IsMinOf R1 x.1 (min va vb) := by
  have hG : ∀ e, R1 x.1 e ↔ (R x.1 e ∨ R x.2 e) := by
    intro e; rw [hglue]
    exact glue_sep_pair hR hfar (pq := x) hx e
  exact isMinOf_union hG ha hb

/-- **C05, 3-sew at cell level on OPEN faces**.  The left face is open (`hopen`); the call returned
    `Ok`.  Then both faces are open with the same shape (`OpenPair`: `F` darts from `ld` on, `B`
    behind), `three_link` links exactly `ps = openPairs m ld rd F B`, and:
    * the zipped face walks of the code list exactly `ps`;
    * the face partition is the old one with `ld — rd` united, the edge partition the old one with
      `l — r` united for `(l, r) ∈ ps`, the vertex partition the old one with the pairs of
      `codePairs m ps` united: `head l — r` for every pair (head = β1, else β2; dropped when null),
      and `l — head r` for the pair whose left dart has no predecessor;
    * the two face identifiers are the smallest darts of the two face cells, the identifier merged
      into is the smallest dart of the united face;
    * the collected edge / vertex identifier pairs are, pair by pair, the smallest darts of these
      cells (null for a missing head — such a pair is not kept);
    * under the property's proviso (no old cell in two unions) each merged-into identifier `min` is
      the smallest dart of the united cell;
    * the data: `MergedIn` / `MergedPairs` between these identifiers. -/
theorem C05_threeSew3_cells_open (cfg : Cfg X) (m m' : Map X) (ld rd : Nat) (u : Unit)
    (hwf : WF 4 m) (hl : C02.InUse m ld) (hr : C02.InUse m rd) (hne : ld ≠ rd) (hfc : m.fc = 0)
    (hopen : ∃ t, it m 1 t ld = 0)
    (h : run (threeSew3 cfg m.n ld rd) m = (.ok u, m')) :
    ∃ F B m1 lo ro es vs mf me,
      OpenPair m ld rd F B ∧
      run (threeLink3 (X := X) m.n ld rd) m = (.ok (), m1) ∧ WF 4 m1 ∧ SameTopo m1 m' ∧
      Linked3 m m1 (openPairs m ld rd F B) ∧
      run (faceOrbits3 m.n ld rd) m = (.ok (lo, ro), m) ∧
      (∀ pq, pq ∈ lo.zip ro ↔ pq ∈ openPairs m ld rd F B) ∧
      (∀ d e, SameCell (g3f m1) m.n d e ↔ Glue (SameCell (g3f m) m.n) [(ld, rd)] d e) ∧
      (∀ d e, SameCell (g3e m1) m.n d e ↔ Glue (SameCell (g3e m) m.n) (openPairs m ld rd F B) d e) ∧
      (∀ d e, SameCell (g3v m1) m.n d e ↔
        Glue (SameCell (g3v m) m.n) (codePairs m (openPairs m ld rd F B)) d e) ∧
      IsFid3 m ld (listMin lo ld) ∧ IsFid3 m rd (listMin ro rd) ∧
      IsFid3 m1 ld (min (listMin lo ld) (listMin ro rd)) ∧
      Collected m.n m (lo.zip ro) es vs ∧
      (∀ p, p ∈ es → ∃ lr, lr ∈ openPairs m ld rd F B ∧ IsEid3 m lr.1 p.1 ∧ IsEid3 m lr.2 p.2) ∧
      (∀ lr, lr ∈ openPairs m ld rd F B → ∃ p, p ∈ es ∧ IsEid3 m lr.1 p.1 ∧ IsEid3 m lr.2 p.2) ∧
      (∀ p, p ∈ vs → ∃ lr, lr ∈ openPairs m ld rd F B ∧
        ((VidOr0 m (headG m lr.1) p.1 ∧ IsVid3 m lr.2 p.2) ∨
         (m.β 0 lr.1 = 0 ∧ IsVid3 m lr.1 p.1 ∧ VidOr0 m (headG m lr.2) p.2))) ∧
      (∀ lr, lr ∈ openPairs m ld rd F B →
        (∃ p, p ∈ vs ∧ VidOr0 m (headG m lr.1) p.1 ∧ IsVid3 m lr.2 p.2) ∧
        (m.β 0 lr.1 = 0 → ∃ p, p ∈ vs ∧ IsVid3 m lr.1 p.1 ∧ VidOr0 m (headG m lr.2) p.2)) ∧
      ((openPairs m ld rd F B).Pairwise (Far (SameCell (g3e m) m.n)) →
        ∀ lr, lr ∈ openPairs m ld rd F B → ∀ el er, IsEid3 m lr.1 el → IsEid3 m lr.2 er →
          IsEid3 m1 lr.1 (min el er)) ∧
      ((codePairs m (openPairs m ld rd F B)).Pairwise (Far (SameCell (g3v m) m.n)) →
        ∀ x, x ∈ codePairs m (openPairs m ld rd F B) → ∀ va vb, IsVid3 m x.1 va → IsVid3 m x.2 vb →
          IsVid3 m1 x.1 (min va vb)) ∧
      MergedIn cfg (fStores cfg) (min (listMin lo ld) (listMin ro rd)) (listMin lo ld) (listMin ro rd) m1 mf ∧
      MergedPairs cfg (eStores cfg) (es.filter keepPair) mf me ∧
      MergedPairs cfg (vStores cfg) (vs.filter keepPair) me m' := by
  obtain ⟨hl0, hln, hlu⟩ := hl
  obtain ⟨hr0, hrn, hru⟩ := hr
  obtain ⟨lo, ro, es, vs, m1, mf, me, hfo, hC, hlink, hF, hE, hV, htopo⟩ :=
    C05_threeSew3_effect cfg m.n ld rd m m' u hfc h
  obtain ⟨hw1, _, _, _⟩ := threeLink3_ok hwf hl0 hr0 hln hrn hlu hru hne hlink
  obtain ⟨F, B, O, hL⟩ := threeLink3_linked_open hwf hl0 hr0 hopen hlink
  have hmem : (ld, rd) ∈ openPairs m ld rd F B := (mem_openPairs _).2 (Or.inl ⟨0, O.fpos, rfl⟩)
  obtain ⟨hfo', hzip, pf, pe, pv, fl, fr⟩ := linked_faces_cells hwf hw1 hL hmem (openPairs_cov hwf hln hrn O)
    (fun pq hm => openPairs_reach pq hm) (fun pq hm => openPairs_faces hwf hln hrn O pq hm)
  rw [hfo] at hfo'
  simp only [Prod.mk.injEq, Out.ok.injEq, and_true] at hfo'
  obtain ⟨rfl, rfl⟩ := hfo'
  have hz : ∀ lr, lr ∈ (bfsPure (gIJ m 1 0) (m.n + 1) [ld] [0, ld] []).zip
      (bfsPure (gIJ m 0 1) (m.n + 1) [rd] [0, rd] []) → lr.1 ≠ 0 ∧ lr.1 < m.n ∧ lr.2 ≠ 0 ∧ lr.2 < m.n := by
    intro lr hm
    obtain ⟨_, _, _, _, a5, a6, a7, a8⟩ := hL.pairs lr ((hzip lr).1 hm)
    exact ⟨a5, a7, a6, a8⟩
  obtain ⟨c1, c2, c3, c4⟩ := collected_ids_gen hwf hC hz
  have eqF := sameCell_equiv (g3f m) m.n
  have hn1 : m1.n = m.n := hL.n
  have s_new : IsFid3 m1 ld (min (listMin (bfsPure (gIJ m 1 0) (m.n + 1) [ld] [0, ld] []) ld)
      (listMin (bfsPure (gIJ m 0 1) (m.n + 1) [rd] [0, rd] []) rd)) := by
    have := min_of_far (R1 := SameCell (g3f m1) m.n) eqF pf (by simp) (x := (ld, rd)) (by simp) fl fr
    unfold IsFid3; rw [hn1]; exact this
  refine ⟨F, B, m1, _, _, es, vs, mf, me, O, hlink, hw1, htopo, hL, hfo, hzip, pf, pe, pv, fl, fr, s_new, hC,
    ?_, ?_, ?_, ?_, ?_, ?_, hF, hE, hV⟩
  · intro p hp
    obtain ⟨lr, hm, k⟩ := c1 p hp
    exact ⟨lr, (hzip lr).1 hm, k⟩
  · intro lr hm
    exact c2 lr ((hzip lr).2 hm)
  · intro p hp
    obtain ⟨lr, hm, k⟩ := c3 p hp
    exact ⟨lr, (hzip lr).1 hm, k⟩
  · intro lr hm
    exact c4 lr ((hzip lr).2 hm)
  · intro hfar lr hm el er a b
    have := min_of_far (R1 := SameCell (g3e m1) m.n) (sameCell_equiv (g3e m) m.n) pe hfar hm a b
    unfold IsEid3; rw [hn1]; exact this
  · intro hfar x hm va vb a b
    have := min_of_far (R1 := SameCell (g3v m1) m.n) (sameCell_equiv (g3v m) m.n) pv hfar hm a b
    unfold IsVid3; rw [hn1]; exact this


/-! ## 3-unsew on open faces -/

/-- **`three_unlink` on an open left face** of a mirrored map whose faces are 3-linked as a whole:
    both faces are open with the same shape and exactly the pairs of `openPairs` get unlinked -/
theorem threeUnlink3_unlinked_open {n ld : Nat} {m m' : Map X} {u : Unit} (hw : WF 4 m) (hM : Mirror m)
    (hS : Sided3 m) (hln : ld < m.n) (hopen : ∃ t, it m 1 t ld = 0)
    (h : run (threeUnlink3 (X := X) n ld) m = (.ok u, m')) :
    ∃ F B, m.β 3 ld ≠ 0 ∧ OpenPair m ld (m.β 3 ld) F B ∧
      Linked3 m' m (openPairs m ld (m.β 3 ld) F B) ∧ WF 4 m' := by
  unfold threeUnlink3 at h
  obtain ⟨rd, hb0, h⟩ := run_ro_bind_ok (ReadOnly.rB _ _) h
  obtain ⟨rfl, _, _⟩ := run_rB_ok hb0
  obtain ⟨_, m0, hl, h⟩ := run_bind_ok h
  obtain ⟨_, _, hne, rfl⟩ := iUnlinkCore_ok hl
  have em : (m.setβ 3 ld 0).setβ 3 (m.β 3 ld) 0 = m.unlinkI 3 ld := rfl
  rw [em] at h
  obtain ⟨ls0, hb, h⟩ := run_ro_bind_ok (ReadOnly.rB _ _) h
  obtain ⟨rfl, _, _⟩ := run_rB_ok hb
  obtain ⟨rs0, hb', h⟩ := run_ro_bind_ok (ReadOnly.rB _ _) h
  obtain ⟨rfl, _, _⟩ := run_rB_ok hb'
  obtain ⟨⟨a, b⟩, m1, hwalk, h⟩ := run_bind_ok h
  simp only [] at h
  have hrn : m.β 3 ld < m.n := hw.range 3 (by omega) ld hln
  have hl0 : ld ≠ 0 := fun hh => hne (by rw [hh]; exact hw.null 3 (by omega))
  have hw0 : WF 4 (m.unlinkI 3 ld) := hw.unlinkI (by omega) (by omega) hln hne
  have L0 := Linked3.unlink_single hw hln hne
  obtain ⟨k, L1, ha, hb2, hst, hw1, hminw⟩ := unlinkWalk_unlinked (by omega) (by omega) _ _ _ _ m1 (a, b) hw0
    (hw0.range 1 (by omega) ld hln) (hw0.range 0 (by omega) _ hrn) hwalk
  have hβ1 : ∀ x, (m.unlinkI 3 ld).β 1 x = m.β 1 x := fun x => (L0.other 1 x (by omega)).symm
  have hβ0 : ∀ x, (m.unlinkI 3 ld).β 0 x = m.β 0 x := fun x => (L0.other 0 x (by omega)).symm
  rw [walkPairs_congr hβ1 hβ0, hβ1, hβ0] at L1
  simp only at ha hb2
  rw [it_congr hβ1, hβ1] at ha
  rw [it_congr hβ0, hβ0] at hb2
  have ha' : a = it m 1 (k + 1) ld := ha
  have hb' : b = it m 0 (k + 1) (m.β 3 ld) := hb2
  have LF : Linked3 m1 m (walkPairs m 1 0 (k + 1) ld (m.β 3 ld)) := by
    refine (L1.append L0).of_mem (fun x => ?_)
    simp only [walkPairs, List.mem_cons, List.mem_append, List.not_mem_nil, or_false]
    exact Or.comm
  have linkedF : ∀ t, t < k + 1 → m.β 3 (it m 1 t ld) = it m 0 t (m.β 3 ld) ∧ it m 1 t ld ≠ 0 ∧
      it m 0 t (m.β 3 ld) ≠ 0 := by
    intro t ht
    obtain ⟨a1, _, _, _, a5, a6, _, _⟩ := LF.pairs _ ((mem_walkPairs _ ld _ _).2 ⟨t, ht, rfl⟩)
    exact ⟨a1, a5, a6⟩
  by_cases ha0 : a = 0
  · rw [if_pos ha0] at h
    by_cases hb0' : b ≠ 0
    · rw [if_pos hb0'] at h; simp at h
    · rw [if_neg hb0'] at h
      have hb00 : b = 0 := by omega
      obtain ⟨ls1, hc, h⟩ := run_ro_bind_ok (ReadOnly.rB _ _) h
      obtain ⟨rfl, _, _⟩ := run_rB_ok hc
      obtain ⟨rs1, hc', h⟩ := run_ro_bind_ok (ReadOnly.rB _ _) h
      obtain ⟨rfl, _, _⟩ := run_rB_ok hc'
      obtain ⟨⟨a2, b2⟩, m2, hwalk2, h⟩ := run_bind_ok h
      obtain ⟨_, hm'⟩ := run_pure_ok h
      rw [hm']
      have gβ1 : ∀ x, m1.β 1 x = m.β 1 x := fun x => (LF.other 1 x (by omega)).symm
      have gβ0 : ∀ x, m1.β 0 x = m.β 0 x := fun x => (LF.other 0 x (by omega)).symm
      have hn1 : m1.n = m.n := LF.n.symm
      obtain ⟨k', L2, ha2, hb22, hst2, hw2, _⟩ := unlinkWalk_unlinked (by omega) (by omega) _ _ _ _ m2 (a2, b2) hw1
        (hw1.range 0 (by omega) ld (by rw [hn1]; exact hln)) (hw1.range 1 (by omega) _ (by rw [hn1]; exact hrn)) hwalk2
      rw [walkPairs_congr gβ0 gβ1, gβ0, gβ1] at L2
      simp only at ha2 hb22
      rw [it_congr gβ0, gβ0] at ha2
      rw [it_congr gβ1, gβ1] at hb22
      have ha20 : a2 = 0 := by rcases hst2 with hh | hh <;> exact hh
      have LA : Linked3 m2 m (openPairs m ld (m.β 3 ld) (k + 1) k') := by
        refine (L2.append LF).of_mem (fun x => ?_)
        unfold openPairs
        simp only [List.mem_append]
        exact Or.comm
      have eA : it m 0 k' (m.β 0 ld) = 0 := by rw [← ha2]; exact ha20
      have linkedB : ∀ s, s < k' → m.β 3 (it m 0 s (m.β 0 ld)) = it m 1 s (m.β 1 (m.β 3 ld)) ∧
          it m 0 s (m.β 0 ld) ≠ 0 ∧ it m 1 s (m.β 1 (m.β 3 ld)) ≠ 0 := by
        intro s hs'
        obtain ⟨a1, _, _, _, a5, a6, _, _⟩ := LA.pairs _ ((mem_openPairs _).2 (Or.inr ⟨s, hs', rfl⟩))
        exact ⟨a1, a5, a6⟩
      have b0n : m.β 0 ld < m.n := hw.range 0 (by omega) ld hln
      have b1n : m.β 1 (m.β 3 ld) < m.n := hw.range 1 (by omega) _ hrn
      -- the right-hand side ends where the left-hand side ends (Mirror + Sided3)
      have endB : it m 1 k' (m.β 1 (m.β 3 ld)) = 0 := by
        by_cases hy0 : it m 1 k' (m.β 1 (m.β 3 ld)) = 0
        · exact hy0
        · exfalso
          have key : ∀ x y, x < m.n → y < m.n → m.β 3 x = y → x ≠ 0 → y ≠ 0 → m.β 0 x = 0 → m.β 1 y ≠ 0 → False := by
            intro x y hx hy hxy hx0 hy0' h0x h1y
            have h3y : m.β 3 y = x := by rw [← hxy]; exact invol_back hw (by omega) (by omega) hx (by rw [hxy]; exact hy0')
            have hs := hS y hy h1y
            have h3n : m.β 3 (m.β 1 y) ≠ 0 := fun hh => hx0 (by rw [← h3y]; exact hs.2 hh)
            have := hM y hy h1y (by rw [h3y]; exact hx0) h3n
            rw [h3y] at this
            have hzn : m.β 3 (m.β 1 y) < m.n := hw.range 3 (by omega) _ (hw.range 1 (by omega) y hy)
            have := hw.inv01 _ hzn (by rw [this]; exact hx0)
            rw [‹m.β 1 (m.β 3 (m.β 1 y)) = x›, h0x] at this
            exact h3n this.symm
          cases k' with
          | zero =>
              exact key ld (m.β 3 ld) hln hrn rfl hl0 hne (by simpa using eA) (by simpa using hy0)
          | succ k'' =>
              obtain ⟨l1, l2, l3⟩ := linkedB k'' (by omega)
              refine key _ _ (it_lt hw (by omega) k'' _ b0n) (it_lt hw (by omega) k'' _ b1n) l1 l2 l3 ?_ ?_
              · rw [← it_succ']; exact eA
              · rw [← it_succ']; exact hy0
      refine ⟨k + 1, k', hne, ⟨by omega, by rw [← ha']; exact ha0, by rw [← hb']; exact hb00, eA, endB,
        fun t ht => (linkedF t ht).2, fun s hs' => (linkedB s hs').2⟩, LA, hw2⟩
  · exfalso
    have hald : a = ld := by rcases hst with hh | hh; exact hh; exact absurd hh ha0
    have hpl : it m 1 (k + 1) ld = ld := by rw [← ha']; exact hald
    obtain ⟨t, ht⟩ := hopen
    exact periodic_nz (hw.null 1 (by omega)) (by omega) hpl hl0 t ht

/-- the splitting loop of `three_unsew` at cell level: `m1` is the unlinked map (the topology of every
    state of the loop); for each pair of the zipped walks the edge storages split `min el er` between
    the edge identifiers (cell minima in `m1`) of the two darts, the vertex storages split
    `min v1 v2` between the vertex identifier of the head of the left dart (null when it has none)
    and that of the right dart, and, when the left dart has no predecessor, `min v3 v4` between the
    vertex identifier of the left dart and that of the head of the right dart -/
inductive UnsewnCells (cfg : Cfg X) (m1 : Map X) : List (Nat × Nat) → Map X → Map X → Prop
  | nil (s : Map X) : UnsewnCells cfg m1 [] s s
  | cons {l r el er v1 v2 : Nat} {rest : List (Nat × Nat)} {s sa sb sc s' : Map X} :
      IsEid3 m1 l el → IsEid3 m1 r er → SplitIn cfg (eStores cfg) el er (min el er) s sa →
      VidOr0 m1 (headG m1 l) v1 → IsVid3 m1 r v2 → SplitIn cfg (vStores cfg) v1 v2 (min v1 v2) sa sb →
      ((m1.β 0 l ≠ 0 ∧ sc = sb) ∨
       (m1.β 0 l = 0 ∧ ∃ v3 v4, IsVid3 m1 l v3 ∧ VidOr0 m1 (headG m1 r) v4 ∧
          SplitIn cfg (vStores cfg) v3 v4 (min v3 v4) sb sc)) →
      UnsewnCells cfg m1 rest sc s' → UnsewnCells cfg m1 ((l, r) :: rest) s s'

theorem headG_sameTopo {m m' : Map X} (st : SameTopo m m') (l : Nat) : headG m' l = headG m l := by
  unfold headG; rw [st.β 1 l, st.β 2 l]

theorem vidOr0_sameTopo {m m' : Map X} (st : SameTopo m m') {d v : Nat} (h : VidOr0 m' d v) : VidOr0 m d v := by
  rcases h with ⟨a, b⟩ | ⟨a, b⟩
  · exact Or.inl ⟨a, (isVid3_sameTopo st d v).1 b⟩
  · exact Or.inr ⟨a, b⟩

/-- the identifiers of the splitting loop are cell minima of the unlinked map -/
theorem unsewn_cells {cfg : Cfg X} {n : Nat} {m1 : Map X} (hw1 : WF 4 m1) :
    ∀ {zs : List (Nat × Nat)} {s s' : Map X}, UnsewnPairs cfg n zs s s' → SameTopo m1 s →
      (∀ lr, lr ∈ zs → lr.1 ≠ 0 ∧ lr.1 < m1.n ∧ lr.2 ≠ 0 ∧ lr.2 < m1.n) → UnsewnCells cfg m1 zs s s' := by
  intro zs s s' hU
  induction hU with
  | nil s => intro _ _; exact .nil s
  | @cons l r el er v1 v2 rest s sa sb sc s' hel her hA hv1 hv2 hB hC _ ih =>
      intro st hz
      obtain ⟨hl0, hln, hr0, hrn⟩ := hz (l, r) (by simp)
      simp only at hl0 hln hr0 hrn
      have ws : WF 4 s := hw1.sameTopo st
      have sta : SameTopo m1 sa := st.trans hA.topo
      have wa : WF 4 sa := hw1.sameTopo sta
      have stb : SameTopo m1 sb := sta.trans hB.topo
      have wb : WF 4 sb := hw1.sameTopo stb
      have e1 := (isEid3_sameTopo st _ _).1 (edgeId3_spec ws hl0 (by rw [st.n]; exact hln) hel).2
      have e2 := (isEid3_sameTopo st _ _).1 (edgeId3_spec ws hr0 (by rw [st.n]; exact hrn) her).2
      rw [head_code_eq] at hv1
      have k1 : VidOr0 m1 (headG m1 l) v1 := by
        have := vidOr0_sameTopo sta (vidOr0_spec wa (headG_lt wa (by rw [sta.n]; exact hln)) hv1)
        rw [headG_sameTopo sta] at this; exact this
      have k2 := (isVid3_sameTopo sta _ _).1 (vertexId3_spec wa hr0 (by rw [sta.n]; exact hrn) hv2).2
      have stc : SameTopo m1 sc := by
        rcases hC with ⟨_, rfl⟩ | ⟨_, v3, v4, _, _, hS⟩
        · exact stb
        · exact stb.trans hS.topo
      refine .cons e1 e2 hA k1 k2 hB ?_ (ih stc fun lr hm => hz lr (List.mem_cons_of_mem _ hm))
      rcases hC with ⟨c, rfl⟩ | ⟨c, v3, v4, hv3, hv4, hS⟩
      · exact Or.inl ⟨by rw [← stb.β 0 l]; exact c, rfl⟩
      · rw [head_code_eq] at hv4
        refine Or.inr ⟨by rw [← stb.β 0 l]; exact c, v3, v4, ?_, ?_, hS⟩
        · exact (isVid3_sameTopo stb _ _).1 (vertexId3_spec wb hl0 (by rw [stb.n]; exact hln) hv3).2
        · have := vidOr0_sameTopo stb (vidOr0_spec wb (headG_lt wb (by rw [stb.n]; exact hrn)) hv4)
          rw [headG_sameTopo stb] at this; exact this

theorem openPair_congr {m m1 : Map X} (e1 : ∀ x, m1.β 1 x = m.β 1 x) (e0 : ∀ x, m1.β 0 x = m.β 0 x)
    {ld rd F B : Nat} (O : OpenPair m ld rd F B) :
    OpenPair m1 ld rd F B ∧ openPairs m1 ld rd F B = openPairs m ld rd F B := by
  have i1 := it_congr e1
  have i0 := it_congr e0
  refine ⟨⟨O.fpos, by rw [i1]; exact O.endF, by rw [i0]; exact O.endG, by rw [i0, e0]; exact O.endA,
    by rw [i1, e1]; exact O.endB, fun t ht => by rw [i1, i0]; exact O.nzF t ht,
    fun s hs => by rw [i0, i1, e0, e1]; exact O.nzB s hs⟩, ?_⟩
  unfold openPairs
  rw [walkPairs_congr e1 e0, walkPairs_congr e0 e1, e0, e1]

theorem codePairs_congr {m m1 : Map X} (h : ∀ e x, e ≠ 3 → m1.β e x = m.β e x) (ps : List (Nat × Nat)) :
    codePairs m1 ps = codePairs m ps := by
  unfold codePairs headG
  simp only [h 1 _ (by omega), h 2 _ (by omega), h 0 _ (by omega)]

/-- **C05, 3-unsew at cell level on OPEN faces** (mirrored map whose faces are 3-linked as a whole).
    The left face is open; the call returned `Ok`.  Then both faces are open with the same shape,
    `three_unlink` unlinks exactly `ps = openPairs m ld (β3 ld) F B`, the zipped face walks of the
    code (on the unlinked map `m1`) list exactly `ps`, the OLD partitions are the new ones with
    `ld — rd` (faces), the pairs of `ps` (edges), the pairs of `codePairs m ps` (vertices) united;
    the face identifiers split into are the smallest darts of the two new faces, the one split from
    is the smallest dart of the old face; every identifier of the splitting loop is the smallest
    dart of its cell in `m1` (`UnsewnCells`; null for a missing head); under the property's proviso
    the identifier split from, `min` of the two, is the smallest dart of the old cell. -/
theorem C05_threeUnsew3_cells_open (cfg : Cfg X) (m m' : Map X) (ld : Nat) (u : Unit)
    (hwf : WF 4 m) (hM : Mirror m) (hS : Sided3 m) (hl : C02.InUse m ld) (hfc : m.fc = 0)
    (hopen : ∃ t, it m 1 t ld = 0)
    (h : run (threeUnsew3 cfg m.n ld) m = (.ok u, m')) :
    ∃ F B m1 lo ro mf,
      m.β 3 ld ≠ 0 ∧ OpenPair m ld (m.β 3 ld) F B ∧
      run (threeUnlink3 (X := X) m.n ld) m = (.ok (), m1) ∧ WF 4 m1 ∧ SameTopo m1 m' ∧
      Linked3 m1 m (openPairs m ld (m.β 3 ld) F B) ∧
      run (faceOrbits3 m.n ld (m.β 3 ld)) m1 = (.ok (lo, ro), m1) ∧
      (∀ pq, pq ∈ lo.zip ro ↔ pq ∈ openPairs m ld (m.β 3 ld) F B) ∧
      (∀ d e, SameCell (g3f m) m.n d e ↔ Glue (SameCell (g3f m1) m.n) [(ld, m.β 3 ld)] d e) ∧
      (∀ d e, SameCell (g3e m) m.n d e ↔
        Glue (SameCell (g3e m1) m.n) (openPairs m ld (m.β 3 ld) F B) d e) ∧
      (∀ d e, SameCell (g3v m) m.n d e ↔
        Glue (SameCell (g3v m1) m.n) (codePairs m (openPairs m ld (m.β 3 ld) F B)) d e) ∧
      IsFid3 m1 ld (listMin lo ld) ∧ IsFid3 m1 (m.β 3 ld) (listMin ro (m.β 3 ld)) ∧
      IsFid3 m ld (min (listMin lo ld) (listMin ro (m.β 3 ld))) ∧
      SplitIn cfg (fStores cfg) (listMin lo ld) (listMin ro (m.β 3 ld))
        (min (listMin lo ld) (listMin ro (m.β 3 ld))) m1 mf ∧
      UnsewnCells cfg m1 (lo.zip ro) mf m' ∧
      ((openPairs m ld (m.β 3 ld) F B).Pairwise (Far (SameCell (g3e m1) m.n)) →
        ∀ lr, lr ∈ openPairs m ld (m.β 3 ld) F B → ∀ el er, IsEid3 m1 lr.1 el → IsEid3 m1 lr.2 er →
          IsEid3 m lr.1 (min el er)) ∧
      ((codePairs m (openPairs m ld (m.β 3 ld) F B)).Pairwise (Far (SameCell (g3v m1) m.n)) →
        ∀ x, x ∈ codePairs m (openPairs m ld (m.β 3 ld) F B) → ∀ va vb, IsVid3 m1 x.1 va → IsVid3 m1 x.2 vb →
          IsVid3 m x.1 (min va vb)) := by
  obtain ⟨hl0, hln, hlu⟩ := hl
  obtain ⟨m1, lo, ro, mf, hunl, hfo, hF, hU, htopo⟩ := C05_threeUnsew3_effect cfg m.n ld m m' u hfc h
  obtain ⟨F, B, hne, O, hL, hw1⟩ := threeUnlink3_unlinked_open hwf hM hS hln hopen hunl
  have hrn : m.β 3 ld < m.n := hwf.range 3 (by omega) ld hln
  have hn1 : m1.n = m.n := hL.n.symm
  have eo : ∀ e x, e ≠ 3 → m1.β e x = m.β e x := fun e x he => (hL.other e x he).symm
  obtain ⟨O1, eps⟩ := openPair_congr (m := m) (m1 := m1) (fun x => eo 1 x (by omega)) (fun x => eo 0 x (by omega)) O
  have hL1 : Linked3 m1 m (openPairs m1 ld (m.β 3 ld) F B) := by rw [eps]; exact hL
  have hmem : (ld, m.β 3 ld) ∈ openPairs m1 ld (m.β 3 ld) F B := (mem_openPairs _).2 (Or.inl ⟨0, O.fpos, rfl⟩)
  obtain ⟨hfo', hzip, pf, pe, pv, fl, fr⟩ := linked_faces_cells hw1 hwf hL1 hmem
    (openPairs_cov hw1 (by rw [hn1]; exact hln) (by rw [hn1]; exact hrn) O1)
    (fun pq hm => openPairs_reach pq hm)
    (fun pq hm => openPairs_faces hw1 (by rw [hn1]; exact hln) (by rw [hn1]; exact hrn) O1 pq hm)
  rw [eps] at hzip pe pv
  rw [codePairs_congr eo] at pv
  rw [hn1] at hfo' hzip pf pe pv fl fr
  rw [hfo] at hfo'
  simp only [Prod.mk.injEq, Out.ok.injEq, and_true] at hfo'
  obtain ⟨rfl, rfl⟩ := hfo'
  have hz : ∀ lr, lr ∈ (bfsPure (gIJ m1 1 0) (m.n + 1) [ld] [0, ld] []).zip
      (bfsPure (gIJ m1 0 1) (m.n + 1) [m.β 3 ld] [0, m.β 3 ld] []) →
      lr.1 ≠ 0 ∧ lr.1 < m1.n ∧ lr.2 ≠ 0 ∧ lr.2 < m1.n := by
    intro lr hm
    obtain ⟨_, _, _, _, a5, a6, a7, a8⟩ := hL.pairs lr ((hzip lr).1 hm)
    exact ⟨a5, a7, a6, a8⟩
  have hUC := unsewn_cells hw1 hU hF.topo hz
  have eqF := sameCell_equiv (g3f m1) m.n
  have s_old : IsFid3 m ld (min (listMin (bfsPure (gIJ m1 1 0) (m.n + 1) [ld] [0, ld] []) ld)
      (listMin (bfsPure (gIJ m1 0 1) (m.n + 1) [m.β 3 ld] [0, m.β 3 ld] []) (m.β 3 ld))) := by
    have a := fl; have b := fr
    unfold IsFid3 at a b
    rw [hn1] at a b
    exact min_of_far (R1 := SameCell (g3f m) m.n) eqF pf (by simp) (x := (ld, m.β 3 ld)) (by simp) a b
  refine ⟨F, B, m1, _, _, mf, hne, O, hunl, hw1, htopo, hL, hfo, hzip, pf, pe, pv, fl, fr, s_old, hF, hUC, ?_, ?_⟩
  · intro hfar lr hm el er a b
    unfold IsEid3 at a b
    rw [hn1] at a b
    exact min_of_far (R1 := SameCell (g3e m) m.n) (sameCell_equiv (g3e m1) m.n) pe hfar hm a b
  · intro hfar x hm va vb a b
    unfold IsVid3 at a b
    rw [hn1] at a b
    exact min_of_far (R1 := SameCell (g3v m) m.n) (sameCell_equiv (g3v m1) m.n) pv hfar hm a b

/-! ## non-vacuity: two open chains of three darts -/

/-- two open chains `1 → 2 → 3` and `4 → 5 → 6`, geometrically mirror images (the second runs
    backwards over the points of the first): 3-sewable along `(2, 5)`, which links `(2, 5)`,
    `(3, 4)` forward and `(1, 6)` backward -/
def exChains : Map Val :=
  { (Map.empty 4 1 7 : Map Val) with
    b := #[#[0, 0, 1, 2, 0, 4, 5], #[0, 2, 3, 0, 5, 6, 0], Array.replicate 7 0, Array.replicate 7 0]
    a := #[#[none, some (.pt 0 0 0), some (.pt 1 0 0), some (.pt 2 0 0), some (.pt 3 0 0), some (.pt 2 0 0),
             some (.pt 1 0 0)]] }

example : WF 4 exChains ∧ (run (threeSew3 plainCfg exChains.n 2 5) exChains).1 = .ok () ∧
    it exChains 1 2 2 = 0 := by decide +kernel
example := C05_threeSew3_cells_open plainCfg exChains (run (threeSew3 plainCfg exChains.n 2 5) exChains).2 2 5 ()
  (by decide +kernel) (by decide +kernel) (by decide +kernel) (by decide) rfl ⟨2, by decide +kernel⟩
  (run_of_fst (by decide +kernel))
/-- its pairs, and the vertex unions of the code: `3 — 5`, `2 — 6` (darts 3 and 6 have no head, dart
    1 has no predecessor but its partner 6 has no head) -/
example : openPairs exChains 2 5 2 1 = [(2, 5), (3, 4), (1, 6)] ∧
    codePairs exChains (openPairs exChains 2 5 2 1) = [(3, 5), (2, 6)] := by decide +kernel


/-- the two 3-sewn tetrahedra of `exTets` after a 1-unsew of dart 3: the glued faces are open
    (`1 → 2 → 3` against `14, 13, 15` along β0), still 3-linked dart by dart; every dart of the
    walk has a head through β2 -/
def exTetsCut : Map Val := (run (oneUnsew3 plainCfg exTets.n 3) exTets).2

example : (run (oneUnsew3 plainCfg exTets.n 3) exTets).1 = .ok () ∧ it exTetsCut 1 3 1 = 0 ∧
    (run (threeUnsew3 plainCfg exTetsCut.n 1) exTetsCut).1 = .ok () ∧
    (run (threeUnsew3 plainCfg exTetsCut.n 2) exTetsCut).1 = .ok () := by decide +kernel
/-- from the first dart of the open face (no backward part) … -/
example := C05_threeUnsew3_cells_open plainCfg exTetsCut (run (threeUnsew3 plainCfg exTetsCut.n 1) exTetsCut).2 1 ()
  (by decide +kernel) (by decide +kernel) (by decide +kernel) (by decide +kernel) (by decide +kernel)
  ⟨3, by decide +kernel⟩ (run_of_fst (by decide +kernel))
/-- … and from the middle one (one pair forward, one pair backward) -/
example := C05_threeUnsew3_cells_open plainCfg exTetsCut (run (threeUnsew3 plainCfg exTetsCut.n 2) exTetsCut).2 2 ()
  (by decide +kernel) (by decide +kernel) (by decide +kernel) (by decide +kernel) (by decide +kernel)
  ⟨2, by decide +kernel⟩ (run_of_fst (by decide +kernel))
example : openPairs exTetsCut 2 13 2 1 = [(2, 13), (3, 15), (1, 14)] ∧
    codePairs exTetsCut (openPairs exTetsCut 2 13 2 1) = [(3, 13), (4, 15), (2, 14), (1, 23)] := by decide +kernel

/-- the open faces unsewn, then 3-sewn again from the middle dart -/
def exTetsCutOpen : Map Val := (run (threeUnsew3 plainCfg exTetsCut.n 2) exTetsCut).2
example : (run (threeSew3 plainCfg exTetsCutOpen.n 2 13) exTetsCutOpen).1 = .ok () ∧
    it exTetsCutOpen 1 2 2 = 0 := by decide +kernel
example := C05_threeSew3_cells_open plainCfg exTetsCutOpen
  (run (threeSew3 plainCfg exTetsCutOpen.n 2 13) exTetsCutOpen).2 2 13 ()
  (by decide +kernel) (by decide +kernel) (by decide +kernel) (by decide) (by decide +kernel) ⟨2, by decide +kernel⟩
  (run_of_fst (by decide +kernel))

end HC.C05
