/-
  C12 — grid builders produce the advertised regular mesh for every size.

  Model: `Model/Grid.lean` (hand-written, tied by the correspondence run) over the GENERATED tables
  `Gen/GridTables.lean`.  Everything below holds for **all** `nx, ny[, nz] ≥ 1`, all origins and
  lengths (over `Rat`).

  Proved here
    C12_grid2_WF / C12_split2_WF / C12_hex3_WF   well-formedness (`WF 3` / `WF 4`) of the three builders
    C12_grid2_beta2       β2 of the four sides of cell (ix,iy): null iff the side is on the outer
                          boundary, else the facing dart of the adjacent cell
    C12_grid2_faces       the four darts of a cell form a β1-cycle; two darts are in the same face
                          iff they belong to the same cell (faces ↔ cells, nx·ny of them)
    C12_grid2_corners / C12_grid2_vertices / C12_grid2_area
                          `vertex_id` ↔ lattice points (bijection with the (nx+1)(ny+1) points), every vertex
                          carries exactly origin + (i·lx, j·ly); faces counter-clockwise with area lx·ly
    C12_build2_ok         `build()` on a valid plain-grid descriptor returns Ok with that map (the face-count
                          debug assertion holds: `iter_faces` yields nx·ny ids)
    C12_split2_faces      same for the two triangles of a split cell, and the diagonal gluing
    C12_split2_corners / C12_split2_vertices / C12_split2_area   the split grid's vertices, coordinates, areas
    C12_hex3_cells        the 24 darts of a cell are closed under β0, β1, β2 (volumes ↔ cells) and
                          β3 is null iff the face is on the outer boundary, else the facing dart
    C12_parse2/3_error_iff, C12_parse2/3_forms_agree   descriptor parsing
    C12_build2_zero_count_empty / C12_build2_total   zero cell count ⇒ Ok(empty map), never a panic (after the
                          repair of D6 in /repo 9dd602d); plain grid: every nx, ny gives a WF map with nx·ny faces
  and the `NOT PROVED` comment block (after `C12_grid2_area`).  Second part: `Props/C12b.lean`.
-/
import Mathlib.Tactic.Ring
import Mathlib.Algebra.Order.Field.Rat
import Honeycomb.Lemmas.GridLink
import Honeycomb.Lemmas.GridVertex
import Honeycomb.Lemmas.GridVertexSplit
import Honeycomb.Lemmas.GridFace
import Honeycomb.Lemmas.Run
import Honeycomb.Lemmas.WFLink

namespace HC.C12
open HC HC.Gen

/-! ## vertex placement only writes vertex values -/

theorem sameTopo_foldl {α : Type} (f : Map Val → α → Map Val) (hf : ∀ m x, SameTopo m (f m x)) :
    ∀ (l : List α) (m : Map Val), SameTopo m (l.foldl f m) := by
  intro l
  induction l with
  | nil => intro m; exact SameTopo.refl m
  | cons x xs ih => intro m; exact (hf m x).trans (ih (f m x))

theorem sameTopo_writeVertex (m : Map Val) (id : Nat) (p : Val) : SameTopo m (writeVertex m id p) :=
  SameTopo.setA m 0 id (some p)

theorem sameTopo_placeBlock (ox oy lx ly : Rat) (nx ny : Nat) (m : Map Val)
    (blk : Nat × Nat × Nat × Nat × Nat) : SameTopo m (placeBlock ox oy lx ly nx ny m blk) := by
  unfold placeBlock
  apply sameTopo_foldl
  intro m c
  unfold placeOne
  exact sameTopo_writeVertex _ _ _

theorem sameTopo_placeHex (ox oy oz : Rat) (nx ny : Nat) (lx ly lz : Rat) (m : Map Val) (d : Nat) :
    SameTopo m (placeHex ox oy oz nx ny lx ly lz m d) := by
  unfold placeHex
  split
  · split
    · exact sameTopo_writeVertex _ _ _
    · exact SameTopo.refl m
  · exact SameTopo.refl m

theorem sameTopo_grid2 (ox oy : Rat) (nx ny : Nat) (lx ly : Rat) :
    SameTopo (gridMap 3 (squareK * nx * ny) (squareβ nx ny)) (buildGrid2 ox oy nx ny lx ly) :=
  sameTopo_foldl _ (sameTopo_placeBlock ox oy lx ly nx ny) _ _

theorem sameTopo_split2 (ox oy : Rat) (nx ny : Nat) (lx ly : Rat) :
    SameTopo (gridMap 3 (trisK * nx * ny) (trisβ nx ny)) (buildSplit2 ox oy nx ny lx ly) :=
  sameTopo_foldl _ (sameTopo_placeBlock ox oy lx ly nx ny) _ _

theorem sameTopo_hex3 (ox oy oz : Rat) (nx ny nz : Nat) (lx ly lz : Rat) :
    SameTopo (gridMap 4 (hexK * nx * ny * nz) (hexβ nx ny nz)) (buildHex3 ox oy oz nx ny nz lx ly lz) :=
  sameTopo_foldl _ (sameTopo_placeHex ox oy oz nx ny lx ly lz) _ _

/-! ## (a) well-formedness -/

/-- `build_2d_grid` returns a well-formed 2-map (β0/β1 inverse, β2 fixed-point-free involution,
    images in range, inert null dart, consistent vector sizes, no removed dart) for every size -/
theorem C12_grid2_WF (ox oy lx ly : Rat) {nx ny : Nat} (hnx : 0 < nx) (hny : 0 < ny) :
    WF 3 (buildGrid2 ox oy nx ny lx ly) := by
  have h := absWF squareShape squareShape_ok (nz := 1) hnx hny
  rw [← squareMap_eq hnx hny] at h
  exact h.sameTopo (sameTopo_grid2 ox oy nx ny lx ly)

theorem C12_split2_WF (ox oy lx ly : Rat) {nx ny : Nat} (hnx : 0 < nx) (hny : 0 < ny) :
    WF 3 (buildSplit2 ox oy nx ny lx ly) := by
  have h := absWF trisShape trisShape_ok (nz := 1) hnx hny
  rw [← trisMap_eq hnx hny] at h
  exact h.sameTopo (sameTopo_split2 ox oy nx ny lx ly)

theorem C12_hex3_WF (ox oy oz lx ly lz : Rat) {nx ny nz : Nat} (hnx : 0 < nx) (hny : 0 < ny) :
    WF 4 (buildHex3 ox oy oz nx ny nz lx ly lz) := by
  have h := absWF hexShape hexShape_ok (nz := nz) hnx hny
  rw [← hexMap_eq hnx hny] at h
  exact h.sameTopo (sameTopo_hex3 ox oy oz nx ny nz lx ly lz)

example : WF 3 (buildGrid2 0 0 3 2 1 (1/2)) := C12_grid2_WF 0 0 1 (1/2) (by decide) (by decide)
example : WF 3 (buildSplit2 (-1) 2 1 5 3 1) := C12_split2_WF (-1) 2 3 1 (by decide) (by decide)
example : WF 4 (buildHex3 0 0 0 2 1 3 1 1 2) := C12_hex3_WF 0 0 0 1 1 2 (by decide) (by decide)

/-! ## β of the built maps at a dart given by cell and local index -/

/-- number of darts (null dart included) -/
theorem grid2_n (ox oy lx ly : Rat) (nx ny : Nat) : (buildGrid2 ox oy nx ny lx ly).n = 4 * nx * ny + 1 :=
  (sameTopo_grid2 ox oy nx ny lx ly).n

theorem split2_n (ox oy lx ly : Rat) (nx ny : Nat) : (buildSplit2 ox oy nx ny lx ly).n = 6 * nx * ny + 1 :=
  (sameTopo_split2 ox oy nx ny lx ly).n

theorem hex3_n (ox oy oz lx ly lz : Rat) (nx ny nz : Nat) :
    (buildHex3 ox oy oz nx ny nz lx ly lz).n = 24 * nx * ny * nz + 1 :=
  (sameTopo_hex3 ox oy oz nx ny nz lx ly lz).n

theorem grid2_β (ox oy lx ly : Rat) {nx ny ix iy o i : Nat} (hx : ix < nx) (hy : iy < ny)
    (ho : o < 4) (hi : i < 3) :
    (buildGrid2 ox oy nx ny lx ly).β i (dartOf 4 nx ny ix iy 0 o) =
      absEntry 4 nx ny 1 ix iy 0 (squareShape.at o i).1 (squareShape.at o i).2 := by
  rw [(sameTopo_grid2 ox oy nx ny lx ly).β, gridMap_β]
  have h1 := dartOf_le (K := 4) (nz := 1) hx hy (Nat.lt_succ_self 0) ho
  have h2 := dartOf_pos (K := 4) (nx := nx) (ny := ny) (ix := ix) (iy := iy) (iz := 0) (o := o)
  have e : squareK * nx * ny = 4 * (nx * ny * 1) := by
    show 4 * nx * ny = 4 * (nx * ny * 1)
    rw [Nat.mul_one, Nat.mul_assoc]
  have h3 : dartOf 4 nx ny ix iy 0 o ≠ 0 := by omega
  rw [e]
  simp only [hi, h1, h3, ne_eq, not_false_eq_true, and_self, if_true]
  exact (squareβ_dartOf hx hy ho i).trans (square_link hx hy ho hi)

theorem split2_β (ox oy lx ly : Rat) {nx ny ix iy o i : Nat} (hx : ix < nx) (hy : iy < ny)
    (ho : o < 6) (hi : i < 3) :
    (buildSplit2 ox oy nx ny lx ly).β i (dartOf 6 nx ny ix iy 0 o) =
      absEntry 6 nx ny 1 ix iy 0 (trisShape.at o i).1 (trisShape.at o i).2 := by
  rw [(sameTopo_split2 ox oy nx ny lx ly).β, gridMap_β]
  have h1 := dartOf_le (K := 6) (nz := 1) hx hy (Nat.lt_succ_self 0) ho
  have h2 := dartOf_pos (K := 6) (nx := nx) (ny := ny) (ix := ix) (iy := iy) (iz := 0) (o := o)
  have e : trisK * nx * ny = 6 * (nx * ny * 1) := by
    show 6 * nx * ny = 6 * (nx * ny * 1)
    rw [Nat.mul_one, Nat.mul_assoc]
  have h3 : dartOf 6 nx ny ix iy 0 o ≠ 0 := by omega
  rw [e]
  simp only [hi, h1, h3, ne_eq, not_false_eq_true, and_self, if_true]
  exact (trisβ_dartOf hx hy ho i).trans (tris_link hx hy ho hi)

theorem hex3_β (ox oy oz lx ly lz : Rat) {nx ny nz ix iy iz o i : Nat} (hx : ix < nx) (hy : iy < ny)
    (hz : iz < nz) (ho : o < 24) (hi : i < 4) :
    (buildHex3 ox oy oz nx ny nz lx ly lz).β i (dartOf 24 nx ny ix iy iz o) =
      absEntry 24 nx ny nz ix iy iz (hexShape.at o i).1 (hexShape.at o i).2 := by
  rw [(sameTopo_hex3 ox oy oz nx ny nz lx ly lz).β, gridMap_β]
  have h1 := dartOf_le (K := 24) hx hy hz ho
  have h2 := dartOf_pos (K := 24) (nx := nx) (ny := ny) (ix := ix) (iy := iy) (iz := iz) (o := o)
  have e : hexK * nx * ny * nz = 24 * (nx * ny * nz) := by
    show 24 * nx * ny * nz = 24 * (nx * ny * nz)
    rw [Nat.mul_assoc 24, Nat.mul_assoc 24]
  have h3 : dartOf 24 nx ny ix iy iz o ≠ 0 := by omega
  rw [e]
  simp only [hi, h1, h3, ne_eq, not_false_eq_true, and_self, if_true]
  exact (hexβ_dartOf hx hy ho i).trans (hex_link hx hy hz ho hi)

/-! ## (b) gluing of neighbours, free outer boundary -/

/-- Local darts 0,1,2,3 of cell `(ix, iy)` are its bottom, right, top and left sides (see
    `C12_grid2_corners`).  β2 of a side is null **iff** the side lies on the outer boundary of the
    grid; otherwise it is the facing side of the adjacent cell: bottom ↔ top of the cell below,
    right ↔ left of the cell to the right, and so on. -/
theorem C12_grid2_beta2 (ox oy lx ly : Rat) {nx ny ix iy : Nat} (hx : ix < nx) (hy : iy < ny) :
    let m := buildGrid2 ox oy nx ny lx ly
    let D := fun (x y k : Nat) => dartOf 4 nx ny x y 0 k
    m.β 2 (D ix iy 0) = (if iy = 0 then 0 else D ix (iy - 1) 2) ∧
    m.β 2 (D ix iy 1) = (if ix + 1 = nx then 0 else D (ix + 1) iy 3) ∧
    m.β 2 (D ix iy 2) = (if iy + 1 = ny then 0 else D ix (iy + 1) 0) ∧
    m.β 2 (D ix iy 3) = (if ix = 0 then 0 else D (ix - 1) iy 1) := by
  intro m D
  refine ⟨?_, ?_, ?_, ?_⟩
  · exact grid2_β ox oy lx ly hx hy (by decide : 0 < 4) (by decide : 2 < 3)
  · exact grid2_β ox oy lx ly hx hy (by decide : 1 < 4) (by decide : 2 < 3)
  · exact grid2_β ox oy lx ly hx hy (by decide : 2 < 4) (by decide : 2 < 3)
  · exact grid2_β ox oy lx ly hx hy (by decide : 3 < 4) (by decide : 2 < 3)

/-- every non-null dart is a side of exactly one cell -/
theorem C12_grid2_darts {nx ny : Nat} (hnx : 0 < nx) (hny : 0 < ny) {d : Nat} (h1 : 1 ≤ d)
    (h2 : d ≤ 4 * nx * ny) :
    ∃ ix iy k, ix < nx ∧ iy < ny ∧ k < 4 ∧ d = dartOf 4 nx ny ix iy 0 k ∧
      ∀ ix' iy' k', ix' < nx → iy' < ny → k' < 4 → d = dartOf 4 nx ny ix' iy' 0 k' →
        ix' = ix ∧ iy' = iy ∧ k' = k := by
  have h2' : d ≤ 4 * (nx * ny * 1) := by rw [Nat.mul_one, ← Nat.mul_assoc]; exact h2
  obtain ⟨ix, iy, iz, o, hx, hy, hz, ho, e⟩ := decode (K := 4) (by decide) hnx hny h1 h2'
  have hz0 : iz = 0 := by omega
  subst hz0
  refine ⟨ix, iy, o, hx, hy, ho, e, ?_⟩
  intro ix' iy' k' hx' hy' hk' e'
  obtain ⟨a, b, _, c⟩ := dartOf_inj hx' hy' hk' hx hy ho (e'.symm.trans e)
  exact ⟨a, b, c⟩

example : (buildGrid2 0 0 3 2 1 1).β 2 (dartOf 4 3 2 1 0 0 1) = dartOf 4 3 2 2 0 0 3 := by decide

/-! ## (c) faces = cells -/

/-- `k`-fold application -/
def iter (f : Nat → Nat) : Nat → Nat → Nat
  | 0, x => x
  | k + 1, x => iter f k (f x)

/-- `e` is reached from `d` by following β1 -/
def SameFace (m : Map Val) (d e : Nat) : Prop := ∃ k, iter (m.β 1) k d = e

theorem grid2_β1 (ox oy lx ly : Rat) {nx ny ix iy k : Nat} (hx : ix < nx) (hy : iy < ny) (hk : k < 4) :
    (buildGrid2 ox oy nx ny lx ly).β 1 (dartOf 4 nx ny ix iy 0 k) = dartOf 4 nx ny ix iy 0 ((k + 1) % 4) := by
  rw [grid2_β ox oy lx ly hx hy hk (by decide : 1 < 3)]
  have k4 : k = 0 ∨ k = 1 ∨ k = 2 ∨ k = 3 := by omega
  rcases k4 with rfl | rfl | rfl | rfl <;> rfl

theorem grid2_β0 (ox oy lx ly : Rat) {nx ny ix iy k : Nat} (hx : ix < nx) (hy : iy < ny) (hk : k < 4) :
    (buildGrid2 ox oy nx ny lx ly).β 0 (dartOf 4 nx ny ix iy 0 k) = dartOf 4 nx ny ix iy 0 ((k + 3) % 4) := by
  rw [grid2_β ox oy lx ly hx hy hk (by decide : 0 < 3)]
  have k4 : k = 0 ∨ k = 1 ∨ k = 2 ∨ k = 3 := by omega
  rcases k4 with rfl | rfl | rfl | rfl <;> rfl

theorem grid2_iter (ox oy lx ly : Rat) {nx ny ix iy : Nat} (hx : ix < nx) (hy : iy < ny) :
    ∀ (j k : Nat), k < 4 → iter ((buildGrid2 ox oy nx ny lx ly).β 1) j (dartOf 4 nx ny ix iy 0 k) =
      dartOf 4 nx ny ix iy 0 ((k + j) % 4) := by
  intro j
  induction j with
  | zero => intro k hk; simp [iter, Nat.mod_eq_of_lt hk]
  | succ j ih =>
      intro k hk
      rw [iter, grid2_β1 ox oy lx ly hx hy hk, ih _ (Nat.mod_lt _ (by decide))]
      have : ((k + 1) % 4 + j) % 4 = (k + (j + 1)) % 4 := by omega
      rw [this]

/-- The four darts of cell `(ix, iy)` form a β1-cycle `0 → 1 → 2 → 3 → 0` (β0 runs it backwards),
    and two darts lie in the same face iff they are sides of the same cell: the faces of the map are
    in bijection with the `nx·ny` cells (every non-null dart is a side of exactly one cell by
    `C12_grid2_darts`). -/
theorem C12_grid2_faces (ox oy lx ly : Rat) {nx ny ix iy k : Nat} (hx : ix < nx) (hy : iy < ny) (hk : k < 4) :
    let m := buildGrid2 ox oy nx ny lx ly
    let D := fun (x y k : Nat) => dartOf 4 nx ny x y 0 k
    m.β 1 (D ix iy k) = D ix iy ((k + 1) % 4) ∧
    m.β 0 (D ix iy k) = D ix iy ((k + 3) % 4) ∧
    (∀ ix' iy' k', ix' < nx → iy' < ny → k' < 4 →
      (SameFace m (D ix iy k) (D ix' iy' k') ↔ ix' = ix ∧ iy' = iy)) := by
  intro m D
  refine ⟨grid2_β1 ox oy lx ly hx hy hk, grid2_β0 ox oy lx ly hx hy hk, ?_⟩
  intro ix' iy' k' hx' hy' hk'
  constructor
  · rintro ⟨j, hj⟩
    rw [grid2_iter ox oy lx ly hx hy j k hk] at hj
    obtain ⟨a, b, _, _⟩ := dartOf_inj hx hy (Nat.mod_lt _ (by decide)) hx' hy' hk' hj
    exact ⟨a.symm, b.symm⟩
  · rintro ⟨rfl, rfl⟩
    refine ⟨(k' + 4 - k) % 4, ?_⟩
    rw [grid2_iter ox oy lx ly hx hy _ k hk]
    have : (k + (k' + 4 - k) % 4) % 4 = k' := by omega
    rw [this]

example : SameFace (buildGrid2 0 0 2 2 1 1) 5 8 := ⟨3, by decide⟩

/-! ## descriptor parsing -/

theorem badLen_true {x : Rat} : badLen x = true ↔ x ≤ 0 := by simp [badLen]

theorem badLen_pos {x : Rat} (h : 0 < x) : badLen x = false := by
  simp [badLen, Rat.not_le.mpr h]

theorem natMul_pos {n : Nat} {l : Rat} (hn : 0 < n) (hl : 0 < l) : 0 < (n : Rat) * l :=
  Rat.mul_pos (Rat.natCast_pos.mpr hn) hl

theorem natMul_div {n : Nat} (hn : 0 < n) (l : Rat) : (n : Rat) * l / (n : Rat) = l := by
  rw [Rat.mul_comm, Rat.mul_div_cancel (Rat.ne_of_lt (Rat.natCast_pos.mpr hn)).symm]

theorem ceilCount_mul (n : Nat) {l : Rat} (hl : 0 < l) : ceilCount ((n : Rat) * l) l = n := by
  unfold ceilCount
  rw [Rat.mul_div_cancel (Rat.ne_of_lt hl).symm, ← Rat.intCast_natCast, Rat.ceil_intCast]
  simp

/-- number of descriptor fields that are set -/
def nFields {α β γ : Type} (a : Option α) (b : Option β) (c : Option γ) : Nat :=
  a.isSome.toNat + b.isSome.toNat + c.isSome.toNat

/-- `parse_2d` never panics; it reports an error **exactly** when fewer than two fields are given
    (`MissingGridParameters`) or one of the lengths it uses is non-positive
    (`InvalidGridParameters`).  (When all three fields are given the total lengths are ignored,
    also by the check.) -/
theorem C12_parse2_error_iff (o : Rat × Rat) (n : Option (Nat × Nat)) (lpc lens : Option (Rat × Rat)) :
    parse2 o n lpc lens ≠ .panic ∧ parse2 o n lpc lens ≠ .retry ∧
    (parse2 o n lpc lens = .err errMissingGrid ↔ nFields n lpc lens < 2) ∧
    ((∃ k a, parse2 o n lpc lens = .err (errInvalidGrid k a)) ↔
      match n, lpc, lens with
      | some _, some (lpx, lpy), _ => lpx ≤ 0 ∨ lpy ≤ 0
      | some _, none, some (lx, ly) => lx ≤ 0 ∨ ly ≤ 0
      | none, some (lpx, lpy), some (lx, ly) => lpx ≤ 0 ∨ lpy ≤ 0 ∨ lx ≤ 0 ∨ ly ≤ 0
      | _, _, _ => False) ∧
    ((∃ e, parse2 o n lpc lens = .err e) ↔
      (nFields n lpc lens < 2 ∨ ∃ k a, parse2 o n lpc lens = .err (errInvalidGrid k a))) := by
  rcases n with _ | ⟨nx, ny⟩ <;> rcases lpc with _ | ⟨lpx, lpy⟩ <;> rcases lens with _ | ⟨lx, ly⟩ <;>
    simp only [parse2, nFields]
  · simp [errMissingGrid, errInvalidGrid]
  · simp [errMissingGrid, errInvalidGrid]
  · simp [errMissingGrid, errInvalidGrid]
  · by_cases h1 : lpx ≤ 0 <;> by_cases h2 : lpy ≤ 0 <;> by_cases h3 : lx ≤ 0 <;> by_cases h4 : ly ≤ 0 <;>
      simp [badLen, h1, h2, h3, h4, errMissingGrid, errInvalidGrid]
  · simp [errMissingGrid, errInvalidGrid]
  · by_cases h3 : lx ≤ 0 <;> by_cases h4 : ly ≤ 0 <;>
      simp [badLen, h3, h4, errMissingGrid, errInvalidGrid]
  · by_cases h1 : lpx ≤ 0 <;> by_cases h2 : lpy ≤ 0 <;>
      simp [badLen, h1, h2, errMissingGrid, errInvalidGrid]
  · by_cases h1 : lpx ≤ 0 <;> by_cases h2 : lpy ≤ 0 <;>
      simp [badLen, h1, h2, errMissingGrid, errInvalidGrid]

/-- `parse_3d`: same characterisation -/
theorem C12_parse3_error_iff (o : Rat × Rat × Rat) (n : Option (Nat × Nat × Nat))
    (lpc lens : Option (Rat × Rat × Rat)) :
    parse3 o n lpc lens ≠ .panic ∧ parse3 o n lpc lens ≠ .retry ∧
    (parse3 o n lpc lens = .err errMissingGrid ↔ nFields n lpc lens < 2) ∧
    ((∃ k a, parse3 o n lpc lens = .err (errInvalidGrid k a)) ↔
      match n, lpc, lens with
      | some _, some (lpx, lpy, lpz), _ => lpx ≤ 0 ∨ lpy ≤ 0 ∨ lpz ≤ 0
      | some _, none, some (lx, ly, lz) => lx ≤ 0 ∨ ly ≤ 0 ∨ lz ≤ 0
      | none, some (lpx, lpy, lpz), some (lx, ly, lz) =>
          lpx ≤ 0 ∨ lpy ≤ 0 ∨ lpz ≤ 0 ∨ lx ≤ 0 ∨ ly ≤ 0 ∨ lz ≤ 0
      | _, _, _ => False) ∧
    ((∃ e, parse3 o n lpc lens = .err e) ↔
      (nFields n lpc lens < 2 ∨ ∃ k a, parse3 o n lpc lens = .err (errInvalidGrid k a))) := by
  rcases n with _ | ⟨nx, ny, nz⟩ <;> rcases lpc with _ | ⟨lpx, lpy, lpz⟩ <;>
    rcases lens with _ | ⟨lx, ly, lz⟩ <;> simp only [parse3, nFields]
  · simp [errMissingGrid, errInvalidGrid]
  · simp [errMissingGrid, errInvalidGrid]
  · simp [errMissingGrid, errInvalidGrid]
  · by_cases h1 : lpx ≤ 0 <;> by_cases h2 : lpy ≤ 0 <;> by_cases h3 : lpz ≤ 0 <;>
      by_cases h4 : lx ≤ 0 <;> by_cases h5 : ly ≤ 0 <;> by_cases h6 : lz ≤ 0 <;>
      simp [badLen, h1, h2, h3, h4, h5, h6, errMissingGrid, errInvalidGrid]
  · simp [errMissingGrid, errInvalidGrid]
  · by_cases h4 : lx ≤ 0 <;> by_cases h5 : ly ≤ 0 <;> by_cases h6 : lz ≤ 0 <;>
      simp [badLen, h4, h5, h6, errMissingGrid, errInvalidGrid]
  · by_cases h1 : lpx ≤ 0 <;> by_cases h2 : lpy ≤ 0 <;> by_cases h3 : lpz ≤ 0 <;>
      simp [badLen, h1, h2, h3, errMissingGrid, errInvalidGrid]
  · by_cases h1 : lpx ≤ 0 <;> by_cases h2 : lpy ≤ 0 <;> by_cases h3 : lpz ≤ 0 <;>
      simp [badLen, h1, h2, h3, errMissingGrid, errInvalidGrid]

/-- The three descriptor forms (counts + cell lengths, counts + total lengths, cell lengths + total
    lengths) parse to the same `(origin, counts, cell lengths)` whenever the total lengths are the
    exact multiples `n · len_per_cell` (over a field; all three fields: the totals are ignored). -/
theorem C12_parse2_forms_agree (o : Rat × Rat) {nx ny : Nat} {lpx lpy : Rat} (hnx : 0 < nx)
    (hny : 0 < ny) (hx : 0 < lpx) (hy : 0 < lpy) (junk : Rat × Rat) :
    let r : Out Err ((Rat × Rat) × (Nat × Nat) × (Rat × Rat)) := .ok (o, (nx, ny), (lpx, lpy))
    let tot : Rat × Rat := ((nx : Rat) * lpx, (ny : Rat) * lpy)
    parse2 o (some (nx, ny)) (some (lpx, lpy)) none = r ∧
    parse2 o (some (nx, ny)) none (some tot) = r ∧
    parse2 o none (some (lpx, lpy)) (some tot) = r ∧
    parse2 o (some (nx, ny)) (some (lpx, lpy)) (some junk) = r := by
  intro r tot
  have a1 := badLen_pos hx
  have a2 := badLen_pos hy
  have a3 := badLen_pos (natMul_pos hnx hx)
  have a4 := badLen_pos (natMul_pos hny hy)
  refine ⟨?_, ?_, ?_, ?_⟩
  · simp [parse2, a1, a2, r]
  · simp [parse2, a3, a4, r, tot, natMul_div hnx, natMul_div hny]
  · simp [parse2, a1, a2, a3, a4, r, tot, ceilCount_mul nx hx, ceilCount_mul ny hy]
  · simp [parse2, a1, a2, r]

theorem C12_parse3_forms_agree (o : Rat × Rat × Rat) {nx ny nz : Nat} {lpx lpy lpz : Rat}
    (hnx : 0 < nx) (hny : 0 < ny) (hnz : 0 < nz) (hx : 0 < lpx) (hy : 0 < lpy) (hz : 0 < lpz)
    (junk : Rat × Rat × Rat) :
    let r : Out Err ((Rat × Rat × Rat) × (Nat × Nat × Nat) × (Rat × Rat × Rat)) :=
      .ok (o, (nx, ny, nz), (lpx, lpy, lpz))
    let tot : Rat × Rat × Rat := ((nx : Rat) * lpx, (ny : Rat) * lpy, (nz : Rat) * lpz)
    parse3 o (some (nx, ny, nz)) (some (lpx, lpy, lpz)) none = r ∧
    parse3 o (some (nx, ny, nz)) none (some tot) = r ∧
    parse3 o none (some (lpx, lpy, lpz)) (some tot) = r ∧
    parse3 o (some (nx, ny, nz)) (some (lpx, lpy, lpz)) (some junk) = r := by
  intro r tot
  have a1 := badLen_pos hx
  have a2 := badLen_pos hy
  have a3 := badLen_pos hz
  have a4 := badLen_pos (natMul_pos hnx hx)
  have a5 := badLen_pos (natMul_pos hny hy)
  have a6 := badLen_pos (natMul_pos hnz hz)
  refine ⟨?_, ?_, ?_, ?_⟩
  · simp [parse3, a1, a2, a3, r]
  · simp [parse3, a4, a5, a6, r, tot, natMul_div hnx, natMul_div hny, natMul_div hnz]
  · simp [parse3, a1, a2, a3, a4, a5, a6, r, tot, ceilCount_mul nx hx, ceilCount_mul ny hy,
      ceilCount_mul nz hz]
  · simp [parse3, a1, a2, a3, r]

/-- hence the three forms build the same map (same outcome of `CMapBuilder::build`) -/
theorem C12_build2_forms_agree (split : Bool) (o : Rat × Rat) {nx ny : Nat} {lpx lpy : Rat}
    (hnx : 0 < nx) (hny : 0 < ny) (hx : 0 < lpx) (hy : 0 < lpy) :
    let tot : Rat × Rat := ((nx : Rat) * lpx, (ny : Rat) * lpy)
    build2 split o (some (nx, ny)) none (some tot) = build2 split o (some (nx, ny)) (some (lpx, lpy)) none ∧
    build2 split o none (some (lpx, lpy)) (some tot) = build2 split o (some (nx, ny)) (some (lpx, lpy)) none := by
  intro tot
  obtain ⟨h1, h2, h3, _⟩ := C12_parse2_forms_agree o hnx hny hx hy (0, 0)
  unfold build2
  rw [h1, h2, h3]
  exact ⟨rfl, rfl⟩

theorem C12_build3_forms_agree (split : Bool) (o : Rat × Rat × Rat) {nx ny nz : Nat} {lpx lpy lpz : Rat}
    (hnx : 0 < nx) (hny : 0 < ny) (hnz : 0 < nz) (hx : 0 < lpx) (hy : 0 < lpy) (hz : 0 < lpz) :
    let tot : Rat × Rat × Rat := ((nx : Rat) * lpx, (ny : Rat) * lpy, (nz : Rat) * lpz)
    build3 split o (some (nx, ny, nz)) none (some tot) =
      build3 split o (some (nx, ny, nz)) (some (lpx, lpy, lpz)) none ∧
    build3 split o none (some (lpx, lpy, lpz)) (some tot) =
      build3 split o (some (nx, ny, nz)) (some (lpx, lpy, lpz)) none := by
  intro tot
  obtain ⟨h1, h2, h3, _⟩ := C12_parse3_forms_agree o hnx hny hnz hx hy hz (0, 0, 0)
  unfold build3
  rw [h1, h2, h3]
  exact ⟨rfl, rfl⟩

theorem two_pos : (0 : Rat) < 2 := Rat.natCast_pos.mpr (by decide : 0 < 2)
theorem half_pos : (0 : Rat) < 1 / 2 := by
  rw [Rat.div_def, Rat.one_mul]; exact Rat.inv_pos.mpr two_pos

example : parse2 (0, 0) none (some (1 / 2, 2)) (some (((2 : Nat) : Rat) * (1 / 2), ((3 : Nat) : Rat) * 2)) =
    .ok ((0, 0), (2, 3), (1 / 2, 2)) :=
  (C12_parse2_forms_agree (0, 0) (nx := 2) (ny := 3) (by decide) (by decide) half_pos two_pos (0, 0)).2.2.1
example : parse3 (0, 0, 0) (some (1, 2, 3)) none (some (((1 : Nat) : Rat) * 2, ((2 : Nat) : Rat) * (1 / 2), ((3 : Nat) : Rat) * 2)) =
    .ok ((0, 0, 0), (1, 2, 3), (2, 1 / 2, 2)) :=
  (C12_parse3_forms_agree (0, 0, 0) (nx := 1) (ny := 2) (nz := 3) (by decide) (by decide) (by decide)
    two_pos half_pos two_pos (0, 0, 0)).2.1
example : ∃ k a, parse2 (0, 0) none (some (2, 2)) (some (-1, 6)) = .err (errInvalidGrid k a) :=
  (C12_parse2_error_iff (0, 0) none (some (2, 2)) (some (-1, 6))).2.2.2.1.mpr
    (Or.inr (Or.inr (Or.inl (by decide))))
example : parse3 (0, 0, 0) none none (some (1, 6, 1)) = .err errMissingGrid :=
  (C12_parse3_error_iff (0, 0, 0) none none (some (1, 6, 1))).2.2.1.mpr (by decide)

/-! ## zero cell counts -/

/-- the empty map: only the null dart -/
abbrev emptyMap2 : Map Val := Map.empty 3 6 1

theorem emptyMap2_facts : emptyMap2.n = 1 ∧ WF 3 emptyMap2 ∧ iterFaces2 emptyMap2 = [] ∧
    iterVertices2 emptyMap2 = [] := by decide

/-- Zero cell count, 2-D (the clause repaired by /repo 9dd602d, formerly finding D6): whenever the
    descriptor parses (any of the three forms) to counts with `nx = 0` or `ny = 0`, `build()` returns
    `Ok` with the empty map — one null dart, well-formed, no face, no vertex — split or not; it
    never panics.  (Relies on the GENERATED flags `squareZeroGuard` / `trisZeroGuard`: if the guard
    disappears from grid.rs this theorem stops compiling.) -/
theorem C12_build2_zero_count_empty (split : Bool) (o : Rat × Rat) (n : Option (Nat × Nat))
    (lpc lens : Option (Rat × Rat)) {o' : Rat × Rat} {nx ny : Nat} {l : Rat × Rat}
    (hp : parse2 o n lpc lens = .ok (o', (nx, ny), l)) (h0 : nx = 0 ∨ ny = 0) :
    build2 split o n lpc lens = .ok emptyMap2 ∧
    emptyMap2.n = 1 ∧ WF 3 emptyMap2 ∧ iterFaces2 emptyMap2 = [] ∧ iterVertices2 emptyMap2 = [] := by
  refine ⟨?_, emptyMap2_facts⟩
  have hk : ∀ K : Nat, K * nx * ny = 0 := by
    intro K
    rcases h0 with h | h <;> subst h <;> simp
  unfold build2
  rw [hp]
  cases split <;> simp [h0, squareZeroGuard, trisZeroGuard, hk]

/-- instances: counts given explicitly with valid lengths (forms `n_cells + len_per_cell`, with or
    without ignored totals, and `n_cells + lens`) -/
theorem C12_build2_zero_count_forms (split : Bool) (o : Rat × Rat) {nx ny : Nat} {lx ly : Rat}
    (h0 : nx = 0 ∨ ny = 0) (hx : 0 < lx) (hy : 0 < ly) (lens : Option (Rat × Rat)) :
    build2 split o (some (nx, ny)) (some (lx, ly)) lens = .ok emptyMap2 ∧
    build2 split o (some (nx, ny)) none (some (lx, ly)) = .ok emptyMap2 := by
  have a1 := badLen_pos hx
  have a2 := badLen_pos hy
  constructor
  · refine (C12_build2_zero_count_empty split o _ _ _ (o' := o) (l := (lx, ly)) ?_ h0).1
    rcases lens with _ | ⟨tx, ty⟩ <;> simp [parse2, a1, a2]
  · refine (C12_build2_zero_count_empty split o _ _ _ (o' := o)
      (l := (lx / (nx : Rat), ly / (ny : Rat))) ?_ h0).1
    simp [parse2, a1, a2]

example : build2 true (0, 0) (some (0, 2)) (some (2, 2)) none = .ok emptyMap2 :=
  (C12_build2_zero_count_forms true (0, 0) (Or.inl rfl) two_pos two_pos none).1

/-! ## (e) split grid: triangles and diagonal; hex grid: cells and shared faces -/

/-- Split grid, cell `(ix, iy)`: local darts `0 → 1 → 2 → 0` (lower-left triangle: bottom side,
    diagonal, left side) and `3 → 4 → 5 → 3` (upper-right triangle: diagonal, right side, top side)
    are β1-cycles; the two diagonal darts are glued to each other; the four outer sides are glued
    to the facing side of the adjacent cell, and free exactly on the outer boundary. -/
theorem C12_split2_faces (ox oy lx ly : Rat) {nx ny ix iy : Nat} (hx : ix < nx) (hy : iy < ny) :
    let m := buildSplit2 ox oy nx ny lx ly
    let D := fun (x y k : Nat) => dartOf 6 nx ny x y 0 k
    (∀ k, k < 6 → m.β 1 (D ix iy k) = D ix iy (3 * (k / 3) + (k + 1) % 3) ∧
                  m.β 0 (D ix iy k) = D ix iy (3 * (k / 3) + (k + 2) % 3)) ∧
    m.β 2 (D ix iy 1) = D ix iy 3 ∧ m.β 2 (D ix iy 3) = D ix iy 1 ∧
    m.β 2 (D ix iy 0) = (if iy = 0 then 0 else D ix (iy - 1) 5) ∧
    m.β 2 (D ix iy 2) = (if ix = 0 then 0 else D (ix - 1) iy 4) ∧
    m.β 2 (D ix iy 4) = (if ix + 1 = nx then 0 else D (ix + 1) iy 2) ∧
    m.β 2 (D ix iy 5) = (if iy + 1 = ny then 0 else D ix (iy + 1) 0) := by
  intro m D
  refine ⟨?_, ?_, ?_, ?_, ?_, ?_, ?_⟩
  · intro k hk
    have k6 : k = 0 ∨ k = 1 ∨ k = 2 ∨ k = 3 ∨ k = 4 ∨ k = 5 := by omega
    constructor
    · rw [show m.β 1 (D ix iy k) = _ from split2_β ox oy lx ly hx hy hk (by decide : 1 < 3)]
      rcases k6 with rfl | rfl | rfl | rfl | rfl | rfl <;> rfl
    · rw [show m.β 0 (D ix iy k) = _ from split2_β ox oy lx ly hx hy hk (by decide : 0 < 3)]
      rcases k6 with rfl | rfl | rfl | rfl | rfl | rfl <;> rfl
  · exact split2_β ox oy lx ly hx hy (by decide : 1 < 6) (by decide : 2 < 3)
  · exact split2_β ox oy lx ly hx hy (by decide : 3 < 6) (by decide : 2 < 3)
  · exact split2_β ox oy lx ly hx hy (by decide : 0 < 6) (by decide : 2 < 3)
  · exact split2_β ox oy lx ly hx hy (by decide : 2 < 6) (by decide : 2 < 3)
  · exact split2_β ox oy lx ly hx hy (by decide : 4 < 6) (by decide : 2 < 3)
  · exact split2_β ox oy lx ly hx hy (by decide : 5 < 6) (by decide : 2 < 3)

/-- every non-null dart of the split grid is a side of exactly one cell -/
theorem C12_split2_darts {nx ny : Nat} (hnx : 0 < nx) (hny : 0 < ny) {d : Nat} (h1 : 1 ≤ d)
    (h2 : d ≤ 6 * nx * ny) :
    ∃ ix iy k, ix < nx ∧ iy < ny ∧ k < 6 ∧ d = dartOf 6 nx ny ix iy 0 k ∧
      ∀ ix' iy' k', ix' < nx → iy' < ny → k' < 6 → d = dartOf 6 nx ny ix' iy' 0 k' →
        ix' = ix ∧ iy' = iy ∧ k' = k := by
  have h2' : d ≤ 6 * (nx * ny * 1) := by rw [Nat.mul_one, ← Nat.mul_assoc]; exact h2
  obtain ⟨ix, iy, iz, o, hx, hy, hz, ho, e⟩ := decode (K := 6) (by decide) hnx hny h1 h2'
  have hz0 : iz = 0 := by omega
  subst hz0
  refine ⟨ix, iy, o, hx, hy, ho, e, ?_⟩
  intro ix' iy' k' hx' hy' hk' e'
  obtain ⟨a, b, _, c⟩ := dartOf_inj hx' hy' hk' hx hy ho (e'.symm.trans e)
  exact ⟨a, b, c⟩

/-- the face (group of four local darts) a local dart of a hexahedron belongs to:
    0 = y-, 1 = z-, 2 = x+, 3 = z+, 4 = x-, 5 = y+ (the comment block of grid.rs) -/
def hexFace (o : Nat) : Nat := o / 4

/-- direction code (see `absEntry`) of the neighbour across a face -/
def hexFaceDir : Nat → Nat
  | 0 => 3 | 1 => 5 | 2 => 2 | 3 => 6 | 4 => 1 | _ => 4

/-- the face of the neighbour that is glued to a face -/
def hexFaceOpp : Nat → Nat
  | 0 => 5 | 1 => 3 | 2 => 4 | 3 => 1 | 4 => 2 | _ => 0

set_option maxRecDepth 100000 in
theorem hexShape_facts : ∀ o, o < 24 →
    (hexShape.at o 0).1 = 0 ∧ (hexShape.at o 1).1 = 0 ∧ (hexShape.at o 2).1 = 0 ∧
    hexFace (hexShape.at o 0).2 = hexFace o ∧ hexFace (hexShape.at o 1).2 = hexFace o ∧
    (hexShape.at o 1).2 = 4 * (o / 4) + (o + 1) % 4 ∧ (hexShape.at o 0).2 = 4 * (o / 4) + (o + 3) % 4 ∧
    (hexShape.at o 2).2 < 24 ∧ hexFace (hexShape.at o 2).2 ≠ hexFace o ∧
    (hexShape.at o 3).1 = hexFaceDir (hexFace o) ∧
    hexFace (hexShape.at o 3).2 = hexFaceOpp (hexFace o) := by decide

/-- Hex grid, cell `(ix, iy, iz)`, local dart `o < 24`: the six groups of four local darts are
    β1-cycles (the six quadrilateral faces; β0 runs them backwards); β2 stays inside the cell and
    leads to another face of it (the 24 darts are closed under β0, β1, β2: the volume is the cell);
    β3 is null **iff** the cell has no neighbour across that face (outer boundary), and otherwise
    it is a dart of the facing face (`hexFaceOpp`) of the adjacent cell. -/
theorem C12_hex3_cells (ox oy oz lx ly lz : Rat) {nx ny nz ix iy iz o : Nat} (hx : ix < nx)
    (hy : iy < ny) (hz : iz < nz) (ho : o < 24) :
    let m := buildHex3 ox oy oz nx ny nz lx ly lz
    let D := fun (x y z k : Nat) => dartOf 24 nx ny x y z k
    m.β 1 (D ix iy iz o) = D ix iy iz (4 * (o / 4) + (o + 1) % 4) ∧
    m.β 0 (D ix iy iz o) = D ix iy iz (4 * (o / 4) + (o + 3) % 4) ∧
    (∃ o', o' < 24 ∧ hexFace o' ≠ hexFace o ∧ m.β 2 (D ix iy iz o) = D ix iy iz o') ∧
    (∃ o', hexFace o' = hexFaceOpp (hexFace o) ∧
      m.β 3 (D ix iy iz o) = absEntry 24 nx ny nz ix iy iz (hexFaceDir (hexFace o)) o') := by
  intro m D
  obtain ⟨e0, e1, e2, _, _, p1, p0, b2, f2, d3, f3⟩ := hexShape_facts o ho
  refine ⟨?_, ?_, ⟨(hexShape.at o 2).2, b2, f2, ?_⟩, ⟨(hexShape.at o 3).2, f3, ?_⟩⟩
  · rw [show m.β 1 (D ix iy iz o) = _ from hex3_β ox oy oz lx ly lz hx hy hz ho (by decide : 1 < 4), e1, p1]
    rfl
  · rw [show m.β 0 (D ix iy iz o) = _ from hex3_β ox oy oz lx ly lz hx hy hz ho (by decide : 0 < 4), e0, p0]
    rfl
  · rw [show m.β 2 (D ix iy iz o) = _ from hex3_β ox oy oz lx ly lz hx hy hz ho (by decide : 2 < 4), e2]
    rfl
  · rw [show m.β 3 (D ix iy iz o) = _ from hex3_β ox oy oz lx ly lz hx hy hz ho (by decide : 3 < 4), d3]

/-- every non-null dart of the hex grid is a local dart of exactly one cell: `nx·ny·nz` cells of 24
    darts -/
theorem C12_hex3_darts {nx ny nz : Nat} (hnx : 0 < nx) (hny : 0 < ny) {d : Nat} (h1 : 1 ≤ d)
    (h2 : d ≤ 24 * nx * ny * nz) :
    ∃ ix iy iz k, ix < nx ∧ iy < ny ∧ iz < nz ∧ k < 24 ∧ d = dartOf 24 nx ny ix iy iz k ∧
      ∀ ix' iy' iz' k', ix' < nx → iy' < ny → iz' < nz → k' < 24 → d = dartOf 24 nx ny ix' iy' iz' k' →
        ix' = ix ∧ iy' = iy ∧ iz' = iz ∧ k' = k := by
  have h2' : d ≤ 24 * (nx * ny * nz) := by
    rw [← Nat.mul_assoc, ← Nat.mul_assoc]; exact h2
  obtain ⟨ix, iy, iz, o, hx, hy, hz, ho, e⟩ := decode (K := 24) (by decide) hnx hny h1 h2'
  refine ⟨ix, iy, iz, o, hx, hy, hz, ho, e, ?_⟩
  intro ix' iy' iz' k' hx' hy' _ hk' e'
  exact dartOf_inj hx' hy' hk' hx hy ho (e'.symm.trans e)

example : (buildSplit2 0 0 2 2 1 1).β 2 (dartOf 6 2 2 0 0 0 4) = dartOf 6 2 2 1 0 0 2 := by decide
example : (buildHex3 0 0 0 2 1 1 1 1 1).β 3 (dartOf 24 2 1 0 0 0 8) = dartOf 24 2 1 1 0 0 16 :=
  hex3_β 0 0 0 1 1 1 (nx := 2) (ny := 1) (nz := 1) (ix := 0) (iy := 0) (iz := 0) (o := 8) (i := 3)
    (by decide) (by decide) (by decide) (by decide) (by decide)

/-! ## (d) vertices: lattice points and coordinates -/

open GridVertex in
/-- Corners of cell `(ix, iy)`: the vertex (`vertex_id`) at the origin of local darts 0,1,2,3 carries
    exactly `origin + (ix·lx, iy·ly)`, `+ ((ix+1)·lx, iy·ly)`, `+ ((ix+1)·lx, (iy+1)·ly)`,
    `+ (ix·lx, (iy+1)·ly)`: the face runs counter-clockwise round the rectangle
    `[ix·lx, (ix+1)·lx] × [iy·ly, (iy+1)·ly]` (shifted by the origin), so local darts 0,1,2,3 are its
    bottom, right, top and left sides. -/
theorem C12_grid2_corners (ox oy lx ly : Rat) {nx ny ix iy : Nat} (hnx : 0 < nx) (hny : 0 < ny)
    (hx : ix < nx) (hy : iy < ny) :
    let m := buildGrid2 ox oy nx ny lx ly
    let V := fun (k : Nat) => m.att 0 (vid2 m (dartOf 4 nx ny ix iy 0 k))
    V 0 = some (.pt (ox + ((ix : Nat) : Rat) * lx) (oy + ((iy : Nat) : Rat) * ly) 0) ∧
    V 1 = some (.pt (ox + ((ix + 1 : Nat) : Rat) * lx) (oy + ((iy : Nat) : Rat) * ly) 0) ∧
    V 2 = some (.pt (ox + ((ix + 1 : Nat) : Rat) * lx) (oy + ((iy + 1 : Nat) : Rat) * ly) 0) ∧
    V 3 = some (.pt (ox + ((ix : Nat) : Rat) * lx) (oy + ((iy + 1 : Nat) : Rat) * ly) 0) := by
  intro m V
  have h : ∀ k, k < 4 → V k = some (coord ox oy lx ly (ix + cdx k, iy + cdy k)) := by
    intro k hk
    have hd : IsDart nx ny (D nx ny ix iy k) := ⟨ix, iy, k, hx, hy, hk, rfl⟩
    have := grid2_att ox oy lx ly hnx hny hd
    rw [pt_D hx hk] at this
    exact this
  exact ⟨h 0 (by decide), h 1 (by decide), h 2 (by decide), h 3 (by decide)⟩

open GridVertex in
/-- Vertices ↔ lattice points: two darts have the same `vertex_id` iff they start at the same
    lattice point; the lattice points of darts are exactly the `(nx+1)·(ny+1)` points
    `(i, j)`, `i ≤ nx`, `j ≤ ny`; and the vertex of a dart carries `origin + (i·lx, j·ly)`. -/
theorem C12_grid2_vertices (ox oy lx ly : Rat) {nx ny : Nat} (hnx : 0 < nx) (hny : 0 < ny) :
    let m := buildGrid2 ox oy nx ny lx ly
    (∀ d e, IsDart nx ny d → IsDart nx ny e → (vid2 m d = vid2 m e ↔ pt nx d = pt nx e)) ∧
    (∀ d, IsDart nx ny d → (pt nx d).1 ≤ nx ∧ (pt nx d).2 ≤ ny ∧
      m.att 0 (vid2 m d) = some (.pt (ox + ((pt nx d).1 : Rat) * lx) (oy + ((pt nx d).2 : Rat) * ly) 0)) ∧
    (∀ i j, i ≤ nx → j ≤ ny → ∃ d, IsDart nx ny d ∧ pt nx d = (i, j)) ∧
    (∀ d, 1 ≤ d → d ≤ 4 * nx * ny → IsDart nx ny d) := by
  intro m
  have st := sameTopo_grid2 ox oy nx ny lx ly
  refine ⟨?_, ?_, ?_, ?_⟩
  · intro d e hd he
    constructor
    · intro h
      rw [← (vid_pt hnx hny st hd).1, ← (vid_pt hnx hny st he).1]
      exact congrArg (pt nx) h
    · intro h
      exact vid_same hnx hny st st hd he h
  · intro d hd
    obtain ⟨a, b, k, ha, hb, hk, rfl⟩ := hd
    have hd : IsDart nx ny (D nx ny a b k) := ⟨a, b, k, ha, hb, hk, rfl⟩
    have e := pt_D (ny := ny) (b := b) ha hk
    have c1 : cdx k ≤ 1 := by unfold cdx; split <;> omega
    have c2 : cdy k ≤ 1 := by unfold cdy; split <;> omega
    refine ⟨by rw [e]; simp; omega, by rw [e]; simp; omega, ?_⟩
    exact grid2_att ox oy lx ly hnx hny hd
  · intro i j hi hj
    obtain ⟨blk, hblk, c, _, hc1, hc2, hp⟩ := squarePlace_covers hnx hny hi hj
    exact ⟨_, ⟨c.1, c.2, blk.2.1 - 1, hc1, hc2, by have := (squarePlace_good blk hblk).2.2.1; omega, rfl⟩, hp⟩
  · intro d h1 h2
    exact isDart_of_range hnx hny h1 h2

example : ∃ v, (buildGrid2 0 0 2 2 1 1).att 0 (vid2 (buildGrid2 0 0 2 2 1 1) (dartOf 4 2 2 1 1 0 0)) = some v :=
  ⟨_, (C12_grid2_corners 0 0 1 1 (nx := 2) (ny := 2) (ix := 1) (iy := 1) (by decide) (by decide)
    (by decide) (by decide)).1⟩

/-- twice the signed area of the quadrilateral `p0 p1 p2 p3` (shoelace formula) -/
def area2 (p0 p1 p2 p3 : Rat × Rat) : Rat :=
  (p0.1 * p1.2 - p1.1 * p0.2) + (p1.1 * p2.2 - p2.1 * p1.2) + (p2.1 * p3.2 - p3.1 * p2.2) +
    (p3.1 * p0.2 - p0.1 * p3.2)

/-- The corners of `C12_grid2_corners`, in face order, span a quadrilateral of signed area `lx·ly`:
    positive (counter-clockwise) for positive cell lengths. -/
theorem C12_grid2_area (ox oy lx ly : Rat) (ix iy : Nat) :
    let x0 := ox + ((ix : Nat) : Rat) * lx
    let x1 := ox + ((ix + 1 : Nat) : Rat) * lx
    let y0 := oy + ((iy : Nat) : Rat) * ly
    let y1 := oy + ((iy + 1 : Nat) : Rat) * ly
    area2 (x0, y0) (x1, y0) (x1, y1) (x0, y1) = 2 * (lx * ly) ∧
    (0 < lx → 0 < ly → 0 < area2 (x0, y0) (x1, y0) (x1, y1) (x0, y1)) := by
  intro x0 x1 y0 y1
  have h : area2 (x0, y0) (x1, y0) (x1, y1) (x0, y1) = 2 * (lx * ly) := by
    simp only [area2, x0, x1, y0, y1]
    push_cast
    ring
  refine ⟨h, ?_⟩
  intro hx hy
  rw [h]
  exact Rat.mul_pos two_pos (Rat.mul_pos hx hy)

example : area2 (0, 0) (1, 0) (1, 1) (0, 1) = 2 := by
  have := (C12_grid2_area 0 0 1 1 0 0).1
  simpa using this

/-
NOT PROVED (see also Props/C12b.lean, which proves what used to be listed here: the split / hex
`build()` results, the 3-D vertex coordinates and lattice bijection, volumes ↔ cells, and all the
2-D counts):

NOT PROVED: the floating-point reading of all coordinate statements (they are over `Rat`; the
  correspondence run uses dyadic values for which every f64 operation is exact).  For the third
  descriptor form `C12_ceil_count_rounding` (C12b) gives the exact condition under an abstract
  monotone rounding that fixes the integers; that IEEE-754 division is such a rounding is outside
  Lean here (no IEEE model installed, DESIGN.md §9/§11).

(The hex grid's edge and face counts, formerly listed here, are proved in Props/C12d.lean:
  C12_hex3_counts_all.  The tetrahedral split grid is `unimplemented!()` in the code: nothing to prove.)
-/

/-- `CMapBuilder::build` on a valid 2-D descriptor (positive counts and cell lengths, plain grid)
    returns `Ok` with exactly the map the theorems above describe: `iter_faces` yields `nx·ny`
    identifiers, so the final `debug_assert_eq!` holds, and nothing else can panic. -/
theorem C12_build2_ok (o : Rat × Rat) {nx ny : Nat} {lpx lpy : Rat} (hnx : 0 < nx) (hny : 0 < ny)
    (hx : 0 < lpx) (hy : 0 < lpy) (lens : Option (Rat × Rat)) :
    build2 false o (some (nx, ny)) (some (lpx, lpy)) lens = .ok (buildGrid2 o.1 o.2 nx ny lpx lpy) ∧
    (iterFaces2 (buildGrid2 o.1 o.2 nx ny lpx lpy)).length = nx * ny := by
  have a1 := badLen_pos hx
  have a2 := badLen_pos hy
  have hf := GridFace.iterFaces_length hnx hny (sameTopo_grid2 o.1 o.2 nx ny lpx lpy)
  refine ⟨?_, hf⟩
  have h0 : ¬ (nx = 0 ∨ ny = 0) := by omega
  unfold build2
  rcases lens with _ | ⟨lx, ly⟩ <;> simp [parse2, a1, a2, h0, hf]

/-- Full strength, **every** `nx, ny` (zero included): with positive cell lengths the plain 2-D
    builder never panics and never errs — it returns the empty map for a zero count and the
    regular grid of the theorems above otherwise; in both cases a well-formed map with `nx·ny`
    faces. -/
theorem C12_build2_total (o : Rat × Rat) (nx ny : Nat) {lpx lpy : Rat} (hx : 0 < lpx) (hy : 0 < lpy)
    (lens : Option (Rat × Rat)) :
    ∃ m, build2 false o (some (nx, ny)) (some (lpx, lpy)) lens = .ok m ∧ WF 3 m ∧
      (iterFaces2 m).length = nx * ny ∧
      m = (if nx = 0 ∨ ny = 0 then emptyMap2 else buildGrid2 o.1 o.2 nx ny lpx lpy) := by
  by_cases h0 : nx = 0 ∨ ny = 0
  · refine ⟨emptyMap2, (C12_build2_zero_count_forms false o h0 hx hy lens).1, emptyMap2_facts.2.1, ?_, by simp [h0]⟩
    rw [emptyMap2_facts.2.2.1]
    rcases h0 with h | h <;> subst h <;> simp
  · have hnx : 0 < nx := by omega
    have hny : 0 < ny := by omega
    obtain ⟨h1, h2⟩ := C12_build2_ok o hnx hny hx hy lens
    exact ⟨_, h1, C12_grid2_WF o.1 o.2 lpx lpy hnx hny, h2, by simp [h0]⟩

/-- split grid, every `nx, ny`: never an error; a zero count gives the empty map (for positive
    counts the only modelled panic is the mirrored face-count assertion, see NOT PROVED) -/
theorem C12_build2_split_total (o : Rat × Rat) (nx ny : Nat) {lpx lpy : Rat} (hx : 0 < lpx) (hy : 0 < lpy)
    (lens : Option (Rat × Rat)) :
    (¬ ∃ e, build2 true o (some (nx, ny)) (some (lpx, lpy)) lens = .err e) ∧
    (nx = 0 ∨ ny = 0 → build2 true o (some (nx, ny)) (some (lpx, lpy)) lens = .ok emptyMap2) := by
  have a1 := badLen_pos hx
  have a2 := badLen_pos hy
  refine ⟨?_, fun h0 => (C12_build2_zero_count_forms true o h0 hx hy lens).1⟩
  unfold build2
  rcases lens with _ | ⟨lx, ly⟩ <;> simp [parse2, a1, a2] <;> (repeat' split) <;> simp

example : ∃ m, build2 false (0, 0) (some (0, 5)) (some (2, 2)) none = .ok m ∧ WF 3 m :=
  let ⟨m, h1, h2, _⟩ := C12_build2_total (0, 0) 0 5 two_pos two_pos none
  ⟨m, h1, h2⟩

example : build2 false (0, 0) (some (3, 2)) (some (2, 2)) none = .ok (buildGrid2 0 0 3 2 2 2) :=
  (C12_build2_ok (0, 0) (by decide) (by decide) two_pos two_pos none).1

/-! ## split grid: vertices, coordinates, triangle areas -/

open GridVertexSplit in
/-- Split grid, cell `(ix, iy)`: the vertices at the origins of local darts 0..5 carry
    bottom-left, bottom-right, top-left | top-left, bottom-right, top-right corner of the cell:
    triangle `0 1 2` is the lower-left half, triangle `3 4 5` the upper-right half, the diagonal
    runs from the bottom-right to the top-left corner. -/
theorem C12_split2_corners (ox oy lx ly : Rat) {nx ny ix iy : Nat} (hnx : 0 < nx) (hny : 0 < ny)
    (hx : ix < nx) (hy : iy < ny) :
    let m := buildSplit2 ox oy nx ny lx ly
    let V := fun (k : Nat) => m.att 0 (vid2 m (dartOf 6 nx ny ix iy 0 k))
    let P := fun (i j : Nat) => some (Val.pt (ox + ((i : Nat) : Rat) * lx) (oy + ((j : Nat) : Rat) * ly) 0)
    V 0 = P ix iy ∧ V 1 = P (ix + 1) iy ∧ V 2 = P ix (iy + 1) ∧
    V 3 = P ix (iy + 1) ∧ V 4 = P (ix + 1) iy ∧ V 5 = P (ix + 1) (iy + 1) := by
  intro m V P
  have h : ∀ k, k < 6 → V k = some (coord ox oy lx ly (ix + cdx k, iy + cdy k)) := by
    intro k hk
    have hd : IsDart nx ny (D nx ny ix iy k) := ⟨ix, iy, k, hx, hy, hk, rfl⟩
    have := grid2_att ox oy lx ly hnx hny hd
    rw [pt_D hx hk] at this
    exact this
  exact ⟨h 0 (by decide), h 1 (by decide), h 2 (by decide), h 3 (by decide), h 4 (by decide), h 5 (by decide)⟩

open GridVertexSplit in
/-- Split grid, vertices ↔ lattice points (same statement as `C12_grid2_vertices`) -/
theorem C12_split2_vertices (ox oy lx ly : Rat) {nx ny : Nat} (hnx : 0 < nx) (hny : 0 < ny) :
    let m := buildSplit2 ox oy nx ny lx ly
    (∀ d e, IsDart nx ny d → IsDart nx ny e → (vid2 m d = vid2 m e ↔ pt nx d = pt nx e)) ∧
    (∀ d, IsDart nx ny d → (pt nx d).1 ≤ nx ∧ (pt nx d).2 ≤ ny ∧
      m.att 0 (vid2 m d) = some (.pt (ox + ((pt nx d).1 : Rat) * lx) (oy + ((pt nx d).2 : Rat) * ly) 0)) ∧
    (∀ i j, i ≤ nx → j ≤ ny → ∃ d, IsDart nx ny d ∧ pt nx d = (i, j)) ∧
    (∀ d, 1 ≤ d → d ≤ 6 * nx * ny → IsDart nx ny d) := by
  intro m
  have st := sameTopo_split2 ox oy nx ny lx ly
  refine ⟨?_, ?_, ?_, ?_⟩
  · intro d e hd he
    constructor
    · intro h
      rw [← (vid_pt hnx hny st hd).1, ← (vid_pt hnx hny st he).1]
      exact congrArg (pt nx) h
    · intro h
      exact vid_same hnx hny st st hd he h
  · intro d hd
    obtain ⟨a, b, k, ha, hb, hk, rfl⟩ := hd
    have hd : IsDart nx ny (D nx ny a b k) := ⟨a, b, k, ha, hb, hk, rfl⟩
    have e := pt_D (ny := ny) (b := b) ha hk
    have c1 : cdx k ≤ 1 := by unfold cdx; split <;> omega
    have c2 : cdy k ≤ 1 := by unfold cdy; split <;> omega
    refine ⟨by rw [e]; simp; omega, by rw [e]; simp; omega, ?_⟩
    exact grid2_att ox oy lx ly hnx hny hd
  · intro i j hi hj
    obtain ⟨blk, hblk, c, _, hc1, hc2, hp⟩ := squarePlace_covers hnx hny hi hj
    exact ⟨_, ⟨c.1, c.2, blk.2.1 - 1, hc1, hc2, by have := (squarePlace_good blk hblk).2.2.1; omega, rfl⟩, hp⟩
  · intro d h1 h2
    exact isDart_of_range hnx hny h1 h2

/-- twice the signed area of the triangle `p q r` -/
def tri2 (p q r : Rat × Rat) : Rat :=
  (p.1 * q.2 - q.1 * p.2) + (q.1 * r.2 - r.1 * q.2) + (r.1 * p.2 - p.1 * r.2)

/-- both triangles of a split cell (corners of `C12_split2_corners`, in face order) have signed
    area `lx·ly/2`: counter-clockwise for positive cell lengths -/
theorem C12_split2_area (ox oy lx ly : Rat) (ix iy : Nat) :
    let x0 := ox + ((ix : Nat) : Rat) * lx
    let x1 := ox + ((ix + 1 : Nat) : Rat) * lx
    let y0 := oy + ((iy : Nat) : Rat) * ly
    let y1 := oy + ((iy + 1 : Nat) : Rat) * ly
    tri2 (x0, y0) (x1, y0) (x0, y1) = lx * ly ∧ tri2 (x0, y1) (x1, y0) (x1, y1) = lx * ly ∧
    (0 < lx → 0 < ly → 0 < lx * ly) := by
  intro x0 x1 y0 y1
  refine ⟨?_, ?_, fun hx hy => Rat.mul_pos hx hy⟩
  · simp only [tri2, x0, x1, y0, y1]
    push_cast
    ring
  · simp only [tri2, x0, x1, y0, y1]
    push_cast
    ring

example : ∃ v, (buildSplit2 0 0 2 2 1 1).att 0 (vid2 (buildSplit2 0 0 2 2 1 1) (dartOf 6 2 2 1 1 0 5)) = some v :=
  ⟨_, (C12_split2_corners 0 0 1 1 (nx := 2) (ny := 2) (ix := 1) (iy := 1) (by decide) (by decide)
    (by decide) (by decide)).2.2.2.2.2⟩

/-- Zero cell count, 3-D: `build()` returns `Ok` with the empty map (one null dart); no panic -/
theorem C12_build3_zero_count_empty (o : Rat × Rat × Rat) {nx ny nz : Nat} {lx ly lz : Rat}
    (h0 : nx = 0 ∨ ny = 0 ∨ nz = 0) (hx : 0 < lx) (hy : 0 < ly) (hz : 0 < lz)
    (lens : Option (Rat × Rat × Rat)) :
    ∃ m, build3 false o (some (nx, ny, nz)) (some (lx, ly, lz)) lens = .ok m ∧ m.n = 1 := by
  have a1 := badLen_pos hx
  have a2 := badLen_pos hy
  have a3 := badLen_pos hz
  have hk : hexK * nx * ny * nz = 0 := by
    rcases h0 with h | h | h <;> subst h <;> simp
  have hc : nx * ny * nz = 0 := by
    rcases h0 with h | h | h <;> subst h <;> simp
  have hm : buildHex3 o.1 o.2.1 o.2.2 nx ny nz lx ly lz = gridMap 4 0 (hexβ nx ny nz) := by
    unfold buildHex3
    simp only [hk]
    rfl
  refine ⟨gridMap 4 0 (hexβ nx ny nz), ?_, rfl⟩
  unfold build3
  rcases lens with _ | ⟨tx, ty, tz⟩ <;> simp [parse3, a1, a2, a3, hm, hc] <;> rfl

example : ∃ m, build3 false (0, 0, 0) (some (2, 0, 1)) (some (2, 2, 2)) none = .ok m ∧ m.n = 1 :=
  C12_build3_zero_count_empty (0, 0, 0) (Or.inr (Or.inl rfl)) two_pos two_pos two_pos none

end HC.C12
