/-
  C04 — 2-D sew/unsew keep embedded data attached to the right cells.

  What is proved here (for EVERY attribute configuration `cfg`: any number of storages, any laws,
  any registration order; no fault injection, `fc = 0`):

  (a) topological effect: a successful sew/unsew changes the β functions exactly as the
      corresponding link/unlink does, and touches neither flags nor sizes;
  (b) data placement, relative to the identifiers the operation computes (old ids BEFORE the
      link, new id AFTER it — `vertex_id_transac` / `edge_id_transac`, whose meaning "smallest
      dart of the cell" is C03): in every storage bound to the cell kind — the built-in vertex
      storage and every user storage alike, independently of each other — the new id carries
      `merge*(old₁, old₂)` (`merge`, `merge_incomplete`, `merge_from_none` by the defined/undefined
      pattern), both old ids are cleared unless they are the new id, and EVERY other slot of EVERY
      storage is unchanged (frame); unsew is the mirror image with `split*`;
  (c) a 2-sew of two fully embedded edges whose direction test fails is refused with
      `BadGeometry`, and the test is skipped when a coordinate is missing;
  (d) a rejected merge/split makes the call fail (state untouched: C06).
  (e) D2 (repaired in /repo): when the two old ids COINCIDE (the same old cell twice — its dart set
      does not change) no law is called: the value is kept bit for bit and moves to the new id
      (`MergedIn.moved`, `C04_same_cell_value_is_kept`).  Before the fix `merge v v` was applied.

  NOT PROVED here: the identification of the ids with cells ("the new cell is the union of the two
  old cells", Appendix A3/A4 of DESIGN.md) — it is evaluated by the oracle of tools/props/c04.py on
  the real implementation (cells recomputed independently from the β arrays).
-/
import Honeycomb.Lemmas.Attr
import Honeycomb.Lemmas.WFLink
import Honeycomb.Props.C01

set_option linter.unusedSimpArgs false

namespace HC.C04
open HC
variable {X : Type}

/-- storages bound to vertices: the built-in one (0) first, then the user ones -/
def vStores (cfg : Cfg X) : List Nat := 0 :: storagesOf cfg 0
/-- storages bound to edges -/
def eStores (cfg : Cfg X) : List Nat := storagesOf cfg 1

theorem storagesOf_nodup (cfg : Cfg X) (k : Nat) : (storagesOf cfg k).Nodup := by
  unfold storagesOf
  exact List.Nodup.sublist List.filter_sublist List.nodup_range

theorem zero_notin_storagesOf (cfg : Cfg X) (k : Nat) : 0 ∉ storagesOf cfg k := by
  unfold storagesOf; simp

theorem vStores_nodup (cfg : Cfg X) : (vStores cfg).Nodup :=
  List.nodup_cons.2 ⟨zero_notin_storagesOf cfg 0, storagesOf_nodup cfg 0⟩

/-! ## peeling helpers -/

theorem peel_ro {α β : Type} {p : P X α} {f : α → P X β} (hp : ReadOnly p) {m m' : Map X} {b : β}
    (h : run (p.bind f) m = (.ok b, m')) : ∃ a, run p m = (.ok a, m) ∧ run (f a) m = (.ok b, m') := by
  obtain ⟨a, m1, h1, h2⟩ := run_bind_ok h
  have := hp.run_ok h1; subst this
  exact ⟨a, h1, h2⟩

theorem rB_ok {i d x : Nat} {m m' : Map X} (h : run (rB i d : P X Nat) m = (.ok x, m')) :
    x = m.β i d ∧ m' = m := by
  rw [run_rB'] at h
  split at h
  · simp only [Prod.mk.injEq, Out.ok.injEq] at h; exact ⟨h.1.symm, h.2.symm⟩
  · simp at h

theorem rA_ok {s d : Nat} {x : Option X} {m m' : Map X} (h : run (rA s d : P X (Option X)) m = (.ok x, m')) :
    x = m.att s d ∧ m' = m := by
  rw [run_rA'] at h
  split at h
  · simp only [Prod.mk.injEq, Out.ok.injEq] at h; exact ⟨h.1.symm, h.2.symm⟩
  · simp at h

theorem link1_fc {l r : Nat} {m m1 : Map X} {u : Unit} (h : run (oneLinkCore (X := X) l r) m = (.ok u, m1)) :
    m1.fc = m.fc ∧ (∀ s e, m1.att s e = m.att s e) ∧ m1.a = m.a := by
  obtain ⟨_, _, _, _, rfl⟩ := oneLinkCore_ok h
  exact ⟨rfl, fun _ _ => rfl, rfl⟩

theorem linkI_fc {i l r : Nat} {m m1 : Map X} {u : Unit} (h : run (iLinkCore (X := X) i l r) m = (.ok u, m1)) :
    m1.fc = m.fc ∧ (∀ s e, m1.att s e = m.att s e) ∧ m1.a = m.a := by
  obtain ⟨_, _, _, _, rfl⟩ := iLinkCore_ok h
  exact ⟨rfl, fun _ _ => rfl, rfl⟩

theorem unlink1_fc {l : Nat} {m m1 : Map X} {u : Unit} (h : run (oneUnlinkCore (X := X) l) m = (.ok u, m1)) :
    m1.fc = m.fc ∧ (∀ s e, m1.att s e = m.att s e) ∧ m1.a = m.a := by
  obtain ⟨_, _, _, rfl⟩ := oneUnlinkCore_ok h
  exact ⟨rfl, fun _ _ => rfl, rfl⟩

theorem unlinkI_fc {i l : Nat} {m m1 : Map X} {u : Unit} (h : run (iUnlinkCore (X := X) i l) m = (.ok u, m1)) :
    m1.fc = m.fc ∧ (∀ s e, m1.att s e = m.att s e) ∧ m1.a = m.a := by
  obtain ⟨_, _, _, rfl⟩ := iUnlinkCore_ok h
  exact ⟨rfl, fun _ _ => rfl, rfl⟩

/-- `self.vertices.merge(..)` followed by `merge_attributes(Vertex, ..)` is one pass over the
    vertex-bound storages -/
theorem mergeVertex_eq (cfg : Cfg X) (out l r : Nat) :
    ((mergeS cfg 0 out l r).bind fun _ => mergeAttrs cfg 0 out l r) =
      forM_ (vStores cfg) (fun s => mergeS cfg s out l r) := rfl

theorem splitVertex_eq (cfg : Cfg X) (lo ro inp : Nat) :
    ((splitS cfg 0 lo ro inp).bind fun _ => splitAttrs cfg 0 lo ro inp) =
      forM_ (vStores cfg) (fun s => splitS cfg s lo ro inp) := rfl

/-! ## 1-sew / 1-unsew -/

/-- **C04 (1-sew)** -/
theorem C04_oneSew2_effect (cfg : Cfg X) (n l r : Nat) (m m' : Map X) (u : Unit) (hfc : m.fc = 0)
    (h : run (oneSew2 cfg n l r) m = (.ok u, m')) :
    ∃ m1, run (oneLinkCore (X := X) l r) m = (.ok (), m1) ∧ SameTopo m1 m' ∧
      ((m.β 2 l = 0 ∧ m' = m1) ∨
       (m.β 2 l ≠ 0 ∧ ∃ v1 v2 nv,
          run (vertexId2 n (m.β 2 l)) m = (.ok v1, m) ∧ run (vertexId2 n r) m = (.ok v2, m) ∧
          run (vertexId2 n r) m1 = (.ok nv, m1) ∧
          MergedIn cfg (vStores cfg) nv v1 v2 m1 m')) := by
  unfold oneSew2 at h
  obtain ⟨b2l, hb, h⟩ := peel_ro (ReadOnly.rB _ _) h
  obtain ⟨rfl, _⟩ := rB_ok hb
  by_cases h0 : m.β 2 l = 0
  · simp only [h0, if_true] at h
    exact ⟨m', h, SameTopo.refl _, Or.inl ⟨h0, rfl⟩⟩
  · simp only [h0, if_false] at h
    obtain ⟨v1, hv1, h⟩ := peel_ro (readOnly_vertexId2 _ _) h
    obtain ⟨v2, hv2, h⟩ := peel_ro (readOnly_vertexId2 _ _) h
    obtain ⟨_, m1, hl, h⟩ := run_bind_ok h
    obtain ⟨nv, hnv, h⟩ := peel_ro (readOnly_vertexId2 _ _) h
    have h : run (forM_ (vStores cfg) (fun s => mergeS cfg s nv v1 v2)) m1 = (.ok u, m') := h
    have hm := forM_merge_ok cfg nv v1 v2 (vStores cfg) m1 m' u (vStores_nodup cfg)
      (by rw [(link1_fc hl).1]; exact hfc) h
    exact ⟨m1, hl, hm.topo, Or.inr ⟨h0, v1, v2, nv, hv1, hv2, hnv, hm⟩⟩

/-- **C04 (1-unsew)** -/
theorem C04_oneUnsew2_effect (cfg : Cfg X) (n l : Nat) (m m' : Map X) (u : Unit) (hfc : m.fc = 0)
    (h : run (oneUnsew2 cfg n l) m = (.ok u, m')) :
    ∃ m1, run (oneUnlinkCore (X := X) l) m = (.ok (), m1) ∧ SameTopo m1 m' ∧
      ((m.β 2 l = 0 ∧ m' = m1) ∨
       (m.β 2 l ≠ 0 ∧ ∃ vold nl nr,
          run (vertexId2 n (m.β 1 l)) m = (.ok vold, m) ∧
          run (vertexId2 n (m.β 2 l)) m1 = (.ok nl, m1) ∧ run (vertexId2 n (m.β 1 l)) m1 = (.ok nr, m1) ∧
          SplitIn cfg (vStores cfg) nl nr vold m1 m')) := by
  unfold oneUnsew2 at h
  obtain ⟨b2l, hb, h⟩ := peel_ro (ReadOnly.rB _ _) h
  obtain ⟨rfl, _⟩ := rB_ok hb
  by_cases h0 : m.β 2 l = 0
  · simp only [h0, if_true] at h
    exact ⟨m', h, SameTopo.refl _, Or.inl ⟨h0, rfl⟩⟩
  · simp only [h0, if_false] at h
    obtain ⟨r, hr, h⟩ := peel_ro (ReadOnly.rB _ _) h
    obtain ⟨rfl, _⟩ := rB_ok hr
    obtain ⟨vold, hv, h⟩ := peel_ro (readOnly_vertexId2 _ _) h
    obtain ⟨_, m1, hl, h⟩ := run_bind_ok h
    obtain ⟨nl, hnl, h⟩ := peel_ro (readOnly_vertexId2 _ _) h
    obtain ⟨nr, hnr, h⟩ := peel_ro (readOnly_vertexId2 _ _) h
    have h : run (forM_ (vStores cfg) (fun s => splitS cfg s nl nr vold)) m1 = (.ok u, m') := h
    have hm := forM_split_ok cfg nl nr vold (vStores cfg) m1 m' u (vStores_nodup cfg)
      (by rw [(unlink1_fc hl).1]; exact hfc) h
    exact ⟨m1, hl, hm.topo, Or.inr ⟨h0, vold, nl, nr, hv, hnl, hnr, hm⟩⟩

/-! ## 2-sew -/

theorem eStores_nodup (cfg : Cfg X) : (eStores cfg).Nodup := storagesOf_nodup cfg 1

theorem run_forM_single (f : Nat → P X Unit) (s : Nat) (m : Map X) :
    run (forM_ [s] f) m = run (f s) m := by
  show run ((f s).bind fun _ => Prog.ret ()) m = run (f s) m
  have : (fun (_ : Unit) => (Prog.ret () : P X Unit)) = Prog.ret := by funext x; rfl
  rw [this, Prog.bind_ret]

theorem run_mergeVertex (cfg : Cfg X) (out l r : Nat) {m ma mb : Map X} {u1 u2 : Unit}
    (hA : run (mergeS cfg 0 out l r) m = (.ok u1, ma))
    (hB : run (mergeAttrs cfg 0 out l r) ma = (.ok u2, mb)) :
    run (forM_ (vStores cfg) (fun s => mergeS cfg s out l r)) m = (.ok u2, mb) := by
  show run ((mergeS cfg 0 out l r).bind fun _ => forM_ (storagesOf cfg 0) (fun s => mergeS cfg s out l r)) m = _
  rw [run_bind, hA]; exact hB

theorem run_splitVertex (cfg : Cfg X) (lo ro inp : Nat) {m ma mb : Map X} {u1 u2 : Unit}
    (hA : run (splitS cfg 0 lo ro inp) m = (.ok u1, ma))
    (hB : run (splitAttrs cfg 0 lo ro inp) ma = (.ok u2, mb)) :
    run (forM_ (vStores cfg) (fun s => splitS cfg s lo ro inp)) m = (.ok u2, mb) := by
  show run ((splitS cfg 0 lo ro inp).bind fun _ => forM_ (storagesOf cfg 0) (fun s => splitS cfg s lo ro inp)) m = _
  rw [run_bind, hA]; exact hB

theorem AttrOnly.run_ok {α : Type} {p : P X α} (hp : AttrOnly p) {m m' : Map X} {a : α}
    (h : run p m = (.ok a, m')) : SameTopo m m' := by
  have := hp m; rw [h] at this; exact this

/-- every successful 2-sew performed exactly the 2-link on the topology -/
theorem C04_twoSew2_topology (cfg : Cfg X) (n l r : Nat) (m m' : Map X) (u : Unit)
    (h : run (twoSew2 cfg n l r) m = (.ok u, m')) :
    ∃ m1, run (iLinkCore (X := X) 2 l r) m = (.ok (), m1) ∧ SameTopo m1 m' := by
  unfold twoSew2 at h
  obtain ⟨b1l, hb, h⟩ := peel_ro (ReadOnly.rB _ _) h
  obtain ⟨b1r, hb', h⟩ := peel_ro (ReadOnly.rB _ _) h
  by_cases c1 : b1l = 0 ∧ b1r = 0
  · rw [if_pos c1] at h
    obtain ⟨_, m1, hl, h⟩ := run_bind_ok h
    refine ⟨m1, hl, ?_⟩
    exact AttrOnly.run_ok (AttrOnly.bind (C01.ao_eid (X := X) l) fun eid => attrOnly_mergeAttrs cfg 1 eid l r) h
  · rw [if_neg c1] at h
    by_cases c2 : b1l = 0
    · rw [if_pos c2] at h
      obtain ⟨lv, _, h⟩ := peel_ro (readOnly_vertexId2 _ _) h
      obtain ⟨b1rv, _, h⟩ := peel_ro (readOnly_vertexId2 _ _) h
      obtain ⟨_, m1, hl, h⟩ := run_bind_ok h
      refine ⟨m1, hl, ?_⟩
      exact AttrOnly.run_ok (AttrOnly.bind (C01.ao_vid (X := X) n l) fun lvn => AttrOnly.bind (C01.ao_eid l) fun eid =>
        AttrOnly.bind (attrOnly_mergeS cfg 0 lvn lv b1rv) fun _ =>
        AttrOnly.bind (attrOnly_mergeAttrs cfg 0 lvn lv b1rv) fun _ => attrOnly_mergeAttrs cfg 1 eid l r) h
    · rw [if_neg c2] at h
      by_cases c3 : b1r = 0
      · rw [if_pos c3] at h
        obtain ⟨b1lv, _, h⟩ := peel_ro (readOnly_vertexId2 _ _) h
        obtain ⟨rv, _, h⟩ := peel_ro (readOnly_vertexId2 _ _) h
        obtain ⟨_, m1, hl, h⟩ := run_bind_ok h
        refine ⟨m1, hl, ?_⟩
        exact AttrOnly.run_ok (AttrOnly.bind (C01.ao_vid (X := X) n r) fun rvn => AttrOnly.bind (C01.ao_eid l) fun eid =>
          AttrOnly.bind (attrOnly_mergeS cfg 0 rvn b1lv rv) fun _ =>
          AttrOnly.bind (attrOnly_mergeAttrs cfg 0 rvn b1lv rv) fun _ => attrOnly_mergeAttrs cfg 1 eid l r) h
      · rw [if_neg c3] at h
        obtain ⟨lv, _, h⟩ := peel_ro (readOnly_vertexId2 _ _) h
        obtain ⟨b1rv, _, h⟩ := peel_ro (readOnly_vertexId2 _ _) h
        obtain ⟨b1lv, _, h⟩ := peel_ro (readOnly_vertexId2 _ _) h
        obtain ⟨rv, _, h⟩ := peel_ro (readOnly_vertexId2 _ _) h
        obtain ⟨pl, _, h⟩ := peel_ro (ReadOnly.rA _ _) h
        obtain ⟨pb1r, _, h⟩ := peel_ro (ReadOnly.rA _ _) h
        obtain ⟨pb1l, _, h⟩ := peel_ro (ReadOnly.rA _ _) h
        obtain ⟨pr, _, h⟩ := peel_ro (ReadOnly.rA _ _) h
        by_cases c4 : badPair cfg pl pb1r pb1l pr = true
        · rw [if_pos c4] at h
          simp at h
        · rw [if_neg c4] at h
          obtain ⟨_, m1, hl, h⟩ := run_bind_ok h
          refine ⟨m1, hl, ?_⟩
          exact AttrOnly.run_ok (AttrOnly.bind (C01.ao_vid (X := X) n l) fun lvn => AttrOnly.bind (C01.ao_vid n r) fun rvn =>
            AttrOnly.bind (C01.ao_eid l) fun eid =>
            AttrOnly.bind (attrOnly_mergeS cfg 0 lvn lv b1rv) fun _ =>
            AttrOnly.bind (attrOnly_mergeS cfg 0 rvn b1lv rv) fun _ =>
            AttrOnly.bind (attrOnly_mergeAttrs cfg 0 lvn lv b1rv) fun _ =>
            AttrOnly.bind (attrOnly_mergeAttrs cfg 0 rvn b1lv rv) fun _ => attrOnly_mergeAttrs cfg 1 eid l r) h

/-- **C04 (2-sew, both darts 1-free)**: only the edge storages are merged, into the new edge id -/
theorem C04_twoSew2_free (cfg : Cfg X) (n l r : Nat) (m m' : Map X) (u : Unit) (hfc : m.fc = 0)
    (hl0 : m.β 1 l = 0) (hr0 : m.β 1 r = 0)
    (h : run (twoSew2 cfg n l r) m = (.ok u, m')) :
    ∃ m1 eid, run (iLinkCore (X := X) 2 l r) m = (.ok (), m1) ∧ run (edgeId2 (X := X) l) m1 = (.ok eid, m1) ∧
      MergedIn cfg (eStores cfg) eid l r m1 m' := by
  unfold twoSew2 at h
  obtain ⟨b1l, hb, h⟩ := peel_ro (ReadOnly.rB _ _) h
  obtain ⟨rfl, _⟩ := rB_ok hb
  obtain ⟨b1r, hb', h⟩ := peel_ro (ReadOnly.rB _ _) h
  obtain ⟨rfl, _⟩ := rB_ok hb'
  simp only [hl0, hr0, and_self, if_true] at h
  obtain ⟨_, m1, hl, h⟩ := run_bind_ok h
  obtain ⟨eid, he, h⟩ := peel_ro (readOnly_edgeId2 _) h
  have h : run (forM_ (eStores cfg) (fun s => mergeS cfg s eid l r)) m1 = (.ok u, m') := h
  exact ⟨m1, eid, hl, he, forM_merge_ok cfg eid l r _ m1 m' u (eStores_nodup cfg)
    (by rw [(linkI_fc hl).1]; exact hfc) h⟩

/-- **C04 (2-sew, one vertex to merge)**: `l` is 1-free, `r` is not: the vertex of `l` and the
    vertex of `β1 r` are merged into the new vertex id of `l`, then the edge storages -/
theorem C04_twoSew2_left (cfg : Cfg X) (n l r : Nat) (m m' : Map X) (u : Unit) (hfc : m.fc = 0)
    (hl0 : m.β 1 l = 0) (hr0 : m.β 1 r ≠ 0)
    (h : run (twoSew2 cfg n l r) m = (.ok u, m')) :
    ∃ lv b1rv m1 lvn eid ma,
      run (vertexId2 n l) m = (.ok lv, m) ∧ run (vertexId2 n (m.β 1 r)) m = (.ok b1rv, m) ∧
      run (iLinkCore (X := X) 2 l r) m = (.ok (), m1) ∧
      run (vertexId2 n l) m1 = (.ok lvn, m1) ∧ run (edgeId2 (X := X) l) m1 = (.ok eid, m1) ∧
      MergedIn cfg (vStores cfg) lvn lv b1rv m1 ma ∧ MergedIn cfg (eStores cfg) eid l r ma m' := by
  unfold twoSew2 at h
  obtain ⟨b1l, hb, h⟩ := peel_ro (ReadOnly.rB _ _) h
  obtain ⟨rfl, _⟩ := rB_ok hb
  obtain ⟨b1r, hb', h⟩ := peel_ro (ReadOnly.rB _ _) h
  obtain ⟨rfl, _⟩ := rB_ok hb'
  simp only [hl0, hr0, and_false, if_false, if_true] at h
  obtain ⟨lv, hlv, h⟩ := peel_ro (readOnly_vertexId2 _ _) h
  obtain ⟨b1rv, hb1rv, h⟩ := peel_ro (readOnly_vertexId2 _ _) h
  obtain ⟨_, m1, hl, h⟩ := run_bind_ok h
  obtain ⟨lvn, hlvn, h⟩ := peel_ro (readOnly_vertexId2 _ _) h
  obtain ⟨eid, he, h⟩ := peel_ro (readOnly_edgeId2 _) h
  obtain ⟨_, mA, hA, h⟩ := run_bind_ok h
  obtain ⟨_, mB, hB, h⟩ := run_bind_ok h
  have hfc1 : m1.fc = 0 := by rw [(linkI_fc hl).1]; exact hfc
  have hv := forM_merge_ok cfg lvn lv b1rv _ m1 mB () (vStores_nodup cfg) hfc1 (run_mergeVertex cfg _ _ _ hA hB)
  have h : run (forM_ (eStores cfg) (fun s => mergeS cfg s eid l r)) mB = (.ok u, m') := h
  have hE := forM_merge_ok cfg eid l r _ mB m' u (eStores_nodup cfg) (by rw [hv.fc]; exact hfc1) h
  exact ⟨lv, b1rv, m1, lvn, eid, mB, hlv, hb1rv, hl, hlvn, he, hv, hE⟩

/-- **C04 (2-sew, one vertex to merge)**, mirror case: `r` is 1-free, `l` is not -/
theorem C04_twoSew2_right (cfg : Cfg X) (n l r : Nat) (m m' : Map X) (u : Unit) (hfc : m.fc = 0)
    (hl0 : m.β 1 l ≠ 0) (hr0 : m.β 1 r = 0)
    (h : run (twoSew2 cfg n l r) m = (.ok u, m')) :
    ∃ b1lv rv m1 rvn eid ma,
      run (vertexId2 n (m.β 1 l)) m = (.ok b1lv, m) ∧ run (vertexId2 n r) m = (.ok rv, m) ∧
      run (iLinkCore (X := X) 2 l r) m = (.ok (), m1) ∧
      run (vertexId2 n r) m1 = (.ok rvn, m1) ∧ run (edgeId2 (X := X) l) m1 = (.ok eid, m1) ∧
      MergedIn cfg (vStores cfg) rvn b1lv rv m1 ma ∧ MergedIn cfg (eStores cfg) eid l r ma m' := by
  unfold twoSew2 at h
  obtain ⟨b1l, hb, h⟩ := peel_ro (ReadOnly.rB _ _) h
  obtain ⟨rfl, _⟩ := rB_ok hb
  obtain ⟨b1r, hb', h⟩ := peel_ro (ReadOnly.rB _ _) h
  obtain ⟨rfl, _⟩ := rB_ok hb'
  simp only [hl0, hr0, false_and, if_false, if_true] at h
  obtain ⟨b1lv, hb1lv, h⟩ := peel_ro (readOnly_vertexId2 _ _) h
  obtain ⟨rv, hrv, h⟩ := peel_ro (readOnly_vertexId2 _ _) h
  obtain ⟨_, m1, hl, h⟩ := run_bind_ok h
  obtain ⟨rvn, hrvn, h⟩ := peel_ro (readOnly_vertexId2 _ _) h
  obtain ⟨eid, he, h⟩ := peel_ro (readOnly_edgeId2 _) h
  obtain ⟨_, mA, hA, h⟩ := run_bind_ok h
  obtain ⟨_, mB, hB, h⟩ := run_bind_ok h
  have hfc1 : m1.fc = 0 := by rw [(linkI_fc hl).1]; exact hfc
  have hv := forM_merge_ok cfg rvn b1lv rv _ m1 mB () (vStores_nodup cfg) hfc1 (run_mergeVertex cfg _ _ _ hA hB)
  have h : run (forM_ (eStores cfg) (fun s => mergeS cfg s eid l r)) mB = (.ok u, m') := h
  have hE := forM_merge_ok cfg eid l r _ mB m' u (eStores_nodup cfg) (by rw [hv.fc]; exact hfc1) h
  exact ⟨b1lv, rv, m1, rvn, eid, mB, hb1lv, hrv, hl, hrvn, he, hv, hE⟩

/-- **C04 (2-sew, both vertices to merge)**: both darts have a successor.  The orientation test
    passed (or was skipped because a coordinate is missing); the two vertex merges, then the edge
    merge, are applied — in the order of the code: built-in vertices (both ends), user vertex
    storages (both ends), edge storages. -/
theorem C04_twoSew2_both (cfg : Cfg X) (n l r : Nat) (m m' : Map X) (u : Unit) (hfc : m.fc = 0)
    (hl0 : m.β 1 l ≠ 0) (hr0 : m.β 1 r ≠ 0)
    (h : run (twoSew2 cfg n l r) m = (.ok u, m')) :
    ∃ lv b1rv b1lv rv m1 lvn rvn eid ma mb mc md,
      run (vertexId2 n l) m = (.ok lv, m) ∧ run (vertexId2 n (m.β 1 r)) m = (.ok b1rv, m) ∧
      run (vertexId2 n (m.β 1 l)) m = (.ok b1lv, m) ∧ run (vertexId2 n r) m = (.ok rv, m) ∧
      badPair cfg (m.att 0 lv) (m.att 0 b1rv) (m.att 0 b1lv) (m.att 0 rv) = false ∧
      run (iLinkCore (X := X) 2 l r) m = (.ok (), m1) ∧
      run (vertexId2 n l) m1 = (.ok lvn, m1) ∧ run (vertexId2 n r) m1 = (.ok rvn, m1) ∧
      run (edgeId2 (X := X) l) m1 = (.ok eid, m1) ∧
      MergedIn cfg [0] lvn lv b1rv m1 ma ∧ MergedIn cfg [0] rvn b1lv rv ma mb ∧
      MergedIn cfg (storagesOf cfg 0) lvn lv b1rv mb mc ∧ MergedIn cfg (storagesOf cfg 0) rvn b1lv rv mc md ∧
      MergedIn cfg (eStores cfg) eid l r md m' := by
  unfold twoSew2 at h
  obtain ⟨b1l, hb, h⟩ := peel_ro (ReadOnly.rB _ _) h
  obtain ⟨rfl, _⟩ := rB_ok hb
  obtain ⟨b1r, hb', h⟩ := peel_ro (ReadOnly.rB _ _) h
  obtain ⟨rfl, _⟩ := rB_ok hb'
  simp only [hl0, hr0, false_and, and_false, if_false] at h
  obtain ⟨lv, hlv, h⟩ := peel_ro (readOnly_vertexId2 _ _) h
  obtain ⟨b1rv, hb1rv, h⟩ := peel_ro (readOnly_vertexId2 _ _) h
  obtain ⟨b1lv, hb1lv, h⟩ := peel_ro (readOnly_vertexId2 _ _) h
  obtain ⟨rv, hrv, h⟩ := peel_ro (readOnly_vertexId2 _ _) h
  obtain ⟨pl, hpl, h⟩ := peel_ro (ReadOnly.rA _ _) h
  obtain ⟨rfl, _⟩ := rA_ok hpl
  obtain ⟨pb1r, hpb1r, h⟩ := peel_ro (ReadOnly.rA _ _) h
  obtain ⟨rfl, _⟩ := rA_ok hpb1r
  obtain ⟨pb1l, hpb1l, h⟩ := peel_ro (ReadOnly.rA _ _) h
  obtain ⟨rfl, _⟩ := rA_ok hpb1l
  obtain ⟨pr, hpr, h⟩ := peel_ro (ReadOnly.rA _ _) h
  obtain ⟨rfl, _⟩ := rA_ok hpr
  have hbad : badPair cfg (m.att 0 lv) (m.att 0 b1rv) (m.att 0 b1lv) (m.att 0 rv) = false := by
    by_cases hb : badPair cfg (m.att 0 lv) (m.att 0 b1rv) (m.att 0 b1lv) (m.att 0 rv) = true
    · exfalso
      rw [if_pos hb] at h
      simp at h
    · simpa using hb
  rw [if_neg (by rw [hbad]; simp)] at h
  obtain ⟨_, m1, hl, h⟩ := run_bind_ok h
  obtain ⟨lvn, hlvn, h⟩ := peel_ro (readOnly_vertexId2 _ _) h
  obtain ⟨rvn, hrvn, h⟩ := peel_ro (readOnly_vertexId2 _ _) h
  obtain ⟨eid, he, h⟩ := peel_ro (readOnly_edgeId2 _) h
  obtain ⟨_, mA, hA, h⟩ := run_bind_ok h
  obtain ⟨_, mB, hB, h⟩ := run_bind_ok h
  obtain ⟨_, mC, hC, h⟩ := run_bind_ok h
  obtain ⟨_, mD, hD, h⟩ := run_bind_ok h
  have hfc1 : m1.fc = 0 := by rw [(linkI_fc hl).1]; exact hfc
  have nd0 : ([0] : List Nat).Nodup := by simp
  have rA' := forM_merge_ok cfg lvn lv b1rv [0] m1 mA () nd0 hfc1 (by rw [run_forM_single]; exact hA)
  have fA : mA.fc = 0 := by rw [rA'.fc]; exact hfc1
  have rB' := forM_merge_ok cfg rvn b1lv rv [0] mA mB () nd0 fA (by rw [run_forM_single]; exact hB)
  have fB : mB.fc = 0 := by rw [rB'.fc]; exact fA
  have rC' := forM_merge_ok cfg lvn lv b1rv _ mB mC () (storagesOf_nodup cfg 0) fB hC
  have fC : mC.fc = 0 := by rw [rC'.fc]; exact fB
  have rD' := forM_merge_ok cfg rvn b1lv rv _ mC mD () (storagesOf_nodup cfg 0) fC hD
  have fD : mD.fc = 0 := by rw [rD'.fc]; exact fC
  have h : run (forM_ (eStores cfg) (fun s => mergeS cfg s eid l r)) mD = (.ok u, m') := h
  have rE' := forM_merge_ok cfg eid l r _ mD m' u (eStores_nodup cfg) fD h
  exact ⟨lv, b1rv, b1lv, rv, m1, lvn, rvn, eid, mA, mB, mC, mD, hlv, hb1rv, hb1lv, hrv, hbad, hl, hlvn, hrvn, he,
    rA', rB', rC', rD', rE'⟩

/-- **C04 (refusal)**: two fully embedded edges that do not point in opposite directions are refused
    with `BadGeometry`, whatever else the map contains -/
theorem C04_twoSew2_refuses (cfg : Cfg X) (n l r : Nat) (m : Map X)
    (lv b1rv b1lv rv : Nat) (a b c d : X)
    (hl0 : m.β 1 l ≠ 0) (hr0 : m.β 1 r ≠ 0) (ho1 : m.okβ 1 l = true) (ho2 : m.okβ 1 r = true)
    (h1 : run (vertexId2 n l) m = (.ok lv, m)) (h2 : run (vertexId2 n (m.β 1 r)) m = (.ok b1rv, m))
    (h3 : run (vertexId2 n (m.β 1 l)) m = (.ok b1lv, m)) (h4 : run (vertexId2 n r) m = (.ok rv, m))
    (k1 : m.okA 0 lv = true) (k2 : m.okA 0 b1rv = true) (k3 : m.okA 0 b1lv = true) (k4 : m.okA 0 rv = true)
    (v1 : m.att 0 lv = some a) (v2 : m.att 0 b1rv = some b) (v3 : m.att 0 b1lv = some c) (v4 : m.att 0 rv = some d)
    (hbad : cfg.badOrient a b c d = true) :
    run (twoSew2 cfg n l r) m = (.err (errBadGeometry 2 l r), m) := by
  unfold twoSew2
  simp only [Prog.bind_eq, bind, run_rB, ho1, ho2, if_true, hl0, hr0, false_and, and_false, if_false]
  rw [run_bind, h1]; simp only
  rw [run_bind, h2]; simp only
  rw [run_bind, h3]; simp only
  rw [run_bind, h4]; simp only
  have hb : badPair cfg (some a) (some b) (some c) (some d) = true := hbad
  simp only [run_rA, k1, k2, k3, k4, if_true, v1, v2, v3, v4, hb]
  rfl

/-! ## 2-unsew -/

/-- **C04 (2-unsew)**: the four cases of `two_unsew`.  The topology changes exactly as the 2-unlink
    does; the edge storages split the old edge id into `(l, r)`; then the vertex of `l` (when `r` has
    a successor) and the vertex of `r` (when `l` has one) are split, in every vertex-bound storage. -/
theorem C04_twoUnsew2_effect (cfg : Cfg X) (n l : Nat) (m m' : Map X) (u : Unit) (hfc : m.fc = 0)
    (h : run (twoUnsew2 cfg n l) m = (.ok u, m')) :
    ∃ eold m1 me,
      run (edgeId2 (X := X) l) m = (.ok eold, m) ∧
      run (iUnlinkCore (X := X) 2 l) m = (.ok (), m1) ∧
      SplitIn cfg (eStores cfg) l (m.β 2 l) eold m1 me ∧ SameTopo m1 m' ∧
      ((m.β 1 l = 0 ∧ m.β 1 (m.β 2 l) = 0 ∧ m' = me) ∨
       (m.β 1 l = 0 ∧ m.β 1 (m.β 2 l) ≠ 0 ∧ ∃ lvold a b,
          run (vertexId2 n l) m = (.ok lvold, m) ∧
          run (vertexId2 n l) me = (.ok a, me) ∧ run (vertexId2 n (m.β 1 (m.β 2 l))) me = (.ok b, me) ∧
          SplitIn cfg (vStores cfg) a b lvold me m') ∨
       (m.β 1 l ≠ 0 ∧ m.β 1 (m.β 2 l) = 0 ∧ ∃ rvold a b,
          run (vertexId2 n (m.β 2 l)) m = (.ok rvold, m) ∧
          run (vertexId2 n (m.β 1 l)) me = (.ok a, me) ∧ run (vertexId2 n (m.β 2 l)) me = (.ok b, me) ∧
          SplitIn cfg (vStores cfg) a b rvold me m') ∨
       (m.β 1 l ≠ 0 ∧ m.β 1 (m.β 2 l) ≠ 0 ∧ ∃ lvold rvold a b c d mv,
          run (vertexId2 n l) m = (.ok lvold, m) ∧ run (vertexId2 n (m.β 2 l)) m = (.ok rvold, m) ∧
          run (vertexId2 n l) me = (.ok a, me) ∧ run (vertexId2 n (m.β 1 (m.β 2 l))) me = (.ok b, me) ∧
          run (vertexId2 n (m.β 1 l)) me = (.ok c, me) ∧ run (vertexId2 n (m.β 2 l)) me = (.ok d, me) ∧
          SplitIn cfg (vStores cfg) a b lvold me mv ∧ SplitIn cfg (vStores cfg) c d rvold mv m')) := by
  unfold twoUnsew2 at h
  obtain ⟨r, hr, h⟩ := peel_ro (ReadOnly.rB _ _) h
  obtain ⟨rfl, _⟩ := rB_ok hr
  obtain ⟨b1l, hb, h⟩ := peel_ro (ReadOnly.rB _ _) h
  obtain ⟨rfl, _⟩ := rB_ok hb
  obtain ⟨b1r, hb', h⟩ := peel_ro (ReadOnly.rB _ _) h
  obtain ⟨rfl, _⟩ := rB_ok hb'
  by_cases c1 : m.β 1 l = 0 ∧ m.β 1 (m.β 2 l) = 0
  · rw [if_pos c1] at h
    obtain ⟨eold, he, h⟩ := peel_ro (readOnly_edgeId2 _) h
    obtain ⟨_, m1, hl, h⟩ := run_bind_ok h
    have hfc1 : m1.fc = 0 := by rw [(unlinkI_fc hl).1]; exact hfc
    have h : run (forM_ (eStores cfg) (fun s => splitS cfg s l (m.β 2 l) eold)) m1 = (.ok u, m') := h
    have hE := forM_split_ok cfg l (m.β 2 l) eold _ m1 m' u (eStores_nodup cfg) hfc1 h
    exact ⟨eold, m1, m', he, hl, hE, hE.topo, Or.inl ⟨c1.1, c1.2, rfl⟩⟩
  · rw [if_neg c1] at h
    by_cases c2 : m.β 1 l = 0
    · rw [if_pos c2] at h
      have c2' : m.β 1 (m.β 2 l) ≠ 0 := fun hh => c1 ⟨c2, hh⟩
      obtain ⟨eold, he, h⟩ := peel_ro (readOnly_edgeId2 _) h
      obtain ⟨lvold, hlv, h⟩ := peel_ro (readOnly_vertexId2 _ _) h
      obtain ⟨_, m1, hl, h⟩ := run_bind_ok h
      have hfc1 : m1.fc = 0 := by rw [(unlinkI_fc hl).1]; exact hfc
      obtain ⟨_, me, hE0, h⟩ := run_bind_ok h
      have hE := forM_split_ok cfg l (m.β 2 l) eold _ m1 me () (eStores_nodup cfg) hfc1 hE0
      have hfce : me.fc = 0 := by rw [hE.fc]; exact hfc1
      obtain ⟨a, ha, h⟩ := peel_ro (readOnly_vertexId2 _ _) h
      obtain ⟨b, hb2, h⟩ := peel_ro (readOnly_vertexId2 _ _) h
      have h : run (forM_ (vStores cfg) (fun s => splitS cfg s a b lvold)) me = (.ok u, m') := h
      have hV := forM_split_ok cfg a b lvold _ me m' u (vStores_nodup cfg) hfce h
      exact ⟨eold, m1, me, he, hl, hE, hE.topo.trans hV.topo,
        Or.inr (Or.inl ⟨c2, c2', lvold, a, b, hlv, ha, hb2, hV⟩)⟩
    · rw [if_neg c2] at h
      by_cases c3 : m.β 1 (m.β 2 l) = 0
      · rw [if_pos c3] at h
        obtain ⟨eold, he, h⟩ := peel_ro (readOnly_edgeId2 _) h
        obtain ⟨rvold, hrv, h⟩ := peel_ro (readOnly_vertexId2 _ _) h
        obtain ⟨_, m1, hl, h⟩ := run_bind_ok h
        have hfc1 : m1.fc = 0 := by rw [(unlinkI_fc hl).1]; exact hfc
        obtain ⟨_, me, hE0, h⟩ := run_bind_ok h
        have hE := forM_split_ok cfg l (m.β 2 l) eold _ m1 me () (eStores_nodup cfg) hfc1 hE0
        have hfce : me.fc = 0 := by rw [hE.fc]; exact hfc1
        obtain ⟨a, ha, h⟩ := peel_ro (readOnly_vertexId2 _ _) h
        obtain ⟨b, hb2, h⟩ := peel_ro (readOnly_vertexId2 _ _) h
        have h : run (forM_ (vStores cfg) (fun s => splitS cfg s a b rvold)) me = (.ok u, m') := h
        have hV := forM_split_ok cfg a b rvold _ me m' u (vStores_nodup cfg) hfce h
        exact ⟨eold, m1, me, he, hl, hE, hE.topo.trans hV.topo,
          Or.inr (Or.inr (Or.inl ⟨c2, c3, rvold, a, b, hrv, ha, hb2, hV⟩))⟩
      · rw [if_neg c3] at h
        obtain ⟨eold, he, h⟩ := peel_ro (readOnly_edgeId2 _) h
        obtain ⟨lvold, hlv, h⟩ := peel_ro (readOnly_vertexId2 _ _) h
        obtain ⟨rvold, hrv, h⟩ := peel_ro (readOnly_vertexId2 _ _) h
        obtain ⟨_, m1, hl, h⟩ := run_bind_ok h
        have hfc1 : m1.fc = 0 := by rw [(unlinkI_fc hl).1]; exact hfc
        obtain ⟨_, me, hE0, h⟩ := run_bind_ok h
        have hE := forM_split_ok cfg l (m.β 2 l) eold _ m1 me () (eStores_nodup cfg) hfc1 hE0
        have hfce : me.fc = 0 := by rw [hE.fc]; exact hfc1
        obtain ⟨a, ha, h⟩ := peel_ro (readOnly_vertexId2 _ _) h
        obtain ⟨b, hb2, h⟩ := peel_ro (readOnly_vertexId2 _ _) h
        obtain ⟨c, hc, h⟩ := peel_ro (readOnly_vertexId2 _ _) h
        obtain ⟨d, hd, h⟩ := peel_ro (readOnly_vertexId2 _ _) h
        obtain ⟨_, mA, hA, h⟩ := run_bind_ok h
        obtain ⟨_, mB, hB, h⟩ := run_bind_ok h
        obtain ⟨_, mC, hC, h⟩ := run_bind_ok h
        have hV1 := forM_split_ok cfg a b lvold _ me mB () (vStores_nodup cfg) hfce (run_splitVertex cfg _ _ _ hA hB)
        have hfcB : mB.fc = 0 := by rw [hV1.fc]; exact hfce
        have hV2 := forM_split_ok cfg c d rvold _ mB m' u (vStores_nodup cfg) hfcB (run_splitVertex cfg _ _ _ hC h)
        exact ⟨eold, m1, me, he, hl, hE, (hE.topo.trans hV1.topo).trans hV2.topo,
          Or.inr (Or.inr (Or.inr ⟨c2, c3, lvold, rvold, a, b, c, d, mB, hlv, hrv, ha, hb2, hc, hd, hV1, hV2⟩))⟩

/-! ## failure of a law, and D2 -/

/-- a merge rejected by the attribute makes the storage update fail (and then, by C06, the whole
    call leaves the map unchanged) -/
theorem C04_rejected_merge_fails (cfg : Cfg X) (s out l r : Nat) (m : Map X) (e : Err) (hfc : m.fc = 0)
    (hlr : l ≠ r) (hl : m.okA s l = true) (hr : m.okA s r = true) (ho : m.okA s out = true)
    (hv : mergeVal (cfg.law s) (m.att s l) (m.att s r) = .error e) :
    run (mergeS cfg s out l r) m = (.err e, m) := by
  rw [mergeS_run cfg s out l r m hfc hlr hl hr ho, hv]

/-- **D2 (fixed in /repo by commit "fix: AttrSparseVec::merge/split move the value …")**: when the two
    old identifiers coincide (`l = r`: both darts already belong to the SAME cell, whose dart set
    the sew does not change) no law is called at all: the value — defined or not — is kept bit for
    bit and only moves to the new identifier.  Before the fix the storage applied `merge v v`. -/
theorem C04_same_cell_value_is_kept (cfg : Cfg X) (s out l : Nat) (m : Map X)
    (hl : m.okA s l = true) (ho : m.okA s out = true) :
    ∃ m', run (mergeS cfg s out l l) m = (.ok (), m') ∧ m'.att s out = m.att s l ∧
      (l ≠ out → m'.att s l = none) ∧ (∀ e, e ≠ out → e ≠ l → m'.att s e = m.att s e) := by
  refine ⟨m.moveAt s out l, mergeS_run_move cfg s out l m hl ho, ?_, ?_, ?_⟩
  · rw [att_moveAt m s out l s out hl ho]; simp
  · intro h; rw [att_moveAt m s out l s l hl ho]; simp [h]
  · intro e h1 h2; rw [att_moveAt m s out l s e hl ho]; simp [h1, h2]

/-- the unsew twin: when the two new identifiers coincide nothing is split -/
theorem C04_same_cell_value_is_kept_split (cfg : Cfg X) (s lo inp : Nat) (m : Map X)
    (hi : m.okA s inp = true) (hl : m.okA s lo = true) :
    ∃ m', run (splitS cfg s lo lo inp) m = (.ok (), m') ∧ m'.att s lo = m.att s inp ∧
      (inp ≠ lo → m'.att s inp = none) := by
  refine ⟨m.moveAt s lo inp, splitS_run_move cfg s lo inp m hi hl, ?_, ?_⟩
  · rw [att_moveAt m s lo inp s lo hi hl]; simp
  · intro h; rw [att_moveAt m s lo inp s inp hi hl]; simp [h]

/-! ## non-vacuity -/

/-- the two triangles of C01 (all vertices defined, two user attributes set) -/
example : (run (twoSew2 (stdCfg 3 7) 9 2 4) C01.exMap).1 = .ok () := by decide +kernel
example : (run (oneSew2 (stdCfg 3 7) 9 7 7) C01.exMap).1 = .ok () := by decide +kernel
example : C01.exMap.fc = 0 := rfl
/-- after the 2-sew of darts 2 and 4, vertex 2 (= {2, 5}… old ids 2 and 5) holds the average -/
example : ((run (twoSew2 (stdCfg 3 7) 9 2 4) C01.exMap).2).att 0 2 = some (.pt (3/2) 0 0) := by decide +kernel
example : ((run (twoSew2 (stdCfg 3 7) 9 2 4) C01.exMap).2).att 0 5 = none := by decide +kernel
/-- a same-direction 2-sew is refused -/
example : (run (twoSew2 (stdCfg 3 7) 9 2 5) C01.exMap).1 = .err (errBadGeometry 2 2 5) := by decide +kernel

end HC.C04
