/-
  C17 — capture and classification: the discrete core.

  Model: `Honeycomb/Model/Capture.lean` (`classify_capture`, `mark_curve` of
  `honeycomb-kernels/src/remeshing/capture.rs`), generated anchor table `Gen/Anchors.lean`.

  Proved here, for every map `m` with `WF 3 m` carrying the three anchor storages (no bound on the size):

  * anchor algebra, from the generated `match` arms, for all identifiers
      `C17_vertex_merge_comm/_idem/_assoc/_lower_dim/_fails_iff` (and `edge_`, `face_`)
  * `C17_classify_frame`          whatever its outcome, `classify_capture` never touches β, the removal flags or
                                  the sizes, and never removes an anchor; `C17_classify_WF`: the map stays well-formed
  * `C17_classify_ok_all_anchored`  after `classify_capture = Ok` (debug build: the three `debug_assert!`s are
                                  part of the function) every vertex, edge and face identifier of an in-use dart
                                  has an anchor
  * `C17_markCurve_terminates`    `mark_curve` terminates (never exhausts the fuel `n_darts + 1`, never panics)
                                  from every start dart, with `Ok` or `UnsupportedGeometry`; every slot it changes
                                  holds `Curve(curve_id)` afterwards (one curve id), vertices that were anchored
                                  keep their anchor (the walk stops at the next anchored vertex), the start edge
                                  is anchored to the curve
  * `C17_markCurve_ok_of_closed`  on a closed boundary (the end vertex of every 2-free dart has a 2-free dart) the
                                  walk from a 2-free dart succeeds
  * `C17_markCurve_err_leaves_boundary`  an error is returned only when the walk reaches a vertex without 2-free dart

  * `C17_core_faces_and_boundary_edges_anchored`  without the assertions, for every input anchoring: when the
                                  three loops end without error every face of an in-use dart and every boundary
                                  edge (edge of an in-use 2-free dart) is anchored
  * `C17_boundary_loop_terminates` the loop over boundaries without anchored vertex terminates (fuel never exhausted)
  * `C17_classify_terminates`     `classify_capture` is total: it terminates on every well-formed map with the anchor
                                  storages, whatever anchors it carries; outcome `Ok`, `UnsupportedGeometry`, or the
                                  panic of a final assertion after the three loops ended with `Ok` (no index panic)
  * `C17_classify_assertion_can_fire`  the unconditional version of (a) is FALSE on arbitrary well-formed maps
                                  (dangling edge: vertex left unanchored, the debug assertion panics)

  NOT PROVED (see SPEC["not_proved"] of tools/props/c17.py): that the assertions cannot fire on capture
  outputs; one surface id per connected component; the geometric part of capture.
-/
import Honeycomb.Model.Capture
import Honeycomb.Lemmas.Run
import Honeycomb.Lemmas.WFLink
import Honeycomb.Lemmas.Attr
import Honeycomb.Props.C03

set_option linter.unusedSimpArgs false
set_option linter.unusedVariables false

namespace HC.C17
open HC HC.C03
open HC.Gen.Anchors

/-! ## (c) the anchor merge algebra (generated table)

The same statements are proved as `HC.C15.C15_{v,e,f}anchor_merge_{comm,idem,lower_dim,fails_iff,assoc}` and
`C15_*_ofCode_code` in `Props/C15.lean`; they are re-derived here (a few lines each, directly from the generated
arms) so that the C17 module does not depend on the build of the remeshing proofs. -/

section Algebra

theorem C17_vertex_merge_comm (a b : VertexAnchor) : a.merge b = b.merge a := by
  cases a <;> cases b <;> simp only [VertexAnchor.merge] <;>
    (rename_i x y; by_cases h : x = y <;> simp [h, eq_comm])

theorem C17_vertex_merge_idem (a : VertexAnchor) : a.merge a = some a := by
  cases a <;> simp [VertexAnchor.merge]

/-- the result is the lower-dimensional argument -/
theorem C17_vertex_merge_lower_dim (a b c : VertexAnchor) (h : a.merge b = some c) :
    c.dim = min a.dim b.dim ∧ (c = a ∨ c = b) := by
  cases a <;> cases b <;> simp only [VertexAnchor.merge] at h <;>
    first
      | (split at h <;> simp at h; subst h; rename_i e; subst e; simp [VertexAnchor.dim])
      | (simp at h; subst h; simp [VertexAnchor.dim])

/-- failure iff equal dimension and different identifiers -/
theorem C17_vertex_merge_fails_iff (a b : VertexAnchor) :
    a.merge b = none ↔ a.dim = b.dim ∧ a.id ≠ b.id := by
  cases a <;> cases b <;> simp [VertexAnchor.merge, VertexAnchor.dim, VertexAnchor.id]

/-- associative where defined -/
theorem C17_vertex_merge_assoc (a b c x y : VertexAnchor) (h1 : a.merge b = some x)
    (h2 : b.merge c = some y) : x.merge c = a.merge y := by
  cases a <;> cases b <;> cases c <;> simp only [VertexAnchor.merge] at h1 h2 <;>
    (try split at h1) <;> (try split at h2) <;> simp at h1 h2 <;>
    (try subst h1) <;> (try subst h2) <;> (try subst_vars) <;> simp [VertexAnchor.merge]

theorem C17_edge_merge_comm (a b : EdgeAnchor) : a.merge b = b.merge a := by
  cases a <;> cases b <;> simp only [EdgeAnchor.merge] <;>
    (rename_i x y; by_cases h : x = y <;> simp [h, eq_comm])

theorem C17_edge_merge_idem (a : EdgeAnchor) : a.merge a = some a := by
  cases a <;> simp [EdgeAnchor.merge]

theorem C17_edge_merge_lower_dim (a b c : EdgeAnchor) (h : a.merge b = some c) :
    c.dim = min a.dim b.dim ∧ (c = a ∨ c = b) := by
  cases a <;> cases b <;> simp only [EdgeAnchor.merge] at h <;>
    first
      | (split at h <;> simp at h; subst h; rename_i e; subst e; simp [EdgeAnchor.dim])
      | (simp at h; subst h; simp [EdgeAnchor.dim])

theorem C17_edge_merge_fails_iff (a b : EdgeAnchor) :
    a.merge b = none ↔ a.dim = b.dim ∧ a.id ≠ b.id := by
  cases a <;> cases b <;> simp [EdgeAnchor.merge, EdgeAnchor.dim, EdgeAnchor.id]

theorem C17_edge_merge_assoc (a b c x y : EdgeAnchor) (h1 : a.merge b = some x)
    (h2 : b.merge c = some y) : x.merge c = a.merge y := by
  cases a <;> cases b <;> cases c <;> simp only [EdgeAnchor.merge] at h1 h2 <;>
    (try split at h1) <;> (try split at h2) <;> simp at h1 h2 <;>
    (try subst h1) <;> (try subst h2) <;> (try subst_vars) <;> simp [EdgeAnchor.merge]

theorem C17_face_merge_comm (a b : FaceAnchor) : a.merge b = b.merge a := by
  cases a <;> cases b <;> simp only [FaceAnchor.merge] <;>
    (rename_i x y; by_cases h : x = y <;> simp [h, eq_comm])

theorem C17_face_merge_idem (a : FaceAnchor) : a.merge a = some a := by
  cases a <;> simp [FaceAnchor.merge]

theorem C17_face_merge_lower_dim (a b c : FaceAnchor) (h : a.merge b = some c) :
    c.dim = min a.dim b.dim ∧ (c = a ∨ c = b) := by
  cases a <;> cases b <;> simp only [FaceAnchor.merge] at h <;>
    first
      | (split at h <;> simp at h; subst h; rename_i e; subst e; simp [FaceAnchor.dim])
      | (simp at h; subst h; simp [FaceAnchor.dim])

theorem C17_face_merge_fails_iff (a b : FaceAnchor) :
    a.merge b = none ↔ a.dim = b.dim ∧ a.id ≠ b.id := by
  cases a <;> cases b <;> simp [FaceAnchor.merge, FaceAnchor.dim, FaceAnchor.id]

theorem C17_face_merge_assoc (a b c x y : FaceAnchor) (h1 : a.merge b = some x)
    (h2 : b.merge c = some y) : x.merge c = a.merge y := by
  cases a <;> cases b <;> cases c <;> simp only [FaceAnchor.merge] at h1 h2 <;>
    (try split at h1) <;> (try split at h2) <;> simp at h1 h2 <;>
    (try subst h1) <;> (try subst h2) <;> (try subst_vars) <;> simp [FaceAnchor.merge]

/-- the codes used by the drivers are injective and decode back -/
theorem C17_vertex_code_ofCode (a : VertexAnchor) : VertexAnchor.ofCode a.code = some a := by
  cases a <;> simp [VertexAnchor.ofCode, VertexAnchor.code, VertexAnchor.id, VertexAnchor.dim] <;> omega

end Algebra

/-! ## frame: only anchors are written, and only added -/

/-- same β, flags, sizes; every slot that held a value still holds one -/
structure Grow (m m' : Map Val) : Prop where
  topo : SameTopo m m'
  mono : ∀ s d, (m.att s d).isSome = true → (m'.att s d).isSome = true

theorem Grow.refl (m : Map Val) : Grow m m := ⟨SameTopo.refl m, fun _ _ h => h⟩

theorem Grow.trans {m m' m'' : Map Val} (h1 : Grow m m') (h2 : Grow m' m'') : Grow m m'' :=
  ⟨h1.topo.trans h2.topo, fun s d h => h2.mono s d (h1.mono s d h)⟩

theorem Grow.setA (m : Map Val) (s d : Nat) (v : Val) : Grow m (m.setA s d (some v)) := by
  refine ⟨SameTopo.setA m s d _, fun t e h => ?_⟩
  rw [Map.att_setA]
  split
  · rfl
  · exact h

/-- the program only adds anchors / attribute values (whatever its outcome) -/
def Anch {α : Type} (p : P Val α) : Prop := ∀ m : Map Val, Grow m (run p m).2

theorem Anch.of_readOnly {α : Type} {p : P Val α} (h : ReadOnly p) : Anch p := by
  intro m; rw [h m]; exact Grow.refl m

theorem Anch.pure {α : Type} (a : α) : Anch (pure a : P Val α) := fun m => Grow.refl m
theorem Anch.ret {α : Type} (a : α) : Anch (Prog.ret a : P Val α) := fun m => Grow.refl m
theorem Anch.abort {α : Type} (e : Err) : Anch (abort e : P Val α) := fun m => Grow.refl m
theorem Anch.panic {α : Type} : Anch (Prog.panic : P Val α) := fun m => Grow.refl m
theorem Anch.retry {α : Type} : Anch (Prog.retry : P Val α) := fun m => Grow.refl m

theorem Anch.bind {α β : Type} {p : P Val α} {f : α → P Val β} (hp : Anch p) (hf : ∀ a, Anch (f a)) :
    Anch (p.bind f) := by
  intro m
  rw [run_bind_snd]
  have := hp m
  match h : run p m with
  | (.ok a, m') => rw [h] at this; exact this.trans (hf a m')
  | (.err e, m') => rw [h] at this; exact this
  | (.retry, m') => rw [h] at this; exact this
  | (.panic, m') => rw [h] at this; exact this

theorem Anch.wA (s d : Nat) (v : Val) : Anch (wA s d (some v) : P Val Unit) := by
  intro m; simp only [run_wA']; split
  · exact Grow.setA m s d v
  · exact Grow.refl m

theorem Anch.ite {α : Type} {c : Prop} [Decidable c] {p q : P Val α} (hp : Anch p) (hq : Anch q) :
    Anch (if c then p else q) := by
  split <;> assumption

theorem Anch.rB (i d : Nat) : Anch (rB i d : P Val Nat) := Anch.of_readOnly (ReadOnly.rB i d)
theorem Anch.rU (d : Nat) : Anch (rU d : P Val Bool) := Anch.of_readOnly (ReadOnly.rU d)
theorem Anch.rA (s d : Nat) : Anch (rA s d : P Val (Option Val)) := Anch.of_readOnly (ReadOnly.rA s d)
theorem Anch.vid (n d : Nat) : Anch (vertexId2 (X := Val) n d) := Anch.of_readOnly (readOnly_vertexId2 n d)
theorem Anch.fid (n d : Nat) : Anch (faceId2 (X := Val) n d) := Anch.of_readOnly (readOnly_faceId2 n d)
theorem Anch.eid (d : Nat) : Anch (edgeId2 (X := Val) d) := Anch.of_readOnly (readOnly_edgeId2 d)
theorem Anch.orbit (n : Nat) (pol : Policy) (d : Nat) : Anch (orbit2 (X := Val) n pol d) :=
  Anch.of_readOnly (readOnly_orbit2 n pol d)

theorem readOnly_firstFree : ∀ l : List Nat, ReadOnly (firstFree l) := by
  intro l
  induction l with
  | nil => exact ReadOnly.pure _
  | cons d ds ih =>
      unfold firstFree
      exact ReadOnly.bind (ReadOnly.rB _ _) fun b => ReadOnly.ite (ReadOnly.pure _) ih

theorem readOnly_freeDartOfVertex (n d : Nat) : ReadOnly (freeDartOfVertex n d) :=
  ReadOnly.bind (readOnly_orbit2 n .vertex d) fun o => readOnly_firstFree o

theorem anch_markCurveLoop (n c : Nat) : ∀ f next, Anch (markCurveLoop n c f next) := by
  intro f
  induction f with
  | zero => intro next; exact Anch.retry
  | succ f ih =>
      intro next
      unfold markCurveLoop
      refine Anch.bind (Anch.vid _ _) fun v => Anch.bind (Anch.rA _ _) fun a => ?_
      refine Anch.ite (Anch.pure _) ?_
      refine Anch.bind (Anch.of_readOnly (readOnly_freeDartOfVertex _ _)) fun fd => ?_
      cases fd with
      | none => exact Anch.abort _
      | some crt =>
          refine Anch.bind (Anch.vid _ _) fun vc => Anch.bind (Anch.wA _ _ _) fun _ => ?_
          refine Anch.bind (Anch.eid _) fun ec => Anch.bind (Anch.wA _ _ _) fun _ => ?_
          exact Anch.bind (Anch.rB _ _) fun nx => ih nx

theorem anch_markCurve (n start c : Nat) : Anch (markCurve n start c) := by
  unfold markCurve
  refine Anch.bind (Anch.eid _) fun e => Anch.bind (Anch.wA _ _ _) fun _ => ?_
  exact Anch.bind (Anch.rB _ _) fun nx => anch_markCurveLoop _ _ _ _

theorem anch_classifyNodes (n : Nat) : ∀ ds i cid, Anch (classifyNodes n ds i cid) := by
  intro ds
  induction ds with
  | nil => intro i cid; exact Anch.pure _
  | cons d ds ih =>
      intro i cid
      unfold classifyNodes
      refine Anch.bind (Anch.rU _) fun un => Anch.ite (ih _ _) ?_
      refine Anch.bind (Anch.vid _ _) fun vid => Anch.ite (ih _ _) ?_
      refine Anch.bind (Anch.rA _ _) fun a => Anch.ite (ih _ _) ?_
      refine Anch.bind (Anch.of_readOnly (readOnly_freeDartOfVertex _ _)) fun fd => ?_
      cases fd with
      | none => exact ih _ _
      | some dart => exact Anch.bind (anch_markCurve _ _ _) fun _ => ih _ _

theorem readOnly_findUnmarkedBoundary (n : Nat) : ∀ ds, ReadOnly (findUnmarkedBoundary n ds) := by
  intro ds
  induction ds with
  | nil => exact ReadOnly.pure _
  | cons d ds ih =>
      unfold findUnmarkedBoundary
      refine ReadOnly.bind (ReadOnly.rU _) fun un => ReadOnly.ite ih ?_
      refine ReadOnly.bind (readOnly_freeDartOfVertex _ _) fun fd => ?_
      cases fd with
      | none => exact ih
      | some dd =>
          refine ReadOnly.bind (readOnly_edgeId2 _) fun e => ReadOnly.bind (ReadOnly.rA _ _) fun a => ?_
          exact ReadOnly.ite (ReadOnly.pure _) ih

theorem anch_classifyLoops (n : Nat) : ∀ f cid, Anch (classifyLoops n f cid) := by
  intro f
  induction f with
  | zero => intro cid; exact Anch.retry
  | succ f ih =>
      intro cid
      unfold classifyLoops
      refine Anch.bind (Anch.of_readOnly (readOnly_findUnmarkedBoundary _ _)) fun r => ?_
      cases r with
      | none => exact Anch.pure _
      | some dart =>
          refine Anch.bind (Anch.vid _ _) fun v => Anch.bind (Anch.wA _ _ _) fun _ => ?_
          exact Anch.bind (anch_markCurve _ _ _) fun _ => ih _

theorem anch_colourDarts (n sid : Nat) : ∀ ds q mk, Anch (colourDarts n sid ds q mk) := by
  intro ds
  induction ds with
  | nil => intro q mk; exact Anch.pure _
  | cons d ds ih =>
      intro q mk
      unfold colourDarts
      refine Anch.bind (Anch.eid _) fun e => Anch.bind (Anch.rA _ _) fun a => Anch.ite (ih _ _) ?_
      refine Anch.bind (Anch.eid _) fun e' => Anch.bind (Anch.wA _ _ _) fun _ => ?_
      refine Anch.bind (Anch.vid _ _) fun v => Anch.bind (Anch.rA _ _) fun av => ?_
      refine Anch.bind (Anch.ite (Anch.bind (Anch.vid _ _) fun v' => Anch.wA _ _ _) (Anch.pure _)) fun _ => ?_
      refine Anch.bind (Anch.rB _ _) fun b2 => Anch.bind (Anch.fid _ _) fun nf => ?_
      exact Anch.ite (ih _ _) (ih _ _)

theorem anch_colourSurface (n sid : Nat) : ∀ f q mk, Anch (colourSurface n sid f q mk) := by
  intro f
  induction f with
  | zero => intro q mk; exact Anch.retry
  | succ f ih =>
      intro q mk
      cases q with
      | nil => unfold colourSurface; exact Anch.pure _
      | cons crt q =>
          unfold colourSurface
          refine Anch.bind (Anch.wA _ _ _) fun _ => Anch.bind (Anch.orbit _ _ _) fun o => ?_
          exact Anch.bind (anch_colourDarts _ _ _ _ _) fun r => ih _ _

theorem anch_classifySurfaces (n : Nat) : ∀ ds sid mk, Anch (classifySurfaces n ds sid mk) := by
  intro ds
  induction ds with
  | nil => intro sid mk; exact Anch.pure _
  | cons d ds ih =>
      intro sid mk
      unfold classifySurfaces
      refine Anch.bind (Anch.rU _) fun un => Anch.ite (ih _ _) ?_
      refine Anch.bind (Anch.fid _ _) fun f => Anch.ite (ih _ _) ?_
      refine Anch.bind (Anch.rA _ _) fun a => Anch.ite (ih _ _) ?_
      exact Anch.bind (anch_colourSurface _ _ _ _ _) fun mk' => ih _ _

theorem readOnly_allAnchored (s : Nat) (idf : Nat → P Val Nat) (hid : ∀ d, ReadOnly (idf d)) :
    ∀ ds, ReadOnly (allAnchored s idf ds) := by
  intro ds
  induction ds with
  | nil => exact ReadOnly.pure _
  | cons d ds ih =>
      unfold allAnchored
      refine ReadOnly.bind (ReadOnly.rU _) fun un => ReadOnly.ite ih ?_
      refine ReadOnly.bind (hid d) fun c => ReadOnly.ite ih ?_
      exact ReadOnly.bind (ReadOnly.rA _ _) fun a => ReadOnly.ite (ReadOnly.pure _) ih

theorem anch_classifyCore (n : Nat) : Anch (classifyCore n) := by
  unfold classifyCore
  refine Anch.bind (anch_classifyNodes _ _ _ _) fun cid => ?_
  refine Anch.bind (anch_classifyLoops _ _ _) fun _ => ?_
  exact anch_classifySurfaces _ _ _ _

theorem anch_classifyCapture (n : Nat) : Anch (classifyCapture n) := by
  unfold classifyCapture
  refine Anch.bind (anch_classifyCore n) fun _ => ?_
  refine Anch.bind (Anch.of_readOnly (readOnly_allAnchored _ _ (readOnly_vertexId2 n) _)) fun av => ?_
  refine Anch.ite Anch.panic ?_
  refine Anch.bind (Anch.of_readOnly (readOnly_allAnchored _ _ readOnly_edgeId2 _)) fun ae => ?_
  refine Anch.ite Anch.panic ?_
  refine Anch.bind (Anch.of_readOnly (readOnly_allAnchored _ _ (readOnly_faceId2 n) _)) fun af => ?_
  exact Anch.ite Anch.panic (Anch.pure _)

/-- **C17, frame**: whatever its outcome (`Ok`, `UnsupportedGeometry`, a failed assertion), and on every
    map, `classify_capture` leaves the β functions, the removal flags, the dart count and the storage
    sizes untouched and never removes a value: every vertex / edge / face that had an anchor still has
    one -/
theorem C17_classify_frame (m : Map Val) :
    let m' := (run (classifyCapture m.n) m).2
    m'.n = m.n ∧ (∀ i d, m'.β i d = m.β i d) ∧ (∀ d, m'.unused d = m.unused d) ∧
    (∀ s d, m'.okA s d = m.okA s d) ∧ ∀ s d, (m.att s d).isSome = true → (m'.att s d).isSome = true := by
  intro m'
  have g := anch_classifyCapture m.n m
  exact ⟨g.topo.n, g.topo.β, g.topo.unused, g.topo.okA, g.mono⟩

/-- **C17**: the classified map is still a well-formed 2-map -/
theorem C17_classify_WF {m : Map Val} (h : WF 3 m) : WF 3 (run (classifyCapture m.n) m).2 :=
  h.sameTopo (anch_classifyCapture m.n m).topo

/-! ## (a) after `Ok`, every cell of an in-use dart is anchored -/

/-- the `.all(..)` of a final assertion, when it answers `true` -/
theorem allAnchored_spec {m : Map Val} (h : WF 3 m) {pol : Policy} (s : Nat) {idf : Nat → P Val Nat}
    (hid : ∀ d, d ≠ 0 → d < m.n → run (idf d) m = (.ok (cellId m pol d), m)) :
    ∀ ds, (∀ d, d ∈ ds → d ≠ 0 ∧ d < m.n) → ∀ m', run (allAnchored s idf ds) m = (.ok true, m') →
      ∀ d, d ∈ ds → m.unused d = false → cellId m pol d = d → (m.att s d).isSome = true := by
  intro ds
  induction ds with
  | nil => intro _ _ _ d hd; cases hd
  | cons x xs ih =>
      intro hds m' hr d hd hu hc
      have hx := hds x List.mem_cons_self
      have ih' := ih (fun d hd => hds d (List.mem_cons_of_mem _ hd)) m'
      unfold allAnchored at hr
      simp only [Prog.bind_eq, run_rU, (h.toSized.okU x).2 hx.2, if_true] at hr
      by_cases hux : m.unused x = true
      · simp only [hux, if_true] at hr
        rcases List.mem_cons.1 hd with e | e
        · subst e; rw [hux] at hu; cases hu
        · exact ih' hr d e hu hc
      · simp only [hux, if_false, Bool.false_eq_true] at hr
        rw [run_bind, hid x hx.1 hx.2] at hr
        simp only at hr
        by_cases hcx : cellId m pol x ≠ x
        · simp only [hcx, if_true, ne_eq, not_false_eq_true] at hr
          rcases List.mem_cons.1 hd with e | e
          · subst e; exact absurd hc hcx
          · exact ih' hr d e hu hc
        · simp only [hcx, if_false] at hr
          simp only [run_rA] at hr
          by_cases hok : m.okA s x = true
          · simp only [hok, if_true] at hr
            cases hax : m.att s x with
            | none => simp [hax] at hr
            | some v =>
                simp only [hax, Option.isNone_some, Bool.false_eq_true, if_false] at hr
                rcases List.mem_cons.1 hd with e | e
                · subst e; rw [hax]; rfl
                · exact ih' hr d e hu hc
          · simp [hok] at hr

theorem mem_darts {n d : Nat} : d ∈ List.range' 1 (n - 1) ↔ d ≠ 0 ∧ d < n := by
  rw [List.mem_range'_1]; omega

/-- in-use cell: the identifier of the cell of an in-use dart is an in-use dart, its own identifier -/
theorem cell_rep {m : Map Val} (h : WF 3 m) {pol : Policy} (hs : Sym pol) {d : Nat}
    (hd0 : d ≠ 0) (hd : d < m.n) (hu : m.unused d = false) :
    cellId m pol d ≠ 0 ∧ cellId m pol d < m.n ∧ m.unused (cellId m pol d) = false ∧
      cellId m pol (cellId m pol d) = cellId m pol d := by
  obtain ⟨k0, klt, kid⟩ := cellId_idem h hs hd0 hd
  exact ⟨k0, klt, C03_orbit_of_in_use_is_in_use h hs.ok hd0 hd hu _ (cellId_spec h hs.ok hd0 hd).1, kid⟩

theorem allAnchored_readOnly_run {m m' : Map Val} {s : Nat} {idf : Nat → P Val Nat}
    (hid : ∀ d, ReadOnly (idf d)) {ds : List Nat} {r : Bool}
    (hr : run (allAnchored s idf ds) m = (.ok r, m')) : m' = m :=
  (readOnly_allAnchored s idf hid ds).run_ok hr

/-- **C17 (a)**: when `classify_capture` returns `Ok(())` (debug build, i.e. with its three
    `debug_assert!`s) on a well-formed 2-map, the map is still well-formed and every vertex, edge and
    face identifier of an in-use dart has an anchor -/
theorem C17_classify_ok_all_anchored {m m' : Map Val} (h : WF 3 m)
    (hr : run (classifyCapture m.n) m = (.ok (), m')) :
    WF 3 m' ∧ ∀ d, d ≠ 0 → d < m'.n → m'.unused d = false →
      (m'.att sVA (cellId m' .vertex d)).isSome = true ∧
      (m'.att sEA (cellId m' .edge d)).isSome = true ∧
      (m'.att sFA (cellId m' .face d)).isSome = true := by
  unfold classifyCapture at hr
  simp only [Prog.bind_eq] at hr
  obtain ⟨_, m1, h1, hr⟩ := run_bind_ok hr
  have g1 := anch_classifyCore m.n m
  rw [h1] at g1
  have hw1 : WF 3 m1 := h.sameTopo g1.topo
  have hn1 : m1.n = m.n := g1.topo.n
  rw [← hn1] at hr
  obtain ⟨av, m2, h2, hr⟩ := run_bind_ok hr
  have e2 : m2 = m1 := allAnchored_readOnly_run (readOnly_vertexId2 _) h2
  subst e2
  cases av with
  | false => simp at hr
  | true =>
  simp only [Bool.not_true, Bool.false_eq_true, if_false] at hr
  obtain ⟨ae, m3, h3, hr⟩ := run_bind_ok hr
  have e3 : m3 = m2 := allAnchored_readOnly_run readOnly_edgeId2 h3
  subst e3
  cases ae with
  | false => simp at hr
  | true =>
  simp only [Bool.not_true, Bool.false_eq_true, if_false] at hr
  obtain ⟨af, m4, h4, hr⟩ := run_bind_ok hr
  have e4 : m4 = m3 := allAnchored_readOnly_run (readOnly_faceId2 _) h4
  subst e4
  cases af with
  | false => simp at hr
  | true =>
  simp only [Bool.not_true, Bool.false_eq_true, if_false, Prog.pure_eq, run_ret, Prod.mk.injEq,
    true_and] at hr
  subst hr
  refine ⟨hw1, fun d hd0 hd hu => ?_⟩
  have hds : ∀ d, d ∈ List.range' 1 (m4.n - 1) → d ≠ 0 ∧ d < m4.n := fun d hd => mem_darts.1 hd
  have hv := allAnchored_spec hw1 (pol := .vertex) sVA
    (fun d hd0 hd => (C03_vertexId2_min hw1 hd0 hd).1) _ hds _ h2
  have he := allAnchored_spec hw1 (pol := .edge) sEA
    (fun d hd0 hd => (C03_edgeId2_min hw1 hd0 hd).1) _ hds _ h3
  have hf := allAnchored_spec hw1 (pol := .face) sFA
    (fun d hd0 hd => (C03_faceId2_min hw1 hd0 hd).1) _ hds _ h4
  obtain ⟨v0, vlt, vu, vid⟩ := cell_rep hw1 (pol := .vertex) trivial hd0 hd hu
  obtain ⟨e0, elt, eu, eid⟩ := cell_rep hw1 (pol := .edge) trivial hd0 hd hu
  obtain ⟨f0, flt, fu, fid⟩ := cell_rep hw1 (pol := .face) trivial hd0 hd hu
  exact ⟨hv _ (mem_darts.2 ⟨v0, vlt⟩) vu vid, he _ (mem_darts.2 ⟨e0, elt⟩) eu eid,
    hf _ (mem_darts.2 ⟨f0, flt⟩) fu fid⟩

/-! ## (b) `mark_curve` -/

/-- well-formed 2-map carrying the storages 0 … 8 -/
structure Ok9 (m : Map Val) : Prop where
  wf : WF 3 m
  st : 8 < m.a.size

theorem Ok9.sameTopo {m m' : Map Val} (h : Ok9 m) (t : SameTopo m m') : Ok9 m' :=
  ⟨h.wf.sameTopo t, by rw [t.asz]; exact h.st⟩

theorem Ok9.okA {m : Map Val} (h : Ok9 m) {s d : Nat} (hs : s ≤ 8) (hd : d < m.n) : m.okA s d = true := by
  unfold Map.okA
  have h1 : s < m.a.size := by have := h.st; omega
  have h2 := h.wf.toSized.asz s h1
  simp only [Bool.and_eq_true, decide_eq_true_eq]
  exact ⟨h1, by omega⟩

/-! ### the null dart -/

theorem foldl_bfsCheck_null (l : List Nat) (hl : ∀ y, y ∈ l → y = 0) (st : List Nat × List Nat)
    (h0 : st.2.contains 0 = true) : l.foldl bfsCheck st = st := by
  induction l generalizing st with
  | nil => rfl
  | cons y ys ih =>
      have hy : y = 0 := hl y List.mem_cons_self
      subst hy
      simp only [List.foldl_cons]
      have : bfsCheck st 0 = st := by
        unfold bfsCheck; rw [if_pos h0]
      rw [this]
      exact ih (fun y hy => hl y (List.mem_cons_of_mem _ hy)) st h0

theorem orb_zero {m : Map Val} (h : WF 3 m) {pol : Policy} (hp : PolOK pol) : orb m pol 0 = [0] := by
  unfold orb
  show bfsPure (g2 m pol) (m.n + 1) [0] [0, 0] [] = [0]
  unfold bfsPure
  rw [foldl_bfsCheck_null _ (g2_null h pol hp) _ (by simp)]
  simp only [List.nil_append]
  cases m.n <;> rfl

theorem cellId_zero {m : Map Val} (h : WF 3 m) {pol : Policy} (hp : PolOK pol) : cellId m pol 0 = 0 := by
  unfold cellId; rw [orb_zero h hp]; simp [listMin]

theorem run_orbit2_zero {m : Map Val} (h : WF 3 m) {pol : Policy} (hp : PolOK pol) :
    run (orbit2 (X := Val) m.n pol 0) m = (.ok [0], m) := by
  unfold orbit2 orbitWith
  unfold bfs
  show run ((gen2 pol 0).bind _) m = _
  rw [run_bind, run_gen2 h hp h.toSized.npos]
  simp only
  rw [foldl_bfsCheck_null _ (g2_null h pol hp) _ (by simp)]
  simp only [List.nil_append]
  cases m.n <;> rfl

/-! ### identifiers and orbits of every dart below `n_darts` (null dart included) -/

theorem run_orbit2' {m : Map Val} (h : WF 3 m) {pol : Policy} (hp : PolOK pol) {x : Nat} (hx : x < m.n) :
    run (orbit2 (X := Val) m.n pol x) m = (.ok (orb m pol x), m) := by
  by_cases h0 : x = 0
  · subst h0; rw [run_orbit2_zero h hp, orb_zero h hp]
  · exact (C03_orbit2_spec h hp h0 hx).1

theorem run_vid' {m : Map Val} (h : WF 3 m) {x : Nat} (hx : x < m.n) :
    run (vertexId2 (X := Val) m.n x) m = (.ok (cellId m .vertex x), m) := by
  by_cases h0 : x = 0
  · subst h0
    unfold vertexId2
    have := run_orbit2_zero h (pol := .vertex) trivial
    unfold orbit2 at this
    simp only [Prog.bind_eq]
    rw [run_bind, this, cellId_zero h (pol := .vertex) trivial]
    simp [listMin]
  · exact (C03_vertexId2_min h h0 hx).1

theorem vid_lt {m : Map Val} (h : WF 3 m) {x : Nat} (hx : x < m.n) : cellId m .vertex x < m.n := by
  by_cases h0 : x = 0
  · subst h0; rw [cellId_zero h (pol := .vertex) trivial]; exact hx
  · exact (cellId_idem h (pol := .vertex) trivial h0 hx).2.1

theorem mem_vorb {m : Map Val} (h : WF 3 m) {x y : Nat} (hx : x < m.n) (hy : y ∈ orb m .vertex x) :
    y < m.n ∧ cellId m .vertex y = cellId m .vertex x := by
  by_cases h0 : x = 0
  · subst h0
    rw [orb_zero h (pol := .vertex) trivial, List.mem_singleton] at hy
    subst hy; exact ⟨hx, rfl⟩
  · have sp := C03_orbit2_spec h (pol := .vertex) trivial h0 hx
    have hylt := sp.2.2.2.2.2 y hy
    obtain ⟨hy0, hr⟩ := (mem_orb h (pol := .vertex) trivial h0 hx y).1 hy
    exact ⟨hylt, ((C03_same_id_iff_same_cell h (pol := .vertex) trivial h0 hx hy0 hylt).1.2 hr).symm⟩

/-- the first 2-free dart of the vertex orbit, as a pure function of the map -/
def freeOf (m : Map Val) (x : Nat) : Option Nat :=
  (orb m .vertex x).find? (fun d => decide (m.β 2 d = 0))

theorem run_firstFree {m : Map Val} (h : WF 3 m) : ∀ l : List Nat, (∀ y, y ∈ l → y < m.n) →
    run (firstFree l) m = (.ok (l.find? (fun d => decide (m.β 2 d = 0))), m) := by
  intro l
  induction l with
  | nil => intro _; rfl
  | cons d ds ih =>
      intro hl
      unfold firstFree
      simp only [Prog.bind_eq, run_rB, okb h (by omega : 2 < 3) (hl d List.mem_cons_self), if_true]
      by_cases hb : m.β 2 d = 0
      · simp [hb, List.find?_cons]
      · simp only [hb, if_false, List.find?_cons, decide_false]
        exact ih fun y hy => hl y (List.mem_cons_of_mem _ hy)

theorem run_freeDart {m : Map Val} (h : WF 3 m) {x : Nat} (hx : x < m.n) :
    run (freeDartOfVertex m.n x) m = (.ok (freeOf m x), m) := by
  unfold freeDartOfVertex
  simp only [Prog.bind_eq]
  rw [run_bind, run_orbit2' h (pol := .vertex) trivial hx]
  exact run_firstFree h _ fun y hy => (mem_vorb h hx hy).1

theorem freeOf_some {m : Map Val} {x crt : Nat} (hf : freeOf m x = some crt) :
    crt ∈ orb m .vertex x ∧ m.β 2 crt = 0 := by
  unfold freeOf at hf
  exact ⟨List.mem_of_find?_eq_some hf, by simpa using List.find?_some hf⟩

theorem freeOf_none {m : Map Val} {x : Nat} (hf : freeOf m x = none) :
    ∀ z, z ∈ orb m .vertex x → m.β 2 z ≠ 0 := by
  unfold freeOf at hf
  intro z hz
  simpa using List.find?_eq_none.1 hf z hz

/-! ### transport along `SameTopo` -/

theorem g2_sameTopo {m m' : Map Val} (t : SameTopo m m') (pol : Policy) : g2 m' pol = g2 m pol := by
  funext x
  cases pol <;> simp [g2, t.β]

theorem orb_sameTopo {m m' : Map Val} (t : SameTopo m m') (pol : Policy) (x : Nat) :
    orb m' pol x = orb m pol x := by
  unfold orb; rw [g2_sameTopo t, t.n]

theorem cellId_sameTopo {m m' : Map Val} (t : SameTopo m m') (pol : Policy) (x : Nat) :
    cellId m' pol x = cellId m pol x := by
  unfold cellId; rw [orb_sameTopo t]

theorem freeOf_sameTopo {m m' : Map Val} (t : SameTopo m m') (x : Nat) : freeOf m' x = freeOf m x := by
  unfold freeOf; rw [orb_sameTopo t]; simp [t.β]

/-! ### the measure: unanchored vertex slots -/

def cnt (m : Map Val) : Nat := ((List.range m.n).filter (fun x => (m.att sVA x).isNone)).length

theorem filter_len_le (l : List Nat) {p q : Nat → Bool} (hpq : ∀ x, q x = true → p x = true) :
    (l.filter q).length ≤ (l.filter p).length := by
  induction l with
  | nil => simp
  | cons a t ih =>
      simp only [List.filter_cons]
      cases hqa : q a with
      | true => rw [hpq a hqa]; simp only [if_true, List.length_cons]; omega
      | false =>
          cases hpa : p a with
          | true => simp only [if_true, List.length_cons, Bool.false_eq_true, if_false]; omega
          | false => simpa using ih

theorem filter_len_lt (l : List Nat) {p q : Nat → Bool} (hpq : ∀ x, q x = true → p x = true)
    {v : Nat} (hv : v ∈ l) (hp : p v = true) (hq : q v = false) :
    (l.filter q).length < (l.filter p).length := by
  induction l with
  | nil => cases hv
  | cons a t ih =>
      simp only [List.filter_cons]
      rcases List.mem_cons.1 hv with e | e
      · subst e
        simp only [hp, hq, if_true, List.length_cons, Bool.false_eq_true, if_false]
        have := filter_len_le t hpq
        omega
      · have := ih e
        cases hqa : q a with
        | true => rw [hpq a hqa]; simp only [if_true, List.length_cons]; omega
        | false =>
            cases hpa : p a with
            | true => simp only [if_true, List.length_cons, Bool.false_eq_true, if_false]; omega
            | false => simpa using this

theorem cnt_le (m : Map Val) : cnt m ≤ m.n := by
  unfold cnt
  have := List.length_filter_le (fun x => (m.att sVA x).isNone) (List.range m.n)
  simpa using this

theorem cnt_setV {m : Map Val} {v : Nat} (a : Val) (hv : v < m.n) (hok : m.okA sVA v = true)
    (hnone : m.att sVA v = none) : cnt (m.setA sVA v (some a)) < cnt m := by
  unfold cnt
  rw [Map.n_setA]
  apply filter_len_lt (v := v)
  · intro x hx
    rw [Map.att_setA] at hx
    by_cases hc : sVA = sVA ∧ v = x ∧ m.okA sVA v = true
    · rw [if_pos hc] at hx; cases hx
    · rw [if_neg hc] at hx; exact hx
  · exact List.mem_range.2 hv
  · rw [hnone]; rfl
  · rw [Map.att_setA, if_pos ⟨rfl, rfl, hok⟩]; rfl

theorem cnt_setE (m : Map Val) (e : Nat) (a : Option Val) : cnt (m.setA sEA e a) = cnt m := by
  unfold cnt
  rw [Map.n_setA]
  congr 1
  apply List.filter_congr
  intro x _
  rw [Map.att_setA]
  have : ¬ (sEA = sVA ∧ e = x ∧ m.okA sEA e = true) := by
    intro hh; exact absurd hh.1 (by decide)
  rw [if_neg this]

/-! ### one iteration of the `while` loop -/

theorem run_edgeId_free {m : Map Val} (h : WF 3 m) {d : Nat} (hd : d < m.n) (hb : m.β 2 d = 0) :
    run (edgeId2 (X := Val) d) m = (.ok d, m) := by
  unfold edgeId2
  simp only [Prog.bind_eq, Prog.pure_eq, run_rB, okb h (by omega : 2 < 3) hd, if_true, hb, run_ret]

theorem run_markCurveLoop_succ {m : Map Val} (h : Ok9 m) {next : Nat} (hn : next < m.n) (c f : Nat) :
    run (markCurveLoop m.n c (f + 1) next) m =
      if (m.att sVA (cellId m .vertex next)).isSome = true then (.ok (), m) else
      match freeOf m next with
      | some crt => run (markCurveLoop m.n c f (m.β 1 crt))
            ((m.setA sVA (cellId m .vertex next) (some (vCurve c))).setA sEA crt (some (vCurve c)))
      | none => (.err errUnsupportedGeometry, m) := by
  have hv := vid_lt h.wf hn
  conv => lhs; unfold markCurveLoop
  simp only [Prog.bind_eq]
  rw [run_bind, run_vid' h.wf hn]
  simp only [run_rA, h.okA (by decide : sVA ≤ 8) hv, if_true]
  by_cases ha : (m.att sVA (cellId m .vertex next)).isSome = true
  · simp only [ha, if_true, Prog.pure_eq, run_ret]
  · simp only [ha, if_false, Bool.false_eq_true]
    rw [run_bind, run_freeDart h.wf hn]
    cases hfo : freeOf m next with
    | none => simp only [run_abort]
    | some crt =>
        obtain ⟨hmem, hb2⟩ := freeOf_some hfo
        obtain ⟨hclt, hcid⟩ := mem_vorb h.wf hn hmem
        simp only
        rw [run_bind, run_vid' h.wf hclt, hcid]
        simp only [run_wA, h.okA (by decide : sVA ≤ 8) hv, if_true]
        have t1 : SameTopo m (m.setA sVA (cellId m .vertex next) (some (vCurve c))) := SameTopo.setA _ _ _ _
        have h1 := h.sameTopo t1
        have hclt1 : crt < (m.setA sVA (cellId m .vertex next) (some (vCurve c))).n := hclt
        rw [run_bind, run_edgeId_free h1.wf hclt1 (by rw [t1.β]; exact hb2)]
        simp only [run_wA, h1.okA (by decide : sEA ≤ 8) hclt1, if_true]
        have t2 : SameTopo (m.setA sVA (cellId m .vertex next) (some (vCurve c)))
            ((m.setA sVA (cellId m .vertex next) (some (vCurve c))).setA sEA crt (some (vCurve c))) :=
          SameTopo.setA _ _ _ _
        have h2 := h1.sameTopo t2
        have hclt2 : crt < ((m.setA sVA (cellId m .vertex next) (some (vCurve c))).setA sEA crt
            (some (vCurve c))).n := hclt
        simp only [run_rB, okb h2.wf (by omega : 1 < 3) hclt2, if_true]
        rfl

/-! ### what `mark_curve` does to the map -/

/-- every slot that changed holds `Curve(c)` afterwards, in the vertex or the edge anchor storage -/
def OnlyCurve (c : Nat) (m m' : Map Val) : Prop :=
  ∀ s d, m'.att s d ≠ m.att s d → (s = sVA ∨ s = sEA) ∧ m'.att s d = some (vCurve c)

/-- vertices that had an anchor keep it -/
def KeepV (m m' : Map Val) : Prop :=
  ∀ d, (m.att sVA d).isSome = true → m'.att sVA d = m.att sVA d

structure Post (c : Nat) (m m' : Map Val) : Prop where
  grow : Grow m m'
  only : OnlyCurve c m m'
  keep : KeepV m m'

theorem Post.refl (c : Nat) (m : Map Val) : Post c m m :=
  ⟨Grow.refl m, fun _ _ h => absurd rfl h, fun _ _ => rfl⟩

theorem Post.trans {c : Nat} {m m' m'' : Map Val} (h1 : Post c m m') (h2 : Post c m' m'') : Post c m m'' := by
  refine ⟨h1.grow.trans h2.grow, ?_, ?_⟩
  · intro s d hne
    by_cases e : m''.att s d = m'.att s d
    · rw [e] at hne ⊢; exact h1.only s d hne
    · exact h2.only s d e
  · intro d hd
    rw [h2.keep d (by rw [h1.keep d hd]; exact hd), h1.keep d hd]

/-- one write of `Curve(c)` on an edge -/
theorem Post.setE (c : Nat) (m : Map Val) (e : Nat) : Post c m (m.setA sEA e (some (vCurve c))) := by
  refine ⟨Grow.setA _ _ _ _, ?_, ?_⟩
  · intro s d hne
    rw [Map.att_setA] at hne ⊢
    by_cases hc : sEA = s ∧ e = d ∧ m.okA sEA e = true
    · rw [if_pos hc]; exact ⟨Or.inr hc.1.symm, rfl⟩
    · rw [if_neg hc] at hne; exact absurd rfl hne
  · intro d _
    rw [Map.att_setA, if_neg]
    intro hh; exact absurd hh.1 (by decide)

/-- one write of `Curve(c)` on an unanchored vertex -/
theorem Post.setV (c : Nat) (m : Map Val) (v : Nat) (hnone : ¬ (m.att sVA v).isSome = true) :
    Post c m (m.setA sVA v (some (vCurve c))) := by
  refine ⟨Grow.setA _ _ _ _, ?_, ?_⟩
  · intro s d hne
    rw [Map.att_setA] at hne ⊢
    by_cases hc : sVA = s ∧ v = d ∧ m.okA sVA v = true
    · rw [if_pos hc]; exact ⟨Or.inl hc.1.symm, rfl⟩
    · rw [if_neg hc] at hne; exact absurd rfl hne
  · intro d hd
    rw [Map.att_setA, if_neg]
    intro hh; rw [hh.2.1] at hnone; exact hnone hd

/-- the walk left the boundary: `x` is the successor of the start or of a 2-free dart and its vertex
    has no 2-free dart -/
def LeftAt (m : Map Val) (next : Nat) : Prop :=
  ∃ x, x < m.n ∧ (x = next ∨ ∃ y, y < m.n ∧ m.β 2 y = 0 ∧ x = m.β 1 y) ∧ freeOf m x = none

theorem LeftAt.sameTopo {m m' : Map Val} (t : SameTopo m m') {x : Nat} (h : LeftAt m' x) : LeftAt m x := by
  obtain ⟨z, hz, hor, hf⟩ := h
  refine ⟨z, by rw [← t.n]; exact hz, ?_, by rw [← freeOf_sameTopo t]; exact hf⟩
  rcases hor with e | ⟨y, hy, hb, e⟩
  · exact Or.inl e
  · exact Or.inr ⟨y, by rw [← t.n]; exact hy, by rw [← t.β]; exact hb, by rw [← t.β]; exact e⟩

/-- the `while` loop of `mark_curve`, by induction on the fuel: with more fuel than unanchored vertex
    slots it ends with `Ok` or `UnsupportedGeometry` -/
theorem markCurveLoop_spec (c : Nat) : ∀ (f : Nat) (m : Map Val) (next : Nat), Ok9 m → next < m.n →
    cnt m < f →
    ∃ m', Post c m m' ∧ (run (markCurveLoop m.n c f next) m = (.ok (), m') ∨
      (run (markCurveLoop m.n c f next) m = (.err errUnsupportedGeometry, m') ∧ LeftAt m next)) := by
  intro f
  induction f with
  | zero => intro m next _ _ hc; omega
  | succ f ih =>
      intro m next h hn hc
      rw [run_markCurveLoop_succ h hn]
      by_cases ha : (m.att sVA (cellId m .vertex next)).isSome = true
      · rw [if_pos ha]; exact ⟨m, Post.refl c m, Or.inl rfl⟩
      · rw [if_neg ha]
        cases hfo : freeOf m next with
        | none => exact ⟨m, Post.refl c m, Or.inr ⟨rfl, next, hn, Or.inl rfl, hfo⟩⟩
        | some crt =>
            simp only
            obtain ⟨hmem, hb2⟩ := freeOf_some hfo
            obtain ⟨hclt, hcid⟩ := mem_vorb h.wf hn hmem
            have hv := vid_lt h.wf hn
            have hnone : m.att sVA (cellId m .vertex next) = none := by
              cases hx : m.att sVA (cellId m .vertex next) with
              | none => rfl
              | some v => rw [hx] at ha; exact absurd rfl ha
            have p1 := Post.setV c m _ ha
            have p2 := Post.setE c (m.setA sVA (cellId m .vertex next) (some (vCurve c))) crt
            have p12 := p1.trans p2
            have t12 := p12.grow.topo
            have h2 := h.sameTopo t12
            have hn2 : m.β 1 crt < ((m.setA sVA (cellId m .vertex next) (some (vCurve c))).setA sEA crt
                (some (vCurve c))).n := h.wf.range 1 (by omega) crt hclt
            have hc2 : cnt ((m.setA sVA (cellId m .vertex next) (some (vCurve c))).setA sEA crt
                (some (vCurve c))) < f := by
              rw [cnt_setE]
              have := cnt_setV (vCurve c) hv (h.okA (by decide : sVA ≤ 8) hv) hnone
              omega
            obtain ⟨m', pm, hres⟩ := ih _ _ h2 hn2 hc2
            have hnn : ((m.setA sVA (cellId m .vertex next) (some (vCurve c))).setA sEA crt
                (some (vCurve c))).n = m.n := rfl
            rw [hnn] at hres
            refine ⟨m', p12.trans pm, ?_⟩
            rcases hres with hr | ⟨hr, hl⟩
            · exact Or.inl hr
            · refine Or.inr ⟨hr, ?_⟩
              obtain ⟨z, hz, hor, hf⟩ := LeftAt.sameTopo t12 hl
              refine ⟨z, hz, Or.inr ?_, hf⟩
              rcases hor with e | hy
              · exact ⟨crt, hclt, hb2, e⟩
              · exact hy

/-- **C17 (b), `mark_curve` terminates with one curve id**: on a well-formed 2-map with the anchor
    storages, from every dart `start`, `mark_curve(cmap, start, c)` never exhausts its fuel (the Rust
    loop terminates) and never panics: it returns `Ok` or `UnsupportedGeometry`.  In both cases the
    map keeps its β functions, flags and anchors (`Grow`); every slot it changed holds `Curve(c)`
    (one curve id for all the vertices and edges of the walk); vertices that were anchored keep
    their anchor (the walk stops at the next anchored vertex); the edge of `start` is anchored to
    the curve. -/
theorem C17_markCurve_terminates {m : Map Val} (h : WF 3 m) (hst : 8 < m.a.size) {start : Nat}
    (hs0 : start ≠ 0) (hs : start < m.n) (c : Nat) :
    ∃ m', (run (markCurve m.n start c) m = (.ok (), m') ∨
        (run (markCurve m.n start c) m = (.err errUnsupportedGeometry, m') ∧
          LeftAt m (m.β 1 start))) ∧
      Grow m m' ∧ OnlyCurve c m m' ∧ KeepV m m' ∧
      m'.att sEA (cellId m .edge start) = some (vCurve c) := by
  have h9 : Ok9 m := ⟨h, hst⟩
  have he := C03_edgeId2_min h hs0 hs
  have helt : cellId m .edge start < m.n := (cellId_idem h (pol := .edge) trivial hs0 hs).2.1
  unfold markCurve
  simp only [Prog.bind_eq]
  rw [run_bind, he.1]
  simp only [run_wA, h9.okA (by decide : sEA ≤ 8) helt, if_true]
  have p1 := Post.setE c m (cellId m .edge start)
  have t1 := p1.grow.topo
  have h1 := h9.sameTopo t1
  have hs1 : start < (m.setA sEA (cellId m .edge start) (some (vCurve c))).n := hs
  simp only [run_rB, okb h1.wf (by omega : 1 < 3) hs1, if_true]
  have hn1 : (m.setA sEA (cellId m .edge start) (some (vCurve c))).β 1 start
      < (m.setA sEA (cellId m .edge start) (some (vCurve c))).n := h1.wf.range 1 (by omega) start hs1
  have hc1 : cnt (m.setA sEA (cellId m .edge start) (some (vCurve c)))
      < (m.setA sEA (cellId m .edge start) (some (vCurve c))).n + 1 := by
    have := cnt_le (m.setA sEA (cellId m .edge start) (some (vCurve c))); omega
  obtain ⟨m', pm, hres⟩ := markCurveLoop_spec c _ _ _ h1 hn1 hc1
  have pp := p1.trans pm
  have hatt : m'.att sEA (cellId m .edge start) = some (vCurve c) := by
    have hset : (m.setA sEA (cellId m .edge start) (some (vCurve c))).att sEA (cellId m .edge start)
        = some (vCurve c) := by
      rw [Map.att_setA, if_pos ⟨rfl, rfl, h9.okA (by decide : sEA ≤ 8) helt⟩]
    by_cases e : m'.att sEA (cellId m .edge start)
        = (m.setA sEA (cellId m .edge start) (some (vCurve c))).att sEA (cellId m .edge start)
    · rw [e, hset]
    · exact (pm.only _ _ e).2
  refine ⟨m', ?_, pp.grow, pp.only, pp.keep, hatt⟩
  rcases hres with hr | ⟨hr, hl⟩
  · exact Or.inl hr
  · exact Or.inr ⟨hr, LeftAt.sameTopo t1 hl⟩

/-- the boundary is closed: the end vertex of every 2-free dart has a 2-free dart -/
def ClosedBoundary (m : Map Val) : Prop :=
  ∀ y, y < m.n → m.β 2 y = 0 → freeOf m (m.β 1 y) ≠ none

/-- **C17 (b), closed boundaries**: from a 2-free dart of a closed boundary the walk never leaves
    the boundary and `mark_curve` returns `Ok` -/
theorem C17_markCurve_ok_of_closed {m : Map Val} (h : WF 3 m) (hst : 8 < m.a.size) {start : Nat}
    (hs0 : start ≠ 0) (hs : start < m.n) (hfree : m.β 2 start = 0) (hcl : ClosedBoundary m) (c : Nat) :
    ∃ m', run (markCurve m.n start c) m = (.ok (), m') := by
  obtain ⟨m', hres, _⟩ := C17_markCurve_terminates h hst hs0 hs c
  rcases hres with hr | ⟨_, z, hz, hor, hf⟩
  · exact ⟨m', hr⟩
  · exfalso
    rcases hor with e | ⟨y, hy, hb, e⟩
    · exact hcl start hs hfree (e ▸ hf)
    · exact hcl y hy hb (e ▸ hf)

/-- **C17 (b), the error**: `mark_curve` returns `UnsupportedGeometry` only when the walk reached a
    vertex that has no 2-free dart (the successor of the start dart or of a 2-free dart) -/
theorem C17_markCurve_err_leaves_boundary {m m' : Map Val} (h : WF 3 m) (hst : 8 < m.a.size)
    {start : Nat} (hs0 : start ≠ 0) (hs : start < m.n) (c : Nat) {e : Err}
    (hr : run (markCurve m.n start c) m = (.err e, m')) :
    e = errUnsupportedGeometry ∧
    ∃ x, x < m.n ∧ (x = m.β 1 start ∨ ∃ y, y < m.n ∧ m.β 2 y = 0 ∧ x = m.β 1 y) ∧
      ∀ z, z ∈ orb m .vertex x → m.β 2 z ≠ 0 := by
  obtain ⟨m'', hres, _⟩ := C17_markCurve_terminates h hst hs0 hs c
  rcases hres with hr' | ⟨hr', z, hz, hor, hf⟩
  · rw [hr'] at hr; cases hr
  · rw [hr'] at hr
    have : e = errUnsupportedGeometry := by
      have := congrArg Prod.fst hr; simp at this; exact this.symm
    exact ⟨this, z, hz, hor, freeOf_none hf⟩

/-! ## (a') without the assertions: faces and boundary edges are always anchored -/

/-- third loop: every face identifier among the scanned darts ends up anchored -/
theorem classifySurfaces_spec (n : Nat) : ∀ (ds : List Nat) (sid : Nat) (mk : List Nat) (m m' : Map Val),
    WF 3 m → m.n = n → (∀ d, d ∈ ds → d ≠ 0 ∧ d < n) →
    run (classifySurfaces n ds sid mk) m = (.ok (), m') →
    ∀ d, d ∈ ds → m.unused d = false → cellId m .face d = d → (m'.att sFA d).isSome = true := by
  intro ds
  induction ds with
  | nil => intro _ _ _ _ _ _ _ _ d hd; cases hd
  | cons x xs ih =>
      intro sid mk m m' h hn hds hr d hd hu hc
      have hx := hds x List.mem_cons_self
      have hxs : ∀ d, d ∈ xs → d ≠ 0 ∧ d < n := fun d hd => hds d (List.mem_cons_of_mem _ hd)
      have hxn : x < m.n := by rw [hn]; exact hx.2
      -- whatever the branch, the rest of the loop only adds anchors
      have restGrow : ∀ (sid' : Nat) (mk' : List Nat) (m1 : Map Val),
          run (classifySurfaces n xs sid' mk') m1 = (.ok (), m') → Grow m1 m' := by
        intro sid' mk' m1 hr1
        have := anch_classifySurfaces n xs sid' mk' m1
        rw [hr1] at this; exact this
      unfold classifySurfaces at hr
      simp only [Prog.bind_eq, run_rU, (h.toSized.okU x).2 hxn, if_true] at hr
      by_cases hux : m.unused x = true
      · simp only [hux, if_true] at hr
        rcases List.mem_cons.1 hd with e | e
        · subst e; rw [hux] at hu; cases hu
        · exact ih sid mk m m' h hn hxs hr d e hu hc
      · simp only [hux, if_false, Bool.false_eq_true] at hr
        rw [← hn] at hr
        rw [run_bind, (C03_faceId2_min h hx.1 hxn).1] at hr
        rw [hn] at hr
        simp only at hr
        by_cases hcx : cellId m .face x ≠ x
        · simp only [hcx, if_true, ne_eq, not_false_eq_true] at hr
          rcases List.mem_cons.1 hd with e | e
          · subst e; exact absurd hc hcx
          · exact ih sid mk m m' h hn hxs hr d e hu hc
        · simp only [hcx, if_false] at hr
          simp only [run_rA] at hr
          by_cases hok : m.okA sFA x = true
          · simp only [hok, if_true] at hr
            cases hax : m.att sFA x with
            | some v =>
                simp only [hax, Option.isSome_some, eq_self, if_true] at hr
                rcases List.mem_cons.1 hd with e | e
                · subst e
                  exact (restGrow _ _ _ hr).mono sFA d (by rw [hax]; rfl)
                · exact ih sid mk m m' h hn hxs hr d e hu hc
            | none =>
                simp only [hax, Option.isSome_none, Bool.false_eq_true, if_false] at hr
                obtain ⟨mk', m1, h1, hr2⟩ := run_bind_ok hr
                -- the first pop writes the anchor of `x`, the rest of the colouring only adds
                have hx1 : (m1.att sFA x).isSome = true ∧ SameTopo m m1 := by
                  unfold colourSurface at h1
                  simp only [Prog.bind_eq, run_wA, hok, if_true] at h1
                  have g := Anch.bind (Anch.orbit n .face x) (fun o =>
                    Anch.bind (anch_colourDarts n sid o [] mk) fun r =>
                      anch_colourSurface n sid (n + 1) r.1 r.2) (m.setA sFA x (some (vSurface sid)))
                  rw [h1] at g
                  refine ⟨g.mono sFA x ?_, (SameTopo.setA _ _ _ _).trans g.topo⟩
                  rw [Map.att_setA, if_pos ⟨rfl, rfl, hok⟩]; rfl
                have t1 := hx1.2
                rcases List.mem_cons.1 hd with e | e
                · subst e
                  exact (restGrow _ _ _ hr2).mono sFA d hx1.1
                · exact ih (sid + 1) mk' m1 m' (h.sameTopo t1) (by rw [t1.n]; exact hn) hxs hr2 d e
                    (by rw [t1.unused]; exact hu) (by rw [cellId_sameTopo t1]; exact hc)
          · simp [hok] at hr

/-- the search of the second loop, when it finds nothing: every in-use 2-free dart has an anchored edge -/
theorem findUnmarkedBoundary_none {m : Map Val} (h : WF 3 m) : ∀ (ds : List Nat) (m' : Map Val),
    (∀ d, d ∈ ds → d ≠ 0 ∧ d < m.n) →
    run (findUnmarkedBoundary m.n ds) m = (.ok none, m') →
    ∀ d, d ∈ ds → m.unused d = false → m.β 2 d = 0 → (m.att sEA d).isSome = true := by
  intro ds
  induction ds with
  | nil => intro _ _ _ d hd; cases hd
  | cons x xs ih =>
      intro m' hds hr d hd hu hb
      have hx := hds x List.mem_cons_self
      have hxs : ∀ d, d ∈ xs → d ≠ 0 ∧ d < m.n := fun d hd => hds d (List.mem_cons_of_mem _ hd)
      unfold findUnmarkedBoundary at hr
      simp only [Prog.bind_eq, run_rU, (h.toSized.okU x).2 hx.2, if_true] at hr
      by_cases hux : m.unused x = true
      · simp only [hux, if_true] at hr
        rcases List.mem_cons.1 hd with e | e
        · subst e; rw [hux] at hu; cases hu
        · exact ih m' hxs hr d e hu hb
      · simp only [hux, if_false, Bool.false_eq_true] at hr
        rw [run_bind, run_freeDart h hx.2] at hr
        cases hfo : freeOf m x with
        | none =>
            rw [hfo] at hr
            simp only at hr
            rcases List.mem_cons.1 hd with e | e
            · subst e
              -- a 2-free dart is the first 2-free dart of its own vertex orbit
              exfalso
              have hmem := self_mem_orb h (pol := .vertex) trivial hx.1 hx.2
              exact freeOf_none hfo d hmem hb
            · exact ih m' hxs hr d e hu hb
        | some dd =>
            rw [hfo] at hr
            simp only at hr
            obtain ⟨hmem, hb2⟩ := freeOf_some hfo
            obtain ⟨hdlt, _⟩ := mem_vorb h hx.2 hmem
            rw [run_bind, run_edgeId_free h hdlt hb2] at hr
            simp only [run_rA] at hr
            by_cases hok : m.okA sEA dd = true
            · simp only [hok, if_true] at hr
              cases hax : m.att sEA dd with
              | none => simp [hax] at hr
              | some v =>
                  simp only [hax, Option.isNone_some, Bool.false_eq_true, if_false] at hr
                  rcases List.mem_cons.1 hd with e | e
                  · subst e
                    -- `d` itself is the first 2-free dart of its orbit (the orbit starts with `d`)
                    have hhead := (C03_orbit2_spec h (pol := .vertex) trivial hx.1 hx.2).2.1
                    have : freeOf m d = some d := by
                      unfold freeOf
                      cases ho : orb m .vertex d with
                      | nil => rw [ho] at hhead; cases hhead
                      | cons a as =>
                          rw [ho] at hhead
                          simp only [List.head?_cons, Option.some.injEq] at hhead
                          subst hhead
                          simp [List.find?_cons, hb]
                    rw [this] at hfo
                    cases hfo
                    rw [hax]; rfl
                  · exact ih m' hxs hr d e hu hb
            · simp [hok] at hr

/-- second loop: when it ends with `Ok`, every in-use 2-free dart has an anchored edge -/
theorem classifyLoops_spec (n : Nat) : ∀ (f cid : Nat) (m m' : Map Val) (r : Nat),
    WF 3 m → m.n = n → run (classifyLoops n f cid) m = (.ok r, m') →
    ∀ d, d ≠ 0 → d < n → m'.unused d = false → m'.β 2 d = 0 → (m'.att sEA d).isSome = true := by
  intro f
  induction f with
  | zero => intro cid m m' r _ _ hr; simp [classifyLoops, run] at hr
  | succ f ih =>
      intro cid m m' r h hn hr d hd0 hd hu hb
      unfold classifyLoops at hr
      simp only [Prog.bind_eq] at hr
      obtain ⟨res, m1, h1, hr⟩ := run_bind_ok hr
      have e1 : m1 = m := (readOnly_findUnmarkedBoundary n _).run_ok h1
      rw [e1] at h1 hr
      clear e1
      cases res with
      | none =>
          simp only [Prog.pure_eq, run_ret, Prod.mk.injEq] at hr
          obtain ⟨_, e⟩ := hr
          rw [← e] at hu hb ⊢
          rw [← hn] at h1 hd
          exact findUnmarkedBoundary_none h _ _ (fun d hd => mem_darts.1 hd) h1 d
            (mem_darts.2 ⟨hd0, hd⟩) hu hb
      | some dart =>
          simp only at hr
          obtain ⟨v, m2, h2, hr⟩ := run_bind_ok hr
          obtain ⟨_, m3, h3, hr⟩ := run_bind_ok hr
          obtain ⟨_, m4, h4, hr⟩ := run_bind_ok hr
          have g2 : Grow m m2 := by
            have := Anch.vid n dart m; rw [h2] at this; exact this
          have g3 : Grow m2 m3 := by
            have := Anch.wA sVA v (vCurve (cid + 1)) m2; rw [h3] at this; exact this
          have g4 : Grow m3 m4 := by
            have := anch_markCurve n dart (cid + 1) m3; rw [h4] at this; exact this
          have t := (g2.trans (g3.trans g4)).topo
          exact ih (cid + 1) m4 m' r (h.sameTopo t) (by rw [t.n]; exact hn) hr d hd0 hd hu hb

/-- **C17 (a'), no assertion needed**: whenever the three classification loops end without error on a
    well-formed 2-map — whatever anchors the map carried before — every face identifier of an in-use
    dart and the edge of every in-use 2-free dart (every boundary edge) has an anchor -/
theorem C17_core_faces_and_boundary_edges_anchored {m m' : Map Val} (h : WF 3 m)
    (hr : run (classifyCore m.n) m = (.ok (), m')) :
    ∀ d, d ≠ 0 → d < m'.n → m'.unused d = false →
      (m'.att sFA (cellId m' .face d)).isSome = true ∧
      (m'.β 2 d = 0 → (m'.att sEA d).isSome = true) := by
  unfold classifyCore at hr
  simp only [Prog.bind_eq] at hr
  obtain ⟨cid, m1, h1, hr⟩ := run_bind_ok hr
  obtain ⟨r, m2, h2, hr⟩ := run_bind_ok hr
  have g1 : Grow m m1 := by
    have := anch_classifyNodes m.n (List.range' 1 (m.n - 1)) 0 0 m; rw [h1] at this; exact this
  have g2 : Grow m1 m2 := by
    have := anch_classifyLoops m.n (m.n + 1) cid m1; rw [h2] at this; exact this
  have g3 : Grow m2 m' := by
    have := anch_classifySurfaces m.n (List.range' 1 (m.n - 1)) 0 [0] m2; rw [hr] at this; exact this
  have hw1 := h.sameTopo g1.topo
  have hw2 := hw1.sameTopo g2.topo
  have hn2 : m2.n = m.n := (g1.topo.trans g2.topo).n
  have hn' : m'.n = m.n := (g1.topo.trans (g2.topo.trans g3.topo)).n
  intro d hd0 hd hu
  rw [hn'] at hd
  have hu2 : m2.unused d = false := by rw [← g3.topo.unused]; exact hu
  constructor
  · rw [cellId_sameTopo g3.topo]
    obtain ⟨f0, flt, fu, fid⟩ := cell_rep hw2 (pol := .face) trivial hd0 (by rw [hn2]; exact hd) hu2
    rw [hn2] at flt
    exact classifySurfaces_spec m.n _ 0 [0] m2 m' hw2 hn2 (fun d hd => mem_darts.1 hd) hr _
      (mem_darts.2 ⟨f0, flt⟩) fu fid
  · intro hb
    have := classifyLoops_spec m.n (m.n + 1) cid m1 m2 r hw1 g1.topo.n h2 d hd0 hd hu2
      (by rw [← g3.topo.β]; exact hb)
    exact g3.mono sEA d this

/-! ## the second loop terminates -/

def cntE (m : Map Val) : Nat := ((List.range m.n).filter (fun x => (m.att sEA x).isNone)).length

theorem cntE_le (m : Map Val) : cntE m ≤ m.n := by
  unfold cntE
  have := List.length_filter_le (fun x => (m.att sEA x).isNone) (List.range m.n)
  simpa using this

/-- anchors are only added and the slot `e` went from empty to anchored: fewer empty edge slots -/
theorem cntE_lt {m m' : Map Val} (g : Grow m m') {e : Nat} (he : e < m.n) (h0 : m.att sEA e = none)
    (h1 : (m'.att sEA e).isSome = true) : cntE m' < cntE m := by
  unfold cntE
  rw [g.topo.n]
  apply filter_len_lt (v := e)
  · intro x hx
    cases hm : m.att sEA x with
    | none => rfl
    | some v =>
        have := g.mono sEA x (by rw [hm]; rfl)
        cases hm' : m'.att sEA x with
        | none => rw [hm'] at this; cases this
        | some w => rw [hm'] at hx; cases hx
  · exact List.mem_range.2 he
  · rw [h0]; rfl
  · cases hm' : m'.att sEA e with
    | none => rw [hm'] at h1; cases h1
    | some w => rfl

/-- the search of the second loop, when it finds a dart: a non-null 2-free dart with an unanchored edge -/
theorem findUnmarkedBoundary_some {m : Map Val} (h : WF 3 m) : ∀ (ds : List Nat) (m' : Map Val) (dart : Nat),
    (∀ d, d ∈ ds → d ≠ 0 ∧ d < m.n) →
    run (findUnmarkedBoundary m.n ds) m = (.ok (some dart), m') →
    dart ≠ 0 ∧ dart < m.n ∧ m.β 2 dart = 0 ∧ m.att sEA dart = none := by
  intro ds
  induction ds with
  | nil => intro _ _ _ hr; simp [findUnmarkedBoundary, run] at hr
  | cons x xs ih =>
      intro m' dart hds hr
      have hx := hds x List.mem_cons_self
      have hxs : ∀ d, d ∈ xs → d ≠ 0 ∧ d < m.n := fun d hd => hds d (List.mem_cons_of_mem _ hd)
      unfold findUnmarkedBoundary at hr
      simp only [Prog.bind_eq, run_rU, (h.toSized.okU x).2 hx.2, if_true] at hr
      by_cases hux : m.unused x = true
      · simp only [hux, if_true] at hr
        exact ih m' dart hxs hr
      · simp only [hux, if_false, Bool.false_eq_true] at hr
        rw [run_bind, run_freeDart h hx.2] at hr
        cases hfo : freeOf m x with
        | none => rw [hfo] at hr; exact ih m' dart hxs hr
        | some dd =>
            rw [hfo] at hr
            simp only at hr
            obtain ⟨hmem, hb2⟩ := freeOf_some hfo
            obtain ⟨hdlt, _⟩ := mem_vorb h hx.2 hmem
            have hd0 : dd ≠ 0 := ((mem_orb h (pol := .vertex) trivial hx.1 hx.2 dd).1 hmem).1
            rw [run_bind, run_edgeId_free h hdlt hb2] at hr
            simp only [run_rA] at hr
            by_cases hok : m.okA sEA dd = true
            · simp only [hok, if_true] at hr
              cases hax : m.att sEA dd with
              | none =>
                  simp only [hax, Option.isNone_none, if_true, Prog.pure_eq, run_ret, Prod.mk.injEq,
                    Out.ok.injEq, Option.some.injEq] at hr
                  obtain ⟨e, _⟩ := hr
                  subst e
                  exact ⟨hd0, hdlt, hb2, hax⟩
              | some v =>
                  simp only [hax, Option.isNone_some, Bool.false_eq_true, if_false] at hr
                  exact ih m' dart hxs hr
            · simp [hok] at hr

/-- on a well-formed map with the anchor storages the search itself always answers -/
theorem findUnmarkedBoundary_total {m : Map Val} (h : Ok9 m) : ∀ (ds : List Nat),
    (∀ d, d ∈ ds → d ≠ 0 ∧ d < m.n) → ∃ r, run (findUnmarkedBoundary m.n ds) m = (.ok r, m) := by
  intro ds
  induction ds with
  | nil => intro _; exact ⟨none, rfl⟩
  | cons x xs ih =>
      intro hds
      have hx := hds x List.mem_cons_self
      have hxs : ∀ d, d ∈ xs → d ≠ 0 ∧ d < m.n := fun d hd => hds d (List.mem_cons_of_mem _ hd)
      unfold findUnmarkedBoundary
      simp only [Prog.bind_eq, run_rU, (h.wf.toSized.okU x).2 hx.2, if_true]
      by_cases hux : m.unused x = true
      · simp only [hux, if_true]; exact ih hxs
      · simp only [hux, if_false, Bool.false_eq_true]
        rw [run_bind, run_freeDart h.wf hx.2]
        cases hfo : freeOf m x with
        | none => exact ih hxs
        | some dd =>
            simp only
            obtain ⟨hmem, hb2⟩ := freeOf_some hfo
            obtain ⟨hdlt, _⟩ := mem_vorb h.wf hx.2 hmem
            rw [run_bind, run_edgeId_free h.wf hdlt hb2]
            simp only [run_rA, h.okA (by decide : sEA ≤ 8) hdlt, if_true]
            cases hax : m.att sEA dd with
            | none => exact ⟨some dd, by simp⟩
            | some v =>
                simp only [Option.isNone_some, Bool.false_eq_true, if_false]
                exact ih hxs

/-- **C17, the second loop terminates**: on a well-formed 2-map with the anchor storages the loop over
    the boundaries that are not reachable from an anchored vertex never exhausts its fuel and never
    panics; it ends with `Ok` or with the `UnsupportedGeometry` of a `mark_curve` call -/
theorem classifyLoops_terminates : ∀ (f cid : Nat) (m : Map Val), Ok9 m → cntE m < f →
    (∃ r m', run (classifyLoops m.n f cid) m = (.ok r, m')) ∨
    (∃ m', run (classifyLoops m.n f cid) m = (.err errUnsupportedGeometry, m')) := by
  intro f
  induction f with
  | zero => intro cid m _ hc; omega
  | succ f ih =>
      intro cid m h hc
      unfold classifyLoops
      simp only [Prog.bind_eq]
      obtain ⟨res, hfd⟩ := findUnmarkedBoundary_total h _ (fun d hd => mem_darts.1 hd)
      rw [run_bind, hfd]
      cases res with
      | none =>
          simp only [Prog.pure_eq, run_ret]
          exact Or.inl ⟨cid, m, rfl⟩
      | some dart =>
          obtain ⟨hd0, hdlt, hb2, hnone⟩ :=
            findUnmarkedBoundary_some h.wf _ _ _ (fun d hd => mem_darts.1 hd) hfd
          simp only
          have hv := vid_lt h.wf hdlt
          rw [run_bind, run_vid' h.wf hdlt]
          simp only [run_wA, h.okA (by decide : sVA ≤ 8) hv, if_true]
          have g1 : Grow m (m.setA sVA (cellId m .vertex dart) (some (vCurve (cid + 1)))) := Grow.setA _ _ _ _
          have h1 := h.sameTopo g1.topo
          have hdlt1 : dart < (m.setA sVA (cellId m .vertex dart) (some (vCurve (cid + 1)))).n := hdlt
          obtain ⟨m2, hres, g2, _, _, hatt⟩ := C17_markCurve_terminates h1.wf h1.st hd0 hdlt1 (cid + 1)
          have hn1 : (m.setA sVA (cellId m .vertex dart) (some (vCurve (cid + 1)))).n = m.n := rfl
          rw [hn1] at hres
          have hcid : cellId (m.setA sVA (cellId m .vertex dart) (some (vCurve (cid + 1)))) .edge dart = dart := by
            rw [cellId_sameTopo g1.topo, (C03_edgeId2_min h.wf hd0 hdlt).2.2.2, if_pos hb2]
          rw [hcid] at hatt
          rw [run_bind]
          rcases hres with hr | ⟨hr, _⟩
          · rw [hr]
            simp only
            have g12 := g1.trans g2
            have hlt : cntE m2 < cntE m := cntE_lt g12 hdlt hnone (by rw [hatt]; rfl)
            have := ih (cid + 1) m2 (h.sameTopo g12.topo) (by omega)
            rw [g12.topo.n] at this
            exact this
          · rw [hr]
            exact Or.inr ⟨m2, rfl⟩

/-- **C17, the second loop terminates** (the fuel the model gives it, `n_darts + 1`, is never
    exhausted): `Ok` or the `UnsupportedGeometry` of one of its `mark_curve` calls -/
theorem C17_boundary_loop_terminates {m : Map Val} (h : WF 3 m) (hst : 8 < m.a.size) (cid : Nat) :
    (∃ r m', run (classifyLoops m.n (m.n + 1) cid) m = (.ok r, m')) ∨
    (∃ m', run (classifyLoops m.n (m.n + 1) cid) m = (.err errUnsupportedGeometry, m')) :=
  classifyLoops_terminates _ cid m ⟨h, hst⟩ (by have := cntE_le m; omega)

/-! ## the colouring loop terminates; `classify_capture` is total -/

theorem run_eid' {m : Map Val} (h : WF 3 m) {d : Nat} (hd : d < m.n) :
    run (edgeId2 (X := Val) d) m = (.ok (if m.β 2 d = 0 then d else min (m.β 2 d) d), m) := by
  unfold edgeId2
  simp only [Prog.bind_eq, Prog.pure_eq, run_rB, okb h (by omega : 2 < 3) hd, if_true]
  by_cases hb : m.β 2 d = 0
  · simp only [hb, if_true, run_ret]
  · simp only [hb, if_false, run_ret]

theorem eid_lt {m : Map Val} (h : WF 3 m) {d : Nat} (hd : d < m.n) :
    (if m.β 2 d = 0 then d else min (m.β 2 d) d) < m.n := by
  have := h.range 2 (by omega) d hd
  split
  · exact hd
  · omega

theorem run_fid' {m : Map Val} (h : WF 3 m) {x : Nat} (hx : x < m.n) :
    run (faceId2 (X := Val) m.n x) m = (.ok (cellId m .face x), m) := by
  by_cases h0 : x = 0
  · subst h0
    unfold faceId2
    have := run_orbit2_zero h (pol := .face) trivial
    unfold orbit2 at this
    simp only [Prog.bind_eq]
    rw [run_bind, this, cellId_zero h (pol := .face) trivial]
    simp [listMin]
  · exact (C03_faceId2_min h h0 hx).1

theorem fid_lt {m : Map Val} (h : WF 3 m) {x : Nat} (hx : x < m.n) : cellId m .face x < m.n := by
  by_cases h0 : x = 0
  · subst h0; rw [cellId_zero h (pol := .face) trivial]; exact hx
  · exact (cellId_idem h (pol := .face) trivial h0 hx).2.1

/-- queue and `marked` set of the colouring: existing darts, no duplicate in `marked` -/
structure QInv (n : Nat) (q mk : List Nat) : Prop where
  qlt : ∀ x, x ∈ q → x < n
  mlt : ∀ x, x ∈ mk → x < n
  nodup : mk.Nodup

theorem QInv.len {n : Nat} {q mk : List Nat} (h : QInv n q mk) : mk.length ≤ n := by
  have h2 : mk ⊆ List.range n := fun x hx => List.mem_range.2 (h.mlt x hx)
  have := h.nodup.length_le_of_subset h2
  simpa using this

theorem QInv.push {n : Nat} {q mk : List Nat} (h : QInv n q mk) {x : Nat} (hx : x < n) (hn : x ∉ mk) :
    QInv n (q ++ [x]) (mk ++ [x]) := by
  refine ⟨?_, ?_, ?_⟩
  · intro y hy
    rcases List.mem_append.1 hy with hy | hy
    · exact h.qlt y hy
    · rw [List.mem_singleton.1 hy]; exact hx
  · intro y hy
    rcases List.mem_append.1 hy with hy | hy
    · exact h.mlt y hy
    · rw [List.mem_singleton.1 hy]; exact hx
  · rw [List.nodup_append]
    refine ⟨h.nodup, by simp, ?_⟩
    intro a ha b hb e
    rw [List.mem_singleton.1 hb] at e
    exact hn (e ▸ ha)

/-- the body of the colouring over the darts of one face always succeeds; it only appends the same new
    faces to the queue and to `marked` -/
theorem colourDarts_total (sid : Nat) : ∀ (ds q mk : List Nat) (m : Map Val), Ok9 m →
    (∀ d, d ∈ ds → d < m.n) → QInv m.n q mk →
    ∃ add m', run (colourDarts m.n sid ds q mk) m = (.ok (q ++ add, mk ++ add), m') ∧ Grow m m' ∧
      QInv m.n (q ++ add) (mk ++ add) := by
  intro ds
  induction ds with
  | nil =>
      intro q mk m _ _ hq
      exact ⟨[], m, by simp [colourDarts], Grow.refl m, by simpa using hq⟩
  | cons d ds ih =>
      intro q mk m h hds hq
      have hd := hds d List.mem_cons_self
      have hds' : ∀ x, x ∈ ds → x < m.n := fun x hx => hds x (List.mem_cons_of_mem _ hx)
      have helt := eid_lt h.wf hd
      unfold colourDarts
      simp only [Prog.bind_eq]
      rw [run_bind, run_eid' h.wf hd]
      simp only [run_rA, h.okA (by decide : sEA ≤ 8) helt, if_true]
      by_cases ha : (m.att sEA (if m.β 2 d = 0 then d else min (m.β 2 d) d)).isSome = true
      · simp only [ha, if_true]
        exact ih q mk m h hds' hq
      · simp only [ha, if_false, Bool.false_eq_true]
        rw [run_bind, run_eid' h.wf hd]
        simp only [run_wA, h.okA (by decide : sEA ≤ 8) helt, if_true]
        -- after the edge write
        have g1 : Grow m (m.setA sEA (if m.β 2 d = 0 then d else min (m.β 2 d) d) (some (vSurface sid))) :=
          Grow.setA _ _ _ _
        generalize hm1 : m.setA sEA (if m.β 2 d = 0 then d else min (m.β 2 d) d) (some (vSurface sid)) = m1 at g1
        have h1 := h.sameTopo g1.topo
        have hn1 : m1.n = m.n := g1.topo.n
        have hd1 : d < m1.n := by rw [hn1]; exact hd
        rw [← hn1]
        rw [run_bind, run_vid' h1.wf hd1]
        have hv1 := vid_lt h1.wf hd1
        simp only [run_rA, h1.okA (by decide : sVA ≤ 8) hv1, if_true]
        -- the optional vertex write leads to a map `m2`
        have key : ∀ (m2 : Map Val), Grow m1 m2 →
            ∃ add m', run (Prog.bind (rB 2 d) fun b2 => Prog.bind (faceId2 m1.n b2) fun nf =>
                if mk.contains nf = true then colourDarts m1.n sid ds q mk
                else colourDarts m1.n sid ds (q ++ [nf]) (mk ++ [nf])) m2
              = (.ok (q ++ add, mk ++ add), m') ∧ Grow m2 m' ∧ QInv m1.n (q ++ add) (mk ++ add) := by
          intro m2 g2
          have h2 := h1.sameTopo g2.topo
          have hn2 : m2.n = m1.n := g2.topo.n
          have hd2 : d < m2.n := by rw [hn2]; exact hd1
          have hb2 : m2.β 2 d < m2.n := h2.wf.range 2 (by omega) d hd2
          simp only [run_rB, okb h2.wf (by omega : 2 < 3) hd2, if_true]
          rw [← hn2, run_bind, run_fid' h2.wf hb2]
          simp only
          have hflt := fid_lt h2.wf hb2
          have hds2 : ∀ x, x ∈ ds → x < m2.n := fun x hx => by rw [hn2, hn1]; exact hds' x hx
          by_cases hc : mk.contains (cellId m2 .face (m2.β 2 d)) = true
          · simp only [hc, if_true]
            have := ih q mk m2 h2 hds2 (by rw [hn2, hn1]; exact hq)
            exact this
          · simp only [hc, if_false, Bool.false_eq_true]
            have hnm : cellId m2 .face (m2.β 2 d) ∉ mk := by
              intro hh; exact hc (by simpa using hh)
            have hq2 : QInv m2.n (q ++ [cellId m2 .face (m2.β 2 d)]) (mk ++ [cellId m2 .face (m2.β 2 d)]) := by
              have hq' : QInv m2.n q mk := by rw [hn2, hn1]; exact hq
              exact hq'.push hflt hnm
            obtain ⟨add, m', hr, g, hqi⟩ := ih _ _ m2 h2 hds2 hq2
            refine ⟨cellId m2 .face (m2.β 2 d) :: add, m', ?_, g, ?_⟩
            · rw [hr]; simp [List.append_assoc]
            · simpa [List.append_assoc] using hqi
        by_cases hav : (m1.att sVA (cellId m1 .vertex d)).isNone = true
        · simp only [hav, if_true]
          rw [run_bind, run_bind, run_vid' h1.wf hd1]
          simp only [run_wA', h1.okA (by decide : sVA ≤ 8) hv1, if_true]
          have g2 : Grow m1 (m1.setA sVA (cellId m1 .vertex d) (some (vSurface sid))) := Grow.setA _ _ _ _
          obtain ⟨add, m', hr, g, hqi⟩ := key _ g2
          refine ⟨add, m', ?_, g1.trans (g2.trans g), hqi⟩
          rw [← hr]
        · simp only [hav, if_false, Bool.false_eq_true, Prog.pure_eq]
          rw [run_bind]
          simp only [run_ret]
          obtain ⟨add, m', hr, g, hqi⟩ := key m1 (Grow.refl m1)
          refine ⟨add, m', ?_, g1.trans g, hqi⟩
          rw [← hr]

theorem orb_lt {m : Map Val} (h : WF 3 m) {pol : Policy} (hp : PolOK pol) {x : Nat} (hx : x < m.n) :
    ∀ y, y ∈ orb m pol x → y < m.n := by
  intro y hy
  by_cases h0 : x = 0
  · subst h0
    rw [orb_zero h hp, List.mem_singleton] at hy
    rw [hy]; exact hx
  · exact (C03_orbit2_spec h hp h0 hx).2.2.2.2.2 y hy

/-- the face queue empties: with more fuel than `|queue| + (n_darts - |marked|)` the colouring of one
    surface ends with `Ok` -/
theorem colourSurface_total (sid : Nat) : ∀ (f : Nat) (q mk : List Nat) (m : Map Val), Ok9 m →
    QInv m.n q mk → q.length + (m.n - mk.length) < f →
    ∃ mk' m', run (colourSurface m.n sid f q mk) m = (.ok mk', m') ∧ Grow m m' ∧ QInv m.n [] mk' := by
  intro f
  induction f with
  | zero => intro q mk m _ _ hf; omega
  | succ f ih =>
      intro q mk m h hq hf
      cases q with
      | nil =>
          exact ⟨mk, m, by simp [colourSurface], Grow.refl m, hq⟩
      | cons crt q =>
          have hcrt : crt < m.n := hq.qlt crt List.mem_cons_self
          have hq' : QInv m.n q mk := ⟨fun x hx => hq.qlt x (List.mem_cons_of_mem _ hx), hq.mlt, hq.nodup⟩
          unfold colourSurface
          simp only [Prog.bind_eq, run_wA, h.okA (by decide : sFA ≤ 8) hcrt, if_true]
          have g1 : Grow m (m.setA sFA crt (some (vSurface sid))) := Grow.setA _ _ _ _
          generalize m.setA sFA crt (some (vSurface sid)) = m1 at g1
          have h1 := h.sameTopo g1.topo
          have hn1 : m1.n = m.n := g1.topo.n
          rw [← hn1]
          have hcrt1 : crt < m1.n := by rw [hn1]; exact hcrt
          rw [run_bind, run_orbit2' h1.wf (pol := .face) trivial hcrt1]
          simp only
          obtain ⟨add, m2, hr2, g2, hq2⟩ := colourDarts_total sid (orb m1 .face crt) q mk m1 h1
            (orb_lt h1.wf (pol := .face) trivial hcrt1) (by rw [hn1]; exact hq')
          rw [run_bind, hr2]
          simp only
          have h2 := h1.sameTopo g2.topo
          have hn2 : m2.n = m1.n := g2.topo.n
          have hlen := hq2.len
          have hlen0 := hq'.len
          have hf2 : (q ++ add).length + (m2.n - (mk ++ add).length) < f := by
            simp only [List.length_append, List.length_cons] at hf hlen ⊢
            rw [hn2, hn1]
            rw [hn1] at hlen
            omega
          obtain ⟨mk', m', hr, g, hqf⟩ := ih (q ++ add) (mk ++ add) m2 h2 (by rw [hn2]; exact hq2) hf2
          rw [hn2] at hr hqf
          exact ⟨mk', m', hr, g1.trans (g2.trans g), hqf⟩

/-- the third loop always ends with `Ok` -/
theorem classifySurfaces_total : ∀ (ds : List Nat) (sid : Nat) (mk : List Nat) (m : Map Val), Ok9 m →
    (∀ d, d ∈ ds → d ≠ 0 ∧ d < m.n) → QInv m.n [] mk →
    ∃ m', run (classifySurfaces m.n ds sid mk) m = (.ok (), m') := by
  intro ds
  induction ds with
  | nil => intro sid mk m _ _ _; exact ⟨m, rfl⟩
  | cons x xs ih =>
      intro sid mk m h hds hq
      have hx := hds x List.mem_cons_self
      have hxs : ∀ d, d ∈ xs → d ≠ 0 ∧ d < m.n := fun d hd => hds d (List.mem_cons_of_mem _ hd)
      unfold classifySurfaces
      simp only [Prog.bind_eq, run_rU, (h.wf.toSized.okU x).2 hx.2, if_true]
      by_cases hux : m.unused x = true
      · simp only [hux, if_true]; exact ih sid mk m h hxs hq
      · simp only [hux, if_false, Bool.false_eq_true]
        rw [run_bind, run_fid' h.wf hx.2]
        simp only
        by_cases hcx : cellId m .face x ≠ x
        · simp only [hcx, if_true, ne_eq, not_false_eq_true]; exact ih sid mk m h hxs hq
        · simp only [hcx, if_false]
          simp only [run_rA, h.okA (by decide : sFA ≤ 8) hx.2, if_true]
          by_cases ha : (m.att sFA x).isSome = true
          · simp only [ha, if_true]; exact ih sid mk m h hxs hq
          · simp only [ha, if_false, Bool.false_eq_true]
            have hq1 : QInv m.n [x] mk := ⟨fun y hy => by rw [List.mem_singleton.1 hy]; exact hx.2, hq.mlt, hq.nodup⟩
            obtain ⟨mk', m1, hr1, g1, hq'⟩ := colourSurface_total sid (m.n + 2) [x] mk m h hq1
              (by simp only [List.length_singleton]; omega)
            rw [run_bind, hr1]
            simp only
            have h1 := h.sameTopo g1.topo
            have hn1 : m1.n = m.n := g1.topo.n
            have := ih (sid + 1) mk' m1 h1 (fun d hd => by rw [hn1]; exact hxs d hd) (by rw [hn1]; exact hq')
            rw [hn1] at this
            exact this

/-- the first loop ends with `Ok` or with the `UnsupportedGeometry` of a `mark_curve` call -/
theorem classifyNodes_total : ∀ (ds : List Nat) (i cid : Nat) (m : Map Val), Ok9 m →
    (∀ d, d ∈ ds → d ≠ 0 ∧ d < m.n) →
    (∃ r m', run (classifyNodes m.n ds i cid) m = (.ok r, m')) ∨
    (∃ m', run (classifyNodes m.n ds i cid) m = (.err errUnsupportedGeometry, m')) := by
  intro ds
  induction ds with
  | nil => intro i cid m _ _; exact Or.inl ⟨cid, m, rfl⟩
  | cons x xs ih =>
      intro i cid m h hds
      have hx := hds x List.mem_cons_self
      have hxs : ∀ d, d ∈ xs → d ≠ 0 ∧ d < m.n := fun d hd => hds d (List.mem_cons_of_mem _ hd)
      unfold classifyNodes
      simp only [Prog.bind_eq, run_rU, (h.wf.toSized.okU x).2 hx.2, if_true]
      by_cases hux : m.unused x = true
      · simp only [hux, if_true]; exact ih i cid m h hxs
      · simp only [hux, if_false, Bool.false_eq_true]
        rw [run_bind, run_vid' h.wf hx.2]
        simp only
        by_cases hcx : cellId m .vertex x ≠ x
        · simp only [hcx, if_true, ne_eq, not_false_eq_true]; exact ih i cid m h hxs
        · simp only [hcx, if_false]
          simp only [run_rA, h.okA (by decide : sVA ≤ 8) hx.2, if_true]
          by_cases ha : (m.att sVA x).isNone = true
          · simp only [ha, if_true]; exact ih i cid m h hxs
          · simp only [ha, if_false, Bool.false_eq_true]
            rw [run_bind, run_freeDart h.wf hx.2]
            cases hfo : freeOf m x with
            | none => exact ih i cid m h hxs
            | some dart =>
                simp only
                obtain ⟨hmem, hb2⟩ := freeOf_some hfo
                obtain ⟨hdlt, _⟩ := mem_vorb h.wf hx.2 hmem
                have hd0 : dart ≠ 0 := ((mem_orb h.wf (pol := .vertex) trivial hx.1 hx.2 dart).1 hmem).1
                obtain ⟨m2, hres, g2, _⟩ := C17_markCurve_terminates h.wf h.st hd0 hdlt i
                rw [run_bind]
                rcases hres with hr | ⟨hr, _⟩
                · rw [hr]
                  simp only
                  have := ih (i + 1) (max cid i) m2 (h.sameTopo g2.topo)
                    (fun d hd => by rw [g2.topo.n]; exact hxs d hd)
                  rw [g2.topo.n] at this
                  exact this
                · rw [hr]; exact Or.inr ⟨m2, rfl⟩

/-- the scan of a final assertion always answers -/
theorem allAnchored_total {m : Map Val} (h : Ok9 m) {s : Nat} (hs : s ≤ 8) {idf : Nat → P Val Nat}
    (cid : Nat → Nat) (hid : ∀ d, d ≠ 0 → d < m.n → run (idf d) m = (.ok (cid d), m)) :
    ∀ ds, (∀ d, d ∈ ds → d ≠ 0 ∧ d < m.n) → ∃ r, run (allAnchored s idf ds) m = (.ok r, m) := by
  intro ds
  induction ds with
  | nil => intro _; exact ⟨true, rfl⟩
  | cons x xs ih =>
      intro hds
      have hx := hds x List.mem_cons_self
      have hxs : ∀ d, d ∈ xs → d ≠ 0 ∧ d < m.n := fun d hd => hds d (List.mem_cons_of_mem _ hd)
      unfold allAnchored
      simp only [Prog.bind_eq, run_rU, (h.wf.toSized.okU x).2 hx.2, if_true]
      by_cases hux : m.unused x = true
      · simp only [hux, if_true]; exact ih hxs
      · simp only [hux, if_false, Bool.false_eq_true]
        rw [run_bind, hid x hx.1 hx.2]
        simp only
        by_cases hcx : cid x ≠ x
        · simp only [hcx, if_true, ne_eq, not_false_eq_true]; exact ih hxs
        · simp only [hcx, if_false]
          simp only [run_rA, h.okA hs hx.2, if_true]
          by_cases ha : (m.att s x).isNone = true
          · simp only [ha, if_true]; exact ⟨false, rfl⟩
          · simp only [ha, if_false, Bool.false_eq_true]; exact ih hxs

/-- **C17, `classify_capture` is total on well-formed maps**: on every well-formed 2-map carrying the
    anchor storages — whatever anchors it holds — the function terminates (no loop exhausts the fuel
    the model gives it) and its outcome is `Ok`, `UnsupportedGeometry` (from a `mark_curve` walk that
    left the boundary), or the panic of one of the three final `debug_assert!`s after the three loops
    ended with `Ok`; no other panic (index out of range) can occur -/
theorem C17_classify_terminates {m : Map Val} (h : WF 3 m) (hst : 8 < m.a.size) :
    ∃ m', run (classifyCapture m.n) m = (.ok (), m') ∨
      run (classifyCapture m.n) m = (.err errUnsupportedGeometry, m') ∨
      (run (classifyCapture m.n) m = (.panic, m') ∧ run (classifyCore m.n) m = (.ok (), m')) := by
  have h9 : Ok9 m := ⟨h, hst⟩
  have hds : ∀ d, d ∈ List.range' 1 (m.n - 1) → d ≠ 0 ∧ d < m.n := fun d hd => mem_darts.1 hd
  -- the three loops
  have core : (∃ m3, run (classifyCore m.n) m = (.ok (), m3) ∧ Grow m m3) ∨
      (∃ m3, run (classifyCore m.n) m = (.err errUnsupportedGeometry, m3)) := by
    unfold classifyCore
    simp only [Prog.bind_eq]
    rcases classifyNodes_total _ 0 0 m h9 hds with ⟨cid, m1, h1⟩ | ⟨m1, h1⟩
    · rw [run_bind, h1]
      simp only
      have g1 : Grow m m1 := by
        have := anch_classifyNodes m.n (List.range' 1 (m.n - 1)) 0 0 m; rw [h1] at this; exact this
      have h91 := h9.sameTopo g1.topo
      have hn1 : m1.n = m.n := g1.topo.n
      have hl := C17_boundary_loop_terminates h91.wf h91.st cid
      rw [hn1] at hl
      rcases hl with ⟨r, m2, h2⟩ | ⟨m2, h2⟩
      · rw [run_bind, h2]
        simp only
        have g2 : Grow m1 m2 := by
          have := anch_classifyLoops m.n (m.n + 1) cid m1; rw [h2] at this; exact this
        have h92 := h91.sameTopo g2.topo
        have hn2 : m2.n = m.n := by rw [g2.topo.n, hn1]
        have hq0 : QInv m2.n [] [0] := by
          refine ⟨?_, ?_, ?_⟩
          · intro x hx; cases hx
          · intro x hx; rw [List.mem_singleton.1 hx]; exact h92.wf.toSized.npos
          · simp
        obtain ⟨m3, h3⟩ := classifySurfaces_total (List.range' 1 (m2.n - 1)) 0 [0] m2 h92
          (fun d hd => mem_darts.1 hd) hq0
        rw [hn2] at h3
        have g3 : Grow m2 m3 := by
          have := anch_classifySurfaces m.n (List.range' 1 (m.n - 1)) 0 [0] m2; rw [h3] at this; exact this
        exact Or.inl ⟨m3, h3, g1.trans (g2.trans g3)⟩
      · rw [run_bind, h2]
        exact Or.inr ⟨m2, rfl⟩
    · rw [run_bind, h1]
      exact Or.inr ⟨m1, rfl⟩
  unfold classifyCapture
  simp only [Prog.bind_eq]
  rcases core with ⟨m3, hc, g⟩ | ⟨m3, hc⟩
  · rw [run_bind, hc]
    simp only
    have h93 := h9.sameTopo g.topo
    have hn3 : m3.n = m.n := g.topo.n
    have hds3 : ∀ d, d ∈ List.range' 1 (m.n - 1) → d ≠ 0 ∧ d < m3.n := fun d hd => by
      rw [hn3]; exact hds d hd
    obtain ⟨av, hav⟩ := allAnchored_total h93 (by decide : sVA ≤ 8) (idf := vertexId2 m.n) (cellId m3 .vertex)
      (fun d hd0 hd => by have := (C03_vertexId2_min h93.wf hd0 hd).1; rw [hn3] at this; exact this) _ hds3
    obtain ⟨ae, hae⟩ := allAnchored_total h93 (by decide : sEA ≤ 8) (idf := edgeId2) (cellId m3 .edge)
      (fun d hd0 hd => (C03_edgeId2_min h93.wf hd0 hd).1) _ hds3
    obtain ⟨af, haf⟩ := allAnchored_total h93 (by decide : sFA ≤ 8) (idf := faceId2 m.n) (cellId m3 .face)
      (fun d hd0 hd => by have := (C03_faceId2_min h93.wf hd0 hd).1; rw [hn3] at this; exact this) _ hds3
    refine ⟨m3, ?_⟩
    rw [run_bind, hav]
    simp only
    cases av with
    | false => exact Or.inr (Or.inr ⟨rfl, trivial⟩)
    | true =>
        simp only [Bool.not_true, Bool.false_eq_true, if_false]
        rw [run_bind, hae]
        simp only
        cases ae with
        | false => exact Or.inr (Or.inr ⟨rfl, trivial⟩)
        | true =>
            simp only [Bool.not_true, Bool.false_eq_true, if_false]
            rw [run_bind, haf]
            simp only
            cases af with
            | false => exact Or.inr (Or.inr ⟨rfl, trivial⟩)
            | true => exact Or.inl rfl
  · rw [run_bind, hc]
    exact ⟨m3, Or.inr (Or.inl rfl)⟩

/-! ## the assertions are not redundant on arbitrary well-formed maps -/

/-- one edge 1|2 closed on itself (`β1 = β2 = (1 2)`): a face with a dangling edge, two vertices of
    degree 1, no boundary -/
def exAnt : Map Val :=
  { (Map.empty 3 9 3 : Map Val) with b := #[#[0, 2, 1], #[0, 2, 1], #[0, 2, 1]] }

/-- **C17, the unconditional version of (a) is false**: on this well-formed map the three loops end
    with `Ok`, vertex 2 stays unanchored (its only dart is visited after its edge was anchored from the
    other side) and the debug assertion fires.  `C17_classify_ok_all_anchored` is therefore stated for
    the function *with* its assertions; that they cannot fire on capture outputs is validated, not
    proved. -/
theorem C17_classify_assertion_can_fire :
    ∃ m : Map Val, WF 3 m ∧ 8 < m.a.size ∧ (run (classifyCore m.n) m).1 = .ok () ∧
      ((run (classifyCore m.n) m).2).att sVA 2 = none ∧ m.unused 2 = false ∧
      cellId m .vertex 2 = 2 ∧ (run (classifyCapture m.n) m).1 = .panic :=
  ⟨exAnt, by decide, by decide, by decide +kernel, by decide +kernel, by decide, by decide +kernel,
    by decide +kernel⟩

/-! ## non-vacuity: the hypotheses are satisfiable, the conclusions are not trivial -/

/-- one square face 1-2-3-4, all sides 2-free, nine storages -/
def exSq : Map Val :=
  { (Map.empty 3 9 5 : Map Val) with b := #[#[0, 4, 1, 2, 3], #[0, 2, 3, 4, 1], #[0, 0, 0, 0, 0]] }

/-- the same square with vertex 3 anchored to `Node(0)` -/
def exSqN : Map Val := exSq.setA sVA 3 (some (.tm (.leaf 0)))

/-- dart 1 is 2-free, its successor 2 is glued to 3 and the vertex of 2 has no 2-free dart -/
def exOpen : Map Val :=
  { (Map.empty 3 9 4 : Map Val) with b := #[#[0, 0, 1, 0], #[0, 2, 0, 0], #[0, 0, 3, 2]] }

theorem exSq_wf : WF 3 exSq := by decide
theorem exSqN_wf : WF 3 exSqN := by decide
theorem exOpen_wf : WF 3 exOpen := by decide
example : 8 < exSq.a.size ∧ 8 < exSqN.a.size ∧ 8 < exOpen.a.size := by decide

-- classification of the bare square: Ok, one fresh curve (id 1) around it, one surface
example : (run (classifyCapture exSq.n) exSq).1 = .ok () := by decide +kernel
example : ((run (classifyCapture exSq.n) exSq).2).att sEA 2 = some (vCurve 1) := by decide +kernel
example : ((run (classifyCapture exSq.n) exSq).2).att sFA 1 = some (vSurface 0) := by decide +kernel
-- with a node: the curve from the node gets id 0 and the node keeps its anchor
example : (run (classifyCapture exSqN.n) exSqN).1 = .ok () := by decide +kernel
example : ((run (classifyCapture exSqN.n) exSqN).2).att sVA 3 = some (.tm (.leaf 0)) := by decide +kernel
example : ((run (classifyCapture exSqN.n) exSqN).2).att sEA 1 = some (vCurve 0) := by decide +kernel
-- mark_curve: closed boundary ⇒ Ok; the walk from dart 3 stops at the node (vertex 3) after one turn
example : ClosedBoundary exSq := by unfold ClosedBoundary; decide +kernel
example : (run (markCurve exSqN.n 3 7) exSqN).1 = .ok () := by decide +kernel
example : ((run (markCurve exSqN.n 3 7) exSqN).2).att sVA 1 = some (vCurve 7) := by decide +kernel
example : ((run (markCurve exSqN.n 3 7) exSqN).2).att sVA 3 = some (.tm (.leaf 0)) := by decide +kernel
-- … and an open one ⇒ UnsupportedGeometry, the walk left the boundary at dart 2
example : (run (markCurve exOpen.n 1 7) exOpen).1 = .err errUnsupportedGeometry := by decide +kernel
example : ¬ ClosedBoundary exOpen := by unfold ClosedBoundary; decide +kernel
-- the merge table is not total: equal dimension, different ids
example : (VertexAnchor.Curve 1).merge (.Curve 2) = none := by decide
example : (VertexAnchor.Curve 1).merge (.Node 2) = some (.Node 2) := by decide

end HC.C17
