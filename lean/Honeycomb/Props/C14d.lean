/-
  C14, fourth part — `UndefinedEdge` as an exact characterisation.

  C14.lean proves "Ok ⇒ both end points defined" (`C14_ok_implies_guards`) and the other error kinds as exact
  characterisations in the code's order.  The last kind, `UndefinedEdge`, needed the totality of the vertex-identifier BFS
  inside the kernel — now available from C03 (`C03_vertexId2_min`: on a well-formed map `vertex_id_transac` returns
  `cellId`, without panic).

  * `insertVertices_reads` / `insertVertex_reads` — once the earlier checks have passed, the kernels ARE: "no second end
    point ⇒ `UndefinedEdge`; else read the two values under the vertex identifiers of the two end points, `UndefinedEdge`
    if one is missing, else the editing part".
  * `NoUE` — the editing parts (link / unlink cores, chains, vertex ids, writes) never answer `UndefinedEdge` (their
    errors are `NonFreeBase`, `NonFreeImage`, `AlreadyFree`), by a compositional pass over the programs.
  * `C14_undefined_edge_iff`, `C14_undefined_edge_iff_single` — hence the outcome is `UndefinedEdge` exactly when the edge
    is not defined (`DefinedEdge`, `DefinedEdge1`: decidable conditions on the map), and then the map is unchanged.

  * `C14_no_second_end_single` — the case left out by `C14_undefined_edge_iff_single`: `insert_vertex_on_edge` on a dart
    with neither β1 nor β2 image reads the slot of the null dart's vertex identifier (`run_vertexId2_null`: identifier 0).
    `UndefinedEdge`, nothing written, iff the vertex of the dart or slot 0 is empty — always, unless a value was
    force-written at the null dart; with such a value the kernel never answers `UndefinedEdge`, and an `Ok` has linked the
    spare dart to the null dart (`β0(0) = nd1`, result not well formed; `example` on `exMapZ`).

  Hypotheses: `WF 3 m`, the vertex storage exists (`0 < m.a.size`), the edge dart is a non-null dart of the map, the
  earlier checks pass; `C14_undefined_edge_iff_single` is for an edge with a second end point (`β1 e ≠ 0 ∨ β2 e ≠ 0`),
  `C14_no_second_end_single` for the other darts: together no dart is excluded.
-/
import Honeycomb.Props.C14c

set_option linter.unusedSimpArgs false
set_option linter.unusedVariables false

namespace HC.C14
open HC HC.C03

/-! ## programs that never answer `UndefinedEdge` -/

/-- the program never fails with `UndefinedEdge` -/
def NoUE {α : Type} (p : P Val α) : Prop := ∀ m m' : Map Val, run p m ≠ (.err errUndefinedEdge, m')

theorem NoUE.pure {α : Type} (a : α) : NoUE (pure a : P Val α) := by
  intro m m' h
  simp at h

theorem NoUE.bind {α β : Type} {p : P Val α} {f : α → P Val β} (hp : NoUE p) (hf : ∀ a, NoUE (f a)) :
    NoUE (p.bind f) := by
  intro m m' h
  rw [run_bind] at h
  match hr : run p m with
  | (.ok a, m1) => rw [hr] at h; exact hf a m1 m' h
  | (.err e, m1) =>
      rw [hr] at h
      simp only [Prod.mk.injEq, Out.err.injEq] at h
      exact hp m m1 (by rw [hr, h.1])
  | (.retry, m1) => rw [hr] at h; simp at h
  | (.panic, m1) => rw [hr] at h; simp at h

theorem NoUE.rB (i d : Nat) : NoUE (rB i d : P Val Nat) := by
  intro m m' h
  rw [run_rB'] at h
  split at h <;> simp at h

theorem NoUE.wB (i d v : Nat) : NoUE (wB i d v : P Val Unit) := by
  intro m m' h
  rw [run_wB'] at h
  split at h <;> simp at h

theorem NoUE.rA (s d : Nat) : NoUE (rA s d : P Val (Option Val)) := by
  intro m m' h
  rw [run_rA'] at h
  split at h <;> simp at h

theorem NoUE.wA (s d : Nat) (v : Option Val) : NoUE (wA s d v : P Val Unit) := by
  intro m m' h
  rw [run_wA'] at h
  split at h <;> simp at h

theorem NoUE.abort {α : Type} {e : Err} (he : e ≠ errUndefinedEdge) : NoUE (HC.abort e : P Val α) := by
  intro m m' h
  have : run (HC.abort e : P Val α) m = (.err e, m) := rfl
  rw [this] at h
  simp only [Prod.mk.injEq, Out.err.injEq] at h
  exact he h.1

theorem NoUE.ite {α : Type} {c : Prop} [Decidable c] {p q : P Val α} (hp : NoUE p) (hq : NoUE q) :
    NoUE (if c then p else q) := by
  split
  · exact hp
  · exact hq

theorem noUE_whenP {c : Bool} {p : P Val Unit} (h : NoUE p) : NoUE (whenP c p) := by
  unfold whenP
  cases c
  · exact NoUE.pure ()
  · exact h

theorem noUE_oneLinkCore (l r : Nat) : NoUE (oneLinkCore (X := Val) l r) := by
  unfold oneLinkCore
  refine NoUE.bind (NoUE.rB _ _) fun _ => NoUE.ite (NoUE.abort (by simp [errNonFreeBase, errUndefinedEdge])) ?_
  refine NoUE.bind (NoUE.rB _ _) fun _ => NoUE.ite (NoUE.abort (by simp [errNonFreeImage, errUndefinedEdge])) ?_
  exact NoUE.bind (NoUE.wB _ _ _) fun _ => NoUE.wB _ _ _

theorem noUE_iLinkCore (i l r : Nat) : NoUE (iLinkCore (X := Val) i l r) := by
  unfold iLinkCore
  refine NoUE.bind (NoUE.rB _ _) fun _ => NoUE.ite (NoUE.abort (by simp [errNonFreeBase, errUndefinedEdge])) ?_
  refine NoUE.bind (NoUE.rB _ _) fun _ => NoUE.ite (NoUE.abort (by simp [errNonFreeImage, errUndefinedEdge])) ?_
  exact NoUE.bind (NoUE.wB _ _ _) fun _ => NoUE.wB _ _ _

theorem noUE_oneUnlinkCore (l : Nat) : NoUE (oneUnlinkCore (X := Val) l) := by
  unfold oneUnlinkCore
  refine NoUE.bind (NoUE.rB _ _) fun _ => NoUE.bind (NoUE.wB _ _ _) fun _ =>
    NoUE.ite (NoUE.abort (by simp [errAlreadyFree, errUndefinedEdge])) (NoUE.wB _ _ _)

theorem noUE_iUnlinkCore (i l : Nat) : NoUE (iUnlinkCore (X := Val) i l) := by
  unfold iUnlinkCore
  refine NoUE.bind (NoUE.rB _ _) fun _ => NoUE.bind (NoUE.wB _ _ _) fun _ =>
    NoUE.ite (NoUE.abort (by simp [errAlreadyFree, errUndefinedEdge])) (NoUE.wB _ _ _)

theorem noUE_bfs (gen : Nat → P Val (List Nat)) (hg : ∀ d, NoUE (gen d)) :
    ∀ fuel pending marked out, NoUE (bfs gen fuel pending marked out) := by
  intro fuel
  induction fuel with
  | zero => intro p mk o; exact NoUE.pure _
  | succ f ih =>
      intro p mk o
      cases p with
      | nil => exact NoUE.pure _
      | cons d rest =>
          unfold bfs
          exact NoUE.bind (hg d) (fun ims => ih _ _ _)

theorem noUE_vertexId2 (k d : Nat) : NoUE (vertexId2 (X := Val) k d) := by
  unfold vertexId2 orbitWith
  refine NoUE.bind (noUE_bfs _ (fun x => ?_) _ _ _ _) fun _ => NoUE.pure _
  unfold gen2
  exact NoUE.bind (NoUE.rB _ _) fun _ => NoUE.bind (NoUE.rB _ _) fun _ =>
    NoUE.bind (NoUE.rB _ _) fun _ => NoUE.bind (NoUE.rB _ _) fun _ => NoUE.pure _

theorem noUE_writeVtx (d : Nat) (v : Val) : NoUE (writeVtx d v) := by
  unfold writeVtx
  exact NoUE.bind (NoUE.rA _ _) fun _ => NoUE.bind (NoUE.wA _ _ _) fun _ => NoUE.pure _

theorem noUE_chainFirst : ∀ (l : List Nat) (prev : Nat), NoUE (chainFirst prev l) := by
  intro l
  induction l with
  | nil => intro prev; exact NoUE.pure _
  | cons nd rest ih =>
      intro prev
      unfold chainFirst
      exact NoUE.bind (noUE_oneLinkCore _ _) fun _ => ih nd

theorem noUE_chainSecond : ∀ (l : List (Nat × Nat)) (prev : Nat), NoUE (chainSecond prev l) := by
  intro l
  induction l with
  | nil => intro prev; exact NoUE.pure _
  | cons c rest ih =>
      intro prev
      obtain ⟨d, nd⟩ := c
      unfold chainSecond
      exact NoUE.bind (noUE_iLinkCore _ _ _) fun _ => NoUE.bind (noUE_oneLinkCore _ _) fun _ => ih nd

theorem noUE_placeVertices (k : Nat) (v1 v2 : Val) : ∀ (l : List (Rat × Nat)), NoUE (placeVertices k v1 v2 l) := by
  intro l
  induction l with
  | nil => exact NoUE.pure _
  | cons c rest ih =>
      obtain ⟨t, nd⟩ := c
      unfold placeVertices
      exact NoUE.bind (noUE_vertexId2 _ _) fun _ => NoUE.bind (noUE_writeVtx _ _) fun _ => ih

theorem noUE_side2 (base1 base2 : Nat) (fh sh : List Nat) : NoUE (insertVerticesSide2 base1 base2 fh sh) := by
  unfold insertVerticesSide2
  exact NoUE.bind (NoUE.rB _ _) fun _ => NoUE.bind (noUE_whenP (noUE_oneUnlinkCore _)) fun _ =>
    NoUE.bind (noUE_chainSecond _ _) fun _ => NoUE.bind (noUE_whenP (noUE_oneLinkCore _ _)) fun _ =>
      noUE_iLinkCore _ _ _

/-- **the editing part of `insert_vertices_on_edge` never answers `UndefinedEdge`** -/
theorem noUE_insertVerticesBody (k : Nat) (v1 v2 : Val) (base1 base2 b1 : Nat) (fh sh : List Nat) (ts : List Rat) :
    NoUE (insertVerticesBody k v1 v2 base1 base2 b1 fh sh ts) := by
  unfold insertVerticesBody
  exact NoUE.bind (noUE_whenP (noUE_oneUnlinkCore _)) fun _ => NoUE.bind (noUE_whenP (noUE_iUnlinkCore _ _)) fun _ =>
    NoUE.bind (noUE_chainFirst _ _) fun _ => NoUE.bind (noUE_whenP (noUE_oneLinkCore _ _)) fun _ =>
      NoUE.bind (noUE_whenP (noUE_side2 _ _ _ _)) fun _ => noUE_placeVertices _ _ _ _

theorem noUE_insertVertexBody1 (k : Nat) (v1 v2 : Val) (base1 b1 nd1 : Nat) (t : Option Rat) :
    NoUE (insertVertexBody1 k v1 v2 base1 b1 nd1 t) := by
  unfold insertVertexBody1
  exact NoUE.bind (noUE_whenP (noUE_oneUnlinkCore _)) fun _ => NoUE.bind (noUE_oneLinkCore _ _) fun _ =>
    NoUE.bind (noUE_oneLinkCore _ _) fun _ => NoUE.bind (noUE_vertexId2 _ _) fun _ =>
      NoUE.bind (noUE_writeVtx _ _) fun _ => NoUE.pure _

theorem noUE_insertVertexBody2 (k : Nat) (v1 v2 : Val) (base1 base2 b1 b2 nd1 nd2 : Nat) (t : Option Rat) :
    NoUE (insertVertexBody2 k v1 v2 base1 base2 b1 b2 nd1 nd2 t) := by
  unfold insertVertexBody2
  exact NoUE.bind (noUE_whenP (noUE_oneUnlinkCore _)) fun _ => NoUE.bind (noUE_whenP (noUE_oneUnlinkCore _)) fun _ =>
    NoUE.bind (noUE_iUnlinkCore _ _) fun _ => NoUE.bind (noUE_oneLinkCore _ _) fun _ =>
    NoUE.bind (noUE_whenP (noUE_oneLinkCore _ _)) fun _ => NoUE.bind (noUE_oneLinkCore _ _) fun _ =>
    NoUE.bind (noUE_whenP (noUE_oneLinkCore _ _)) fun _ => NoUE.bind (noUE_iLinkCore _ _ _) fun _ =>
    NoUE.bind (noUE_iLinkCore _ _ _) fun _ => NoUE.bind (noUE_vertexId2 _ _) fun _ =>
      NoUE.bind (noUE_writeVtx _ _) fun _ => NoUE.pure _

/-! ## what the kernels do once the guards have passed -/

/-- the second end point read by `insert_vertices_on_edge` -/
def tgtOf (m : Map Val) (e : Nat) : Nat := if m.β 1 e ≠ 0 then m.β 1 e else m.β 2 e

theorem insertVertices_reads (m : Map Val) (hwf : WF 3 m) (h0 : 0 < m.a.size) (e : Nat) (he0 : e ≠ 0) (he : e < m.n)
    (nds : List Nat) (ts : List Rat) (hlen : nds.length = 2 * ts.length)
    (hfree : ∀ d ∈ nds, d < m.n ∧ m.isFree 3 d = true)
    (h1 : 0 ∉ nds.take ts.length) (h2 : m.β 2 e ≠ 0 → 0 ∉ nds.drop ts.length) (ht : ∀ t ∈ ts, 0 < t ∧ t < 1) :
    run (insertVerticesOnEdge m.n e nds ts) m =
      if m.β 1 e = 0 ∧ m.β 2 e = 0 then (.err errUndefinedEdge, m)
      else run (withEnds (m.att 0 (cellId m .vertex e)) (m.att 0 (cellId m .vertex (tgtOf m e))) fun v1 v2 =>
        insertVerticesBody m.n v1 v2 e (m.β 2 e) (m.β 1 e) (nds.take ts.length) (nds.drop ts.length) ts) m := by
  have hs := hwf.toSized
  have hok : ∀ i, i < 3 → m.okβ i e = true := okβ_of_lt hs he
  unfold insertVerticesOnEdge
  simp only [Prog.bind_eq, bind]
  rw [if_neg (by simpa using hlen), run_bind, run_anyNotFreeTx m hs nds (fun d hd => (hfree d hd).1)]
  have : (nds.any fun d => !m.isFree 3 d) = false := by
    simp only [List.any_eq_false]; intro d hd; simp [(hfree d hd).2]
  simp only [this, Bool.false_eq_true, if_false, run_rB, hok 2 (by omega), hok 1 (by omega), if_true]
  rw [if_neg (by simp only [List.any_eq_true, decide_eq_true_eq]; rintro ⟨x, hx, rfl⟩; exact h1 hx)]
  rw [if_neg (by
    simp only [Bool.and_eq_true, decide_eq_true_eq, List.any_eq_true]
    rintro ⟨hb, x, hx, rfl⟩; exact h2 hb hx)]
  rw [if_neg (by
    simp only [List.any_eq_true, not_exists, not_and]
    intro t htm
    have := ht t htm
    unfold outOfUnit
    simp only [ge_iff_le, Bool.or_eq_true, decide_eq_true_eq, not_or, not_le]
    exact ⟨this.2, this.1⟩)]
  rw [run_rB, if_pos (hok 2 (by omega)), run_rB, if_pos (hok 1 (by omega)), run_bind, (C03_vertexId2_min hwf he0 he).1]
  simp only
  have hid1 := cellId_idem hwf (pol := .vertex) trivial he0 he
  have okA1 : m.okA 0 (cellId m .vertex e) = true := by
    unfold Map.okA
    have := hs.asz 0 h0
    simp only [h0, decide_true, Bool.true_and, decide_eq_true_eq]
    exact Nat.lt_of_lt_of_le hid1.2.1 this
  have fin : ∀ tgt, tgt ≠ 0 → tgt < m.n →
      run (Prog.bind (vertexId2 m.n tgt) fun vid2 =>
        Prog.bind (rA 0 (cellId m .vertex e)) fun v1 => Prog.bind (rA 0 vid2) fun v2 =>
          withEnds v1 v2 fun v1 v2 =>
            insertVerticesBody m.n v1 v2 e (m.β 2 e) (m.β 1 e) (nds.take ts.length) (nds.drop ts.length) ts) m =
      run (withEnds (m.att 0 (cellId m .vertex e)) (m.att 0 (cellId m .vertex tgt)) fun v1 v2 =>
        insertVerticesBody m.n v1 v2 e (m.β 2 e) (m.β 1 e) (nds.take ts.length) (nds.drop ts.length) ts) m := by
    intro tgt t0 tlt
    have hid2 := cellId_idem hwf (pol := .vertex) trivial t0 tlt
    have okA2 : m.okA 0 (cellId m .vertex tgt) = true := by
      unfold Map.okA
      have := hs.asz 0 h0
      simp only [h0, decide_true, Bool.true_and, decide_eq_true_eq]
      exact Nat.lt_of_lt_of_le hid2.2.1 this
    rw [run_bind, (C03_vertexId2_min hwf t0 tlt).1]
    simp only
    rw [run_rA, if_pos okA1, run_rA, if_pos okA2]
  unfold secondEnd tgtOf
  by_cases hb1 : m.β 1 e ≠ 0
  · rw [if_pos hb1, if_neg (fun hh => hb1 hh.1), if_pos hb1]
    simp only [Prog.pure_eq, Prog.ret_bind]
    exact fin _ hb1 (hwf.range 1 (by omega) e he)
  · rw [if_neg hb1, if_neg hb1]
    by_cases hb2 : m.β 2 e ≠ 0
    · rw [if_pos hb2, if_neg (fun hh => hb2 hh.2)]
      simp only [Prog.pure_eq, Prog.ret_bind]
      exact fin _ hb2 (hwf.range 2 (by omega) e he)
    · rw [if_neg hb2, if_pos ⟨by simpa using hb1, by simpa using hb2⟩]
      rfl

/-- both end points of the edge of `e` exist and carry a value (what `insert_vertices_on_edge` reads) -/
def DefinedEdge (m : Map Val) (e : Nat) : Prop :=
  (m.β 1 e ≠ 0 ∨ m.β 2 e ≠ 0) ∧ (m.att 0 (cellId m .vertex e)).isSome = true ∧
    (m.att 0 (cellId m .vertex (tgtOf m e))).isSome = true

instance (m : Map Val) (e : Nat) : Decidable (DefinedEdge m e) := by unfold DefinedEdge; exact inferInstance

theorem withEnds_some {α : Type} {a b : Option Val} {k : Val → Val → P Val α} (ha : a.isSome = true)
    (hb : b.isSome = true) : ∃ v1 v2, a = some v1 ∧ b = some v2 ∧ withEnds a b k = k v1 v2 := by
  cases a with
  | none => simp at ha
  | some v1 =>
    cases b with
    | none => simp at hb
    | some v2 => exact ⟨v1, v2, rfl, rfl, rfl⟩

theorem withEnds_none {α : Type} {a b : Option Val} {k : Val → Val → P Val α} (h : ¬ (a.isSome = true ∧ b.isSome = true))
    (m : Map Val) : run (withEnds a b k) m = (.err errUndefinedEdge, m) := by
  cases a with
  | none => rfl
  | some v1 =>
    cases b with
    | none => rfl
    | some v2 => exact absurd ⟨rfl, rfl⟩ h

/-- **C14, `UndefinedEdge` exactly (`insert_vertices_on_edge`)**: on a well-formed map with a vertex storage, for an
    existing non-null edge dart, when every earlier check passes (count, free spare darts, non-null halves, positions in
    `]0,1[`), the call answers `UndefinedEdge` — whatever the final state — exactly when the edge is not defined: the dart
    has neither a β1 nor a β2 image (no second end point), or one of the two end points has no value under its vertex
    identifier.  In that case nothing is written; otherwise the call runs its editing part with the two values read. -/
theorem C14_undefined_edge_iff (m : Map Val) (hwf : WF 3 m) (h0 : 0 < m.a.size) (e : Nat) (he0 : e ≠ 0) (he : e < m.n)
    (nds : List Nat) (ts : List Rat) (hlen : nds.length = 2 * ts.length)
    (hfree : ∀ d ∈ nds, d < m.n ∧ m.isFree 3 d = true)
    (h1 : 0 ∉ nds.take ts.length) (h2 : m.β 2 e ≠ 0 → 0 ∉ nds.drop ts.length) (ht : ∀ t ∈ ts, 0 < t ∧ t < 1) :
    ((run (insertVerticesOnEdge m.n e nds ts) m).1 = .err errUndefinedEdge ↔ ¬ DefinedEdge m e) ∧
    (¬ DefinedEdge m e → run (insertVerticesOnEdge m.n e nds ts) m = (.err errUndefinedEdge, m)) ∧
    (DefinedEdge m e → ∃ v1 v2, m.att 0 (cellId m .vertex e) = some v1 ∧
      m.att 0 (cellId m .vertex (tgtOf m e)) = some v2 ∧
      run (insertVerticesOnEdge m.n e nds ts) m =
        run (insertVerticesBody m.n v1 v2 e (m.β 2 e) (m.β 1 e) (nds.take ts.length) (nds.drop ts.length) ts) m) := by
  have hr := insertVertices_reads m hwf h0 e he0 he nds ts hlen hfree h1 h2 ht
  have hund : ¬ DefinedEdge m e → run (insertVerticesOnEdge m.n e nds ts) m = (.err errUndefinedEdge, m) := by
    intro hnd
    rw [hr]
    by_cases hb : m.β 1 e = 0 ∧ m.β 2 e = 0
    · rw [if_pos hb]
    · rw [if_neg hb]
      apply withEnds_none
      intro hh
      apply hnd
      refine ⟨?_, hh.1, hh.2⟩
      by_cases c : m.β 1 e = 0
      · exact Or.inr fun c2 => hb ⟨c, c2⟩
      · exact Or.inl c
  have hdef : DefinedEdge m e → ∃ v1 v2, m.att 0 (cellId m .vertex e) = some v1 ∧
      m.att 0 (cellId m .vertex (tgtOf m e)) = some v2 ∧
      run (insertVerticesOnEdge m.n e nds ts) m =
        run (insertVerticesBody m.n v1 v2 e (m.β 2 e) (m.β 1 e) (nds.take ts.length) (nds.drop ts.length) ts) m := by
    intro ⟨hb, ha, hc⟩
    obtain ⟨v1, v2, e1, e2, e3⟩ := withEnds_some (k := fun v1 v2 =>
      insertVerticesBody m.n v1 v2 e (m.β 2 e) (m.β 1 e) (nds.take ts.length) (nds.drop ts.length) ts) ha hc
    refine ⟨v1, v2, e1, e2, ?_⟩
    rw [hr, if_neg (fun hh => by rcases hb with c | c; exact c hh.1; exact c hh.2), e3]
  refine ⟨⟨fun h => ?_, fun h => by rw [hund h]⟩, hund, hdef⟩
  intro hd
  obtain ⟨v1, v2, _, _, e3⟩ := hdef hd
  rw [e3] at h
  exact noUE_insertVerticesBody _ _ _ _ _ _ _ _ _ m _ (Prod.ext h rfl)

/-! ## the single insertion -/

/-- the second end point read by `insert_vertex_on_edge` -/
def tgtOf1 (m : Map Val) (e : Nat) : Nat := if m.β 2 e = 0 then m.β 1 e else m.β 2 e

theorem insertVertex_reads (m : Map Val) (hwf : WF 3 m) (h0 : 0 < m.a.size) (e : Nat) (he0 : e ≠ 0) (he : e < m.n)
    (nd1 nd2 : Nat) (t : Option Rat) (ht : optOutOfUnit t = false)
    (hn1 : nd1 ≠ 0 ∧ nd1 < m.n ∧ m.isFree 3 nd1 = true)
    (hn2 : m.β 2 e ≠ 0 → nd2 ≠ 0 ∧ nd2 < m.n ∧ m.isFree 3 nd2 = true)
    (hend : m.β 1 e ≠ 0 ∨ m.β 2 e ≠ 0) :
    run (insertVertexOnEdge m.n e nd1 nd2 t) m =
      run (withEnds (m.att 0 (cellId m .vertex e)) (m.att 0 (cellId m .vertex (tgtOf1 m e))) fun v1 v2 =>
        if m.β 2 e = 0 then insertVertexBody1 m.n v1 v2 e (m.β 1 e) nd1 t
        else insertVertexBody2 m.n v1 v2 e (m.β 2 e) (m.β 1 e) (m.β 1 (m.β 2 e)) nd1 nd2 t) m := by
  have hs := hwf.toSized
  have hok : ∀ i, i < 3 → m.okβ i e = true := okβ_of_lt hs he
  unfold insertVertexOnEdge
  simp only [Prog.bind_eq, bind]
  rw [if_neg (by simp [ht])]
  simp only [run_rB, hok 2 (by omega), if_true]
  have nf : ∀ d, d ≠ 0 → d < m.n → m.isFree 3 d = true → run (nullOrNotFreeTx d) m = (.ok false, m) := by
    intro d d0 dlt df
    unfold nullOrNotFreeTx
    simp only [d0, if_false, Prog.bind_eq, bind]
    rw [run_bind, run_isFreeTx m d (okβ_of_lt hs dlt)]; simp [df]
  rw [run_bind, nf nd1 hn1.1 hn1.2.1 hn1.2.2]
  simp only [Bool.false_eq_true, if_false]
  have hid1 := cellId_idem hwf (pol := .vertex) trivial he0 he
  have okA1 : m.okA 0 (cellId m .vertex e) = true := by
    unfold Map.okA
    have := hs.asz 0 h0
    simp only [h0, decide_true, Bool.true_and, decide_eq_true_eq]
    exact Nat.lt_of_lt_of_le hid1.2.1 this
  have okA2 : ∀ tgt, tgt ≠ 0 → tgt < m.n → m.okA 0 (cellId m .vertex tgt) = true := by
    intro tgt t0 tlt
    have hid2 := cellId_idem hwf (pol := .vertex) trivial t0 tlt
    unfold Map.okA
    have := hs.asz 0 h0
    simp only [h0, decide_true, Bool.true_and, decide_eq_true_eq]
    exact Nat.lt_of_lt_of_le hid2.2.1 this
  unfold tgtOf1
  by_cases hb2 : m.β 2 e = 0
  · have hb1 : m.β 1 e ≠ 0 := by
      rcases hend with c | c
      · exact c
      · exact absurd hb2 c
    have hlt := hwf.range 1 (by omega) e he
    rw [if_neg (by simpa using hb2)]
    simp only [Prog.pure_eq, Prog.ret_bind, Bool.false_eq_true, if_false]
    rw [run_rB, if_pos (hok 2 (by omega)), if_pos hb2, run_rB, if_pos (hok 1 (by omega)), run_bind,
      (C03_vertexId2_min hwf he0 he).1]
    simp only
    rw [run_bind, (C03_vertexId2_min hwf hb1 hlt).1]
    simp only
    rw [run_rA, if_pos okA1, run_rA, if_pos (okA2 _ hb1 hlt), if_pos hb2]
    simp only [hb2, if_true]
  · have hlt := hwf.range 2 (by omega) e he
    obtain ⟨c1, c2, c3⟩ := hn2 hb2
    rw [if_pos hb2, run_bind, nf nd2 c1 c2 c3]
    simp only [Bool.false_eq_true, if_false]
    rw [run_rB, if_pos (hok 2 (by omega)), if_neg hb2, run_rB, if_pos (hok 1 (by omega)), run_rB,
      if_pos (okβ_of_lt hs hlt 1 (by omega)), run_bind, (C03_vertexId2_min hwf he0 he).1]
    simp only
    rw [run_bind, (C03_vertexId2_min hwf hb2 hlt).1]
    simp only
    rw [run_rA, if_pos okA1, run_rA, if_pos (okA2 _ hb2 hlt), if_neg hb2]
    simp only [hb2, if_false]

/-- both end points of the edge of `e` carry a value (what `insert_vertex_on_edge` reads) -/
def DefinedEdge1 (m : Map Val) (e : Nat) : Prop :=
  (m.att 0 (cellId m .vertex e)).isSome = true ∧ (m.att 0 (cellId m .vertex (tgtOf1 m e))).isSome = true

instance (m : Map Val) (e : Nat) : Decidable (DefinedEdge1 m e) := by unfold DefinedEdge1; exact inferInstance

/-- **C14, `UndefinedEdge` exactly (`insert_vertex_on_edge`)**, for an edge with a second end point (`β1 e ≠ 0` or
    `β2 e ≠ 0`): when the earlier checks pass (position, spare darts), the call answers `UndefinedEdge` exactly when one of
    the two end points has no value under its vertex identifier; then nothing is written -/
theorem C14_undefined_edge_iff_single (m : Map Val) (hwf : WF 3 m) (h0 : 0 < m.a.size) (e : Nat) (he0 : e ≠ 0)
    (he : e < m.n) (nd1 nd2 : Nat) (t : Option Rat) (ht : optOutOfUnit t = false)
    (hn1 : nd1 ≠ 0 ∧ nd1 < m.n ∧ m.isFree 3 nd1 = true)
    (hn2 : m.β 2 e ≠ 0 → nd2 ≠ 0 ∧ nd2 < m.n ∧ m.isFree 3 nd2 = true)
    (hend : m.β 1 e ≠ 0 ∨ m.β 2 e ≠ 0) :
    ((run (insertVertexOnEdge m.n e nd1 nd2 t) m).1 = .err errUndefinedEdge ↔ ¬ DefinedEdge1 m e) ∧
    (¬ DefinedEdge1 m e → run (insertVertexOnEdge m.n e nd1 nd2 t) m = (.err errUndefinedEdge, m)) := by
  have hr := insertVertex_reads m hwf h0 e he0 he nd1 nd2 t ht hn1 hn2 hend
  have hund : ¬ DefinedEdge1 m e → run (insertVertexOnEdge m.n e nd1 nd2 t) m = (.err errUndefinedEdge, m) := by
    intro hnd
    rw [hr]
    exact withEnds_none (fun hh => hnd ⟨hh.1, hh.2⟩) m
  refine ⟨⟨fun h => ?_, fun h => by rw [hund h]⟩, hund⟩
  intro ⟨ha, hc⟩
  obtain ⟨v1, v2, _, _, e3⟩ := withEnds_some (k := fun v1 v2 =>
    if m.β 2 e = 0 then insertVertexBody1 m.n v1 v2 e (m.β 1 e) nd1 t
    else insertVertexBody2 m.n v1 v2 e (m.β 2 e) (m.β 1 e) (m.β 1 (m.β 2 e)) nd1 nd2 t) ha hc
  rw [hr, e3] at h
  exact NoUE.ite (noUE_insertVertexBody1 _ _ _ _ _ _ _) (noUE_insertVertexBody2 _ _ _ _ _ _ _ _ _ _) m _
    (Prod.ext h rfl)

/-! ## the single insertion on a dart WITHOUT second end point -/

/-- `vertex_id_transac(NULL_DART_ID)` on a well-formed map: the orbit of the null dart is the null dart, its identifier 0 -/
theorem run_vertexId2_null (m : Map Val) (hwf : WF 3 m) : run (vertexId2 m.n 0) m = (.ok 0, m) := by
  have hs := hwf.toSized
  have hok : ∀ i, i < 3 → m.okβ i 0 = true := okβ_of_lt hs hs.npos
  have hn : ∀ i, i < 3 → m.β i 0 = 0 := fun i hi => hwf.null i hi
  have hg : run (gen2 (X := Val) .vertex 0) m = (.ok [0, 0], m) := by
    unfold gen2
    simp only [Prog.bind_eq, bind, run_rB, hok 2 (by omega), hok 1 (by omega), hok 0 (by omega), if_true,
      hn 2 (by omega), hn 1 (by omega), hn 0 (by omega)]
    rfl
  have hb : run (bfs (gen2 (X := Val) .vertex) (m.n + 1) [0] [0, 0] []) m = (.ok [0], m) := by
    unfold bfs
    simp only [Prog.bind_eq, bind]
    rw [run_bind, hg]
    simp only [List.foldl, bfsCheck, List.contains_cons, beq_self_eq_true, Bool.true_or, if_true, List.nil_append]
    cases m.n <;> simp [bfs]
  unfold vertexId2 orbitWith
  simp only [Prog.bind_eq, bind]
  rw [run_bind, hb]
  rfl

/-- on a dart with neither β1 nor β2 image the kernel takes the one-dart branch with `b1d1_old = NULL`: the second "end
    point" it reads is the slot of the null dart's vertex identifier, slot 0 -/
theorem insertVertex_reads_null (m : Map Val) (hwf : WF 3 m) (h0 : 0 < m.a.size) (e : Nat) (he0 : e ≠ 0) (he : e < m.n)
    (nd1 nd2 : Nat) (t : Option Rat) (ht : optOutOfUnit t = false)
    (hn1 : nd1 ≠ 0 ∧ nd1 < m.n ∧ m.isFree 3 nd1 = true) (hb1 : m.β 1 e = 0) (hb2 : m.β 2 e = 0) :
    run (insertVertexOnEdge m.n e nd1 nd2 t) m =
      run (withEnds (m.att 0 (cellId m .vertex e)) (m.att 0 0) fun v1 v2 =>
        insertVertexBody1 m.n v1 v2 e 0 nd1 t) m := by
  have hs := hwf.toSized
  have hok : ∀ i, i < 3 → m.okβ i e = true := okβ_of_lt hs he
  unfold insertVertexOnEdge
  simp only [Prog.bind_eq, bind]
  rw [if_neg (by simp [ht])]
  simp only [run_rB, hok 2 (by omega), if_true]
  have nf : ∀ d, d ≠ 0 → d < m.n → m.isFree 3 d = true → run (nullOrNotFreeTx d) m = (.ok false, m) := by
    intro d d0 dlt df
    unfold nullOrNotFreeTx
    simp only [d0, if_false, Prog.bind_eq, bind]
    rw [run_bind, run_isFreeTx m d (okβ_of_lt hs dlt)]; simp [df]
  rw [run_bind, nf nd1 hn1.1 hn1.2.1 hn1.2.2]
  simp only [Bool.false_eq_true, if_false]
  have hid1 := cellId_idem hwf (pol := .vertex) trivial he0 he
  have okA1 : m.okA 0 (cellId m .vertex e) = true := by
    unfold Map.okA
    have := hs.asz 0 h0
    simp only [h0, decide_true, Bool.true_and, decide_eq_true_eq]
    exact Nat.lt_of_lt_of_le hid1.2.1 this
  have okA0 : m.okA 0 0 = true := by
    unfold Map.okA
    have := hs.asz 0 h0
    simp only [h0, decide_true, Bool.true_and, decide_eq_true_eq]
    exact Nat.lt_of_lt_of_le hs.npos this
  rw [if_neg (by simpa using hb2)]
  simp only [Prog.pure_eq, Prog.ret_bind, Bool.false_eq_true, if_false]
  rw [run_rB, if_pos (hok 2 (by omega)), if_pos hb2, run_rB, if_pos (hok 1 (by omega)), run_bind,
    (C03_vertexId2_min hwf he0 he).1]
  simp only
  rw [hb1, run_bind, run_vertexId2_null m hwf]
  simp only
  rw [run_rA, if_pos okA1, run_rA, if_pos okA0]

/-- **C14, `insert_vertex_on_edge` on a dart without second end point** (`β1 e = 0 ∧ β2 e = 0`; the case left out of
    `C14_undefined_edge_iff_single`), on a well-formed map, earlier checks passed.  The kernel reads the vertex of `e` and
    the slot of the null dart's vertex identifier (slot 0):
    * it answers `UndefinedEdge`, nothing written, exactly when one of the two is empty — in particular whenever no value
      is stored at the null dart, which is the case of every map that was not force-written at slot 0;
    * otherwise (a value IS stored at slot 0) it never answers `UndefinedEdge`, and if it answers `Ok` it has executed
      `link::<1>(nd1, NULL)`: the null dart has the β0 image `nd1` and the result is NOT well formed.  (This needs a map
      with a vertex value at the null dart; `C14_insertVertex_preserves_WF` excludes the shape by its hypothesis.) -/
theorem C14_no_second_end_single (m : Map Val) (hwf : WF 3 m) (h0 : 0 < m.a.size) (e : Nat) (he0 : e ≠ 0) (he : e < m.n)
    (nd1 nd2 : Nat) (t : Option Rat) (ht : optOutOfUnit t = false)
    (hn1 : nd1 ≠ 0 ∧ nd1 < m.n ∧ m.isFree 3 nd1 = true) (hb1 : m.β 1 e = 0) (hb2 : m.β 2 e = 0) :
    ((run (insertVertexOnEdge m.n e nd1 nd2 t) m).1 = .err errUndefinedEdge ↔
      ¬ ((m.att 0 (cellId m .vertex e)).isSome = true ∧ (m.att 0 0).isSome = true)) ∧
    (¬ ((m.att 0 (cellId m .vertex e)).isSome = true ∧ (m.att 0 0).isSome = true) →
      run (insertVertexOnEdge m.n e nd1 nd2 t) m = (.err errUndefinedEdge, m)) ∧
    (m.att 0 0 = none → run (insertVertexOnEdge m.n e nd1 nd2 t) m = (.err errUndefinedEdge, m)) ∧
    (∀ m', run (insertVertexOnEdge m.n e nd1 nd2 t) m = (.ok (), m') → m'.β 0 0 = nd1 ∧ ¬ WF 3 m') := by
  have hr := insertVertex_reads_null m hwf h0 e he0 he nd1 nd2 t ht hn1 hb1 hb2
  have hs := hwf.toSized
  have hund : ¬ ((m.att 0 (cellId m .vertex e)).isSome = true ∧ (m.att 0 0).isSome = true) →
      run (insertVertexOnEdge m.n e nd1 nd2 t) m = (.err errUndefinedEdge, m) := by
    intro hnd
    rw [hr]
    exact withEnds_none hnd m
  refine ⟨⟨fun h => ?_, fun h => by rw [hund h]⟩, hund, fun hz => hund (fun hh => by rw [hz] at hh; simp at hh), ?_⟩
  · intro ⟨ha, hc⟩
    obtain ⟨v1, v2, _, _, e3⟩ := withEnds_some (k := fun v1 v2 => insertVertexBody1 m.n v1 v2 e 0 nd1 t) ha hc
    rw [hr, e3] at h
    exact noUE_insertVertexBody1 _ _ _ _ _ _ _ m _ (Prod.ext h rfl)
  · intro m' hok
    rw [hr] at hok
    obtain ⟨v1, v2, _, _, hbody⟩ := withEnds_ok hok
    unfold insertVertexBody1 at hbody
    simp only [Prog.bind_eq, bind] at hbody
    obtain ⟨_, ma, ha, hbody⟩ := run_bind_ok hbody
    have hma : ma = m := by
      simp only [whenP, ne_eq, not_true_eq_false, decide_false, Bool.false_eq_true, if_false] at ha
      simp at ha
      exact ha.symm
    rw [hma] at hbody
    obtain ⟨_, m1, hl1, hbody⟩ := run_bind_ok hbody
    obtain ⟨_, _, _, _, hm1⟩ := oneLinkCore_ok hl1
    obtain ⟨_, m2, hl2, hbody⟩ := run_bind_ok hbody
    obtain ⟨_, _, _, _, hm2⟩ := oneLinkCore_ok hl2
    obtain ⟨vnew, hv, hbody⟩ := ro_bind_ok (readOnly_vertexId2 m.n nd1) hbody
    obtain ⟨_, m3, hw, hbody⟩ := run_bind_ok hbody
    simp at hbody
    have st := attrOnly_writeVtx vnew (placeVal v1 v2 t) m2
    rw [hw] at st
    have s1 : Sized 3 m1 := by rw [hm1]; exact (hs.setβ _ _ _).setβ _ _ _
    have s1' : Sized 3 (m1.setβ 1 nd1 0) := s1.setβ _ _ _
    have hn1' : m1.n = m.n := by rw [hm1]; rfl
    have hβ : m'.β 0 0 = nd1 := by
      rw [← hbody, st.β, hm2, s1'.β_setβ (by omega) (by simp only [Map.n_setβ]; rw [hn1']; exact hs.npos)]
      simp
    exact ⟨hβ, fun hwf' => hn1.1 (by rw [← hβ]; exact hwf'.null 0 (by omega))⟩

/-! ## non-vacuity -/

/-- `exMap` with the vertex {2, 4} undefined -/
def exMapU : Map Val :=
  { exMap with
    a := #[#[none, some (.pt 0 0 0), none, some (.pt 0 4 0), none, none, none],
           Array.replicate 8 none, Array.replicate 8 none, Array.replicate 8 none,
           Array.replicate 8 none, Array.replicate 8 none] }

/-- the edge 1 → 2 of `exMapU` has an undefined end point: `UndefinedEdge`, map unchanged -/
example : run (insertVerticesOnEdge exMapU.n 1 [5, 6] [1/4]) exMapU = (.err errUndefinedEdge, exMapU) :=
  (C14_undefined_edge_iff exMapU (by decide +kernel) (by decide) 1 (by decide) (by decide) [5, 6] [1/4] (by decide)
    (by decide +kernel) (by decide) (by decide +kernel) (by decide +kernel)).2.1 (by decide +kernel)

/-- a dart with neither successor nor opposite (dart 5, free): no second end point -/
example : run (insertVerticesOnEdge exMap.n 5 [] []) exMap = (.err errUndefinedEdge, exMap) :=
  (C14_undefined_edge_iff exMap (by decide +kernel) (by decide) 5 (by decide) (by decide) [] [] (by decide)
    (by decide) (by decide) (by decide) (by decide)).2.1 (by decide +kernel)

/-- the edge 3 → 1 of `exMapU` is defined: the call is not refused with `UndefinedEdge` -/
example : (run (insertVerticesOnEdge exMapU.n 3 [5, 6] [1/4]) exMapU).1 ≠ .err errUndefinedEdge := by
  have h := (C14_undefined_edge_iff exMapU (by decide +kernel) (by decide) 3 (by decide) (by decide) [5, 6] [1/4]
    (by decide) (by decide +kernel) (by decide) (by decide +kernel) (by decide +kernel)).1
  intro hh
  exact h.1 hh (by decide +kernel)

example : run (insertVertexOnEdge exMapU.n 1 5 6 none) exMapU = (.err errUndefinedEdge, exMapU) :=
  (C14_undefined_edge_iff_single exMapU (by decide +kernel) (by decide) 1 (by decide) (by decide) 5 6 none rfl
    (by decide +kernel) (by decide +kernel) (by decide +kernel)).2 (by decide +kernel)

example : DefinedEdge1 exMap 1 ∧ (run (insertVertexOnEdge exMap.n 1 5 6 none) exMap).1 = .ok () := by decide +kernel

/-- dart 5 of `exMap` has no second end point; no value at the null dart: `UndefinedEdge`, nothing written -/
example : run (insertVertexOnEdge exMap.n 5 6 0 none) exMap = (.err errUndefinedEdge, exMap) :=
  (C14_no_second_end_single exMap (by decide +kernel) (by decide) 5 (by decide) (by decide) 6 0 none rfl
    (by decide +kernel) (by decide +kernel) (by decide +kernel)).2.2.1 (by decide +kernel)

/-- `exMap` with a vertex at dart 5 and a value force-written at the null dart -/
def exMapZ : Map Val :=
  { exMap with
    a := #[#[some (.pt 8 8 0), some (.pt 0 0 0), some (.pt 4 0 0), some (.pt 0 4 0), none, some (.pt 2 2 0), none],
           Array.replicate 8 none, Array.replicate 8 none, Array.replicate 8 none,
           Array.replicate 8 none, Array.replicate 8 none] }

/-- then the kernel answers `Ok`, having linked the spare dart to the null dart: `β0(0) = 6`, not well formed -/
example : (run (insertVertexOnEdge exMapZ.n 5 6 0 none) exMapZ).1 = .ok () ∧
    (run (insertVertexOnEdge exMapZ.n 5 6 0 none) exMapZ).2.β 0 0 = 6 := by decide +kernel

example : ¬ WF 3 (run (insertVertexOnEdge exMapZ.n 5 6 0 none) exMapZ).2 :=
  ((C14_no_second_end_single exMapZ (by decide +kernel) (by decide) 5 (by decide) (by decide) 6 0 none rfl
    (by decide +kernel) (by decide +kernel) (by decide +kernel)).2.2.2 _ (ok_of_fst (by decide +kernel))).2

end HC.C14
