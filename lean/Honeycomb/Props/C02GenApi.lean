/-
  C02 / C05 — the PUBLIC (un)link / (un)sew API of `CMap3`, end to end on translated code.
  `Gen/Dispatch3.lean` (tools/gen_lean.py `dispatch3`) holds, for `link::<I>`, `unlink::<I>`, `sew::<I>`,
  `unsew::<I>` and their `force_` forms, the two assertions on `I` and the internal function each arm finally runs
  (plain wrappers followed).  `apiFn` maps every function code to the INTERPRETATION OF ITS TRANSLATED BODY
  (Gen/LinkCores, Gen/Links3, Gen/Links3Loops, Gen/Sews3, Gen/Sews3Loops); `apiCall` dispatches through the
  translated table.  `C02_gen_api` proves that the transactional closure `C02.prog` — the function the history
  theorems of C02 (`C02_history_preserves_WF_and_Mirror`) and the per-call theorems of C05 are about — IS that:
  for every `I` (the out-of-range ones included: a panic), every call of the 3-D API runs the translated code.
  What stays hand-written below this line: the traversals behind `vertex_id_transac` / `edge_id_transac` /
  `orbit_transac` (their image tables are translated, Props/C03Gen.lean) and `merge_attributes` /
  `split_attributes` (a loop over the registered storages; `AttrSparseVec::merge/split` is translated,
  Props/C04Gen.lean).
-/
import Honeycomb.Gen.Dispatch3
import Honeycomb.Props.C01Gen
import Honeycomb.Props.C02Gen
import Honeycomb.Props.C02Gen3
import Honeycomb.Props.C05Gen
import Honeycomb.Props.C05Gen3

namespace HC.GenTie
open HC HC.C02
variable {X : Type}

/-- the translated body of the internal function with the given code, run on `(l, r)` (`r` unused by the
    one-argument functions) -/
def apiFn (cfg : Cfg X) (n : Nat) (l r : Nat) : Nat → Option (P X Unit)
  | 1 => some (interpCore l r 0 Gen.twoLinkCore)
  | 4 => some (interpCore l 0 0 Gen.twoUnlinkCore)
  | 10 => some (interpLink l r 16 [] Gen.oneLink3)
  | 11 => some (interpLink l 0 16 [] Gen.oneUnlink3)
  | 12 => some ((interpL n l r 32 [] 0 0 Gen.threeLink3).bind (fun _ => Prog.ret ()))
  | 13 => some ((interpL n l 0 32 [] 0 0 Gen.threeUnlink3).bind (fun _ => Prog.ret ()))
  | 20 => some (interpSew3 cfg n l r 16 [] Gen.oneSew3)
  | 21 => some (interpSew3 cfg n l 0 16 [] Gen.oneUnsew3)
  | 22 => some (interpSew3 cfg n l r 64 [] Gen.twoSew3)
  | 23 => some (interpSew3 cfg n l 0 64 [] Gen.twoUnsew3)
  | 24 => some (interpS3cSkel cfg n l r Gen.threeSewBodies 32 [] [] ([], []) Gen.threeSewSkel)
  | 25 => some (interpS3cSkel cfg n l 0 Gen.threeUnsewBodies 16 [] [] ([], []) Gen.threeUnsewSkel)
  | _ => none

/-- a public call as translated: `assert!(I < bound); assert_ne!(I, excluded); match I { … }` -/
def apiCall (cfg : Cfg X) (n : Nat) (t : Nat × Nat × List (Nat × Nat)) (i l r : Nat) : P X Unit :=
  if i < t.1 ∧ i ≠ t.2.1 then
    match t.2.2.lookup i with
    | some c => (apiFn cfg n l r c).getD Prog.panic
    | none => Prog.panic       -- `_ => unreachable!()`
  else Prog.panic

/-- **the 3-D API runs the translated code** (transactional forms) -/
theorem C02_gen_api (cfg : Cfg X) (n i l r : Nat) :
    prog cfg n (.link i l r) = apiCall cfg n Gen.Dispatch3.link3 i l r ∧
    prog cfg n (.unlink i l) = apiCall cfg n Gen.Dispatch3.unlink3 i l 0 ∧
    prog cfg n (.sew i l r) = apiCall cfg n Gen.Dispatch3.sew3 i l r ∧
    prog cfg n (.unsew i l) = apiCall cfg n Gen.Dispatch3.unsew3 i l 0 := by
  have h4 : ∀ k : Nat, (k + 4 < 4) = False := fun k => by simp
  refine ⟨?_, ?_, ?_, ?_⟩ <;>
  · match i with
    | 0 => rfl
    | 1 => first
      | exact (C02_gen_oneLink3 l r).symm
      | exact (C02_gen_oneUnlink3 l).symm
      | exact (C05_gen_oneSew3 cfg n l r).symm
      | exact (C05_gen_oneUnsew3 cfg n l).symm
    | 2 => first
      | exact (C01_gen_twoLinkCore l r).symm
      | exact (C01_gen_twoUnlinkCore l).symm
      | exact (C05_gen_twoSew3 cfg n l r).symm
      | exact (C05_gen_twoUnsew3 cfg n l).symm
    | 3 => first
      | exact (C02_gen_threeLink3 n l r).symm
      | exact (C02_gen_threeUnlink3 n l).symm
      | exact (C05_gen_threeSew3 cfg n l r).symm
      | exact (C05_gen_threeUnsew3 cfg n l).symm
    | k + 4 =>
      simp only [apiCall, Gen.Dispatch3.link3, Gen.Dispatch3.unlink3, Gen.Dispatch3.sew3, Gen.Dispatch3.unsew3, h4,
        false_and, if_false]
      rfl

/-- the `force_` forms run the same internal function as the transactional forms (inside one
    `atomically_with_err`, checked by the translator): the tables coincide -/
theorem C02_gen_force_tables :
    Gen.Dispatch3.forceLink3 = Gen.Dispatch3.link3 ∧ Gen.Dispatch3.forceUnlink3 = Gen.Dispatch3.unlink3 ∧
    Gen.Dispatch3.forceSew3 = Gen.Dispatch3.sew3 ∧ Gen.Dispatch3.forceUnsew3 = Gen.Dispatch3.unsew3 := by decide

/-- **C02 on the translated API**: one public transactional call of the 3-D API, run as translated, on a
    well-formed (mirrored) 3-map with admissible arguments leaves a well-formed (mirrored) map — the one-step
    theorem of C02 with `prog` replaced by the translated dispatch -/
theorem C02_gen_api_step_preserves_WF (cfg : Cfg X) {m : Map X} (h : WF 4 m) (i l r : Nat)
    (ha : ArgsOK m (.sew i l r)) :
    WF 4 (atomically (apiCall cfg m.n Gen.Dispatch3.sew3 i l r) m).2 := by
  rw [← (C02_gen_api cfg m.n i l r).2.2.1]
  exact C02_step_preserves_WF cfg m (.sew i l r) h ha

end HC.GenTie
