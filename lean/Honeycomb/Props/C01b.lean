/-
  C01, "whether they succeed or fail" INSIDE a user transaction.

  `atomically` discards everything a failing call wrote (C01_failed_call_changes_nothing).  But a
  user transaction may handle the refusal of one of its calls itself — swallow the
  `Err(TransactionError::Abort(e))` instead of propagating it with `?` — and still commit.  What
  the refused call wrote BEFORE aborting then stays in the log and is published (`Prog.attempt`,
  Model/Stm.lean; protocol `txi … endtx`).  The theorems below show that this is harmless for
  well-formedness: whatever the outcome of a transactional editing call of the property (ok,
  refusal, retry, panic), the state it leaves behind is well formed — the cores validate before
  they write anything that matters (a `replace` of an already-null image writes the value that was
  there), and an attribute failure happens after a complete link.
-/
import Honeycomb.Props.C01

set_option linter.unusedSimpArgs false
set_option linter.unusedVariables false

namespace HC.C01
open HC
variable {X : Type}

/-! ## `attempt` -/

theorem run_attempt {α : Type} (p : P X α) (m : Map X) :
    run p.attempt m =
      match run p m with
      | (.ok a, m') => (.ok (.ok a), m')
      | (.err e, m') => (.ok (.error e), m')
      | (.retry, m') => (.retry, m')
      | (.panic, m') => (.panic, m') := by
  induction p generalizing m with
  | ret a => simp [Prog.attempt, run]
  | read v k ih =>
      simp only [Prog.attempt, run]
      split
      · exact ih _ m
      · rfl
  | write v x k ih =>
      simp only [Prog.attempt, run]
      split
      · exact ih _
      · rfl
  | abort e => simp [Prog.attempt, run]
  | retry => simp [Prog.attempt, run]
  | panic => simp [Prog.attempt, run]

/-! ## safety for EVERY outcome -/

/-- from a well-formed state satisfying `Q`, the state `p` leaves behind is well formed whatever
    the outcome -/
def SafeA (Q : Map X → Prop) {α : Type} (p : P X α) : Prop :=
  ∀ (m m' : Map X) (o : Out Err α), WF 3 m → Q m → run p m = (o, m') → WF 3 m'

theorem SafeA.safe {Q : Map X → Prop} {α : Type} {p : P X α} (h : SafeA Q p) : Safe Q p :=
  fun m m' a hwf hq hr => h m m' (.ok a) hwf hq hr

theorem SafeA.ro_bind {Q : Map X → Prop} {α β : Type} {p : P X α} {f : α → P X β}
    (hp : ReadOnly p) (hf : ∀ a, SafeA Q (f a)) : SafeA Q (p.bind f) := by
  intro m m' o hwf hq h
  rw [run_bind] at h
  have hm := hp m
  match hr : run p m with
  | (.ok a, m1) =>
      rw [hr] at h hm; simp only at h hm; subst hm
      exact hf a _ _ o hwf hq h
  | (.err e, m1) =>
      rw [hr] at h hm; simp only [Prod.mk.injEq] at h hm; subst hm; rw [← h.2]; exact hwf
  | (.retry, m1) =>
      rw [hr] at h hm; simp only [Prod.mk.injEq] at h hm; subst hm; rw [← h.2]; exact hwf
  | (.panic, m1) =>
      rw [hr] at h hm; simp only [Prod.mk.injEq] at h hm; subst hm; rw [← h.2]; exact hwf

theorem SafeA.bind_attr {Q : Map X → Prop} {α β : Type} {p : P X α} {f : α → P X β}
    (hp : SafeA Q p) (hf : ∀ a, AttrOnly (f a)) : SafeA Q (p.bind f) := by
  intro m m' o hwf hq h
  rw [run_bind] at h
  match hr : run p m with
  | (.ok a, m1) =>
      rw [hr] at h; simp only at h
      have w1 := hp _ _ _ hwf hq hr
      have st := hf a m1; rw [h] at st
      exact w1.sameTopo st
  | (.err e, m1) =>
      rw [hr] at h; simp only [Prod.mk.injEq] at h; rw [← h.2]; exact hp _ _ _ hwf hq hr
  | (.retry, m1) =>
      rw [hr] at h; simp only [Prod.mk.injEq] at h; rw [← h.2]; exact hp _ _ _ hwf hq hr
  | (.panic, m1) =>
      rw [hr] at h; simp only [Prod.mk.injEq] at h; rw [← h.2]; exact hp _ _ _ hwf hq hr

theorem SafeA.of_attrOnly {Q : Map X → Prop} {α : Type} {p : P X α} (hp : AttrOnly p) : SafeA Q p := by
  intro m m' o hwf _ h
  have st := hp m; rw [h] at st
  exact hwf.sameTopo st

theorem SafeA.ite {Q : Map X → Prop} {α : Type} {c : Prop} [Decidable c] {p q : P X α}
    (hp : SafeA Q p) (hq : SafeA Q q) : SafeA Q (if c then p else q) := by
  split <;> assumption

theorem SafeA.abort {Q : Map X → Prop} {α : Type} (e : Err) : SafeA Q (abort e : P X α) :=
  SafeA.of_attrOnly (AttrOnly.abort e)

theorem SafeA.mono {Q Q' : Map X → Prop} {α : Type} {p : P X α} (h : SafeA Q p) (hq : ∀ m, Q' m → Q m) :
    SafeA Q' p := fun m m' o hwf hq' hr => h m m' o hwf (hq m hq') hr

/-! ## the link cores: validate, then write -/

/-- a state with the same size, flags and β FUNCTION is well formed too -/
theorem wf_of_β_eq {nb : Nat} {m m' : Map X} (h : WF nb m) (hs : Sized nb m') (hn : m'.n = m.n)
    (hb : ∀ i d, m'.β i d = m.β i d) (hu : ∀ d, m'.unused d = m.unused d) : WF nb m' := by
  refine ⟨hs, ?_⟩
  constructor
  · intro i hi; rw [hb]; exact h.null i hi
  · intro i hi d hd; rw [hb, hn]; rw [hn] at hd; exact h.range i hi d hd
  · intro d hd; simp only [hb]; rw [hn] at hd; exact h.inv01 d hd
  · intro d hd; simp only [hb]; rw [hn] at hd; exact h.inv10 d hd
  · intro i hi h2 d hd; simp only [hb]; rw [hn] at hd; exact h.invol i hi h2 d hd
  · intro d hd; simp only [hb, hu]; rw [hn] at hd; exact h.unusedFree d hd

/-- rewriting an image with the value it already has keeps well-formedness -/
theorem wf_setβ_same {nb : Nat} {m : Map X} (h : WF nb m) {i l : Nat} (hi : i < nb) (hl : l < m.n)
    (h0 : m.β i l = 0) : WF nb (m.setβ i l 0) := by
  refine wf_of_β_eq h (h.toSized.setβ _ _ _) (by simp [Map.n_setβ]) ?_ (by intro d; simp [Map.unused_setβ])
  intro j e
  rw [h.toSized.β_setβ hi hl]
  by_cases c : i = j ∧ l = e
  · obtain ⟨rfl, rfl⟩ := c; simp [h0]
  · simp [c]

theorem oneLinkCore_any {l r : Nat} {m m' : Map X} {o : Out Err Unit}
    (h : run (oneLinkCore (X := X) l r) m = (o, m')) : (∃ u, o = .ok u) ∨ m' = m := by
  unfold oneLinkCore at h
  simp only [Prog.bind_eq, bind, run_rB] at h
  by_cases h1 : m.okβ 1 l = true
  · simp only [h1, if_true] at h
    by_cases h2 : m.β 1 l = 0
    · simp only [h2, ne_eq, not_true_eq_false, if_false, run_rB] at h
      by_cases h3 : m.okβ 0 r = true
      · simp only [h3, if_true] at h
        by_cases h4 : m.β 0 r = 0
        · simp only [h4, ne_eq, not_true_eq_false, if_false, run_wB, h1, if_true, run_wB',
            Map.okβ_setβ, h3] at h
          simp only [Prod.mk.injEq] at h
          exact Or.inl ⟨(), h.1.symm⟩
        · simp [h4] at h; exact Or.inr h.2.symm
      · simp [h3] at h; exact Or.inr h.2.symm
    · simp [h2] at h; exact Or.inr h.2.symm
  · simp [h1] at h; exact Or.inr h.2.symm

theorem iLinkCore_any {i l r : Nat} {m m' : Map X} {o : Out Err Unit}
    (h : run (iLinkCore (X := X) i l r) m = (o, m')) : (∃ u, o = .ok u) ∨ m' = m := by
  unfold iLinkCore at h
  simp only [Prog.bind_eq, bind, run_rB] at h
  by_cases h1 : m.okβ i l = true
  · simp only [h1, if_true] at h
    by_cases h2 : m.β i l = 0
    · simp only [h2, ne_eq, not_true_eq_false, if_false, run_rB] at h
      by_cases h3 : m.okβ i r = true
      · simp only [h3, if_true] at h
        by_cases h4 : m.β i r = 0
        · simp only [h4, ne_eq, not_true_eq_false, if_false, run_wB, h1, if_true, run_wB',
            Map.okβ_setβ, h3] at h
          simp only [Prod.mk.injEq] at h
          exact Or.inl ⟨(), h.1.symm⟩
        · simp [h4] at h; exact Or.inr h.2.symm
      · simp [h3] at h; exact Or.inr h.2.symm
    · simp [h2] at h; exact Or.inr h.2.symm
  · simp [h1] at h; exact Or.inr h.2.symm

/-- the unlink cores `replace` first: on a refusal the image rewritten was already null -/
theorem iUnlinkCore_any {i l : Nat} {m m' : Map X} {o : Out Err Unit}
    (h : run (iUnlinkCore (X := X) i l) m = (o, m')) :
    (∃ u, o = .ok u) ∨ m' = m ∨ (m.okβ i l = true ∧ m.β i l = 0 ∧ m' = m.setβ i l 0) ∨
      (m.okβ i l = true ∧ m.β i l ≠ 0 ∧ m.okβ i (m.β i l) = false ∧ m' = m.setβ i l 0) := by
  unfold iUnlinkCore at h
  simp only [Prog.bind_eq, bind, run_rB] at h
  by_cases h1 : m.okβ i l = true
  · simp only [h1, if_true, run_wB] at h
    by_cases h2 : m.β i l = 0
    · simp [h2] at h; exact Or.inr (Or.inr (Or.inl ⟨h1, h2, h.2.symm⟩))
    · simp only [h2, if_false, run_wB', Map.okβ_setβ] at h
      by_cases h3 : m.okβ i (m.β i l) = true
      · simp only [h3, if_true, Prod.mk.injEq] at h
        exact Or.inl ⟨(), h.1.symm⟩
      · simp [h3] at h
        exact Or.inr (Or.inr (Or.inr ⟨h1, h2, by simpa using h3, h.2.symm⟩))
  · simp [h1] at h; exact Or.inr (Or.inl h.2.symm)

theorem oneUnlinkCore_any {l : Nat} {m m' : Map X} {o : Out Err Unit}
    (h : run (oneUnlinkCore (X := X) l) m = (o, m')) :
    (∃ u, o = .ok u) ∨ m' = m ∨ (m.okβ 1 l = true ∧ m.β 1 l = 0 ∧ m' = m.setβ 1 l 0) ∨
      (m.okβ 1 l = true ∧ m.β 1 l ≠ 0 ∧ m.okβ 0 (m.β 1 l) = false ∧ m' = m.setβ 1 l 0) := by
  unfold oneUnlinkCore at h
  simp only [Prog.bind_eq, bind, run_rB] at h
  by_cases h1 : m.okβ 1 l = true
  · simp only [h1, if_true, run_wB] at h
    by_cases h2 : m.β 1 l = 0
    · simp [h2] at h; exact Or.inr (Or.inr (Or.inl ⟨h1, h2, h.2.symm⟩))
    · simp only [h2, if_false, run_wB', Map.okβ_setβ] at h
      by_cases h3 : m.okβ 0 (m.β 1 l) = true
      · simp only [h3, if_true, Prod.mk.injEq] at h
        exact Or.inl ⟨(), h.1.symm⟩
      · simp [h3] at h
        exact Or.inr (Or.inr (Or.inr ⟨h1, h2, by simpa using h3, h.2.symm⟩))
  · simp [h1] at h; exact Or.inr (Or.inl h.2.symm)

theorem safeA_oneLinkCore (l r : Nat) :
    SafeA (fun m : Map X => InUse m l ∧ InUse m r) (oneLinkCore l r) := by
  intro m m' o hwf hq h
  rcases oneLinkCore_any h with ⟨u, rfl⟩ | rfl
  · exact (safe_oneLinkCore l r) m m' u hwf hq h
  · exact hwf

theorem safeA_twoLinkCore (l r : Nat) :
    SafeA (fun m : Map X => InUse m l ∧ InUse m r ∧ l ≠ r) (iLinkCore 2 l r) := by
  intro m m' o hwf hq h
  rcases iLinkCore_any h with ⟨u, rfl⟩ | rfl
  · exact (safe_twoLinkCore l r) m m' u hwf hq h
  · exact hwf

theorem safeA_oneUnlinkCore (l : Nat) : SafeA (fun m : Map X => InUse m l) (oneUnlinkCore l) := by
  intro m m' o hwf hq h
  rcases oneUnlinkCore_any h with ⟨u, rfl⟩ | rfl | ⟨_, h0, rfl⟩ | ⟨_, hne, hbad, _⟩
  · exact (safe_oneUnlinkCore l) m m' u hwf hq h
  · exact hwf
  · exact wf_setβ_same hwf (by omega) hq.2.1 h0
  · -- impossible on a well-formed map: the image of an existing dart is an existing dart
    have hr : m.β 1 l < m.n := hwf.range 1 (by omega) l hq.2.1
    have : m.okβ 0 (m.β 1 l) = true := (hwf.toSized.okβ 0 _).2 ⟨by omega, hr⟩
    rw [this] at hbad; cases hbad

theorem safeA_twoUnlinkCore (l : Nat) : SafeA (fun m : Map X => InUse m l) (iUnlinkCore 2 l) := by
  intro m m' o hwf hq h
  rcases iUnlinkCore_any h with ⟨u, rfl⟩ | rfl | ⟨_, h0, rfl⟩ | ⟨_, hne, hbad, _⟩
  · exact (safe_twoUnlinkCore l) m m' u hwf hq h
  · exact hwf
  · exact wf_setβ_same hwf (by omega) hq.2.1 h0
  · -- impossible on a well-formed map: the image of an existing dart is an existing dart
    have hr : m.β 2 l < m.n := hwf.range 2 (by omega) l hq.2.1
    have : m.okβ 2 (m.β 2 l) = true := (hwf.toSized.okβ 2 _).2 ⟨by omega, hr⟩
    rw [this] at hbad; cases hbad

/-! ## the sews -/

theorem safeA_oneSew2 (cfg : Cfg X) (n l r : Nat) :
    SafeA (fun m : Map X => InUse m l ∧ InUse m r) (oneSew2 cfg n l r) := by
  unfold oneSew2
  refine SafeA.ro_bind (ReadOnly.rB _ _) fun b2l => ?_
  refine SafeA.ite (safeA_oneLinkCore l r) ?_
  refine SafeA.ro_bind (readOnly_vertexId2 _ _) fun v1 => ?_
  refine SafeA.ro_bind (readOnly_vertexId2 _ _) fun v2 => ?_
  refine SafeA.bind_attr (safeA_oneLinkCore l r) fun _ => ?_
  refine AttrOnly.bind (ao_vid _ _) fun nv => ?_
  exact AttrOnly.bind (attrOnly_mergeS _ _ _ _ _) fun _ => attrOnly_mergeAttrs _ _ _ _ _

theorem safeA_oneUnsew2 (cfg : Cfg X) (n l : Nat) :
    SafeA (fun m : Map X => InUse m l) (oneUnsew2 cfg n l) := by
  unfold oneUnsew2
  refine SafeA.ro_bind (ReadOnly.rB _ _) fun b2l => ?_
  refine SafeA.ite (safeA_oneUnlinkCore l) ?_
  refine SafeA.ro_bind (ReadOnly.rB _ _) fun r => ?_
  refine SafeA.ro_bind (readOnly_vertexId2 _ _) fun vold => ?_
  refine SafeA.bind_attr (safeA_oneUnlinkCore l) fun _ => ?_
  refine AttrOnly.bind (ao_vid _ _) fun nl => ?_
  refine AttrOnly.bind (ao_vid _ _) fun nr => ?_
  exact AttrOnly.bind (attrOnly_splitS _ _ _ _ _) fun _ => attrOnly_splitAttrs _ _ _ _ _

theorem safeA_twoSew2 (cfg : Cfg X) (n l r : Nat) :
    SafeA (fun m : Map X => InUse m l ∧ InUse m r ∧ l ≠ r) (twoSew2 cfg n l r) := by
  unfold twoSew2
  refine SafeA.ro_bind (ReadOnly.rB _ _) fun b1l => ?_
  refine SafeA.ro_bind (ReadOnly.rB _ _) fun b1r => ?_
  refine SafeA.ite ?_ (SafeA.ite ?_ (SafeA.ite ?_ ?_))
  · refine SafeA.bind_attr (safeA_twoLinkCore l r) fun _ => ?_
    exact AttrOnly.bind (ao_eid _) fun _ => attrOnly_mergeAttrs _ _ _ _ _
  · refine SafeA.ro_bind (readOnly_vertexId2 _ _) fun _ => ?_
    refine SafeA.ro_bind (readOnly_vertexId2 _ _) fun _ => ?_
    refine SafeA.bind_attr (safeA_twoLinkCore l r) fun _ => ?_
    refine AttrOnly.bind (ao_vid _ _) fun _ => ?_
    refine AttrOnly.bind (ao_eid _) fun _ => ?_
    refine AttrOnly.bind (attrOnly_mergeS _ _ _ _ _) fun _ => ?_
    exact AttrOnly.bind (attrOnly_mergeAttrs _ _ _ _ _) fun _ => attrOnly_mergeAttrs _ _ _ _ _
  · refine SafeA.ro_bind (readOnly_vertexId2 _ _) fun _ => ?_
    refine SafeA.ro_bind (readOnly_vertexId2 _ _) fun _ => ?_
    refine SafeA.bind_attr (safeA_twoLinkCore l r) fun _ => ?_
    refine AttrOnly.bind (ao_vid _ _) fun _ => ?_
    refine AttrOnly.bind (ao_eid _) fun _ => ?_
    refine AttrOnly.bind (attrOnly_mergeS _ _ _ _ _) fun _ => ?_
    exact AttrOnly.bind (attrOnly_mergeAttrs _ _ _ _ _) fun _ => attrOnly_mergeAttrs _ _ _ _ _
  · refine SafeA.ro_bind (readOnly_vertexId2 _ _) fun _ => ?_
    refine SafeA.ro_bind (readOnly_vertexId2 _ _) fun _ => ?_
    refine SafeA.ro_bind (readOnly_vertexId2 _ _) fun _ => ?_
    refine SafeA.ro_bind (readOnly_vertexId2 _ _) fun _ => ?_
    refine SafeA.ro_bind (ReadOnly.rA _ _) fun _ => ?_
    refine SafeA.ro_bind (ReadOnly.rA _ _) fun _ => ?_
    refine SafeA.ro_bind (ReadOnly.rA _ _) fun _ => ?_
    refine SafeA.ro_bind (ReadOnly.rA _ _) fun _ => ?_
    refine SafeA.ite (SafeA.abort _) ?_
    refine SafeA.bind_attr (safeA_twoLinkCore l r) fun _ => ?_
    refine AttrOnly.bind (ao_vid _ _) fun _ => ?_
    refine AttrOnly.bind (ao_vid _ _) fun _ => ?_
    refine AttrOnly.bind (ao_eid _) fun _ => ?_
    refine AttrOnly.bind (attrOnly_mergeS _ _ _ _ _) fun _ => ?_
    refine AttrOnly.bind (attrOnly_mergeS _ _ _ _ _) fun _ => ?_
    refine AttrOnly.bind (attrOnly_mergeAttrs _ _ _ _ _) fun _ => ?_
    exact AttrOnly.bind (attrOnly_mergeAttrs _ _ _ _ _) fun _ => attrOnly_mergeAttrs _ _ _ _ _

theorem safeA_twoUnsew2 (cfg : Cfg X) (n l : Nat) :
    SafeA (fun m : Map X => InUse m l) (twoUnsew2 cfg n l) := by
  unfold twoUnsew2
  refine SafeA.ro_bind (ReadOnly.rB _ _) fun r => ?_
  refine SafeA.ro_bind (ReadOnly.rB _ _) fun b1l => ?_
  refine SafeA.ro_bind (ReadOnly.rB _ _) fun b1r => ?_
  refine SafeA.ite ?_ (SafeA.ite ?_ (SafeA.ite ?_ ?_))
  · refine SafeA.ro_bind (readOnly_edgeId2 _) fun _ => ?_
    exact SafeA.bind_attr (safeA_twoUnlinkCore l) fun _ => attrOnly_splitAttrs _ _ _ _ _
  · refine SafeA.ro_bind (readOnly_edgeId2 _) fun _ => ?_
    refine SafeA.ro_bind (readOnly_vertexId2 _ _) fun _ => ?_
    refine SafeA.bind_attr (safeA_twoUnlinkCore l) fun _ => ?_
    refine AttrOnly.bind (attrOnly_splitAttrs _ _ _ _ _) fun _ => ?_
    refine AttrOnly.bind (ao_vid _ _) fun _ => ?_
    refine AttrOnly.bind (ao_vid _ _) fun _ => ?_
    exact AttrOnly.bind (attrOnly_splitS _ _ _ _ _) fun _ => attrOnly_splitAttrs _ _ _ _ _
  · refine SafeA.ro_bind (readOnly_edgeId2 _) fun _ => ?_
    refine SafeA.ro_bind (readOnly_vertexId2 _ _) fun _ => ?_
    refine SafeA.bind_attr (safeA_twoUnlinkCore l) fun _ => ?_
    refine AttrOnly.bind (attrOnly_splitAttrs _ _ _ _ _) fun _ => ?_
    refine AttrOnly.bind (ao_vid _ _) fun _ => ?_
    refine AttrOnly.bind (ao_vid _ _) fun _ => ?_
    exact AttrOnly.bind (attrOnly_splitS _ _ _ _ _) fun _ => attrOnly_splitAttrs _ _ _ _ _
  · refine SafeA.ro_bind (readOnly_edgeId2 _) fun _ => ?_
    refine SafeA.ro_bind (readOnly_vertexId2 _ _) fun _ => ?_
    refine SafeA.ro_bind (readOnly_vertexId2 _ _) fun _ => ?_
    refine SafeA.bind_attr (safeA_twoUnlinkCore l) fun _ => ?_
    refine AttrOnly.bind (attrOnly_splitAttrs _ _ _ _ _) fun _ => ?_
    refine AttrOnly.bind (ao_vid _ _) fun _ => ?_
    refine AttrOnly.bind (ao_vid _ _) fun _ => ?_
    refine AttrOnly.bind (ao_vid _ _) fun _ => ?_
    refine AttrOnly.bind (ao_vid _ _) fun _ => ?_
    refine AttrOnly.bind (attrOnly_splitS _ _ _ _ _) fun _ => ?_
    refine AttrOnly.bind (attrOnly_splitAttrs _ _ _ _ _) fun _ => ?_
    exact AttrOnly.bind (attrOnly_splitS _ _ _ _ _) fun _ => attrOnly_splitAttrs _ _ _ _ _

/-! ## the property -/

/-- the transactional link / unlink / sew / unsew calls of the property -/
def Transactional : Op2 → Prop
  | .link _ _ _ | .unlink _ _ | .sew _ _ _ | .unsew _ _ => True
  | _ => False

instance (op : Op2) : Decidable (Transactional op) := by
  cases op <;> unfold Transactional <;> exact inferInstance

theorem safeA_prog (cfg : Cfg X) (n : Nat) (op : Op2) :
    SafeA (fun m : Map X => ArgsOK m op) (prog cfg n op) := by
  unfold prog
  split
  · exact (safeA_oneLinkCore _ _).mono fun m h => ⟨h.1, h.2.1⟩
  · exact (safeA_twoLinkCore _ _).mono fun m h => ⟨h.1, h.2.1, h.2.2 rfl⟩
  · exact (safeA_oneUnlinkCore _).mono fun m h => h
  · exact (safeA_twoUnlinkCore _).mono fun m h => h
  · exact (safeA_oneSew2 _ _ _ _).mono fun m h => ⟨h.1, h.2.1⟩
  · exact (safeA_twoSew2 _ _ _ _).mono fun m h => ⟨h.1, h.2.1, h.2.2 rfl⟩
  · exact (safeA_oneUnsew2 _ _ _).mono fun m h => h
  · exact (safeA_twoUnsew2 _ _ _).mono fun m h => h
  · -- remove_free_dart_transac: one flag write on a free dart
    rename_i d
    intro m m' o hwf hq h
    have h : run ((removeFreeDartTx (X := X) d).bind fun _ => pure ()) m = (o, m') := h
    rw [run_bind, run_removeFreeDartTx] at h
    have hok : m.okU d = true := (hwf.toSized.okU d).2 hq.1.2.1
    simp only [hok, if_true] at h
    simp at h
    rw [← h.2]
    exact hwf.setU_free hq.1.2.1 true ((isFree_iff m 3 d).1 hq.2)
  · intro m m' o hwf _ h
    simp [run] at h
    rw [← h.2]; exact hwf

/-- **C01, a refused call inside a transaction that goes on**: whatever the outcome of a
    transactional link / unlink / sew / unsew made with arguments inside the guard — success,
    refusal (swallowed by the caller: `attempt`), attribute failure — the state it leaves in the
    transaction is well formed -/
theorem C01_any_outcome_preserves_WF (cfg : Cfg X) (m m' : Map X) (op : Op2)
    (hwf : WF 3 m) (hargs : ArgsOK m op) (o : Out Err Unit)
    (h : run (prog cfg m.n op) m = (o, m')) : WF 3 m' :=
  safeA_prog cfg m.n op m m' o hwf hargs h

/-- the same through `attempt`: the caller swallows the refusal and the transaction continues -/
theorem C01_swallowed_abort_preserves_WF (cfg : Cfg X) (m m' : Map X) (op : Op2)
    (hwf : WF 3 m) (hargs : ArgsOK m op) (r : Except Err Unit)
    (h : run (prog cfg m.n op).attempt m = (.ok r, m')) : WF 3 m' := by
  rw [run_attempt] at h
  match hr : run (prog cfg m.n op) m with
  | (.ok a, m1) =>
      rw [hr] at h; simp only [Prod.mk.injEq] at h; rw [← h.2]
      exact C01_any_outcome_preserves_WF cfg m m1 op hwf hargs _ hr
  | (.err e, m1) =>
      rw [hr] at h; simp only [Prod.mk.injEq] at h; rw [← h.2]
      exact C01_any_outcome_preserves_WF cfg m m1 op hwf hargs _ hr
  | (.retry, m1) => rw [hr] at h; simp at h
  | (.panic, m1) => rw [hr] at h; simp at h

/-- non-vacuity: on the two triangles of `exMap` a refused 1-link (dart 1 already has a successor)
    is swallowed and the state is the same well-formed map -/
example : C01.ArgsOK exMap (.link 1 1 5) ∧ Transactional (.link 1 1 5) ∧
    (run (prog (stdCfg 3 7) exMap.n (.link 1 1 5)) exMap).1 = .err (errNonFreeBase 1 1 5) := by decide +kernel
example : WF 3 (run (prog (stdCfg 3 7) exMap.n (.link 1 1 5)).attempt exMap).2 := by decide +kernel

end HC.C01
