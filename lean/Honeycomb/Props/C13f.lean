/-
  C13, sixth part — the spare darts must be FRESH: what the kernels do with spare darts that carry links or a value.

  The kernels (`fan_cell`, `fan_convex_cell`, `earclip_cell_*`) check the NUMBER of spare darts only (`check_requirements`).

  * LINKS — no guard of their own, but every β image of every spare dart is tested by one of the link cores the loops go
    through (`one_link_core` / `two_link_core` refuse a non-free base or image).  Proved: a SUCCESSFUL call has found every
    spare dart free in the map it started from —
      `C13_earclip_ok_implies_spares_free`, `C13_fan_ok_implies_spares_free`, `C13_fan_convex_ok_implies_spares_free`
    (from `earclipLoop_free`, `fanLoop_free` / `fanFrom_free`: each tested image is traced back to the initial map through
    the β tables of the sews; in the fan the β0 image of the second dart of a pair is only tested one iteration later, or by
    the closing sew).  Contrapositive: a linked spare dart makes the call fail with the core's error, and nothing is published
    (C06); `example`s on `d7MapL` (`NonFreeBase`).
  * VALUE — no guard at all.  `C13_stale_spare_value_moves_a_corner_witness`: with a stale vertex value under one FREE spare
    dart all three kernels answer `Ok` and average that value into a corner of the polygon (the corner `(4,4)` becomes
    `(7,7)`); the result is not a triangulation of the polygon (areas no longer add up).  The real implementation does the
    same (checked through the harness).  Hence the hypothesis `hfresh` of C13d / C13e (free AND valueless) is necessary, and
    the property's precondition "the right number of spare darts" must mean fresh darts.
-/
import Honeycomb.Props.C13e

set_option linter.unusedSimpArgs false
set_option linter.unusedVariables false

namespace HC.C13
open HC HC.PosCalc HC.C03 HC.CellCalc

variable {n : Nat} {u : Array Bool}

/-! ## ear clipping: a successful call has found every spare dart free -/

/-- the kernels have no freeness guard of their own, but every β image of every spare dart is tested by one of the link
    cores the loop goes through: a successful loop has found all of them null IN THE INITIAL MAP -/
theorem earclipLoop_free (cfg : Cfg Val) (inside : P2 → P2 → P2 → Bool) :
    ∀ (chunks : List (Nat × Nat)) (darts : List Nat) (vs : List P2) (m m' : Map Val) (d0 : Nat) (rest : List Nat),
      Inv n u m → darts = d0 :: rest → ClosedFace m d0 rest → darts.length = vs.length →
      vs.length = chunks.length + 3 → (sparesOf chunks).Nodup →
      (∀ x ∈ sparesOf chunks, Live n u x ∧ x ∉ darts) → EarsNotLast inside chunks.length vs →
      run (earclipLoop cfg n inside chunks darts vs) m = (.ok (), m') →
      ∀ x ∈ sparesOf chunks, ∀ i, i < 3 → m.β i x = 0 := by
  intro chunks
  induction chunks with
  | nil =>
      intro darts vs m m' d0 rest _ _ _ _ _ _ _ _ _ x hx
      simp [sparesOf] at hx
  | cons c rest' ih =>
      intro darts vs m m' d0 rest hi hd hc hlen hvs hsnd hsp hears h
      obtain ⟨nd1, nd2⟩ := c
      rw [sparesOf_cons] at hsnd hsp
      simp only [List.nodup_cons, List.mem_cons, not_or] at hsnd
      obtain ⟨l1, hn1⟩ := hsp nd1 (by simp)
      obtain ⟨l2, hn2⟩ := hsp nd2 (by simp)
      have hne : nd1 ≠ nd2 := hsnd.1.1
      unfold earclipLoop at h
      simp only [List.length_cons] at hears
      unfold EarsNotLast at hears
      cases hf : findEar inside vs with
      | none => simp [hf] at h
      | some ear =>
          simp only [hf] at h
          rw [hf] at hears
          simp only at hears
          obtain ⟨hearlt, hears'⟩ := hears
          have hmod : (ear + 1) % vs.length = ear + 1 := Nat.mod_eq_of_lt hearlt
          rw [hmod] at h
          obtain ⟨A, x, y, B, hsplit, hA⟩ := split_at_ear darts ear (by rw [hlen]; exact hearlt)
          have hgx : darts.getD ear 0 = x := by rw [hsplit, ← hA]; simp
          have hgy : darts.getD (ear + 1) 0 = y := by
            rw [hsplit, ← hA]; simp [List.getD_eq_getElem?_getD]
          rw [hgx, hgy] at h
          -- the face read from the ear: x → y → R → x with R = B ++ A
          have hcx : ClosedFace m x (y :: (B ++ A)) := by
            cases A with
            | nil =>
                simp only [List.nil_append] at hsplit
                rw [hd] at hsplit
                simp only [List.cons.injEq] at hsplit
                obtain ⟨rfl, rfl⟩ := hsplit
                simpa using hc
            | cons a0 A' =>
                rw [hd] at hsplit
                simp only [List.cons_append, List.cons.injEq] at hsplit
                obtain ⟨rfl, rfl⟩ := hsplit
                have := hc.rotate_at
                simpa using this
          have hdnd : darts.Nodup := by rw [hd]; exact hc.nodup
          have hperm : (x :: y :: (B ++ A)).Perm darts := by
            rw [hsplit]
            have e1 : x :: y :: (B ++ A) = (x :: y :: B) ++ A := by simp
            rw [e1]; exact List.perm_append_comm
          have hmemR : ∀ z, z ∈ B ++ A → z ∈ darts := fun z hz => hperm.subset (by simp [hz])
          have hxd : x ∈ darts := hperm.subset (by simp)
          have hyd : y ∈ darts := hperm.subset (by simp)
          have hcn := hcx.nodup
          simp only [List.nodup_cons, List.mem_cons, not_or] at hcn
          obtain ⟨⟨hxy, hxR⟩, hyR, hRnd⟩ := hcn
          -- R is not empty
          have hRlen : (B ++ A).length = rest'.length + 2 := by
            have := hperm.length_eq
            simp only [List.length_cons] at this
            rw [hlen, hvs] at this
            simp only [List.length_cons] at this
            omega
          cases hR : B ++ A with
          | nil => rw [hR] at hRlen; simp at hRlen
          | cons r0 Rt =>
            rw [hR] at hcx hxR hyR hRnd hmemR
            have hch := hcx.chain
            simp only [List.cons_append] at hch
            obtain ⟨cxy, cyr, hchR⟩ := hch
            obtain ⟨hchRt, hlast⟩ := B1Chain.last Rt r0 x hchR
            have hrlm := C14.getLastD_mem Rt r0
            have hrld := C14.getLastD_not_mem_dropLast Rt r0 hRnd
            have hx0 : x ≠ 0 := hcx.nz x (by simp)
            have hrllt : Rt.getLastD r0 < m.n :=
              hi.wf.toSized.lt_of_β_ne (i := 1) (by omega) (by rw [hlast]; exact hx0)
            have hb0 : m.β 0 x = Rt.getLastD r0 := by
              have := hi.wf.inv01 _ hrllt (by rw [hlast]; exact hx0)
              rw [hlast] at this; exact this
            have hyrl : y ≠ Rt.getLastD r0 := fun hh => hyR (hh ▸ hrlm)
            have hxrl : x ≠ Rt.getLastD r0 := fun hh => hxR (hh ▸ hrlm)
            -- the seven operations
            obtain ⟨_, _, k1⟩ := rB_ok hi h
            obtain ⟨_, _, k2⟩ := rB_ok hi k1
            rw [hb0, cyr] at k2
            obtain ⟨_, m1, s1, k3⟩ := run_bind_ok k2
            obtain ⟨i1, lrl, lx, e1⟩ := oneUnsew2_eff cfg n hi s1
            rw [hlast] at lx e1
            obtain ⟨_, m2, s2, k4⟩ := run_bind_ok k3
            obtain ⟨i2, ly, lr0, e2⟩ := oneUnsew2_eff cfg n i1 s2
            have hm1y : m1.β 1 y = r0 := by
              rw [e1, if_neg (fun hh => absurd hh.1 (by decide)), if_neg (fun hh => hyrl hh.2.symm), cyr]
            rw [hm1y] at lr0 e2
            obtain ⟨_, m3, s3, k5⟩ := run_bind_ok k4
            obtain ⟨i3, f3a, f3b, e3⟩ := oneSew2_eff cfg n i2 ly l1 s3
            obtain ⟨_, m4, s4, k6⟩ := run_bind_ok k5
            obtain ⟨i4, f4a, f4b, e4⟩ := oneSew2_eff cfg n i3 l1 lx s4
            obtain ⟨_, m5, s5, k7⟩ := run_bind_ok k6
            obtain ⟨i5, f5a, f5b, e5⟩ := oneSew2_eff cfg n i4 lrl l2 s5
            obtain ⟨_, m6, s6, k8⟩ := run_bind_ok k7
            obtain ⟨i6, f6a, f6b, e6⟩ := oneSew2_eff cfg n i5 l2 lr0 s6
            obtain ⟨_, m7, s7, k9⟩ := run_bind_ok k8
            obtain ⟨i7, f7a, f7b, e7⟩ := twoSew2_eff cfg n i6 l1 l2 hne s7
            have b1 : ∀ z, m7.β 1 z = if nd2 = z then r0 else if Rt.getLastD r0 = z then nd2 else
                if nd1 = z then x else if y = z then nd1 else if y = z then 0 else
                if Rt.getLastD r0 = z then 0 else m.β 1 z := by
              intro z
              rw [e7, e6, e5, e4, e3, e2, e1]
              simp only [show ¬ (0 = 1) by decide, show ¬ (2 = 1) by decide, false_and, if_false, true_and]
            -- spare darts are not darts of the face
            have hnd1d : ∀ z, z ∈ darts → nd1 ≠ z := fun z hz hh => hn1 (hh ▸ hz)
            have hnd2d : ∀ z, z ∈ darts → nd2 ≠ z := fun z hz hh => hn2 (hh ▸ hz)
            have hrld' : Rt.getLastD r0 ∈ darts := hmemR _ hrlm
            -- the new face nd2 → R → nd2
            have hcf : ClosedFace m7 nd2 (r0 :: Rt) := by
              refine ⟨?_, ?_, ?_⟩
              · simp only [List.cons_append]
                refine ⟨by rw [b1, if_pos rfl], ?_⟩
                refine B1Chain.snoc Rt r0 nd2 (B1Chain.frame Rt r0 hchRt fun z hz => ?_) ?_
                · have hzR : z ∈ r0 :: Rt := List.dropLast_subset _ hz
                  have hzd := hmemR z hzR
                  have hzl : Rt.getLastD r0 ≠ z := fun hh => hrld (hh ▸ hz)
                  have hzy : y ≠ z := fun hh => hyR (hh ▸ hzR)
                  rw [b1, if_neg (hnd2d z hzd), if_neg hzl, if_neg (hnd1d z hzd), if_neg hzy, if_neg hzy, if_neg hzl]
                · rw [b1, if_neg (hnd2d _ hrld'), if_pos rfl]
              · simp only [List.nodup_cons]
                exact ⟨fun hh => hn2 (hmemR _ hh), List.nodup_cons.1 hRnd⟩
              · intro z hz
                simp only [List.mem_cons] at hz
                rcases hz with rfl | hz
                · exact l2.1
                · exact hcx.nz z (by simp only [List.mem_cons]; right; right; exact hz)
            rw [← hR] at hcf
            -- the kernel's vector after the surgery, and the face in its order
            have hsurg : dartSurgery darts ear nd2 = A ++ nd2 :: B := by
              rw [hsplit, ← hA]; exact dartSurgery_eq A B x y nd2
            have hcyc' : ∃ d0' rest'', dartSurgery darts ear nd2 = d0' :: rest'' ∧ ClosedFace m7 d0' rest'' := by
              rw [hsurg]
              cases A with
              | nil => exact ⟨nd2, B, rfl, by simpa using hcf⟩
              | cons a0 A' =>
                  refine ⟨a0, A' ++ nd2 :: B, by simp, ?_⟩
                  exact hcf.rotate_at
            obtain ⟨d0', rest'', hd', hc'⟩ := hcyc'
            have hsub' : ∀ z, z ∈ dartSurgery darts ear nd2 → z ∈ darts ∨ z = nd2 := by
              intro z hz
              rw [hsurg] at hz
              rw [hsplit]
              simp only [List.mem_append, List.mem_cons] at hz ⊢
              rcases hz with c | c | c
              · exact Or.inl (Or.inl c)
              · exact Or.inr c
              · exact Or.inl (Or.inr (Or.inr (Or.inr c)))
            have hxS : x ∉ dartSurgery darts ear nd2 := by
              rw [hsurg]
              have := hdnd
              rw [hsplit] at this
              have hx2 : x ≠ nd2 := fun hh => hn2 (hh ▸ hxd)
              simp only [List.mem_append, List.mem_cons, not_or]
              have h1 := (List.nodup_append.1 this)
              have h2 := h1.2.1
              simp only [List.nodup_cons, List.mem_cons, not_or] at h2
              exact ⟨fun hh => h1.2.2 x hh x (by simp) rfl, hx2, h2.1.2⟩
            have hyS : y ∉ dartSurgery darts ear nd2 := by
              rw [hsurg]
              have := hdnd
              rw [hsplit] at this
              have hy2 : y ≠ nd2 := fun hh => hn2 (hh ▸ hyd)
              simp only [List.mem_append, List.mem_cons, not_or]
              have h1 := (List.nodup_append.1 this)
              have h2 := h1.2.1
              simp only [List.nodup_cons, List.mem_cons, not_or] at h2
              exact ⟨fun hh => h1.2.2 y hh y (by simp) rfl, hy2, h2.2.1⟩
            have hlen' : (dartSurgery darts ear nd2).length = (vs.eraseIdx (ear + 1)).length := by
              rw [hsurg, List.length_eraseIdx, if_pos hearlt, ← hlen, hsplit]
              simp
            have hr0d : r0 ∈ darts := hmemR r0 (by simp)
            have jfree := ih (dartSurgery darts ear nd2) (vs.eraseIdx (ear + 1)) m7 m' d0' rest'' i7 hd' hc'
              hlen' (by rw [List.length_eraseIdx, if_pos hearlt, hvs]; simp) hsnd.2.2
              (fun z hz => ⟨(hsp z (by simp [hz])).1, fun hh => by
                rcases hsub' z hh with c | c
                · exact (hsp z (by simp [hz])).2 c
                · exact hsnd.2.1 (c ▸ hz)⟩) hears' k9
            have n1x := hnd1d x hxd
            have n1y := hnd1d y hyd
            have n1r := hnd1d r0 hr0d
            have n1l := hnd1d _ hrld'
            have n2x := hnd2d x hxd
            have n2y := hnd2d y hyd
            have n2r := hnd2d r0 hr0d
            have n2l := hnd2d _ hrld'
            have b2_6 : ∀ z, m6.β 2 z = m.β 2 z := by
              intro z
              rw [e6, e5, e4, e3, e2, e1]
              simp only [show ¬ (0 = 2) by decide, show ¬ (1 = 2) by decide, false_and, if_false]
            have g10 : m.β 0 nd1 = 0 := by
              rw [e2, if_neg (fun hh => n1r hh.2.symm), if_neg (fun hh => absurd hh.1 (by decide)), e1,
                if_neg (fun hh => n1x hh.2.symm), if_neg (fun hh => absurd hh.1 (by decide))] at f3b
              exact f3b
            have g11 : m.β 1 nd1 = 0 := by
              rw [e3, if_neg (fun hh => absurd hh.1 (by decide)), if_neg (fun hh => n1y hh.2.symm), e2,
                if_neg (fun hh => absurd hh.1 (by decide)), if_neg (fun hh => n1y hh.2.symm), e1,
                if_neg (fun hh => absurd hh.1 (by decide)), if_neg (fun hh => n1l hh.2.symm)] at f4a
              exact f4a
            have g12 : m.β 2 nd1 = 0 := by rw [← b2_6]; exact f7a
            have g20 : m.β 0 nd2 = 0 := by
              rw [e4, if_neg (fun hh => n2x hh.2.symm), if_neg (fun hh => absurd hh.1 (by decide)), e3,
                if_neg (fun hh => hne hh.2), if_neg (fun hh => absurd hh.1 (by decide)), e2,
                if_neg (fun hh => n2r hh.2.symm), if_neg (fun hh => absurd hh.1 (by decide)), e1,
                if_neg (fun hh => n2x hh.2.symm), if_neg (fun hh => absurd hh.1 (by decide))] at f5b
              exact f5b
            have g21 : m.β 1 nd2 = 0 := by
              rw [e5, if_neg (fun hh => absurd hh.1 (by decide)), if_neg (fun hh => n2l hh.2.symm), e4,
                if_neg (fun hh => absurd hh.1 (by decide)), if_neg (fun hh => hne hh.2), e3,
                if_neg (fun hh => absurd hh.1 (by decide)), if_neg (fun hh => n2y hh.2.symm), e2,
                if_neg (fun hh => absurd hh.1 (by decide)), if_neg (fun hh => n2y hh.2.symm), e1,
                if_neg (fun hh => absurd hh.1 (by decide)), if_neg (fun hh => n2l hh.2.symm)] at f6a
              exact f6a
            have g22 : m.β 2 nd2 = 0 := by rw [← b2_6]; exact f7b
            intro z hz i hi3
            rw [sparesOf_cons] at hz
            simp only [List.mem_cons] at hz
            have hi' : i = 0 ∨ i = 1 ∨ i = 2 := by omega
            rcases hz with rfl | rfl | hz
            · rcases hi' with rfl | rfl | rfl
              · exact g10
              · exact g11
              · exact g12
            · rcases hi' with rfl | rfl | rfl
              · exact g20
              · exact g21
              · exact g22
            · have hzd := (hsp z (by simp [hz])).2
              have zx : z ≠ x := fun hh => hzd (hh ▸ hxd)
              have zy : z ≠ y := fun hh => hzd (hh ▸ hyd)
              have zr : z ≠ r0 := fun hh => hzd (hh ▸ hr0d)
              have zl : z ≠ Rt.getLastD r0 := fun hh => hzd (hh ▸ hrld')
              have z1 : z ≠ nd1 := fun hh => hsnd.1.2 (hh ▸ hz)
              have z2 : z ≠ nd2 := fun hh => hsnd.2.1 (hh ▸ hz)
              have := jfree z hz i hi3
              rw [e7, if_neg (fun hh => z2 hh.2.symm), if_neg (fun hh => z1 hh.2.symm), e6,
                if_neg (fun hh => zr hh.2.symm), if_neg (fun hh => z2 hh.2.symm), e5, if_neg (fun hh => z2 hh.2.symm),
                if_neg (fun hh => zl hh.2.symm), e4, if_neg (fun hh => zx hh.2.symm), if_neg (fun hh => z1 hh.2.symm), e3,
                if_neg (fun hh => z1 hh.2.symm), if_neg (fun hh => zy hh.2.symm), e2, if_neg (fun hh => zr hh.2.symm),
                if_neg (fun hh => zy hh.2.symm), e1, if_neg (fun hh => zx hh.2.symm), if_neg (fun hh => zl hh.2.symm)] at this
              exact this

theorem sparesOf_chunks2_even : ∀ (l : List Nat), l.length % 2 = 0 → sparesOf (chunks2 l) = l
  | [], _ => by simp [chunks2, sparesOf]
  | [_], h => by simp at h
  | a :: b :: rest, h => by
      simp only [chunks2, sparesOf_cons]
      rw [sparesOf_chunks2_even rest (by simp only [List.length_cons] at h; omega)]

/-- **C13, linked spare darts are refused (`earclip_cell_*`)**: the kernel has no guard of its own on the spare darts
    beyond their number, but a SUCCESSFUL call on a closed face (spare darts in use, distinct, outside the face;
    `EarsNotLast`) has found every β image of every spare dart null in the map it started from — each of them is tested by
    one of the link cores of the loop.  Contrapositive: with a spare dart that carries a link the call does not answer `Ok`
    (it fails with the link core's error, and by C06 publishes nothing). -/
theorem C13_earclip_ok_implies_spares_free (cfg : Cfg Val) (inside : P2 → P2 → P2 → Bool) (m m' : Map Val)
    (face : Nat) (nds rest : List Nat) (hwf : WF 3 m) (hc : ClosedFace m face rest)
    (hsp : ∀ d ∈ nds, C01.InUse m d ∧ d ∉ face :: rest) (hnd : nds.Nodup)
    (hears : ∀ vals, run (faceVertices m.n (face :: rest)) m = (.ok vals, m) →
      EarsNotLast inside (chunks2 nds).length (vals.map Val.p2))
    (h : run (earclipCell cfg m.n inside face nds) m = (.ok (), m')) :
    ∀ d ∈ nds, ∀ i, i < 3 → m.β i d = 0 := by
  unfold earclipCell at h
  obtain ⟨darts, h1, h3⟩ := ro_bind_ok (readOnly_orbit2 m.n .faceLinear face) h
  have hdarts : darts = face :: rest := by
    have := closedFace_orbit_eq hwf hc
    rw [h1] at this
    simpa using this
  rw [hdarts] at h3
  obtain ⟨vals, m2, h2, h4⟩ := run_bind_ok h3
  obtain ⟨hvl, hm2⟩ := faceVertices_length m.n _ _ _ _ h2
  rw [hm2] at h2 h4
  cases hcr : checkRequirements (rest.length + 1) nds.length with
  | error e => simp [hcr] at h4
  | ok v =>
      have hcr' : checkRequirements (face :: rest).length nds.length = .ok v := hcr
      simp only [hcr'] at h4
      have hreq := (C13_check_requirements_ok_iff _ _).1 hcr
      have hk := chunks2_length nds
      have heven : nds.length % 2 = 0 := by omega
      have hse := sparesOf_chunks2_even nds heven
      have hcl : (chunks2 nds).length + 3 = (face :: rest).length := by simp only [List.length_cons]; omega
      have hfree := earclipLoop_free (n := m.n) (u := m.u) cfg inside (chunks2 nds) (face :: rest) (vals.map Val.p2)
        m m' face rest (Inv.of_wf hwf) rfl hc (by rw [List.length_map, hvl])
        (by rw [List.length_map, hvl]; exact hcl.symm) (by rw [hse]; exact hnd)
        (by rw [hse]; exact fun x hx => ⟨(hsp x hx).1, (hsp x hx).2⟩) (hears vals h2) h4
      rw [hse] at hfree
      exact hfree

/-! ## the fans: a successful call has found every spare dart free -/

/-- the fan loop: β1 and β2 of every spare dart, and β0 of every spare dart but the one the loop returns, are tested by a
    link core and found null in the initial map; the returned dart keeps its β0 image (tested by the closing sew) -/
theorem fanLoop_free (cfg : Cfg Val) :
    ∀ (cs : List (Nat × Nat)) (d0 : Nat) (L : List Nat) (m m' : Map Val) (r : Nat),
      Inv n u m → Live n u d0 → B1Chain m d0 L → L.length = cs.length + 2 → (d0 :: L).Nodup → (∀ x ∈ L, x ≠ 0) →
      (sparesOf cs).Nodup → (∀ x ∈ sparesOf cs, Live n u x ∧ x ∉ d0 :: L) →
      run (fanLoop cfg n d0 cs) m = (.ok r, m') →
      (∀ x ∈ sparesOf cs, m.β 1 x = 0 ∧ m.β 2 x = 0 ∧ (x ≠ loopEnd d0 cs → m.β 0 x = 0)) ∧
      m'.β 0 (loopEnd d0 cs) = m.β 0 (loopEnd d0 cs) ∧ (cs ≠ [] → m.β 0 d0 = 0) := by
  intro cs
  induction cs with
  | nil =>
      intro d0 L m m' r _ _ _ _ _ _ _ _ h
      simp [fanLoop] at h
      obtain ⟨_, rfl⟩ := h
      exact ⟨fun x hx => by simp [sparesOf] at hx, rfl, fun hh => absurd rfl hh⟩
  | cons c rest ih =>
      intro d0 L m m' r hi hd0 hch hlen hnd hnz hsnd hsp h
      obtain ⟨d1, d2⟩ := c
      rw [sparesOf_cons] at hsnd hsp
      simp only [List.nodup_cons, List.mem_cons, not_or] at hsnd
      obtain ⟨l1, hn1⟩ := hsp d1 (by simp)
      obtain ⟨l2, hn2⟩ := hsp d2 (by simp)
      have hne : d1 ≠ d2 := hsnd.1.1
      match L, hlen with
      | x1 :: x2 :: L', hlen =>
        obtain ⟨c1, c2, c3⟩ := hch
        unfold fanLoop at h
        obtain ⟨_, _, h⟩ := rB_ok hi h
        rw [c1] at h
        obtain ⟨_, _, h⟩ := rB_ok hi h
        rw [c2] at h
        obtain ⟨_, m1, s1, h⟩ := run_bind_ok h
        obtain ⟨i1, lx1, lx2, e1⟩ := oneUnsew2_eff cfg n hi s1
        rw [c2] at lx2 e1
        obtain ⟨_, m2, s2, h⟩ := run_bind_ok h
        obtain ⟨i2, f2a, f2b, e2⟩ := twoSew2_eff cfg n i1 l1 l2 hne s2
        obtain ⟨_, m3, s3, h⟩ := run_bind_ok h
        obtain ⟨i3, f3a, f3b, e3⟩ := oneSew2_eff cfg n i2 l2 lx2 s3
        obtain ⟨_, m4, s4, h⟩ := run_bind_ok h
        obtain ⟨i4, f4a, f4b, e4⟩ := oneSew2_eff cfg n i3 lx1 l1 s4
        obtain ⟨_, m5, s5, h⟩ := run_bind_ok h
        obtain ⟨i5, f5a, f5b, e5⟩ := oneSew2_eff cfg n i4 l1 hd0 s5
        -- the β tables after the iteration
        have b1 : ∀ y, m5.β 1 y = if d1 = y then d0 else if x1 = y then d1 else if d2 = y then x2 else
            if x1 = y then 0 else m.β 1 y := by
          intro y
          rw [e5, e4, e3, e2, e1]
          simp only [show ¬ (0 = 1) by decide, show ¬ (2 = 1) by decide, false_and, if_false, true_and]
        have b2 : ∀ y, m5.β 2 y = if d2 = y then d1 else if d1 = y then d2 else m.β 2 y := by
          intro y
          rw [e5, e4, e3, e2, e1]
          simp only [show ¬ (0 = 2) by decide, show ¬ (1 = 2) by decide, false_and, if_false, true_and]
        have b0 : ∀ y, m5.β 0 y = if d0 = y then d1 else if d1 = y then x1 else if x2 = y then d2 else
            if x2 = y then 0 else m.β 0 y := by
          intro y
          rw [e5, e4, e3, e2, e1]
          simp only [show ¬ (1 = 0) by decide, show ¬ (2 = 0) by decide, false_and, if_false, true_and]
        simp only [List.mem_cons, not_or] at hn1 hn2
        simp only [List.nodup_cons, List.mem_cons, not_or] at hnd
        obtain ⟨⟨hd0x1, hd0x2, hd0L⟩, ⟨hx1x2, hx1L⟩, hx2L, hL'nd⟩ := hnd
        have hx1d2 : x1 ≠ d2 := fun hh => hn2.2.1 hh.symm
        have hch' : B1Chain m5 d2 (x2 :: L') := by
          refine ⟨?_, B1Chain.frame L' x2 c3 fun y hy => ?_⟩
          · rw [b1, if_neg hne, if_neg hx1d2, if_pos rfl]
          · have hyL : y ∈ x2 :: L' := List.dropLast_subset _ hy
            have y1 : d1 ≠ y := by
              rintro rfl; simp only [List.mem_cons] at hyL
              rcases hyL with hh | hh
              · exact hn1.2.2.1 hh
              · exact hn1.2.2.2 hh
            have y2 : d2 ≠ y := by
              rintro rfl; simp only [List.mem_cons] at hyL
              rcases hyL with hh | hh
              · exact hn2.2.2.1 hh
              · exact hn2.2.2.2 hh
            have y3 : x1 ≠ y := by
              rintro rfl; simp only [List.mem_cons] at hyL
              rcases hyL with hh | hh
              · exact hx1x2 hh
              · exact hx1L hh
            rw [b1, if_neg y1, if_neg y3, if_neg y2, if_neg y3]
        have hrestsp : ∀ x ∈ sparesOf rest, Live n u x ∧ x ∉ d2 :: x2 :: L' := by
          intro x hx
          obtain ⟨a, b⟩ := hsp x (by simp [hx])
          refine ⟨a, ?_⟩
          simp only [List.mem_cons, not_or] at b ⊢
          exact ⟨fun hh => hsnd.2.1 (hh ▸ hx), b.2.2.1, b.2.2.2⟩
        obtain ⟨jA, jB, jC⟩ :=
          ih d2 (x2 :: L') m5 m' r i5 l2 hch' (by simp at hlen ⊢; omega)
            (by simp only [List.nodup_cons, List.mem_cons, not_or]
                exact ⟨⟨fun hh => hn2.2.2.1 hh, hn2.2.2.2⟩, hx2L, hL'nd⟩)
            (fun x hx => hnz x (List.mem_cons_of_mem _ hx)) hsnd.2.2 hrestsp h
        have g12 : m.β 2 d1 = 0 := by
          rw [e1, if_neg (fun hh => absurd hh.1 (by decide)), if_neg (fun hh => absurd hh.1 (by decide))] at f2a
          exact f2a
        have g22 : m.β 2 d2 = 0 := by
          rw [e1, if_neg (fun hh => absurd hh.1 (by decide)), if_neg (fun hh => absurd hh.1 (by decide))] at f2b
          exact f2b
        have g21 : m.β 1 d2 = 0 := by
          rw [e2, if_neg (fun hh => absurd hh.1 (by decide)), if_neg (fun hh => absurd hh.1 (by decide)), e1,
            if_neg (fun hh => absurd hh.1 (by decide)), if_neg (fun hh => hn2.2.1 hh.2.symm)] at f3a
          exact f3a
        have g10 : m.β 0 d1 = 0 := by
          rw [e3, if_neg (fun hh => hn1.2.2.1 hh.2.symm), if_neg (fun hh => absurd hh.1 (by decide)), e2,
            if_neg (fun hh => absurd hh.1 (by decide)), if_neg (fun hh => absurd hh.1 (by decide)), e1,
            if_neg (fun hh => hn1.2.2.1 hh.2.symm), if_neg (fun hh => absurd hh.1 (by decide))] at f4b
          exact f4b
        have g11 : m.β 1 d1 = 0 := by
          rw [e4, if_neg (fun hh => absurd hh.1 (by decide)), if_neg (fun hh => hn1.2.1 hh.2.symm), e3,
            if_neg (fun hh => absurd hh.1 (by decide)), if_neg (fun hh => hne hh.2.symm), e2,
            if_neg (fun hh => absurd hh.1 (by decide)), if_neg (fun hh => absurd hh.1 (by decide)), e1,
            if_neg (fun hh => absurd hh.1 (by decide)), if_neg (fun hh => hn1.2.1 hh.2.symm)] at f5a
          exact f5a
        have gC : m.β 0 d0 = 0 := by
          rw [e4, if_neg (fun hh => hn1.1 hh.2), if_neg (fun hh => absurd hh.1 (by decide)), e3,
            if_neg (fun hh => hd0x2 hh.2.symm), if_neg (fun hh => absurd hh.1 (by decide)), e2,
            if_neg (fun hh => absurd hh.1 (by decide)), if_neg (fun hh => absurd hh.1 (by decide)), e1,
            if_neg (fun hh => hd0x2 hh.2.symm), if_neg (fun hh => absurd hh.1 (by decide))] at f5b
          exact f5b
        -- β0 of a dart that is neither d0, d1 nor x2 is unchanged by the iteration
        have b0keep : ∀ y, y ≠ d0 → y ≠ d1 → y ≠ x2 → m5.β 0 y = m.β 0 y := by
          intro y h0 h1 h2
          rw [b0, if_neg (fun hh => h0 hh.symm), if_neg (fun hh => h1 hh.symm), if_neg (fun hh => h2 hh.symm),
            if_neg (fun hh => h2 hh.symm)]
        have hsepS : ∀ z ∈ sparesOf rest, z ≠ d0 ∧ z ≠ x1 ∧ z ≠ x2 ∧ z ≠ d1 ∧ z ≠ d2 := by
          intro z hz
          obtain ⟨_, b⟩ := hsp z (by simp [hz])
          simp only [List.mem_cons, not_or] at b
          exact ⟨b.1, b.2.1, b.2.2.1, fun hh => hsnd.1.2 (hh ▸ hz), fun hh => hsnd.2.1 (hh ▸ hz)⟩
        have hrne : loopEnd d2 rest ≠ d0 ∧ loopEnd d2 rest ≠ d1 ∧ loopEnd d2 rest ≠ x2 := by
          rcases loopEnd_mem rest d2 with e | e
          · rw [e]; exact ⟨hn2.1, fun hh => hne hh.symm, hn2.2.2.1⟩
          · obtain ⟨a0, _, a2, a3, _⟩ := hsepS _ e
            exact ⟨a0, a3, a2⟩
        refine ⟨?_, ?_, fun _ => gC⟩
        · intro z hz
          rw [sparesOf_cons] at hz
          simp only [List.mem_cons] at hz
          rcases hz with rfl | rfl | hz
          · exact ⟨g11, g12, fun _ => g10⟩
          · refine ⟨g21, g22, fun hneq => ?_⟩
            simp only [loopEnd] at hneq
            cases rest with
            | nil => exact absurd rfl hneq
            | cons c' rest'' =>
                have := jC (by simp)
                rw [b0keep _ hn2.1 (fun hh => hne hh.symm) hn2.2.2.1] at this
                exact this
          · obtain ⟨a0, a1, a2, a3, a4⟩ := hsepS z hz
            obtain ⟨k1, k2, k0⟩ := jA z hz
            rw [b1, if_neg (fun hh => a3 hh.symm), if_neg (fun hh => a1 hh.symm), if_neg (fun hh => a4 hh.symm),
              if_neg (fun hh => a1 hh.symm)] at k1
            rw [b2, if_neg (fun hh => a4 hh.symm), if_neg (fun hh => a3 hh.symm)] at k2
            refine ⟨k1, k2, fun hneq => ?_⟩
            have := k0 (by simpa [loopEnd] using hneq)
            rw [b0keep z a0 a3 a2] at this
            exact this
        · simp only [loopEnd]
          rw [jB, b0keep _ hrne.1 hrne.2.1 hrne.2.2]

/-- the common tail of both fan kernels -/
theorem fanFrom_free (cfg : Cfg Val) (s : Nat) (nds : List Nat) (L : List Nat) (m m' : Map Val)
    (hi : Inv n u m) (hc : ClosedFace m s L) (hlen : L.length = (chunks2 nds).length + 2)
    (hsnd : (sparesOf (chunks2 nds)).Nodup) (hsp : ∀ x ∈ sparesOf (chunks2 nds), Live n u x ∧ x ∉ s :: L)
    (h : run (fanFrom cfg n s nds) m = (.ok (), m')) :
    ∀ x ∈ sparesOf (chunks2 nds), ∀ i, i < 3 → m.β i x = 0 := by
  have hp : FacePath m s L := hc.facePath
  have hLne : L ≠ [] := by intro h0; rw [h0] at hlen; simp at hlen
  unfold fanFrom at h
  obtain ⟨_, hs, h⟩ := rB_ok hi h
  obtain ⟨vid, _, h⟩ := ro_bind_ok (readOnly_vertexId2 n s) h
  obtain ⟨v0, _, h⟩ := ro_bind_ok (ReadOnly.rA 0 vid) h
  cases v0 with
  | none => simp at h
  | some v0 =>
      simp only at h
      obtain ⟨_, m1, s1, h⟩ := run_bind_ok h
      obtain ⟨i1, lb0, _, e1⟩ := oneUnsew2_eff cfg n hi s1
      have ls : Live n u s := hi.live_of_image (by omega) hs lb0.1
      have hlast := hc.last hLne
      have hzL : L.getLast hLne ∈ L := List.getLast_mem hLne
      have hzlt : L.getLast hLne < m.n :=
        hi.wf.toSized.lt_of_β_ne (i := 1) (by omega) (by rw [hlast]; exact ls.1)
      have hb0 : m.β 0 s = L.getLast hLne := by
        have := hi.wf.inv01 _ hzlt (by rw [hlast]; exact ls.1)
        rw [hlast] at this; exact this
      have hback : m.β 1 (m.β 0 s) = s := by rw [hb0]; exact hlast
      rw [hback] at e1
      have hnd := hp.nodup
      simp only [List.nodup_cons] at hnd
      have hch1 : B1Chain m1 s L := by
        refine B1Chain.frame L s hp.chain fun y hy => ?_
        have hyne : m.β 0 s ≠ y := by
          rintro rfl
          have := B1Chain.succ_mem L s _ hp.chain hy
          rw [hback] at this
          exact hnd.1 this
        rw [e1, if_neg (fun hh => absurd hh.1 (by decide)), if_neg (fun hh => hyne hh.2)]
      obtain ⟨r, m2, s2, h⟩ := run_bind_ok h
      obtain ⟨i2, lr, hr, hchr, _⟩ :=
        fanLoop_struct cfg n _ s L m1 m2 r i1 ls hch1 hlen hp.nodup hp.nz hsnd hsp s2
      obtain ⟨fA, fB, _⟩ := fanLoop_free cfg _ s L m1 m2 r i1 ls hch1 hlen hp.nodup hp.nz hsnd hsp s2
      rw [← hr] at fA fB
      have hdrop : (L.drop (chunks2 nds).length).length = 2 := by rw [List.length_drop]; omega
      match hD : L.drop (chunks2 nds).length, hdrop with
      | [x1, x2], _ =>
        rw [hD] at hchr
        obtain ⟨c1, c2, _⟩ := hchr
        have hx2L : x2 ∈ L := List.mem_of_mem_drop (by rw [hD]; simp)
        obtain ⟨_, _, h⟩ := rB_ok i2 h
        rw [c1] at h
        obtain ⟨_, hx1, h⟩ := rB_ok i2 h
        rw [c2] at h
        have lx2 : Live n u x2 := by
          have := i2.live_image (i := 1) (by omega) hx1 (by rw [c2]; exact hp.nz x2 hx2L)
          rw [c2] at this; exact this
        obtain ⟨_, m3, s3, h⟩ := run_bind_ok h
        obtain ⟨_, _, f0r, _⟩ := oneSew2_eff cfg n i2 lx2 lr s3
        have hr1 : m1.β 0 r = 0 := by rw [← fB]; exact f0r
        intro x hx i hi3
        have hxs : x ≠ s := fun hh => (hsp x hx).2 (by rw [hh]; simp)
        have hxb : x ≠ m.β 0 s := fun hh => (hsp x hx).2 (by rw [hh, hb0]; exact List.mem_cons_of_mem _ hzL)
        have tr : m1.β i x = m.β i x := by
          rw [e1, if_neg (fun hh => hxs hh.2.symm), if_neg (fun hh => hxb hh.2.symm)]
        obtain ⟨k1, k2, k0⟩ := fA x hx
        rw [← tr]
        have hi' : i = 0 ∨ i = 1 ∨ i = 2 := by omega
        rcases hi' with rfl | rfl | rfl
        · by_cases hxr : x = r
          · rw [hxr]; exact hr1
          · exact k0 hxr
        · exact k1
        · exact k2

/-- **C13, linked spare darts are refused (`fan_cell`)**: a successful call on a closed face (spare darts in use, distinct,
    outside the face) has found every β image of every spare dart null in the map it started from -/
theorem C13_fan_ok_implies_spares_free (cfg : Cfg Val) (m m' : Map Val) (face : Nat) (nds rest : List Nat)
    (hwf : WF 3 m) (hc : ClosedFace m face rest) (hsp : ∀ d ∈ nds, C01.InUse m d ∧ d ∉ face :: rest) (hnd : nds.Nodup)
    (h : run (fanCell cfg m.n face nds) m = (.ok (), m')) :
    ∀ d ∈ nds, ∀ i, i < 3 → m.β i d = 0 := by
  obtain ⟨darts, vals, id, h1, h2, h4, hn, hs, hfrom, _⟩ := C13_fan_kernel_star cfg m.n face nds m m' h
  have hd : darts = face :: rest := by
    have := closedFace_orbit_eq hwf hc
    rw [h1] at this
    exact Out.ok.inj (Prod.mk.inj this).1
  rw [hd] at h2 h4 hn hfrom
  obtain ⟨hvl, _⟩ := faceVertices_length m.n _ _ _ _ h2
  have hid : id < (face :: rest).length := by
    have := (fanStarFrom_some _ _ id hs).1
    simpa [hvl] using this
  obtain ⟨L, hrot, hcs⟩ := hc.rotL id hid
  have hLlen : L.length = rest.length := by
    have := congrArg List.length hrot
    simp only [List.length_cons, List.length_append, List.length_drop, List.length_take] at this hid
    omega
  have hk := chunks2_length nds
  have hmem : ∀ x, x ∈ (face :: rest).getD id 0 :: L → x ∈ face :: rest := by
    intro x hx
    rw [hrot, List.mem_append] at hx
    rcases hx with hx | hx
    · exact List.mem_of_mem_drop hx
    · exact List.mem_of_mem_take hx
  simp only [List.length_cons] at h4 hn
  have hse := sparesOf_chunks2_even nds (by omega)
  have := fanFrom_free (n := m.n) (u := m.u) cfg _ nds L m m' (Inv.of_wf hwf) hcs (by omega)
    (by rw [hse]; exact hnd) (by rw [hse]; exact fun x hx => ⟨(hsp x hx).1, fun hh => (hsp x hx).2 (hmem x hh)⟩) hfrom
  rw [hse] at this
  exact this

/-- the same for `fan_convex_cell` -/
theorem C13_fan_convex_ok_implies_spares_free (cfg : Cfg Val) (m m' : Map Val) (face : Nat) (nds rest : List Nat)
    (hwf : WF 3 m) (hc : ClosedFace m face rest) (hsp : ∀ d ∈ nds, C01.InUse m d ∧ d ∉ face :: rest) (hnd : nds.Nodup)
    (h : run (fanConvexCell cfg m.n face nds) m = (.ok (), m')) :
    ∀ d ∈ nds, ∀ i, i < 3 → m.β i d = 0 := by
  unfold fanConvexCell at h
  obtain ⟨darts, h1, h3⟩ := ro_bind_ok (readOnly_orbit2 m.n .faceLinear face) h
  cases hcr : checkRequirements darts.length nds.length with
  | error e => simp [hcr] at h3
  | ok v =>
      simp only [hcr] at h3
      cases v
      have hreq := (C13_check_requirements_ok_iff _ _).1 hcr
      have hk := chunks2_length nds
      have hd : darts = face :: rest := by
        have := closedFace_orbit_eq hwf hc
        rw [h1] at this
        exact Out.ok.inj (Prod.mk.inj this).1
      rw [hd] at hreq
      simp only [List.length_cons] at hreq
      have hse := sparesOf_chunks2_even nds (by omega)
      have := fanFrom_free (n := m.n) (u := m.u) cfg face nds rest m m' (Inv.of_wf hwf) hc (by omega)
        (by rw [hse]; exact hnd) (by rw [hse]; exact fun x hx => ⟨(hsp x hx).1, (hsp x hx).2⟩) h3
      rw [hse] at this
      exact this

/-! ## non-vacuity and counterexamples -/

/-- the theorem applies to the pentagon: the call is `Ok`, the spare darts were free -/
example : ∀ d ∈ [6, 7, 8, 9], ∀ i, i < 3 → d7Map.β i d = 0 :=
  C13_earclip_ok_implies_spares_free (stdCfg 3 0) insideCCW d7Map _ 1 [6, 7, 8, 9] [2, 3, 4, 5] d7_wf d7_closed
    d7_spares (by decide) d7_ears (ok_of_fst (by decide +kernel))

example : ∀ d ∈ [6, 7, 8, 9], ∀ i, i < 3 → d7Map.β i d = 0 :=
  C13_fan_ok_implies_spares_free (stdCfg 3 0) d7Map _ 1 [6, 7, 8, 9] [2, 3, 4, 5] d7_wf d7_closed d7_spares (by decide)
    (ok_of_fst (by decide +kernel))

example : ∀ d ∈ [6, 7, 8, 9], ∀ i, i < 3 → d7Map.β i d = 0 :=
  C13_fan_convex_ok_implies_spares_free (stdCfg 3 0) d7Map _ 1 [6, 7, 8, 9] [2, 3, 4, 5] d7_wf d7_closed d7_spares
    (by decide) (ok_of_fst (by decide +kernel))

/-- the pentagon with the spare darts 8 and 9 already 2-linked to each other -/
def d7MapL : Map Val :=
  { d7Map with b := #[#[0, 5, 1, 2, 3, 4, 0, 0, 0, 0], #[0, 2, 3, 4, 5, 1, 0, 0, 0, 0], #[0, 0, 0, 0, 0, 0, 0, 0, 9, 8]] }

/-- a LINKED spare dart is refused by the link core that tests it (`NonFreeBase`), by all three kernels, and nothing is
    published -/
example : WF 3 d7MapL ∧
    (run (fanCell (stdCfg 3 0) d7MapL.n 1 [6, 7, 8, 9]) d7MapL).1 = .err (errNonFreeBase 2 8 9) ∧
    (run (fanConvexCell (stdCfg 3 0) d7MapL.n 1 [6, 7, 8, 9]) d7MapL).1 = .err (errNonFreeBase 2 8 9) ∧
    (run (earclipCell (stdCfg 3 0) d7MapL.n insideCCW 1 [6, 7, 8, 9]) d7MapL).1 = .err (errNonFreeBase 2 8 9) := by
  decide +kernel

example : (atomically (earclipCell (stdCfg 3 0) d7MapL.n insideCCW 1 [6, 7, 8, 9]) d7MapL).2 = d7MapL :=
  C06.C06_error_leaves_map_unchanged _ d7MapL (errNonFreeBase 2 8 9) (by decide +kernel)

/-- the pentagon with a STALE VERTEX VALUE `(10, 10)` under the free spare dart 6 -/
def d7MapV : Map Val :=
  { d7Map with
    a := #[#[none, some (.pt 0 0 0), some (.pt 2 1 0), some (.pt 4 0 0), some (.pt 4 4 0), some (.pt 0 4 0),
             some (.pt 10 10 0), none, none, none],
           Array.replicate 11 none, Array.replicate 11 none, Array.replicate 11 none,
           Array.replicate 11 none, Array.replicate 11 none] }

/-- **a free spare dart that carries a vertex value is NOT refused, and the result is not a triangulation of the polygon**:
    there is no guard, the sew that makes the spare dart a corner merges its stale value into the vertex it joins
    (`Vertex2::merge` = average).  All three kernels answer `Ok`; `fan_cell` and `earclip_cell_countercw` move the corner
    `(4,4)` of dart 4 to `(7,7)`, `fan_convex_cell` moves the corner `(4,0)` of dart 3 to `(7,5)`; the doubled areas of the
    triangles of the result no longer add up to the pentagon's 28.  So the precondition "the right number of spare darts"
    of the property must read "of FRESH spare darts": free AND without vertex value (`hfresh` in C13d / C13e). -/
theorem C13_stale_spare_value_moves_a_corner_witness :
    WF 3 d7MapV ∧ (∀ d ∈ [6, 7, 8, 9], ∀ i, i < 3 → d7MapV.β i d = 0) ∧
    (run (fanCell (stdCfg 3 0) d7MapV.n 1 [6, 7, 8, 9]) d7MapV).1 = .ok () ∧
    pos (run (fanCell (stdCfg 3 0) d7MapV.n 1 [6, 7, 8, 9]) d7MapV).2 4 = some (.pt 7 7 0) ∧
    (run (earclipCell (stdCfg 3 0) d7MapV.n insideCCW 1 [6, 7, 8, 9]) d7MapV).1 = .ok () ∧
    pos (run (earclipCell (stdCfg 3 0) d7MapV.n insideCCW 1 [6, 7, 8, 9]) d7MapV).2 4 = some (.pt 7 7 0) ∧
    (run (fanConvexCell (stdCfg 3 0) d7MapV.n 1 [6, 7, 8, 9]) d7MapV).1 = .ok () ∧
    pos (run (fanConvexCell (stdCfg 3 0) d7MapV.n 1 [6, 7, 8, 9]) d7MapV).2 3 = some (.pt 7 5 0) ∧
    pos d7MapV 4 = some (.pt 4 4 0) ∧ pos d7MapV 3 = some (.pt 4 0 0) ∧
    (mapTris (run (fanCell (stdCfg 3 0) d7MapV.n 1 [6, 7, 8, 9]) d7MapV).2
      (fanFaces 2 [3, 4, 5, 1] (chunks2 [6, 7, 8, 9]))).map tri2 = [17, 27, 8] ∧
    (mapTris (run (earclipCell (stdCfg 3 0) d7MapV.n insideCCW 1 [6, 7, 8, 9]) d7MapV).2
      [(2, 3, 6), (1, 7, 8), (9, 4, 5)]).map tri2 = [17, 7, 28] := by decide +kernel

end HC.C13
