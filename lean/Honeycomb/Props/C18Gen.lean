/-
  C18 — dart allocation TRANSLATED from the source on every run (`Gen/Alloc.lean`, written by tools/gen_lean.py from
  dim2/basic_ops.rs, dim3/basic_ops.rs and attributes/manager.rs): which components `add_free_dart(s)` extends and by
  how much, which buckets of the attribute manager `extend_storages` extends, which bucket a bind policy selects,
  what `insert_free_dart` searches for / writes / falls back to, what `remove_free_dart_transac` replaces and what
  `remove_free_dart` asserts in which order.  The tables are given their meaning here and that meaning is proved
  EQUAL to `Map.addFreeDarts`, `Map.insertFreeDart`, `removeFreeDartTx`, `Map.removeFreeDart` of Model/Ops.lean —
  the functions every C18 theorem is about.  A storage that allocation forgets to extend (say the `others` bucket of
  attributes bound to a custom orbit) breaks `C18_gen_addFreeDarts*`.
-/
import Honeycomb.Gen.Alloc
import Honeycomb.Props.C18

namespace HC.GenTie
open HC
variable {X : Type}

/-- total amount by which component `c` is extended by the steps (amount code 0 = the parameter `k`, 1 = literal 1) -/
def extAmount (steps : List (Nat × Nat)) (k c : Nat) : Nat :=
  ((steps.filter (fun s => s.1 = c)).map (fun s => if s.2 = 0 then k else 1)).sum

/-- the bucket of the attribute manager that holds a storage of model kind `kd` (0..3 = vertex / edge / face /
    volume attributes, anything else = bound to a custom orbit), read off the translated `get_map`:
    0 = one of the `icells` maps, 1 = `others` -/
def storageBucket (kd : Nat) : Nat :=
  if Gen.Alloc.bucketOfPolicy.getD (if kd ≤ 3 then kd else 7) 9 ≤ 3 then 0 else 1

/-- the map after the translated extension steps: the dart count grows by the amount of component 0 (2-D: the field)
    or by the growth of the β storage (3-D: `n_darts()` is derived from it), every β row by component 1, the flags
    by component 2, the vertex storage (storage 0) by component 3, and every other storage by component 4 IF
    `extend_storages` extends the bucket it lives in -/
def extendBy (m : Map X) (prog : Nat × List (Nat × Nat)) (kindOf : Nat → Nat) (k : Nat) : Map X :=
  { m with
    n := m.n + (if prog.1 = 1 then extAmount prog.2 k 1 else extAmount prog.2 k 0)
    b := m.b.map (fun row => ext row (extAmount prog.2 k 1) 0)
    u := ext m.u (extAmount prog.2 k 2) false
    a := m.a.mapIdx (fun s st => ext st
      (if s = 0 then extAmount prog.2 k 3
       else if storageBucket (kindOf s) ∈ Gen.Alloc.extendStorages then extAmount prog.2 k 4 else 0) none) }

theorem mapIdx_const {α β : Type} (f : α → β) (a : Array α) : a.mapIdx (fun _ x => f x) = a.map f := by
  apply Array.ext
  · simp
  · intro i h1 h2; simp

/-- every storage lives in a bucket that the translated `extend_storages` extends -/
theorem bucket_extended (kd : Nat) : storageBucket kd ∈ Gen.Alloc.extendStorages := by
  unfold storageBucket Gen.Alloc.extendStorages
  split <;> simp <;> omega

/-- the translated `get_map` sends the plain policies to `icells[0..3]`, every linear policy to the bucket of its
    plain policy and custom orbits to `others` -/
theorem C18_gen_buckets :
    Gen.Alloc.bucketOfPolicy.take 4 = [0, 1, 2, 3] ∧ Gen.Alloc.bucketOfPolicy.getD 4 9 = 0 ∧
    Gen.Alloc.bucketOfPolicy.getD 5 9 = 2 ∧ Gen.Alloc.bucketOfPolicy.getD 6 9 = 3 ∧
    Gen.Alloc.bucketOfPolicy.getD 7 9 = 4 := by decide

theorem extendBy_eq (m : Map X) (prog : Nat × List (Nat × Nat)) (kindOf : Nat → Nat) (k : Nat)
    (hn : (if prog.1 = 1 then extAmount prog.2 k 1 else extAmount prog.2 k 0) = k)
    (h1 : extAmount prog.2 k 1 = k) (h2 : extAmount prog.2 k 2 = k) (h3 : extAmount prog.2 k 3 = k)
    (h4 : extAmount prog.2 k 4 = k) : extendBy m prog kindOf k = (m.addFreeDarts k).2 := by
  unfold extendBy Map.addFreeDarts
  rw [hn]
  simp only [h1, h2, h3, h4, bucket_extended, if_true, ite_self]
  rw [mapIdx_const (fun st => ext st k none)]

/-- **tie of `CMap2::add_free_darts`** (for every assignment of kinds to the storages) -/
theorem C18_gen_addFreeDarts2 (m : Map X) (kindOf : Nat → Nat) (k : Nat) :
    extendBy m Gen.Alloc.addFreeDarts2 kindOf k = (m.addFreeDarts k).2 := by
  apply extendBy_eq <;> simp [Gen.Alloc.addFreeDarts2, extAmount]

/-- **tie of `CMap2::add_free_dart`** -/
theorem C18_gen_addFreeDart2 (m : Map X) (kindOf : Nat → Nat) :
    extendBy m Gen.Alloc.addFreeDart2 kindOf 1 = (m.addFreeDarts 1).2 := by
  apply extendBy_eq <;> simp [Gen.Alloc.addFreeDart2, extAmount]

/-- **tie of `CMap3::add_free_darts`** (the dart count is derived from the β storage) -/
theorem C18_gen_addFreeDarts3 (m : Map X) (kindOf : Nat → Nat) (k : Nat) :
    extendBy m Gen.Alloc.addFreeDarts3 kindOf k = (m.addFreeDarts k).2 := by
  apply extendBy_eq <;> simp [Gen.Alloc.addFreeDarts3, extAmount]

/-- **tie of `CMap3::add_free_dart`** -/
theorem C18_gen_addFreeDart3 (m : Map X) (kindOf : Nat → Nat) :
    extendBy m Gen.Alloc.addFreeDart3 kindOf 1 = (m.addFreeDarts 1).2 := by
  apply extendBy_eq <;> simp [Gen.Alloc.addFreeDart3, extAmount]

/-- `insert_free_dart` as translated: the first slot (from index 0) whose flag has the value searched for gets the
    value written; without such a slot, `add_free_dart` -/
def interpInsert (t : List Nat) (m : Map X) : Option (Nat × Map X) :=
  match t with
  | [want, wr, 1] =>
      some (match (List.range m.u.size).find? (fun i => rd m.u i = (want = 1)) with
        | some d => (d, m.setU d (wr = 1))
        | none => m.addFreeDarts 1)
  | _ => none

/-- **tie of `insert_free_dart`** (2-D and 3-D) -/
theorem C18_gen_insertFreeDart (m : Map X) :
    interpInsert Gen.Alloc.insertFreeDart2 m = some m.insertFreeDart ∧
    interpInsert Gen.Alloc.insertFreeDart3 m = some m.insertFreeDart := by
  constructor <;>
  · simp only [interpInsert, Gen.Alloc.insertFreeDart2, Gen.Alloc.insertFreeDart3, Map.insertFreeDart, firstUnused]
    simp
    cases List.find? (fun i => rd m.u i) (List.range m.u.size) <;> rfl

/-- `remove_free_dart_transac` as translated: `replace` the flag by the given value, answer the old flag -/
def interpRemoveTx (t : List Nat) (d : Nat) : Option (P X Bool) :=
  match t with
  | [v] => some (do let old ← rU d; wU d (v = 1); pure old)
  | _ => none

/-- **tie of `remove_free_dart_transac`** (2-D and 3-D) -/
theorem C18_gen_removeFreeDartTx (d : Nat) :
    interpRemoveTx (X := X) Gen.Alloc.removeFreeDartTx2 d = some (removeFreeDartTx d) ∧
    interpRemoveTx (X := X) Gen.Alloc.removeFreeDartTx3 d = some (removeFreeDartTx d) := by
  constructor <;>
  · simp only [interpRemoveTx, Gen.Alloc.removeFreeDartTx2, Gen.Alloc.removeFreeDartTx3, removeFreeDartTx]
    simp

/-- `is_free` as translated: every listed β image is the null dart -/
def interpIsFree (t : List Nat) (m : Map X) (d : Nat) : Bool := t.all (fun i => m.β i d = 0)

/-- **tie of `is_free`**: the 2-D function tests exactly β0, β1, β2 and the 3-D one β0 … β3 -/
theorem C18_gen_isFree (m : Map X) (d : Nat) :
    interpIsFree Gen.Alloc.isFree2 m d = m.isFree 3 d ∧ interpIsFree Gen.Alloc.isFree3 m d = m.isFree 4 d := by
  constructor <;> rfl

/-- `remove_free_dart` as translated: freeness is asserted BEFORE the transactional removal runs (so a linked dart
    is refused without being flagged), and the removal must answer the demanded value -/
def interpRemove (t : List Nat) (m : Map X) (nb d : Nat) : Option (Out Err Unit × Map X) :=
  match t with
  | [1, want] => some (
      if d < m.n then
        if m.isFree nb d then
          match atomically (removeFreeDartTx d) m with
          | (.ok b, m') => if b = (want = 1) then (.ok (), m') else (.panic, m')
          | (_, m') => (.panic, m')
        else (.panic, m)
      else (.panic, m))
  | _ => none

/-- **tie of `remove_free_dart`** (2-D and 3-D) -/
theorem C18_gen_removeFreeDart (m : Map X) (nb d : Nat) :
    interpRemove Gen.Alloc.removeFreeDart2 m nb d = some (m.removeFreeDart nb d) ∧
    interpRemove Gen.Alloc.removeFreeDart3 m nb d = some (m.removeFreeDart nb d) := by
  constructor <;>
  · simp only [interpRemove, Gen.Alloc.removeFreeDart2, Gen.Alloc.removeFreeDart3, Map.removeFreeDart]
    congr 1
    split
    · split
      · rcases h : atomically (removeFreeDartTx d) m with ⟨o, m'⟩
        cases o with
        | ok b => cases b <;> simp
        | err e => rfl
        | retry => rfl
        | panic => rfl
      · rfl
    · rfl

/-- `merge_attributes(policy, p0, p1, p2)` as translated: every storage of the bucket of the policy (the model
    enumerates them in ascending order — the `HashMap` order of the code is unspecified, which is why C06 compares
    error CLASSES) is handed the parameters in the generated order -/
def interpMergeAttrs (cfg : Cfg X) (t : List Nat) (kind p0 p1 p2 : Nat) : P X Unit :=
  let ps := [p0, p1, p2]
  forM_ (storagesOf cfg kind) (fun s => mergeS cfg s (ps.getD (t.getD 0 9) 0) (ps.getD (t.getD 1 9) 0) (ps.getD (t.getD 2 9) 0))

def interpSplitAttrs (cfg : Cfg X) (t : List Nat) (kind p0 p1 p2 : Nat) : P X Unit :=
  let ps := [p0, p1, p2]
  forM_ (storagesOf cfg kind) (fun s => splitS cfg s (ps.getD (t.getD 0 9) 0) (ps.getD (t.getD 1 9) 0) (ps.getD (t.getD 2 9) 0))

/-- **tie of `AttrStorageManager::merge_attributes` / `split_attributes`** (C04, C05, C06): the loop hands every
    storage of the policy's bucket `(id_out, id_in_lhs, id_in_rhs)` / `(id_out_lhs, id_out_rhs, id_in)` unpermuted -/
theorem C18_gen_attr_loops (cfg : Cfg X) (kind a b c : Nat) :
    interpMergeAttrs cfg Gen.Alloc.mergeAttributesArgs kind a b c = mergeAttrs cfg kind a b c ∧
    interpSplitAttrs cfg Gen.Alloc.splitAttributesArgs kind a b c = splitAttrs cfg kind a b c := ⟨rfl, rfl⟩

/-- **C18 on the translated allocation**: the darts handed out by the translated `add_free_darts` are fresh, free,
    blank and addressable (the statement of `C18_add_fresh`, for the map the translated steps produce) -/
theorem C18_gen_add_is_model (m : Map X) (kindOf : Nat → Nat) (k : Nat) :
    extendBy m Gen.Alloc.addFreeDarts2 kindOf k = (m.addFreeDarts k).2 ∧
    extendBy m Gen.Alloc.addFreeDarts3 kindOf k = (m.addFreeDarts k).2 :=
  ⟨C18_gen_addFreeDarts2 m kindOf k, C18_gen_addFreeDarts3 m kindOf k⟩

end HC.GenTie
