/-
  C13, fourth part — the triangles built by the FAN kernels carry the coordinates of the vertex-list triangles.

  C13.lean proves areas / orientation for the vertex-list computation `fanTriangles vs id` (the list the kernel's star
  search works on); C13b.lean proves the exact β structure of the result (`FanResult`: n-2 closed dart triangles).
  This file ties the two IN THE RESULT MAP: with `pos m d := m.att 0 (vertex_id d)` (what `read_vertex(vertex_id(d))`
  returns, `Lemmas/PosCalc.lean`),

  * `fanIter_pos`   : one iteration of the loop (`unsew1 x1; sew2 d1 d2; sew1 d2 x2; sew1 x1 d1; sew1 d1 d0`) from
                      `d0 → x1 → x2` with fresh spare darts `d1`, `d2`: every other dart keeps `pos`, `d1` gets the
                      coordinates of `x2`, `d2` those of the apex — each vertex merge is between a fresh singleton cell
                      without value and a cell with a value (`merge_incomplete`), or between two cells that carry the
                      SAME value (`avg v v = v`: the neighbour across `x1` starts where `x2` starts);
  * `fanLoop_pos`   : the invariant through the loop: old darts keep `pos`, `p_j` has the `pos` of `c_{j+1}`, `q_j` that
                      of the apex;
  * `fanFrom_pos`   : the whole tail of both kernels (first unsew, loop, closing sew, final `write_vertex` of the apex
                      value — which rewrites the value already there);
  * `C13_fan_triangles_carry_list_coordinates` : for `fan_cell`, the k-th dart triangle of the result, corners read
                      through the result's vertex identifiers, is the k-th triangle of `fanTriangles (vals.map p2) id`
                      (`vals` = the vertex list read from the map, `id` = the star index found on it);
  * `C13_fan_area_conserved_in_map`, `C13_fan_orientation_in_map` : hence the area sum and (in general position) the
                      strict common orientation hold for the triangles of the result map;
  * `C13_fan_old_vertices_keep_coordinates` : every dart other than the spare darts reads the same coordinates;
  * `C13_fan_convex_triangles_carry_list_coordinates` : the same (carry, area, untouched) for `fan_convex_cell`.

  Hypotheses, beyond those of C13b (closed face, spare darts in use / distinct / outside the face): the spare darts are
  FRESH — free (all β null) and valueless (no vertex value under them) —, the vertex storage merges with the average
  (`cfg.law 0 = avgLaw`, `Vertex2`), and no failure is injected (`m.fc = 0`).

  The same tie for ear clipping (`earclipTriangles`) is in Props/C13e.lean.  NOT covered: spare darts that already carry a
  value or links.
-/
import Honeycomb.Lemmas.PosCalc
import Honeycomb.Props.C13c

set_option linter.unusedSimpArgs false
set_option linter.unusedVariables false

namespace HC.C13
open HC HC.PosCalc HC.C03 HC.CellCalc

variable {n : Nat} {u : Array Bool}

/-! ## fresh darts -/

/-- the vertex cell of a free dart is the dart alone -/
theorem free_singleton {m : Map Val} (hwf : WF 3 m) {e : Nat} (he : Valid m e) (hfree : ∀ i, i < 3 → m.β i e = 0)
    (y : Nat) (h : VC m e y) : y = e := by
  have hr := (sameCell_iff_reach (g2_null hwf .vertex trivial) (g2_range hwf .vertex trivial)
    (C03_images_inverse_closed hwf (pol := .vertex) trivial) he.1 he.2 y).1 h
  have := C14.reach_vertex_closed (m := m) (fun z => z = e ∨ z = 0) (Or.inr rfl) ?_ (Or.inl rfl) hr.2
  · rcases this with c | c
    · exact c
    · exact absurd c hr.1
  · intro z hz
    rcases hz with rfl | rfl
    · exact ⟨Or.inr (by rw [hfree 2 (by omega)]; exact hwf.null 1 (by omega)),
        Or.inr (by rw [hfree 0 (by omega)]; exact hwf.null 2 (by omega))⟩
    · exact ⟨Or.inr (by rw [hwf.null 2 (by omega)]; exact hwf.null 1 (by omega)),
        Or.inr (by rw [hwf.null 0 (by omega)]; exact hwf.null 2 (by omega))⟩

/-- a dart alone in its cell stays alone when two other cells are united -/
theorem singleton_united {m : Map Val} {e p q : Nat} (hs : ∀ y, VC m e y → y = e) (hp : p ≠ e) (hq : q ≠ e) (y : Nat)
    (h : United (g2 m .vertex) m.n p q e y) : y = e := by
  rcases h with c | ⟨c, _⟩ | ⟨c, _⟩
  · exact hs y c
  · exact absurd (hs p c) hp
  · exact absurd (hs q c) hq

/-! ## the value triangles of a fan -/

/-- `(a, v1, v2), (a, v2, v3), …` — the first `k` triangles of the fan of apex value `a` over the values `vs` -/
def fanValTris {α : Type} (a : α) : List α → Nat → List (α × α × α)
  | v1 :: v2 :: rest, k + 1 => (a, v1, v2) :: fanValTris a (v2 :: rest) k
  | _, _ => []

/-- the coordinates of the three corners of a dart triangle, read through vertex identifiers -/
def posTri (m : Map Val) (t : Nat × Nat × Nat) : Option Val × Option Val × Option Val :=
  (pos m t.1, pos m t.2.1, pos m t.2.2)

/-! ## one iteration of the fan loop -/

theorem valid_of_live {m : Map Val} (hi : Inv n u m) {d : Nat} (h : Live n u d) : Valid m d :=
  ⟨h.1, by rw [hi.n_eq]; exact h.2.1⟩

theorem valid_trans {m m' : Map Val} (hi : Inv n u m) (hi' : Inv n u m') {d : Nat} (h : Valid m d) : Valid m' d :=
  ⟨h.1, by rw [hi'.n_eq, ← hi.n_eq]; exact h.2⟩

/-- the five sews of one iteration: `unsew::<1>(x1); sew::<2>(d1, d2); sew::<1>(d2, x2); sew::<1>(x1, d1);
    sew::<1>(d1, d0)` from a state where `d0 → x1 → x2` and `d1`, `d2` are fresh (free, valueless):
    every other dart keeps its coordinates, `d1` gets those of `x2`, `d2` those of `d0` -/
theorem fanIter_pos (cfg : Cfg Val) (hlaw : cfg.law 0 = avgLaw) {d0 x1 x2 d1 d2 : Nat}
    {m m1 m2 m3 m4 m5 : Map Val} (hi : Inv n u m) (hfc : m.fc = 0)
    (l0 : Live n u d0) (l1 : Live n u d1) (l2 : Live n u d2) (lx2 : Live n u x2)
    (c1 : m.β 1 d0 = x1) (c2 : m.β 1 x1 = x2)
    (h12 : d1 ≠ d2) (hd1 : d1 ≠ d0 ∧ d1 ≠ x1 ∧ d1 ≠ x2) (hd2 : d2 ≠ d0 ∧ d2 ≠ x1 ∧ d2 ≠ x2)
    (hf1 : ∀ i, i < 3 → m.β i d1 = 0) (hf2 : ∀ i, i < 3 → m.β i d2 = 0)
    (hn1 : pos m d1 = none) (hn2 : pos m d2 = none)
    (s1 : run (oneUnsew2 cfg n x1) m = (.ok (), m1)) (s2 : run (twoSew2 cfg n d1 d2) m1 = (.ok (), m2))
    (s3 : run (oneSew2 cfg n d2 x2) m2 = (.ok (), m3)) (s4 : run (oneSew2 cfg n x1 d1) m3 = (.ok (), m4))
    (s5 : run (oneSew2 cfg n d1 d0) m4 = (.ok (), m5)) :
    Inv n u m5 ∧ m5.fc = 0 ∧
    (∀ d, Valid m d → d ≠ d1 → d ≠ d2 → pos m5 d = pos m d) ∧
    pos m5 d1 = pos m x2 ∧ pos m5 d2 = pos m d0 ∧
    (∀ e, e ≠ d0 → e ≠ x1 → e ≠ x2 → e ≠ d1 → e ≠ d2 → ∀ i, m5.β i e = m.β i e) ∧
    (∀ y, m5.β 1 y = if d1 = y then d0 else if x1 = y then d1 else if d2 = y then x2 else
      if x1 = y then 0 else m.β 1 y) := by
  have hwf := hi.wf
  have v0 := valid_of_live hi l0
  have v1 := valid_of_live hi l1
  have v2 := valid_of_live hi l2
  have vx2 := valid_of_live hi lx2
  -- op A
  obtain ⟨i1, lx1, _, e1⟩ := oneUnsew2_eff cfg n hi s1
  rw [c2] at e1
  have vx1 := valid_of_live hi lx1
  obtain ⟨⟨_, fc1⟩, pA, finerA⟩ := unsew1_pos cfg hlaw hi hfc s1
  have hfc1 : m1.fc = 0 := by rw [fc1]; exact hfc
  -- the fresh darts are still free, hence alone in their cells
  have hf1' : ∀ i, i < 3 → m1.β i d1 = 0 := by
    intro i hi3
    rw [e1, if_neg (fun hh => hd1.2.2 hh.2.symm), if_neg (fun hh => hd1.2.1 hh.2.symm)]
    exact hf1 i hi3
  have hf2' : ∀ i, i < 3 → m1.β i d2 = 0 := by
    intro i hi3
    rw [e1, if_neg (fun hh => hd2.2.2 hh.2.symm), if_neg (fun hh => hd2.2.1 hh.2.symm)]
    exact hf2 i hi3
  have sg1 : ∀ y, VC m1 d1 y → y = d1 := free_singleton i1.wf (valid_trans hi i1 v1) hf1'
  have sg2 : ∀ y, VC m1 d2 y → y = d2 := free_singleton i1.wf (valid_trans hi i1 v2) hf2'
  -- op B
  obtain ⟨i2, _, _, e2⟩ := twoSew2_eff cfg n i1 l1 l2 h12 s2
  obtain ⟨⟨_, fc2⟩, pB, cellsB⟩ := twoSewFree_pos cfg i1 hfc1 l1 l2 h12 (hf1' 1 (by omega)) (hf2' 1 (by omega)) s2
  have hfc2 : m2.fc = 0 := by rw [fc2]; exact hfc1
  have sg1b : ∀ y, VC m2 d1 y → y = d1 := fun y hy => sg1 y ((cellsB d1 y).1 hy)
  have sg2b : ∀ y, VC m2 d2 y → y = d2 := fun y hy => sg2 y ((cellsB d2 y).1 hy)
  have hb2d2 : m2.β 2 d2 = d1 := by rw [e2, if_pos ⟨rfl, rfl⟩]
  have hb2d1 : m2.β 2 d1 = d2 := by rw [e2, if_neg (fun hh => h12 hh.2.symm), if_pos ⟨rfl, rfl⟩]
  have pAB : ∀ d, Valid m d → pos m2 d = pos m d := fun d hd => by rw [pB d (valid_trans hi i1 hd), pA d hd]
  -- op C: the cell of `β2 d2 = d1` (alone, valueless) joins the cell of `x2`
  obtain ⟨i3, _, _, e3⟩ := oneSew2_eff cfg n i2 l2 lx2 s3
  obtain ⟨⟨_, fc3⟩, _, mC⟩ := sew1_pos cfg hlaw i2 hfc2 l2 lx2 s3
  have hfc3 : m3.fc = 0 := by rw [fc3]; exact hfc2
  have hd10 : d1 ≠ 0 := l1.1
  obtain ⟨cellsC, keepC, mergedC, valueC⟩ := mC (by rw [hb2d2]; exact hd10)
  rw [hb2d2] at cellsC keepC mergedC valueC
  have hp1 : pos m2 d1 = none := by rw [pAB d1 v1]; exact hn1
  have hvC : pos m3 x2 = pos m2 x2 := by
    rw [valueC (fun x y hx _ => by rw [hp1] at hx; exact absurd hx (by simp)), hp1]; rfl
  have pC : ∀ d, Valid m d → d ≠ d1 → pos m3 d = pos m2 d := by
    intro d hd hne
    have hd2v := valid_trans hi i2 hd
    by_cases hc : VC m2 d x2
    · rw [mergedC d hd2v (Or.inr hc), hvC]
      exact (pos_eq_of_VC i2.wf hd2v (valid_trans hi i2 vx2) hc).symm
    · have hc1 : ¬ VC m2 d d1 := fun c => hne (sg1b d (SameCell.symm c))
      exact keepC d hd2v hc1 hc
  have pC1 : pos m3 d1 = pos m2 x2 := by
    rw [mergedC d1 (valid_trans hi i2 v1) (Or.inl (.refl _)), hvC]
  have sg2c : ∀ y, VC m3 d2 y → y = d2 := fun y hy =>
    singleton_united sg2b h12 (fun hh => hd2.2.2 hh.symm) y ((cellsC d2 y).1 hy)
  -- op D: the cell of `β2 x1` (if any) joins the cell of `d1`; both carry the coordinates of `x2`
  obtain ⟨i4, _, _, e4⟩ := oneSew2_eff cfg n i3 lx1 l1 s4
  obtain ⟨⟨_, fc4⟩, kD, mD⟩ := sew1_pos cfg hlaw i3 hfc3 lx1 l1 s4
  have hfc4 : m4.fc = 0 := by rw [fc4]; exact hfc3
  have hb2x1 : m3.β 2 x1 = m.β 2 x1 := by
    rw [e3, if_neg (fun hh => absurd hh.1 (by decide)), if_neg (fun hh => absurd hh.1 (by decide)), e2,
      if_neg (fun hh => hd2.2.1 hh.2), if_neg (fun hh => hd1.2.1 hh.2), e1,
      if_neg (fun hh => absurd hh.1 (by decide)), if_neg (fun hh => absurd hh.1 (by decide))]
  have pD : ∀ d, Valid m d → pos m4 d = pos m3 d ∧ (VC m4 d2 d → d = d2) := by
    intro d hd
    have hd3 := valid_trans hi i3 hd
    by_cases hnb : m3.β 2 x1 = 0
    · obtain ⟨k, cD⟩ := kD hnb
      exact ⟨k d hd3, fun c => sg2c d ((cD d2 d).1 c)⟩
    · obtain ⟨cellsD, keepD, mergedD, valueD⟩ := mD hnb
      -- the neighbour across `x1` starts where `x2` starts
      have hnb' : m.β 2 x1 ≠ 0 := by rw [← hb2x1]; exact hnb
      have hnbv : Valid m (m.β 2 x1) := ⟨hnb', hwf.range 2 (by omega) x1 vx1.2⟩
      have hinv := hwf.invol 2 (by omega) (by omega) x1 vx1.2 hnb'
      have hstep : VC m (m.β 2 x1) x2 := by
        refine SameCell.step ⟨hnb', hnbv.2, lx2.1, ?_⟩
        simp only [g2, List.mem_cons]
        left; rw [hinv.1, c2]
      have hnbd1 : m.β 2 x1 ≠ d1 := fun hh => by
        have := hf1 2 (by omega); rw [← hh, hinv.1] at this; exact lx1.1 this
      have hnbd2 : m.β 2 x1 ≠ d2 := fun hh => by
        have := hf2 2 (by omega); rw [← hh, hinv.1] at this; exact lx1.1 this
      have hpn : pos m3 (m3.β 2 x1) = pos m3 d1 := by
        rw [hb2x1, pC _ hnbv hnbd1, pAB _ hnbv, pC1, pAB _ vx2]
        exact pos_eq_of_VC hwf hnbv vx2 hstep
      have hval : pos m4 d1 = pos m3 d1 := by
        rw [valueD (fun x y hx hy => by rw [hpn, hy] at hx; exact (Option.some.inj hx).symm), hpn, or_self']
      constructor
      · by_cases hc : VC m3 d (m3.β 2 x1) ∨ VC m3 d d1
        · rw [mergedD d hd3 hc, hval]
          rcases hc with c | c
          · rw [← hpn]
            exact (pos_eq_of_VC i3.wf hd3 ⟨hnb, by rw [hb2x1, i3.n_eq, ← hi.n_eq]; exact hnbv.2⟩ c).symm
          · exact (pos_eq_of_VC i3.wf hd3 (valid_trans hi i3 v1) c).symm
        · exact keepD d hd3 (fun c => hc (Or.inl c)) (fun c => hc (Or.inr c))
      · intro c
        exact singleton_united sg2c (by rw [hb2x1]; exact hnbd2) h12 d ((cellsD d2 d).1 c)
  -- op E: the cell of `β2 d1 = d2` (alone, valueless) joins the cell of `d0`
  obtain ⟨i5, _, _, e5⟩ := oneSew2_eff cfg n i4 l1 l0 s5
  obtain ⟨⟨_, fc5⟩, _, mE⟩ := sew1_pos cfg hlaw i4 hfc4 l1 l0 s5
  have hb2d1' : m4.β 2 d1 = d2 := by
    rw [e4, if_neg (fun hh => absurd hh.1 (by decide)), if_neg (fun hh => absurd hh.1 (by decide)), e3,
      if_neg (fun hh => absurd hh.1 (by decide)), if_neg (fun hh => absurd hh.1 (by decide)), hb2d1]
  obtain ⟨_, keepE, mergedE, valueE⟩ := mE (by rw [hb2d1']; exact l2.1)
  rw [hb2d1'] at keepE mergedE valueE
  have pto4 : ∀ d, Valid m d → d ≠ d1 → pos m4 d = pos m d := fun d hd hne => by
    rw [(pD d hd).1, pC d hd hne, pAB d hd]
  have hp2 : pos m4 d2 = none := by rw [pto4 d2 v2 (fun hh => h12 hh.symm)]; exact hn2
  have hvE : pos m5 d0 = pos m4 d0 := by
    rw [valueE (fun x y hx _ => by rw [hp2] at hx; exact absurd hx (by simp)), hp2]; rfl
  have pE : ∀ d, Valid m d → d ≠ d2 → pos m5 d = pos m4 d := by
    intro d hd hne
    have hd4 := valid_trans hi i4 hd
    by_cases hc : VC m4 d d0
    · rw [mergedE d hd4 (Or.inr hc), hvE]
      exact (pos_eq_of_VC i4.wf hd4 (valid_trans hi i4 v0) hc).symm
    · have hc2 : ¬ VC m4 d d2 := fun c => hne ((pD d hd).2 (SameCell.symm c))
      exact keepE d hd4 hc2 hc
  refine ⟨i5, by rw [fc5]; exact hfc4, fun d hd h1 h2 => by rw [pE d hd h2, pto4 d hd h1], ?_, ?_, ?_, ?_⟩
  · rw [pE d1 v1 h12, (pD d1 v1).1, pC1, pAB x2 vx2]
  · rw [mergedE d2 (valid_trans hi i4 v2) (Or.inl (.refl _)), hvE, pto4 d0 v0 (fun hh => hd1.1 hh.symm)]
  · intro e h0 hx1 hx2 h1 h2 i
    rw [e5, if_neg (fun hh => h0 hh.2.symm), if_neg (fun hh => h1 hh.2.symm), e4, if_neg (fun hh => h1 hh.2.symm),
      if_neg (fun hh => hx1 hh.2.symm), e3, if_neg (fun hh => hx2 hh.2.symm), if_neg (fun hh => h2 hh.2.symm), e2,
      if_neg (fun hh => h2 hh.2.symm), if_neg (fun hh => h1 hh.2.symm), e1, if_neg (fun hh => hx2 hh.2.symm),
      if_neg (fun hh => hx1 hh.2.symm)]
  · intro y
    rw [e5, e4, e3, e2, e1]
    simp only [show ¬ (0 = 1) by decide, show ¬ (2 = 1) by decide, false_and, if_false, true_and]

/-! ## the loop -/

theorem B1Chain.valid {m : Map Val} (hwf : WF 3 m) : ∀ (l : List Nat) (d : Nat), Valid m d → (∀ x ∈ l, x ≠ 0) →
    B1Chain m d l → ∀ y ∈ l, Valid m y := by
  intro l
  induction l with
  | nil => intro d _ _ _ y hy; cases hy
  | cons x rest ih =>
      intro d hd hnz h y hy
      obtain ⟨h1, h2⟩ := h
      have hx : Valid m x := ⟨hnz x (by simp), by rw [← h1]; exact hwf.range 1 (by omega) d hd.2⟩
      simp only [List.mem_cons] at hy
      rcases hy with rfl | hy
      · exact hx
      · exact ih x hx (fun z hz => hnz z (List.mem_cons_of_mem _ hz)) h2 y hy

/-- the fan loop from the apex-side dart `d0` with the face darts `L` ahead and fresh spare pairs `cs`: every dart
    other than the spare darts keeps its coordinates, and the corners of the triangles closed by the loop carry
    `(apex, L[j], L[j+1])` -/
theorem fanLoop_pos (cfg : Cfg Val) (hlaw : cfg.law 0 = avgLaw) :
    ∀ (cs : List (Nat × Nat)) (d0 : Nat) (L : List Nat) (m m' : Map Val) (r : Nat),
      Inv n u m → m.fc = 0 → Live n u d0 → B1Chain m d0 L → L.length = cs.length + 2 → (d0 :: L).Nodup →
      (∀ x ∈ L, x ≠ 0) → (sparesOf cs).Nodup → (∀ x ∈ sparesOf cs, Live n u x ∧ x ∉ d0 :: L) →
      (∀ x ∈ sparesOf cs, ∀ i, i < 3 → m.β i x = 0) → (∀ x ∈ sparesOf cs, pos m x = none) →
      run (fanLoop cfg n d0 cs) m = (.ok r, m') →
      Inv n u m' ∧ m'.fc = 0 ∧
      (∀ d, Valid m d → d ∉ sparesOf cs → pos m' d = pos m d) ∧
      (loopTris d0 L cs).map (posTri m') = fanValTris (pos m d0) (L.map (pos m)) cs.length ∧
      pos m' (loopEnd d0 cs) = pos m d0 := by
  intro cs
  induction cs with
  | nil =>
      intro d0 L m m' r hi hfc _ _ _ _ _ _ _ _ _ h
      simp [fanLoop] at h
      obtain ⟨_, rfl⟩ := h
      refine ⟨hi, hfc, fun _ _ _ => rfl, ?_, rfl⟩
      cases L with
      | nil => simp [loopTris, fanValTris]
      | cons a t => cases t <;> simp [loopTris, fanValTris]
  | cons c rest ih =>
      intro d0 L m m' r hi hfc hd0 hch hlen hnd hnz hsnd hsp hfree hnone h
      obtain ⟨d1, d2⟩ := c
      rw [sparesOf_cons] at hsnd hsp hfree hnone
      simp only [List.nodup_cons, List.mem_cons, not_or] at hsnd
      obtain ⟨l1, hn1⟩ := hsp d1 (by simp)
      obtain ⟨l2, hn2⟩ := hsp d2 (by simp)
      have hne : d1 ≠ d2 := hsnd.1.1
      match L, hlen with
      | x1 :: x2 :: L', hlen =>
        obtain ⟨c1, c2, c3⟩ := hch
        simp only [List.mem_cons, not_or] at hn1 hn2
        simp only [List.nodup_cons, List.mem_cons, not_or] at hnd
        obtain ⟨⟨hd0x1, hd0x2, hd0L⟩, ⟨hx1x2, hx1L⟩, hx2L, hL'nd⟩ := hnd
        unfold fanLoop at h
        obtain ⟨_, _, h⟩ := rB_ok hi h
        rw [c1] at h
        obtain ⟨_, hx1lt, h⟩ := rB_ok hi h
        rw [c2] at h
        obtain ⟨_, m1, s1, h⟩ := run_bind_ok h
        obtain ⟨_, m2, s2, h⟩ := run_bind_ok h
        obtain ⟨_, m3, s3, h⟩ := run_bind_ok h
        obtain ⟨_, m4, s4, h⟩ := run_bind_ok h
        obtain ⟨_, m5, s5, h⟩ := run_bind_ok h
        have lx2 : Live n u x2 := by
          have := hi.live_image (i := 1) (by omega) hx1lt (by rw [c2]; exact hnz x2 (by simp))
          rw [c2] at this; exact this
        obtain ⟨i5, hfc5, pk, p1, p2, bfr, b1⟩ := fanIter_pos cfg hlaw hi hfc hd0 l1 l2 lx2 c1 c2 hne
          ⟨hn1.1, hn1.2.1, hn1.2.2.1⟩ ⟨hn2.1, hn2.2.1, hn2.2.2.1⟩
          (hfree d1 (by simp)) (hfree d2 (by simp)) (hnone d1 (by simp)) (hnone d2 (by simp)) s1 s2 s3 s4 s5
        -- the chain ahead of d2 in m5 (as in `fanLoop_struct`)
        have hx1d2 : x1 ≠ d2 := fun hh => hn2.2.1 hh.symm
        have hch5 : B1Chain m5 d2 (x2 :: L') := by
          refine ⟨?_, B1Chain.frame L' x2 c3 fun y hy => ?_⟩
          · rw [b1, if_neg hne, if_neg hx1d2, if_pos rfl]
          · have hyL : y ∈ x2 :: L' := List.dropLast_subset _ hy
            have y1 : d1 ≠ y := by
              rintro rfl; simp only [List.mem_cons] at hyL
              rcases hyL with hh | hh
              · exact hn1.2.2.1 hh
              · exact hn1.2.2.2 hh
            have y2 : d2 ≠ y := by
              rintro rfl; simp only [List.mem_cons] at hyL
              rcases hyL with hh | hh
              · exact hn2.2.2.1 hh
              · exact hn2.2.2.2 hh
            have y3 : x1 ≠ y := by
              rintro rfl; simp only [List.mem_cons] at hyL
              rcases hyL with hh | hh
              · exact hx1x2 hh
              · exact hx1L hh
            rw [b1, if_neg y1, if_neg y3, if_neg y2, if_neg y3]
        have hrestsp : ∀ x ∈ sparesOf rest, Live n u x ∧ x ∉ d2 :: x2 :: L' := by
          intro x hx
          obtain ⟨a, b⟩ := hsp x (by simp [hx])
          refine ⟨a, ?_⟩
          simp only [List.mem_cons, not_or] at b ⊢
          exact ⟨fun hh => hsnd.2.1 (hh ▸ hx), b.2.2.1, b.2.2.2⟩
        -- the remaining spares: not among d0, x1, x2, d1, d2
        have hsep : ∀ x ∈ sparesOf rest, x ≠ d0 ∧ x ≠ x1 ∧ x ≠ x2 ∧ x ≠ d1 ∧ x ≠ d2 := by
          intro x hx
          obtain ⟨_, b⟩ := hsp x (by simp [hx])
          simp only [List.mem_cons, not_or] at b
          exact ⟨b.1, b.2.1, b.2.2.1, fun hh => hsnd.1.2 (hh ▸ hx), fun hh => hsnd.2.1 (hh ▸ hx)⟩
        have vsp : ∀ x ∈ sparesOf rest, Valid m x := fun x hx => valid_of_live hi (hsp x (by simp [hx])).1
        have hfree5 : ∀ x ∈ sparesOf rest, ∀ i, i < 3 → m5.β i x = 0 := by
          intro x hx i hi3
          obtain ⟨a0, a1, a2, a3, a4⟩ := hsep x hx
          rw [bfr x a0 a1 a2 a3 a4 i]
          exact hfree x (by simp [hx]) i hi3
        have hnone5 : ∀ x ∈ sparesOf rest, pos m5 x = none := by
          intro x hx
          obtain ⟨_, _, _, a3, a4⟩ := hsep x hx
          rw [pk x (vsp x hx) a3 a4]
          exact hnone x (by simp [hx])
        obtain ⟨j1, j2, j3, j4, j5⟩ :=
          ih d2 (x2 :: L') m5 m' r i5 hfc5 l2 hch5 (by simp at hlen ⊢; omega)
            (by simp only [List.nodup_cons, List.mem_cons, not_or]
                exact ⟨⟨fun hh => hn2.2.2.1 hh, hn2.2.2.2⟩, hx2L, hL'nd⟩)
            (fun x hx => hnz x (List.mem_cons_of_mem _ hx)) hsnd.2.2 hrestsp hfree5 hnone5 h
        have v0 := valid_of_live hi hd0
        have vd1 := valid_of_live hi l1
        have vd2 := valid_of_live hi l2
        have vx2 := valid_of_live hi lx2
        have vx1 : Valid m x1 := ⟨hnz x1 (by simp), by rw [← hi.n_eq] at hx1lt; exact hx1lt⟩
        have vL : ∀ y ∈ x2 :: L', Valid m y := by
          intro y hy
          have hch0 : B1Chain m d0 (x1 :: x2 :: L') := ⟨c1, c2, c3⟩
          exact B1Chain.valid hi.wf _ d0 v0 hnz hch0 y (List.mem_cons_of_mem _ hy)
        have keep5 : ∀ d, Valid m d → d ≠ d1 → d ≠ d2 → d ∉ sparesOf rest → pos m' d = pos m d := by
          intro d hd h1 h2 h3
          rw [j3 d (valid_trans hi i5 hd) h3, pk d hd h1 h2]
        have hd0sp : d0 ∉ sparesOf rest := fun hh => (hsp d0 (by simp [hh])).2 (by simp)
        have hx1sp : x1 ∉ sparesOf rest := fun hh => (hsp x1 (by simp [hh])).2 (by simp)
        refine ⟨j1, j2, ?_, ?_, ?_⟩
        · intro d hd hns
          rw [sparesOf_cons] at hns
          simp only [List.mem_cons, not_or] at hns
          exact keep5 d hd hns.1 hns.2.1 hns.2.2
        · simp only [loopTris, List.map_cons, List.length_cons, fanValTris]
          congr 1
          · show (pos m' d0, pos m' x1, pos m' d1) = _
            rw [keep5 d0 v0 (fun hh => hn1.1 hh.symm) (fun hh => hn2.1 hh.symm) hd0sp,
              keep5 x1 vx1 (fun hh => hn1.2.1 hh.symm) (fun hh => hn2.2.1 hh.symm) hx1sp,
              j3 d1 (valid_trans hi i5 vd1) hsnd.1.2, p1]
          · rw [j4, p2]
            congr 1
            apply List.map_congr_left
            intro y hy
            have hyv := vL y hy
            have y1 : y ≠ d1 := by
              rintro rfl; simp only [List.mem_cons] at hy
              rcases hy with hh | hh
              · exact hn1.2.2.1 hh
              · exact hn1.2.2.2 hh
            have y2 : y ≠ d2 := by
              rintro rfl; simp only [List.mem_cons] at hy
              rcases hy with hh | hh
              · exact hn2.2.2.1 hh
              · exact hn2.2.2.2 hh
            exact pk y hyv y1 y2
        · simp only [loopEnd]
          rw [j5, p2]

/-! ## the whole fan from the apex dart -/

theorem fanValTris_succ {α : Type} (a : α) : ∀ (k : Nat) (vs : List α) (y1 y2 : α), vs.drop k = [y1, y2] →
    fanValTris a vs (k + 1) = fanValTris a vs k ++ [(a, y1, y2)] := by
  intro k
  induction k with
  | zero =>
      intro vs y1 y2 h
      simp only [List.drop_zero] at h
      subst h
      simp [fanValTris]
  | succ k ih =>
      intro vs y1 y2 h
      match vs, h with
      | [], h => simp at h
      | [_], h => simp at h
      | v1 :: v2 :: rest, h =>
        simp only [List.drop_succ_cons] at h
        simp only [fanValTris, ih (v2 :: rest) y1 y2 h, List.cons_append]

/-- rewriting a vertex with the value it already carries changes no coordinates -/
theorem writeVtx_pos {m m' : Map Val} {vid : Nat} {v : Val} {a : Option Val}
    (h : run (writeVtx vid v) m = (.ok a, m')) (hv : m.att 0 vid = some v) :
    SameTopo m m' ∧ ∀ d, pos m' d = pos m d := by
  have st := attrOnly_writeVtx vid v m
  rw [h] at st
  refine ⟨st, fun d => ?_⟩
  unfold pos
  rw [cellId_sameTopo st d]
  unfold writeVtx at h
  simp only [Prog.bind_eq, bind] at h
  rw [run_rA] at h
  by_cases hok : m.okA 0 vid = true
  · simp only [hok, if_true, run_wA, Prog.ret_bind, Prog.pure_eq, run_ret, Prod.mk.injEq] at h
    obtain ⟨_, rfl⟩ := h
    rw [Map.att_setA]
    by_cases hc : 0 = 0 ∧ vid = cellId m .vertex d ∧ m.okA 0 vid = true
    · rw [if_pos hc, ← hc.2.1, hv]
    · rw [if_neg hc]
  · simp [hok] at h

/-- **the coordinates after a fan from the apex dart `s`** of the closed face `s :: L` with fresh spare darts
    (free, valueless): every dart that is not a spare dart keeps its coordinates, and the corners of the `n - 2`
    triangles, read through the vertex identifiers of the result map, are `(apex, L[j], L[j+1])` -/
theorem fanFrom_pos (cfg : Cfg Val) (hlaw : cfg.law 0 = avgLaw) (s : Nat) (nds : List Nat) (L : List Nat)
    (m m' : Map Val) (hi : Inv n u m) (hfc : m.fc = 0) (hc : ClosedFace m s L)
    (hlen : L.length = (chunks2 nds).length + 2) (hsnd : (sparesOf (chunks2 nds)).Nodup)
    (hsp : ∀ x ∈ sparesOf (chunks2 nds), Live n u x ∧ x ∉ s :: L)
    (hfree : ∀ x ∈ sparesOf (chunks2 nds), ∀ i, i < 3 → m.β i x = 0)
    (hnone : ∀ x ∈ sparesOf (chunks2 nds), pos m x = none)
    (h : run (fanFrom cfg n s nds) m = (.ok (), m')) :
    (∀ d, Valid m d → d ∉ sparesOf (chunks2 nds) → pos m' d = pos m d) ∧
    ∃ x1 x2, L.drop (chunks2 nds).length = [x1, x2] ∧
      (loopTris s L (chunks2 nds) ++ [(loopEnd s (chunks2 nds), x1, x2)]).map (posTri m') =
        fanValTris (pos m s) (L.map (pos m)) ((chunks2 nds).length + 1) := by
  have hp : FacePath m s L := hc.facePath
  have hLne : L ≠ [] := by intro h0; rw [h0] at hlen; simp at hlen
  have hwf := hi.wf
  unfold fanFrom at h
  obtain ⟨_, hs, h⟩ := rB_ok hi h
  obtain ⟨vid, hvid, h⟩ := ro_bind_ok (readOnly_vertexId2 n s) h
  obtain ⟨v0, hv0, h⟩ := ro_bind_ok (ReadOnly.rA 0 vid) h
  cases v0 with
  | none => simp at h
  | some v0 =>
      simp only at h
      obtain ⟨_, m1, s1, h⟩ := run_bind_ok h
      obtain ⟨i1, lb0, _, e1⟩ := oneUnsew2_eff cfg n hi s1
      have ls : Live n u s := hi.live_of_image (by omega) hs lb0.1
      have vs : Valid m s := valid_of_live hi ls
      -- the apex value
      have hvidc : vid = cellId m .vertex s := by
        have := (C03_vertexId2_min hwf vs.1 vs.2).1
        rw [hi.n_eq, hvid] at this
        exact (Prod.mk.inj this).1 |> Out.ok.inj
      have hv0' : pos m s = some v0 := by
        rw [run_rA'] at hv0
        by_cases hok : m.okA 0 vid = true
        · simp only [hok, if_true, Prod.mk.injEq] at hv0
          unfold pos; rw [← hvidc]; exact Out.ok.inj hv0.1
        · simp [hok] at hv0
      -- the dart before `s` is the last dart of the face
      have hlast := hc.last hLne
      have hzL : L.getLast hLne ∈ L := List.getLast_mem hLne
      have hzlt : L.getLast hLne < m.n :=
        hi.wf.toSized.lt_of_β_ne (i := 1) (by omega) (by rw [hlast]; exact ls.1)
      have hb0 : m.β 0 s = L.getLast hLne := by
        have := hi.wf.inv01 _ hzlt (by rw [hlast]; exact ls.1)
        rw [hlast] at this; exact this
      have hback : m.β 1 (m.β 0 s) = s := by rw [hb0]; exact hlast
      rw [hback] at e1
      have hnd := hp.nodup
      simp only [List.nodup_cons] at hnd
      have hch1 : B1Chain m1 s L := by
        refine B1Chain.frame L s hp.chain fun y hy => ?_
        have hyne : m.β 0 s ≠ y := by
          rintro rfl
          have := B1Chain.succ_mem L s _ hp.chain hy
          rw [hback] at this
          exact hnd.1 this
        rw [e1, if_neg (fun hh => absurd hh.1 (by decide)), if_neg (fun hh => hyne hh.2)]
      obtain ⟨⟨_, fc1⟩, pA, _⟩ := unsew1_pos cfg hlaw hi hfc s1
      have hfc1 : m1.fc = 0 := by rw [fc1]; exact hfc
      have hfree1 : ∀ x ∈ sparesOf (chunks2 nds), ∀ i, i < 3 → m1.β i x = 0 := by
        intro x hx i hi3
        rw [e1]
        by_cases c1 : 0 = i ∧ s = x
        · rw [if_pos c1]
        · rw [if_neg c1]
          by_cases c2 : 1 = i ∧ m.β 0 s = x
          · rw [if_pos c2]
          · rw [if_neg c2]; exact hfree x hx i hi3
      have vsp : ∀ x ∈ sparesOf (chunks2 nds), Valid m x := fun x hx => valid_of_live hi (hsp x hx).1
      have hnone1 : ∀ x ∈ sparesOf (chunks2 nds), pos m1 x = none := fun x hx => by
        rw [pA x (vsp x hx)]; exact hnone x hx
      obtain ⟨r, m2, s2, h⟩ := run_bind_ok h
      obtain ⟨i2, lr, hr, hchr, _, _, hf2, _, _⟩ :=
        fanLoop_struct cfg n _ s L m1 m2 r i1 ls hch1 hlen hp.nodup hp.nz hsnd hsp s2
      obtain ⟨_, hfc2, pB, trisB, endB⟩ :=
        fanLoop_pos cfg hlaw _ s L m1 m2 r i1 hfc1 ls hch1 hlen hp.nodup hp.nz hsnd hsp hfree1 hnone1 s2
      rw [← hr] at endB
      -- the last two darts of the face
      have hdrop : (L.drop (chunks2 nds).length).length = 2 := by rw [List.length_drop]; omega
      match hD : L.drop (chunks2 nds).length, hdrop with
      | [x1, x2], _ =>
        rw [hD] at hchr
        obtain ⟨c1, c2, _⟩ := hchr
        have hx1L : x1 ∈ L := List.mem_of_mem_drop (by rw [hD]; simp)
        have hx2L : x2 ∈ L := List.mem_of_mem_drop (by rw [hD]; simp)
        obtain ⟨_, _, h⟩ := rB_ok i2 h
        rw [c1] at h
        obtain ⟨_, hx1, h⟩ := rB_ok i2 h
        rw [c2] at h
        have lx2 : Live n u x2 := by
          have := i2.live_image (i := 1) (by omega) hx1 (by rw [c2]; exact hp.nz x2 hx2L)
          rw [c2] at this; exact this
        obtain ⟨_, m3, s3, h⟩ := run_bind_ok h
        obtain ⟨i3, _, _, e3⟩ := oneSew2_eff cfg n i2 lx2 lr s3
        obtain ⟨vid2, hvid2, h⟩ := ro_bind_ok (readOnly_vertexId2 n s) h
        obtain ⟨_, m4, s4, h⟩ := run_bind_ok h
        simp at h
        subst h
        -- `β1 x2 = s` in the original map
        have hx2s : m.β 1 x2 = s := by
          have hL : L = L.take (chunks2 nds).length ++ [x1, x2] := by rw [← hD, List.take_append_drop]
          have hch := hc.chain
          rw [hL] at hch
          have e : (L.take (chunks2 nds).length ++ [x1, x2]) ++ [s] =
              (L.take (chunks2 nds).length ++ [x1]) ++ x2 :: [s] := by simp
          rw [e, B1Chain.append] at hch
          exact hch.2.1
        have vx2 : Valid m x2 := valid_of_live hi lx2
        have hx2sp : x2 ∉ sparesOf (chunks2 nds) := fun hh => (hsp x2 hh).2 (List.mem_cons_of_mem _ hx2L)
        have hssp : s ∉ sparesOf (chunks2 nds) := fun hh => (hsp s hh).2 (by simp)
        have hb2x2 : m2.β 2 x2 = m.β 2 x2 := by
          rw [hf2 x2 hx2sp, e1, if_neg (fun hh => absurd hh.1 (by decide)), if_neg (fun hh => absurd hh.1 (by decide))]
        have p12 : ∀ d, Valid m d → d ∉ sparesOf (chunks2 nds) → pos m2 d = pos m d := fun d hd hns => by
          rw [pB d (valid_trans hi i1 hd) hns, pA d hd]
        have hpr : pos m2 r = pos m s := by rw [endB, pA s vs]
        -- the closing sew keeps every coordinate
        obtain ⟨⟨_, fc3⟩, kC, mC⟩ := sew1_pos cfg hlaw i2 hfc2 lx2 lr s3
        have pC : ∀ d, Valid m d → pos m3 d = pos m2 d := by
          intro d hd
          have hd2 := valid_trans hi i2 hd
          by_cases hnb : m2.β 2 x2 = 0
          · exact (kC hnb).1 d hd2
          · obtain ⟨_, keepC, mergedC, valueC⟩ := mC hnb
            have hnb' : m.β 2 x2 ≠ 0 := by rw [← hb2x2]; exact hnb
            have hnbv : Valid m (m.β 2 x2) := ⟨hnb', hwf.range 2 (by omega) x2 vx2.2⟩
            have hinv := hwf.invol 2 (by omega) (by omega) x2 vx2.2 hnb'
            have hstep : VC m (m.β 2 x2) s := by
              refine SameCell.step ⟨hnb', hnbv.2, ls.1, ?_⟩
              simp only [g2, List.mem_cons]
              left; rw [hinv.1, hx2s]
            have hnbsp : m.β 2 x2 ∉ sparesOf (chunks2 nds) := fun hh => by
              have := hfree _ hh 2 (by omega); rw [hinv.1] at this; exact vx2.1 this
            have hpn : pos m2 (m2.β 2 x2) = pos m2 r := by
              rw [hb2x2, p12 _ hnbv hnbsp, hpr]
              exact pos_eq_of_VC hwf hnbv vs hstep
            have hval : pos m3 r = pos m2 r := by
              rw [valueC (fun x y hx hy => by rw [hpn, hy] at hx; exact (Option.some.inj hx).symm), hpn, or_self']
            by_cases hcc : VC m2 d (m2.β 2 x2) ∨ VC m2 d r
            · rw [mergedC d hd2 hcc, hval]
              rcases hcc with c | c
              · rw [← hpn]
                exact (pos_eq_of_VC i2.wf hd2 ⟨hnb, by rw [hb2x2, i2.n_eq, ← hi.n_eq]; exact hnbv.2⟩ c).symm
              · exact (pos_eq_of_VC i2.wf hd2 (valid_of_live i2 lr) c).symm
            · exact keepC d hd2 (fun c => hcc (Or.inl c)) (fun c => hcc (Or.inr c))
        -- the final write puts back the apex value
        have hvid2c : vid2 = cellId m3 .vertex s := by
          have v3 := valid_trans hi i3 vs
          have := (C03_vertexId2_min i3.wf v3.1 v3.2).1
          rw [i3.n_eq, hvid2] at this
          exact (Prod.mk.inj this).1 |> Out.ok.inj
        have hatt3 : m3.att 0 vid2 = some v0 := by
          have : pos m3 s = some v0 := by rw [pC s vs, p12 s vs hssp]; exact hv0'
          rw [hvid2c]; exact this
        obtain ⟨_, pD⟩ := writeVtx_pos s4 hatt3
        have pall : ∀ d, Valid m d → pos m4 d = pos m2 d := fun d hd => by rw [pD d, pC d hd]
        refine ⟨fun d hd hns => by rw [pall d hd, p12 d hd hns], x1, x2, rfl, ?_⟩
        have hmapL : L.map (pos m1) = L.map (pos m) := by
          apply List.map_congr_left
          intro y hy
          exact pA y (B1Chain.valid hwf L s vs hp.nz hp.chain y hy)
        rw [fanValTris_succ (pos m s) _ (L.map (pos m)) (pos m x1) (pos m x2)
          (by rw [← List.map_drop, hD]; rfl), List.map_append]
        congr 1
        · rw [← pA s vs, ← hmapL, ← trisB]
          apply List.map_congr_left
          intro t ht
          obtain ⟨a, b, c⟩ := loopTris_mem _ _ _ t ht
          have va : Valid m t.1 := by
            rcases a with a | a
            · rw [a]; exact vs
            · exact vsp _ a
          have vb : Valid m t.2.1 :=
            B1Chain.valid hwf L s vs hp.nz hp.chain _ (List.mem_of_mem_take b)
          have vc : Valid m t.2.2 := vsp _ c
          unfold posTri
          rw [pall _ va, pall _ vb, pall _ vc]
        · have vr : Valid m r := valid_of_live hi lr
          have vx1 : Valid m x1 := B1Chain.valid hwf L s vs hp.nz hp.chain x1 hx1L
          have hx1sp : x1 ∉ sparesOf (chunks2 nds) := fun hh => (hsp x1 hh).2 (List.mem_cons_of_mem _ hx1L)
          simp only [List.map_cons, List.map_nil]
          unfold posTri
          rw [← hr]
          show [(pos m4 r, pos m4 x1, pos m4 x2)] = _
          rw [pall r vr, hpr, pall x1 vx1, p12 x1 vx1 hx1sp, pall x2 vx2, p12 x2 vx2 hx2sp]

/-! ## from dart values to the vertex-list triangles -/

/-- a free dart is its own vertex identifier -/
theorem cellId_free {m : Map Val} (hwf : WF 3 m) {e : Nat} (he : Valid m e) (hfree : ∀ i, i < 3 → m.β i e = 0) :
    cellId m .vertex e = e :=
  free_singleton hwf he hfree _ (cellId_VC hwf he).1

theorem pos_free {m : Map Val} (hwf : WF 3 m) {e : Nat} (he : Valid m e) (hfree : ∀ i, i < 3 → m.β i e = 0) :
    pos m e = m.att 0 e := by
  unfold pos; rw [cellId_free hwf he hfree]

/-- what `faceVertices` reads: the coordinates of the darts, through their vertex identifiers -/
theorem faceVertices_pos {m : Map Val} (hwf : WF 3 m) : ∀ (ds : List Nat) (vals : List Val) (m' : Map Val),
    (∀ d ∈ ds, Valid m d) → run (faceVertices m.n ds) m = (.ok vals, m') → vals.map some = ds.map (pos m) := by
  intro ds
  induction ds with
  | nil => intro vals m' _ h; simp [faceVertices] at h; obtain ⟨rfl, _⟩ := h; rfl
  | cons d rest ih =>
      intro vals m' hv h
      unfold faceVertices at h
      obtain ⟨vid, h1, h⟩ := ro_bind_ok (readOnly_vertexId2 m.n d) h
      obtain ⟨v, hv0, h⟩ := ro_bind_ok (ReadOnly.rA 0 vid) h
      have vd := hv d (by simp)
      have hvidc : vid = cellId m .vertex d := by
        have := (C03_vertexId2_min hwf vd.1 vd.2).1
        rw [h1] at this
        exact (Prod.mk.inj this).1 |> Out.ok.inj
      cases v with
      | none => simp at h
      | some v =>
          simp only at h
          obtain ⟨r, m2, h2, hfin⟩ := run_bind_ok h
          obtain ⟨_, e2⟩ := faceVertices_length _ _ _ _ _ h2
          rw [e2] at h2 hfin
          have e1 := ih r _ (fun x hx => hv x (List.mem_cons_of_mem _ hx)) h2
          simp at hfin
          obtain ⟨hvals, _⟩ := hfin
          rw [← hvals]
          have hp : pos m d = some v := by
            rw [run_rA'] at hv0
            by_cases hok : m.okA 0 vid = true
            · simp only [hok, if_true, Prod.mk.injEq] at hv0
              unfold pos; rw [← hvidc]; exact Out.ok.inj hv0.1
            · simp [hok] at hv0
          simp only [List.map_cons, e1, hp]

theorem fanValTris_map {α β : Type} (f : α → β) (a : α) : ∀ (vs : List α) (k : Nat),
    fanValTris (f a) (vs.map f) k = (fanValTris a vs k).map (fun t => (f t.1, f t.2.1, f t.2.2)) := by
  intro vs
  induction vs with
  | nil => intro k; simp [fanValTris]
  | cons v1 rest ih =>
      intro k
      cases rest with
      | nil => simp [fanValTris]
      | cons v2 r =>
          cases k with
          | zero => simp [fanValTris]
          | succ k =>
              have := ih k
              simp only [List.map_cons] at this
              simp only [List.map_cons, fanValTris, this]

theorem fanValTris_zip {α : Type} (a : α) : ∀ (vs : List α) (k : Nat), vs.length = k + 1 →
    fanValTris a vs k = (vs.zip vs.tail).map (fun bc => (a, bc.1, bc.2)) := by
  intro vs
  induction vs with
  | nil => intro k h; simp at h
  | cons v1 rest ih =>
      intro k h
      cases rest with
      | nil => simp [fanValTris]
      | cons v2 r =>
          cases k with
          | zero => simp at h
          | succ k =>
              have := ih k (by simp at h ⊢; omega)
              simp only [List.tail_cons] at this ⊢
              simp only [fanValTris, this, List.zip_cons_cons, List.map_cons]

theorem filterMap_of_map_some {α β : Type} (f : α → Option β) : ∀ (l : List α) (ys : List β),
    l.map f = ys.map some → l.filterMap f = ys := by
  intro l
  induction l with
  | nil => intro ys h; cases ys with
    | nil => rfl
    | cons _ _ => simp at h
  | cons x rest ih =>
      intro ys h
      cases ys with
      | nil => simp at h
      | cons y ys' =>
          simp only [List.map_cons, List.cons.injEq] at h
          rw [List.filterMap_cons, h.1, ih ys' h.2]

/-- the triangle of 2D points carried by the three corners of a dart triangle (if all three are defined) -/
def triP2 (m : Map Val) (t : Nat × Nat × Nat) : Option Tri :=
  match pos m t.1, pos m t.2.1, pos m t.2.2 with
  | some a, some b, some c => some (a.p2, b.p2, c.p2)
  | _, _, _ => none

/-- the triangles of the result map as 2D triangles -/
def mapTris (m : Map Val) (ts : List (Nat × Nat × Nat)) : List Tri := ts.filterMap (triP2 m)

theorem triP2_of_posTri {m : Map Val} {t : Nat × Nat × Nat} {a b c : Val}
    (h : posTri m t = (some a, some b, some c)) : triP2 m t = some (a.p2, b.p2, c.p2) := by
  unfold posTri at h
  simp only [Prod.mk.injEq] at h
  unfold triP2
  rw [h.1, h.2.1, h.2.2]

/-- the list form: if the corners carry the fan of the rotated value list, the 2D triangles are `fanTriangles` -/
theorem triP2_of_fanValTris {m : Map Val} (ts : List (Nat × Nat × Nat)) (vals : List Val) (id : Nat) (v : Val)
    (vl : List Val) (k : Nat) (hrot : vals.drop id ++ vals.take id = v :: vl) (hk : vl.length = k + 1)
    (h : ts.map (posTri m) = fanValTris (some v) (vl.map some) k) :
    ts.map (triP2 m) = (fanTriangles (vals.map Val.p2) id).map some := by
  have hft : fanTriangles (vals.map Val.p2) id = (fanValTris v vl k).map (fun t => (t.1.p2, t.2.1.p2, t.2.2.p2)) := by
    unfold fanTriangles rotL
    rw [← List.map_drop, ← List.map_take, ← List.map_append, hrot]
    simp only [List.map_cons]
    rw [← fanValTris_zip (Val.p2 v) (vl.map Val.p2) k (by simp [hk]), fanValTris_map]
  rw [hft, fanValTris_map] at *
  clear hft
  generalize fanValTris v vl k = F at h
  induction ts generalizing F with
  | nil => cases F with
    | nil => rfl
    | cons _ _ => simp at h
  | cons t rest ih =>
      cases F with
      | nil => simp at h
      | cons T F' =>
          simp only [List.map_cons, List.cons.injEq] at h ⊢
          exact ⟨triP2_of_posTri h.1, ih F' h.2⟩

/-! ## the kernels -/

/-- the dart triangles of the fan of the face `s :: L` with the spare pairs `cs`, in the order they are closed:
    `(s, c1, p1), (q1, c2, p2), …` and last `(q_last, c_{n-2}, c_{n-1})` -/
def fanFaces (s : Nat) (L : List Nat) (cs : List (Nat × Nat)) : List (Nat × Nat × Nat) :=
  loopTris s L cs ++
    match L.drop cs.length with
    | [x1, x2] => [(loopEnd s cs, x1, x2)]
    | _ => []

/-- both fan kernels from the apex dart `s` of the closed face `s :: L`, spare darts fresh -/
theorem fanFrom_tie (cfg : Cfg Val) (hlaw : cfg.law 0 = avgLaw) (m m' : Map Val) (s : Nat) (L : List Nat)
    (nds : List Nat) (hwf : WF 3 m) (hfc : m.fc = 0) (hc : ClosedFace m s L)
    (hlen : L.length = (chunks2 nds).length + 2)
    (hsp : ∀ d ∈ nds, C01.InUse m d ∧ d ∉ s :: L) (hnd : nds.Nodup)
    (hfresh : ∀ d ∈ nds, (∀ i, i < 3 → m.β i d = 0) ∧ m.att 0 d = none)
    (h : run (fanFrom cfg m.n s nds) m = (.ok (), m')) :
    WF 3 m' ∧ FanResult m m' s L (chunks2 nds) ∧
    (∀ t ∈ fanFaces s L (chunks2 nds), TriFace m' t) ∧
    (fanFaces s L (chunks2 nds)).length + 1 = L.length ∧
    (∀ d, d ≠ 0 → d < m.n → d ∉ nds → pos m' d = pos m d) ∧
    (fanFaces s L (chunks2 nds)).map (posTri m') =
      fanValTris (pos m s) (L.map (pos m)) ((chunks2 nds).length + 1) := by
  have hsub := sparesOf_chunks2_sublist nds
  have hi : Inv m.n m.u m := Inv.of_wf hwf
  have hsp' : ∀ x ∈ sparesOf (chunks2 nds), Live m.n m.u x ∧ x ∉ s :: L :=
    fun x hx => ⟨(hsp x (hsub.subset hx)).1, (hsp x (hsub.subset hx)).2⟩
  obtain ⟨i1, r⟩ := C13_fan_structure (n := m.n) (u := m.u) cfg m.n s nds L m m' hi hc hlen (hnd.sublist hsub) hsp' h
  have hnone : ∀ x ∈ sparesOf (chunks2 nds), pos m x = none := by
    intro x hx
    have hx' := hsub.subset hx
    rw [pos_free hwf (valid_of_live hi (hsp' x hx).1) (hfresh x hx').1]
    exact (hfresh x hx').2
  obtain ⟨keep, x1, x2, hD, tris⟩ := fanFrom_pos (n := m.n) (u := m.u) cfg hlaw s nds L m m' hi hfc hc hlen
    (hnd.sublist hsub) hsp' (fun x hx => (hfresh x (hsub.subset hx)).1) hnone h
  have hff : fanFaces s L (chunks2 nds) = loopTris s L (chunks2 nds) ++ [(loopEnd s (chunks2 nds), x1, x2)] := by
    unfold fanFaces; rw [hD]
  refine ⟨i1.wf, r, ?_, ?_, fun d hd0 hdlt hdn => keep d ⟨hd0, hdlt⟩ (fun hh => hdn (hsub.subset hh)), ?_⟩
  rotate_left
  · rw [hff, List.length_append]
    have := r.2.1
    simp only [List.length_singleton]
    omega
  rotate_left
  · obtain ⟨⟨y1, y2, hD', ht⟩, _⟩ := r
    rw [hD] at hD'
    simp only [List.cons.injEq, and_true] at hD'
    rw [hff, hD'.1, hD'.2]
    exact ht
  · rw [hff]; exact tris

/-- a closed face read from its dart of index `id` -/
theorem ClosedFace.rotL {m : Map Val} {a : Nat} {rest : List Nat} (hc : ClosedFace m a rest) (id : Nat)
    (hid : id < (a :: rest).length) :
    ∃ L, (a :: rest).getD id 0 :: L = (a :: rest).drop id ++ (a :: rest).take id ∧
      ClosedFace m ((a :: rest).getD id 0) L := by
  cases id with
  | zero => exact ⟨rest, by simp, by simpa using hc⟩
  | succ j =>
      simp only [List.length_cons, Nat.add_lt_add_iff_right] at hid
      have hsplit : rest = rest.take j ++ rest[j] :: rest.drop (j + 1) := by
        rw [List.getElem_cons_drop, List.take_append_drop]
      have hget : (a :: rest).getD (j + 1) 0 = rest[j] := by
        simp [List.getD_eq_getElem?_getD, List.getElem?_eq_getElem hid]
      rw [hget]
      refine ⟨rest.drop (j + 1) ++ a :: rest.take j, ?_, ?_⟩
      · simp only [List.drop_succ_cons, List.take_succ_cons]
        rw [← List.cons_append, List.getElem_cons_drop]
      · rw [hsplit] at hc
        exact hc.rotate_at

/-- the tie between the rotated dart list and the rotated value list -/
theorem rot_values {m : Map Val} {darts : List Nat} {vals : List Val} {id s : Nat} {L : List Nat}
    (hvals : vals.map some = darts.map (pos m)) (hrot : s :: L = darts.drop id ++ darts.take id) :
    ∃ v vl, vals.drop id ++ vals.take id = v :: vl ∧ pos m s = some v ∧ L.map (pos m) = vl.map some := by
  have e : (vals.drop id ++ vals.take id).map some = (s :: L).map (pos m) := by
    rw [hrot, List.map_append, List.map_append, List.map_drop, List.map_take, List.map_drop, List.map_take, hvals]
  cases hr : vals.drop id ++ vals.take id with
  | nil => rw [hr] at e; simp at e
  | cons v vl =>
      rw [hr] at e
      simp only [List.map_cons, List.cons.injEq] at e
      exact ⟨v, vl, rfl, e.1.symm, e.2.symm⟩

/-! ## the triangles of the vertex-list fan are the sides seen from the apex -/

theorem mod_wrap (a n : Nat) (h : a < 2 * n) : a % n = if a < n then a else a - n := by
  by_cases c : a < n
  · rw [if_pos c, Nat.mod_eq_of_lt c]
  · rw [if_neg c, Nat.mod_eq_sub_mod (by omega), Nat.mod_eq_of_lt (by omega)]

theorem rot_get (vs : List P2) (k : Nat) (hk : k < vs.length) (j : Nat) (hj : j < vs.length - 1) :
    (vs.drop (k + 1) ++ vs.take k).getD j default = vs.getD ((k + 1 + j) % vs.length) default := by
  rw [mod_wrap _ _ (by omega)]
  simp only [List.getD_eq_getElem?_getD]
  by_cases c : k + 1 + j < vs.length
  · rw [if_pos c, List.getElem?_append_left (by rw [List.length_drop]; omega), List.getElem?_drop]
  · rw [if_neg c, List.getElem?_append_right (by rw [List.length_drop]; omega), List.length_drop,
      List.getElem?_take_of_lt (by omega)]
    congr 2
    omega

/-- every triangle of `fanTriangles vs k` is `(v_k, v_i, v_{i+1})` for a side `i` not incident to the apex -/
theorem fanTriangles_mem (vs : List P2) (k : Nat) (hk : k < vs.length) (T : Tri) (hT : T ∈ fanTriangles vs k) :
    ∃ i, i < vs.length ∧ i ≠ k ∧ (i + 1) % vs.length ≠ k ∧ tri2 T = sideCross vs k i := by
  unfold fanTriangles rotL at hT
  rw [← List.getElem_cons_drop (h := hk)] at hT
  simp only [List.cons_append, List.mem_map] at hT
  obtain ⟨bc, hbc, rfl⟩ := hT
  obtain ⟨j, hj, hget⟩ := List.mem_iff_getElem.1 hbc
  have hlen : (vs.drop (k + 1) ++ vs.take k).length = vs.length - 1 := by
    rw [List.length_append, List.length_drop, List.length_take]; omega
  simp only [List.length_zip, List.length_tail, hlen] at hj
  rw [List.getElem_zip] at hget
  have hj1 : j < vs.length - 1 := by omega
  have hj2 : j + 1 < vs.length - 1 := by omega
  have g1 := rot_get vs k hk j hj1
  have g2 := rot_get vs k hk (j + 1) hj2
  rw [← List.getElem_eq_getD (h := by rw [hlen]; exact hj1)] at g1
  rw [← List.getElem_eq_getD (h := by rw [hlen]; exact hj2)] at g2
  have hn : 0 < vs.length := by omega
  refine ⟨(k + 1 + j) % vs.length, Nat.mod_lt _ hn, ?_, ?_, ?_⟩
  · rw [mod_wrap _ _ (by omega)]
    by_cases c : k + 1 + j < vs.length
    · rw [if_pos c]; omega
    · rw [if_neg c]; omega
  · rw [Nat.mod_add_mod, mod_wrap _ _ (by omega)]
    by_cases c : k + 1 + j + 1 < vs.length
    · rw [if_pos c]; omega
    · rw [if_neg c]; omega
  · unfold tri2 sideCross
    rw [Nat.mod_add_mod, ← hget]
    simp only [List.getElem_tail]
    rw [← g1, show k + 1 + j + 1 = k + 1 + (j + 1) by omega, ← g2, ← List.getElem_eq_getD (h := hk)]

theorem sum_pos_of_pos : ∀ (l : List Rat), l ≠ [] → (∀ x ∈ l, 0 < x) → 0 < l.sum := by
  intro l
  induction l with
  | nil => intro h _; exact absurd rfl h
  | cons x rest ih =>
      intro _ h
      rw [List.sum_cons]
      have hx := h x (by simp)
      cases rest with
      | nil => simpa using hx
      | cons y r =>
          have := ih (by simp) (fun z hz => h z (List.mem_cons_of_mem _ hz))
          linarith

theorem sum_neg_of_neg : ∀ (l : List Rat), l ≠ [] → (∀ x ∈ l, x < 0) → l.sum < 0 := by
  intro l
  induction l with
  | nil => intro h _; exact absurd rfl h
  | cons x rest ih =>
      intro _ h
      rw [List.sum_cons]
      have hx := h x (by simp)
      cases rest with
      | nil => simpa using hx
      | cons y r =>
          have := ih (by simp) (fun z hz => h z (List.mem_cons_of_mem _ hz))
          linarith

/-! ## the theorems -/

/-- **C13, the triangles of the map carry the triangles of the vertex list (`fan_cell`)**.  On a closed face
    `face :: rest` of a well-formed map, with spare darts that are in use, pairwise distinct, outside the face and
    FRESH (free: all β null; valueless: no vertex value stored under them), every successful run
    * read the vertex list `vals` of the face (`faceVertices`), found the star index `id` on it (`fanStar`),
    * fanned the face from its dart `s` of index `id`: `s :: L` is the face read from `s`, the `n - 2` dart triangles
      `fanFaces s L _` are closed β1-cycles of the result (`TriFace`), and
    * the corners of the k-th dart triangle, read through the vertex identifiers of the RESULT map
      (`pos m' d = m'.att 0 (vertex_id d)`), are the k-th triangle of `fanTriangles (vals.map Val.p2) id`, the
      vertex-list computation of `C13_fan_area_sum` / `C13_fan_apex_sees_all`.
    Needs the vertex merge law to be the average (`Vertex2`), and no injected failure (`fc = 0`). -/
theorem C13_fan_triangles_carry_list_coordinates (cfg : Cfg Val) (hlaw : cfg.law 0 = avgLaw) (m m' : Map Val)
    (face : Nat) (nds rest : List Nat) (hwf : WF 3 m) (hfc : m.fc = 0) (hc : ClosedFace m face rest)
    (hsp : ∀ d ∈ nds, C01.InUse m d ∧ d ∉ face :: rest) (hnd : nds.Nodup)
    (hfresh : ∀ d ∈ nds, (∀ i, i < 3 → m.β i d = 0) ∧ m.att 0 d = none)
    (h : run (fanCell cfg m.n face nds) m = (.ok (), m')) :
    ∃ (vals : List Val) (id s : Nat) (L : List Nat),
      run (faceVertices m.n (face :: rest)) m = (.ok vals, m) ∧
      fanStar (vals.map Val.p2) = some (some id) ∧
      s :: L = (face :: rest).drop id ++ (face :: rest).take id ∧
      ClosedFace m s L ∧ WF 3 m' ∧
      (∀ t ∈ fanFaces s L (chunks2 nds), TriFace m' t) ∧
      (fanFaces s L (chunks2 nds)).length + 2 = (face :: rest).length ∧
      (fanFaces s L (chunks2 nds)).map (triP2 m') = (fanTriangles (vals.map Val.p2) id).map some ∧
      (∀ d, d ≠ 0 → d < m.n → d ∉ nds → pos m' d = pos m d) := by
  obtain ⟨darts, vals, id, h1, h2, h4, hn, hs, hfrom, _⟩ := C13_fan_kernel_star cfg m.n face nds m m' h
  have hd : darts = face :: rest := by
    have := closedFace_orbit_eq hwf hc
    rw [h1] at this
    exact Out.ok.inj (Prod.mk.inj this).1
  rw [hd] at h2 h4 hn hfrom
  obtain ⟨hvl, _⟩ := faceVertices_length m.n _ _ _ _ h2
  have hid : id < (face :: rest).length := by
    have := (fanStarFrom_some _ _ id hs).1
    simpa [hvl] using this
  obtain ⟨L, hrot, hcs⟩ := hc.rotL id hid
  have hLlen : L.length = rest.length := by
    have := congrArg List.length hrot
    simp only [List.length_cons, List.length_append, List.length_drop, List.length_take] at this hid
    omega
  have hk := chunks2_length nds
  have hmem : ∀ x, x ∈ (face :: rest).getD id 0 :: L → x ∈ face :: rest := by
    intro x hx
    rw [hrot, List.mem_append] at hx
    rcases hx with hx | hx
    · exact List.mem_of_mem_drop hx
    · exact List.mem_of_mem_take hx
  obtain ⟨wf', _, faces, flen, keep, tris⟩ := fanFrom_tie cfg hlaw m m' _ L nds hwf hfc hcs
    (by simp only [List.length_cons] at h4 hn; omega)
    (fun d hd => ⟨(hsp d hd).1, fun hh => (hsp d hd).2 (hmem d hh)⟩) hnd hfresh hfrom
  have hvals := faceVertices_pos hwf _ _ _ (fun d hd => ⟨hc.nz d hd, hc.lt hwf hd⟩) h2
  obtain ⟨v, vl, hr, hv, hvl'⟩ := rot_values hvals hrot
  rw [hv, hvl'] at tris
  have hvll : vl.length = (chunks2 nds).length + 1 + 1 := by
    have := congrArg List.length hvl'
    simp only [List.length_map] at this
    simp only [List.length_cons] at h4 hn
    omega
  exact ⟨vals, id, _, L, h2, hs, hrot, hcs, wf', faces, by simp only [List.length_cons]; omega,
    triP2_of_fanValTris _ vals id v vl _ hr hvll tris, keep⟩

/-- **C13, the area of the polygon is conserved IN THE MAP (`fan_cell`)**: the cross products of the dart triangles of
    the result, with corners read through the result's vertex identifiers, add up to twice the signed area of the
    polygon read before the fan -/
theorem C13_fan_area_conserved_in_map (cfg : Cfg Val) (hlaw : cfg.law 0 = avgLaw) (m m' : Map Val)
    (face : Nat) (nds rest : List Nat) (hwf : WF 3 m) (hfc : m.fc = 0) (hc : ClosedFace m face rest)
    (hsp : ∀ d ∈ nds, C01.InUse m d ∧ d ∉ face :: rest) (hnd : nds.Nodup)
    (hfresh : ∀ d ∈ nds, (∀ i, i < 3 → m.β i d = 0) ∧ m.att 0 d = none)
    (h : run (fanCell cfg m.n face nds) m = (.ok (), m')) :
    ∃ (vals : List Val) (id s : Nat) (L : List Nat),
      run (faceVertices m.n (face :: rest)) m = (.ok vals, m) ∧
      s :: L = (face :: rest).drop id ++ (face :: rest).take id ∧
      (∀ t ∈ fanFaces s L (chunks2 nds), TriFace m' t) ∧
      (mapTris m' (fanFaces s L (chunks2 nds))).length + 2 = (face :: rest).length ∧
      ((mapTris m' (fanFaces s L (chunks2 nds))).map tri2).sum = area2 (vals.map Val.p2) := by
  obtain ⟨vals, id, s, L, a1, _, a3, _, _, a6, a7, a8, _⟩ :=
    C13_fan_triangles_carry_list_coordinates cfg hlaw m m' face nds rest hwf hfc hc hsp hnd hfresh h
  have e : mapTris m' (fanFaces s L (chunks2 nds)) = fanTriangles (vals.map Val.p2) id :=
    filterMap_of_map_some _ _ _ a8
  have hl := congrArg List.length a8
  simp only [List.length_map] at hl
  exact ⟨vals, id, s, L, a1, a3, a6, by rw [e, ← hl]; exact a7, by rw [e]; exact C13_fan_area_sum _ _⟩

/-- **C13, the orientation of the triangles IN THE MAP (`fan_cell`)**: if no side of the polygon is collinear with a
    vertex it is not incident to (general position; the star test alone leaves the first examined side weak,
    `C13_fan_first_side_weak_witness`), all dart triangles of the result, corners read through the result's vertex
    identifiers, are strictly oriented like the polygon -/
theorem C13_fan_orientation_in_map (cfg : Cfg Val) (hlaw : cfg.law 0 = avgLaw) (m m' : Map Val)
    (face : Nat) (nds rest : List Nat) (hwf : WF 3 m) (hfc : m.fc = 0) (hc : ClosedFace m face rest)
    (hsp : ∀ d ∈ nds, C01.InUse m d ∧ d ∉ face :: rest) (hnd : nds.Nodup)
    (hfresh : ∀ d ∈ nds, (∀ i, i < 3 → m.β i d = 0) ∧ m.att 0 d = none)
    (hgp : ∀ vals, run (faceVertices m.n (face :: rest)) m = (.ok vals, m) → ∀ k, k < vals.length →
      ∀ i, i < vals.length → i ≠ k → (i + 1) % vals.length ≠ k → sideCross (vals.map Val.p2) k i ≠ 0)
    (h : run (fanCell cfg m.n face nds) m = (.ok (), m')) :
    ∃ (vals : List Val) (id s : Nat) (L : List Nat),
      run (faceVertices m.n (face :: rest)) m = (.ok vals, m) ∧
      s :: L = (face :: rest).drop id ++ (face :: rest).take id ∧
      (∀ t ∈ fanFaces s L (chunks2 nds), TriFace m' t) ∧
      ((0 < area2 (vals.map Val.p2) ∧ ∀ T ∈ mapTris m' (fanFaces s L (chunks2 nds)), 0 < tri2 T) ∨
       (area2 (vals.map Val.p2) < 0 ∧ ∀ T ∈ mapTris m' (fanFaces s L (chunks2 nds)), tri2 T < 0)) := by
  obtain ⟨vals, id, s, L, a1, a2, a3, _, _, a6, a7, a8, _⟩ :=
    C13_fan_triangles_carry_list_coordinates cfg hlaw m m' face nds rest hwf hfc hc hsp hnd hfresh h
  have e : mapTris m' (fanFaces s L (chunks2 nds)) = fanTriangles (vals.map Val.p2) id :=
    filterMap_of_map_some _ _ _ a8
  have hl := congrArg List.length a8
  simp only [List.length_map] at hl
  obtain ⟨hvl, _⟩ := faceVertices_length m.n _ _ _ _ a1
  have hne : (fanTriangles (vals.map Val.p2) id).map tri2 ≠ [] := by
    intro h0
    have := congrArg List.length h0
    simp only [List.length_map, List.length_nil] at this
    simp only [List.length_cons] at a7 hvl
    have hr3 : 4 ≤ (face :: rest).length := by
      obtain ⟨darts, _, _, h1, _, h4, _⟩ := C13_fan_kernel_star cfg m.n face nds m m' h
      have hd := closedFace_orbit_eq hwf hc
      rw [h1] at hd
      rw [Out.ok.inj (Prod.mk.inj hd).1] at h4
      exact h4
    simp only [List.length_cons] at hr3
    omega
  have hgp' := hgp vals a1
  have hid0 : id < vals.length := by
    have := (fanStarFrom_some _ _ id a2).1
    simpa using this
  obtain ⟨hid, hsign⟩ := C13_fan_apex_sees_all (vals.map Val.p2) id a2 (by
    intro i h1 h2 h3
    simp only [List.length_map] at h1 h3
    exact hgp' id hid0 i h1 h2 h3)
  refine ⟨vals, id, s, L, a1, a3, a6, ?_⟩
  rw [e, ← C13_fan_area_sum (vals.map Val.p2) id]
  rcases hsign with hp | hn
  · left
    have hall : ∀ T ∈ fanTriangles (vals.map Val.p2) id, 0 < tri2 T := by
      intro T hT
      obtain ⟨i, i1, i2, i3, i4⟩ := fanTriangles_mem _ id hid T hT
      rw [i4]; exact hp i i1 i2 i3
    refine ⟨sum_pos_of_pos _ hne ?_, hall⟩
    intro x hx
    obtain ⟨T, hT, rfl⟩ := List.mem_map.1 hx
    exact hall T hT
  · right
    have hall : ∀ T ∈ fanTriangles (vals.map Val.p2) id, tri2 T < 0 := by
      intro T hT
      obtain ⟨i, i1, i2, i3, i4⟩ := fanTriangles_mem _ id hid T hT
      rw [i4]; exact hn i i1 i2 i3
    refine ⟨sum_neg_of_neg _ hne ?_, hall⟩
    intro x hx
    obtain ⟨T, hT, rfl⟩ := List.mem_map.1 hx
    exact hall T hT

/-- **C13, untouched coordinates (`fan_cell`)**: every dart other than the spare darts — the darts of the polygon,
    the darts of the neighbouring faces, everything else in the map — reads the same coordinates through its vertex
    identifier after the fan as before -/
theorem C13_fan_old_vertices_keep_coordinates (cfg : Cfg Val) (hlaw : cfg.law 0 = avgLaw) (m m' : Map Val)
    (face : Nat) (nds rest : List Nat) (hwf : WF 3 m) (hfc : m.fc = 0) (hc : ClosedFace m face rest)
    (hsp : ∀ d ∈ nds, C01.InUse m d ∧ d ∉ face :: rest) (hnd : nds.Nodup)
    (hfresh : ∀ d ∈ nds, (∀ i, i < 3 → m.β i d = 0) ∧ m.att 0 d = none)
    (h : run (fanCell cfg m.n face nds) m = (.ok (), m')) :
    ∀ d, d ≠ 0 → d < m.n → d ∉ nds → pos m' d = pos m d := by
  obtain ⟨_, _, _, _, _, _, _, _, _, _, _, _, keep⟩ :=
    C13_fan_triangles_carry_list_coordinates cfg hlaw m m' face nds rest hwf hfc hc hsp hnd hfresh h
  exact keep

/-- **C13, the same for `fan_convex_cell`** (which fans from the face dart itself, index 0, without any test): when
    the vertices of the face are all defined (`faceVertices` reads `vals`), the dart triangles of the result carry
    `fanTriangles (vals.map Val.p2) 0`, their cross products add up to twice the polygon's signed area, and every dart
    other than the spare darts keeps its coordinates -/
theorem C13_fan_convex_triangles_carry_list_coordinates (cfg : Cfg Val) (hlaw : cfg.law 0 = avgLaw) (m m' : Map Val)
    (face : Nat) (nds rest : List Nat) (hwf : WF 3 m) (hfc : m.fc = 0) (hc : ClosedFace m face rest)
    (hsp : ∀ d ∈ nds, C01.InUse m d ∧ d ∉ face :: rest) (hnd : nds.Nodup)
    (hfresh : ∀ d ∈ nds, (∀ i, i < 3 → m.β i d = 0) ∧ m.att 0 d = none)
    (vals : List Val) (hvals : run (faceVertices m.n (face :: rest)) m = (.ok vals, m))
    (h : run (fanConvexCell cfg m.n face nds) m = (.ok (), m')) :
    WF 3 m' ∧ (∀ t ∈ fanFaces face rest (chunks2 nds), TriFace m' t) ∧
    (fanFaces face rest (chunks2 nds)).length + 2 = (face :: rest).length ∧
    (fanFaces face rest (chunks2 nds)).map (triP2 m') = (fanTriangles (vals.map Val.p2) 0).map some ∧
    ((mapTris m' (fanFaces face rest (chunks2 nds))).map tri2).sum = area2 (vals.map Val.p2) ∧
    (∀ d, d ≠ 0 → d < m.n → d ∉ nds → pos m' d = pos m d) := by
  unfold fanConvexCell at h
  obtain ⟨darts, h1, h3⟩ := ro_bind_ok (readOnly_orbit2 m.n .faceLinear face) h
  cases hcr : checkRequirements darts.length nds.length with
  | error e => simp [hcr] at h3
  | ok v =>
      simp only [hcr] at h3
      cases v
      have hreq := (C13_check_requirements_ok_iff _ _).1 hcr
      have hk := chunks2_length nds
      have hd : darts = face :: rest := by
        have := closedFace_orbit_eq hwf hc
        rw [h1] at this
        exact Out.ok.inj (Prod.mk.inj this).1
      rw [hd] at hreq
      simp only [List.length_cons] at hreq
      obtain ⟨wf', _, faces, flen, keep, tris⟩ := fanFrom_tie cfg hlaw m m' face rest nds hwf hfc hc
        (by omega) hsp hnd hfresh h3
      have hv := faceVertices_pos hwf _ _ _ (fun d hd => ⟨hc.nz d hd, hc.lt hwf hd⟩) hvals
      obtain ⟨v, vl, hr, hv1, hvl'⟩ := rot_values (id := 0) (s := face) (L := rest) hv (by simp)
      rw [hv1, hvl'] at tris
      have hvll : vl.length = (chunks2 nds).length + 1 + 1 := by
        have := congrArg List.length hvl'
        simp only [List.length_map] at this
        omega
      have carry := triP2_of_fanValTris _ vals 0 v vl _ hr hvll tris
      have e : mapTris m' (fanFaces face rest (chunks2 nds)) = fanTriangles (vals.map Val.p2) 0 :=
        filterMap_of_map_some _ _ _ carry
      exact ⟨wf', faces, by simp only [List.length_cons]; omega, carry, by rw [e]; exact C13_fan_area_sum _ _, keep⟩

/-! ## non-vacuity: the pentagon of `d7Map` (face 1–5, spare darts 6–9) -/

theorem d7_wf : WF 3 d7Map := by decide +kernel
theorem d7_closed : ClosedFace d7Map 1 [2, 3, 4, 5] := ⟨by decide +kernel, by decide, by decide⟩
theorem d7_spares : ∀ d ∈ [6, 7, 8, 9], C01.InUse d7Map d ∧ d ∉ [1, 2, 3, 4, 5] := by decide +kernel
theorem d7_fresh : ∀ d ∈ [6, 7, 8, 9], (∀ i, i < 3 → d7Map.β i d = 0) ∧ d7Map.att 0 d = none := by decide +kernel
theorem d7_vals : run (faceVertices d7Map.n [1, 2, 3, 4, 5]) d7Map
    = (.ok [.pt 0 0 0, .pt 2 1 0, .pt 4 0 0, .pt 4 4 0, .pt 0 4 0], d7Map) := by
  have h1 : (run (faceVertices d7Map.n [1, 2, 3, 4, 5]) d7Map).1
      = .ok [.pt 0 0 0, .pt 2 1 0, .pt 4 0 0, .pt 4 4 0, .pt 0 4 0] := by decide +kernel
  have h2 : run (faceVertices d7Map.n [1, 2, 3, 4, 5]) d7Map
      = (.ok [.pt 0 0 0, .pt 2 1 0, .pt 4 0 0, .pt 4 4 0, .pt 0 4 0],
          (run (faceVertices d7Map.n [1, 2, 3, 4, 5]) d7Map).2) := Prod.ext h1 rfl
  obtain ⟨_, e⟩ := faceVertices_length _ _ _ _ _ h2
  rw [e] at h2; exact h2

/-- the hypotheses hold on the pentagon; `fan_cell` fans it from dart 2 (apex index 1) -/
example : ∃ (vals : List Val) (id s : Nat) (L : List Nat),
    run (faceVertices d7Map.n [1, 2, 3, 4, 5]) d7Map = (.ok vals, d7Map) ∧
    fanStar (vals.map Val.p2) = some (some id) ∧ s :: L = [1, 2, 3, 4, 5].drop id ++ [1, 2, 3, 4, 5].take id ∧
    (fanFaces s L (chunks2 [6, 7, 8, 9])).map (triP2 (run (fanCell (stdCfg 3 0) d7Map.n 1 [6, 7, 8, 9]) d7Map).2)
      = (fanTriangles (vals.map Val.p2) id).map some := by
  obtain ⟨vals, id, s, L, a1, a2, a3, _, _, _, _, a8, _⟩ :=
    C13_fan_triangles_carry_list_coordinates (stdCfg 3 0) rfl d7Map _ 1 [6, 7, 8, 9] [2, 3, 4, 5] d7_wf rfl d7_closed
      d7_spares (by decide) d7_fresh (ok_of_fst (by decide +kernel))
  exact ⟨vals, id, s, L, a1, a2, a3, a8⟩

/-- concretely: the dart triangles (2,3,6), (7,4,8), (9,5,1) of the result carry the three triangles of the list fan
    from vertex 1 = (2,1), in order -/
example : fanFaces 2 [3, 4, 5, 1] (chunks2 [6, 7, 8, 9]) = [(2, 3, 6), (7, 4, 8), (9, 5, 1)] := by decide +kernel

example : [(2, 3, 6), (7, 4, 8), (9, 5, 1)].map (triP2 (run (fanCell (stdCfg 3 0) d7Map.n 1 [6, 7, 8, 9]) d7Map).2)
    = (fanTriangles d7Pentagon 1).map some := by decide +kernel

example : (fanTriangles d7Pentagon 1) =
    [(⟨2, 1⟩, ⟨4, 0⟩, ⟨4, 4⟩), (⟨2, 1⟩, ⟨4, 4⟩, ⟨0, 4⟩), (⟨2, 1⟩, ⟨0, 4⟩, ⟨0, 0⟩)] := by decide +kernel

/-- area: 8 + 12 + 8 = 28 = twice the area of the pentagon, read in the result map -/
example : ∃ (vals : List Val) (id s : Nat) (L : List Nat),
    run (faceVertices d7Map.n [1, 2, 3, 4, 5]) d7Map = (.ok vals, d7Map) ∧
    s :: L = [1, 2, 3, 4, 5].drop id ++ [1, 2, 3, 4, 5].take id ∧
    ((mapTris (run (fanCell (stdCfg 3 0) d7Map.n 1 [6, 7, 8, 9]) d7Map).2 (fanFaces s L (chunks2 [6, 7, 8, 9]))).map
      tri2).sum = area2 (vals.map Val.p2) := by
  obtain ⟨vals, id, s, L, a1, a2, _, _, a5⟩ :=
    C13_fan_area_conserved_in_map (stdCfg 3 0) rfl d7Map _ 1 [6, 7, 8, 9] [2, 3, 4, 5] d7_wf rfl d7_closed
      d7_spares (by decide) d7_fresh (ok_of_fst (by decide +kernel))
  exact ⟨vals, id, s, L, a1, a2, a5⟩

example : (mapTris (run (fanCell (stdCfg 3 0) d7Map.n 1 [6, 7, 8, 9]) d7Map).2 [(2, 3, 6), (7, 4, 8), (9, 5, 1)]).map tri2
    = [8, 12, 8] ∧ area2 d7Pentagon = 28 := by decide +kernel

/-- orientation: the pentagon is in general position, all three triangles of the result are counter-clockwise -/
example : ∃ (vals : List Val) (id s : Nat) (L : List Nat),
    run (faceVertices d7Map.n [1, 2, 3, 4, 5]) d7Map = (.ok vals, d7Map) ∧
    s :: L = [1, 2, 3, 4, 5].drop id ++ [1, 2, 3, 4, 5].take id ∧
    ((0 < area2 (vals.map Val.p2) ∧ ∀ T ∈ mapTris (run (fanCell (stdCfg 3 0) d7Map.n 1 [6, 7, 8, 9]) d7Map).2
        (fanFaces s L (chunks2 [6, 7, 8, 9])), 0 < tri2 T) ∨
     (area2 (vals.map Val.p2) < 0 ∧ ∀ T ∈ mapTris (run (fanCell (stdCfg 3 0) d7Map.n 1 [6, 7, 8, 9]) d7Map).2
        (fanFaces s L (chunks2 [6, 7, 8, 9])), tri2 T < 0)) := by
  obtain ⟨vals, id, s, L, a1, a2, _, a4⟩ :=
    C13_fan_orientation_in_map (stdCfg 3 0) rfl d7Map _ 1 [6, 7, 8, 9] [2, 3, 4, 5] d7_wf rfl d7_closed
      d7_spares (by decide) d7_fresh
      (by
        intro vals hv
        rw [d7_vals] at hv
        simp only [Prod.mk.injEq, Out.ok.injEq, and_true] at hv
        subst hv
        decide +kernel)
      (ok_of_fst (by decide +kernel))
  exact ⟨vals, id, s, L, a1, a2, a4⟩

/-- untouched coordinates: the five corners read the same points after the fan -/
example : ∀ d, d ≠ 0 → d < d7Map.n → d ∉ [6, 7, 8, 9] →
    pos (run (fanCell (stdCfg 3 0) d7Map.n 1 [6, 7, 8, 9]) d7Map).2 d = pos d7Map d :=
  C13_fan_old_vertices_keep_coordinates (stdCfg 3 0) rfl d7Map _ 1 [6, 7, 8, 9] [2, 3, 4, 5] d7_wf rfl d7_closed
    d7_spares (by decide) d7_fresh (ok_of_fst (by decide +kernel))

example : [1, 2, 3, 4, 5].map (pos (run (fanCell (stdCfg 3 0) d7Map.n 1 [6, 7, 8, 9]) d7Map).2)
    = [some (.pt 0 0 0), some (.pt 2 1 0), some (.pt 4 0 0), some (.pt 4 4 0), some (.pt 0 4 0)] := by decide +kernel

/-- `fan_convex_cell` on the same (non-convex) pentagon fans from dart 1 without any test: the triangles of the result
    are those of the list fan from vertex 0 — the first one clockwise (−4), the sum still 28 -/
example : [(1, 2, 6), (7, 3, 8), (9, 4, 5)].map
      (triP2 (run (fanConvexCell (stdCfg 3 0) d7Map.n 1 [6, 7, 8, 9]) d7Map).2)
    = (fanTriangles d7Pentagon 0).map some ∧
    ((mapTris (run (fanConvexCell (stdCfg 3 0) d7Map.n 1 [6, 7, 8, 9]) d7Map).2
      (fanFaces 1 [2, 3, 4, 5] (chunks2 [6, 7, 8, 9]))).map tri2).sum = area2 d7Pentagon := by
  obtain ⟨_, _, _, a4, a5, _⟩ :=
    C13_fan_convex_triangles_carry_list_coordinates (stdCfg 3 0) rfl d7Map _ 1 [6, 7, 8, 9] [2, 3, 4, 5] d7_wf rfl
      d7_closed d7_spares (by decide) d7_fresh _ d7_vals (ok_of_fst (by decide +kernel))
  exact ⟨a4, a5⟩

example : (mapTris (run (fanConvexCell (stdCfg 3 0) d7Map.n 1 [6, 7, 8, 9]) d7Map).2 [(1, 2, 6), (7, 3, 8), (9, 4, 5)]).map
    tri2 = [-4, 16, 16] := by decide +kernel

end HC.C13
