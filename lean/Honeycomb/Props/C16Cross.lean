/-
  C16 — step 1 of grisubal for one segment (`generate_intersection_data`, model `crossingsOf` of
  `Model/Grisubal.lean`, tied to the real kernel by the `gcross` streams of tools/props/c16.py).

  For every grid (origin, cell lengths > 0), every `eps > 0` and every segment `a → b` in eps-general position
  (`GenPos`: both ends inside the grid quadrant and on no grid line; every crossing of a grid line at a parameter
  strictly between `eps` and `1 - eps` and at least `eps` cells away from every grid corner on that line) — no
  bound on the number of cells crossed, all four directions, all three code paths (neighbour cell, straight row /
  column, diagonal sub-grid with its filter, `retain`, stable sort and `zip`):

  * `C16_crossings_sound`            every reported intersection `(dart, t, s)` has `0 < s < 1`, `0 < t < 1` and the
                                     point of the segment at `s` is the point at `t` of the side of the named grid dart
  * `C16_crossings_on_grid_lines`    … hence a crossing of the open segment with a grid line
  * `C16_crossings_complete`         no crossing of the open segment with a vertical / horizontal grid line is missed
  * `C16_crossings_sorted`           they come strictly ordered along the segment (none twice)
  * `C16_crossings_count`            their number is `|Δi| + |Δj|`, the number of identifiers the kernel pre-allocates
                                     (no empty slot, the `zip` drops nothing)
  * `C16_between_crossings_one_cell` between two consecutive intersections (and before the first / after the last)
                                     the segment stays in one grid cell

  NOT covered: f64 rounding (the model is over `Rat`; the tie is an equality of rationals on the exact family and
  1e-9 elsewhere), segments through grid corners (`IntersecCorner`, outside general position), the dart numbering
  of the darts inserted later.
-/
import Mathlib.Data.List.Perm.Basic
import Honeycomb.Lemmas.GridCross

set_option linter.unusedSimpArgs false
set_option linter.unusedVariables false

namespace HC.C16
open HC HC.Cross

/-! ## the three shapes of the result -/

/-- `(i, 0)` (and the neighbour case `(±1, 0)`): the vertical sides crossed in the row `jb` -/
def rowList (g : GGrid) (a b : Pt) (i ib jb : Int) : List Cross :=
  let l := (irange (min ib (ib + 1 + i)) (max (ib + i) (ib + 1))).map
    (fun x => vCross g a b (decide (0 < i)) x jb)
  if 0 < i then l else l.reverse

/-- `(0, j)` (and `(0, ±1)`) -/
def colList (g : GGrid) (a b : Pt) (j ib jb : Int) : List Cross :=
  let l := (irange (min jb (jb + 1 + j)) (max (jb + j) (jb + 1))).map
    (fun y => hCross g a b (decide (0 < j)) ib y)
  if 0 < j then l else l.reverse

/-- the candidates of the diagonal case, before `retain` and `sort_by` -/
def diagCand (g : GGrid) (eps : Rat) (a b : Pt) (i j ib jb : Int) : List Cross :=
  (irange (min ib (ib + i)) (max (ib + i) ib + 1)).flatMap (fun x =>
    (irange (min jb (jb + j)) (max (jb + j) jb + 1)).filterMap (fun y =>
      diagPick eps i j (vCross g a b (decide (0 < i)) x y) (hCross g a b (decide (0 < j)) x y)))

def diagList (g : GGrid) (eps : Rat) (a b : Pt) (i j ib jb : Int) : List Cross :=
  sortByS ((diagCand g eps a b i j ib jb).filter (fun c => decide (0 ≤ c.s ∧ c.s ≤ 1)))

theorem crossingsOf_eq (g : GGrid) (eps : Rat) (a b : Pt) :
    crossingsOf g eps a b =
      (let i : Int := ((gridCellOf g b).1 : Int) - ((gridCellOf g a).1 : Int)
       let j : Int := ((gridCellOf g b).2 : Int) - ((gridCellOf g a).2 : Int)
       let ib : Int := (gridCellOf g a).1
       let jb : Int := (gridCellOf g a).2
       if i = 0 ∧ j = 0 then [] else
       if j = 0 then rowList g a b i ib jb else
       if i = 0 then colList g a b j ib jb else (diagList g eps a b i j ib jb).take (i.natAbs + j.natAbs)) := by
  unfold crossingsOf
  simp only
  generalize hi : ((gridCellOf g b).1 : Int) - ((gridCellOf g a).1 : Int) = i
  generalize hj : ((gridCellOf g b).2 : Int) - ((gridCellOf g a).2 : Int) = j
  generalize ((gridCellOf g a).1 : Int) = ib
  generalize ((gridCellOf g a).2 : Int) = jb
  generalize hd : i.natAbs + j.natAbs = dist
  match dist, hd with
  | 0, hd =>
      have : i = 0 ∧ j = 0 := by omega
      rw [if_pos this]
      rfl
  | 1, hd =>
      have hne : ¬ (i = 0 ∧ j = 0) := by omega
      rw [if_neg hne]
      show (if j = 0 then [vCross g a b (decide (0 < i)) ib jb] else [hCross g a b (decide (0 < j)) ib jb]) = _
      by_cases hj0 : j = 0
      · rw [if_pos hj0, if_pos hj0]
        have hi1 : i = 1 ∨ i = -1 := by omega
        rcases hi1 with rfl | rfl
        · have e1 : min ib (ib + 1 + 1) = ib := by omega
          have e2 : max (ib + 1) (ib + 1) = ib + 1 := by omega
          simp [rowList, e1, e2, irange_single]
        · have e1 : min ib (ib + 1 + -1) = ib := by omega
          have e2 : max (ib + -1) (ib + 1) = ib + 1 := by omega
          simp [rowList, e1, e2, irange_single]
      · rw [if_neg hj0, if_neg hj0]
        have hi0 : i = 0 := by omega
        rw [if_pos hi0]
        have hj1 : j = 1 ∨ j = -1 := by omega
        rcases hj1 with rfl | rfl
        · have e1 : min jb (jb + 1 + 1) = jb := by omega
          have e2 : max (jb + 1) (jb + 1) = jb + 1 := by omega
          simp [colList, e1, e2, irange_single]
        · have e1 : min jb (jb + 1 + -1) = jb := by omega
          have e2 : max (jb + -1) (jb + 1) = jb + 1 := by omega
          simp [colList, e1, e2, irange_single]
  | (n + 2), hd =>
      have hne : ¬ (i = 0 ∧ j = 0) := by omega
      rw [if_neg hne]
      rfl

/-- the same without the final `zip` truncation (shown below to drop nothing in general position) -/
def crossingsRaw (g : GGrid) (eps : Rat) (a b : Pt) : List Cross :=
  let i : Int := ((gridCellOf g b).1 : Int) - ((gridCellOf g a).1 : Int)
  let j : Int := ((gridCellOf g b).2 : Int) - ((gridCellOf g a).2 : Int)
  let ib : Int := (gridCellOf g a).1
  let jb : Int := (gridCellOf g a).2
  if i = 0 ∧ j = 0 then [] else
  if j = 0 then rowList g a b i ib jb else
  if i = 0 then colList g a b j ib jb else diagList g eps a b i j ib jb

/-! ## the specification -/

/-- the point lies on a vertical / horizontal line of the grid -/
def OnVLine (g : GGrid) (p : Pt) : Prop := ∃ K : Int, p.1 = g.ox + (K : Rat) * g.cx
def OnHLine (g : GGrid) (p : Pt) : Prop := ∃ L : Int, p.2 = g.oy + (L : Rat) * g.cy

/-- `s` is the parameter of a crossing of the open segment with a grid line -/
def IsCrossing (g : GGrid) (a b : Pt) (s : Rat) : Prop :=
  0 < s ∧ s < 1 ∧ (OnVLine g (segPoint a b s) ∨ OnHLine g (segPoint a b s))

/-- the point at relative position `t` of the side of the `k`-th dart of cell `(x, y)`, measured from
    the vertex of that dart in the direction of the dart (0 bottom →, 1 right ↑, 2 top ←, 3 left ↓) -/
def sidePoint (g : GGrid) (x y : Int) (k : Nat) (t : Rat) : Pt :=
  match k with
  | 0 => ((cornerOf g x y 0).1 + t * g.cx, (cornerOf g x y 0).2)
  | 1 => ((cornerOf g x y 1).1, (cornerOf g x y 1).2 + t * g.cy)
  | 2 => ((cornerOf g x y 2).1 - t * g.cx, (cornerOf g x y 2).2)
  | _ => ((cornerOf g x y 3).1, (cornerOf g x y 3).2 - t * g.cy)

/-- ε-general position of the segment `a → b` with respect to the grid: both ends inside the grid
    quadrant and on no grid line; every crossing of a grid line happens at a parameter strictly between
    `eps` and `1 - eps` and at least `eps` cells away from every corner of the grid on that line.
    (`eps = 2⁻⁵²` in the kernel: the bands in which it treats a crossing as a corner hit.) -/
structure GenPos (g : GGrid) (eps : Rat) (a b : Pt) : Prop where
  cx : 0 < g.cx
  cy : 0 < g.cy
  eps0 : 0 < eps
  ina : g.ox ≤ a.1 ∧ g.oy ≤ a.2
  inb : g.ox ≤ b.1 ∧ g.oy ≤ b.2
  offa : ¬ OnVLine g a ∧ ¬ OnHLine g a
  offb : ¬ OnVLine g b ∧ ¬ OnHLine g b
  vband : ∀ s, 0 < s → s < 1 → OnVLine g (segPoint a b s) →
    eps < s ∧ s < 1 - eps ∧ ∀ L : Int, eps * g.cy ≤ |(segPoint a b s).2 - (g.oy + (L : Rat) * g.cy)|
  hband : ∀ s, 0 < s → s < 1 → OnHLine g (segPoint a b s) →
    eps < s ∧ s < 1 - eps ∧ ∀ K : Int, eps * g.cx ≤ |(segPoint a b s).1 - (g.ox + (K : Rat) * g.cx)|

/-! ## normalised form of the hypotheses -/

theorem onV_iff (g : GGrid) (p : Pt) (hcx : 0 < g.cx) : OnVLine g p ↔ ∃ K : Int, nU g p = (K : Rat) := by
  have h1 : g.cx ≠ 0 := ne_of_gt hcx
  unfold OnVLine nU
  constructor
  · rintro ⟨K, e⟩; exact ⟨K, by rw [e]; field_simp; ring⟩
  · rintro ⟨K, e⟩; refine ⟨K, ?_⟩; field_simp at e; linarith

theorem onH_iff (g : GGrid) (p : Pt) (hcy : 0 < g.cy) : OnHLine g p ↔ ∃ L : Int, nV g p = (L : Rat) := by
  have h1 : g.cy ≠ 0 := ne_of_gt hcy
  unfold OnHLine nV
  constructor
  · rintro ⟨K, e⟩; exact ⟨K, by rw [e]; field_simp; ring⟩
  · rintro ⟨K, e⟩; refine ⟨K, ?_⟩; field_simp at e; linarith

section
variable {g : GGrid} {eps : Rat} {a b : Pt}

theorem GenPos.nua (H : GenPos g eps a b) : NonInt (nU g a) :=
  fun z e => H.offa.1 ((onV_iff g a H.cx).2 ⟨z, e⟩)
theorem GenPos.nub (H : GenPos g eps a b) : NonInt (nU g b) :=
  fun z e => H.offb.1 ((onV_iff g b H.cx).2 ⟨z, e⟩)
theorem GenPos.nva (H : GenPos g eps a b) : NonInt (nV g a) :=
  fun z e => H.offa.2 ((onH_iff g a H.cy).2 ⟨z, e⟩)
theorem GenPos.nvb (H : GenPos g eps a b) : NonInt (nV g b) :=
  fun z e => H.offb.2 ((onH_iff g b H.cy).2 ⟨z, e⟩)

theorem GenPos.ua0 (H : GenPos g eps a b) : 0 ≤ nU g a := div_nonneg (by linarith [H.ina.1]) (le_of_lt H.cx)
theorem GenPos.ub0 (H : GenPos g eps a b) : 0 ≤ nU g b := div_nonneg (by linarith [H.inb.1]) (le_of_lt H.cx)
theorem GenPos.va0 (H : GenPos g eps a b) : 0 ≤ nV g a := div_nonneg (by linarith [H.ina.2]) (le_of_lt H.cy)
theorem GenPos.vb0 (H : GenPos g eps a b) : 0 ≤ nV g b := div_nonneg (by linarith [H.inb.2]) (le_of_lt H.cy)

/-- vertical crossings, normalised -/
theorem GenPos.nvband (H : GenPos g eps a b) {s : Rat} {K : Int} (h0 : 0 < s) (h1 : s < 1)
    (e : lin (nU g a) (nU g b) s = (K : Rat)) :
    eps < s ∧ s < 1 - eps ∧ ∀ L : Int, eps ≤ |lin (nV g a) (nV g b) s - (L : Rat)| := by
  have hv : OnVLine g (segPoint a b s) := (onV_iff g _ H.cx).2 ⟨K, by rw [nU_segPoint g a b s H.cx]; exact e⟩
  obtain ⟨b1, b2, b3⟩ := H.vband s h0 h1 hv
  refine ⟨b1, b2, fun L => ?_⟩
  have := b3 L
  have hcy := H.cy
  have h3 : (segPoint a b s).2 - (g.oy + (L : Rat) * g.cy) = g.cy * (lin (nV g a) (nV g b) s - (L : Rat)) := by
    rw [← nV_segPoint g a b s H.cy]; unfold nV; field_simp; ring
  rw [h3, abs_mul, abs_of_pos hcy] at this
  by_contra hc
  have hc := not_le.1 hc
  have := mul_lt_mul_of_pos_left hc hcy
  linarith

theorem GenPos.nhband (H : GenPos g eps a b) {s : Rat} {L : Int} (h0 : 0 < s) (h1 : s < 1)
    (e : lin (nV g a) (nV g b) s = (L : Rat)) :
    eps < s ∧ s < 1 - eps ∧ ∀ K : Int, eps ≤ |lin (nU g a) (nU g b) s - (K : Rat)| := by
  have hv : OnHLine g (segPoint a b s) := (onH_iff g _ H.cy).2 ⟨L, by rw [nV_segPoint g a b s H.cy]; exact e⟩
  obtain ⟨b1, b2, b3⟩ := H.hband s h0 h1 hv
  refine ⟨b1, b2, fun K => ?_⟩
  have := b3 K
  have hcx := H.cx
  have h3 : (segPoint a b s).1 - (g.ox + (K : Rat) * g.cx) = g.cx * (lin (nU g a) (nU g b) s - (K : Rat)) := by
    rw [← nU_segPoint g a b s H.cx]; unfold nU; field_simp; ring
  rw [h3, abs_mul, abs_of_pos hcx] at this
  by_contra hc
  have hc := not_le.1 hc
  have := mul_lt_mul_of_pos_left hc hcx
  linarith

/-- the cell indices of the ends are the floors of the normalised coordinates -/
theorem GenPos.cella (H : GenPos g eps a b) :
    ((gridCellOf g a).1 : Int) = (nU g a).floor ∧ ((gridCellOf g a).2 : Int) = (nV g a).floor := by
  have h1 : 0 ≤ (nU g a).floor := le_floor (by simpa using H.ua0)
  have h2 : 0 ≤ (nV g a).floor := le_floor (by simpa using H.va0)
  unfold gridCellOf
  exact ⟨Int.toNat_of_nonneg h1, Int.toNat_of_nonneg h2⟩

theorem GenPos.cellb (H : GenPos g eps a b) :
    ((gridCellOf g b).1 : Int) = (nU g b).floor ∧ ((gridCellOf g b).2 : Int) = (nV g b).floor := by
  have h1 : 0 ≤ (nU g b).floor := le_floor (by simpa using H.ub0)
  have h2 : 0 ≤ (nV g b).floor := le_floor (by simpa using H.vb0)
  unfold gridCellOf
  exact ⟨Int.toNat_of_nonneg h1, Int.toNat_of_nonneg h2⟩

end

/-! ## one axis: which grid lines lie strictly between the two ends -/

/-- `K` strictly between the end values -/
def Btw (p0 p1 K : Rat) : Prop := (p0 < K ∧ K < p1) ∨ (p1 < K ∧ K < p0)

theorem floor_lt_of_lt_floor {p0 p1 : Rat} (h : p0.floor < p1.floor) : p0 < p1 := by
  have h1 := lt_floor_succ p0
  have h2 := floor_le p1
  have h3 : ((p0.floor + 1 : Int) : Rat) ≤ ((p1.floor : Int) : Rat) := Int.cast_le.2 (by omega)
  push_cast at h3
  linarith

/-- the `Range` of the straight cases lists exactly the cells whose forward side lies strictly between
    the two ends -/
theorem range_iff_btw {p0 p1 : Rat} (n0 : NonInt p0) (n1 : NonInt p1) {d : Int}
    (hd : d = p1.floor - p0.floor) (hd0 : d ≠ 0) (x : Int) :
    (min p0.floor (p0.floor + 1 + d) ≤ x ∧ x < max (p0.floor + d) (p0.floor + 1)) ↔
      Btw p0 p1 (fwd (decide (0 < d)) x) := by
  have f0 := floor_le p0
  have f0' := lt_floor_succ p0
  have f1 := floor_le p1
  have f1' := lt_floor_succ p1
  rcases lt_or_gt_of_ne hd0 with hneg | hpos
  · -- d < 0
    have hdec : decide (0 < d) = false := by simp; omega
    have hlt : p1 < p0 := floor_lt_of_lt_floor (by omega)
    rw [hdec]
    simp only [fwd, Bool.false_eq_true, if_false, add_zero, Btw]
    have e1 : min p0.floor (p0.floor + 1 + d) = p1.floor + 1 := by omega
    have e2 : max (p0.floor + d) (p0.floor + 1) = p0.floor + 1 := by omega
    rw [e1, e2]
    constructor
    · rintro ⟨h1, h2⟩
      right
      have a1 : ((p1.floor + 1 : Int) : Rat) ≤ (x : Rat) := Int.cast_le.2 h1
      have a2 : (x : Rat) ≤ ((p0.floor : Int) : Rat) := Int.cast_le.2 (by omega)
      push_cast at a1
      exact ⟨by linarith, lt_of_le_of_ne (by linarith) (fun e => n0 x e.symm)⟩
    · rintro (⟨h1, h2⟩ | ⟨h1, h2⟩)
      · linarith
      · have b1 : p1.floor < x := floor_lt h1
        have b2 : x ≤ p0.floor := le_floor (le_of_lt h2)
        omega
  · -- 0 < d
    have hdec : decide (0 < d) = true := by simp; omega
    have hlt : p0 < p1 := floor_lt_of_lt_floor (by omega)
    rw [hdec]
    simp only [fwd, if_true, Btw]
    have e1 : min p0.floor (p0.floor + 1 + d) = p0.floor := by omega
    have e2 : max (p0.floor + d) (p0.floor + 1) = p1.floor := by omega
    rw [e1, e2]
    constructor
    · rintro ⟨h1, h2⟩
      left
      have a1 : ((p0.floor : Int) : Rat) ≤ (x : Rat) := Int.cast_le.2 h1
      have a2 : ((x + 1 : Int) : Rat) ≤ ((p1.floor : Int) : Rat) := Int.cast_le.2 (by omega)
      push_cast at a2
      exact ⟨by linarith, lt_of_le_of_ne (by linarith) (fun e => n1 (x + 1) (by push_cast; exact e.symm))⟩
    · rintro (⟨h1, h2⟩ | ⟨h1, h2⟩)
      · have b1 : p0.floor < x + 1 := floor_lt (by push_cast; exact h1)
        have b2 : x + 1 ≤ p1.floor := le_floor (by push_cast; exact le_of_lt h2)
        omega
      · linarith

/-- a forward side strictly between the ends belongs to a cell of the bounding sub-grid -/
theorem btw_subgrid {p0 p1 : Rat} (n0 : NonInt p0) (n1 : NonInt p1) {d : Int}
    (hd : d = p1.floor - p0.floor) (hd0 : d ≠ 0) {x : Int} (h : Btw p0 p1 (fwd (decide (0 < d)) x)) :
    min p0.floor (p0.floor + d) ≤ x ∧ x < max (p0.floor + d) p0.floor + 1 := by
  have := (range_iff_btw n0 n1 hd hd0 x).2 h
  omega

/-- the floor of an intermediate value lies between the floors of the ends -/
theorem floor_lin_range {q0 q1 s : Rat} (h0 : 0 ≤ s) (h1 : s ≤ 1) {d : Int} (hd : d = q1.floor - q0.floor) :
    min q0.floor (q0.floor + d) ≤ (lin q0 q1 s).floor ∧ (lin q0 q1 s).floor < max (q0.floor + d) q0.floor + 1 := by
  have e : q0.floor + d = q1.floor := by omega
  rw [e]
  have hmin : min q0 q1 ≤ lin q0 q1 s := by
    unfold lin
    rcases le_total q0 q1 with h | h
    · rw [min_eq_left h]; nlinarith
    · rw [min_eq_right h]; nlinarith
  have hmax : lin q0 q1 s ≤ max q0 q1 := by
    unfold lin
    rcases le_total q0 q1 with h | h
    · rw [max_eq_right h]; nlinarith
    · rw [max_eq_left h]; nlinarith
  constructor
  · rcases le_total q0 q1 with h | h
    · rw [min_eq_left h] at hmin
      have := floor_mono hmin
      have := floor_mono h
      omega
    · rw [min_eq_right h] at hmin
      have := floor_mono hmin
      have := floor_mono h
      omega
  · rcases le_total q0 q1 with h | h
    · rw [max_eq_right h] at hmax
      have := floor_mono hmax
      have := floor_mono h
      omega
    · rw [max_eq_left h] at hmax
      have := floor_mono hmax
      have := floor_mono h
      omega

/-! ## single entries -/

/-- what a reported intersection has to be: strictly inside the segment and strictly inside the side of
    the reported grid dart -/
structure Good (g : GGrid) (a b : Pt) (c : Cross) : Prop where
  s0 : 0 < c.s
  s1 : c.s < 1
  t0 : 0 < c.t
  t1 : c.t < 1
  side : (∃ x y pos, c = vCross g a b pos x y) ∨ (∃ x y pos, c = hCross g a b pos x y)

theorem no_int_between {m L : Int} {q : Rat} (h1 : (m : Rat) < q) (h2 : q < (m : Rat) + 1) (e : q = (L : Rat)) :
    False := by
  rw [e] at h1 h2
  have a : m < L := Int.cast_lt.1 h1
  have b : L < m + 1 := Int.cast_lt.1 (by push_cast; exact h2)
  omega

theorem fwd_back (pos : Bool) (K : Int) : fwd pos (K - (if pos then 1 else 0)) = (K : Rat) := by
  cases pos <;> simp [fwd]

section
variable {g : GGrid} {eps : Rat} {a b : Pt}

theorem vEntry (H : GenPos g eps a b) (hne : a.1 ≠ b.1) (pos : Bool) (x y : Int)
    (hb : Btw (nU g a) (nU g b) (fwd pos x))
    (hy : (y : Rat) < lin (nV g a) (nV g b) (sK (nU g a) (nU g b) (fwd pos x)) ∧
      lin (nV g a) (nV g b) (sK (nU g a) (nU g b) (fwd pos x)) < (y : Rat) + 1) :
    Good g a b (vCross g a b pos x y) := by
  have hs := vCross_s g a b pos x y H.cx hne
  have ht := vCross_t g a b pos x y H.cy
  obtain ⟨s0, s1⟩ := sK_mem hb
  rw [hs] at ht
  refine ⟨by rw [hs]; exact s0, by rw [hs]; exact s1, ?_, ?_, Or.inl ⟨x, y, pos, rfl⟩⟩
  · rw [ht]; cases pos <;> simp <;> linarith [hy.1, hy.2]
  · rw [ht]; cases pos <;> simp <;> linarith [hy.1, hy.2]

theorem hEntry (H : GenPos g eps a b) (hne : a.2 ≠ b.2) (pos : Bool) (x y : Int)
    (hb : Btw (nV g a) (nV g b) (fwd pos y))
    (hx : (x : Rat) < lin (nU g a) (nU g b) (sK (nV g a) (nV g b) (fwd pos y)) ∧
      lin (nU g a) (nU g b) (sK (nV g a) (nV g b) (fwd pos y)) < (x : Rat) + 1) :
    Good g a b (hCross g a b pos x y) := by
  have hs := hCross_s g a b pos x y H.cy hne
  have ht := hCross_t g a b pos x y H.cx
  obtain ⟨s0, s1⟩ := sK_mem hb
  rw [hs] at ht
  refine ⟨by rw [hs]; exact s0, by rw [hs]; exact s1, ?_, ?_, Or.inr ⟨x, y, pos, rfl⟩⟩
  · rw [ht]; cases pos <;> simp <;> linarith [hx.1, hx.2]
  · rw [ht]; cases pos <;> simp <;> linarith [hx.1, hx.2]

theorem ne1_of_floor (H : GenPos g eps a b) (h : (nU g a).floor ≠ (nU g b).floor) : a.1 ≠ b.1 := by
  intro e; apply h; unfold nU; rw [e]

theorem ne2_of_floor (H : GenPos g eps a b) (h : (nV g a).floor ≠ (nV g b).floor) : a.2 ≠ b.2 := by
  intro e; apply h; unfold nV; rw [e]

/-- with both ends in the same row, the whole segment stays strictly inside the row -/
theorem stay_row (H : GenPos g eps a b) (hj : (nV g a).floor = (nV g b).floor) {s : Rat} (h0 : 0 ≤ s) (h1 : s ≤ 1) :
    (((nV g a).floor : Int) : Rat) < lin (nV g a) (nV g b) s ∧
      lin (nV g a) (nV g b) s < (((nV g a).floor : Int) : Rat) + 1 := by
  constructor
  · exact lin_gt h0 h1 H.nva.floor_lt (by rw [hj]; exact H.nvb.floor_lt)
  · exact lin_lt h0 h1 (lt_floor_succ _) (by rw [hj]; exact lt_floor_succ _)

theorem stay_col (H : GenPos g eps a b) (hi : (nU g a).floor = (nU g b).floor) {s : Rat} (h0 : 0 ≤ s) (h1 : s ≤ 1) :
    (((nU g a).floor : Int) : Rat) < lin (nU g a) (nU g b) s ∧
      lin (nU g a) (nU g b) s < (((nU g a).floor : Int) : Rat) + 1 := by
  constructor
  · exact lin_gt h0 h1 H.nua.floor_lt (by rw [hi]; exact H.nub.floor_lt)
  · exact lin_lt h0 h1 (lt_floor_succ _) (by rw [hi]; exact lt_floor_succ _)

/-! ## the straight cases -/

theorem mem_rowList (c : Cross) (i ib jb : Int) :
    c ∈ rowList g a b i ib jb ↔
      ∃ x, (min ib (ib + 1 + i) ≤ x ∧ x < max (ib + i) (ib + 1)) ∧ c = vCross g a b (decide (0 < i)) x jb := by
  unfold rowList
  simp only
  split <;> simp only [List.mem_reverse, List.mem_map, mem_irange] <;>
    exact ⟨fun ⟨x, hx, e⟩ => ⟨x, hx, e.symm⟩, fun ⟨x, hx, e⟩ => ⟨x, hx, e.symm⟩⟩

theorem mem_colList (c : Cross) (j ib jb : Int) :
    c ∈ colList g a b j ib jb ↔
      ∃ y, (min jb (jb + 1 + j) ≤ y ∧ y < max (jb + j) (jb + 1)) ∧ c = hCross g a b (decide (0 < j)) ib y := by
  unfold colList
  simp only
  split <;> simp only [List.mem_reverse, List.mem_map, mem_irange] <;>
    exact ⟨fun ⟨x, hx, e⟩ => ⟨x, hx, e.symm⟩, fun ⟨x, hx, e⟩ => ⟨x, hx, e.symm⟩⟩

theorem row_spec (H : GenPos g eps a b) (hj : (nV g a).floor = (nV g b).floor)
    (hi : (nU g b).floor - (nU g a).floor ≠ 0) :
    (∀ c, c ∈ rowList g a b ((nU g b).floor - (nU g a).floor) (nU g a).floor (nV g a).floor → Good g a b c) ∧
    (∀ s, IsCrossing g a b s →
      ∃ c, c ∈ rowList g a b ((nU g b).floor - (nU g a).floor) (nU g a).floor (nV g a).floor ∧ c.s = s) ∧
    (rowList g a b ((nU g b).floor - (nU g a).floor) (nU g a).floor (nV g a).floor).Pairwise
      (fun c d => c.s < d.s) := by
  have hne : a.1 ≠ b.1 := ne1_of_floor H (by omega)
  have hune : nU g a ≠ nU g b := nU_ne H.cx hne
  refine ⟨?_, ?_, ?_⟩
  · intro c hc
    obtain ⟨x, hx, rfl⟩ := (mem_rowList c _ _ _).1 hc
    have hb := (range_iff_btw H.nua H.nub rfl hi x).1 hx
    obtain ⟨s0, s1⟩ := sK_mem hb
    exact vEntry H hne _ x _ hb (stay_row H hj (le_of_lt s0) (le_of_lt s1))
  · rintro s ⟨s0, s1, hv | hh⟩
    · obtain ⟨K, e⟩ := (onV_iff g _ H.cx).1 hv
      rw [nU_segPoint g a b s H.cx] at e
      have hb : Btw (nU g a) (nU g b) (K : Rat) := by
        have := lin_between s0 s1 hune; rw [e] at this; exact this
      let pos := decide (0 < (nU g b).floor - (nU g a).floor)
      have hf := fwd_back pos K
      rw [← hf] at hb
      have hx := (range_iff_btw H.nua H.nub rfl hi _).2 hb
      refine ⟨vCross g a b pos (K - (if pos then 1 else 0)) (nV g a).floor,
        (mem_rowList _ _ _ _).2 ⟨_, hx, rfl⟩, ?_⟩
      rw [vCross_s g a b pos _ _ H.cx hne, hf]
      exact (sK_unique hune e).symm
    · exfalso
      obtain ⟨L, e⟩ := (onH_iff g _ H.cy).1 hh
      rw [nV_segPoint g a b s H.cy] at e
      obtain ⟨r1, r2⟩ := stay_row H hj (le_of_lt s0) (le_of_lt s1)
      exact no_int_between r1 r2 e
  · unfold rowList
    simp only
    have hp := irange_pairwise (min (nU g a).floor ((nU g a).floor + 1 + ((nU g b).floor - (nU g a).floor)))
      (max ((nU g a).floor + ((nU g b).floor - (nU g a).floor)) ((nU g a).floor + 1))
    rcases lt_or_gt_of_ne hi with hneg | hpos
    · have hlt : nU g b < nU g a := floor_lt_of_lt_floor (by omega)
      have hdec : decide (0 < (nU g b).floor - (nU g a).floor) = false := by simp; omega
      rw [if_neg (by omega), List.pairwise_reverse, List.pairwise_map]
      refine hp.imp ?_
      intro x x' hxx
      rw [vCross_s g a b _ _ _ H.cx hne, vCross_s g a b _ _ _ H.cx hne, hdec, sK_lt_iff_down hlt]
      simp only [fwd, Bool.false_eq_true, if_false, add_zero]
      exact Int.cast_lt.2 hxx
    · have hlt : nU g a < nU g b := floor_lt_of_lt_floor (by omega)
      have hdec : decide (0 < (nU g b).floor - (nU g a).floor) = true := by simp; omega
      rw [if_pos hpos, List.pairwise_map]
      refine hp.imp ?_
      intro x x' hxx
      rw [vCross_s g a b _ _ _ H.cx hne, vCross_s g a b _ _ _ H.cx hne, hdec, sK_lt_iff_up hlt]
      simp only [fwd, if_true]
      have : (x : Rat) < (x' : Rat) := Int.cast_lt.2 hxx
      linarith

theorem col_spec (H : GenPos g eps a b) (hi : (nU g a).floor = (nU g b).floor)
    (hj : (nV g b).floor - (nV g a).floor ≠ 0) :
    (∀ c, c ∈ colList g a b ((nV g b).floor - (nV g a).floor) (nU g a).floor (nV g a).floor → Good g a b c) ∧
    (∀ s, IsCrossing g a b s →
      ∃ c, c ∈ colList g a b ((nV g b).floor - (nV g a).floor) (nU g a).floor (nV g a).floor ∧ c.s = s) ∧
    (colList g a b ((nV g b).floor - (nV g a).floor) (nU g a).floor (nV g a).floor).Pairwise
      (fun c d => c.s < d.s) := by
  have hne : a.2 ≠ b.2 := ne2_of_floor H (by omega)
  have hvne : nV g a ≠ nV g b := nV_ne H.cy hne
  refine ⟨?_, ?_, ?_⟩
  · intro c hc
    obtain ⟨y, hy, rfl⟩ := (mem_colList c _ _ _).1 hc
    have hb := (range_iff_btw H.nva H.nvb rfl hj y).1 hy
    obtain ⟨s0, s1⟩ := sK_mem hb
    exact hEntry H hne _ _ y hb (stay_col H hi (le_of_lt s0) (le_of_lt s1))
  · rintro s ⟨s0, s1, hv | hh⟩
    · exfalso
      obtain ⟨K, e⟩ := (onV_iff g _ H.cx).1 hv
      rw [nU_segPoint g a b s H.cx] at e
      obtain ⟨r1, r2⟩ := stay_col H hi (le_of_lt s0) (le_of_lt s1)
      exact no_int_between r1 r2 e
    · obtain ⟨L, e⟩ := (onH_iff g _ H.cy).1 hh
      rw [nV_segPoint g a b s H.cy] at e
      have hb : Btw (nV g a) (nV g b) (L : Rat) := by
        have := lin_between s0 s1 hvne; rw [e] at this; exact this
      let pos := decide (0 < (nV g b).floor - (nV g a).floor)
      have hf := fwd_back pos L
      rw [← hf] at hb
      have hy := (range_iff_btw H.nva H.nvb rfl hj _).2 hb
      refine ⟨hCross g a b pos (nU g a).floor (L - (if pos then 1 else 0)),
        (mem_colList _ _ _ _).2 ⟨_, hy, rfl⟩, ?_⟩
      rw [hCross_s g a b pos _ _ H.cy hne, hf]
      exact (sK_unique hvne e).symm
  · unfold colList
    simp only
    have hp := irange_pairwise (min (nV g a).floor ((nV g a).floor + 1 + ((nV g b).floor - (nV g a).floor)))
      (max ((nV g a).floor + ((nV g b).floor - (nV g a).floor)) ((nV g a).floor + 1))
    rcases lt_or_gt_of_ne hj with hneg | hpos
    · have hlt : nV g b < nV g a := floor_lt_of_lt_floor (by omega)
      have hdec : decide (0 < (nV g b).floor - (nV g a).floor) = false := by simp; omega
      rw [if_neg (by omega), List.pairwise_reverse, List.pairwise_map]
      refine hp.imp ?_
      intro y y' hyy
      rw [hCross_s g a b _ _ _ H.cy hne, hCross_s g a b _ _ _ H.cy hne, hdec, sK_lt_iff_down hlt]
      simp only [fwd, Bool.false_eq_true, if_false, add_zero]
      exact Int.cast_lt.2 hyy
    · have hlt : nV g a < nV g b := floor_lt_of_lt_floor (by omega)
      have hdec : decide (0 < (nV g b).floor - (nV g a).floor) = true := by simp; omega
      rw [if_pos hpos, List.pairwise_map]
      refine hp.imp ?_
      intro y y' hyy
      rw [hCross_s g a b _ _ _ H.cy hne, hCross_s g a b _ _ _ H.cy hne, hdec, sK_lt_iff_up hlt]
      simp only [fwd, if_true]
      have : (y : Rat) < (y' : Rat) := Int.cast_lt.2 hyy
      linarith

/-! ## the diagonal case -/

theorem ifabs (x : Rat) : (if x < 0 then -x else x) = |x| := by
  split
  · rename_i h; rw [abs_of_neg h]
  · rename_i h; rw [abs_of_nonneg (not_lt.1 h)]

/-- the corner test of the `filter_map` closure -/
def cornerHit (eps : Rat) (i j : Int) (v h : Cross) : Prop :=
  if decide (0 < i) = decide (0 < j) then |v.t - 1| < eps ∧ |h.t| < eps else |v.t| < eps ∧ |h.t - 1| < eps

def VAcc (eps : Rat) (v : Cross) : Prop := eps ≤ v.s ∧ v.s ≤ 1 - eps ∧ eps ≤ v.t ∧ v.t ≤ 1 - eps
def HAcc (eps : Rat) (h : Cross) : Prop := eps < h.s ∧ h.s ≤ 1 - eps ∧ eps ≤ h.t ∧ h.t ≤ 1 - eps

instance (eps : Rat) (i j : Int) (v h : Cross) : Decidable (cornerHit eps i j v h) := by
  unfold cornerHit; exact inferInstance
instance (eps : Rat) (v : Cross) : Decidable (VAcc eps v) := by unfold VAcc; exact inferInstance
instance (eps : Rat) (h : Cross) : Decidable (HAcc eps h) := by unfold HAcc; exact inferInstance

theorem diagPick_some {eps : Rat} {i j : Int} {v h c : Cross} (e : diagPick eps i j v h = some c) :
    (cornerHit eps i j v h ∧ c.t = 0 ∧
        c.s = (if decide (0 < i) = decide (0 < j) then h.s else v.s)) ∨
    (¬ cornerHit eps i j v h ∧ c = v ∧ VAcc eps v) ∨
    (¬ cornerHit eps i j v h ∧ c = h ∧ ¬ VAcc eps v ∧ HAcc eps h) := by
  unfold diagPick at e
  simp only [ifabs] at e
  unfold cornerHit VAcc HAcc
  by_cases hs : decide (0 < i) = decide (0 < j)
  · simp only [hs, if_true] at e ⊢
    by_cases hc : |v.t - 1| < eps ∧ |h.t| < eps
    · simp only [hc, and_self, if_true, Option.some.injEq] at e
      left; subst e; exact ⟨hc, rfl, rfl⟩
    · simp only [hc, if_false] at e
      right
      by_cases hv : eps ≤ v.s ∧ v.s ≤ 1 - eps ∧ eps ≤ v.t ∧ v.t ≤ 1 - eps
      · simp only [hv, and_self, if_true, Option.some.injEq] at e
        left; exact ⟨hc, e.symm, hv⟩
      · simp only [hv, if_false] at e
        by_cases hh : eps < h.s ∧ h.s ≤ 1 - eps ∧ eps ≤ h.t ∧ h.t ≤ 1 - eps
        · simp only [hh, and_self, if_true, Option.some.injEq] at e
          right; exact ⟨hc, e.symm, hv, hh⟩
        · simp [hh] at e
  · simp only [hs, if_false] at e ⊢
    by_cases hc : |v.t| < eps ∧ |h.t - 1| < eps
    · simp only [hc, and_self, if_true, Option.some.injEq] at e
      left; subst e; exact ⟨hc, rfl, rfl⟩
    · simp only [hc, if_false] at e
      right
      by_cases hv : eps ≤ v.s ∧ v.s ≤ 1 - eps ∧ eps ≤ v.t ∧ v.t ≤ 1 - eps
      · simp only [hv, and_self, if_true, Option.some.injEq] at e
        left; exact ⟨hc, e.symm, hv⟩
      · simp only [hv, if_false] at e
        by_cases hh : eps < h.s ∧ h.s ≤ 1 - eps ∧ eps ≤ h.t ∧ h.t ≤ 1 - eps
        · simp only [hh, and_self, if_true, Option.some.injEq] at e
          right; exact ⟨hc, e.symm, hv, hh⟩
        · simp [hh] at e

theorem diagPick_v {eps : Rat} {i j : Int} {v h : Cross} (hc : ¬ cornerHit eps i j v h) (hv : VAcc eps v) :
    diagPick eps i j v h = some v := by
  unfold diagPick
  simp only [ifabs]
  unfold cornerHit at hc
  unfold VAcc at hv
  by_cases hs : decide (0 < i) = decide (0 < j)
  · simp only [hs, if_true] at hc ⊢
    simp only [hc, if_false, hv, and_self, if_true]
  · simp only [hs, if_false] at hc ⊢
    simp only [hc, if_false, hv, and_self, if_true]

theorem diagPick_h {eps : Rat} {i j : Int} {v h : Cross} (hc : ¬ cornerHit eps i j v h) (hv : ¬ VAcc eps v)
    (hh : HAcc eps h) : diagPick eps i j v h = some h := by
  unfold diagPick
  simp only [ifabs]
  unfold cornerHit at hc
  unfold VAcc at hv
  unfold HAcc at hh
  by_cases hs : decide (0 < i) = decide (0 < j)
  · simp only [hs, if_true] at hc ⊢
    simp only [hc, if_false, hv, hh, and_self, if_true]
  · simp only [hs, if_false] at hc ⊢
    simp only [hc, if_false, hv, hh, and_self, if_true]

theorem fwd_int (pos : Bool) (x : Int) : fwd pos x = (((x + (if pos then 1 else 0) : Int)) : Rat) := by
  cases pos <;> simp [fwd]

theorem mem_diagList (c : Cross) (i j ib jb : Int) :
    c ∈ diagList g eps a b i j ib jb ↔
      (∃ x, (min ib (ib + i) ≤ x ∧ x < max (ib + i) ib + 1) ∧
        ∃ y, (min jb (jb + j) ≤ y ∧ y < max (jb + j) jb + 1) ∧
          diagPick eps i j (vCross g a b (decide (0 < i)) x y) (hCross g a b (decide (0 < j)) x y) = some c) ∧
      0 ≤ c.s ∧ c.s ≤ 1 := by
  unfold diagList diagCand
  rw [mem_sortByS, List.mem_filter, List.mem_flatMap]
  simp only [List.mem_filterMap, mem_irange, decide_eq_true_eq]

theorem lin_zero (q0 q1 : Rat) : lin q0 q1 0 = q0 := by simp [lin]
theorem lin_one (q0 q1 : Rat) : lin q0 q1 1 = q1 := by simp [lin]

/-- a parameter in `[0, 1]` at which a coordinate is an integer is strictly inside `(0, 1)` -/
theorem strict_of_int (n0 : NonInt q0) (n1 : NonInt q1) {s : Rat} {L : Int} (h0 : 0 ≤ s) (h1 : s ≤ 1)
    (e : lin q0 q1 s = (L : Rat)) : 0 < s ∧ s < 1 := by
  constructor
  · rcases lt_or_eq_of_le h0 with h | h
    · exact h
    · exfalso; rw [← h, lin_zero] at e; exact n0 L e
  · rcases lt_or_eq_of_le h1 with h | h
    · exact h
    · exfalso; rw [h, lin_one] at e; exact n1 L e

/-- the vertical candidate of a cell, in normalised coordinates -/
theorem vfacts (H : GenPos g eps a b) (hne : a.1 ≠ b.1) (pos : Bool) (x y : Int) :
    lin (nU g a) (nU g b) (vCross g a b pos x y).s = fwd pos x ∧
    (vCross g a b pos x y).t =
      (if pos then lin (nV g a) (nV g b) (vCross g a b pos x y).s - y
       else (y : Rat) + 1 - lin (nV g a) (nV g b) (vCross g a b pos x y).s) := by
  refine ⟨?_, vCross_t g a b pos x y H.cy⟩
  rw [vCross_s g a b pos x y H.cx hne]
  exact lin_sK (nU_ne H.cx hne) _

theorem hfacts (H : GenPos g eps a b) (hne : a.2 ≠ b.2) (pos : Bool) (x y : Int) :
    lin (nV g a) (nV g b) (hCross g a b pos x y).s = fwd pos y ∧
    (hCross g a b pos x y).t =
      (if pos then (x : Rat) + 1 - lin (nU g a) (nU g b) (hCross g a b pos x y).s
       else lin (nU g a) (nU g b) (hCross g a b pos x y).s - x) := by
  refine ⟨?_, hCross_t g a b pos x y H.cx⟩
  rw [hCross_s g a b pos x y H.cy hne]
  exact lin_sK (nV_ne H.cy hne) _

/-- an accepted vertical candidate is a crossing of the forward vertical side of its cell, strictly
    inside the side -/
theorem vacc_facts (H : GenPos g eps a b) (hne : a.1 ≠ b.1) (pos : Bool) (x y : Int)
    (hv : VAcc eps (vCross g a b pos x y)) :
    0 < (vCross g a b pos x y).s ∧ (vCross g a b pos x y).s < 1 ∧
    lin (nU g a) (nU g b) (vCross g a b pos x y).s = fwd pos x ∧
    (y : Rat) < lin (nV g a) (nV g b) (vCross g a b pos x y).s ∧
    lin (nV g a) (nV g b) (vCross g a b pos x y).s < (y : Rat) + 1 ∧
    0 < (vCross g a b pos x y).t ∧ (vCross g a b pos x y).t < 1 := by
  obtain ⟨f1, f2⟩ := vfacts H hne pos x y
  obtain ⟨a1, a2, a3, a4⟩ := hv
  have e0 := H.eps0
  rw [f2] at a3 a4
  refine ⟨by linarith, by linarith, f1, ?_, ?_, by rw [f2]; linarith, by rw [f2]; linarith⟩
  · cases pos <;> simp at a3 a4 <;> linarith
  · cases pos <;> simp at a3 a4 <;> linarith

theorem hacc_facts (H : GenPos g eps a b) (hne : a.2 ≠ b.2) (pos : Bool) (x y : Int)
    (hh : HAcc eps (hCross g a b pos x y)) :
    0 < (hCross g a b pos x y).s ∧ (hCross g a b pos x y).s < 1 ∧
    lin (nV g a) (nV g b) (hCross g a b pos x y).s = fwd pos y ∧
    (x : Rat) < lin (nU g a) (nU g b) (hCross g a b pos x y).s ∧
    lin (nU g a) (nU g b) (hCross g a b pos x y).s < (x : Rat) + 1 ∧
    0 < (hCross g a b pos x y).t ∧ (hCross g a b pos x y).t < 1 := by
  obtain ⟨f1, f2⟩ := hfacts H hne pos x y
  obtain ⟨a1, a2, a3, a4⟩ := hh
  have e0 := H.eps0
  rw [f2] at a3 a4
  refine ⟨by linarith, by linarith, f1, ?_, ?_, by rw [f2]; linarith, by rw [f2]; linarith⟩
  · cases pos <;> simp at a3 a4 <;> linarith
  · cases pos <;> simp at a3 a4 <;> linarith

/-- under general position the corner branch never contributes an intersection of the segment -/
theorem no_corner (H : GenPos g eps a b) (h1 : a.1 ≠ b.1) (h2 : a.2 ≠ b.2) (i j x y : Int) {s : Rat}
    (hc : cornerHit eps i j (vCross g a b (decide (0 < i)) x y) (hCross g a b (decide (0 < j)) x y))
    (es : s = (if decide (0 < i) = decide (0 < j) then (hCross g a b (decide (0 < j)) x y).s
      else (vCross g a b (decide (0 < i)) x y).s))
    (s0 : 0 ≤ s) (s1 : s ≤ 1) : False := by
  obtain ⟨v1, v2⟩ := vfacts H h1 (decide (0 < i)) x y
  obtain ⟨g1, g2⟩ := hfacts H h2 (decide (0 < j)) x y
  unfold cornerHit at hc
  by_cases hs : decide (0 < i) = decide (0 < j)
  · simp only [hs, if_true] at hc es
    rw [es] at s0 s1
    rw [fwd_int] at g1
    obtain ⟨p0, p1⟩ := strict_of_int H.nva H.nvb s0 s1 g1
    obtain ⟨_, _, bd⟩ := H.nhband p0 p1 g1
    have hh := hc.2
    rw [g2] at hh
    cases hpj : decide (0 < j) with
    | true =>
        rw [hpj] at hh; simp only [if_true] at hh
        have := bd (x + 1)
        push_cast at this
        rw [abs_sub_comm] at this
        rw [hpj] at this
        linarith
    | false =>
        rw [hpj] at hh; simp only [Bool.false_eq_true, if_false] at hh
        have := bd x
        rw [hpj] at this
        linarith
  · simp only [hs, if_false] at hc es
    rw [es] at s0 s1
    rw [fwd_int] at v1
    obtain ⟨p0, p1⟩ := strict_of_int H.nua H.nub s0 s1 v1
    obtain ⟨_, _, bd⟩ := H.nvband p0 p1 v1
    have hh := hc.1
    rw [v2] at hh
    cases hpi : decide (0 < i) with
    | true =>
        rw [hpi] at hh; simp only [if_true] at hh
        have := bd y
        rw [hpi] at this
        linarith
    | false =>
        rw [hpi] at hh; simp only [Bool.false_eq_true, if_false] at hh
        have := bd (y + 1)
        push_cast at this
        rw [abs_sub_comm] at this
        rw [hpi] at this
        linarith

/-- which side of its cell an intersection reported for cell `(x, y)` lies on -/
def KindV (g : GGrid) (a b : Pt) (pos : Bool) (x y : Int) (s : Rat) : Prop :=
  lin (nU g a) (nU g b) s = fwd pos x ∧ (y : Rat) < lin (nV g a) (nV g b) s ∧ lin (nV g a) (nV g b) s < (y : Rat) + 1

def KindH (g : GGrid) (a b : Pt) (pos : Bool) (x y : Int) (s : Rat) : Prop :=
  lin (nV g a) (nV g b) s = fwd pos y ∧ (x : Rat) < lin (nU g a) (nU g b) s ∧ lin (nU g a) (nU g b) s < (x : Rat) + 1

theorem entry_kind (H : GenPos g eps a b) (h1 : a.1 ≠ b.1) (h2 : a.2 ≠ b.2) (i j x y : Int) {c : Cross}
    (e : diagPick eps i j (vCross g a b (decide (0 < i)) x y) (hCross g a b (decide (0 < j)) x y) = some c)
    (s0 : 0 ≤ c.s) (s1 : c.s ≤ 1) :
    Good g a b c ∧ (KindV g a b (decide (0 < i)) x y c.s ∨ KindH g a b (decide (0 < j)) x y c.s) := by
  rcases diagPick_some e with ⟨hc, _, es⟩ | ⟨_, rfl, hv⟩ | ⟨_, rfl, _, hh⟩
  · exact (no_corner H h1 h2 i j x y hc es s0 s1).elim
  · obtain ⟨f1, f2, f3, f4, f5, f6, f7⟩ := vacc_facts H h1 _ x y hv
    exact ⟨⟨f1, f2, f6, f7, Or.inl ⟨x, y, _, rfl⟩⟩, Or.inl ⟨f3, f4, f5⟩⟩
  · obtain ⟨f1, f2, f3, f4, f5, f6, f7⟩ := hacc_facts H h2 _ x y hh
    exact ⟨⟨f1, f2, f6, f7, Or.inr ⟨x, y, _, rfl⟩⟩, Or.inr ⟨f3, f4, f5⟩⟩

theorem int_unique {y y' : Int} {q : Rat} (a1 : (y : Rat) < q) (a2 : q < (y : Rat) + 1) (b1 : (y' : Rat) < q)
    (b2 : q < (y' : Rat) + 1) : y = y' := by
  have c1 : (y : Rat) < (y' : Rat) + 1 := lt_trans a1 b2
  have c2 : (y' : Rat) < (y : Rat) + 1 := lt_trans b1 a2
  have d1 : y < y' + 1 := Int.cast_lt.1 (by push_cast; exact c1)
  have d2 : y' < y + 1 := Int.cast_lt.1 (by push_cast; exact c2)
  omega

theorem fwd_inj {pos : Bool} {x x' : Int} (e : fwd pos x = fwd pos x') : x = x' := by
  unfold fwd at e
  have : (x : Rat) = (x' : Rat) := by linarith
  exact Int.cast_injective this

/-- two reported intersections with the same parameter come from the same cell -/
theorem kind_inj {pi pj : Bool} {x y x' y' : Int} {s : Rat}
    (k : KindV g a b pi x y s ∨ KindH g a b pj x y s) (k' : KindV g a b pi x' y' s ∨ KindH g a b pj x' y' s) :
    x = x' ∧ y = y' := by
  rcases k with ⟨u, v1, v2⟩ | ⟨v, u1, u2⟩ <;> rcases k' with ⟨u', v1', v2'⟩ | ⟨v', u1', u2'⟩
  · exact ⟨fwd_inj (u.symm.trans u'), int_unique v1 v2 v1' v2'⟩
  · exfalso; rw [fwd_int] at u; exact no_int_between u1' u2' u
  · exfalso; rw [fwd_int] at u'; exact no_int_between u1 u2 u'
  · exact ⟨int_unique u1 u2 u1' u2', fwd_inj (v.symm.trans v')⟩

theorem diag_spec (H : GenPos g eps a b) (hi : (nU g b).floor - (nU g a).floor ≠ 0)
    (hj : (nV g b).floor - (nV g a).floor ≠ 0) :
    (∀ c, c ∈ diagList g eps a b ((nU g b).floor - (nU g a).floor) ((nV g b).floor - (nV g a).floor)
        (nU g a).floor (nV g a).floor → Good g a b c) ∧
    (∀ s, IsCrossing g a b s →
      ∃ c, c ∈ diagList g eps a b ((nU g b).floor - (nU g a).floor) ((nV g b).floor - (nV g a).floor)
        (nU g a).floor (nV g a).floor ∧ c.s = s) ∧
    (diagList g eps a b ((nU g b).floor - (nU g a).floor) ((nV g b).floor - (nV g a).floor)
        (nU g a).floor (nV g a).floor).Pairwise (fun c d => c.s < d.s) := by
  have h1 : a.1 ≠ b.1 := ne1_of_floor H (by omega)
  have h2 : a.2 ≠ b.2 := ne2_of_floor H (by omega)
  have hune : nU g a ≠ nU g b := nU_ne H.cx h1
  have hvne : nV g a ≠ nV g b := nV_ne H.cy h2
  have e0 := H.eps0
  refine ⟨?_, ?_, ?_⟩
  · -- soundness
    intro c hc
    obtain ⟨⟨x, _, y, _, e⟩, s0, s1⟩ := (mem_diagList c _ _ _ _).1 hc
    exact (entry_kind H h1 h2 _ _ x y e s0 s1).1
  · -- completeness
    rintro s ⟨s0, s1, hv | hh⟩
    · obtain ⟨K, e⟩ := (onV_iff g _ H.cx).1 hv
      rw [nU_segPoint g a b s H.cx] at e
      obtain ⟨b1, b2, bd⟩ := H.nvband s0 s1 e
      have hb : Btw (nU g a) (nU g b) (K : Rat) := by
        have := lin_between s0 s1 hune; rw [e] at this; exact this
      generalize hpi : decide (0 < (nU g b).floor - (nU g a).floor) = pi at *
      generalize hpj : decide (0 < (nV g b).floor - (nV g a).floor) = pj at *
      have hf := fwd_back pi K
      rw [← hf] at hb
      have hx := btw_subgrid H.nua H.nub rfl hi (by rw [hpi]; exact hb)
      have hy := floor_lin_range (q0 := nV g a) (q1 := nV g b) (le_of_lt s0) (le_of_lt s1) rfl
      obtain ⟨v1, v2⟩ := vfacts H h1 pi (K - (if pi then 1 else 0)) (lin (nV g a) (nV g b) s).floor
      have hvs : (vCross g a b pi (K - (if pi then 1 else 0)) (lin (nV g a) (nV g b) s).floor).s = s := by
        rw [vCross_s g a b pi _ _ H.cx h1, hf]; exact (sK_unique hune e).symm
      rw [hvs] at v2
      have fl := floor_le (lin (nV g a) (nV g b) s)
      have fl' := lt_floor_succ (lin (nV g a) (nV g b) s)
      have bd0 := bd (lin (nV g a) (nV g b) s).floor
      have bd1 := bd ((lin (nV g a) (nV g b) s).floor + 1)
      rw [abs_of_nonneg (by linarith)] at bd0
      push_cast at bd1
      rw [abs_of_neg (by linarith)] at bd1
      have tb : eps ≤ (vCross g a b pi (K - (if pi then 1 else 0)) (lin (nV g a) (nV g b) s).floor).t ∧
          (vCross g a b pi (K - (if pi then 1 else 0)) (lin (nV g a) (nV g b) s).floor).t ≤ 1 - eps := by
        rw [v2]; cases pi <;> simp <;> constructor <;> linarith
      have hacc : VAcc eps (vCross g a b pi (K - (if pi then 1 else 0)) (lin (nV g a) (nV g b) s).floor) := by
        refine ⟨?_, ?_, tb.1, tb.2⟩ <;> rw [hvs] <;> linarith
      have hnc : ¬ cornerHit eps ((nU g b).floor - (nU g a).floor) ((nV g b).floor - (nV g a).floor)
          (vCross g a b pi (K - (if pi then 1 else 0)) (lin (nV g a) (nV g b) s).floor)
          (hCross g a b pj (K - (if pi then 1 else 0)) (lin (nV g a) (nV g b) s).floor) := by
        unfold cornerHit
        split
        · rintro ⟨c1, _⟩
          rw [abs_of_nonpos (by linarith [tb.2])] at c1
          linarith [tb.2]
        · rintro ⟨c1, _⟩
          rw [abs_of_nonneg (by linarith [tb.1])] at c1
          linarith [tb.1]
      refine ⟨_, (mem_diagList _ _ _ _ _).2 ⟨⟨_, hx, _, hy, ?_⟩, ?_, ?_⟩, hvs⟩
      · rw [hpi, hpj]; exact diagPick_v hnc hacc
      · rw [hvs]; exact le_of_lt s0
      · rw [hvs]; exact le_of_lt s1
    · obtain ⟨L, e⟩ := (onH_iff g _ H.cy).1 hh
      rw [nV_segPoint g a b s H.cy] at e
      obtain ⟨b1, b2, bd⟩ := H.nhband s0 s1 e
      have hb : Btw (nV g a) (nV g b) (L : Rat) := by
        have := lin_between s0 s1 hvne; rw [e] at this; exact this
      have hupos : 0 < (nU g b).floor - (nU g a).floor → nU g a < nU g b := fun h =>
        floor_lt_of_lt_floor (by omega)
      have huneg : ¬ 0 < (nU g b).floor - (nU g a).floor → nU g b < nU g a := fun h =>
        floor_lt_of_lt_floor (by omega)
      have hvpos : 0 < (nV g b).floor - (nV g a).floor → nV g a < nV g b := fun h =>
        floor_lt_of_lt_floor (by omega)
      have hvneg : ¬ 0 < (nV g b).floor - (nV g a).floor → nV g b < nV g a := fun h =>
        floor_lt_of_lt_floor (by omega)
      generalize hpi : decide (0 < (nU g b).floor - (nU g a).floor) = pi at *
      generalize hpj : decide (0 < (nV g b).floor - (nV g a).floor) = pj at *
      have hf := fwd_back pj L
      rw [← hf] at hb
      have hy := btw_subgrid H.nva H.nvb rfl hj (by rw [hpj]; exact hb)
      have hx := floor_lin_range (q0 := nU g a) (q1 := nU g b) (le_of_lt s0) (le_of_lt s1) rfl
      obtain ⟨g1, g2⟩ := hfacts H h2 pj (lin (nU g a) (nU g b) s).floor (L - (if pj then 1 else 0))
      have hhs : (hCross g a b pj (lin (nU g a) (nU g b) s).floor (L - (if pj then 1 else 0))).s = s := by
        rw [hCross_s g a b pj _ _ H.cy h2, hf]; exact (sK_unique hvne e).symm
      rw [hhs] at g2
      have fl := floor_le (lin (nU g a) (nU g b) s)
      have fl' := lt_floor_succ (lin (nU g a) (nU g b) s)
      have bd0 := bd (lin (nU g a) (nU g b) s).floor
      have bd1 := bd ((lin (nU g a) (nU g b) s).floor + 1)
      rw [abs_of_nonneg (by linarith)] at bd0
      push_cast at bd1
      rw [abs_of_neg (by linarith)] at bd1
      have tb : eps ≤ (hCross g a b pj (lin (nU g a) (nU g b) s).floor (L - (if pj then 1 else 0))).t ∧
          (hCross g a b pj (lin (nU g a) (nU g b) s).floor (L - (if pj then 1 else 0))).t ≤ 1 - eps := by
        rw [g2]; cases pj <;> simp <;> constructor <;> linarith
      have hacc : HAcc eps (hCross g a b pj (lin (nU g a) (nU g b) s).floor (L - (if pj then 1 else 0))) := by
        refine ⟨?_, ?_, tb.1, tb.2⟩ <;> rw [hhs] <;> linarith
      have hnc : ¬ cornerHit eps ((nU g b).floor - (nU g a).floor) ((nV g b).floor - (nV g a).floor)
          (vCross g a b pi (lin (nU g a) (nU g b) s).floor (L - (if pj then 1 else 0)))
          (hCross g a b pj (lin (nU g a) (nU g b) s).floor (L - (if pj then 1 else 0))) := by
        unfold cornerHit
        split
        · rintro ⟨_, c1⟩
          rw [abs_of_nonneg (by linarith [tb.1])] at c1
          linarith [tb.1]
        · rintro ⟨_, c1⟩
          rw [abs_of_nonpos (by linarith [tb.2])] at c1
          linarith [tb.2]
      -- the vertical candidate of this cell is not accepted: the segment leaves the cell through
      -- its horizontal side, so it cannot also cross the forward vertical side
      have hnv : ¬ VAcc eps (vCross g a b pi (lin (nU g a) (nU g b) s).floor (L - (if pj then 1 else 0))) := by
        intro hv
        obtain ⟨p0, p1, pu, pv0, pv1, _, _⟩ := vacc_facts H h1 pi _ _ hv
        generalize (vCross g a b pi (lin (nU g a) (nU g b) s).floor (L - (if pj then 1 else 0))).s = sv at *
        have du := lin_sub (nU g a) (nU g b) s sv
        have dv := lin_sub (nV g a) (nV g b) s sv
        rw [e] at dv
        rw [pu] at du
        -- s < sv from the x-coordinate
        have lt1 : s < sv := by
          by_contra hge
          have hge : sv ≤ s := not_lt.1 hge
          cases pi with
          | true =>
              have hd := hupos (by simpa using hpi)
              have := mul_nonneg (sub_nonneg.2 hge) (le_of_lt (sub_pos.2 hd))
              simp only [fwd, if_true] at du
              linarith
          | false =>
              have hd := huneg (by simpa using hpi)
              have := mul_nonpos_of_nonneg_of_nonpos (sub_nonneg.2 hge) (le_of_lt (sub_neg.2 hd))
              simp only [fwd, Bool.false_eq_true, if_false, add_zero] at du
              linarith
        -- sv < s from the y-coordinate
        have hL : (L : Rat) = fwd pj (L - (if pj then 1 else 0)) := hf.symm
        cases pj with
        | true =>
            have hd := hvpos (by simpa using hpj)
            have := mul_neg_of_neg_of_pos (sub_neg.2 lt1) (sub_pos.2 hd)
            simp at pv1
            linarith
        | false =>
            have hd := hvneg (by simpa using hpj)
            have := mul_pos_of_neg_of_neg (sub_neg.2 lt1) (sub_neg.2 hd)
            simp at pv0
            linarith
      refine ⟨_, (mem_diagList _ _ _ _ _).2 ⟨⟨_, hx, _, hy, ?_⟩, ?_, ?_⟩, hhs⟩
      · rw [hpi, hpj]; exact diagPick_h hnc hnv hacc
      · rw [hhs]; exact le_of_lt s0
      · rw [hhs]; exact le_of_lt s1
  · -- strictly sorted
    unfold diagList
    apply sortByS_strict
    rw [List.pairwise_filter]
    unfold diagCand
    rw [List.pairwise_flatMap]
    constructor
    · intro x _
      rw [List.pairwise_filterMap]
      refine (irange_pairwise _ _).imp ?_
      intro y y' hyy c ec d ed pc pd heq
      have pc' : 0 ≤ c.s ∧ c.s ≤ 1 := by simpa using pc
      have pd' : 0 ≤ d.s ∧ d.s ≤ 1 := by simpa using pd
      have kc := (entry_kind H h1 h2 _ _ x y ec pc'.1 pc'.2).2
      have kd := (entry_kind H h1 h2 _ _ x y' ed pd'.1 pd'.2).2
      rw [← heq] at kd
      have := (kind_inj kc kd).2
      omega
    · refine (irange_pairwise _ _).imp ?_
      intro x x' hxx c hc d hd pc pd heq
      obtain ⟨y, _, ec⟩ := List.mem_filterMap.1 hc
      obtain ⟨y', _, ed⟩ := List.mem_filterMap.1 hd
      have pc' : 0 ≤ c.s ∧ c.s ≤ 1 := by simpa using pc
      have pd' : 0 ≤ d.s ∧ d.s ≤ 1 := by simpa using pd
      have kc := (entry_kind H h1 h2 _ _ x y ec pc'.1 pc'.2).2
      have kd := (entry_kind H h1 h2 _ _ x' y' ed pd'.1 pd'.2).2
      rw [← heq] at kd
      have := (kind_inj kc kd).1
      omega

/-! ## all cases together -/

theorem crossings_spec (H : GenPos g eps a b) :
    (∀ c, c ∈ crossingsRaw g eps a b → Good g a b c) ∧
    (∀ s, IsCrossing g a b s → ∃ c, c ∈ crossingsRaw g eps a b ∧ c.s = s) ∧
    (crossingsRaw g eps a b).Pairwise (fun c d => c.s < d.s) := by
  unfold crossingsRaw
  simp only
  rw [H.cella.1, H.cella.2, H.cellb.1, H.cellb.2]
  by_cases h00 : (nU g b).floor - (nU g a).floor = 0 ∧ (nV g b).floor - (nV g a).floor = 0
  · rw [if_pos h00]
    refine ⟨?_, ?_, List.Pairwise.nil⟩
    · intro c hc; cases hc
    rintro s ⟨s0, s1, hv | hh⟩
    · exfalso
      obtain ⟨K, e⟩ := (onV_iff g _ H.cx).1 hv
      rw [nU_segPoint g a b s H.cx] at e
      obtain ⟨r1, r2⟩ := stay_col H (by omega) (le_of_lt s0) (le_of_lt s1)
      exact no_int_between r1 r2 e
    · exfalso
      obtain ⟨L, e⟩ := (onH_iff g _ H.cy).1 hh
      rw [nV_segPoint g a b s H.cy] at e
      obtain ⟨r1, r2⟩ := stay_row H (by omega) (le_of_lt s0) (le_of_lt s1)
      exact no_int_between r1 r2 e
  · rw [if_neg h00]
    by_cases hj : (nV g b).floor - (nV g a).floor = 0
    · rw [if_pos hj]
      exact row_spec H (by omega) (by omega)
    · rw [if_neg hj]
      by_cases hi : (nU g b).floor - (nU g a).floor = 0
      · rw [if_pos hi]
        exact col_spec H (by omega) hj
      · rw [if_neg hi]
        exact diag_spec H hi hj

/-- the reported dart and the point: algebraic identities of the four macros -/
theorem vCross_point (hcx : 0 < g.cx) (hcy : 0 < g.cy) (hne : a.1 ≠ b.1) (pos : Bool) (x y : Int) :
    (vCross g a b pos x y).dart = (dBase g x y + ((if pos then 1 else 3 : Nat) : Int)).toNat ∧
    segPoint a b (vCross g a b pos x y).s =
      sidePoint g x y (if pos then 1 else 3) (vCross g a b pos x y).t := by
  have h1 : g.cx ≠ 0 := ne_of_gt hcx
  have h2 : g.cy ≠ 0 := ne_of_gt hcy
  have h3 : b.1 - a.1 ≠ 0 := sub_ne_zero.2 (Ne.symm hne)
  cases pos
  · refine ⟨rfl, ?_⟩
    simp only [vCross, leftI, segPoint, sidePoint, cornerOf, Bool.false_eq_true, if_false]
    ext
    · simp only; field_simp; ring
    · simp only; field_simp; ring
  · refine ⟨rfl, ?_⟩
    simp only [vCross, rightI, segPoint, sidePoint, cornerOf, if_true]
    ext
    · simp only; field_simp; ring
    · simp only; field_simp; ring

theorem hCross_point (hcx : 0 < g.cx) (hcy : 0 < g.cy) (hne : a.2 ≠ b.2) (pos : Bool) (x y : Int) :
    (hCross g a b pos x y).dart = (dBase g x y + ((if pos then 2 else 0 : Nat) : Int)).toNat ∧
    segPoint a b (hCross g a b pos x y).s =
      sidePoint g x y (if pos then 2 else 0) (hCross g a b pos x y).t := by
  have h1 : g.cx ≠ 0 := ne_of_gt hcx
  have h2 : g.cy ≠ 0 := ne_of_gt hcy
  have h3 : b.2 - a.2 ≠ 0 := sub_ne_zero.2 (Ne.symm hne)
  cases pos
  · refine ⟨rfl, ?_⟩
    simp only [hCross, downI, segPoint, sidePoint, cornerOf, Bool.false_eq_true, if_false]
    ext
    · simp only; field_simp; ring
    · simp only; field_simp; ring
  · refine ⟨rfl, ?_⟩
    simp only [hCross, upI, segPoint, sidePoint, cornerOf, if_true]
    ext
    · simp only; field_simp; ring
    · simp only; field_simp; ring

end

/-! ## the property theorems -/

section
variable {g : GGrid} {eps : Rat} {a b : Pt}

theorem vCross_s_zero (h : a.1 = b.1) (pos : Bool) (x y : Int) : (vCross g a b pos x y).s = 0 := by
  cases pos <;> simp [vCross, leftI, rightI, h]

theorem hCross_s_zero (h : a.2 = b.2) (pos : Bool) (x y : Int) : (hCross g a b pos x y).s = 0 := by
  cases pos <;> simp [hCross, upI, downI, h]

/-- **C16, step 1 is sound**: for a segment in general position, every intersection the kernel
    reports lies strictly inside the segment (`0 < s < 1`) and strictly inside the side of the grid
    dart it names (`0 < t < 1`, the point of the segment at `s` *is* the point of that side at `t`) -/
theorem raw_crossings_sound (H : GenPos g eps a b) {c : Cross} (hc : c ∈ crossingsRaw g eps a b) :
    0 < c.s ∧ c.s < 1 ∧ 0 < c.t ∧ c.t < 1 ∧
    ∃ x y : Int, ∃ k : Nat, k < 4 ∧ c.dart = (dBase g x y + (k : Int)).toNat ∧
      segPoint a b c.s = sidePoint g x y k c.t := by
  have G := (crossings_spec H).1 c hc
  refine ⟨G.s0, G.s1, G.t0, G.t1, ?_⟩
  rcases G.side with ⟨x, y, pos, e⟩ | ⟨x, y, pos, e⟩
  · have hne : a.1 ≠ b.1 := by
      intro h; have := G.s0; rw [e, vCross_s_zero h] at this; exact lt_irrefl _ this
    obtain ⟨p1, p2⟩ := vCross_point (g := g) H.cx H.cy hne pos x y
    rw [e]
    exact ⟨x, y, if pos then 1 else 3, by cases pos <;> simp, p1, p2⟩
  · have hne : a.2 ≠ b.2 := by
      intro h; have := G.s0; rw [e, hCross_s_zero h] at this; exact lt_irrefl _ this
    obtain ⟨p1, p2⟩ := hCross_point (g := g) H.cx H.cy hne pos x y
    rw [e]
    exact ⟨x, y, if pos then 2 else 0, by cases pos <;> simp, p1, p2⟩

/-- … in particular it is a crossing of the segment with a grid line -/
theorem raw_crossings_on_grid_lines (H : GenPos g eps a b) {c : Cross} (hc : c ∈ crossingsRaw g eps a b) :
    IsCrossing g a b c.s := by
  obtain ⟨s0, s1, _, _, x, y, k, hk, _, e⟩ := raw_crossings_sound H hc
  refine ⟨s0, s1, ?_⟩
  rw [e]
  match k, hk with
  | 0, _ => right; exact ⟨y, by simp [sidePoint, cornerOf]⟩
  | 1, _ => left; exact ⟨x + 1, by simp [sidePoint, cornerOf]⟩
  | 2, _ => right; exact ⟨y + 1, by simp [sidePoint, cornerOf]⟩
  | 3, _ => left; exact ⟨x, by simp [sidePoint, cornerOf]⟩

/-- **C16, no crossing is missed**: every crossing of the open segment with a vertical or horizontal
    grid line is reported, with its parameter -/
theorem raw_crossings_complete (H : GenPos g eps a b) {s : Rat} (hs : IsCrossing g a b s) :
    ∃ c, c ∈ crossingsRaw g eps a b ∧ c.s = s :=
  (crossings_spec H).2.1 s hs

/-- **C16, the intersections come in the order of the segment** (strictly increasing parameter; in
    particular no crossing is reported twice) -/
theorem raw_crossings_sorted (H : GenPos g eps a b) :
    (crossingsRaw g eps a b).Pairwise (fun c d => c.s < d.s) :=
  (crossings_spec H).2.2

/-- an affine coordinate that is never an integer on an open parameter interval has a constant floor
    there -/
theorem floor_const {q0 q1 s1 s2 : Rat} (hno : ∀ s, s1 < s → s < s2 → ∀ K : Int, lin q0 q1 s ≠ (K : Rat))
    {r r' : Rat} (hr : s1 < r ∧ r < s2) (hr' : s1 < r' ∧ r' < s2) :
    (lin q0 q1 r).floor = (lin q0 q1 r').floor := by
  -- it suffices to exclude `floor (f r) < floor (f r')` for any two points of the interval
  have key : ∀ {r r' : Rat}, (s1 < r ∧ r < s2) → (s1 < r' ∧ r' < s2) →
      ¬ (lin q0 q1 r).floor < (lin q0 q1 r').floor := by
    intro r r' hr hr' hlt
    have f1 := lt_floor_succ (lin q0 q1 r)
    have f2 := floor_le (lin q0 q1 r')
    have hK : ((lin q0 q1 r).floor : Rat) + 1 ≤ ((lin q0 q1 r').floor : Rat) := by
      have : (((lin q0 q1 r).floor + 1 : Int) : Rat) ≤ (((lin q0 q1 r').floor : Int) : Rat) :=
        Int.cast_le.2 (by omega)
      push_cast at this; exact this
    have a1 : lin q0 q1 r < ((lin q0 q1 r').floor : Rat) := by linarith
    have a2 : ((lin q0 q1 r').floor : Rat) < lin q0 q1 r' :=
      lt_of_le_of_ne f2 (fun e => hno r' hr'.1 hr'.2 _ e.symm)
    have hne : q0 ≠ q1 := by
      intro e; unfold lin at a1 a2; rw [e] at a1 a2; simp at a1 a2; linarith
    have er := sK_unique hne (rfl : lin q0 q1 r = lin q0 q1 r)
    have er' := sK_unique hne (rfl : lin q0 q1 r' = lin q0 q1 r')
    have hmid := lin_sK hne ((lin q0 q1 r').floor : Rat)
    rcases lt_or_gt_of_ne hne with hup | hdown
    · have b1 := (sK_lt_iff_up (K := lin q0 q1 r) (K' := ((lin q0 q1 r').floor : Rat)) hup).2 a1
      have b2 := (sK_lt_iff_up (K := ((lin q0 q1 r').floor : Rat)) (K' := lin q0 q1 r') hup).2 a2
      rw [← er] at b1; rw [← er'] at b2
      exact hno _ (by linarith [hr.1]) (by linarith [hr'.2]) _ hmid
    · have b1 := (sK_lt_iff_down (K := ((lin q0 q1 r').floor : Rat)) (K' := lin q0 q1 r) hdown).2 a1
      have b2 := (sK_lt_iff_down (K := lin q0 q1 r') (K' := ((lin q0 q1 r').floor : Rat)) hdown).2 a2
      rw [← er] at b1; rw [← er'] at b2
      exact hno _ (by linarith [hr'.1]) (by linarith [hr.2]) _ hmid
  have k1 := key hr hr'
  have k2 := key hr' hr
  omega

/-- **C16, between two consecutive intersections the segment stays in one cell**: on an open
    parameter interval that contains no reported intersection, all points of the segment lie in the
    same grid cell (so consecutive intersections, and the ends with the first / last one, are joined
    inside one cell) -/
theorem raw_between_crossings_one_cell (H : GenPos g eps a b) {s1 s2 : Rat} (h1 : 0 ≤ s1) (h2 : s2 ≤ 1)
    (hno : ∀ c, c ∈ crossingsRaw g eps a b → ¬ (s1 < c.s ∧ c.s < s2))
    {r r' : Rat} (hr : s1 < r ∧ r < s2) (hr' : s1 < r' ∧ r' < s2) :
    gridCellOf g (segPoint a b r) = gridCellOf g (segPoint a b r') := by
  have nocross : ∀ s, s1 < s → s < s2 → ¬ IsCrossing g a b s := by
    intro s hs1 hs2 hc
    obtain ⟨c, hc, e⟩ := raw_crossings_complete H hc
    exact hno c hc (by rw [e]; exact ⟨hs1, hs2⟩)
  have hu : (lin (nU g a) (nU g b) r).floor = (lin (nU g a) (nU g b) r').floor := by
    apply floor_const _ hr hr'
    intro s hs1 hs2 K e
    apply nocross s hs1 hs2
    exact ⟨by linarith, by linarith, Or.inl ((onV_iff g _ H.cx).2 ⟨K, by rw [nU_segPoint g a b s H.cx]; exact e⟩)⟩
  have hv : (lin (nV g a) (nV g b) r).floor = (lin (nV g a) (nV g b) r').floor := by
    apply floor_const _ hr hr'
    intro s hs1 hs2 K e
    apply nocross s hs1 hs2
    exact ⟨by linarith, by linarith, Or.inr ((onH_iff g _ H.cy).2 ⟨K, by rw [nV_segPoint g a b s H.cy]; exact e⟩)⟩
  unfold gridCellOf
  have e1 : ((segPoint a b r).1 - g.ox) / g.cx = lin (nU g a) (nU g b) r := nU_segPoint g a b r H.cx
  have e2 : ((segPoint a b r').1 - g.ox) / g.cx = lin (nU g a) (nU g b) r' := nU_segPoint g a b r' H.cx
  have e3 : ((segPoint a b r).2 - g.oy) / g.cy = lin (nV g a) (nV g b) r := nV_segPoint g a b r H.cy
  have e4 : ((segPoint a b r').2 - g.oy) / g.cy = lin (nV g a) (nV g b) r' := nV_segPoint g a b r' H.cy
  rw [e1, e2, e3, e4, hu, hv]

end

/-! ## the number of intersections is the number of slots the kernel pre-allocates -/

/-- the parameters at which the coordinate `p0 → p1` crosses an integer, in the order of the straight
    `Range` -/
def axisList (p0 p1 : Rat) : List Rat :=
  let d := p1.floor - p0.floor
  if d = 0 then [] else
    (irange (min p0.floor (p0.floor + 1 + d)) (max (p0.floor + d) (p0.floor + 1))).map
      (fun x => sK p0 p1 (fwd (decide (0 < d)) x))

theorem axisList_length (p0 p1 : Rat) : (axisList p0 p1).length = (p1.floor - p0.floor).natAbs := by
  unfold axisList
  simp only
  split
  · rename_i h; rw [h]; rfl
  · rw [List.length_map, irange_length]; omega

theorem btw_ne_zero {p0 p1 : Rat} (n0 : NonInt p0) (n1 : NonInt p1) {K : Int} (h : Btw p0 p1 (K : Rat)) :
    p1.floor - p0.floor ≠ 0 := by
  intro e
  have e' : p0.floor = p1.floor := by omega
  have a0 := n0.floor_lt
  have a1 := lt_floor_succ p0
  have b0 := n1.floor_lt
  have b1 := lt_floor_succ p1
  rw [← e'] at b0 b1
  rcases h with ⟨h1, h2⟩ | ⟨h1, h2⟩
  · exact no_int_between (m := p0.floor) (q := (K : Rat)) (by linarith) (by linarith) rfl
  · exact no_int_between (m := p0.floor) (q := (K : Rat)) (by linarith) (by linarith) rfl

theorem mem_axisList {p0 p1 : Rat} (n0 : NonInt p0) (n1 : NonInt p1) (s : Rat) :
    s ∈ axisList p0 p1 ↔ ∃ K : Int, Btw p0 p1 (K : Rat) ∧ s = sK p0 p1 (K : Rat) := by
  unfold axisList
  simp only
  constructor
  · intro h
    split at h
    · cases h
    · rename_i hd
      obtain ⟨x, hx, rfl⟩ := List.mem_map.1 h
      have hb := (range_iff_btw n0 n1 rfl hd x).1 (mem_irange.1 hx)
      rw [fwd_int] at hb ⊢
      exact ⟨_, hb, rfl⟩
  · rintro ⟨K, hb, rfl⟩
    have hd := btw_ne_zero n0 n1 hb
    rw [if_neg hd]
    have hf := fwd_back (decide (0 < p1.floor - p0.floor)) K
    rw [← hf] at hb
    exact List.mem_map.2 ⟨_, mem_irange.2 ((range_iff_btw n0 n1 rfl hd _).2 hb), by rw [hf]⟩

theorem axisList_nodup {p0 p1 : Rat} (n0 : NonInt p0) (n1 : NonInt p1) : (axisList p0 p1).Nodup := by
  unfold axisList
  simp only
  split
  · exact List.nodup_nil
  · rename_i hd
    rw [List.Nodup, List.pairwise_map]
    refine (irange_pairwise _ _).imp ?_
    intro x x' hxx
    have hc : (x : Rat) < (x' : Rat) := Int.cast_lt.2 hxx
    rcases lt_or_gt_of_ne hd with hneg | hpos
    · have hlt : p1 < p0 := floor_lt_of_lt_floor (by omega)
      have := (sK_lt_iff_down (K := fwd (decide (0 < p1.floor - p0.floor)) x')
        (K' := fwd (decide (0 < p1.floor - p0.floor)) x) hlt).2 (by unfold fwd; linarith)
      exact ne_of_gt this
    · have hlt : p0 < p1 := floor_lt_of_lt_floor (by omega)
      have := (sK_lt_iff_up (K := fwd (decide (0 < p1.floor - p0.floor)) x)
        (K' := fwd (decide (0 < p1.floor - p0.floor)) x') hlt).2 (by unfold fwd; linarith)
      exact ne_of_lt this

/-- a parameter strictly inside the segment at which the coordinate is the integer `K` -/
theorem crossing_iff_btw {p0 p1 : Rat} (n0 : NonInt p0) {s : Rat} {K : Int} :
    (0 < s ∧ s < 1 ∧ lin p0 p1 s = (K : Rat)) ↔ (Btw p0 p1 (K : Rat) ∧ s = sK p0 p1 (K : Rat)) := by
  constructor
  · rintro ⟨s0, s1, e⟩
    have hne : p0 ≠ p1 := by
      intro h; unfold lin at e; rw [h] at e; simp at e; rw [← h] at e; exact n0 K e
    have := lin_between s0 s1 hne
    rw [e] at this
    exact ⟨this, sK_unique hne e⟩
  · rintro ⟨hb, rfl⟩
    have hne : p0 ≠ p1 := by
      rcases hb with ⟨h1, h2⟩ | ⟨h1, h2⟩
      · exact ne_of_lt (lt_trans h1 h2)
      · exact ne_of_gt (lt_trans h1 h2)
    obtain ⟨a1, a2⟩ := sK_mem hb
    exact ⟨a1, a2, lin_sK hne _⟩

section
variable {g : GGrid} {eps : Rat} {a b : Pt}

theorem isCrossing_iff (H : GenPos g eps a b) (s : Rat) :
    IsCrossing g a b s ↔
      s ∈ axisList (nU g a) (nU g b) ∨ s ∈ axisList (nV g a) (nV g b) := by
  rw [mem_axisList H.nua H.nub, mem_axisList H.nva H.nvb]
  constructor
  · rintro ⟨s0, s1, hv | hh⟩
    · obtain ⟨K, e⟩ := (onV_iff g _ H.cx).1 hv
      rw [nU_segPoint g a b s H.cx] at e
      exact Or.inl ⟨K, (crossing_iff_btw H.nua).1 ⟨s0, s1, e⟩⟩
    · obtain ⟨L, e⟩ := (onH_iff g _ H.cy).1 hh
      rw [nV_segPoint g a b s H.cy] at e
      exact Or.inr ⟨L, (crossing_iff_btw H.nva).1 ⟨s0, s1, e⟩⟩
  · rintro (⟨K, hk⟩ | ⟨L, hl⟩)
    · obtain ⟨s0, s1, e⟩ := (crossing_iff_btw H.nua).2 hk
      exact ⟨s0, s1, Or.inl ((onV_iff g _ H.cx).2 ⟨K, by rw [nU_segPoint g a b s H.cx]; exact e⟩)⟩
    · obtain ⟨s0, s1, e⟩ := (crossing_iff_btw H.nva).2 hl
      exact ⟨s0, s1, Or.inr ((onH_iff g _ H.cy).2 ⟨L, by rw [nV_segPoint g a b s H.cy]; exact e⟩)⟩

/-- **C16, the number of intersections is the `l1_dist` of the two cells**: the kernel pre-allocates
    exactly `|Δi| + |Δj|` intersection slots per segment (`ids start .. start + dist`, `zip`): for a
    segment in general position that is exactly the number of intersections it finds — no slot stays
    empty and `zip` drops nothing -/
theorem raw_crossings_count (H : GenPos g eps a b) :
    (crossingsRaw g eps a b).length =
      (((gridCellOf g b).1 : Int) - ((gridCellOf g a).1 : Int)).natAbs +
      (((gridCellOf g b).2 : Int) - ((gridCellOf g a).2 : Int)).natAbs := by
  rw [H.cella.1, H.cella.2, H.cellb.1, H.cellb.2, ← axisList_length, ← axisList_length, ← List.length_append]
  have hs := crossings_spec H
  have n1 : ((crossingsRaw g eps a b).map (·.s)).Nodup := by
    rw [List.Nodup, List.pairwise_map]
    exact hs.2.2.imp (fun h => ne_of_lt h)
  have n2 : (axisList (nU g a) (nU g b) ++ axisList (nV g a) (nV g b)).Nodup := by
    rw [List.nodup_append]
    refine ⟨axisList_nodup H.nua H.nub, axisList_nodup H.nva H.nvb, ?_⟩
    intro s hs1 s' hs2 e
    subst e
    obtain ⟨K, hk⟩ := (mem_axisList H.nua H.nub s).1 hs1
    obtain ⟨L, hl⟩ := (mem_axisList H.nva H.nvb s).1 hs2
    obtain ⟨s0, s1, eK⟩ := (crossing_iff_btw H.nua).2 hk
    obtain ⟨_, _, eL⟩ := (crossing_iff_btw H.nva).2 hl
    have := (H.nvband s0 s1 eK).2.2 L
    rw [eL] at this
    simp at this
    linarith [H.eps0]
  have hp : ((crossingsRaw g eps a b).map (·.s)).Perm
      (axisList (nU g a) (nU g b) ++ axisList (nV g a) (nV g b)) := by
    rw [List.perm_ext_iff_of_nodup n1 n2]
    intro s
    rw [List.mem_append, ← isCrossing_iff H s, List.mem_map]
    constructor
    · rintro ⟨c, hc, rfl⟩
      have G := hs.1 c hc
      exact raw_crossings_on_grid_lines H hc
    · intro hc
      obtain ⟨c, hc, e⟩ := hs.2.1 s hc
      exact ⟨c, hc, e⟩
  have := hp.length_eq
  rw [List.length_map] at this
  exact this

end

/-! ## the kernel's list: the `zip` with the pre-allocated identifiers drops nothing -/

section
variable {g : GGrid} {eps : Rat} {a b : Pt}

theorem crossingsOf_eq_raw (H : GenPos g eps a b) : crossingsOf g eps a b = crossingsRaw g eps a b := by
  have hc := raw_crossings_count H
  rw [crossingsOf_eq]
  unfold crossingsRaw at hc ⊢
  simp only at hc ⊢
  split
  · rfl
  · split
    · rfl
    · split
      · rfl
      · rename_i h1 h2 h3
        rw [if_neg h1, if_neg h2, if_neg h3] at hc
        rw [← hc, List.take_length]

/-- **C16, step 1 is sound**: for a segment in general position, every intersection the kernel
    reports lies strictly inside the segment (`0 < s < 1`) and strictly inside the side of the grid
    dart it names (`0 < t < 1`, the point of the segment at `s` *is* the point of that side at `t`) -/
theorem C16_crossings_sound (H : GenPos g eps a b) {c : Cross} (hc : c ∈ crossingsOf g eps a b) :
    0 < c.s ∧ c.s < 1 ∧ 0 < c.t ∧ c.t < 1 ∧
    ∃ x y : Int, ∃ k : Nat, k < 4 ∧ c.dart = (dBase g x y + (k : Int)).toNat ∧
      segPoint a b c.s = sidePoint g x y k c.t := by
  rw [crossingsOf_eq_raw H] at hc; exact raw_crossings_sound H hc

/-- … in particular it is a crossing of the segment with a grid line -/
theorem C16_crossings_on_grid_lines (H : GenPos g eps a b) {c : Cross} (hc : c ∈ crossingsOf g eps a b) :
    IsCrossing g a b c.s := by
  rw [crossingsOf_eq_raw H] at hc; exact raw_crossings_on_grid_lines H hc

/-- **C16, no crossing is missed**: every crossing of the open segment with a vertical or horizontal
    grid line is reported, with its parameter -/
theorem C16_crossings_complete (H : GenPos g eps a b) {s : Rat} (hs : IsCrossing g a b s) :
    ∃ c, c ∈ crossingsOf g eps a b ∧ c.s = s := by
  rw [crossingsOf_eq_raw H]; exact raw_crossings_complete H hs

/-- **C16, the intersections come in the order of the segment** (strictly increasing parameter; in
    particular no crossing is reported twice) -/
theorem C16_crossings_sorted (H : GenPos g eps a b) :
    (crossingsOf g eps a b).Pairwise (fun c d => c.s < d.s) := by
  rw [crossingsOf_eq_raw H]; exact raw_crossings_sorted H

/-- **C16, the number of intersections is the `l1_dist` of the two cells**: the kernel pre-allocates
    exactly `|Δi| + |Δj|` intersection slots per segment (`ids start .. start + dist`, `zip`): for a
    segment in general position that is exactly the number of intersections it finds — no slot stays
    empty and the `zip` drops nothing -/
theorem C16_crossings_count (H : GenPos g eps a b) :
    (crossingsOf g eps a b).length =
      (((gridCellOf g b).1 : Int) - ((gridCellOf g a).1 : Int)).natAbs +
      (((gridCellOf g b).2 : Int) - ((gridCellOf g a).2 : Int)).natAbs := by
  rw [crossingsOf_eq_raw H]; exact raw_crossings_count H

/-- **C16, between two consecutive intersections the segment stays in one cell**: on an open
    parameter interval that contains no reported intersection, all points of the segment lie in the
    same grid cell (so consecutive intersections, and the ends with the first / last one, are joined
    inside one cell) -/
theorem C16_between_crossings_one_cell (H : GenPos g eps a b) {s1 s2 : Rat} (h1 : 0 ≤ s1) (h2 : s2 ≤ 1)
    (hno : ∀ c, c ∈ crossingsOf g eps a b → ¬ (s1 < c.s ∧ c.s < s2))
    {r r' : Rat} (hr : s1 < r ∧ r < s2) (hr' : s1 < r' ∧ r' < s2) :
    gridCellOf g (segPoint a b r) = gridCellOf g (segPoint a b r') := by
  rw [crossingsOf_eq_raw H] at hno; exact raw_between_crossings_one_cell H h1 h2 hno hr hr'

end

/-! ## the identifier-indexed vector (`intersection_metadata`, dumped by the hook `verif::intersection_data`) -/

/-- **C16, identifiers**: the intersections indexed by their identifiers are the intersections of the
    vertex chain, in the same order or (two backward straight cases) in the opposite order -/
theorem C16_metadata_order (g : GGrid) (eps : Rat) (a b : Pt) :
    crossingsMeta g eps a b = crossingsOf g eps a b ∨
    crossingsMeta g eps a b = (crossingsOf g eps a b).reverse := by
  unfold crossingsMeta
  simp only
  split
  · exact Or.inr rfl
  · exact Or.inl rfl

theorem C16_metadata_same_intersections (g : GGrid) (eps : Rat) (a b : Pt) :
    (∀ c, c ∈ crossingsMeta g eps a b ↔ c ∈ crossingsOf g eps a b) ∧
    (crossingsMeta g eps a b).length = (crossingsOf g eps a b).length := by
  rcases C16_metadata_order g eps a b with e | e <;> rw [e] <;> simp

/-- **C16, every identifier of the segment receives a genuine crossing** and every crossing receives
    one: what the kernel stores under the `|Δi| + |Δj|` identifiers of a segment in general position
    are exactly the crossings of the segment with the grid, each once -/
theorem C16_metadata_spec {g : GGrid} {eps : Rat} {a b : Pt} (H : GenPos g eps a b) :
    (∀ c, c ∈ crossingsMeta g eps a b → IsCrossing g a b c.s ∧ 0 < c.t ∧ c.t < 1) ∧
    (∀ s, IsCrossing g a b s → ∃ c, c ∈ crossingsMeta g eps a b ∧ c.s = s) ∧
    (crossingsMeta g eps a b).length =
      (((gridCellOf g b).1 : Int) - ((gridCellOf g a).1 : Int)).natAbs +
      (((gridCellOf g b).2 : Int) - ((gridCellOf g a).2 : Int)).natAbs := by
  obtain ⟨hm, hl⟩ := C16_metadata_same_intersections g eps a b
  refine ⟨?_, ?_, by rw [hl]; exact C16_crossings_count H⟩
  · intro c hc
    have hc' := (hm c).1 hc
    obtain ⟨_, _, t0, t1, _⟩ := C16_crossings_sound H hc'
    exact ⟨C16_crossings_on_grid_lines H hc', t0, t1⟩
  · intro s hs
    obtain ⟨c, hc, e⟩ := C16_crossings_complete H hs
    exact ⟨c, (hm c).2 hc, e⟩

/-! ## non-vacuity -/

/-- unit grid at the origin, 3 cells per row -/
def exGrid : GGrid := { ox := 0, oy := 0, cx := 1, cy := 1, nx := 3 }

-- the four shapes of the result on concrete segments (dart, t, s)
example : crossingsOf exGrid epsF64 (1/4, 1/2) (7/4, 3/4) = [⟨2, 5/8, 1/2⟩] := by decide +kernel
example : (crossingsOf exGrid epsF64 (1/4, 1/4) (9/4, 5/4)).map (·.dart) = [2, 7, 18] := by decide +kernel
example : (crossingsOf exGrid epsF64 (9/4, 5/4) (1/4, 1/4)).map (·.dart) = [24, 17, 8] := by decide +kernel
example : (crossingsOf exGrid epsF64 (1/4, 1/4) (9/4, 5/4)).map (·.s) = [3/8, 3/4, 7/8] := by decide +kernel
example : crossingsOf exGrid epsF64 (1/4, 1/4) (3/4, 1/2) = [] := by decide +kernel
-- a backward row: identifiers run against the segment
example : (crossingsOf exGrid epsF64 (11/4, 1/4) (1/4, 1/2)).map (·.dart) = [12, 8] ∧
    (crossingsMeta exGrid epsF64 (11/4, 1/4) (1/4, 1/2)).map (·.dart) = [8, 12] := by decide +kernel

/-- the first segment is in general position (for `eps = 1/8`): one crossing, of the line `x = 1`, at
    `s = 1/2`, five eighths up the side -/
theorem exGenPos : GenPos exGrid (1 / 8) (1/4, 1/2) (7/4, 3/4) := by
  have hx : ∀ s : Rat, (segPoint (1/4, 1/2) (7/4, 3/4) s).1 = 1/4 + s * (3/2) := by
    intro s; simp only [segPoint]; ring
  have hy : ∀ s : Rat, (segPoint (1/4, 1/2) (7/4, 3/4) s).2 = 1/2 + s * (1/4) := by
    intro s; simp only [segPoint]; ring
  have nonint : ∀ (q : Rat) (m : Int), (m : Rat) < q → q < (m : Rat) + 1 → ∀ K : Int, q ≠ (K : Rat) :=
    fun q m h1 h2 K e => no_int_between h1 h2 e
  refine ⟨by norm_num [exGrid], by norm_num [exGrid], by norm_num, by norm_num [exGrid], by norm_num [exGrid],
    ?_, ?_, ?_, ?_⟩
  · constructor
    · rintro ⟨K, e⟩; exact nonint (1/4) 0 (by norm_num) (by norm_num) K (by simpa [exGrid] using e)
    · rintro ⟨K, e⟩; exact nonint (1/2) 0 (by norm_num) (by norm_num) K (by simpa [exGrid] using e)
  · constructor
    · rintro ⟨K, e⟩; exact nonint (7/4) 1 (by norm_num) (by norm_num) K (by simpa [exGrid] using e)
    · rintro ⟨K, e⟩; exact nonint (3/4) 0 (by norm_num) (by norm_num) K (by simpa [exGrid] using e)
  · rintro s s0 s1 ⟨K, e⟩
    rw [hx] at e
    simp only [exGrid, zero_add, mul_one] at e ⊢
    have hK : K = 1 := by
      have a1 : (0 : Rat) < (K : Rat) := by linarith
      have a2 : (K : Rat) < 2 := by linarith
      have b1 : (0 : Int) < K := by exact_mod_cast a1
      have b2 : K < 2 := by exact_mod_cast a2
      omega
    subst hK
    have hs : s = 1/2 := by push_cast at e; linarith
    subst hs
    refine ⟨by norm_num, by norm_num, fun L => ?_⟩
    rw [hy]
    rcases le_or_gt L 0 with h | h
    · have : (L : Rat) ≤ 0 := by exact_mod_cast h
      rw [abs_of_nonneg (by linarith)]; linarith
    · have : (1 : Rat) ≤ (L : Rat) := by exact_mod_cast h
      rw [abs_of_nonpos (by linarith)]; linarith
  · rintro s s0 s1 ⟨L, e⟩
    exfalso
    rw [hy] at e
    simp only [exGrid, zero_add, mul_one] at e
    exact nonint (1/2 + s * (1/4)) 0 (by push_cast; linarith) (by push_cast; linarith) L e

-- … so the theorems apply to it: the reported intersection is the crossing of `x = 1`
example : ∀ c, c ∈ crossingsOf exGrid (1 / 8) (1/4, 1/2) (7/4, 3/4) → IsCrossing exGrid (1/4, 1/2) (7/4, 3/4) c.s :=
  fun c hc => C16_crossings_on_grid_lines exGenPos hc
example : IsCrossing exGrid (1/4, 1/2) (7/4, 3/4) (1/2) :=
  ⟨by norm_num, by norm_num, Or.inl ⟨1, by simp [segPoint, exGrid]; norm_num⟩⟩
example : crossingsOf exGrid (1 / 8) (1/4, 1/2) (7/4, 3/4) = [⟨2, 5/8, 1/2⟩] := by decide +kernel

end HC.C16
