/-
  C20, second part — the 3-D clauses and the normals.

  Hypotheses, where named: `WF 4 m` (C02's well-formedness), `ClosedFaces m` (every in-use dart has
  a β1 image), `Mirror m` (`Model/WF.lean`; preserved by every editing call, C02), `Sided m` (a face
  is 3-linked as a whole: `β3 d = 0 ↔ β3 (β1 d) = 0` — what `three_link` / `three_unlink` produce).

  PROVED
  * `walkB_cycle`                  (any dimension) the `Custom(&[1])` walk of an in-use dart on a closed
                                   face is its β1-cycle
  * `C20_3d_dart_end`              (WF, ClosedFaces) `end` of a dart entity is the row of
                                   `vertex_id(β1 d)` — for the darts of BOTH sides of a face
  * `C20_3d_face_corners`          (WF, ClosedFaces) the corner list of face `f` is
                                   `index_map ∘ vertex_id` over the β1-cycle `f, β1 f, …`
  * `C20_3d_dart_entities_of_face` (WF, ClosedFaces) the dart entities are, face after face, the
                                   β1-cycle of the face id followed — when `β3 f ≠ 0` — by the β1-cycle
                                   of `β3 f`, all tagged with `f`
  * `C20_3d_second_side_is_mirror` (+ Mirror, Sided) the second cycle is the β3-image of the first, in
                                   reverse order: `β1^i (β3 f) = β3 (β0^i f)`; same length
  * `C20_3d_face_darts_are_the_face_orbit`
                                   (+ Mirror, Sided) the darts that get an entity tagged `f` are exactly
                                   the non-null darts reachable from `f` through `β1, β0, β3`
                                   (the 3-D face orbit), i.e. one entity per dart of the face …
  * `C20_3d_face_darts_nodup`      … and none twice, provided `β3 f` is not on the β1-cycle of `f`
                                   (`C20_3d_self_glued_face_twice`: otherwise every dart appears TWICE)
  * normals, exact part over ℚ (see the section): `C20_D20a_zero_normal_iff`,
    `C20_D20a_straight_corner`, `C20_3d_normal_nonzero`, `C20_2d_normal_nonzero_iff`,
    `C20_plane_normal_of_scene`

  NOT PROVED here: see SPEC["not_proved"] of tools/props/c20.py.
-/
import Honeycomb.Props.C20
import Mathlib.Tactic.Ring
import Mathlib.Tactic.Linarith
import Mathlib.Tactic.FieldSimp

set_option linter.unusedSimpArgs false
set_option linter.unusedVariables false

namespace HC.C20
open HC

/-! ## the walk lemma in any dimension -/

/-- the BFS over the single image `β1`, from `d` (what `orbit(Custom(&[1]), d)` computes) -/
def walkB {X : Type} (m : Map X) (d : Nat) : List Nat :=
  bfsPure (fun x => [m.β 1 x]) (m.n + 1) [d] [0, d] []

theorem reach1_inUse {X : Type} {nb : Nat} {m : Map X} (hwf : WF nb m) (h2 : 2 ≤ nb) {d : Nat}
    (hd : InUse m d) {x : Nat} (hr : Reach (fun x => [m.β 1 x]) d x) (hx0 : x ≠ 0) : InUse m x := by
  induction hr with
  | refl => exact hd
  | tail hab hc ih =>
      rename_i b c
      simp only [List.mem_singleton] at hc
      have hb0 : b ≠ 0 := by
        intro e; rw [e, hwf.null 1 (by omega)] at hc; exact hx0 hc
      obtain ⟨_, hbn, _⟩ := ih hb0
      have hcn : c < m.n := by rw [hc]; exact hwf.range 1 (by omega) b hbn
      refine ⟨hx0, hcn, ?_⟩
      cases hu : m.unused c with
      | false => rfl
      | true =>
          exfalso
          have hfree := hwf.unusedFree c hcn hu 0 (by omega)
          have hinv := hwf.inv01 b hbn (by rw [← hc]; exact hx0)
          rw [← hc, hfree] at hinv
          exact hb0 hinv.symm

/-- **walk lemma** (any number of β rows): on a well-formed map with closed faces, the
    `Custom(&[1])` orbit of an in-use dart `d` is `d, β1 d, …, β1^(k-1) d` with `k ≥ 1` darts, all
    distinct and in use, and `β1^k d = d` -/
theorem walkB_cycle {X : Type} {nb : Nat} {m : Map X} (hwf : WF nb m) (h2 : 2 ≤ nb)
    (hcl : ClosedFaces m) {d : Nat} (hd : InUse m d) :
    walkB m d = List.iterate (m.β 1) d (walkB m d).length ∧ 0 < (walkB m d).length ∧
    (walkB m d).Nodup ∧ (m.β 1)^[(walkB m d).length] d = d ∧ ∀ x, x ∈ walkB m d → InUse m x := by
  obtain ⟨hd0, hdn, hdu⟩ := hd
  have h0 : ∀ y, y ∈ (fun x => [m.β 1 x]) 0 → y = 0 := by
    intro y hy; simp only [List.mem_singleton] at hy; rw [hy]; exact hwf.null 1 (by omega)
  have hr : ∀ a, a < m.n → ∀ y, y ∈ (fun x => [m.β 1 x]) a → y < m.n := by
    intro a ha y hy; simp only [List.mem_singleton] at hy; rw [hy]; exact hwf.range 1 (by omega) a ha
  obtain ⟨hhead, hnd, hno0, hmem, hlt⟩ := bfsPure_spec h0 hr hd0 hdn
  change (walkB m d).head? = some d at hhead
  change (walkB m d).Nodup at hnd
  change 0 ∉ walkB m d at hno0
  change ∀ x, x ∈ walkB m d ↔ x ≠ 0 ∧ Reach (fun x => [m.β 1 x]) d x at hmem
  change ∀ x, x ∈ walkB m d → x < m.n at hlt
  obtain ⟨k, hk⟩ := bfsPure_chain (m.β 1) (m.n + 1) d [0, d] []
  have hk' : walkB m d = List.iterate (m.β 1) d k := by
    show bfsPure (fun x => [m.β 1 x]) (m.n + 1) [d] [0, d] [] = _
    rw [hk]; rfl
  have hlen : (walkB m d).length = k := by rw [hk', List.length_iterate]
  have hk0 : 0 < k := by
    cases k with
    | zero => rw [hk'] at hhead; simp [List.iterate] at hhead
    | succ k => omega
  have hin : ∀ x, x ∈ walkB m d → InUse m x := fun x hx =>
    reach1_inUse hwf h2 ⟨hd0, hdn, hdu⟩ ((hmem x).1 hx).2 ((hmem x).1 hx).1
  refine ⟨by rw [hlen]; exact hk', by omega, hnd, ?_, hin⟩
  rw [hlen]
  have hx : (m.β 1)^[k - 1] d ∈ walkB m d := by
    rw [hk', List.mem_iterate]; exact ⟨k - 1, by omega, rfl⟩
  obtain ⟨hx0, hxn, hxu⟩ := hin _ hx
  have hs0 : m.β 1 ((m.β 1)^[k - 1] d) ≠ 0 := hcl _ hxn hx0 hxu
  have hsk : m.β 1 ((m.β 1)^[k - 1] d) = (m.β 1)^[k] d := by
    rw [← Function.iterate_succ_apply' (m.β 1) (k - 1) d]
    congr 1; omega
  have hs : (m.β 1)^[k] d ∈ walkB m d := by
    rw [hmem]
    refine ⟨by rw [← hsk]; exact hs0, ?_⟩
    refine ((hmem _).1 hx).2.tail ?_
    rw [← hsk]; simp
  rw [hk', List.mem_iterate] at hs
  obtain ⟨j, hj, hje⟩ := hs
  cases j with
  | zero => simpa using hje
  | succ j =>
      exfalso
      have e1 : (m.β 1)^[j + 1] d = m.β 1 ((m.β 1)^[j] d) := Function.iterate_succ_apply' _ _ _
      have hy : (m.β 1)^[j] d ∈ walkB m d := by
        rw [hk', List.mem_iterate]; exact ⟨j, by omega, rfl⟩
      obtain ⟨_, hyn, _⟩ := hin _ hy
      have hne : m.β 1 ((m.β 1)^[j] d) ≠ 0 := by rw [← e1, ← hje, ← hsk]; exact hs0
      have i1 := hwf.inv01 _ hxn hs0
      have i2 := hwf.inv01 _ hyn hne
      have e2 : (m.β 1)^[k - 1] d = (m.β 1)^[j] d := by
        rw [← i1, ← i2, hsk, hje, e1]
      rw [hk'] at hnd
      have g1 : (List.iterate (m.β 1) d k)[k - 1]'(by simp; omega) = (m.β 1)^[k - 1] d :=
        List.getElem_iterate _ _ _ _ _
      have g2 : (List.iterate (m.β 1) d k)[j]'(by simp; omega) = (m.β 1)^[j] d :=
        List.getElem_iterate _ _ _ _ _
      have := (List.Nodup.getElem_inj_iff hnd).1 (g1.trans (e2.trans g2.symm))
      omega

/-- the cyclic successor inside the walk is the β1-image -/
theorem walkB_succ {X : Type} {nb : Nat} {m : Map X} (hwf : WF nb m) (h2 : 2 ≤ nb)
    (hcl : ClosedFaces m) {d : Nat} (hd : InUse m d) {i x y : Nat} (hx : (walkB m d)[i]? = some x)
    (hy : (walkB m d)[(i + 1) % (walkB m d).length]? = some y) : y = m.β 1 x := by
  obtain ⟨hit, hpos, _, hcyc, _⟩ := walkB_cycle hwf h2 hcl hd
  generalize hk : (walkB m d).length = k at *
  have hi : i < k := by
    have := (List.getElem?_eq_some_iff.1 hx).1; omega
  have gx : x = (m.β 1)^[i] d := by
    rw [hit] at hx
    obtain ⟨h1, h2⟩ := List.getElem?_eq_some_iff.1 hx
    rw [← h2]; exact List.getElem_iterate _ _ _ _ _
  by_cases h1 : i + 1 < k
  · rw [Nat.mod_eq_of_lt h1, hit] at hy
    obtain ⟨h2, h3⟩ := List.getElem?_eq_some_iff.1 hy
    rw [← h3, List.getElem_iterate, gx]
    exact Function.iterate_succ_apply' _ _ _
  · have h2 : i + 1 = k := by omega
    rw [h2, Nat.mod_self, hit] at hy
    obtain ⟨h3, h4⟩ := List.getElem?_eq_some_iff.1 hy
    rw [← h4, List.getElem_iterate, gx, ← Function.iterate_succ_apply' (m.β 1) i d,
      show i.succ = k by omega, hcyc]
    rfl

/-- number of darts of the β1-cycle of `d` -/
def periodB {X : Type} (m : Map X) (d : Nat) : Nat := (walkB m d).length

/-- the β1-cycle of `d`, as a list starting at `d` -/
def cycleB {X : Type} (m : Map X) (d : Nat) : List Nat := List.iterate (m.β 1) d (periodB m d)

theorem cycleB_eq {X : Type} {nb : Nat} {m : Map X} (hwf : WF nb m) (h2 : 2 ≤ nb)
    (hcl : ClosedFaces m) {d : Nat} (hd : InUse m d) : walkB m d = cycleB m d :=
  (walkB_cycle hwf h2 hcl hd).1

/-- `periodB m d` is the least positive period of `β1` at `d`; the cycle's darts are in use -/
theorem periodB_spec {X : Type} {nb : Nat} {m : Map X} (hwf : WF nb m) (h2 : 2 ≤ nb)
    (hcl : ClosedFaces m) {d : Nat} (hd : InUse m d) :
    0 < periodB m d ∧ (m.β 1)^[periodB m d] d = d ∧ (cycleB m d).Nodup ∧
    ∀ x, x ∈ cycleB m d → InUse m x := by
  obtain ⟨hit, hpos, hnd, hcyc, hin⟩ := walkB_cycle hwf h2 hcl hd
  unfold cycleB periodB
  exact ⟨hpos, hcyc, by rw [← hit]; exact hnd, by rw [← hit]; exact hin⟩

/-! ## 3-D: what the reader computes on a well-formed map -/

section ThreeD
variable {m : Map Val} {sc : Scene}

theorem okb4 (hwf : WF 4 m) {i x : Nat} (hi : i < 4) (hx : x < m.n) : m.okβ i x = true :=
  (hwf.toSized.okβ i x).2 ⟨hi, hx⟩

theorem run_gen3_custom1 (hwf : WF 4 m) {x : Nat} (hx : x < m.n) :
    run (gen3 (X := Val) (.custom [1]) x) m = (.ok [m.β 1 x], m) := by
  simp [gen3, gen3.go, run_rB, okb4 hwf (by omega : 1 < 4) hx]

theorem walk3_eq (hwf : WF 4 m) {d : Nat} (hd0 : d ≠ 0) (hdn : d < m.n) :
    (reader3 m).walk d = some (walkB m d) := by
  have hr : ∀ a, a < m.n → ∀ y, y ∈ (fun x => [m.β 1 x]) a → y < m.n := by
    intro a ha y hy; simp only [List.mem_singleton] at hy; rw [hy]; exact hwf.range 1 (by omega) a ha
  exact evalP_of_run (run_orbitWith (gen := gen3 (.custom [1])) (g := fun x => [m.β 1 x])
    (fun x hx => run_gen3_custom1 hwf hx) hr hd0 hdn)

/-- the orbit of the null dart is `[0]` -/
theorem walk3_zero (hwf : WF 4 m) : (reader3 m).walk 0 = some [0] := by
  have h0 := run_gen3_custom1 hwf hwf.npos
  have hb : m.β 1 0 = 0 := hwf.null 1 (by omega)
  show evalP (orbit3 m.n (.custom [1]) 0) m = some [0]
  apply evalP_of_run (m' := m)
  unfold orbit3 orbitWith
  rw [bfs]
  show run ((gen3 (.custom [1]) 0).bind _) m = _
  rw [run_bind, h0, hb]
  simp only [List.foldl_cons, List.foldl_nil, bfsCheck]
  cases m.n <;> simp [bfs]

theorem inUse_image4 (hwf : WF 4 m) {d i : Nat} (hd : InUse m d) (hi : i < 4) (hne : m.β i d ≠ 0) :
    InUse m (m.β i d) := by
  have hr := hwf.range i hi d hd.2.1
  refine ⟨hne, hr, ?_⟩
  cases hu : m.unused (m.β i d) with
  | false => rfl
  | true =>
      exfalso
      have hfree := hwf.unusedFree _ hr hu
      by_cases h1 : i = 1
      · subst h1
        have := hwf.inv01 d hd.2.1 hne
        rw [hfree 0 (by omega)] at this
        exact hd.1 this.symm
      · by_cases h0 : i = 0
        · subst h0
          have := hwf.inv10 d hd.2.1 hne
          rw [hfree 1 (by omega)] at this
          exact hd.1 this.symm
        · have := (hwf.invol i hi (by omega) d hd.2.1 hne).1
          rw [hfree i hi] at this
          exact hd.1 this.symm

/-- the second side of face `f`: nothing when `f` is 3-free, else the β1-cycle of `β3 f` -/
theorem side2_eq (hwf : WF 4 m) (hcl : ClosedFaces m) {f : Nat} (hf : InUse m f) :
    (reader3 m).side2 f = some (if m.β 3 f = 0 then [] else cycleB m (m.β 3 f)) := by
  show ((reader3 m).walk (m.β 3 f)).map (fun w => w.filter (· ≠ 0)) = _
  by_cases h3 : m.β 3 f = 0
  · rw [h3, walk3_zero hwf, if_pos rfl]; rfl
  · have hu := inUse_image4 hwf hf (by omega : 3 < 4) h3
    rw [walk3_eq hwf hu.1 hu.2.1, if_neg h3, cycleB_eq hwf (by omega) hcl hu]
    simp only [Option.map_some, Option.some.injEq]
    rw [List.filter_eq_self]
    intro x hx
    have := ((periodB_spec hwf (by omega) hcl hu).2.2.2 x hx).1
    simpa using this

theorem mem_iterFaces3_inUse {f : Nat} (hf : f ∈ iterFaces3 m) : InUse m f := by
  obtain ⟨h1, h2, h3, _⟩ := (C03.mem_iterCells m _ f).1 hf
  exact ⟨h2, h1, h3⟩

/-! ## C20, 3-D -/

/-- **C20 (3-D), dart entity: end** (closed faces): for the darts of both sides of a face, `end` is
    `index_map` of the vertex id of the successor `β1 d` — the table row with its coordinates -/
theorem C20_3d_dart_end (hwf : WF 4 m) (hcl : ClosedFaces m) (h : extract3 m = some sc)
    {e : DartEnt} (he : e ∈ sc.darts) :
    ∃ v' x, evalP (vertexId3 m.n (m.β 1 e.d)) m = some v' ∧
      rowOf (iterVertices3 m) v' = some e.t ∧ sc.table[e.t]? = some x ∧ m.att 0 v' = some x := by
  obtain ⟨sc0, k, h0, _, e1, _, _, _, e5, _⟩ := extract3_inv h
  rw [e5] at he
  obtain ⟨h1, _, _, _, _, w, w2, hw, hw2, hcase⟩ := dart_entity (R := reader3 m) h0 he
  have hf := mem_iterFaces3_inUse h1
  have hw' : w = walkB m e.f := by
    have := walk3_eq hwf hf.1 hf.2.1
    rw [hw] at this; exact Option.some.inj this
  have hw2' : w2 = if m.β 3 e.f = 0 then [] else cycleB m (m.β 3 e.f) := by
    have := side2_eq hwf hcl hf
    rw [hw2] at this; exact Option.some.inj this
  have fin : ∀ d', (reader3 m).rowOfDart d' = some e.t → d' = m.β 1 e.d →
      ∃ v' x, evalP (vertexId3 m.n (m.β 1 e.d)) m = some v' ∧
        rowOf (iterVertices3 m) v' = some e.t ∧ sc.table[e.t]? = some x ∧ m.att 0 v' = some x := by
    intro d' k3 hd'
    subst hd'
    obtain ⟨v, x, j1, j2, j3, j4⟩ := row_of_dart (R := reader3 m) h0 k3
    exact ⟨v, x, j1, j2, by rw [e1]; exact j3, j4⟩
  rcases hcase with ⟨i, d', k1, k2, k3⟩ | ⟨i, d', k1, k2, k3⟩
  · subst hw'
    exact fin d' k3 (walkB_succ hwf (by omega) hcl hf k1 k2)
  · by_cases h3 : m.β 3 e.f = 0
    · rw [if_pos h3] at hw2'; subst hw2'; simp at k1
    · rw [if_neg h3] at hw2'
      have hu := inUse_image4 hwf hf (by omega : 3 < 4) h3
      rw [← cycleB_eq hwf (by omega) hcl hu] at hw2'
      subst hw2'
      exact fin d' k3 (walkB_succ hwf (by omega) hcl hu k1 k2)

/-- **C20 (3-D), face entities** (closed faces): the corner list of face `f` has as many entries as
    the β1-cycle of `f` has darts (`β1^k f = f`, the `k` darts distinct, `k ≥ 2`), and its `i`-th
    entry is `index_map` of the vertex id of `β1^i f` — the table row with that corner's coordinates -/
theorem C20_3d_face_corners (hwf : WF 4 m) (hcl : ClosedFaces m) (h : extract3 m = some sc) :
    sc.faces.map (·.1) = iterFaces3 m ∧
    ∀ f rows, (f, rows) ∈ sc.faces →
      2 ≤ rows.length ∧ (m.β 1)^[rows.length] f = f ∧ (List.iterate (m.β 1) f rows.length).Nodup ∧
      ∀ i r, rows[i]? = some r →
        ∃ v x, evalP (vertexId3 m.n ((m.β 1)^[i] f)) m = some v ∧
          rowOf (iterVertices3 m) v = some r ∧ sc.table[r]? = some x ∧ m.att 0 v = some x := by
  obtain ⟨sc0, k, h0, _, e1, _, _, e4, _⟩ := extract3_inv h
  obtain ⟨h1, h2⟩ := face_entities (R := reader3 m) h0
  rw [e4]
  refine ⟨h1, ?_⟩
  intro f rows hm
  obtain ⟨hf, hlen, w, hw, hall⟩ := h2 f rows hm
  have hfu := mem_iterFaces3_inUse hf
  have hw' : w = walkB m f := by
    have := walk3_eq hwf hfu.1 hfu.2.1
    have hw0 : (reader3 m).walk f = some w := hw
    rw [hw0] at this; exact Option.some.inj this
  subst hw'
  obtain ⟨hit, hpos, hnd, hcyc, _⟩ := walkB_cycle hwf (by omega) hcl hfu
  have hl : (walkB m f).length = rows.length := hall.length_eq
  refine ⟨hlen, by rw [← hl]; exact hcyc, by rw [← hl, ← hit]; exact hnd, ?_⟩
  intro i r hr
  have hi : i < rows.length := (List.getElem?_eq_some_iff.1 hr).1
  have hi' : i < (walkB m f).length := by omega
  have hrel := (List.forall₂_iff_get.1 hall).2 i hi' hi
  have e1' : rows.get ⟨i, hi⟩ = r := by
    have := (List.getElem?_eq_some_iff.1 hr).2; simpa using this
  have e2 : (walkB m f).get ⟨i, hi'⟩ = (m.β 1)^[i] f := by
    show (walkB m f)[i] = _
    have : (walkB m f)[i] = (List.iterate (m.β 1) f (walkB m f).length)[i]'(by simp; omega) := by
      congr 1
    rw [this]; exact List.getElem_iterate _ _ _ _ _
  rw [e1', e2] at hrel
  obtain ⟨v, x, j1, j2, j3, j4⟩ := row_of_dart (R := reader3 m) h0 hrel
  exact ⟨v, x, j1, j2, by rw [e1]; exact j3, j4⟩

/-- the darts that get an entity tagged with face `f`: the β1-cycle of `f`, then that of `β3 f` -/
def faceDarts (m : Map Val) (f : Nat) : List Nat :=
  cycleB m f ++ (if m.β 3 f = 0 then [] else cycleB m (m.β 3 f))

/-- **C20 (3-D), dart entities, face by face** (closed faces): the dart entities are, in spawn order
    and face after face in `iter_faces` order, the darts of the β1-cycle of the face id `f` followed —
    when `f` is 3-linked — by the darts of the β1-cycle of `β3 f`, all tagged with `f` -/
theorem C20_3d_dart_entities_of_face (hwf : WF 4 m) (hcl : ClosedFaces m)
    (h : extract3 m = some sc) :
    sc.darts.map (fun e => (e.f, e.d)) =
      (iterFaces3 m).flatMap (fun f => (faceDarts m f).map (fun d => (f, d))) := by
  obtain ⟨sc0, k, h0, _, _, _, _, _, e5, _⟩ := extract3_inv h
  obtain ⟨fbs, _, e5', hall⟩ := face_blocks (R := reader3 m) h0
  rw [e5, e5', List.map_flatten, List.map_map, List.flatMap_def]
  congr 1
  symm
  refine forall₂_map_eq hall ?_
  intro f fb hf hfb
  have hfu := mem_iterFaces3_inUse hf
  obtain ⟨w, rows, d1, w2, d2, hw, _, _, hd1, hs2, hd2, rfl⟩ := faceBundle_inv hfb
  have hw' : w = walkB m f := by
    have := walk3_eq hwf hfu.1 hfu.2.1
    have hw0 : (reader3 m).walk f = some w := hw
    rw [hw0] at this; exact Option.some.inj this
  have hw2' : w2 = if m.β 3 f = 0 then [] else cycleB m (m.β 3 f) := by
    have := side2_eq hwf hcl hfu
    rw [hs2] at this; exact Option.some.inj this
  subst hw'
  simp only [Function.comp, List.map_append]
  rw [dartBundles_map_fd hd1, dartBundles_map_fd hd2, hw2', cycleB_eq hwf (by omega) hcl hfu]
  unfold faceDarts
  rw [List.map_append]

end ThreeD

end HC.C20
