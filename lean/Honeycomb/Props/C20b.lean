/-
  C20, second part — the 3-D clauses and the normals.

  Hypotheses, where named: `WF 4 m` (C02's well-formedness), `ClosedFaces m` (every in-use dart has
  a β1 image), `Mirror m` (`Model/WF.lean`; preserved by every editing call, C02), `Sided m` (a face
  is 3-linked as a whole: `β3 d = 0 ↔ β3 (β1 d) = 0` — what `three_link` / `three_unlink` produce).

  PROVED
  * `walkB_cycle`                  (any dimension) the `Custom(&[1])` walk of an in-use dart on a closed
                                   face is its β1-cycle
  * `C20_3d_dart_end`              (WF, ClosedFaces) `end` of a dart entity is the row of
                                   `vertex_id(β1 d)` — for the darts of BOTH sides of a face
  * `C20_3d_face_corners`          (WF, ClosedFaces) the corner list of face `f` is
                                   `index_map ∘ vertex_id` over the β1-cycle `f, β1 f, …`
  * `C20_3d_dart_entities_of_face` (WF, ClosedFaces) the dart entities are, face after face, the
                                   β1-cycle of the face id followed — when `β3 f ≠ 0` — by the β1-cycle
                                   of `β3 f`, all tagged with `f`
  * `C20_3d_second_side_is_mirror` (+ Mirror, Sided) the second cycle is the β3-image of the first, in
                                   reverse order: `β1^i (β3 f) = β3 (β0^i f)`; same length
  * `C20_3d_face_darts_are_the_face_orbit`
                                   (+ Mirror, Sided) the darts that get an entity tagged `f` are exactly
                                   the non-null darts reachable from `f` through `β1, β0, β3`
                                   (the 3-D face orbit), i.e. one entity per dart of the face …
  * `C20_3d_face_darts_nodup`      … and none twice, provided `β3 f` is not on the β1-cycle of `f`
                                   (`C20_3d_self_glued_face_twice`: otherwise every dart appears TWICE)
  * `faceId3_min`, `run_faceId3_eq`, `mem_iterFaces3_iff`
                                   (+ Mirror, Sided) `face_id_transac` of a 3-map succeeds and returns the
                                   smallest dart of the two-sided face (Lemmas/SceneFace3.lean analyses the
                                   lock-step walk); `iter_faces` yields exactly these minima
  * `C20_3d_each_dart_once`        (+ Mirror, Sided, NoSelfGlue) every in-use dart has exactly one dart
                                   entity and no other dart has one
  * `C20_3d_no_panic`              (WF, ClosedFaces, NoLoops, Mirror, Sided, Embedded3) the 3-D start-up
                                   system does not panic: `vertex_id` / `edge_id` / `volume_id` do not run
                                   out of fuel (`popLoop_terminates`), every lookup in `index_map` succeeds
  * `C20_face_normal_keys`, `C20_3d_face_normal_keys`, `C20_3d_volume_normal_keys`
                                   the keys of the two normal resources
  * normals, exact part over ℚ (see the section): `C20_D20a_zero_normal_iff`,
    `C20_D20a_straight_corner`, `C20_3d_normal_nonzero`, `C20_2d_normal_nonzero_iff`,
    `C20_plane_normal_of_scene`

  NOT PROVED here: see SPEC["not_proved"] of tools/props/c20.py.
-/
import Honeycomb.Props.C20
import Honeycomb.Lemmas.SceneFace3
import Honeycomb.Lemmas.Cell3
import Mathlib.Tactic.Ring
import Mathlib.Tactic.Linarith
import Mathlib.Tactic.FieldSimp

set_option linter.unusedSimpArgs false
set_option linter.unusedVariables false

namespace HC.C20
open HC

/-! ## the walk lemma in any dimension -/

/-- the BFS over the single image `β1`, from `d` (what `orbit(Custom(&[1]), d)` computes) -/
def walkB {X : Type} (m : Map X) (d : Nat) : List Nat :=
  bfsPure (fun x => [m.β 1 x]) (m.n + 1) [d] [0, d] []

theorem reach1_inUse {X : Type} {nb : Nat} {m : Map X} (hwf : WF nb m) (h2 : 2 ≤ nb) {d : Nat}
    (hd : InUse m d) {x : Nat} (hr : Reach (fun x => [m.β 1 x]) d x) (hx0 : x ≠ 0) : InUse m x := by
  induction hr with
  | refl => exact hd
  | tail hab hc ih =>
      rename_i b c
      simp only [List.mem_singleton] at hc
      have hb0 : b ≠ 0 := by
        intro e; rw [e, hwf.null 1 (by omega)] at hc; exact hx0 hc
      obtain ⟨_, hbn, _⟩ := ih hb0
      have hcn : c < m.n := by rw [hc]; exact hwf.range 1 (by omega) b hbn
      refine ⟨hx0, hcn, ?_⟩
      cases hu : m.unused c with
      | false => rfl
      | true =>
          exfalso
          have hfree := hwf.unusedFree c hcn hu 0 (by omega)
          have hinv := hwf.inv01 b hbn (by rw [← hc]; exact hx0)
          rw [← hc, hfree] at hinv
          exact hb0 hinv.symm

/-- **walk lemma** (any number of β rows): on a well-formed map with closed faces, the
    `Custom(&[1])` orbit of an in-use dart `d` is `d, β1 d, …, β1^(k-1) d` with `k ≥ 1` darts, all
    distinct and in use, and `β1^k d = d` -/
theorem walkB_cycle {X : Type} {nb : Nat} {m : Map X} (hwf : WF nb m) (h2 : 2 ≤ nb)
    (hcl : ClosedFaces m) {d : Nat} (hd : InUse m d) :
    walkB m d = List.iterate (m.β 1) d (walkB m d).length ∧ 0 < (walkB m d).length ∧
    (walkB m d).Nodup ∧ (m.β 1)^[(walkB m d).length] d = d ∧ ∀ x, x ∈ walkB m d → InUse m x := by
  obtain ⟨hd0, hdn, hdu⟩ := hd
  have h0 : ∀ y, y ∈ (fun x => [m.β 1 x]) 0 → y = 0 := by
    intro y hy; simp only [List.mem_singleton] at hy; rw [hy]; exact hwf.null 1 (by omega)
  have hr : ∀ a, a < m.n → ∀ y, y ∈ (fun x => [m.β 1 x]) a → y < m.n := by
    intro a ha y hy; simp only [List.mem_singleton] at hy; rw [hy]; exact hwf.range 1 (by omega) a ha
  obtain ⟨hhead, hnd, hno0, hmem, hlt⟩ := bfsPure_spec h0 hr hd0 hdn
  change (walkB m d).head? = some d at hhead
  change (walkB m d).Nodup at hnd
  change 0 ∉ walkB m d at hno0
  change ∀ x, x ∈ walkB m d ↔ x ≠ 0 ∧ Reach (fun x => [m.β 1 x]) d x at hmem
  change ∀ x, x ∈ walkB m d → x < m.n at hlt
  obtain ⟨k, hk⟩ := bfsPure_chain (m.β 1) (m.n + 1) d [0, d] []
  have hk' : walkB m d = List.iterate (m.β 1) d k := by
    show bfsPure (fun x => [m.β 1 x]) (m.n + 1) [d] [0, d] [] = _
    rw [hk]; rfl
  have hlen : (walkB m d).length = k := by rw [hk', List.length_iterate]
  have hk0 : 0 < k := by
    cases k with
    | zero => rw [hk'] at hhead; simp [List.iterate] at hhead
    | succ k => omega
  have hin : ∀ x, x ∈ walkB m d → InUse m x := fun x hx =>
    reach1_inUse hwf h2 ⟨hd0, hdn, hdu⟩ ((hmem x).1 hx).2 ((hmem x).1 hx).1
  refine ⟨by rw [hlen]; exact hk', by omega, hnd, ?_, hin⟩
  rw [hlen]
  have hx : (m.β 1)^[k - 1] d ∈ walkB m d := by
    rw [hk', List.mem_iterate]; exact ⟨k - 1, by omega, rfl⟩
  obtain ⟨hx0, hxn, hxu⟩ := hin _ hx
  have hs0 : m.β 1 ((m.β 1)^[k - 1] d) ≠ 0 := hcl _ hxn hx0 hxu
  have hsk : m.β 1 ((m.β 1)^[k - 1] d) = (m.β 1)^[k] d := by
    rw [← Function.iterate_succ_apply' (m.β 1) (k - 1) d]
    congr 1; omega
  have hs : (m.β 1)^[k] d ∈ walkB m d := by
    rw [hmem]
    refine ⟨by rw [← hsk]; exact hs0, ?_⟩
    refine ((hmem _).1 hx).2.tail ?_
    rw [← hsk]; simp
  rw [hk', List.mem_iterate] at hs
  obtain ⟨j, hj, hje⟩ := hs
  cases j with
  | zero => simpa using hje
  | succ j =>
      exfalso
      have e1 : (m.β 1)^[j + 1] d = m.β 1 ((m.β 1)^[j] d) := Function.iterate_succ_apply' _ _ _
      have hy : (m.β 1)^[j] d ∈ walkB m d := by
        rw [hk', List.mem_iterate]; exact ⟨j, by omega, rfl⟩
      obtain ⟨_, hyn, _⟩ := hin _ hy
      have hne : m.β 1 ((m.β 1)^[j] d) ≠ 0 := by rw [← e1, ← hje, ← hsk]; exact hs0
      have i1 := hwf.inv01 _ hxn hs0
      have i2 := hwf.inv01 _ hyn hne
      have e2 : (m.β 1)^[k - 1] d = (m.β 1)^[j] d := by
        rw [← i1, ← i2, hsk, hje, e1]
      rw [hk'] at hnd
      have g1 : (List.iterate (m.β 1) d k)[k - 1]'(by simp; omega) = (m.β 1)^[k - 1] d :=
        List.getElem_iterate _ _ _ _ _
      have g2 : (List.iterate (m.β 1) d k)[j]'(by simp; omega) = (m.β 1)^[j] d :=
        List.getElem_iterate _ _ _ _ _
      have := (List.Nodup.getElem_inj_iff hnd).1 (g1.trans (e2.trans g2.symm))
      omega

/-- the cyclic successor inside the walk is the β1-image -/
theorem walkB_succ {X : Type} {nb : Nat} {m : Map X} (hwf : WF nb m) (h2 : 2 ≤ nb)
    (hcl : ClosedFaces m) {d : Nat} (hd : InUse m d) {i x y : Nat} (hx : (walkB m d)[i]? = some x)
    (hy : (walkB m d)[(i + 1) % (walkB m d).length]? = some y) : y = m.β 1 x := by
  obtain ⟨hit, hpos, _, hcyc, _⟩ := walkB_cycle hwf h2 hcl hd
  generalize hk : (walkB m d).length = k at *
  have hi : i < k := by
    have := (List.getElem?_eq_some_iff.1 hx).1; omega
  have gx : x = (m.β 1)^[i] d := by
    rw [hit] at hx
    obtain ⟨h1, h2⟩ := List.getElem?_eq_some_iff.1 hx
    rw [← h2]; exact List.getElem_iterate _ _ _ _ _
  by_cases h1 : i + 1 < k
  · rw [Nat.mod_eq_of_lt h1, hit] at hy
    obtain ⟨h2, h3⟩ := List.getElem?_eq_some_iff.1 hy
    rw [← h3, List.getElem_iterate, gx]
    exact Function.iterate_succ_apply' _ _ _
  · have h2 : i + 1 = k := by omega
    rw [h2, Nat.mod_self, hit] at hy
    obtain ⟨h3, h4⟩ := List.getElem?_eq_some_iff.1 hy
    rw [← h4, List.getElem_iterate, gx, ← Function.iterate_succ_apply' (m.β 1) i d,
      show i.succ = k by omega, hcyc]
    rfl

/-- number of darts of the β1-cycle of `d` -/
def periodB {X : Type} (m : Map X) (d : Nat) : Nat := (walkB m d).length

/-- the β1-cycle of `d`, as a list starting at `d` -/
def cycleB {X : Type} (m : Map X) (d : Nat) : List Nat := List.iterate (m.β 1) d (periodB m d)

theorem cycleB_eq {X : Type} {nb : Nat} {m : Map X} (hwf : WF nb m) (h2 : 2 ≤ nb)
    (hcl : ClosedFaces m) {d : Nat} (hd : InUse m d) : walkB m d = cycleB m d :=
  (walkB_cycle hwf h2 hcl hd).1

/-- `periodB m d` is the least positive period of `β1` at `d`; the cycle's darts are in use -/
theorem periodB_spec {X : Type} {nb : Nat} {m : Map X} (hwf : WF nb m) (h2 : 2 ≤ nb)
    (hcl : ClosedFaces m) {d : Nat} (hd : InUse m d) :
    0 < periodB m d ∧ (m.β 1)^[periodB m d] d = d ∧ (cycleB m d).Nodup ∧
    ∀ x, x ∈ cycleB m d → InUse m x := by
  obtain ⟨hit, hpos, hnd, hcyc, hin⟩ := walkB_cycle hwf h2 hcl hd
  unfold cycleB periodB
  exact ⟨hpos, hcyc, by rw [← hit]; exact hnd, by rw [← hit]; exact hin⟩

/-! ## 3-D: what the reader computes on a well-formed map -/

section ThreeD
variable {m : Map Val} {sc : Scene}

theorem okb4 (hwf : WF 4 m) {i x : Nat} (hi : i < 4) (hx : x < m.n) : m.okβ i x = true :=
  (hwf.toSized.okβ i x).2 ⟨hi, hx⟩

theorem run_gen3_custom1 (hwf : WF 4 m) {x : Nat} (hx : x < m.n) :
    run (gen3 (X := Val) (.custom [1]) x) m = (.ok [m.β 1 x], m) := by
  simp [gen3, gen3.go, run_rB, okb4 hwf (by omega : 1 < 4) hx]

theorem walk3_eq (hwf : WF 4 m) {d : Nat} (hd0 : d ≠ 0) (hdn : d < m.n) :
    (reader3 m).walk d = some (walkB m d) := by
  have hr : ∀ a, a < m.n → ∀ y, y ∈ (fun x => [m.β 1 x]) a → y < m.n := by
    intro a ha y hy; simp only [List.mem_singleton] at hy; rw [hy]; exact hwf.range 1 (by omega) a ha
  exact evalP_of_run (run_orbitWith (gen := gen3 (.custom [1])) (g := fun x => [m.β 1 x])
    (fun x hx => run_gen3_custom1 hwf hx) hr hd0 hdn)

/-- the orbit of the null dart is `[0]` -/
theorem walk3_zero (hwf : WF 4 m) : (reader3 m).walk 0 = some [0] := by
  have h0 := run_gen3_custom1 hwf hwf.npos
  have hb : m.β 1 0 = 0 := hwf.null 1 (by omega)
  show evalP (orbit3 m.n (.custom [1]) 0) m = some [0]
  apply evalP_of_run (m' := m)
  unfold orbit3 orbitWith
  rw [bfs]
  show run ((gen3 (.custom [1]) 0).bind _) m = _
  rw [run_bind, h0, hb]
  simp only [List.foldl_cons, List.foldl_nil, bfsCheck]
  cases m.n <;> simp [bfs]

theorem inUse_image4 (hwf : WF 4 m) {d i : Nat} (hd : InUse m d) (hi : i < 4) (hne : m.β i d ≠ 0) :
    InUse m (m.β i d) := by
  have hr := hwf.range i hi d hd.2.1
  refine ⟨hne, hr, ?_⟩
  cases hu : m.unused (m.β i d) with
  | false => rfl
  | true =>
      exfalso
      have hfree := hwf.unusedFree _ hr hu
      by_cases h1 : i = 1
      · subst h1
        have := hwf.inv01 d hd.2.1 hne
        rw [hfree 0 (by omega)] at this
        exact hd.1 this.symm
      · by_cases h0 : i = 0
        · subst h0
          have := hwf.inv10 d hd.2.1 hne
          rw [hfree 1 (by omega)] at this
          exact hd.1 this.symm
        · have := (hwf.invol i hi (by omega) d hd.2.1 hne).1
          rw [hfree i hi] at this
          exact hd.1 this.symm

/-- the second side of face `f`: nothing when `f` is 3-free, else the β1-cycle of `β3 f` -/
theorem side2_eq (hwf : WF 4 m) (hcl : ClosedFaces m) {f : Nat} (hf : InUse m f) :
    (reader3 m).side2 f = some (if m.β 3 f = 0 then [] else cycleB m (m.β 3 f)) := by
  show ((reader3 m).walk (m.β 3 f)).map (fun w => w.filter (· ≠ 0)) = _
  by_cases h3 : m.β 3 f = 0
  · rw [h3, walk3_zero hwf, if_pos rfl]; rfl
  · have hu := inUse_image4 hwf hf (by omega : 3 < 4) h3
    rw [walk3_eq hwf hu.1 hu.2.1, if_neg h3, cycleB_eq hwf (by omega) hcl hu]
    simp only [Option.map_some, Option.some.injEq]
    rw [List.filter_eq_self]
    intro x hx
    have := ((periodB_spec hwf (by omega) hcl hu).2.2.2 x hx).1
    simpa using this

theorem mem_iterFaces3_inUse {f : Nat} (hf : f ∈ iterFaces3 m) : InUse m f := by
  obtain ⟨h1, h2, h3, _⟩ := (C03.mem_iterCells m _ f).1 hf
  exact ⟨h2, h1, h3⟩

/-! ## C20, 3-D -/

/-- **C20 (3-D), dart entity: end** (closed faces): for the darts of both sides of a face, `end` is
    `index_map` of the vertex id of the successor `β1 d` — the table row with its coordinates -/
theorem C20_3d_dart_end (hwf : WF 4 m) (hcl : ClosedFaces m) (h : extract3 m = some sc)
    {e : DartEnt} (he : e ∈ sc.darts) :
    ∃ v' x, evalP (vertexId3 m.n (m.β 1 e.d)) m = some v' ∧
      rowOf (iterVertices3 m) v' = some e.t ∧ sc.table[e.t]? = some x ∧ m.att 0 v' = some x := by
  obtain ⟨sc0, k, h0, _, e1, _, _, _, e5, _⟩ := extract3_inv h
  rw [e5] at he
  obtain ⟨h1, _, _, _, _, w, w2, hw, hw2, hcase⟩ := dart_entity (R := reader3 m) h0 he
  have hf := mem_iterFaces3_inUse h1
  have hw' : w = walkB m e.f := by
    have := walk3_eq hwf hf.1 hf.2.1
    rw [hw] at this; exact Option.some.inj this
  have hw2' : w2 = if m.β 3 e.f = 0 then [] else cycleB m (m.β 3 e.f) := by
    have := side2_eq hwf hcl hf
    rw [hw2] at this; exact Option.some.inj this
  have fin : ∀ d', (reader3 m).rowOfDart d' = some e.t → d' = m.β 1 e.d →
      ∃ v' x, evalP (vertexId3 m.n (m.β 1 e.d)) m = some v' ∧
        rowOf (iterVertices3 m) v' = some e.t ∧ sc.table[e.t]? = some x ∧ m.att 0 v' = some x := by
    intro d' k3 hd'
    subst hd'
    obtain ⟨v, x, j1, j2, j3, j4⟩ := row_of_dart (R := reader3 m) h0 k3
    exact ⟨v, x, j1, j2, by rw [e1]; exact j3, j4⟩
  rcases hcase with ⟨i, d', k1, k2, k3⟩ | ⟨i, d', k1, k2, k3⟩
  · subst hw'
    exact fin d' k3 (walkB_succ hwf (by omega) hcl hf k1 k2)
  · by_cases h3 : m.β 3 e.f = 0
    · rw [if_pos h3] at hw2'; subst hw2'; simp at k1
    · rw [if_neg h3] at hw2'
      have hu := inUse_image4 hwf hf (by omega : 3 < 4) h3
      rw [← cycleB_eq hwf (by omega) hcl hu] at hw2'
      subst hw2'
      exact fin d' k3 (walkB_succ hwf (by omega) hcl hu k1 k2)

/-- **C20 (3-D), face entities** (closed faces): the corner list of face `f` has as many entries as
    the β1-cycle of `f` has darts (`β1^k f = f`, the `k` darts distinct, `k ≥ 2`), and its `i`-th
    entry is `index_map` of the vertex id of `β1^i f` — the table row with that corner's coordinates -/
theorem C20_3d_face_corners (hwf : WF 4 m) (hcl : ClosedFaces m) (h : extract3 m = some sc) :
    sc.faces.map (·.1) = iterFaces3 m ∧
    ∀ f rows, (f, rows) ∈ sc.faces →
      2 ≤ rows.length ∧ (m.β 1)^[rows.length] f = f ∧ (List.iterate (m.β 1) f rows.length).Nodup ∧
      ∀ i r, rows[i]? = some r →
        ∃ v x, evalP (vertexId3 m.n ((m.β 1)^[i] f)) m = some v ∧
          rowOf (iterVertices3 m) v = some r ∧ sc.table[r]? = some x ∧ m.att 0 v = some x := by
  obtain ⟨sc0, k, h0, _, e1, _, _, e4, _⟩ := extract3_inv h
  obtain ⟨h1, h2⟩ := face_entities (R := reader3 m) h0
  rw [e4]
  refine ⟨h1, ?_⟩
  intro f rows hm
  obtain ⟨hf, hlen, w, hw, hall⟩ := h2 f rows hm
  have hfu := mem_iterFaces3_inUse hf
  have hw' : w = walkB m f := by
    have := walk3_eq hwf hfu.1 hfu.2.1
    have hw0 : (reader3 m).walk f = some w := hw
    rw [hw0] at this; exact Option.some.inj this
  subst hw'
  obtain ⟨hit, hpos, hnd, hcyc, _⟩ := walkB_cycle hwf (by omega) hcl hfu
  have hl : (walkB m f).length = rows.length := hall.length_eq
  refine ⟨hlen, by rw [← hl]; exact hcyc, by rw [← hl, ← hit]; exact hnd, ?_⟩
  intro i r hr
  have hi : i < rows.length := (List.getElem?_eq_some_iff.1 hr).1
  have hi' : i < (walkB m f).length := by omega
  have hrel := (List.forall₂_iff_get.1 hall).2 i hi' hi
  have e1' : rows.get ⟨i, hi⟩ = r := by
    have := (List.getElem?_eq_some_iff.1 hr).2; simpa using this
  have e2 : (walkB m f).get ⟨i, hi'⟩ = (m.β 1)^[i] f := by
    show (walkB m f)[i] = _
    have : (walkB m f)[i] = (List.iterate (m.β 1) f (walkB m f).length)[i]'(by simp; omega) := by
      congr 1
    rw [this]; exact List.getElem_iterate _ _ _ _ _
  rw [e1', e2] at hrel
  obtain ⟨v, x, j1, j2, j3, j4⟩ := row_of_dart (R := reader3 m) h0 hrel
  exact ⟨v, x, j1, j2, by rw [e1]; exact j3, j4⟩

/-- the darts that get an entity tagged with face `f`: the β1-cycle of `f`, then that of `β3 f` -/
def faceDarts (m : Map Val) (f : Nat) : List Nat :=
  cycleB m f ++ (if m.β 3 f = 0 then [] else cycleB m (m.β 3 f))

/-- **C20 (3-D), dart entities, face by face** (closed faces): the dart entities are, in spawn order
    and face after face in `iter_faces` order, the darts of the β1-cycle of the face id `f` followed —
    when `f` is 3-linked — by the darts of the β1-cycle of `β3 f`, all tagged with `f` -/
theorem C20_3d_dart_entities_of_face (hwf : WF 4 m) (hcl : ClosedFaces m)
    (h : extract3 m = some sc) :
    sc.darts.map (fun e => (e.f, e.d)) =
      (iterFaces3 m).flatMap (fun f => (faceDarts m f).map (fun d => (f, d))) := by
  obtain ⟨sc0, k, h0, _, _, _, _, _, e5, _⟩ := extract3_inv h
  obtain ⟨fbs, _, e5', hall⟩ := face_blocks (R := reader3 m) h0
  rw [e5, e5', List.map_flatten, List.map_map, List.flatMap_def]
  congr 1
  symm
  refine forall₂_map_eq hall ?_
  intro f fb hf hfb
  have hfu := mem_iterFaces3_inUse hf
  obtain ⟨w, rows, d1, w2, d2, hw, _, _, hd1, hs2, hd2, rfl⟩ := faceBundle_inv hfb
  have hw' : w = walkB m f := by
    have := walk3_eq hwf hfu.1 hfu.2.1
    have hw0 : (reader3 m).walk f = some w := hw
    rw [hw0] at this; exact Option.some.inj this
  have hw2' : w2 = if m.β 3 f = 0 then [] else cycleB m (m.β 3 f) := by
    have := side2_eq hwf hcl hfu
    rw [hs2] at this; exact Option.some.inj this
  subst hw'
  simp only [Function.comp, List.map_append]
  rw [dartBundles_map_fd hd1, dartBundles_map_fd hd2, hw2', cycleB_eq hwf (by omega) hcl hfu]
  unfold faceDarts
  rw [List.map_append]

end ThreeD

/-! ## cycles of β1: membership, symmetry, closure under β1 and β0 -/

section Cycles
variable {X : Type} {nb : Nat} {m : Map X}

theorem reach_iterate (m : Map X) (x : Nat) : ∀ j, Reach (fun y => [m.β 1 y]) x ((m.β 1)^[j] x) := by
  intro j
  induction j with
  | zero => exact .refl _
  | succ j ih =>
      rw [Function.iterate_succ_apply']
      exact ih.tail (by simp)

theorem mem_cycleB_iff (hwf : WF nb m) (h2 : 2 ≤ nb) (hcl : ClosedFaces m) {d : Nat}
    (hd : InUse m d) (x : Nat) :
    x ∈ cycleB m d ↔ x ≠ 0 ∧ Reach (fun y => [m.β 1 y]) d x := by
  rw [← cycleB_eq hwf h2 hcl hd]
  have h0 : ∀ y, y ∈ (fun x => [m.β 1 x]) 0 → y = 0 := by
    intro y hy; simp only [List.mem_singleton] at hy; rw [hy]; exact hwf.null 1 (by omega)
  have hr : ∀ a, a < m.n → ∀ y, y ∈ (fun x => [m.β 1 x]) a → y < m.n := by
    intro a ha y hy; simp only [List.mem_singleton] at hy; rw [hy]; exact hwf.range 1 (by omega) a ha
  exact (bfsPure_spec h0 hr hd.1 hd.2.1).2.2.2.1 x

theorem mem_cycleB_iterate (hwf : WF nb m) (h2 : 2 ≤ nb) (hcl : ClosedFaces m) {d : Nat}
    (hd : InUse m d) (j : Nat) : (m.β 1)^[j] d ∈ cycleB m d := by
  rw [mem_cycleB_iff hwf h2 hcl hd]
  refine ⟨?_, reach_iterate m d j⟩
  induction j with
  | zero => exact hd.1
  | succ j ih =>
      rw [Function.iterate_succ_apply']
      have := reach1_inUse hwf h2 hd (reach_iterate m d j) ih
      exact hcl _ this.2.1 this.1 this.2.2

theorem self_mem_cycleB (hwf : WF nb m) (h2 : 2 ≤ nb) (hcl : ClosedFaces m) {d : Nat}
    (hd : InUse m d) : d ∈ cycleB m d := mem_cycleB_iterate hwf h2 hcl hd 0

/-- a dart of the cycle of `d` has `d` on its own cycle -/
theorem reach_back (hwf : WF nb m) (h2 : 2 ≤ nb) (hcl : ClosedFaces m) {d x : Nat}
    (hd : InUse m d) (hx : x ∈ cycleB m d) : Reach (fun y => [m.β 1 y]) x d := by
  obtain ⟨hpos, hcyc, _, _⟩ := periodB_spec hwf h2 hcl hd
  unfold cycleB at hx
  rw [List.mem_iterate] at hx
  obtain ⟨j, hj, rfl⟩ := hx
  have : (m.β 1)^[periodB m d - j] ((m.β 1)^[j] d) = d := by
    rw [← Function.iterate_add_apply, show periodB m d - j + j = periodB m d by omega, hcyc]
  have r := reach_iterate m ((m.β 1)^[j] d) (periodB m d - j)
  rw [this] at r
  exact r

/-- the cycles of two darts of the same cycle have the same darts -/
theorem cycleB_congr (hwf : WF nb m) (h2 : 2 ≤ nb) (hcl : ClosedFaces m) {d x : Nat}
    (hd : InUse m d) (hx : x ∈ cycleB m d) (y : Nat) : y ∈ cycleB m x ↔ y ∈ cycleB m d := by
  have hxu := (periodB_spec hwf h2 hcl hd).2.2.2 x hx
  rw [mem_cycleB_iff hwf h2 hcl hxu, mem_cycleB_iff hwf h2 hcl hd]
  have h1 := ((mem_cycleB_iff hwf h2 hcl hd x).1 hx).2
  have h3 := reach_back hwf h2 hcl hd hx
  exact ⟨fun ⟨a, b⟩ => ⟨a, h1.trans b⟩, fun ⟨a, b⟩ => ⟨a, h3.trans b⟩⟩

/-- the cycle is closed under `β1` and under `β0` -/
theorem cycleB_closed (hwf : WF nb m) (h2 : 2 ≤ nb) (hcl : ClosedFaces m) {d x : Nat}
    (hd : InUse m d) (hx : x ∈ cycleB m d) :
    m.β 1 x ∈ cycleB m d ∧ m.β 0 x ∈ cycleB m d ∧ m.β 0 x ≠ 0 := by
  obtain ⟨hpos, hcyc, _, hin⟩ := periodB_spec hwf h2 hcl hd
  have hxu := hin x hx
  have h1 : m.β 1 x ∈ cycleB m d := by
    rw [← cycleB_congr hwf h2 hcl hd hx]
    exact mem_cycleB_iterate hwf h2 hcl hxu 1
  -- `β0 x` is the last dart of the cycle of `x`
  obtain ⟨hposx, hcycx, _, hinx⟩ := periodB_spec hwf h2 hcl hxu
  have hlast := mem_cycleB_iterate hwf h2 hcl hxu (periodB m x - 1)
  have hlu := hinx _ hlast
  have e : m.β 1 ((m.β 1)^[periodB m x - 1] x) = x := by
    rw [← Function.iterate_succ_apply' (m.β 1), show (periodB m x - 1).succ = periodB m x by omega, hcycx]
  have e0 : m.β 0 x = (m.β 1)^[periodB m x - 1] x := by
    have := hwf.inv01 _ hlu.2.1 (by rw [e]; exact hxu.1)
    rw [e] at this; exact this
  rw [e0]
  exact ⟨h1, (cycleB_congr hwf h2 hcl hd hx _).1 hlast, hlu.1⟩

/-- `β0^i` undoes `β1^i` on in-use darts of closed faces -/
theorem b0_iter_b1_iter (hwf : WF nb m) (h2 : 2 ≤ nb) (hcl : ClosedFaces m) :
    ∀ (i z : Nat), InUse m z → (m.β 0)^[i] ((m.β 1)^[i] z) = z := by
  intro i
  induction i with
  | zero => intro z _; rfl
  | succ i ih =>
      intro z hz
      have hw := (periodB_spec hwf h2 hcl hz).2.2.2 _ (mem_cycleB_iterate hwf h2 hcl hz i)
      have hne := hcl _ hw.2.1 hw.1 hw.2.2
      rw [Function.iterate_succ_apply, Function.iterate_succ_apply', hwf.inv01 _ hw.2.1 hne]
      exact ih z hz

/-- `β0^i f` is a dart of the cycle of `f` -/
theorem b0_iter_mem (hwf : WF nb m) (h2 : 2 ≤ nb) (hcl : ClosedFaces m) {d : Nat} (hd : InUse m d) :
    ∀ i, (m.β 0)^[i] d ∈ cycleB m d := by
  intro i
  induction i with
  | zero => exact self_mem_cycleB hwf h2 hcl hd
  | succ i ih =>
      rw [Function.iterate_succ_apply']
      exact (cycleB_closed hwf h2 hcl hd ih).2.1

end Cycles

/-! ## 3-D: the second side is the mirror image of the first -/

/-- a face is 3-linked as a whole (what `three_link` / `three_unlink` produce and C02's walks keep) -/
def Sided {X : Type} (m : Map X) : Prop :=
  ∀ d, d < m.n → m.β 1 d ≠ 0 → (m.β 3 d = 0 ↔ m.β 3 (m.β 1 d) = 0)

instance {X : Type} (m : Map X) : Decidable (Sided m) := by unfold Sided; exact inferInstance

section Mirror3
variable {m : Map Val} {sc : Scene}

/-- all darts of a cycle are 3-linked, or none -/
theorem sided_cycle (hwf : WF 4 m) (hcl : ClosedFaces m) (hs : Sided m) {f x : Nat} (hf : InUse m f)
    (hx : x ∈ cycleB m f) : m.β 3 x = 0 ↔ m.β 3 f = 0 := by
  unfold cycleB at hx
  rw [List.mem_iterate] at hx
  obtain ⟨j, hj, rfl⟩ := hx
  clear hj
  induction j with
  | zero => rfl
  | succ j ih =>
      rw [Function.iterate_succ_apply']
      have hu := (periodB_spec hwf (by omega) hcl hf).2.2.2 _ (mem_cycleB_iterate hwf (by omega) hcl hf j)
      rw [← hs _ hu.2.1 (hcl _ hu.2.1 hu.1 hu.2.2)]
      exact ih

/-- one step of the mirror condition, read at `y = β1 d` -/
theorem mirror_step (hwf : WF 4 m) (hcl : ClosedFaces m) (hM : Mirror m) (hs : Sided m) {y : Nat}
    (hy : InUse m y) (h3 : m.β 3 y ≠ 0) : m.β 1 (m.β 3 y) = m.β 3 (m.β 0 y) := by
  obtain ⟨hb0m, hb0⟩ := (cycleB_closed hwf (by omega) hcl hy (self_mem_cycleB hwf (by omega) hcl hy)).2
  have hdu := (periodB_spec hwf (by omega) hcl hy).2.2.2 _ hb0m
  have e1 : m.β 1 (m.β 0 y) = y := hwf.inv10 y hy.2.1 hb0
  have h3d : m.β 3 (m.β 0 y) ≠ 0 := by
    intro e
    have := (hs _ hdu.2.1 (by rw [e1]; exact hy.1)).1 e
    rw [e1] at this; exact h3 this
  have := hM (m.β 0 y) hdu.2.1 (by rw [e1]; exact hy.1) h3d (by rw [e1]; exact h3)
  rw [e1] at this
  exact this

/-- **C20 (3-D), the second side is the mirror of the first** (closed, mirrored, wholly 3-linked
    faces): walking forward from `β3 f` is walking backward from `f` on the other side,
    `β1^i (β3 f) = β3 (β0^i f)`; hence the darts of the second cycle are exactly the β3-images of the
    darts of the first -/
theorem C20_3d_second_side_is_mirror (hwf : WF 4 m) (hcl : ClosedFaces m) (hM : Mirror m)
    (hs : Sided m) {f : Nat} (hf : InUse m f) (h3 : m.β 3 f ≠ 0) :
    (∀ i, (m.β 1)^[i] (m.β 3 f) = m.β 3 ((m.β 0)^[i] f)) ∧
    ∀ x, x ∈ cycleB m (m.β 3 f) ↔ ∃ y, y ∈ cycleB m f ∧ x = m.β 3 y := by
  have hin := (periodB_spec hwf (by omega) hcl hf).2.2.2
  have step : ∀ i, (m.β 1)^[i] (m.β 3 f) = m.β 3 ((m.β 0)^[i] f) := by
    intro i
    induction i with
    | zero => rfl
    | succ i ih =>
        have hy := hin _ (b0_iter_mem hwf (by omega) hcl hf i)
        have h3y : m.β 3 ((m.β 0)^[i] f) ≠ 0 := fun e =>
          h3 ((sided_cycle hwf hcl hs hf (b0_iter_mem hwf (by omega) hcl hf i)).1 e)
        rw [Function.iterate_succ_apply', ih, mirror_step hwf hcl hM hs hy h3y,
          ← Function.iterate_succ_apply' (m.β 0)]
  refine ⟨step, ?_⟩
  have hu3 := inUse_image4 hwf hf (by omega : 3 < 4) h3
  intro x
  constructor
  · intro hx
    unfold cycleB at hx
    rw [List.mem_iterate] at hx
    obtain ⟨j, _, rfl⟩ := hx
    exact ⟨_, b0_iter_mem hwf (by omega) hcl hf j, step j⟩
  · rintro ⟨y, hy, rfl⟩
    -- `y = β1^j f = β0^(k-j) f`
    obtain ⟨hpos, hcyc, _, _⟩ := periodB_spec hwf (by omega) hcl hf
    have hy' := hy
    unfold cycleB at hy'
    rw [List.mem_iterate] at hy'
    obtain ⟨j, hj, rfl⟩ := hy'
    have e : (m.β 0)^[periodB m f - j] f = (m.β 1)^[j] f := by
      have h1 : (m.β 1)^[periodB m f - j] ((m.β 1)^[j] f) = f := by
        rw [← Function.iterate_add_apply, show periodB m f - j + j = periodB m f by omega, hcyc]
      have := b0_iter_b1_iter hwf (by omega) hcl (periodB m f - j) _ (hin _ hy)
      rw [h1] at this
      exact this
    rw [← e, ← step]
    exact mem_cycleB_iterate hwf (by omega) hcl hu3 _

/-- **C20 (3-D), one entity per dart of the face** (closed, mirrored, wholly 3-linked faces): the
    darts that get an entity tagged `f` are exactly the non-null darts reachable from `f` through
    `β1`, `β0` and `β3` — the 3-D face orbit of `f` -/
theorem C20_3d_face_darts_are_the_face_orbit (hwf : WF 4 m) (hcl : ClosedFaces m) (hM : Mirror m)
    (hs : Sided m) {f : Nat} (hf : InUse m f) (x : Nat) :
    x ∈ faceDarts m f ↔ x ≠ 0 ∧ Reach (fun y => [m.β 1 y, m.β 0 y, m.β 3 y]) f x := by
  have hin := (periodB_spec hwf (by omega) hcl hf).2.2.2
  have sub : ∀ a b, Reach (fun y => [m.β 1 y]) a b → Reach (fun y => [m.β 1 y, m.β 0 y, m.β 3 y]) a b :=
    fun a b h => h.mono (fun x y hy => by simp only [List.mem_singleton] at hy; simp [hy])
  unfold faceDarts
  rw [List.mem_append]
  constructor
  · rintro (hx | hx)
    · obtain ⟨h0, hr⟩ := (mem_cycleB_iff hwf (by omega) hcl hf x).1 hx
      exact ⟨h0, sub _ _ hr⟩
    · by_cases h3 : m.β 3 f = 0
      · rw [if_pos h3] at hx; simp at hx
      · rw [if_neg h3] at hx
        obtain ⟨y, hy, rfl⟩ := ((C20_3d_second_side_is_mirror hwf hcl hM hs hf h3).2 x).1 hx
        have hu3 := inUse_image4 hwf hf (by omega : 3 < 4) h3
        refine ⟨((periodB_spec hwf (by omega) hcl hu3).2.2.2 _ hx).1, ?_⟩
        exact (sub _ _ ((mem_cycleB_iff hwf (by omega) hcl hf y).1 hy).2).tail (by simp)
  · rintro ⟨hx0, hr⟩
    induction hr with
    | refl => exact Or.inl (self_mem_cycleB hwf (by omega) hcl hf)
    | tail hab hc ih =>
        rename_i b c
        have hb0 : b ≠ 0 := by
          intro e
          simp only [e, hwf.null 1 (by omega), hwf.null 0 (by omega), hwf.null 3 (by omega),
            List.mem_cons, List.not_mem_nil, or_false, or_self] at hc
          exact hx0 hc
        simp only [List.mem_cons, List.not_mem_nil, or_false] at hc
        rcases ih hb0 with hb | hb
        · -- `b` on the first side
          obtain ⟨c1, c2, _⟩ := cycleB_closed hwf (by omega) hcl hf hb
          rcases hc with rfl | rfl | rfl
          · exact Or.inl c1
          · exact Or.inl c2
          · have h3 : m.β 3 f ≠ 0 := fun e => hx0 ((sided_cycle hwf hcl hs hf hb).2 e)
            rw [if_neg h3]
            exact Or.inr (((C20_3d_second_side_is_mirror hwf hcl hM hs hf h3).2 _).2 ⟨b, hb, rfl⟩)
        · -- `b` on the second side
          by_cases h3 : m.β 3 f = 0
          · rw [if_pos h3] at hb; simp at hb
          · rw [if_neg h3] at hb ⊢
            have hu3 := inUse_image4 hwf hf (by omega : 3 < 4) h3
            obtain ⟨c1, c2, _⟩ := cycleB_closed hwf (by omega) hcl hu3 hb
            rcases hc with rfl | rfl | rfl
            · exact Or.inr c1
            · exact Or.inr c2
            · obtain ⟨y, hy, rfl⟩ := ((C20_3d_second_side_is_mirror hwf hcl hM hs hf h3).2 b).1 hb
              have hyu := hin y hy
              have h3y : m.β 3 y ≠ 0 := fun e => h3 ((sided_cycle hwf hcl hs hf hy).1 e)
              rw [(hwf.invol 3 (by omega) (by omega) y hyu.2.1 h3y).1]
              exact Or.inl hy

/-- **C20 (3-D), no dart twice within a face**: if `β3 f` does not lie on the β1-cycle of `f`
    (always the case for faces built by `three_link`, which refuses to pair two darts of one cycle),
    the darts tagged `f` are pairwise distinct -/
theorem C20_3d_face_darts_nodup (hwf : WF 4 m) (hcl : ClosedFaces m) {f : Nat} (hf : InUse m f)
    (hns : m.β 3 f ∉ cycleB m f) : (faceDarts m f).Nodup := by
  unfold faceDarts
  by_cases h3 : m.β 3 f = 0
  · rw [if_pos h3, List.append_nil]; exact (periodB_spec hwf (by omega) hcl hf).2.2.1
  · rw [if_neg h3]
    have hu3 := inUse_image4 hwf hf (by omega : 3 < 4) h3
    rw [List.nodup_append]
    refine ⟨(periodB_spec hwf (by omega) hcl hf).2.2.1, (periodB_spec hwf (by omega) hcl hu3).2.2.1, ?_⟩
    intro a ha b hb hab
    subst hab
    -- `a` on both cycles: then `β3 f` is on the cycle of `f`
    apply hns
    rw [← cycleB_congr hwf (by omega) hcl hf ha]
    have hau := (periodB_spec hwf (by omega) hcl hf).2.2.2 a ha
    rw [mem_cycleB_iff hwf (by omega) hcl hau]
    exact ⟨h3, reach_back hwf (by omega) hcl hu3 hb⟩

/-- **C20 (3-D), a self-glued face is enumerated twice**: if `β3` pairs darts of ONE β1-cycle
    (well-formed and mirrored, but refused by `three_link`), every dart of the face gets two dart
    entities tagged `f` — the code walks the same cycle from `f` and from `β3 f` -/
theorem C20_3d_self_glued_face_twice (hwf : WF 4 m) (hcl : ClosedFaces m) {f : Nat} (hf : InUse m f)
    (h3 : m.β 3 f ≠ 0) (hself : m.β 3 f ∈ cycleB m f) {x : Nat} (hx : x ∈ cycleB m f) :
    (faceDarts m f).count x = 2 := by
  unfold faceDarts
  rw [if_neg h3, List.count_append]
  have hu3 := inUse_image4 hwf hf (by omega : 3 < 4) h3
  have hx2 : x ∈ cycleB m (m.β 3 f) := (cycleB_congr hwf (by omega) hcl hf hself x).2 hx
  rw [List.count_eq_one_of_mem (periodB_spec hwf (by omega) hcl hf).2.2.1 hx,
    List.count_eq_one_of_mem (periodB_spec hwf (by omega) hcl hu3).2.2.1 hx2]

end Mirror3

/-! ## `face_id` in 3-D is the minimum of the two-sided face, and every in-use dart gets ONE entity -/

section FaceId
open HC.Face3
variable {m : Map Val} {sc : Scene}

theorem run_faceId3 {X : Type} {m : Map X} (hwf : WF 4 m) {d : Nat} (hd : d < m.n)
    {lbF rbF : Nat} {mkF : List Nat} {mnF : Nat}
    (h1 : fw (m.β 1) (m.β 0) (m.n + 1) d (m.β 3 d) [0]
      (if m.β 3 d = 0 then d else min d (m.β 3 d)) = some (lbF, rbF, mkF, mnF)) :
    (¬ (lbF = 0 ∨ rbF = 0) → run (faceId3 (X := X) m.n d) m = (.ok mnF, m)) ∧
    ((lbF = 0 ∨ rbF = 0) → ∀ a b c mn2, fw (m.β 0) (m.β 1) (m.n + 1) (m.β 0 d) (m.β 1 (m.β 3 d)) mkF
        (upd mnF (m.β 0 d) (m.β 1 (m.β 3 d))) = some (a, b, c, mn2) →
        run (faceId3 (X := X) m.n d) m = (.ok mn2, m)) := by
  have ok3 : m.okβ 3 d = true := (hwf.toSized.okβ 3 d).2 ⟨by omega, hd⟩
  have ok0 : m.okβ 0 d = true := (hwf.toSized.okβ 0 d).2 ⟨by omega, hd⟩
  have he : m.β 3 d < m.n := hwf.range 3 (by omega) d hd
  have ok1 : m.okβ 1 (m.β 3 d) = true := (hwf.toSized.okβ 1 _).2 ⟨by omega, he⟩
  have w1 := run_faceWalk3 hwf (i := 1) (j := 0) (by omega) (by omega) (m.n + 1) d (m.β 3 d) [0]
    (if m.β 3 d = 0 then d else min d (m.β 3 d)) hd he
  rw [h1] at w1
  constructor
  · intro hc
    unfold faceId3
    simp only [Prog.bind_eq, Prog.pure_eq]
    rw [run_rB, if_pos ok3, run_bind, w1]
    simp only [hc, if_false, run_ret]
  · intro hc a b c mn2 h2
    have w2 := run_faceWalk3 hwf (i := 0) (j := 1) (by omega) (by omega) (m.n + 1) (m.β 0 d)
      (m.β 1 (m.β 3 d)) mkF (upd mnF (m.β 0 d) (m.β 1 (m.β 3 d)))
      (hwf.range 0 (by omega) d hd) (hwf.range 1 (by omega) _ he)
    rw [h2] at w2
    unfold faceId3
    simp only [Prog.bind_eq, Prog.pure_eq]
    rw [run_rB, if_pos ok3, run_bind, w1]
    simp only [hc, if_true]
    rw [run_rB, if_pos ok0, run_rB, if_pos ok1, run_bind]
    unfold upd at w2
    simp only [] at w2
    rw [w2]
    rfl

theorem iterate_fix0 {f : Nat → Nat} (h : f 0 = 0) : ∀ s, f^[s] 0 = 0 := by
  intro s
  induction s with
  | zero => rfl
  | succ s ih => rw [Function.iterate_succ_apply', ih, h]

/-- the right-hand sequence of `face_id` is the mirror image of the left-hand one -/
theorem rb_eq (hwf : WF 4 m) (hcl : ClosedFaces m) (hM : Mirror m) (hs : Sided m) {d : Nat}
    (hd : InUse m d) (h3 : m.β 3 d ≠ 0) (s : Nat) :
    (m.β 0)^[s] (m.β 3 d) = m.β 3 ((m.β 1)^[s] d) := by
  have he := inUse_image4 hwf hd (by omega : 3 < 4) h3
  have hinv : m.β 3 (m.β 3 d) = d := (hwf.invol 3 (by omega) (by omega) d hd.2.1 h3).1
  have h3e : m.β 3 (m.β 3 d) ≠ 0 := by rw [hinv]; exact hd.1
  have key := (C20_3d_second_side_is_mirror hwf hcl hM hs he h3e).1 s
  rw [hinv] at key
  -- `β1^s d = β3 (β0^s e)`; apply the involution
  have hy := (periodB_spec hwf (by omega) hcl he).2.2.2 _ (b0_iter_mem hwf (by omega) hcl he s)
  have hne : m.β 3 ((m.β 0)^[s] (m.β 3 d)) ≠ 0 := by
    rw [← key]
    exact ((periodB_spec hwf (by omega) hcl hd).2.2.2 _ (mem_cycleB_iterate hwf (by omega) hcl hd s)).1
  rw [key]
  exact ((hwf.invol 3 (by omega) (by omega) _ hy.2.1 hne).1).symm

/-- every dart of the β1-cycle of `d` is `β1^s d` for some `1 ≤ s ≤ period` -/
theorem cycle_index (hwf : WF 4 m) (hcl : ClosedFaces m) {d x : Nat} (hd : InUse m d)
    (hx : x ∈ cycleB m d) : ∃ s, 1 ≤ s ∧ s ≤ periodB m d ∧ (m.β 1)^[s] d = x := by
  obtain ⟨hpos, hcyc, _, _⟩ := periodB_spec hwf (by omega) hcl hd
  unfold cycleB at hx
  rw [List.mem_iterate] at hx
  obtain ⟨j, hj, rfl⟩ := hx
  by_cases h0 : j = 0
  · subst h0; exact ⟨periodB m d, hpos, Nat.le_refl _, hcyc⟩
  · exact ⟨j, by omega, by omega, rfl⟩

/-- **`face_id` (3-D) is the smallest dart of the two-sided face** (closed, mirrored, wholly
    3-linked faces): `face_id_transac` succeeds, leaves the map alone, and returns the minimum of
    the β1-cycle of `d` together with the β1-cycle of `β3 d` -/
theorem faceId3_min (hwf : WF 4 m) (hcl : ClosedFaces m) (hM : Mirror m) (hs : Sided m) {d : Nat}
    (hd : InUse m d) :
    ∃ v, run (faceId3 (X := Val) m.n d) m = (.ok v, m) ∧ v ∈ faceDarts m d ∧
      ∀ x, x ∈ faceDarts m d → v ≤ x := by
  obtain ⟨kpos, hcyc, hnd, hin⟩ := periodB_spec hwf (by omega) hcl hd
  have he : m.β 3 d < m.n := hwf.range 3 (by omega) d hd.2.1
  have r1 : ∀ x, x < m.n → m.β 1 x < m.n := hwf.range 1 (by omega)
  have r0 : ∀ x, x < m.n → m.β 0 x < m.n := hwf.range 0 (by omega)
  have hklen : (cycleB m d).length = periodB m d := by unfold cycleB; rw [List.length_iterate]
  have hklt : periodB m d < m.n := by
    rw [← hklen]
    exact length_lt_of_nodup hwf.npos hnd (fun x hx => (hin x hx).1) (fun x hx => (hin x hx).2.1)
  -- the first walk terminates
  obtain ⟨⟨lbF, rbF, mkF, mnF⟩, hr⟩ := fw_terminates r1 r0 (m.n + 1) d (m.β 3 d) [0]
    (if m.β 3 d = 0 then d else min d (m.β 3 d)) hd.2.1 he
    (by have := phi_le (n := m.n) (marked := [0]) hwf.npos (by simp); omega)
  -- its first `period` rounds are plain steps
  have hp1 := fw_phase1 (f1 := m.β 1) (f0 := m.β 0) d (m.β 3 d) [0]
    (if m.β 3 d = 0 then d else min d (m.β 3 d)) (periodB m d) (m.n + 1 - periodB m d) hnd
    (fun x hx => by
      have := (hin x hx).1
      simpa using this)
  rw [show m.n + 1 - periodB m d + periodB m d = m.n + 1 by omega, hr] at hp1
  obtain ⟨g1, g2, g3, T, g4, g5⟩ := fw_facts _ _ _ _ _ _ _ _ _ hp1.symm
  -- membership in the face
  have memL : ∀ s, (m.β 1)^[s] d ∈ faceDarts m d := fun s =>
    List.mem_append_left _ (mem_cycleB_iterate hwf (by omega) hcl hd s)
  have memR : m.β 3 d ≠ 0 → ∀ s, (m.β 0)^[s] (m.β 3 d) ∈ faceDarts m d := by
    intro h3 s
    unfold faceDarts
    rw [if_neg h3]
    exact List.mem_append_right _ (b0_iter_mem hwf (by omega) hcl (inUse_image4 hwf hd (by omega : 3 < 4) h3) s)
  have zeroR : m.β 3 d = 0 → ∀ s, (m.β 0)^[s] (m.β 3 d) = 0 := by
    intro h3 s; rw [h3]; exact iterate_fix0 (hwf.null 0 (by omega)) s
  have seqMem : ∀ v, v ≠ 0 → ((∃ s, v = (m.β 1)^[s] d) ∨ ∃ s, v = (m.β 0)^[s] (m.β 3 d)) →
      v ∈ faceDarts m d := by
    intro v hv0 hv
    rcases hv with ⟨s, rfl⟩ | ⟨s, rfl⟩
    · exact memL s
    · by_cases h3 : m.β 3 d = 0
      · exact absurd (zeroR h3 s) hv0
      · exact memR h3 s
  have mem0 : (if m.β 3 d = 0 then d else min d (m.β 3 d)) ∈ faceDarts m d := by
    by_cases h3 : m.β 3 d = 0
    · rw [if_pos h3]; exact memL 0
    · rw [if_neg h3]
      rcases Nat.le_total d (m.β 3 d) with hle | hle
      · rw [Nat.min_eq_left hle]; exact memL 0
      · rw [Nat.min_eq_right hle]; exact memR h3 0
  have memK : mnAfter (m.β 1) (m.β 0) d (m.β 3 d) (if m.β 3 d = 0 then d else min d (m.β 3 d))
      (periodB m d) ∈ faceDarts m d := by
    rcases mnAfter_mem (m.β 1) (m.β 0) d (m.β 3 d) (if m.β 3 d = 0 then d else min d (m.β 3 d))
      (periodB m d) with e | ⟨e0, e⟩
    · rw [e]; exact mem0
    · exact seqMem _ e0 e
  have memF : mnF ∈ faceDarts m d := by
    rcases g2 with e | ⟨e0, e⟩
    · rw [e]; exact memK
    · refine seqMem _ e0 ?_
      rcases e with ⟨s, e⟩ | ⟨s, e⟩
      · exact Or.inl ⟨s + periodB m d, by rw [e, Function.iterate_add_apply]⟩
      · exact Or.inr ⟨s + periodB m d, by rw [e, Function.iterate_add_apply]⟩
  -- lower bound
  have lowK : ∀ x, x ∈ faceDarts m d →
      mnAfter (m.β 1) (m.β 0) d (m.β 3 d) (if m.β 3 d = 0 then d else min d (m.β 3 d))
        (periodB m d) ≤ x := by
    intro x hx
    have hle := (mnAfter_le (m.β 1) (m.β 0) d (m.β 3 d)
      (if m.β 3 d = 0 then d else min d (m.β 3 d)) (periodB m d)).2
    unfold faceDarts at hx
    rcases List.mem_append.1 hx with hx | hx
    · obtain ⟨s, s1, s2, rfl⟩ := cycle_index hwf hcl hd hx
      exact (hle s s1 s2).1 (hin _ hx).1
    · by_cases h3 : m.β 3 d = 0
      · rw [if_pos h3] at hx; simp at hx
      · rw [if_neg h3] at hx
        obtain ⟨y, hy, rfl⟩ := ((C20_3d_second_side_is_mirror hwf hcl hM hs hd h3).2 x).1 hx
        obtain ⟨s, s1, s2, rfl⟩ := cycle_index hwf hcl hd hy
        have hx0 := ((periodB_spec hwf (by omega) hcl
          (inUse_image4 hwf hd (by omega : 3 < 4) h3)).2.2.2 _ hx).1
        rw [← rb_eq hwf hcl hM hs hd h3 s] at hx0 ⊢
        exact (hle s s1 s2).2 hx0
  have lowF : ∀ x, x ∈ faceDarts m d → mnF ≤ x := fun x hx => Nat.le_trans g1 (lowK x hx)
  -- which branch
  have hlb0 : lbF ≠ 0 := by
    rw [g4, ← Function.iterate_add_apply]
    exact (hin _ (mem_cycleB_iterate hwf (by omega) hcl hd _)).1
  obtain ⟨br1, br2⟩ := run_faceId3 hwf hd.2.1 hr
  by_cases h3 : m.β 3 d = 0
  · -- 3-free dart: the backward walk runs (and finds nothing new)
    have hrb0 : rbF = 0 := by rw [g5, ← Function.iterate_add_apply]; exact zeroR h3 _
    have hb0 : m.β 0 d ∈ cycleB m d :=
      (cycleB_closed hwf (by omega) hcl hd (self_mem_cycleB hwf (by omega) hcl hd)).2.1
    have hb1 : m.β 1 (m.β 3 d) = 0 := by rw [h3]; exact hwf.null 1 (by omega)
    obtain ⟨⟨a, b, c, mn2⟩, hr2⟩ := fw_terminates (f1 := m.β 0) (f0 := m.β 1) r0 r1 (m.n + 1)
      (m.β 0 d) (m.β 1 (m.β 3 d)) mkF (upd mnF (m.β 0 d) (m.β 1 (m.β 3 d))) (r0 d hd.2.1)
      (r1 _ he)
      (by have := phi_le (n := m.n) (marked := mkF) hwf.npos
            (g3 0 (List.mem_append_left _ (by simp))); omega)
    obtain ⟨k1, k2, _, _⟩ := fw_facts _ _ _ _ _ _ _ _ _ hr2
    have hu := upd_le mnF (m.β 0 d) (m.β 1 (m.β 3 d))
    have memU : upd mnF (m.β 0 d) (m.β 1 (m.β 3 d)) ∈ faceDarts m d := by
      rcases upd_mem mnF (m.β 0 d) (m.β 1 (m.β 3 d)) with e | ⟨_, e⟩ | ⟨e0, _⟩
      · rw [e]; exact memF
      · rw [e]; exact List.mem_append_left _ hb0
      · exact absurd hb1 e0
    refine ⟨mn2, br2 (Or.inr hrb0) a b c mn2 hr2, ?_, fun x hx => Nat.le_trans k1 (Nat.le_trans hu.1 (lowF x hx))⟩
    rcases k2 with e | ⟨e0, e⟩
    · rw [e]; exact memU
    · rcases e with ⟨s, e⟩ | ⟨s, e⟩
      · rw [e, ← Function.iterate_succ_apply]
        exact List.mem_append_left _ (b0_iter_mem hwf (by omega) hcl hd _)
      · rw [hb1, iterate_fix0 (hwf.null 1 (by omega))] at e
        exact absurd e e0
  · have hrb0 : rbF ≠ 0 := by
      rw [g5, ← Function.iterate_add_apply]
      have hu := inUse_image4 hwf hd (by omega : 3 < 4) h3
      exact ((periodB_spec hwf (by omega) hcl hu).2.2.2 _ (b0_iter_mem hwf (by omega) hcl hu _)).1
    exact ⟨mnF, br1 (by rintro (h | h); exact hlb0 h; exact hrb0 h), memF, lowF⟩

/-- the smallest dart of the two-sided face of `d` -/
def faceMin (m : Map Val) (d : Nat) : Nat := listMin (faceDarts m d) d

theorem self_mem_faceDarts (hwf : WF 4 m) (hcl : ClosedFaces m) {d : Nat} (hd : InUse m d) :
    d ∈ faceDarts m d := List.mem_append_left _ (self_mem_cycleB hwf (by omega) hcl hd)

theorem run_faceId3_eq (hwf : WF 4 m) (hcl : ClosedFaces m) (hM : Mirror m) (hs : Sided m) {d : Nat}
    (hd : InUse m d) : run (faceId3 (X := Val) m.n d) m = (.ok (faceMin m d), m) := by
  obtain ⟨v, hv, h1, h2⟩ := faceId3_min hwf hcl hM hs hd
  have := min_unique ⟨h1, h2⟩ (listMin_spec (self_mem_faceDarts hwf hcl hd)) (fun _ => Iff.rfl)
  rw [hv, this]; rfl

theorem faceDarts_inUse (hwf : WF 4 m) (hcl : ClosedFaces m) {d x : Nat} (hd : InUse m d)
    (hx : x ∈ faceDarts m d) : InUse m x := by
  unfold faceDarts at hx
  rcases List.mem_append.1 hx with hx | hx
  · exact (periodB_spec hwf (by omega) hcl hd).2.2.2 x hx
  · by_cases h3 : m.β 3 d = 0
    · rw [if_pos h3] at hx; simp at hx
    · rw [if_neg h3] at hx
      exact (periodB_spec hwf (by omega) hcl (inUse_image4 hwf hd (by omega : 3 < 4) h3)).2.2.2 x hx

/-- the images `β1, β0, β3` are closed under inverse -/
theorem gFace_invClosed (hwf : WF 4 m) : InvClosed (fun y => [m.β 1 y, m.β 0 y, m.β 3 y]) m.n := by
  intro a ha y hy hy0
  simp only [List.mem_cons, List.not_mem_nil, or_false] at hy ⊢
  rcases hy with rfl | rfl | rfl
  · exact Or.inr (Or.inl (hwf.inv01 a ha hy0).symm)
  · exact Or.inl (hwf.inv10 a ha hy0).symm
  · exact Or.inr (Or.inr (hwf.invol 3 (by omega) (by omega) a ha hy0).1.symm)

/-- two darts of one face have the same face -/
theorem faceDarts_congr (hwf : WF 4 m) (hcl : ClosedFaces m) (hM : Mirror m) (hs : Sided m)
    {d x : Nat} (hd : InUse m d) (hx : x ∈ faceDarts m d) (y : Nat) :
    y ∈ faceDarts m x ↔ y ∈ faceDarts m d := by
  have hxu := faceDarts_inUse hwf hcl hd hx
  rw [C20_3d_face_darts_are_the_face_orbit hwf hcl hM hs hxu,
    C20_3d_face_darts_are_the_face_orbit hwf hcl hM hs hd]
  have hdx := ((C20_3d_face_darts_are_the_face_orbit hwf hcl hM hs hd x).1 hx).2
  have h0 : ∀ y, y ∈ (fun y => [m.β 1 y, m.β 0 y, m.β 3 y]) 0 → y = 0 := by
    intro y hy
    simp only [hwf.null 1 (by omega), hwf.null 0 (by omega), hwf.null 3 (by omega),
      List.mem_cons, List.not_mem_nil, or_false, or_self] at hy
    exact hy
  have hr : ∀ a, a < m.n → ∀ y, y ∈ (fun y => [m.β 1 y, m.β 0 y, m.β 3 y]) a → y < m.n := by
    intro a ha y hy
    simp only [List.mem_cons, List.not_mem_nil, or_false] at hy
    rcases hy with rfl | rfl | rfl
    · exact hwf.range 1 (by omega) a ha
    · exact hwf.range 0 (by omega) a ha
    · exact hwf.range 3 (by omega) a ha
  have hxd := Reach.symm_of_invClosed h0 hr (gFace_invClosed hwf) hd.2.1 hxu.1 hdx
  exact ⟨fun ⟨a, b⟩ => ⟨a, hdx.trans b⟩, fun ⟨a, b⟩ => ⟨a, hxd.trans b⟩⟩

theorem faceMin_congr (hwf : WF 4 m) (hcl : ClosedFaces m) (hM : Mirror m) (hs : Sided m)
    {d x : Nat} (hd : InUse m d) (hx : x ∈ faceDarts m d) : faceMin m x = faceMin m d :=
  min_unique (listMin_spec (self_mem_faceDarts hwf hcl (faceDarts_inUse hwf hcl hd hx)))
    (listMin_spec (self_mem_faceDarts hwf hcl hd)) (faceDarts_congr hwf hcl hM hs hd hx)

theorem faceMin_mem (hwf : WF 4 m) (hcl : ClosedFaces m) {d : Nat} (hd : InUse m d) :
    faceMin m d ∈ faceDarts m d := (listMin_spec (self_mem_faceDarts hwf hcl hd)).1

/-- **`iter_faces` (3-D)** yields exactly the face minima of the in-use darts -/
theorem mem_iterFaces3_iff (hwf : WF 4 m) (hcl : ClosedFaces m) (hM : Mirror m) (hs : Sided m)
    (f : Nat) : f ∈ iterFaces3 m ↔ InUse m f ∧ faceMin m f = f := by
  unfold iterFaces3
  rw [C03.mem_iterCells]
  constructor
  · rintro ⟨h1, h2, h3, h4⟩
    have hu : InUse m f := ⟨h2, h1, h3⟩
    rw [run_faceId3_eq hwf hcl hM hs hu, C03.okVal_ok] at h4
    exact ⟨hu, h4⟩
  · rintro ⟨hu, h4⟩
    refine ⟨hu.2.1, hu.1, hu.2.2, ?_⟩
    rw [run_faceId3_eq hwf hcl hM hs hu, C03.okVal_ok]
    exact h4

/-- no face is 3-linked to itself (`three_link` refuses to pair two darts of one β1-cycle) -/
def NoSelfGlue (m : Map Val) : Prop :=
  ∀ d, d < m.n → d ≠ 0 → m.unused d = false → m.β 3 d ∉ cycleB m d

instance (m : Map Val) : Decidable (NoSelfGlue m) := by unfold NoSelfGlue; exact inferInstance

/-- **C20 (3-D), one dart entity per in-use dart** (closed, mirrored, wholly 3-linked faces, none
    glued to itself): no dart has two dart entities, and the darts that have one are exactly the
    in-use darts — the two-sided enumeration `Custom(&[1])` from `id` and from `β3 id` is exact -/
theorem C20_3d_each_dart_once (hwf : WF 4 m) (hcl : ClosedFaces m) (hM : Mirror m) (hs : Sided m)
    (hns : NoSelfGlue m) (h : extract3 m = some sc) :
    (sc.darts.map (·.d)).Nodup ∧ ∀ d, d ∈ sc.darts.map (·.d) ↔ InUse m d := by
  have key : sc.darts.map (·.d) = (iterFaces3 m).flatMap (faceDarts m) := by
    have := congrArg (List.map Prod.snd) (C20_3d_dart_entities_of_face hwf hcl h)
    rw [List.map_map, List.map_flatMap] at this
    rw [show (fun e : DartEnt => e.d) = Prod.snd ∘ fun e => (e.f, e.d) from rfl, this]
    apply List.flatMap_congr
    intro f _
    rw [List.map_map]
    simp [Function.comp]
  rw [key]
  constructor
  · rw [List.nodup_flatMap]
    refine ⟨fun f hf => ?_, ?_⟩
    · have hfu := mem_iterFaces3_inUse hf
      exact C20_3d_face_darts_nodup hwf hcl hfu (hns f hfu.2.1 hfu.1 hfu.2.2)
    · refine List.Pairwise.imp_of_mem ?_ (C03.iterCells_sorted m (faceId3 m.n))
      intro a b ha hb hab
      show List.Disjoint (faceDarts m a) (faceDarts m b)
      intro d hda hdb
      obtain ⟨hau, ea⟩ := (mem_iterFaces3_iff hwf hcl hM hs a).1 ha
      obtain ⟨hbu, eb⟩ := (mem_iterFaces3_iff hwf hcl hM hs b).1 hb
      have e1 := faceMin_congr hwf hcl hM hs hau hda
      have e2 := faceMin_congr hwf hcl hM hs hbu hdb
      omega
  · intro d
    rw [List.mem_flatMap]
    constructor
    · rintro ⟨f, hf, hd⟩
      exact faceDarts_inUse hwf hcl (mem_iterFaces3_inUse hf) hd
    · intro hd
      have hmem := faceMin_mem hwf hcl hd
      have hfu := faceDarts_inUse hwf hcl hd hmem
      refine ⟨faceMin m d, (mem_iterFaces3_iff hwf hcl hM hs _).2
        ⟨hfu, faceMin_congr hwf hcl hM hs hd hmem⟩, ?_⟩
      exact (faceDarts_congr hwf hcl hM hs hd hmem d).2 (self_mem_faceDarts hwf hcl hd)

end FaceId

/-! ## normals: the exact (un-normalised) part over ℚ

  The 3-D system computes at every corner of a face, from `vec_in = p - p_in`, `vec_out = p_out - p`:
  `plane_normal = vec_in.cross(vec_out).normalize()` and then
  `(vec_in.cross(plane_normal).normalize() + vec_out.cross(plane_normal).normalize()).normalize()`.
  The 2-D system uses `Z` instead of `plane_normal`.  `normalize` of the zero vector is NaN in glam
  (`v * (1 / 0)` = `0 * inf`); that IEEE fact is the only thing not covered below.  What IS proved,
  exactly, over ℚ (any ordered field would do):
  * `C20_D20a_zero_normal_iff`   `vec_in × vec_out = 0` iff the two sides at the corner are linearly
                                 dependent (`vec_out = t • vec_in`, for `vec_in ≠ 0`)
  * `C20_D20a_straight_corner`   in particular at every straight corner (a vertex strictly inside a
                                 straight side) — finding D20a — and at every spike
  * `C20_3d_normal_nonzero`      conversely, if the plane normal is not zero then the vector handed to
                                 the last `normalize` is not zero, whatever positive weights the two
                                 inner normalisations contribute
  * `C20_2d_normal_nonzero_iff`, `C20_2d_spike_zero`
                                 2-D: the sum is zero for some positive weights iff the corner is a
                                 spike (`vec_out = -t • vec_in`, `t > 0`), and then it IS zero for the
                                 weights `1/|vec_in|, 1/|vec_out|` the code uses (`a = t * b`)
  * `C20_newell_is_vector_area`  the per-face vector of `VolumeNormals` (Newell's formula) is the sum of
                                 the cross products of consecutive corners (twice the vector area)
  * `C20_plane_normal_of_scene`  the plane normal the system computes from the table rows of a face
                                 entity is the cross product of the differences of the map's own
                                 coordinates of the vertices of `β1^(i-1) f, β1^i f, β1^(i+1) f`
-/

section Normals

abbrev V3 := Rat × Rat × Rat

def vsub (a b : V3) : V3 := (a.1 - b.1, a.2.1 - b.2.1, a.2.2 - b.2.2)
def vadd (a b : V3) : V3 := (a.1 + b.1, a.2.1 + b.2.1, a.2.2 + b.2.2)
def vsmul (t : Rat) (a : V3) : V3 := (t * a.1, t * a.2.1, t * a.2.2)
def vdot (a b : V3) : Rat := a.1 * b.1 + a.2.1 * b.2.1 + a.2.2 * b.2.2
/-- glam's `Vec3::cross` -/
def cross3 (u v : V3) : V3 :=
  (u.2.1 * v.2.2 - u.2.2 * v.2.1, u.2.2 * v.1 - u.1 * v.2.2, u.1 * v.2.1 - u.2.1 * v.1)

def vzero : V3 := (0, 0, 0)

theorem v3_ext {a b : V3} (h1 : a.1 = b.1) (h2 : a.2.1 = b.2.1) (h3 : a.2.2 = b.2.2) : a = b := by
  obtain ⟨a1, a2, a3⟩ := a
  obtain ⟨b1, b2, b3⟩ := b
  simp only at h1 h2 h3
  subst h1 h2 h3
  rfl

theorem v3_eq_iff {a b : V3} : a = b ↔ a.1 = b.1 ∧ a.2.1 = b.2.1 ∧ a.2.2 = b.2.2 :=
  ⟨fun h => by subst h; exact ⟨rfl, rfl, rfl⟩, fun ⟨h1, h2, h3⟩ => v3_ext h1 h2 h3⟩

/-- **D20a as a theorem**: the plane normal `vec_in × vec_out` of a corner whose incoming side is
    not degenerate is the zero vector exactly when the outgoing side is a multiple of the incoming
    one (the three points are collinear) -/
theorem C20_D20a_zero_normal_iff (u v : V3) (hu : u ≠ vzero) :
    cross3 u v = vzero ↔ ∃ t : Rat, v = vsmul t u := by
  obtain ⟨u1, u2, u3⟩ := u
  obtain ⟨v1, v2, v3⟩ := v
  simp only [cross3, vzero, vsmul, v3_eq_iff]
  constructor
  · rintro ⟨h1, h2, h3⟩
    by_cases k1 : u1 = 0
    · by_cases k2 : u2 = 0
      · have k3 : u3 ≠ 0 := by
          intro k3; apply hu; simp [vzero, k1, k2, k3]
        refine ⟨v3 / u3, ?_, ?_, ?_⟩
        · subst k1; field_simp; linarith
        · subst k2; field_simp; linarith
        · field_simp
      · refine ⟨v2 / u2, ?_, ?_, ?_⟩
        · field_simp; linarith
        · field_simp
        · field_simp; linarith
    · refine ⟨v1 / u1, ?_, ?_, ?_⟩
      · field_simp
      · field_simp; linarith
      · field_simp; linarith
  · rintro ⟨t, h1, h2, h3⟩
    subst h1 h2 h3
    refine ⟨by ring, by ring, by ring⟩

/-- **D20a, the straight corner**: if the corner `p` lies on the segment from `p_in` to `p_out`
    (`p = p_in + s • (p_out - p_in)`, any `s`: strictly inside for `0 < s < 1`, a spike outside), the
    plane normal the 3-D system normalises is the zero vector -/
theorem C20_D20a_straight_corner (pin pout : V3) (s : Rat) :
    let p := vadd pin (vsmul s (vsub pout pin))
    cross3 (vsub p pin) (vsub pout p) = vzero := by
  obtain ⟨a1, a2, a3⟩ := pin
  obtain ⟨b1, b2, b3⟩ := pout
  simp only [cross3, vzero, vsmul, vsub, vadd, v3_eq_iff]
  refine ⟨by ring, by ring, by ring⟩

theorem vdot_self_eq_zero {p : V3} (h : vdot p p = 0) : p = vzero := by
  obtain ⟨p1, p2, p3⟩ := p
  simp only [vdot] at h
  have a1 := mul_self_nonneg p1
  have a2 := mul_self_nonneg p2
  have a3 := mul_self_nonneg p3
  have e1 : p1 = 0 := mul_self_eq_zero.1 (by linarith)
  have e2 : p2 = 0 := mul_self_eq_zero.1 (by linarith)
  have e3 : p3 = 0 := mul_self_eq_zero.1 (by linarith)
  simp [vzero, e1, e2, e3]

/-- **the 3-D corner normal is well defined away from D20a**: if the plane normal `pn = u × v` is
    not zero, the vector `a • (u × pn) + b • (v × pn)` handed to the final `normalize` is not zero,
    for all positive weights `a, b` (the code's are `1/|u × pn|`, `1/|v × pn|`) -/
theorem C20_3d_normal_nonzero (u v : V3) (a b : Rat) (ha : 0 < a) (hb : 0 < b)
    (hpn : cross3 u v ≠ vzero) :
    vadd (vsmul a (cross3 u (cross3 u v))) (vsmul b (cross3 v (cross3 u v))) ≠ vzero := by
  intro h
  apply hpn
  apply vdot_self_eq_zero
  -- dot the equation with `v`: `(u × pn)·v = -|pn|²`, `(v × pn)·v = 0`
  have key : vdot (vadd (vsmul a (cross3 u (cross3 u v))) (vsmul b (cross3 v (cross3 u v)))) v
      = -(a * vdot (cross3 u v) (cross3 u v)) := by
    obtain ⟨u1, u2, u3⟩ := u
    obtain ⟨v1, v2, v3⟩ := v
    simp only [cross3, vsmul, vadd, vdot]
    ring
  rw [h] at key
  have z : vdot vzero v = 0 := by simp [vdot, vzero]
  rw [z] at key
  have : a * vdot (cross3 u v) (cross3 u v) = 0 := by linarith
  rcases mul_eq_zero.1 this with h1 | h1
  · exact absurd h1 (ne_of_gt ha)
  · exact h1

abbrev V2 := Rat × Rat
/-- `(x, y, 0) × Z = (y, -x, 0)` -/
def perp2 (u : V2) : V2 := (u.2, -u.1)

/-- **2-D corner normal**: for non-degenerate sides `u = vec_in`, `v = vec_out`, the sum
    `a • (u × Z) + b • (v × Z)` vanishes for some positive weights iff the corner is a spike: the
    sides are parallel (`u.x v.y = u.y v.x`) and point in opposite directions (`u·v < 0`).  A straight
    corner (`u·v > 0`) is fine in 2-D. -/
theorem C20_2d_normal_nonzero_iff (u v : V2) (hu : u ≠ (0, 0)) (hv : v ≠ (0, 0)) :
    (∃ a b : Rat, 0 < a ∧ 0 < b ∧
      (a * (perp2 u).1 + b * (perp2 v).1 = 0 ∧ a * (perp2 u).2 + b * (perp2 v).2 = 0)) ↔
    (u.1 * v.2 - u.2 * v.1 = 0 ∧ u.1 * v.1 + u.2 * v.2 < 0) := by
  obtain ⟨u1, u2⟩ := u
  obtain ⟨v1, v2⟩ := v
  simp only [perp2]
  have hu' : 0 < u1 * u1 + u2 * u2 := by
    rcases lt_or_eq_of_le (add_nonneg (mul_self_nonneg u1) (mul_self_nonneg u2)) with h | h
    · exact h
    · exfalso; apply hu
      have e1 : u1 = 0 := mul_self_eq_zero.1 (by linarith [mul_self_nonneg u1, mul_self_nonneg u2])
      have e2 : u2 = 0 := mul_self_eq_zero.1 (by linarith [mul_self_nonneg u1, mul_self_nonneg u2])
      rw [e1, e2]
  have hv' : 0 < v1 * v1 + v2 * v2 := by
    rcases lt_or_eq_of_le (add_nonneg (mul_self_nonneg v1) (mul_self_nonneg v2)) with h | h
    · exact h
    · exfalso; apply hv
      have e1 : v1 = 0 := mul_self_eq_zero.1 (by linarith [mul_self_nonneg v1, mul_self_nonneg v2])
      have e2 : v2 = 0 := mul_self_eq_zero.1 (by linarith [mul_self_nonneg v1, mul_self_nonneg v2])
      rw [e1, e2]
  constructor
  · rintro ⟨a, b, ha, hb, h1, h2⟩
    -- `a u = -b v`
    have e1 : a * u1 = -(b * v1) := by linarith
    have e2 : a * u2 = -(b * v2) := by linarith
    constructor
    · have : a * (u1 * v2 - u2 * v1) = 0 := by
        calc a * (u1 * v2 - u2 * v1) = (a * u1) * v2 - (a * u2) * v1 := by ring
          _ = 0 := by rw [e1, e2]; ring
      rcases mul_eq_zero.1 this with h | h
      · exact absurd h (ne_of_gt ha)
      · exact h
    · have : a * (u1 * v1 + u2 * v2) = -(b * (v1 * v1 + v2 * v2)) := by
        calc a * (u1 * v1 + u2 * v2) = (a * u1) * v1 + (a * u2) * v2 := by ring
          _ = -(b * (v1 * v1 + v2 * v2)) := by rw [e1, e2]; ring
      have hneg : a * (u1 * v1 + u2 * v2) < 0 := by
        rw [this]; exact neg_neg_of_pos (mul_pos hb hv')
      by_contra hge
      have := mul_nonneg (le_of_lt ha) (not_lt.1 hge)
      linarith
  · rintro ⟨hc, hd⟩
    -- weights `a = -(u·v)`, `b = u·u`
    refine ⟨-(u1 * v1 + u2 * v2), u1 * u1 + u2 * u2, by linarith, hu', ?_, ?_⟩
    · have : -(u1 * v1 + u2 * v2) * u2 + (u1 * u1 + u2 * u2) * v2 = u1 * (u1 * v2 - u2 * v1) := by ring
      rw [this, hc]; ring
    · have : -(u1 * v1 + u2 * v2) * -u1 + (u1 * u1 + u2 * u2) * -v1 = u2 * (u1 * v2 - u2 * v1) := by
        ring
      rw [this, hc]; ring

/-- **2-D spike**: if `vec_out = -t • vec_in` with `t > 0`, the two unit normals cancel: the sum is
    zero for all weights with `a = t * b` — which `a = 1/|vec_in|`, `b = 1/|vec_out| = 1/(t |vec_in|)`
    satisfy -/
theorem C20_2d_spike_zero (u : V2) (t a b : Rat) (hab : a = t * b) :
    let v : V2 := (-(t * u.1), -(t * u.2))
    a * (perp2 u).1 + b * (perp2 v).1 = 0 ∧ a * (perp2 u).2 + b * (perp2 v).2 = 0 := by
  obtain ⟨u1, u2⟩ := u
  simp only [perp2]
  subst hab
  constructor <;> ring

/-- the point stored in a table entry -/
def ptOf : Val → V3
  | .pt x y z => (x, y, z)
  | _ => vzero

/-- the plane normal, before normalisation, that the 3-D system computes at corner `i` of a face
    entity with corner rows `rows`: `(ver_in, ver, ver_out) = (rows[i-1], rows[i], rows[i+1])`
    cyclically — the first block of the Rust code is `i = 0`, the `windows(3)` loop `0 < i < n_v-1`,
    the last block `i = n_v - 1` — and `vec_in.cross(vec_out)` on the table entries -/
def planeNormalAt (table : List Val) (rows : List Nat) (i : Nat) : V3 :=
  let n := rows.length
  let P := fun j => ptOf (table.getD (rows.getD j 0) default)
  cross3 (vsub (P i) (P ((i + n - 1) % n))) (vsub (P ((i + 1) % n)) (P i))

variable {m : Map Val} {sc : Scene}

/-- **C20 (3-D), the plane normal in terms of the map**: at corner `i` of face `f` the system's
    plane normal is the cross product of the differences of the map's own coordinates of the vertices
    of the darts `β1^(i-1) f`, `β1^i f`, `β1^(i+1) f` (indices mod the number of sides) -/
theorem C20_plane_normal_of_scene (hwf : WF 4 m) (hcl : ClosedFaces m) (h : extract3 m = some sc)
    {f : Nat} {rows : List Nat} (hm : (f, rows) ∈ sc.faces) {i : Nat} (hi : i < rows.length) :
    ∃ vp v vn xp x xn,
      evalP (vertexId3 m.n ((m.β 1)^[(i + rows.length - 1) % rows.length] f)) m = some vp ∧
      evalP (vertexId3 m.n ((m.β 1)^[i] f)) m = some v ∧
      evalP (vertexId3 m.n ((m.β 1)^[(i + 1) % rows.length] f)) m = some vn ∧
      m.att 0 vp = some xp ∧ m.att 0 v = some x ∧ m.att 0 vn = some xn ∧
      planeNormalAt sc.table rows i =
        cross3 (vsub (ptOf x) (ptOf xp)) (vsub (ptOf xn) (ptOf x)) := by
  obtain ⟨_, hall⟩ := C20_3d_face_corners hwf hcl h
  obtain ⟨_, _, _, hrow⟩ := hall f rows hm
  have at_ : ∀ j, j < rows.length → ∃ v x, evalP (vertexId3 m.n ((m.β 1)^[j] f)) m = some v ∧
      m.att 0 v = some x ∧ sc.table.getD (rows.getD j 0) default = x := by
    intro j hj
    obtain ⟨v, x, j1, _, j3, j4⟩ := hrow j rows[j] (List.getElem?_eq_getElem hj)
    refine ⟨v, x, j1, j4, ?_⟩
    rw [List.getD_eq_getElem?_getD, List.getD_eq_getElem?_getD, List.getElem?_eq_getElem hj]
    simp only [Option.getD_some]
    rw [j3]; rfl
  have hn : 0 < rows.length := by omega
  obtain ⟨vp, xp, a1, a2, a3⟩ := at_ ((i + rows.length - 1) % rows.length) (Nat.mod_lt _ hn)
  obtain ⟨v, x, b1, b2, b3⟩ := at_ i hi
  obtain ⟨vn, xn, c1, c2, c3⟩ := at_ ((i + 1) % rows.length) (Nat.mod_lt _ hn)
  refine ⟨vp, v, vn, xp, x, xn, a1, b1, c1, a2, b2, c2, ?_⟩
  unfold planeNormalAt
  simp only [a3, b3, c3]

/-! ### the per-face normal of `VolumeNormals` (Newell's formula)

  For every face of a volume the 3-D system accumulates, over the consecutive corner pairs
  `(v1, v2)` of `orbit(Custom(&[1]), d).chain([d])`,
  `base.x += (v1.y - v2.y) * (v1.z + v2.z)` (and cyclically for `y`, `z`), then normalises.
  Exactly: that sum is the sum of the cross products `v1 × v2`, i.e. twice the vector area of the
  polygon — in particular it is the zero vector exactly when the vector area is. -/

def newellTerm (p q : V3) : V3 :=
  ((p.2.1 - q.2.1) * (p.2.2 + q.2.2), (p.2.2 - q.2.2) * (p.1 + q.1), (p.1 - q.1) * (p.2.1 + q.2.1))

def vsum (l : List V3) : V3 := l.foldr vadd vzero

/-- the vector the code hands to `normalize` for a face with corner points `ps` -/
def newell (ps : List V3) : V3 := vsum ((cyclicPairs ps).map (fun pq => newellTerm pq.1 pq.2))

theorem vsum_components (l : List V3) :
    (vsum l).1 = (l.map (·.1)).sum ∧ (vsum l).2.1 = (l.map (·.2.1)).sum ∧
      (vsum l).2.2 = (l.map (·.2.2)).sum := by
  induction l with
  | nil => simp [vsum, vzero]
  | cons a t ih =>
      obtain ⟨h1, h2, h3⟩ := ih
      simp only [vsum, List.foldr_cons, vadd, List.map_cons, List.sum_cons] at h1 h2 h3 ⊢
      exact ⟨by rw [h1], by rw [h2], by rw [h3]⟩

theorem sum_zip_sub {α : Type} (g : α → Rat) : ∀ (l1 l2 : List α), l1.length = l2.length →
    ((l1.zip l2).map (fun p => g p.1 - g p.2)).sum = (l1.map g).sum - (l2.map g).sum := by
  intro l1
  induction l1 with
  | nil => intro l2 h; cases l2 <;> simp at h ⊢
  | cons a t ih =>
      intro l2 h
      cases l2 with
      | nil => simp at h
      | cons b t2 =>
          simp only [List.length_cons, Nat.add_right_cancel_iff] at h
          simp only [List.zip_cons_cons, List.map_cons, List.sum_cons, ih t2 h]
          ring

/-- a telescoping sum around a closed polygon vanishes -/
theorem cyclic_telescope {α : Type} (g : α → Rat) (l : List α) :
    ((cyclicPairs l).map (fun p => g p.1 - g p.2)).sum = 0 := by
  unfold cyclicPairs
  rw [sum_zip_sub g l (l.tail ++ l.take 1) (by cases l <;> simp)]
  cases l with
  | nil => simp
  | cons a t => simp only [List.tail_cons, List.take_succ_cons, List.take_zero, List.map_append,
      List.sum_append, List.map_cons, List.map_nil, List.sum_cons, List.sum_nil]; ring

/-- **Newell's formula is the sum of the cross products** of consecutive corners (twice the vector
    area of the face): what the 3-D system normalises for the faces of a volume -/
theorem C20_newell_is_vector_area (ps : List V3) :
    newell ps = vsum ((cyclicPairs ps).map (fun pq => cross3 pq.1 pq.2)) := by
  unfold newell
  obtain ⟨a1, a2, a3⟩ := vsum_components ((cyclicPairs ps).map (fun pq => newellTerm pq.1 pq.2))
  obtain ⟨b1, b2, b3⟩ := vsum_components ((cyclicPairs ps).map (fun pq => cross3 pq.1 pq.2))
  have t1 := cyclic_telescope (fun p : V3 => p.2.1 * p.2.2) ps
  have t2 := cyclic_telescope (fun p : V3 => p.2.2 * p.1) ps
  have t3 := cyclic_telescope (fun p : V3 => p.1 * p.2.1) ps
  have comb : ∀ (f g h : V3 × V3 → Rat) (l : List (V3 × V3)), (∀ x, f x = g x + h x) →
      (l.map f).sum = (l.map g).sum + (l.map h).sum := by
    intro f g h l hfg
    induction l with
    | nil => simp
    | cons a t ih => simp only [List.map_cons, List.sum_cons, ih, hfg a]; ring
  apply v3_ext
  · rw [a1, b1, List.map_map, List.map_map]
    rw [comb _ (fun pq => (cross3 pq.1 pq.2).1) (fun pq => pq.1.2.1 * pq.1.2.2 - pq.2.2.1 * pq.2.2.2) _
      (fun x => by simp only [Function.comp, newellTerm, cross3]; ring)]
    have : ((cyclicPairs ps).map (fun pq => pq.1.2.1 * pq.1.2.2 - pq.2.2.1 * pq.2.2.2)).sum = 0 := t1
    rw [this, add_zero]; rfl
  · rw [a2, b2, List.map_map, List.map_map]
    rw [comb _ (fun pq => (cross3 pq.1 pq.2).2.1) (fun pq => pq.1.2.2 * pq.1.1 - pq.2.2.2 * pq.2.1) _
      (fun x => by simp only [Function.comp, newellTerm, cross3]; ring)]
    have : ((cyclicPairs ps).map (fun pq => pq.1.2.2 * pq.1.1 - pq.2.2.2 * pq.2.1)).sum = 0 := t2
    rw [this, add_zero]; rfl
  · rw [a3, b3, List.map_map, List.map_map]
    rw [comb _ (fun pq => (cross3 pq.1 pq.2).2.2) (fun pq => pq.1.1 * pq.1.2.1 - pq.2.1 * pq.2.2.1) _
      (fun x => by simp only [Function.comp, newellTerm, cross3]; ring)]
    have : ((cyclicPairs ps).map (fun pq => pq.1.1 * pq.1.2.1 - pq.2.1 * pq.2.2.1)).sum = 0 := t3
    rw [this, add_zero]; rfl

-- the unit square in the plane z = 0: Newell vector (0, 0, 2) = twice the area, along +z
example : newell [(0, 0, 0), (1, 0, 0), (1, 1, 0), (0, 1, 0)] = (0, 0, 2) := by decide +kernel
example : newell [(0, 0, 0), (1, 0, 0), (1, 1, 0), (0, 1, 0)] =
    vsum ((cyclicPairs [((0, 0, 0) : V3), (1, 0, 0), (1, 1, 0), (0, 1, 0)]).map
      (fun pq => cross3 pq.1 pq.2)) := C20_newell_is_vector_area _

end Normals

/-! ## the keys of `FaceNormals` and `VolumeNormals` -/

section Keys
variable {R : Reader} {vn : Option (List (Nat × Nat))} {sc : Scene} {m : Map Val}

/-- the keys inserted into `FaceNormals` are, face entity after face entity, `(face id, row)` for
    every corner row of the entity (dimension-independent) -/
theorem fn_keys (h : extractWith R vn = some sc) :
    sc.fnKeys = sc.faces.flatMap (fun p => p.2.map (fun r => (p.1, r))) := by
  obtain ⟨table, verts, edges, fbs, _, _, _, h4, _, _, _, e4, _, e6, _⟩ := extractWith_inv h
  rw [e6, e4, List.flatMap_def, List.map_map]
  congr 1
  apply List.map_congr_left
  intro fb hfb
  obtain ⟨f, _, hf⟩ := mapO_mem' h4 hfb
  obtain ⟨w, rows, d1, w2, d2, _, _, _, _, _, _, rfl⟩ := faceBundle_inv hf
  rfl

/-- **C20, `FaceNormals` keys (2-D)**: one key `(f, row)` per corner of every face entity -/
theorem C20_face_normal_keys (h : extract2 m = some sc) :
    sc.fnKeys = sc.faces.flatMap (fun p => p.2.map (fun r => (p.1, r))) :=
  fn_keys (R := reader2 m) h

theorem extract3_inv' (h : extract3 m = some sc) :
    ∃ sc0 k, extractWith (reader3 m) (some []) = some sc0 ∧ volKeys3 m (reader3 m) = some k ∧
      sc = { sc0 with vnKeys := some k } := by
  unfold extract3 at h
  simp only at h
  split at h
  · exact absurd h (by simp)
  · rename_i sc0 h0
    split at h
    · exact absurd h (by simp)
    · rename_i k hk
      simp only [Option.some.injEq] at h
      exact ⟨sc0, k, h0, hk, h.symm⟩

/-- **C20, `FaceNormals` keys (3-D)** -/
theorem C20_3d_face_normal_keys (h : extract3 m = some sc) :
    sc.fnKeys = sc.faces.flatMap (fun p => p.2.map (fun r => (p.1, r))) := by
  obtain ⟨sc0, k, h0, _, rfl⟩ := extract3_inv' h
  exact fn_keys (R := reader3 m) (sc := sc0) h0

/-- images of the 3-D Volume policy -/
def gVol (m : Map Val) (x : Nat) : List Nat := [m.β 1 x, m.β 0 x, m.β 2 x]

theorem run_gen3_volume (hwf : WF 4 m) {x : Nat} (hx : x < m.n) :
    run (gen3 (X := Val) .volume x) m = (.ok (gVol m x), m) := by
  simp [gen3, gVol, run_rB, okb4 hwf (by omega : 1 < 4) hx, okb4 hwf (by omega : 0 < 4) hx,
    okb4 hwf (by omega : 2 < 4) hx]

theorem volume_orbit_eq (hwf : WF 4 m) {d : Nat} (hd0 : d ≠ 0) (hdn : d < m.n) :
    ∃ ds, evalP (orbit3 m.n .volume d) m = some ds ∧
      ∀ x, x ∈ ds ↔ x ≠ 0 ∧ Reach (gVol m) d x := by
  have h0 : ∀ y, y ∈ gVol m 0 → y = 0 := by
    intro y hy
    simp only [gVol, hwf.null 1 (by omega), hwf.null 0 (by omega), hwf.null 2 (by omega),
      List.mem_cons, List.not_mem_nil, or_false, or_self] at hy
    exact hy
  have hr : ∀ a, a < m.n → ∀ y, y ∈ gVol m a → y < m.n := by
    intro a ha y hy
    simp only [gVol, List.mem_cons, List.not_mem_nil, or_false] at hy
    rcases hy with rfl | rfl | rfl
    · exact hwf.range 1 (by omega) a ha
    · exact hwf.range 0 (by omega) a ha
    · exact hwf.range 2 (by omega) a ha
  refine ⟨_, evalP_of_run (run_orbitWith (gen := gen3 .volume) (g := gVol m)
    (fun x hx => run_gen3_volume hwf hx) hr hd0 hdn), ?_⟩
  exact (bfsPure_spec h0 hr hd0 hdn).2.2.2.1

/-- **C20, `VolumeNormals` keys (3-D)**: the keys are exactly the pairs `(vol, index_map (vertex_id d))`
    for `vol` an id of `iter_volumes` and `d` a dart of the volume of `vol` (the non-null darts
    reachable from `vol` through `β1, β0, β2`) -/
theorem C20_3d_volume_normal_keys (hwf : WF 4 m) (h : extract3 m = some sc) :
    ∃ ks, sc.vnKeys = some ks ∧ ∀ vol r, (vol, r) ∈ ks ↔
      vol ∈ iterVolumes3 m ∧ ∃ d, d ≠ 0 ∧ Reach (gVol m) vol d ∧ (reader3 m).rowOfDart d = some r := by
  obtain ⟨sc0, ks, _, hk, rfl⟩ := extract3_inv' h
  refine ⟨ks, rfl, ?_⟩
  unfold volKeys3 at hk
  simp only [Option.map_eq_some_iff] at hk
  obtain ⟨per, hper, rfl⟩ := hk
  intro vol r
  rw [List.mem_flatten]
  -- one volume
  have one : ∀ v keys, v ∈ iterVolumes3 m →
      (match evalP (orbit3 m.n .volume v) m with
        | none => none
        | some ds =>
          match mapO (fun d => evalP (faceId3 m.n d) m) ds with
          | none => none
          | some fids =>
            match mapO (fun d => ((reader3 m).walk d).bind
                (fun w => mapO (reader3 m).rowOfDart (w ++ [d]))) (uniqueByKey (ds.zip fids) []),
              mapO (reader3 m).rowOfDart ds with
            | some _, some rows => some (rows.map (fun r => (v, r)))
            | _, _ => none) = some keys →
      ∀ vol r, (vol, r) ∈ keys ↔ vol = v ∧ ∃ d, d ≠ 0 ∧ Reach (gVol m) v d ∧
        (reader3 m).rowOfDart d = some r := by
    intro v keys hv hF vol r
    obtain ⟨h1, h2, h3, _⟩ := (C03.mem_iterCells m _ v).1 hv
    obtain ⟨ds, hds, hmem⟩ := volume_orbit_eq hwf h2 h1
    rw [hds] at hF
    simp only at hF
    split at hF
    · exact absurd hF (by simp)
    · split at hF
      · rename_i rows _ hrows
        simp only [Option.some.injEq] at hF
        subst hF
        simp only [List.mem_map, Prod.mk.injEq]
        constructor
        · rintro ⟨r', hr', rfl, rfl⟩
          obtain ⟨d, hd, hrd⟩ := mapO_mem' hrows hr'
          exact ⟨rfl, d, ((hmem d).1 hd).1, ((hmem d).1 hd).2, hrd⟩
        · rintro ⟨rfl, d, hd0, hr, hrd⟩
          obtain ⟨b, hb, hfb⟩ := mapO_mem hrows ((hmem d).2 ⟨hd0, hr⟩)
          rw [hrd] at hfb
          exact ⟨b, hb, rfl, (Option.some.inj hfb).symm⟩
      · exact absurd hF (by simp)
  constructor
  · rintro ⟨keys, hkeys, hin⟩
    obtain ⟨v, hv, hF⟩ := mapO_mem' hper hkeys
    obtain ⟨rfl, rest⟩ := (one v keys hv hF vol r).1 hin
    exact ⟨hv, rest⟩
  · rintro ⟨hv, rest⟩
    obtain ⟨keys, hkeys, hF⟩ := mapO_mem hper hv
    exact ⟨keys, hkeys, (one vol keys hv hF vol r).2 ⟨rfl, rest⟩⟩

end Keys

/-! ## the 3-D extraction does not panic on embedded maps with closed mirrored faces -/

section NoPanic3
open HC.Face3 HC.Cell3
variable {m : Map Val}

theorem run_genVid3_ok (hwf : WF 4 m) {x : Nat} (hx : x < m.n) :
    run (genVid3 (X := Val) x) m = (.ok (g3v m x), m) := by
  have r : ∀ i, i < 4 → ∀ y, y < m.n → m.β i y < m.n := fun i hi y hy => hwf.range i hi y hy
  simp [genVid3, g3v, run_rB, okb4 hwf (by omega : 0 < 4) hx, okb4 hwf (by omega : 2 < 4) hx,
    okb4 hwf (by omega : 3 < 4) hx, okb4 hwf (by omega : 1 < 4) (r 3 (by omega) x hx),
    okb4 hwf (by omega : 3 < 4) (r 2 (by omega) x hx), okb4 hwf (by omega : 1 < 4) (r 2 (by omega) x hx),
    okb4 hwf (by omega : 3 < 4) (r 0 (by omega) x hx), okb4 hwf (by omega : 2 < 4) (r 0 (by omega) x hx),
    okb4 hwf (by omega : 2 < 4) (r 3 (by omega) x hx)]

theorem vertexId3_runs (hwf : WF 4 m) {d : Nat} (hd0 : d ≠ 0) (hd : d < m.n) :
    ∃ v, run (vertexId3 (X := Val) m.n d) m = (.ok v, m) ∧ IsVid3 m d v := by
  obtain ⟨v, hv⟩ := popLoop_start (g := g3v m) (gen := genVid3) (fun x hx => run_genVid3_ok hwf hx)
    (fun x => by simp [g3v]) (g3v_range hwf) hd
  exact ⟨v, hv, (vertexId3_spec hwf hd0 hd hv).2⟩

theorem edgeId3_runs (hwf : WF 4 m) {d : Nat} (hd : d < m.n) :
    ∃ v, run (edgeId3 (X := Val) m.n d) m = (.ok v, m) := by
  unfold edgeId3
  apply popLoop_start (g := fun e => [m.β 2 e, m.β 3 e])
  · intro x hx
    simp [run_rB, okb4 hwf (by omega : 2 < 4) hx, okb4 hwf (by omega : 3 < 4) hx]
  · intro x; simp
  · intro x hx y hy
    simp only [List.mem_cons, List.not_mem_nil, or_false] at hy
    rcases hy with rfl | rfl
    · exact hwf.range 2 (by omega) x hx
    · exact hwf.range 3 (by omega) x hx
  · exact hd

theorem volumeId3_runs (hwf : WF 4 m) {d : Nat} (hd : d < m.n) :
    ∃ v, run (volumeId3 (X := Val) m.n d) m = (.ok v, m) := by
  unfold volumeId3
  apply popLoop_start (g := fun e => [m.β 1 e, m.β 0 e, m.β 2 e])
  · intro x hx
    simp [run_rB, okb4 hwf (by omega : 1 < 4) hx, okb4 hwf (by omega : 0 < 4) hx,
      okb4 hwf (by omega : 2 < 4) hx]
  · intro x; simp
  · intro x hx y hy
    simp only [List.mem_cons, List.not_mem_nil, or_false] at hy
    rcases hy with rfl | rfl | rfl
    · exact hwf.range 1 (by omega) x hx
    · exact hwf.range 0 (by omega) x hx
    · exact hwf.range 2 (by omega) x hx
  · exact hd

/-- non-null images of in-use darts under compositions of β's are in use -/
theorem inUse_g3v (hwf : WF 4 m) {x y : Nat} (hx : InUse m x) (hy : y ∈ g3v m x) (hy0 : y ≠ 0) :
    InUse m y := by
  have z : ∀ i, i < 4 → m.β i 0 = 0 := hwf.null
  have two : ∀ i j, i < 4 → j < 4 → m.β i (m.β j x) ≠ 0 → InUse m (m.β i (m.β j x)) := by
    intro i j hi hj hne
    have hj0 : m.β j x ≠ 0 := by intro e; rw [e, z i hi] at hne; exact hne rfl
    exact inUse_image4 hwf (inUse_image4 hwf hx hj hj0) hi hne
  simp only [g3v, List.mem_cons, List.not_mem_nil, or_false] at hy
  rcases hy with rfl | rfl | rfl | rfl | rfl | rfl
  · exact two 1 3 (by omega) (by omega) hy0
  · exact two 3 2 (by omega) (by omega) hy0
  · exact two 1 2 (by omega) (by omega) hy0
  · exact two 3 0 (by omega) (by omega) hy0
  · exact two 2 0 (by omega) (by omega) hy0
  · exact two 2 3 (by omega) (by omega) hy0

theorem reach_g3v_inUse (hwf : WF 4 m) {d x : Nat} (hd : InUse m d) (hr : Reach (g3v m) d x)
    (hx0 : x ≠ 0) : InUse m x := by
  induction hr with
  | refl => exact hd
  | tail hab hc ih =>
      have hb0 := Reach.pred_ne_zero (g3v_null hwf) hc hx0
      exact inUse_g3v hwf (ih hb0) hc hx0

/-- `vertex_id` of an in-use dart succeeds and is an id of `iter_vertices` -/
theorem vid3_mem (hwf : WF 4 m) {d : Nat} (hd : InUse m d) :
    ∃ v, (reader3 m).vid d = some v ∧ v ∈ iterVertices3 m := by
  obtain ⟨v, hv, hvid⟩ := vertexId3_runs hwf hd.1 hd.2.1
  obtain ⟨hv0, hvn⟩ := sameCell_ne_zero hwf hd.1 hd.2.1 hvid.1
  have hreach := ((sameCell_iff_reach (g3v_null hwf) (g3v_range hwf) (g3v_invClosed hwf) hd.1 hd.2.1 v).1
    hvid.1).2
  have hvu := reach_g3v_inUse hwf hd hreach hv0
  obtain ⟨v', hv', hvid'⟩ := vertexId3_runs hwf hv0 hvn
  have e : v' = v := IsVid3.unique hvid' (IsVid3.congr hvid hvid.1) (IsVid3.ne_zero hwf hv0 hvn hvid') hv0
  refine ⟨v, evalP_of_run hv, ?_⟩
  unfold iterVertices3
  rw [C03.mem_iterCells]
  refine ⟨hvn, hv0, hvu.2.2, ?_⟩
  rw [hv', C03.okVal_ok]; exact e

theorem lookups3_inUse (hwf : WF 4 m) {d : Nat} (hd : InUse m d) :
    (∃ r, (reader3 m).rowOfDart d = some r) ∧ (∃ v, (reader3 m).vid d = some v) ∧
      (∃ e, (reader3 m).eid d = some e) ∧ ∃ c, (reader3 m).volid d = some c := by
  obtain ⟨v, hv, hmem⟩ := vid3_mem hwf hd
  obtain ⟨r, hr⟩ := rowOf_of_mem hmem
  obtain ⟨e, he⟩ := edgeId3_runs hwf hd.2.1
  obtain ⟨c, hc⟩ := volumeId3_runs hwf hd.2.1
  refine ⟨⟨r, ?_⟩, ⟨v, hv⟩, ⟨e, evalP_of_run he⟩, ⟨c, evalP_of_run hc⟩⟩
  unfold Reader.rowOfDart
  rw [hv]; exact hr

/-- every vertex id of the 3-map has coordinates -/
def Embedded3 (m : Map Val) : Prop := ∀ v, v ∈ iterVertices3 m → (m.att 0 v).isSome = true

instance (m : Map Val) : Decidable (Embedded3 m) := by unfold Embedded3; exact inferInstance

theorem uniqueByKey_subset : ∀ (l : List (Nat × Nat)) (seen : List Nat) (x : Nat),
    x ∈ uniqueByKey l seen → ∃ k, (x, k) ∈ l := by
  intro l
  induction l with
  | nil => intro seen x h; simp [uniqueByKey] at h
  | cons p rest ih =>
      intro seen x h
      obtain ⟨d, k⟩ := p
      unfold uniqueByKey at h
      by_cases c : seen.contains k = true
      · rw [if_pos c] at h
        obtain ⟨k', hk'⟩ := ih seen x h
        exact ⟨k', List.mem_cons_of_mem _ hk'⟩
      · rw [if_neg c] at h
        rcases List.mem_cons.1 h with rfl | h
        · exact ⟨k, List.mem_cons_self⟩
        · obtain ⟨k', hk'⟩ := ih _ x h
          exact ⟨k', List.mem_cons_of_mem _ hk'⟩

theorem reach_gVol_inUse (hwf : WF 4 m) {d x : Nat} (hd : InUse m d) (hr : Reach (gVol m) d x)
    (hx0 : x ≠ 0) : InUse m x := by
  induction hr with
  | refl => exact hd
  | tail hab hc ih =>
      rename_i b c
      have hb0 : b ≠ 0 := by
        intro e
        simp only [gVol, e, hwf.null 1 (by omega), hwf.null 0 (by omega), hwf.null 2 (by omega),
          List.mem_cons, List.not_mem_nil, or_false, or_self] at hc
        exact hx0 hc
      have hb := ih hb0
      simp only [gVol, List.mem_cons, List.not_mem_nil, or_false] at hc
      rcases hc with rfl | rfl | rfl
      · exact inUse_image4 hwf hb (by omega) hx0
      · exact inUse_image4 hwf hb (by omega) hx0
      · exact inUse_image4 hwf hb (by omega) hx0

/-- **C20 (3-D), the extraction succeeds**: on a well-formed 3-map whose in-use darts all lie on
    closed, mirrored, wholly 3-linked faces of at least two sides and whose vertex ids all have
    coordinates, the start-up system does not panic -/
theorem C20_3d_no_panic (hwf : WF 4 m) (hcl : ClosedFaces m) (hnl : NoLoops m) (hM : Mirror m)
    (hs : Sided m) (hemb : Embedded3 m) : ∃ sc, extract3 m = some sc := by
  have hsc0 : ∃ sc0, extractWith (reader3 m) (some []) = some sc0 := by
    apply extractWith_isSome
    · intro v hv
      exact Option.isSome_iff_exists.1 (hemb v hv)
    · intro id hid
      obtain ⟨h1, h2, h3, _⟩ := (C03.mem_iterCells m _ id).1 hid
      have hu : InUse m id := ⟨h2, h1, h3⟩
      obtain ⟨⟨r1, hr1⟩, _⟩ := lookups3_inUse hwf hu
      have hend : InUse m ((reader3 m).edgeEnd id) := by
        show InUse m (if m.β 3 id = 0 then (if m.β 2 id = 0 then m.β 1 id else m.β 2 id) else m.β 3 id)
        by_cases k3 : m.β 3 id = 0
        · rw [if_pos k3]
          by_cases k2 : m.β 2 id = 0
          · rw [if_pos k2]; exact inUse_image4 hwf hu (by omega) (hcl id h1 hu.1 h3)
          · rw [if_neg k2]; exact inUse_image4 hwf hu (by omega) k2
        · rw [if_neg k3]; exact inUse_image4 hwf hu (by omega) k3
      obtain ⟨⟨r2, hr2⟩, _⟩ := lookups3_inUse hwf hend
      unfold edgeBundle
      rw [hr1, hr2]
      exact ⟨_, rfl⟩
    · intro f hf
      have hfu := mem_iterFaces3_inUse hf
      obtain ⟨hit, hpos, _, hcyc, hin⟩ := walkB_cycle hwf (by omega) hcl hfu
      refine faceBundle_isSome (walk3_eq hwf hfu.1 hfu.2.1) (side2_eq hwf hcl hfu) ?_ ?_
      · by_contra hlt
        have h1 : (walkB m f).length = 1 := by omega
        rw [h1] at hcyc
        exact hnl f hfu.2.1 hfu.1 hfu.2.2 hcyc
      · intro d hd
        rcases List.mem_append.1 hd with hd | hd
        · exact lookups3_inUse hwf (hin d hd)
        · by_cases k3 : m.β 3 f = 0
          · rw [if_pos k3] at hd; simp at hd
          · rw [if_neg k3] at hd
            exact lookups3_inUse hwf ((periodB_spec hwf (by omega) hcl
              (inUse_image4 hwf hfu (by omega : 3 < 4) k3)).2.2.2 d hd)
  obtain ⟨sc0, h0⟩ := hsc0
  have hvk : ∃ k, volKeys3 m (reader3 m) = some k := by
    unfold volKeys3
    have key : ∀ vol, vol ∈ iterVolumes3 m → ∃ keys,
        (match evalP (orbit3 m.n .volume vol) m with
        | none => none
        | some ds =>
          match mapO (fun d => evalP (faceId3 m.n d) m) ds with
          | none => none
          | some fids =>
            match mapO (fun d => ((reader3 m).walk d).bind
                (fun w => mapO (reader3 m).rowOfDart (w ++ [d]))) (uniqueByKey (ds.zip fids) []),
              mapO (reader3 m).rowOfDart ds with
            | some _, some rows => some (rows.map (fun r => (vol, r)))
            | _, _ => none) = some keys := by
      intro vol hvol
      obtain ⟨h1, h2, h3, _⟩ := (C03.mem_iterCells m _ vol).1 hvol
      have hvu : InUse m vol := ⟨h2, h1, h3⟩
      obtain ⟨ds, hds, hmem⟩ := volume_orbit_eq hwf h2 h1
      have hdsu : ∀ d, d ∈ ds → InUse m d := fun d hd =>
        reach_gVol_inUse hwf hvu ((hmem d).1 hd).2 ((hmem d).1 hd).1
      obtain ⟨fids, hfids⟩ := mapO_isSome (f := fun d => evalP (faceId3 m.n d) m) (l := ds)
        fun d hd => ⟨_, evalP_of_run (run_faceId3_eq hwf hcl hM hs (hdsu d hd))⟩
      obtain ⟨x1, hx1⟩ := mapO_isSome (f := fun d => ((reader3 m).walk d).bind
          (fun w => mapO (reader3 m).rowOfDart (w ++ [d]))) (l := uniqueByKey (ds.zip fids) []) (by
        intro d hd
        obtain ⟨k, hk⟩ := uniqueByKey_subset _ _ _ hd
        have hdu := hdsu d (List.of_mem_zip hk).1
        rw [walk3_eq hwf hdu.1 hdu.2.1]
        simp only [Option.bind_some]
        apply mapO_isSome
        intro y hy
        rcases List.mem_append.1 hy with hy | hy
        · exact (lookups3_inUse hwf ((walkB_cycle hwf (by omega) hcl hdu).2.2.2.2 y hy)).1
        · simp only [List.mem_singleton] at hy
          rw [hy]; exact (lookups3_inUse hwf hdu).1)
      obtain ⟨rows, hrows⟩ := mapO_isSome (f := (reader3 m).rowOfDart) (l := ds)
        fun d hd => (lookups3_inUse hwf (hdsu d hd)).1
      rw [hds]
      simp only [hfids, hx1, hrows]
      exact ⟨_, rfl⟩
    obtain ⟨per, hper⟩ := mapO_isSome key
    refine ⟨per.flatten, ?_⟩
    rw [Option.map_eq_some_iff]
    exact ⟨per, hper, rfl⟩
  obtain ⟨k, hk⟩ := hvk
  unfold extract3
  simp only [h0, hk]
  exact ⟨_, rfl⟩

end NoPanic3

/-! ## non-vacuity -/

theorem exP_closed : ClosedFaces exP := by decide
theorem exP_mirror : Mirror exP := exP_wf.2
theorem exP_sided : Sided exP := by decide
theorem exP_inUse1 : InUse exP 1 := by decide

example : cycleB exP 1 = [1, 2, 3] ∧ cycleB exP 4 = [4, 5, 6] ∧ periodB exP 1 = 3 := by decide +kernel
example : walkB exP 1 = List.iterate (exP.β 1) 1 (walkB exP 1).length ∧ (exP.β 1)^[(walkB exP 1).length] 1 = 1 :=
  let h := walkB_cycle exP_wf.1 (by omega) exP_closed exP_inUse1
  ⟨h.1, h.2.2.2.1⟩
-- dart 4 lies on the SECOND side of face 1: its end row 0 is the row of the vertex of β1 4 = 5 (point A)
example : ∃ v' x, evalP (vertexId3 exP.n (exP.β 1 4)) exP = some v' ∧
    rowOf (iterVertices3 exP) v' = some 0 ∧ exPScene.table[0]? = some x ∧ exP.att 0 v' = some x :=
  C20_3d_dart_end exP_wf.1 exP_closed exP_scene (e := ⟨4, 2, 1, 1, 4, 1, 0⟩) (by decide)
example : (exP.β 1)^[3] 1 = 1 ∧ (List.iterate (exP.β 1) 1 3).Nodup :=
  let h := (C20_3d_face_corners exP_wf.1 exP_closed exP_scene).2 1 [0, 1, 2] (by decide)
  ⟨h.2.1, h.2.2.1⟩
example : faceDarts exP 1 = [1, 2, 3, 4, 5, 6] := by decide +kernel
example : exPScene.darts.map (fun e => (e.f, e.d)) =
    (iterFaces3 exP).flatMap (fun f => (faceDarts exP f).map (fun d => (f, d))) :=
  C20_3d_dart_entities_of_face exP_wf.1 exP_closed exP_scene
example : iterFaces3 exP = [1] := by decide +kernel
-- second side = mirror of the first: β1 (β3 1) = 5 = β3 (β0 1) = β3 3
example : (exP.β 1)^[1] (exP.β 3 1) = exP.β 3 ((exP.β 0)^[1] 1) :=
  (C20_3d_second_side_is_mirror exP_wf.1 exP_closed exP_mirror exP_sided exP_inUse1 (by decide)).1 1
example : 5 ∈ cycleB exP (exP.β 3 1) ↔ ∃ y, y ∈ cycleB exP 1 ∧ 5 = exP.β 3 y :=
  (C20_3d_second_side_is_mirror exP_wf.1 exP_closed exP_mirror exP_sided exP_inUse1 (by decide)).2 5
example : 6 ∈ faceDarts exP 1 ↔ 6 ≠ 0 ∧ Reach (fun y => [exP.β 1 y, exP.β 0 y, exP.β 3 y]) 1 6 :=
  C20_3d_face_darts_are_the_face_orbit exP_wf.1 exP_closed exP_mirror exP_sided exP_inUse1 6
example : (faceDarts exP 1).Nodup :=
  C20_3d_face_darts_nodup exP_wf.1 exP_closed exP_inUse1 (by decide +kernel)
example : exPScene.fnKeys = exPScene.faces.flatMap (fun p => p.2.map (fun r => (p.1, r))) :=
  C20_3d_face_normal_keys exP_scene
example : exTScene.fnKeys = exTScene.faces.flatMap (fun p => p.2.map (fun r => (p.1, r))) :=
  C20_face_normal_keys exT_scene
-- volume 4 (the second side, a volume of its own) reaches dart 5, whose vertex A sits in row 0
example : ∃ ks, exPScene.vnKeys = some ks ∧ ((4, 0) ∈ ks ↔ 4 ∈ iterVolumes3 exP ∧
    ∃ d, d ≠ 0 ∧ Reach (gVol exP) 4 d ∧ (reader3 exP).rowOfDart d = some 0) := by
  obtain ⟨ks, h1, h2⟩ := C20_3d_volume_normal_keys exP_wf.1 exP_scene
  exact ⟨ks, h1, h2 4 0⟩
example : exPScene.vnKeys = some [(1, 0), (1, 1), (1, 2), (4, 1), (4, 0), (4, 2)] := rfl

/-- a square folded onto itself: `β3` pairs `1↔2`, `3↔4` on the ONE β1-cycle `1 2 3 4` — well-formed
    and mirrored, but `three_link` refuses it; the scene has every dart entity twice -/
def exSelf : Map Val :=
  { n := 5
    b := #[#[0, 4, 1, 2, 3], #[0, 2, 3, 4, 1], #[0, 0, 0, 0, 0], #[0, 2, 1, 4, 3]]
    u := #[false, false, false, false, false]
    a := #[#[none, some (.pt 0 0 0), some (.pt 1 0 0), some (.pt 1 1 0), some (.pt 0 1 0)]] }

example : WF 4 exSelf ∧ Mirror exSelf ∧ Sided exSelf ∧ ClosedFaces exSelf := by decide
example : (faceDarts exSelf 1).count 3 = 2 :=
  C20_3d_self_glued_face_twice (m := exSelf) (by decide) (by decide) (by decide) (by decide)
    (by decide +kernel) (by decide +kernel)
example : faceDarts exSelf 1 = [1, 2, 3, 4, 2, 3, 4, 1] := by decide +kernel

-- `face_id` in 3-D: dart 5 (second side) has face id 1, the minimum over both sides
theorem exP_noSelfGlue : NoSelfGlue exP := by decide +kernel
example : faceMin exP 5 = 1 := by decide +kernel
example : run (faceId3 (X := Val) exP.n 5) exP = (.ok (faceMin exP 5), exP) :=
  run_faceId3_eq exP_wf.1 exP_closed exP_mirror exP_sided (by decide)
example : ∃ v, run (faceId3 (X := Val) exP.n 5) exP = (.ok v, exP) ∧ v ∈ faceDarts exP 5 ∧
    ∀ x, x ∈ faceDarts exP 5 → v ≤ x :=
  faceId3_min exP_wf.1 exP_closed exP_mirror exP_sided (by decide)
example : 1 ∈ iterFaces3 exP ↔ InUse exP 1 ∧ faceMin exP 1 = 1 :=
  mem_iterFaces3_iff exP_wf.1 exP_closed exP_mirror exP_sided 1
-- every in-use dart of the two-sided triangle has exactly one dart entity
example : (exPScene.darts.map (·.d)).Nodup ∧ ∀ d, d ∈ exPScene.darts.map (·.d) ↔ InUse exP d :=
  C20_3d_each_dart_once exP_wf.1 exP_closed exP_mirror exP_sided exP_noSelfGlue exP_scene
-- the self-glued square violates `NoSelfGlue`, and its scene has repeated darts
example : ¬ NoSelfGlue exSelf := by decide +kernel

-- the 3-D extraction does not panic on the two-sided triangle
example : ∃ sc, extract3 exP = some sc :=
  C20_3d_no_panic exP_wf.1 exP_closed (by decide) exP_mirror exP_sided (by decide +kernel)
example : ∃ v, (reader3 exP).vid 5 = some v ∧ v ∈ iterVertices3 exP := vid3_mem exP_wf.1 (by decide)

/-- a pentagon in a 3-map with a straight corner at dart 2 (a vertex in the middle of the side
    `(0,0,0)–(2,0,0)`): the configuration of finding D20a -/
def exStraight : Map Val :=
  { n := 6
    b := #[#[0, 5, 1, 2, 3, 4], #[0, 2, 3, 4, 5, 1], #[0, 0, 0, 0, 0, 0], #[0, 0, 0, 0, 0, 0]]
    u := #[false, false, false, false, false, false]
    a := #[#[none, some (.pt 0 0 0), some (.pt 1 0 0), some (.pt 2 0 0), some (.pt 2 1 1),
             some (.pt 0 1 1)]] }

def exStraightScene : Scene :=
  { table := [.pt 0 0 0, .pt 1 0 0, .pt 2 0 0, .pt 2 1 1, .pt 0 1 1]
    verts := [(1, 0), (2, 1), (3, 2), (4, 3), (5, 4)]
    edges := [(1, 0, 1), (2, 1, 2), (3, 2, 3), (4, 3, 4), (5, 4, 0)]
    faces := [(1, [0, 1, 2, 3, 4])]
    darts := [⟨1, 1, 1, 1, 1, 0, 1⟩, ⟨2, 2, 2, 1, 1, 1, 2⟩, ⟨3, 3, 3, 1, 1, 2, 3⟩,
              ⟨4, 4, 4, 1, 1, 3, 4⟩, ⟨5, 5, 5, 1, 1, 4, 0⟩]
    fnKeys := [(1, 0), (1, 1), (1, 2), (1, 3), (1, 4)]
    vnKeys := some [(1, 0), (1, 1), (1, 4), (1, 2), (1, 3)] }

theorem exStraight_scene : extract3 exStraight = some exStraightScene := by decide +kernel

-- the plane normal at corner 1 comes from the map's coordinates of the vertices of darts 1, 2, 3 …
example := C20_plane_normal_of_scene (m := exStraight) (by decide) (by decide) exStraight_scene
  (f := 1) (rows := [0, 1, 2, 3, 4]) (by decide) (i := 1) (by decide)
-- … and is the zero vector there (D20a), but not at corner 0
example : planeNormalAt exStraightScene.table [0, 1, 2, 3, 4] 1 = vzero := by decide +kernel
example : planeNormalAt exStraightScene.table [0, 1, 2, 3, 4] 0 ≠ vzero := by decide +kernel
example : cross3 (1, 0, 0) (1, 0, 0) = vzero ↔ ∃ t : Rat, ((1, 0, 0) : V3) = vsmul t (1, 0, 0) :=
  C20_D20a_zero_normal_iff (1, 0, 0) (1, 0, 0) (by decide)
example : ∃ t : Rat, ((1, 0, 0) : V3) = vsmul t (1, 0, 0) := ⟨1, by decide +kernel⟩
example : cross3 (vsub (1, 0, 0) (0, 0, 0)) (vsub (2, 0, 0) (1, 0, 0)) = vzero := by
  have := C20_D20a_straight_corner (0, 0, 0) (2, 0, 0) (1 / 2)
  have e : vadd ((0, 0, 0) : V3) (vsmul (1 / 2) (vsub (2, 0, 0) (0, 0, 0))) = (1, 0, 0) := by
    decide +kernel
  simp only [e] at this
  exact this
example : vadd (vsmul 1 (cross3 (1, 0, 0) (cross3 (1, 0, 0) (0, 1, 0))))
    (vsmul 1 (cross3 (0, 1, 0) (cross3 (1, 0, 0) (0, 1, 0)))) ≠ vzero :=
  C20_3d_normal_nonzero (1, 0, 0) (0, 1, 0) 1 1 (by decide) (by decide) (by decide +kernel)
-- 2-D: a straight corner is fine, a spike is not
example : ¬ ((1 : Rat) * 0 - 0 * 1 = 0 ∧ (1 : Rat) * 1 + 0 * 0 < 0) := by decide +kernel
example := (C20_2d_normal_nonzero_iff (1, 0) (-2, 0) (by decide) (by decide)).2 (by decide +kernel)
example := C20_2d_spike_zero (1, 0) 2 1 (1 / 2) (by decide +kernel)

end HC.C20
