/-
  C20, second part — the 3-D clauses and the normals.

  Hypotheses, where named: `WF 4 m` (C02's well-formedness), `ClosedFaces m` (every in-use dart has
  a β1 image), `Mirror m` (`Model/WF.lean`; preserved by every editing call, C02), `Sided m` (a face
  is 3-linked as a whole: `β3 d = 0 ↔ β3 (β1 d) = 0` — what `three_link` / `three_unlink` produce).

  PROVED
  * `walkB_cycle`                  (any dimension) the `Custom(&[1])` walk of an in-use dart on a closed
                                   face is its β1-cycle
  * `C20_3d_dart_end`              (WF, ClosedFaces) `end` of a dart entity is the row of
                                   `vertex_id(β1 d)` — for the darts of BOTH sides of a face
  * `C20_3d_face_corners`          (WF, ClosedFaces) the corner list of face `f` is
                                   `index_map ∘ vertex_id` over the β1-cycle `f, β1 f, …`
  * `C20_3d_dart_entities_of_face` (WF, ClosedFaces) the dart entities are, face after face, the
                                   β1-cycle of the face id followed — when `β3 f ≠ 0` — by the β1-cycle
                                   of `β3 f`, all tagged with `f`
  * `C20_3d_second_side_is_mirror` (+ Mirror, Sided) the second cycle is the β3-image of the first, in
                                   reverse order: `β1^i (β3 f) = β3 (β0^i f)`; same length
  * `C20_3d_face_darts_are_the_face_orbit`
                                   (+ Mirror, Sided) the darts that get an entity tagged `f` are exactly
                                   the non-null darts reachable from `f` through `β1, β0, β3`
                                   (the 3-D face orbit), i.e. one entity per dart of the face …
  * `C20_3d_face_darts_nodup`      … and none twice, provided `β3 f` is not on the β1-cycle of `f`
                                   (`C20_3d_self_glued_face_twice`: otherwise every dart appears TWICE)
  * normals, exact part over ℚ (see the section): `C20_D20a_zero_normal_iff`,
    `C20_D20a_straight_corner`, `C20_3d_normal_nonzero`, `C20_2d_normal_nonzero_iff`,
    `C20_plane_normal_of_scene`

  NOT PROVED here: see SPEC["not_proved"] of tools/props/c20.py.
-/
import Honeycomb.Props.C20
import Mathlib.Tactic.Ring
import Mathlib.Tactic.Linarith
import Mathlib.Tactic.FieldSimp

set_option linter.unusedSimpArgs false
set_option linter.unusedVariables false

namespace HC.C20
open HC

/-! ## the walk lemma in any dimension -/

/-- the BFS over the single image `β1`, from `d` (what `orbit(Custom(&[1]), d)` computes) -/
def walkB {X : Type} (m : Map X) (d : Nat) : List Nat :=
  bfsPure (fun x => [m.β 1 x]) (m.n + 1) [d] [0, d] []

theorem reach1_inUse {X : Type} {nb : Nat} {m : Map X} (hwf : WF nb m) (h2 : 2 ≤ nb) {d : Nat}
    (hd : InUse m d) {x : Nat} (hr : Reach (fun x => [m.β 1 x]) d x) (hx0 : x ≠ 0) : InUse m x := by
  induction hr with
  | refl => exact hd
  | tail hab hc ih =>
      rename_i b c
      simp only [List.mem_singleton] at hc
      have hb0 : b ≠ 0 := by
        intro e; rw [e, hwf.null 1 (by omega)] at hc; exact hx0 hc
      obtain ⟨_, hbn, _⟩ := ih hb0
      have hcn : c < m.n := by rw [hc]; exact hwf.range 1 (by omega) b hbn
      refine ⟨hx0, hcn, ?_⟩
      cases hu : m.unused c with
      | false => rfl
      | true =>
          exfalso
          have hfree := hwf.unusedFree c hcn hu 0 (by omega)
          have hinv := hwf.inv01 b hbn (by rw [← hc]; exact hx0)
          rw [← hc, hfree] at hinv
          exact hb0 hinv.symm

/-- **walk lemma** (any number of β rows): on a well-formed map with closed faces, the
    `Custom(&[1])` orbit of an in-use dart `d` is `d, β1 d, …, β1^(k-1) d` with `k ≥ 1` darts, all
    distinct and in use, and `β1^k d = d` -/
theorem walkB_cycle {X : Type} {nb : Nat} {m : Map X} (hwf : WF nb m) (h2 : 2 ≤ nb)
    (hcl : ClosedFaces m) {d : Nat} (hd : InUse m d) :
    walkB m d = List.iterate (m.β 1) d (walkB m d).length ∧ 0 < (walkB m d).length ∧
    (walkB m d).Nodup ∧ (m.β 1)^[(walkB m d).length] d = d ∧ ∀ x, x ∈ walkB m d → InUse m x := by
  obtain ⟨hd0, hdn, hdu⟩ := hd
  have h0 : ∀ y, y ∈ (fun x => [m.β 1 x]) 0 → y = 0 := by
    intro y hy; simp only [List.mem_singleton] at hy; rw [hy]; exact hwf.null 1 (by omega)
  have hr : ∀ a, a < m.n → ∀ y, y ∈ (fun x => [m.β 1 x]) a → y < m.n := by
    intro a ha y hy; simp only [List.mem_singleton] at hy; rw [hy]; exact hwf.range 1 (by omega) a ha
  obtain ⟨hhead, hnd, hno0, hmem, hlt⟩ := bfsPure_spec h0 hr hd0 hdn
  change (walkB m d).head? = some d at hhead
  change (walkB m d).Nodup at hnd
  change 0 ∉ walkB m d at hno0
  change ∀ x, x ∈ walkB m d ↔ x ≠ 0 ∧ Reach (fun x => [m.β 1 x]) d x at hmem
  change ∀ x, x ∈ walkB m d → x < m.n at hlt
  obtain ⟨k, hk⟩ := bfsPure_chain (m.β 1) (m.n + 1) d [0, d] []
  have hk' : walkB m d = List.iterate (m.β 1) d k := by
    show bfsPure (fun x => [m.β 1 x]) (m.n + 1) [d] [0, d] [] = _
    rw [hk]; rfl
  have hlen : (walkB m d).length = k := by rw [hk', List.length_iterate]
  have hk0 : 0 < k := by
    cases k with
    | zero => rw [hk'] at hhead; simp [List.iterate] at hhead
    | succ k => omega
  have hin : ∀ x, x ∈ walkB m d → InUse m x := fun x hx =>
    reach1_inUse hwf h2 ⟨hd0, hdn, hdu⟩ ((hmem x).1 hx).2 ((hmem x).1 hx).1
  refine ⟨by rw [hlen]; exact hk', by omega, hnd, ?_, hin⟩
  rw [hlen]
  have hx : (m.β 1)^[k - 1] d ∈ walkB m d := by
    rw [hk', List.mem_iterate]; exact ⟨k - 1, by omega, rfl⟩
  obtain ⟨hx0, hxn, hxu⟩ := hin _ hx
  have hs0 : m.β 1 ((m.β 1)^[k - 1] d) ≠ 0 := hcl _ hxn hx0 hxu
  have hsk : m.β 1 ((m.β 1)^[k - 1] d) = (m.β 1)^[k] d := by
    rw [← Function.iterate_succ_apply' (m.β 1) (k - 1) d]
    congr 1; omega
  have hs : (m.β 1)^[k] d ∈ walkB m d := by
    rw [hmem]
    refine ⟨by rw [← hsk]; exact hs0, ?_⟩
    refine ((hmem _).1 hx).2.tail ?_
    rw [← hsk]; simp
  rw [hk', List.mem_iterate] at hs
  obtain ⟨j, hj, hje⟩ := hs
  cases j with
  | zero => simpa using hje
  | succ j =>
      exfalso
      have e1 : (m.β 1)^[j + 1] d = m.β 1 ((m.β 1)^[j] d) := Function.iterate_succ_apply' _ _ _
      have hy : (m.β 1)^[j] d ∈ walkB m d := by
        rw [hk', List.mem_iterate]; exact ⟨j, by omega, rfl⟩
      obtain ⟨_, hyn, _⟩ := hin _ hy
      have hne : m.β 1 ((m.β 1)^[j] d) ≠ 0 := by rw [← e1, ← hje, ← hsk]; exact hs0
      have i1 := hwf.inv01 _ hxn hs0
      have i2 := hwf.inv01 _ hyn hne
      have e2 : (m.β 1)^[k - 1] d = (m.β 1)^[j] d := by
        rw [← i1, ← i2, hsk, hje, e1]
      rw [hk'] at hnd
      have g1 : (List.iterate (m.β 1) d k)[k - 1]'(by simp; omega) = (m.β 1)^[k - 1] d :=
        List.getElem_iterate _ _ _ _ _
      have g2 : (List.iterate (m.β 1) d k)[j]'(by simp; omega) = (m.β 1)^[j] d :=
        List.getElem_iterate _ _ _ _ _
      have := (List.Nodup.getElem_inj_iff hnd).1 (g1.trans (e2.trans g2.symm))
      omega

/-- the cyclic successor inside the walk is the β1-image -/
theorem walkB_succ {X : Type} {nb : Nat} {m : Map X} (hwf : WF nb m) (h2 : 2 ≤ nb)
    (hcl : ClosedFaces m) {d : Nat} (hd : InUse m d) {i x y : Nat} (hx : (walkB m d)[i]? = some x)
    (hy : (walkB m d)[(i + 1) % (walkB m d).length]? = some y) : y = m.β 1 x := by
  obtain ⟨hit, hpos, _, hcyc, _⟩ := walkB_cycle hwf h2 hcl hd
  generalize hk : (walkB m d).length = k at *
  have hi : i < k := by
    have := (List.getElem?_eq_some_iff.1 hx).1; omega
  have gx : x = (m.β 1)^[i] d := by
    rw [hit] at hx
    obtain ⟨h1, h2⟩ := List.getElem?_eq_some_iff.1 hx
    rw [← h2]; exact List.getElem_iterate _ _ _ _ _
  by_cases h1 : i + 1 < k
  · rw [Nat.mod_eq_of_lt h1, hit] at hy
    obtain ⟨h2, h3⟩ := List.getElem?_eq_some_iff.1 hy
    rw [← h3, List.getElem_iterate, gx]
    exact Function.iterate_succ_apply' _ _ _
  · have h2 : i + 1 = k := by omega
    rw [h2, Nat.mod_self, hit] at hy
    obtain ⟨h3, h4⟩ := List.getElem?_eq_some_iff.1 hy
    rw [← h4, List.getElem_iterate, gx, ← Function.iterate_succ_apply' (m.β 1) i d,
      show i.succ = k by omega, hcyc]
    rfl

/-- number of darts of the β1-cycle of `d` -/
def periodB {X : Type} (m : Map X) (d : Nat) : Nat := (walkB m d).length

/-- the β1-cycle of `d`, as a list starting at `d` -/
def cycleB {X : Type} (m : Map X) (d : Nat) : List Nat := List.iterate (m.β 1) d (periodB m d)

theorem cycleB_eq {X : Type} {nb : Nat} {m : Map X} (hwf : WF nb m) (h2 : 2 ≤ nb)
    (hcl : ClosedFaces m) {d : Nat} (hd : InUse m d) : walkB m d = cycleB m d :=
  (walkB_cycle hwf h2 hcl hd).1

/-- `periodB m d` is the least positive period of `β1` at `d`; the cycle's darts are in use -/
theorem periodB_spec {X : Type} {nb : Nat} {m : Map X} (hwf : WF nb m) (h2 : 2 ≤ nb)
    (hcl : ClosedFaces m) {d : Nat} (hd : InUse m d) :
    0 < periodB m d ∧ (m.β 1)^[periodB m d] d = d ∧ (cycleB m d).Nodup ∧
    ∀ x, x ∈ cycleB m d → InUse m x := by
  obtain ⟨hit, hpos, hnd, hcyc, hin⟩ := walkB_cycle hwf h2 hcl hd
  unfold cycleB periodB
  exact ⟨hpos, hcyc, by rw [← hit]; exact hnd, by rw [← hit]; exact hin⟩

/-! ## 3-D: what the reader computes on a well-formed map -/

section ThreeD
variable {m : Map Val} {sc : Scene}

theorem okb4 (hwf : WF 4 m) {i x : Nat} (hi : i < 4) (hx : x < m.n) : m.okβ i x = true :=
  (hwf.toSized.okβ i x).2 ⟨hi, hx⟩

theorem run_gen3_custom1 (hwf : WF 4 m) {x : Nat} (hx : x < m.n) :
    run (gen3 (X := Val) (.custom [1]) x) m = (.ok [m.β 1 x], m) := by
  simp [gen3, gen3.go, run_rB, okb4 hwf (by omega : 1 < 4) hx]

theorem walk3_eq (hwf : WF 4 m) {d : Nat} (hd0 : d ≠ 0) (hdn : d < m.n) :
    (reader3 m).walk d = some (walkB m d) := by
  have hr : ∀ a, a < m.n → ∀ y, y ∈ (fun x => [m.β 1 x]) a → y < m.n := by
    intro a ha y hy; simp only [List.mem_singleton] at hy; rw [hy]; exact hwf.range 1 (by omega) a ha
  exact evalP_of_run (run_orbitWith (gen := gen3 (.custom [1])) (g := fun x => [m.β 1 x])
    (fun x hx => run_gen3_custom1 hwf hx) hr hd0 hdn)

/-- the orbit of the null dart is `[0]` -/
theorem walk3_zero (hwf : WF 4 m) : (reader3 m).walk 0 = some [0] := by
  have h0 := run_gen3_custom1 hwf hwf.npos
  have hb : m.β 1 0 = 0 := hwf.null 1 (by omega)
  show evalP (orbit3 m.n (.custom [1]) 0) m = some [0]
  apply evalP_of_run (m' := m)
  unfold orbit3 orbitWith
  rw [bfs]
  show run ((gen3 (.custom [1]) 0).bind _) m = _
  rw [run_bind, h0, hb]
  simp only [List.foldl_cons, List.foldl_nil, bfsCheck]
  cases m.n <;> simp [bfs]

theorem inUse_image4 (hwf : WF 4 m) {d i : Nat} (hd : InUse m d) (hi : i < 4) (hne : m.β i d ≠ 0) :
    InUse m (m.β i d) := by
  have hr := hwf.range i hi d hd.2.1
  refine ⟨hne, hr, ?_⟩
  cases hu : m.unused (m.β i d) with
  | false => rfl
  | true =>
      exfalso
      have hfree := hwf.unusedFree _ hr hu
      by_cases h1 : i = 1
      · subst h1
        have := hwf.inv01 d hd.2.1 hne
        rw [hfree 0 (by omega)] at this
        exact hd.1 this.symm
      · by_cases h0 : i = 0
        · subst h0
          have := hwf.inv10 d hd.2.1 hne
          rw [hfree 1 (by omega)] at this
          exact hd.1 this.symm
        · have := (hwf.invol i hi (by omega) d hd.2.1 hne).1
          rw [hfree i hi] at this
          exact hd.1 this.symm

/-- the second side of face `f`: nothing when `f` is 3-free, else the β1-cycle of `β3 f` -/
theorem side2_eq (hwf : WF 4 m) (hcl : ClosedFaces m) {f : Nat} (hf : InUse m f) :
    (reader3 m).side2 f = some (if m.β 3 f = 0 then [] else cycleB m (m.β 3 f)) := by
  show ((reader3 m).walk (m.β 3 f)).map (fun w => w.filter (· ≠ 0)) = _
  by_cases h3 : m.β 3 f = 0
  · rw [h3, walk3_zero hwf, if_pos rfl]; rfl
  · have hu := inUse_image4 hwf hf (by omega : 3 < 4) h3
    rw [walk3_eq hwf hu.1 hu.2.1, if_neg h3, cycleB_eq hwf (by omega) hcl hu]
    simp only [Option.map_some, Option.some.injEq]
    rw [List.filter_eq_self]
    intro x hx
    have := ((periodB_spec hwf (by omega) hcl hu).2.2.2 x hx).1
    simpa using this

theorem mem_iterFaces3_inUse {f : Nat} (hf : f ∈ iterFaces3 m) : InUse m f := by
  obtain ⟨h1, h2, h3, _⟩ := (C03.mem_iterCells m _ f).1 hf
  exact ⟨h2, h1, h3⟩

/-! ## C20, 3-D -/

/-- **C20 (3-D), dart entity: end** (closed faces): for the darts of both sides of a face, `end` is
    `index_map` of the vertex id of the successor `β1 d` — the table row with its coordinates -/
theorem C20_3d_dart_end (hwf : WF 4 m) (hcl : ClosedFaces m) (h : extract3 m = some sc)
    {e : DartEnt} (he : e ∈ sc.darts) :
    ∃ v' x, evalP (vertexId3 m.n (m.β 1 e.d)) m = some v' ∧
      rowOf (iterVertices3 m) v' = some e.t ∧ sc.table[e.t]? = some x ∧ m.att 0 v' = some x := by
  obtain ⟨sc0, k, h0, _, e1, _, _, _, e5, _⟩ := extract3_inv h
  rw [e5] at he
  obtain ⟨h1, _, _, _, _, w, w2, hw, hw2, hcase⟩ := dart_entity (R := reader3 m) h0 he
  have hf := mem_iterFaces3_inUse h1
  have hw' : w = walkB m e.f := by
    have := walk3_eq hwf hf.1 hf.2.1
    rw [hw] at this; exact Option.some.inj this
  have hw2' : w2 = if m.β 3 e.f = 0 then [] else cycleB m (m.β 3 e.f) := by
    have := side2_eq hwf hcl hf
    rw [hw2] at this; exact Option.some.inj this
  have fin : ∀ d', (reader3 m).rowOfDart d' = some e.t → d' = m.β 1 e.d →
      ∃ v' x, evalP (vertexId3 m.n (m.β 1 e.d)) m = some v' ∧
        rowOf (iterVertices3 m) v' = some e.t ∧ sc.table[e.t]? = some x ∧ m.att 0 v' = some x := by
    intro d' k3 hd'
    subst hd'
    obtain ⟨v, x, j1, j2, j3, j4⟩ := row_of_dart (R := reader3 m) h0 k3
    exact ⟨v, x, j1, j2, by rw [e1]; exact j3, j4⟩
  rcases hcase with ⟨i, d', k1, k2, k3⟩ | ⟨i, d', k1, k2, k3⟩
  · subst hw'
    exact fin d' k3 (walkB_succ hwf (by omega) hcl hf k1 k2)
  · by_cases h3 : m.β 3 e.f = 0
    · rw [if_pos h3] at hw2'; subst hw2'; simp at k1
    · rw [if_neg h3] at hw2'
      have hu := inUse_image4 hwf hf (by omega : 3 < 4) h3
      rw [← cycleB_eq hwf (by omega) hcl hu] at hw2'
      subst hw2'
      exact fin d' k3 (walkB_succ hwf (by omega) hcl hu k1 k2)

/-- **C20 (3-D), face entities** (closed faces): the corner list of face `f` has as many entries as
    the β1-cycle of `f` has darts (`β1^k f = f`, the `k` darts distinct, `k ≥ 2`), and its `i`-th
    entry is `index_map` of the vertex id of `β1^i f` — the table row with that corner's coordinates -/
theorem C20_3d_face_corners (hwf : WF 4 m) (hcl : ClosedFaces m) (h : extract3 m = some sc) :
    sc.faces.map (·.1) = iterFaces3 m ∧
    ∀ f rows, (f, rows) ∈ sc.faces →
      2 ≤ rows.length ∧ (m.β 1)^[rows.length] f = f ∧ (List.iterate (m.β 1) f rows.length).Nodup ∧
      ∀ i r, rows[i]? = some r →
        ∃ v x, evalP (vertexId3 m.n ((m.β 1)^[i] f)) m = some v ∧
          rowOf (iterVertices3 m) v = some r ∧ sc.table[r]? = some x ∧ m.att 0 v = some x := by
  obtain ⟨sc0, k, h0, _, e1, _, _, e4, _⟩ := extract3_inv h
  obtain ⟨h1, h2⟩ := face_entities (R := reader3 m) h0
  rw [e4]
  refine ⟨h1, ?_⟩
  intro f rows hm
  obtain ⟨hf, hlen, w, hw, hall⟩ := h2 f rows hm
  have hfu := mem_iterFaces3_inUse hf
  have hw' : w = walkB m f := by
    have := walk3_eq hwf hfu.1 hfu.2.1
    have hw0 : (reader3 m).walk f = some w := hw
    rw [hw0] at this; exact Option.some.inj this
  subst hw'
  obtain ⟨hit, hpos, hnd, hcyc, _⟩ := walkB_cycle hwf (by omega) hcl hfu
  have hl : (walkB m f).length = rows.length := hall.length_eq
  refine ⟨hlen, by rw [← hl]; exact hcyc, by rw [← hl, ← hit]; exact hnd, ?_⟩
  intro i r hr
  have hi : i < rows.length := (List.getElem?_eq_some_iff.1 hr).1
  have hi' : i < (walkB m f).length := by omega
  have hrel := (List.forall₂_iff_get.1 hall).2 i hi' hi
  have e1' : rows.get ⟨i, hi⟩ = r := by
    have := (List.getElem?_eq_some_iff.1 hr).2; simpa using this
  have e2 : (walkB m f).get ⟨i, hi'⟩ = (m.β 1)^[i] f := by
    show (walkB m f)[i] = _
    have : (walkB m f)[i] = (List.iterate (m.β 1) f (walkB m f).length)[i]'(by simp; omega) := by
      congr 1
    rw [this]; exact List.getElem_iterate _ _ _ _ _
  rw [e1', e2] at hrel
  obtain ⟨v, x, j1, j2, j3, j4⟩ := row_of_dart (R := reader3 m) h0 hrel
  exact ⟨v, x, j1, j2, by rw [e1]; exact j3, j4⟩

/-- the darts that get an entity tagged with face `f`: the β1-cycle of `f`, then that of `β3 f` -/
def faceDarts (m : Map Val) (f : Nat) : List Nat :=
  cycleB m f ++ (if m.β 3 f = 0 then [] else cycleB m (m.β 3 f))

/-- **C20 (3-D), dart entities, face by face** (closed faces): the dart entities are, in spawn order
    and face after face in `iter_faces` order, the darts of the β1-cycle of the face id `f` followed —
    when `f` is 3-linked — by the darts of the β1-cycle of `β3 f`, all tagged with `f` -/
theorem C20_3d_dart_entities_of_face (hwf : WF 4 m) (hcl : ClosedFaces m)
    (h : extract3 m = some sc) :
    sc.darts.map (fun e => (e.f, e.d)) =
      (iterFaces3 m).flatMap (fun f => (faceDarts m f).map (fun d => (f, d))) := by
  obtain ⟨sc0, k, h0, _, _, _, _, _, e5, _⟩ := extract3_inv h
  obtain ⟨fbs, _, e5', hall⟩ := face_blocks (R := reader3 m) h0
  rw [e5, e5', List.map_flatten, List.map_map, List.flatMap_def]
  congr 1
  symm
  refine forall₂_map_eq hall ?_
  intro f fb hf hfb
  have hfu := mem_iterFaces3_inUse hf
  obtain ⟨w, rows, d1, w2, d2, hw, _, _, hd1, hs2, hd2, rfl⟩ := faceBundle_inv hfb
  have hw' : w = walkB m f := by
    have := walk3_eq hwf hfu.1 hfu.2.1
    have hw0 : (reader3 m).walk f = some w := hw
    rw [hw0] at this; exact Option.some.inj this
  have hw2' : w2 = if m.β 3 f = 0 then [] else cycleB m (m.β 3 f) := by
    have := side2_eq hwf hcl hfu
    rw [hs2] at this; exact Option.some.inj this
  subst hw'
  simp only [Function.comp, List.map_append]
  rw [dartBundles_map_fd hd1, dartBundles_map_fd hd2, hw2', cycleB_eq hwf (by omega) hcl hfu]
  unfold faceDarts
  rw [List.map_append]

end ThreeD

/-! ## cycles of β1: membership, symmetry, closure under β1 and β0 -/

section Cycles
variable {X : Type} {nb : Nat} {m : Map X}

theorem reach_iterate (m : Map X) (x : Nat) : ∀ j, Reach (fun y => [m.β 1 y]) x ((m.β 1)^[j] x) := by
  intro j
  induction j with
  | zero => exact .refl _
  | succ j ih =>
      rw [Function.iterate_succ_apply']
      exact ih.tail (by simp)

theorem mem_cycleB_iff (hwf : WF nb m) (h2 : 2 ≤ nb) (hcl : ClosedFaces m) {d : Nat}
    (hd : InUse m d) (x : Nat) :
    x ∈ cycleB m d ↔ x ≠ 0 ∧ Reach (fun y => [m.β 1 y]) d x := by
  rw [← cycleB_eq hwf h2 hcl hd]
  have h0 : ∀ y, y ∈ (fun x => [m.β 1 x]) 0 → y = 0 := by
    intro y hy; simp only [List.mem_singleton] at hy; rw [hy]; exact hwf.null 1 (by omega)
  have hr : ∀ a, a < m.n → ∀ y, y ∈ (fun x => [m.β 1 x]) a → y < m.n := by
    intro a ha y hy; simp only [List.mem_singleton] at hy; rw [hy]; exact hwf.range 1 (by omega) a ha
  exact (bfsPure_spec h0 hr hd.1 hd.2.1).2.2.2.1 x

theorem mem_cycleB_iterate (hwf : WF nb m) (h2 : 2 ≤ nb) (hcl : ClosedFaces m) {d : Nat}
    (hd : InUse m d) (j : Nat) : (m.β 1)^[j] d ∈ cycleB m d := by
  rw [mem_cycleB_iff hwf h2 hcl hd]
  refine ⟨?_, reach_iterate m d j⟩
  induction j with
  | zero => exact hd.1
  | succ j ih =>
      rw [Function.iterate_succ_apply']
      have := reach1_inUse hwf h2 hd (reach_iterate m d j) ih
      exact hcl _ this.2.1 this.1 this.2.2

theorem self_mem_cycleB (hwf : WF nb m) (h2 : 2 ≤ nb) (hcl : ClosedFaces m) {d : Nat}
    (hd : InUse m d) : d ∈ cycleB m d := mem_cycleB_iterate hwf h2 hcl hd 0

/-- a dart of the cycle of `d` has `d` on its own cycle -/
theorem reach_back (hwf : WF nb m) (h2 : 2 ≤ nb) (hcl : ClosedFaces m) {d x : Nat}
    (hd : InUse m d) (hx : x ∈ cycleB m d) : Reach (fun y => [m.β 1 y]) x d := by
  obtain ⟨hpos, hcyc, _, _⟩ := periodB_spec hwf h2 hcl hd
  unfold cycleB at hx
  rw [List.mem_iterate] at hx
  obtain ⟨j, hj, rfl⟩ := hx
  have : (m.β 1)^[periodB m d - j] ((m.β 1)^[j] d) = d := by
    rw [← Function.iterate_add_apply, show periodB m d - j + j = periodB m d by omega, hcyc]
  have r := reach_iterate m ((m.β 1)^[j] d) (periodB m d - j)
  rw [this] at r
  exact r

/-- the cycles of two darts of the same cycle have the same darts -/
theorem cycleB_congr (hwf : WF nb m) (h2 : 2 ≤ nb) (hcl : ClosedFaces m) {d x : Nat}
    (hd : InUse m d) (hx : x ∈ cycleB m d) (y : Nat) : y ∈ cycleB m x ↔ y ∈ cycleB m d := by
  have hxu := (periodB_spec hwf h2 hcl hd).2.2.2 x hx
  rw [mem_cycleB_iff hwf h2 hcl hxu, mem_cycleB_iff hwf h2 hcl hd]
  have h1 := ((mem_cycleB_iff hwf h2 hcl hd x).1 hx).2
  have h3 := reach_back hwf h2 hcl hd hx
  exact ⟨fun ⟨a, b⟩ => ⟨a, h1.trans b⟩, fun ⟨a, b⟩ => ⟨a, h3.trans b⟩⟩

/-- the cycle is closed under `β1` and under `β0` -/
theorem cycleB_closed (hwf : WF nb m) (h2 : 2 ≤ nb) (hcl : ClosedFaces m) {d x : Nat}
    (hd : InUse m d) (hx : x ∈ cycleB m d) :
    m.β 1 x ∈ cycleB m d ∧ m.β 0 x ∈ cycleB m d ∧ m.β 0 x ≠ 0 := by
  obtain ⟨hpos, hcyc, _, hin⟩ := periodB_spec hwf h2 hcl hd
  have hxu := hin x hx
  have h1 : m.β 1 x ∈ cycleB m d := by
    rw [← cycleB_congr hwf h2 hcl hd hx]
    exact mem_cycleB_iterate hwf h2 hcl hxu 1
  -- `β0 x` is the last dart of the cycle of `x`
  obtain ⟨hposx, hcycx, _, hinx⟩ := periodB_spec hwf h2 hcl hxu
  have hlast := mem_cycleB_iterate hwf h2 hcl hxu (periodB m x - 1)
  have hlu := hinx _ hlast
  have e : m.β 1 ((m.β 1)^[periodB m x - 1] x) = x := by
    rw [← Function.iterate_succ_apply' (m.β 1), show (periodB m x - 1).succ = periodB m x by omega, hcycx]
  have e0 : m.β 0 x = (m.β 1)^[periodB m x - 1] x := by
    have := hwf.inv01 _ hlu.2.1 (by rw [e]; exact hxu.1)
    rw [e] at this; exact this
  rw [e0]
  exact ⟨h1, (cycleB_congr hwf h2 hcl hd hx _).1 hlast, hlu.1⟩

/-- `β0^i` undoes `β1^i` on in-use darts of closed faces -/
theorem b0_iter_b1_iter (hwf : WF nb m) (h2 : 2 ≤ nb) (hcl : ClosedFaces m) :
    ∀ (i z : Nat), InUse m z → (m.β 0)^[i] ((m.β 1)^[i] z) = z := by
  intro i
  induction i with
  | zero => intro z _; rfl
  | succ i ih =>
      intro z hz
      have hw := (periodB_spec hwf h2 hcl hz).2.2.2 _ (mem_cycleB_iterate hwf h2 hcl hz i)
      have hne := hcl _ hw.2.1 hw.1 hw.2.2
      rw [Function.iterate_succ_apply, Function.iterate_succ_apply', hwf.inv01 _ hw.2.1 hne]
      exact ih z hz

/-- `β0^i f` is a dart of the cycle of `f` -/
theorem b0_iter_mem (hwf : WF nb m) (h2 : 2 ≤ nb) (hcl : ClosedFaces m) {d : Nat} (hd : InUse m d) :
    ∀ i, (m.β 0)^[i] d ∈ cycleB m d := by
  intro i
  induction i with
  | zero => exact self_mem_cycleB hwf h2 hcl hd
  | succ i ih =>
      rw [Function.iterate_succ_apply']
      exact (cycleB_closed hwf h2 hcl hd ih).2.1

end Cycles

/-! ## 3-D: the second side is the mirror image of the first -/

/-- a face is 3-linked as a whole (what `three_link` / `three_unlink` produce and C02's walks keep) -/
def Sided {X : Type} (m : Map X) : Prop :=
  ∀ d, d < m.n → m.β 1 d ≠ 0 → (m.β 3 d = 0 ↔ m.β 3 (m.β 1 d) = 0)

instance {X : Type} (m : Map X) : Decidable (Sided m) := by unfold Sided; exact inferInstance

section Mirror3
variable {m : Map Val} {sc : Scene}

/-- all darts of a cycle are 3-linked, or none -/
theorem sided_cycle (hwf : WF 4 m) (hcl : ClosedFaces m) (hs : Sided m) {f x : Nat} (hf : InUse m f)
    (hx : x ∈ cycleB m f) : m.β 3 x = 0 ↔ m.β 3 f = 0 := by
  unfold cycleB at hx
  rw [List.mem_iterate] at hx
  obtain ⟨j, hj, rfl⟩ := hx
  clear hj
  induction j with
  | zero => rfl
  | succ j ih =>
      rw [Function.iterate_succ_apply']
      have hu := (periodB_spec hwf (by omega) hcl hf).2.2.2 _ (mem_cycleB_iterate hwf (by omega) hcl hf j)
      rw [← hs _ hu.2.1 (hcl _ hu.2.1 hu.1 hu.2.2)]
      exact ih

/-- one step of the mirror condition, read at `y = β1 d` -/
theorem mirror_step (hwf : WF 4 m) (hcl : ClosedFaces m) (hM : Mirror m) (hs : Sided m) {y : Nat}
    (hy : InUse m y) (h3 : m.β 3 y ≠ 0) : m.β 1 (m.β 3 y) = m.β 3 (m.β 0 y) := by
  obtain ⟨hb0m, hb0⟩ := (cycleB_closed hwf (by omega) hcl hy (self_mem_cycleB hwf (by omega) hcl hy)).2
  have hdu := (periodB_spec hwf (by omega) hcl hy).2.2.2 _ hb0m
  have e1 : m.β 1 (m.β 0 y) = y := hwf.inv10 y hy.2.1 hb0
  have h3d : m.β 3 (m.β 0 y) ≠ 0 := by
    intro e
    have := (hs _ hdu.2.1 (by rw [e1]; exact hy.1)).1 e
    rw [e1] at this; exact h3 this
  have := hM (m.β 0 y) hdu.2.1 (by rw [e1]; exact hy.1) h3d (by rw [e1]; exact h3)
  rw [e1] at this
  exact this

/-- **C20 (3-D), the second side is the mirror of the first** (closed, mirrored, wholly 3-linked
    faces): walking forward from `β3 f` is walking backward from `f` on the other side,
    `β1^i (β3 f) = β3 (β0^i f)`; hence the darts of the second cycle are exactly the β3-images of the
    darts of the first -/
theorem C20_3d_second_side_is_mirror (hwf : WF 4 m) (hcl : ClosedFaces m) (hM : Mirror m)
    (hs : Sided m) {f : Nat} (hf : InUse m f) (h3 : m.β 3 f ≠ 0) :
    (∀ i, (m.β 1)^[i] (m.β 3 f) = m.β 3 ((m.β 0)^[i] f)) ∧
    ∀ x, x ∈ cycleB m (m.β 3 f) ↔ ∃ y, y ∈ cycleB m f ∧ x = m.β 3 y := by
  have hin := (periodB_spec hwf (by omega) hcl hf).2.2.2
  have step : ∀ i, (m.β 1)^[i] (m.β 3 f) = m.β 3 ((m.β 0)^[i] f) := by
    intro i
    induction i with
    | zero => rfl
    | succ i ih =>
        have hy := hin _ (b0_iter_mem hwf (by omega) hcl hf i)
        have h3y : m.β 3 ((m.β 0)^[i] f) ≠ 0 := fun e =>
          h3 ((sided_cycle hwf hcl hs hf (b0_iter_mem hwf (by omega) hcl hf i)).1 e)
        rw [Function.iterate_succ_apply', ih, mirror_step hwf hcl hM hs hy h3y,
          ← Function.iterate_succ_apply' (m.β 0)]
  refine ⟨step, ?_⟩
  have hu3 := inUse_image4 hwf hf (by omega : 3 < 4) h3
  intro x
  constructor
  · intro hx
    unfold cycleB at hx
    rw [List.mem_iterate] at hx
    obtain ⟨j, _, rfl⟩ := hx
    exact ⟨_, b0_iter_mem hwf (by omega) hcl hf j, step j⟩
  · rintro ⟨y, hy, rfl⟩
    -- `y = β1^j f = β0^(k-j) f`
    obtain ⟨hpos, hcyc, _, _⟩ := periodB_spec hwf (by omega) hcl hf
    have hy' := hy
    unfold cycleB at hy'
    rw [List.mem_iterate] at hy'
    obtain ⟨j, hj, rfl⟩ := hy'
    have e : (m.β 0)^[periodB m f - j] f = (m.β 1)^[j] f := by
      have h1 : (m.β 1)^[periodB m f - j] ((m.β 1)^[j] f) = f := by
        rw [← Function.iterate_add_apply, show periodB m f - j + j = periodB m f by omega, hcyc]
      have := b0_iter_b1_iter hwf (by omega) hcl (periodB m f - j) _ (hin _ hy)
      rw [h1] at this
      exact this
    rw [← e, ← step]
    exact mem_cycleB_iterate hwf (by omega) hcl hu3 _

/-- **C20 (3-D), one entity per dart of the face** (closed, mirrored, wholly 3-linked faces): the
    darts that get an entity tagged `f` are exactly the non-null darts reachable from `f` through
    `β1`, `β0` and `β3` — the 3-D face orbit of `f` -/
theorem C20_3d_face_darts_are_the_face_orbit (hwf : WF 4 m) (hcl : ClosedFaces m) (hM : Mirror m)
    (hs : Sided m) {f : Nat} (hf : InUse m f) (x : Nat) :
    x ∈ faceDarts m f ↔ x ≠ 0 ∧ Reach (fun y => [m.β 1 y, m.β 0 y, m.β 3 y]) f x := by
  have hin := (periodB_spec hwf (by omega) hcl hf).2.2.2
  have sub : ∀ a b, Reach (fun y => [m.β 1 y]) a b → Reach (fun y => [m.β 1 y, m.β 0 y, m.β 3 y]) a b :=
    fun a b h => h.mono (fun x y hy => by simp only [List.mem_singleton] at hy; simp [hy])
  unfold faceDarts
  rw [List.mem_append]
  constructor
  · rintro (hx | hx)
    · obtain ⟨h0, hr⟩ := (mem_cycleB_iff hwf (by omega) hcl hf x).1 hx
      exact ⟨h0, sub _ _ hr⟩
    · by_cases h3 : m.β 3 f = 0
      · rw [if_pos h3] at hx; simp at hx
      · rw [if_neg h3] at hx
        obtain ⟨y, hy, rfl⟩ := ((C20_3d_second_side_is_mirror hwf hcl hM hs hf h3).2 x).1 hx
        have hu3 := inUse_image4 hwf hf (by omega : 3 < 4) h3
        refine ⟨((periodB_spec hwf (by omega) hcl hu3).2.2.2 _ hx).1, ?_⟩
        exact (sub _ _ ((mem_cycleB_iff hwf (by omega) hcl hf y).1 hy).2).tail (by simp)
  · rintro ⟨hx0, hr⟩
    induction hr with
    | refl => exact Or.inl (self_mem_cycleB hwf (by omega) hcl hf)
    | tail hab hc ih =>
        rename_i b c
        have hb0 : b ≠ 0 := by
          intro e
          simp only [e, hwf.null 1 (by omega), hwf.null 0 (by omega), hwf.null 3 (by omega),
            List.mem_cons, List.not_mem_nil, or_false, or_self] at hc
          exact hx0 hc
        simp only [List.mem_cons, List.not_mem_nil, or_false] at hc
        rcases ih hb0 with hb | hb
        · -- `b` on the first side
          obtain ⟨c1, c2, _⟩ := cycleB_closed hwf (by omega) hcl hf hb
          rcases hc with rfl | rfl | rfl
          · exact Or.inl c1
          · exact Or.inl c2
          · have h3 : m.β 3 f ≠ 0 := fun e => hx0 ((sided_cycle hwf hcl hs hf hb).2 e)
            rw [if_neg h3]
            exact Or.inr (((C20_3d_second_side_is_mirror hwf hcl hM hs hf h3).2 _).2 ⟨b, hb, rfl⟩)
        · -- `b` on the second side
          by_cases h3 : m.β 3 f = 0
          · rw [if_pos h3] at hb; simp at hb
          · rw [if_neg h3] at hb ⊢
            have hu3 := inUse_image4 hwf hf (by omega : 3 < 4) h3
            obtain ⟨c1, c2, _⟩ := cycleB_closed hwf (by omega) hcl hu3 hb
            rcases hc with rfl | rfl | rfl
            · exact Or.inr c1
            · exact Or.inr c2
            · obtain ⟨y, hy, rfl⟩ := ((C20_3d_second_side_is_mirror hwf hcl hM hs hf h3).2 b).1 hb
              have hyu := hin y hy
              have h3y : m.β 3 y ≠ 0 := fun e => h3 ((sided_cycle hwf hcl hs hf hy).1 e)
              rw [(hwf.invol 3 (by omega) (by omega) y hyu.2.1 h3y).1]
              exact Or.inl hy

/-- **C20 (3-D), no dart twice within a face**: if `β3 f` does not lie on the β1-cycle of `f`
    (always the case for faces built by `three_link`, which refuses to pair two darts of one cycle),
    the darts tagged `f` are pairwise distinct -/
theorem C20_3d_face_darts_nodup (hwf : WF 4 m) (hcl : ClosedFaces m) {f : Nat} (hf : InUse m f)
    (hns : m.β 3 f ∉ cycleB m f) : (faceDarts m f).Nodup := by
  unfold faceDarts
  by_cases h3 : m.β 3 f = 0
  · rw [if_pos h3, List.append_nil]; exact (periodB_spec hwf (by omega) hcl hf).2.2.1
  · rw [if_neg h3]
    have hu3 := inUse_image4 hwf hf (by omega : 3 < 4) h3
    rw [List.nodup_append]
    refine ⟨(periodB_spec hwf (by omega) hcl hf).2.2.1, (periodB_spec hwf (by omega) hcl hu3).2.2.1, ?_⟩
    intro a ha b hb hab
    subst hab
    -- `a` on both cycles: then `β3 f` is on the cycle of `f`
    apply hns
    rw [← cycleB_congr hwf (by omega) hcl hf ha]
    have hau := (periodB_spec hwf (by omega) hcl hf).2.2.2 a ha
    rw [mem_cycleB_iff hwf (by omega) hcl hau]
    exact ⟨h3, reach_back hwf (by omega) hcl hu3 hb⟩

/-- **C20 (3-D), a self-glued face is enumerated twice**: if `β3` pairs darts of ONE β1-cycle
    (well-formed and mirrored, but refused by `three_link`), every dart of the face gets two dart
    entities tagged `f` — the code walks the same cycle from `f` and from `β3 f` -/
theorem C20_3d_self_glued_face_twice (hwf : WF 4 m) (hcl : ClosedFaces m) {f : Nat} (hf : InUse m f)
    (h3 : m.β 3 f ≠ 0) (hself : m.β 3 f ∈ cycleB m f) {x : Nat} (hx : x ∈ cycleB m f) :
    (faceDarts m f).count x = 2 := by
  unfold faceDarts
  rw [if_neg h3, List.count_append]
  have hu3 := inUse_image4 hwf hf (by omega : 3 < 4) h3
  have hx2 : x ∈ cycleB m (m.β 3 f) := (cycleB_congr hwf (by omega) hcl hf hself x).2 hx
  rw [List.count_eq_one_of_mem (periodB_spec hwf (by omega) hcl hf).2.2.1 hx,
    List.count_eq_one_of_mem (periodB_spec hwf (by omega) hcl hu3).2.2.1 hx2]

end Mirror3

/-! ## normals: the exact (un-normalised) part over ℚ

  The 3-D system computes at every corner of a face, from `vec_in = p - p_in`, `vec_out = p_out - p`:
  `plane_normal = vec_in.cross(vec_out).normalize()` and then
  `(vec_in.cross(plane_normal).normalize() + vec_out.cross(plane_normal).normalize()).normalize()`.
  The 2-D system uses `Z` instead of `plane_normal`.  `normalize` of the zero vector is NaN in glam
  (`v * (1 / 0)` = `0 * inf`); that IEEE fact is the only thing not covered below.  What IS proved,
  exactly, over ℚ (any ordered field would do):
  * `C20_D20a_zero_normal_iff`   `vec_in × vec_out = 0` iff the two sides at the corner are linearly
                                 dependent (`vec_out = t • vec_in`, for `vec_in ≠ 0`)
  * `C20_D20a_straight_corner`   in particular at every straight corner (a vertex strictly inside a
                                 straight side) — finding D20a — and at every spike
  * `C20_3d_normal_nonzero`      conversely, if the plane normal is not zero then the vector handed to
                                 the last `normalize` is not zero, whatever positive weights the two
                                 inner normalisations contribute
  * `C20_2d_normal_nonzero_iff`, `C20_2d_spike_zero`
                                 2-D: the sum is zero for some positive weights iff the corner is a
                                 spike (`vec_out = -t • vec_in`, `t > 0`), and then it IS zero for the
                                 weights `1/|vec_in|, 1/|vec_out|` the code uses (`a = t * b`)
  * `C20_plane_normal_of_scene`  the plane normal the system computes from the table rows of a face
                                 entity is the cross product of the differences of the map's own
                                 coordinates of the vertices of `β1^(i-1) f, β1^i f, β1^(i+1) f`
-/

section Normals

abbrev V3 := Rat × Rat × Rat

def vsub (a b : V3) : V3 := (a.1 - b.1, a.2.1 - b.2.1, a.2.2 - b.2.2)
def vadd (a b : V3) : V3 := (a.1 + b.1, a.2.1 + b.2.1, a.2.2 + b.2.2)
def vsmul (t : Rat) (a : V3) : V3 := (t * a.1, t * a.2.1, t * a.2.2)
def vdot (a b : V3) : Rat := a.1 * b.1 + a.2.1 * b.2.1 + a.2.2 * b.2.2
/-- glam's `Vec3::cross` -/
def cross3 (u v : V3) : V3 :=
  (u.2.1 * v.2.2 - u.2.2 * v.2.1, u.2.2 * v.1 - u.1 * v.2.2, u.1 * v.2.1 - u.2.1 * v.1)

def vzero : V3 := (0, 0, 0)

theorem v3_ext {a b : V3} (h1 : a.1 = b.1) (h2 : a.2.1 = b.2.1) (h3 : a.2.2 = b.2.2) : a = b := by
  obtain ⟨a1, a2, a3⟩ := a
  obtain ⟨b1, b2, b3⟩ := b
  simp only at h1 h2 h3
  subst h1 h2 h3
  rfl

theorem v3_eq_iff {a b : V3} : a = b ↔ a.1 = b.1 ∧ a.2.1 = b.2.1 ∧ a.2.2 = b.2.2 :=
  ⟨fun h => by subst h; exact ⟨rfl, rfl, rfl⟩, fun ⟨h1, h2, h3⟩ => v3_ext h1 h2 h3⟩

/-- **D20a as a theorem**: the plane normal `vec_in × vec_out` of a corner whose incoming side is
    not degenerate is the zero vector exactly when the outgoing side is a multiple of the incoming
    one (the three points are collinear) -/
theorem C20_D20a_zero_normal_iff (u v : V3) (hu : u ≠ vzero) :
    cross3 u v = vzero ↔ ∃ t : Rat, v = vsmul t u := by
  obtain ⟨u1, u2, u3⟩ := u
  obtain ⟨v1, v2, v3⟩ := v
  simp only [cross3, vzero, vsmul, v3_eq_iff]
  constructor
  · rintro ⟨h1, h2, h3⟩
    by_cases k1 : u1 = 0
    · by_cases k2 : u2 = 0
      · have k3 : u3 ≠ 0 := by
          intro k3; apply hu; simp [vzero, k1, k2, k3]
        refine ⟨v3 / u3, ?_, ?_, ?_⟩
        · subst k1; field_simp; linarith
        · subst k2; field_simp; linarith
        · field_simp
      · refine ⟨v2 / u2, ?_, ?_, ?_⟩
        · field_simp; linarith
        · field_simp
        · field_simp; linarith
    · refine ⟨v1 / u1, ?_, ?_, ?_⟩
      · field_simp
      · field_simp; linarith
      · field_simp; linarith
  · rintro ⟨t, h1, h2, h3⟩
    subst h1 h2 h3
    refine ⟨by ring, by ring, by ring⟩

/-- **D20a, the straight corner**: if the corner `p` lies on the segment from `p_in` to `p_out`
    (`p = p_in + s • (p_out - p_in)`, any `s`: strictly inside for `0 < s < 1`, a spike outside), the
    plane normal the 3-D system normalises is the zero vector -/
theorem C20_D20a_straight_corner (pin pout : V3) (s : Rat) :
    let p := vadd pin (vsmul s (vsub pout pin))
    cross3 (vsub p pin) (vsub pout p) = vzero := by
  obtain ⟨a1, a2, a3⟩ := pin
  obtain ⟨b1, b2, b3⟩ := pout
  simp only [cross3, vzero, vsmul, vsub, vadd, v3_eq_iff]
  refine ⟨by ring, by ring, by ring⟩

theorem vdot_self_eq_zero {p : V3} (h : vdot p p = 0) : p = vzero := by
  obtain ⟨p1, p2, p3⟩ := p
  simp only [vdot] at h
  have a1 := mul_self_nonneg p1
  have a2 := mul_self_nonneg p2
  have a3 := mul_self_nonneg p3
  have e1 : p1 = 0 := mul_self_eq_zero.1 (by linarith)
  have e2 : p2 = 0 := mul_self_eq_zero.1 (by linarith)
  have e3 : p3 = 0 := mul_self_eq_zero.1 (by linarith)
  simp [vzero, e1, e2, e3]

/-- **the 3-D corner normal is well defined away from D20a**: if the plane normal `pn = u × v` is
    not zero, the vector `a • (u × pn) + b • (v × pn)` handed to the final `normalize` is not zero,
    for all positive weights `a, b` (the code's are `1/|u × pn|`, `1/|v × pn|`) -/
theorem C20_3d_normal_nonzero (u v : V3) (a b : Rat) (ha : 0 < a) (hb : 0 < b)
    (hpn : cross3 u v ≠ vzero) :
    vadd (vsmul a (cross3 u (cross3 u v))) (vsmul b (cross3 v (cross3 u v))) ≠ vzero := by
  intro h
  apply hpn
  apply vdot_self_eq_zero
  -- dot the equation with `v`: `(u × pn)·v = -|pn|²`, `(v × pn)·v = 0`
  have key : vdot (vadd (vsmul a (cross3 u (cross3 u v))) (vsmul b (cross3 v (cross3 u v)))) v
      = -(a * vdot (cross3 u v) (cross3 u v)) := by
    obtain ⟨u1, u2, u3⟩ := u
    obtain ⟨v1, v2, v3⟩ := v
    simp only [cross3, vsmul, vadd, vdot]
    ring
  rw [h] at key
  have z : vdot vzero v = 0 := by simp [vdot, vzero]
  rw [z] at key
  have : a * vdot (cross3 u v) (cross3 u v) = 0 := by linarith
  rcases mul_eq_zero.1 this with h1 | h1
  · exact absurd h1 (ne_of_gt ha)
  · exact h1

abbrev V2 := Rat × Rat
/-- `(x, y, 0) × Z = (y, -x, 0)` -/
def perp2 (u : V2) : V2 := (u.2, -u.1)

/-- **2-D corner normal**: for non-degenerate sides `u = vec_in`, `v = vec_out`, the sum
    `a • (u × Z) + b • (v × Z)` vanishes for some positive weights iff the corner is a spike: the
    sides are parallel (`u.x v.y = u.y v.x`) and point in opposite directions (`u·v < 0`).  A straight
    corner (`u·v > 0`) is fine in 2-D. -/
theorem C20_2d_normal_nonzero_iff (u v : V2) (hu : u ≠ (0, 0)) (hv : v ≠ (0, 0)) :
    (∃ a b : Rat, 0 < a ∧ 0 < b ∧
      (a * (perp2 u).1 + b * (perp2 v).1 = 0 ∧ a * (perp2 u).2 + b * (perp2 v).2 = 0)) ↔
    (u.1 * v.2 - u.2 * v.1 = 0 ∧ u.1 * v.1 + u.2 * v.2 < 0) := by
  obtain ⟨u1, u2⟩ := u
  obtain ⟨v1, v2⟩ := v
  simp only [perp2]
  have hu' : 0 < u1 * u1 + u2 * u2 := by
    rcases lt_or_eq_of_le (add_nonneg (mul_self_nonneg u1) (mul_self_nonneg u2)) with h | h
    · exact h
    · exfalso; apply hu
      have e1 : u1 = 0 := mul_self_eq_zero.1 (by linarith [mul_self_nonneg u1, mul_self_nonneg u2])
      have e2 : u2 = 0 := mul_self_eq_zero.1 (by linarith [mul_self_nonneg u1, mul_self_nonneg u2])
      rw [e1, e2]
  have hv' : 0 < v1 * v1 + v2 * v2 := by
    rcases lt_or_eq_of_le (add_nonneg (mul_self_nonneg v1) (mul_self_nonneg v2)) with h | h
    · exact h
    · exfalso; apply hv
      have e1 : v1 = 0 := mul_self_eq_zero.1 (by linarith [mul_self_nonneg v1, mul_self_nonneg v2])
      have e2 : v2 = 0 := mul_self_eq_zero.1 (by linarith [mul_self_nonneg v1, mul_self_nonneg v2])
      rw [e1, e2]
  constructor
  · rintro ⟨a, b, ha, hb, h1, h2⟩
    -- `a u = -b v`
    have e1 : a * u1 = -(b * v1) := by linarith
    have e2 : a * u2 = -(b * v2) := by linarith
    constructor
    · have : a * (u1 * v2 - u2 * v1) = 0 := by
        calc a * (u1 * v2 - u2 * v1) = (a * u1) * v2 - (a * u2) * v1 := by ring
          _ = 0 := by rw [e1, e2]; ring
      rcases mul_eq_zero.1 this with h | h
      · exact absurd h (ne_of_gt ha)
      · exact h
    · have : a * (u1 * v1 + u2 * v2) = -(b * (v1 * v1 + v2 * v2)) := by
        calc a * (u1 * v1 + u2 * v2) = (a * u1) * v1 + (a * u2) * v2 := by ring
          _ = -(b * (v1 * v1 + v2 * v2)) := by rw [e1, e2]; ring
      have hneg : a * (u1 * v1 + u2 * v2) < 0 := by
        rw [this]; exact neg_neg_of_pos (mul_pos hb hv')
      by_contra hge
      have := mul_nonneg (le_of_lt ha) (not_lt.1 hge)
      linarith
  · rintro ⟨hc, hd⟩
    -- weights `a = -(u·v)`, `b = u·u`
    refine ⟨-(u1 * v1 + u2 * v2), u1 * u1 + u2 * u2, by linarith, hu', ?_, ?_⟩
    · have : -(u1 * v1 + u2 * v2) * u2 + (u1 * u1 + u2 * u2) * v2 = u1 * (u1 * v2 - u2 * v1) := by ring
      rw [this, hc]; ring
    · have : -(u1 * v1 + u2 * v2) * -u1 + (u1 * u1 + u2 * u2) * -v1 = u2 * (u1 * v2 - u2 * v1) := by
        ring
      rw [this, hc]; ring

/-- **2-D spike**: if `vec_out = -t • vec_in` with `t > 0`, the two unit normals cancel: the sum is
    zero for all weights with `a = t * b` — which `a = 1/|vec_in|`, `b = 1/|vec_out| = 1/(t |vec_in|)`
    satisfy -/
theorem C20_2d_spike_zero (u : V2) (t a b : Rat) (hab : a = t * b) :
    let v : V2 := (-(t * u.1), -(t * u.2))
    a * (perp2 u).1 + b * (perp2 v).1 = 0 ∧ a * (perp2 u).2 + b * (perp2 v).2 = 0 := by
  obtain ⟨u1, u2⟩ := u
  simp only [perp2]
  subst hab
  constructor <;> ring

/-- the point stored in a table entry -/
def ptOf : Val → V3
  | .pt x y z => (x, y, z)
  | _ => vzero

/-- the plane normal, before normalisation, that the 3-D system computes at corner `i` of a face
    entity with corner rows `rows`: `(ver_in, ver, ver_out) = (rows[i-1], rows[i], rows[i+1])`
    cyclically — the first block of the Rust code is `i = 0`, the `windows(3)` loop `0 < i < n_v-1`,
    the last block `i = n_v - 1` — and `vec_in.cross(vec_out)` on the table entries -/
def planeNormalAt (table : List Val) (rows : List Nat) (i : Nat) : V3 :=
  let n := rows.length
  let P := fun j => ptOf (table.getD (rows.getD j 0) default)
  cross3 (vsub (P i) (P ((i + n - 1) % n))) (vsub (P ((i + 1) % n)) (P i))

variable {m : Map Val} {sc : Scene}

/-- **C20 (3-D), the plane normal in terms of the map**: at corner `i` of face `f` the system's
    plane normal is the cross product of the differences of the map's own coordinates of the vertices
    of the darts `β1^(i-1) f`, `β1^i f`, `β1^(i+1) f` (indices mod the number of sides) -/
theorem C20_plane_normal_of_scene (hwf : WF 4 m) (hcl : ClosedFaces m) (h : extract3 m = some sc)
    {f : Nat} {rows : List Nat} (hm : (f, rows) ∈ sc.faces) {i : Nat} (hi : i < rows.length) :
    ∃ vp v vn xp x xn,
      evalP (vertexId3 m.n ((m.β 1)^[(i + rows.length - 1) % rows.length] f)) m = some vp ∧
      evalP (vertexId3 m.n ((m.β 1)^[i] f)) m = some v ∧
      evalP (vertexId3 m.n ((m.β 1)^[(i + 1) % rows.length] f)) m = some vn ∧
      m.att 0 vp = some xp ∧ m.att 0 v = some x ∧ m.att 0 vn = some xn ∧
      planeNormalAt sc.table rows i =
        cross3 (vsub (ptOf x) (ptOf xp)) (vsub (ptOf xn) (ptOf x)) := by
  obtain ⟨_, hall⟩ := C20_3d_face_corners hwf hcl h
  obtain ⟨_, _, _, hrow⟩ := hall f rows hm
  have at_ : ∀ j, j < rows.length → ∃ v x, evalP (vertexId3 m.n ((m.β 1)^[j] f)) m = some v ∧
      m.att 0 v = some x ∧ sc.table.getD (rows.getD j 0) default = x := by
    intro j hj
    obtain ⟨v, x, j1, _, j3, j4⟩ := hrow j rows[j] (List.getElem?_eq_getElem hj)
    refine ⟨v, x, j1, j4, ?_⟩
    rw [List.getD_eq_getElem?_getD, List.getD_eq_getElem?_getD, List.getElem?_eq_getElem hj]
    simp only [Option.getD_some]
    rw [j3]; rfl
  have hn : 0 < rows.length := by omega
  obtain ⟨vp, xp, a1, a2, a3⟩ := at_ ((i + rows.length - 1) % rows.length) (Nat.mod_lt _ hn)
  obtain ⟨v, x, b1, b2, b3⟩ := at_ i hi
  obtain ⟨vn, xn, c1, c2, c3⟩ := at_ ((i + 1) % rows.length) (Nat.mod_lt _ hn)
  refine ⟨vp, v, vn, xp, x, xn, a1, b1, c1, a2, b2, c2, ?_⟩
  unfold planeNormalAt
  simp only [a3, b3, c3]

end Normals

/-! ## the keys of `FaceNormals` and `VolumeNormals` -/

section Keys
variable {R : Reader} {vn : Option (List (Nat × Nat))} {sc : Scene} {m : Map Val}

/-- the keys inserted into `FaceNormals` are, face entity after face entity, `(face id, row)` for
    every corner row of the entity (dimension-independent) -/
theorem fn_keys (h : extractWith R vn = some sc) :
    sc.fnKeys = sc.faces.flatMap (fun p => p.2.map (fun r => (p.1, r))) := by
  obtain ⟨table, verts, edges, fbs, _, _, _, h4, _, _, _, e4, _, e6, _⟩ := extractWith_inv h
  rw [e6, e4, List.flatMap_def, List.map_map]
  congr 1
  apply List.map_congr_left
  intro fb hfb
  obtain ⟨f, _, hf⟩ := mapO_mem' h4 hfb
  obtain ⟨w, rows, d1, w2, d2, _, _, _, _, _, _, rfl⟩ := faceBundle_inv hf
  rfl

/-- **C20, `FaceNormals` keys (2-D)**: one key `(f, row)` per corner of every face entity -/
theorem C20_face_normal_keys (h : extract2 m = some sc) :
    sc.fnKeys = sc.faces.flatMap (fun p => p.2.map (fun r => (p.1, r))) :=
  fn_keys (R := reader2 m) h

theorem extract3_inv' (h : extract3 m = some sc) :
    ∃ sc0 k, extractWith (reader3 m) (some []) = some sc0 ∧ volKeys3 m (reader3 m) = some k ∧
      sc = { sc0 with vnKeys := some k } := by
  unfold extract3 at h
  simp only at h
  split at h
  · exact absurd h (by simp)
  · rename_i sc0 h0
    split at h
    · exact absurd h (by simp)
    · rename_i k hk
      simp only [Option.some.injEq] at h
      exact ⟨sc0, k, h0, hk, h.symm⟩

/-- **C20, `FaceNormals` keys (3-D)** -/
theorem C20_3d_face_normal_keys (h : extract3 m = some sc) :
    sc.fnKeys = sc.faces.flatMap (fun p => p.2.map (fun r => (p.1, r))) := by
  obtain ⟨sc0, k, h0, _, rfl⟩ := extract3_inv' h
  exact fn_keys (R := reader3 m) (sc := sc0) h0

/-- images of the 3-D Volume policy -/
def gVol (m : Map Val) (x : Nat) : List Nat := [m.β 1 x, m.β 0 x, m.β 2 x]

theorem run_gen3_volume (hwf : WF 4 m) {x : Nat} (hx : x < m.n) :
    run (gen3 (X := Val) .volume x) m = (.ok (gVol m x), m) := by
  simp [gen3, gVol, run_rB, okb4 hwf (by omega : 1 < 4) hx, okb4 hwf (by omega : 0 < 4) hx,
    okb4 hwf (by omega : 2 < 4) hx]

theorem volume_orbit_eq (hwf : WF 4 m) {d : Nat} (hd0 : d ≠ 0) (hdn : d < m.n) :
    ∃ ds, evalP (orbit3 m.n .volume d) m = some ds ∧
      ∀ x, x ∈ ds ↔ x ≠ 0 ∧ Reach (gVol m) d x := by
  have h0 : ∀ y, y ∈ gVol m 0 → y = 0 := by
    intro y hy
    simp only [gVol, hwf.null 1 (by omega), hwf.null 0 (by omega), hwf.null 2 (by omega),
      List.mem_cons, List.not_mem_nil, or_false, or_self] at hy
    exact hy
  have hr : ∀ a, a < m.n → ∀ y, y ∈ gVol m a → y < m.n := by
    intro a ha y hy
    simp only [gVol, List.mem_cons, List.not_mem_nil, or_false] at hy
    rcases hy with rfl | rfl | rfl
    · exact hwf.range 1 (by omega) a ha
    · exact hwf.range 0 (by omega) a ha
    · exact hwf.range 2 (by omega) a ha
  refine ⟨_, evalP_of_run (run_orbitWith (gen := gen3 .volume) (g := gVol m)
    (fun x hx => run_gen3_volume hwf hx) hr hd0 hdn), ?_⟩
  exact (bfsPure_spec h0 hr hd0 hdn).2.2.2.1

/-- **C20, `VolumeNormals` keys (3-D)**: the keys are exactly the pairs `(vol, index_map (vertex_id d))`
    for `vol` an id of `iter_volumes` and `d` a dart of the volume of `vol` (the non-null darts
    reachable from `vol` through `β1, β0, β2`) -/
theorem C20_3d_volume_normal_keys (hwf : WF 4 m) (h : extract3 m = some sc) :
    ∃ ks, sc.vnKeys = some ks ∧ ∀ vol r, (vol, r) ∈ ks ↔
      vol ∈ iterVolumes3 m ∧ ∃ d, d ≠ 0 ∧ Reach (gVol m) vol d ∧ (reader3 m).rowOfDart d = some r := by
  obtain ⟨sc0, ks, _, hk, rfl⟩ := extract3_inv' h
  refine ⟨ks, rfl, ?_⟩
  unfold volKeys3 at hk
  simp only [Option.map_eq_some_iff] at hk
  obtain ⟨per, hper, rfl⟩ := hk
  intro vol r
  rw [List.mem_flatten]
  -- one volume
  have one : ∀ v keys, v ∈ iterVolumes3 m →
      (match evalP (orbit3 m.n .volume v) m with
        | none => none
        | some ds =>
          match mapO (fun d => evalP (faceId3 m.n d) m) ds with
          | none => none
          | some fids =>
            match mapO (fun d => ((reader3 m).walk d).bind
                (fun w => mapO (reader3 m).rowOfDart (w ++ [d]))) (uniqueByKey (ds.zip fids) []),
              mapO (reader3 m).rowOfDart ds with
            | some _, some rows => some (rows.map (fun r => (v, r)))
            | _, _ => none) = some keys →
      ∀ vol r, (vol, r) ∈ keys ↔ vol = v ∧ ∃ d, d ≠ 0 ∧ Reach (gVol m) v d ∧
        (reader3 m).rowOfDart d = some r := by
    intro v keys hv hF vol r
    obtain ⟨h1, h2, h3, _⟩ := (C03.mem_iterCells m _ v).1 hv
    obtain ⟨ds, hds, hmem⟩ := volume_orbit_eq hwf h2 h1
    rw [hds] at hF
    simp only at hF
    split at hF
    · exact absurd hF (by simp)
    · split at hF
      · rename_i rows _ hrows
        simp only [Option.some.injEq] at hF
        subst hF
        simp only [List.mem_map, Prod.mk.injEq]
        constructor
        · rintro ⟨r', hr', rfl, rfl⟩
          obtain ⟨d, hd, hrd⟩ := mapO_mem' hrows hr'
          exact ⟨rfl, d, ((hmem d).1 hd).1, ((hmem d).1 hd).2, hrd⟩
        · rintro ⟨rfl, d, hd0, hr, hrd⟩
          obtain ⟨b, hb, hfb⟩ := mapO_mem hrows ((hmem d).2 ⟨hd0, hr⟩)
          rw [hrd] at hfb
          exact ⟨b, hb, rfl, (Option.some.inj hfb).symm⟩
      · exact absurd hF (by simp)
  constructor
  · rintro ⟨keys, hkeys, hin⟩
    obtain ⟨v, hv, hF⟩ := mapO_mem' hper hkeys
    obtain ⟨rfl, rest⟩ := (one v keys hv hF vol r).1 hin
    exact ⟨hv, rest⟩
  · rintro ⟨hv, rest⟩
    obtain ⟨keys, hkeys, hF⟩ := mapO_mem hper hv
    exact ⟨keys, hkeys, (one vol keys hv hF vol r).2 ⟨rfl, rest⟩⟩

end Keys

end HC.C20
