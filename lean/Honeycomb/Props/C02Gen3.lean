/-
  C02 — `CMap3::three_link` / `CMap3::three_unlink` of dim3/links/three.rs (the lock-step walks that glue /
  unglue two faces dart by dart and refuse faces that do not mirror each other), TRANSLATED from the source on
  every run (`Gen/Links3Loops.lean`, written by tools/gen_lean.py) — straight-line code, the mutable pair
  `(lside, rside)`, both `while` loops, every guard and its error payload — interpreted in the model's
  transaction monad, are EQUAL as programs to the hand-written `threeLink3` / `threeUnlink3` of Model/Ops3.lean,
  which the refusal and Mirror clauses of C02 are proved about.  A `while` is interpreted by the generic
  `whileL` below with the same fuel `n + 1` the model uses (every round 3-links / 3-unlinks a dart that was
  3-free / 3-linked, so a dart is visited at most once; with less fuel both sides panic alike).
-/
import Honeycomb.Gen.Links3Loops
import Honeycomb.Model.Ops3
import Honeycomb.Props.C02Gen

namespace HC.GenTie
open HC HC.C02
variable {X : Type}

/-- operand of a generated instruction: parameters, the null dart, the two mutable variables, bound variables -/
def l3Arg (l r : Nat) (env : List Nat) (ls rs : Nat) : Nat → Nat
  | 0 => l
  | 1 => r
  | 2 => 0
  | 10 => ls
  | 11 => rs
  | n => env.getD (n - 20) 0

/-- `while lside != stop && lside != NULL_DART_ID { (lside, rside) = body }`, at most `k` rounds -/
def whileL (body : Nat → Nat → P X (Nat × Nat)) (stop : Nat) : Nat → Nat → Nat → P X (Nat × Nat)
  | 0, _, _ => Prog.panic
  | k + 1, ls, rs =>
      if ls ≠ stop ∧ ls ≠ 0 then (body ls rs).bind (fun p => whileL body stop k p.1 p.2)
      else pure (ls, rs)

/-- the meaning of a generated instruction list (see the header of Gen/Links3Loops.lean); returns the final
    values of the two mutable variables; the first fuel only makes the recursion structural -/
def interpL (n l r : Nat) : Nat → List Nat → Nat → Nat → List (Nat × List Nat) → P X (Nat × Nat)
  | 0, _, _, _, _ => Prog.panic
  | _ + 1, _, ls, rs, [] => pure (ls, rs)
  | f + 1, env, ls, rs, (0, [c, a, b]) :: rest =>
      match coreCall c (l3Arg l r env ls rs a) (l3Arg l r env ls rs b) with
      | some p => do p; interpL n l r f env ls rs rest
      | none => Prog.panic
  | f + 1, env, ls, rs, (1, [i, a]) :: rest => do
      let v ← rB i (l3Arg l r env ls rs a)
      interpL n l r f (env ++ [v]) ls rs rest
  | f + 1, env, ls, rs, (30, [i, a, j, b]) :: rest => do
      let x ← rB i (l3Arg l r env ls rs a)
      let y ← rB j (l3Arg l r env ls rs b)
      interpL n l r f env x y rest
  | f + 1, env, ls, rs, (31, [s, k]) :: rest => do
      let p ← whileL (fun ls' rs' => interpL n l r f env ls' rs' (rest.take k)) (l3Arg l r env ls rs s) (n + 1) ls rs
      interpL n l r f env p.1 p.2 (rest.drop k)
  | f + 1, env, ls, rs, (32, a :: b :: k :: es) :: rest =>
      if l3Arg l r env ls rs a = l3Arg l r env ls rs b then abort ⟨linkErr k, es.map (l3Arg l r env ls rs)⟩
      else interpL n l r f env ls rs rest
  | f + 1, env, ls, rs, (33, a :: b :: k :: es) :: rest =>
      if l3Arg l r env ls rs a ≠ l3Arg l r env ls rs b then abort ⟨linkErr k, es.map (l3Arg l r env ls rs)⟩
      else interpL n l r f env ls rs rest
  | f + 1, env, ls, rs, (34, a :: i :: b :: k :: es) :: rest => do
      let x ← rB i (l3Arg l r env ls rs b)
      if l3Arg l r env ls rs a ≠ x then abort ⟨linkErr k, es.map (l3Arg l r env ls rs)⟩
      else interpL n l r f env ls rs rest
  | f + 1, env, ls, rs, (35, [a, i, b]) :: rest => do
      let y ← rB i (l3Arg l r env ls rs b)
      if l3Arg l r env ls rs a ≠ y then Prog.panic
      else interpL n l r f env ls rs rest
  | f + 1, env, ls, rs, (36, [a, k, j]) :: rest =>
      if l3Arg l r env ls rs a = 0 then interpL n l r f env ls rs (rest.take k ++ rest.drop (k + j))
      else interpL n l r f env ls rs (rest.drop k)
  | _, _, _, _, _ => Prog.panic

/-- the body of the two loops of `three_link`, as the model's `threeLinkWalk` runs it -/
def linkBody (ld rd i j ls rs : Nat) : P X (Nat × Nat) :=
  if rs = 0 then abort (errAsym ld rd) else
  (iLinkCore 3 ls rs).bind fun _ => (rB i ls).bind fun a => (rB j rs).bind fun b => Prog.ret (a, b)

theorem whileL_linkBody (ld rd stop i j : Nat) : ∀ k ls rs,
    whileL (X := X) (linkBody ld rd i j) stop k ls rs = threeLinkWalk ld rd stop i j k ls rs := by
  intro k
  induction k with
  | zero => intro ls rs; rfl
  | succ k ih =>
    intro ls rs
    simp only [whileL, threeLinkWalk, linkBody, Prog.bind_eq, Prog.pure_eq]
    by_cases hc : ls ≠ stop ∧ ls ≠ 0
    · rw [if_pos hc, if_pos hc]
      by_cases h0 : rs = 0
      · rw [if_pos h0, if_pos h0]; rfl
      · rw [if_neg h0, if_neg h0]
        simp only [Prog.bind_assoc, Prog.ret_bind, ih]
    · rw [if_neg hc, if_neg hc]

/-- the body of the two loops of `three_unlink` (`again`: the backward loop re-reads `β3 rside` for its
    `assert_eq!`) -/
def unlinkBody (ld rd i j : Nat) (again : Bool) (ls rs : Nat) : P X (Nat × Nat) :=
  (rB 3 rs).bind fun x =>
  if ls ≠ x then abort (errAsym ld rd) else
  (if again then rB 3 rs else Prog.ret ls).bind fun y =>
  if ls ≠ y then Prog.panic else
  (iUnlinkCore 3 ls).bind fun _ => (rB i ls).bind fun a => (rB j rs).bind fun b => Prog.ret (a, b)

theorem whileL_unlinkBody (ld rd stop i j : Nat) (again : Bool) : ∀ k ls rs,
    whileL (X := X) (unlinkBody ld rd i j again) stop k ls rs = threeUnlinkWalk ld rd stop i j again k ls rs := by
  intro k
  induction k with
  | zero => intro ls rs; rfl
  | succ k ih =>
    intro ls rs
    simp only [whileL, threeUnlinkWalk, unlinkBody, Prog.bind_eq, Prog.pure_eq]
    by_cases hc : ls ≠ stop ∧ ls ≠ 0
    · rw [if_pos hc, if_pos hc]
      simp only [Prog.bind_assoc]
      congr 1; funext x
      by_cases h0 : ls ≠ x
      · rw [if_pos h0, if_pos h0]; rfl
      · rw [if_neg h0, if_neg h0]
        cases again
        · simp only [Bool.false_eq_true, if_false, Prog.ret_bind, ne_eq, not_true_eq_false, Prog.bind_assoc, ih]
        · simp only [if_true, Prog.bind_assoc]
          congr 1; funext y
          by_cases h1 : ls ≠ y
          · rw [if_pos h1, if_pos h1]; rfl
          · rw [if_neg h1, if_neg h1]
            simp only [Prog.bind_assoc, Prog.ret_bind, ih]
    · rw [if_neg hc, if_neg hc]

theorem bind_unitL (p : P X Unit) : p.bind (fun _ => Prog.ret ()) = p := Prog.bind_ret p

theorem ite_bindL {α β : Type} (c : Prop) [Decidable c] (p q : P X α) (f : α → P X β) :
    (if c then p else q).bind f = if c then p.bind f else q.bind f := by
  split <;> rfl

/-- **tie of `CMap3::three_link`** (both loops, every guard) -/
theorem C02_gen_threeLink3 (n l r : Nat) :
    (interpL (X := X) n l r 32 [] 0 0 Gen.threeLink3).bind (fun _ => Prog.ret ()) = threeLink3 n l r := by
  have hb : ∀ i j, (fun ls' rs' =>
      if rs' = 0 then abort (X := X) { tag := linkErr 3, args := List.map (l3Arg l r [] ls' rs') [0, 1] }
      else Prog.bind (iLinkCore 3 ls' rs') fun _ => Prog.bind (rB i ls') fun x => Prog.bind (rB j rs') fun y => Prog.ret (x, y))
      = linkBody l r i j := by
    intro i j; funext ls rs; rfl
  simp only [Gen.threeLink3, interpL, coreCall, l3Arg, threeLink3, List.drop, List.take,
    List.append_nil, Prog.bind_eq, Prog.pure_eq, Prog.bind_assoc, hb, whileL_linkBody, ite_bindL, Prog.abort_bind,
    Prog.ret_bind]
  rfl

/-- **tie of `CMap3::three_unlink`** (both loops, the `assert_eq!` of the backward loop included) -/
theorem C02_gen_threeUnlink3 (n l : Nat) :
    (interpL (X := X) n l 0 32 [] 0 0 Gen.threeUnlink3).bind (fun _ => Prog.ret ()) = threeUnlink3 n l := by
  have hb1 : ∀ (a i j : Nat), (fun ls' rs' =>
      Prog.bind (rB 3 rs') fun x =>
        if ls' ≠ x then abort (X := X) { tag := linkErr 3, args := List.map (l3Arg l 0 [a] ls' rs') [0, 20] }
        else Prog.bind (iUnlinkCore 3 ls') fun _ => Prog.bind (rB i ls') fun x => Prog.bind (rB j rs') fun y => Prog.ret (x, y))
      = unlinkBody l a i j false := by
    intro a i j; funext ls rs
    simp only [unlinkBody, Bool.false_eq_true, if_false, Prog.ret_bind, ne_eq, not_true_eq_false]
    rfl
  have hb2 : ∀ (a i j : Nat), (fun ls' rs' =>
      Prog.bind (rB 3 rs') fun x =>
        if ls' ≠ x then abort (X := X) { tag := linkErr 3, args := List.map (l3Arg l 0 [a] ls' rs') [0, 20] }
        else Prog.bind (rB 3 rs') fun y => if ls' ≠ y then Prog.panic else
          Prog.bind (iUnlinkCore 3 ls') fun _ => Prog.bind (rB i ls') fun x => Prog.bind (rB j rs') fun y => Prog.ret (x, y))
      = unlinkBody l a i j true := by
    intro a i j; funext ls rs; rfl
  simp only [Gen.threeUnlink3, interpL, coreCall, l3Arg, threeUnlink3, List.drop, List.take,
    List.append_nil, List.nil_append, Prog.bind_eq, Prog.pure_eq, Prog.bind_assoc, ite_bindL,
    Prog.ret_bind, hb1, hb2, whileL_unlinkBody]
  rfl

/-- **C02 stated on the translated code**: every successful run of the translated `CMap3::three_link` /
    `three_unlink` on a well-formed 3-map with in-use (for the link: distinct) arguments ends in a well-formed map -/
theorem C02_gen_three_links_preserve_WF (n l r : Nat) :
    Safe (fun m : Map X => InUse m l ∧ InUse m r ∧ l ≠ r)
      ((interpL (X := X) n l r 32 [] 0 0 Gen.threeLink3).bind (fun _ => Prog.ret ())) ∧
    Safe (fun m : Map X => InUse m l)
      ((interpL (X := X) n l 0 32 [] 0 0 Gen.threeUnlink3).bind (fun _ => Prog.ret ())) := by
  rw [C02_gen_threeLink3, C02_gen_threeUnlink3]
  exact ⟨safe_threeLink3 n l r, safe_threeUnlink3 n l⟩

/-- **C02, refusal, stated on the translated code**: the translated `CMap3::three_link`, run on two in-use distinct
    darts of a well-formed 3-map whose faces do NOT have mirrored shapes (left face read along β1/β0, right face
    along β0/β1), never answers `Ok` -/
theorem C02_gen_refusal (n : Nat) {m : Map X} {ld rd : Nat} {s s' : Shape} (hw : WF 4 m)
    (hl : InUse m ld) (hr : InUse m rd) (hne : ld ≠ rd)
    (hs : HasShape m 1 0 ld s) (hs' : HasShape m 0 1 rd s') (hdiff : s ≠ s') :
    ∀ u m', run ((interpL (X := X) n ld rd 32 [] 0 0 Gen.threeLink3).bind (fun _ => Prog.ret ())) m ≠ (.ok u, m') := by
  rw [C02_gen_threeLink3]
  exact C02_refusal n hw hl hr hne hs hs' hdiff

/-- a list the interpreter does not understand is a panic, not a silent success -/
example (n l r : Nat) : interpL (X := X) n l r 4 [] 0 0 [(9, [])] = Prog.panic := rfl

end HC.GenTie
