/-
  C20 — the viewer's scene extraction mirrors the map.

  Model: `Honeycomb/Model/Scene.lean` (`extract2`, `extract3`, shared core `extractWith` over a
  `Reader`), after `honeycomb-render/src/import_map.rs`.

  PROVED (for every map size; `sc` is the scene: `extract2 m = some sc`).  Hypotheses used, where
  named: `WF 3 m` (C01's well-formedness), `ClosedFaces m` (every in-use dart has a β1 image),
  `NoLoops m` (no face with a single side), `Embedded m` (every vertex id has coordinates).
  * `C20_no_panic`               WF, ClosedFaces, NoLoops, Embedded ⇒ the start-up system does not panic
                                 (`∃ sc, extract2 m = some sc`), so the clauses below are not vacuous
  * `C20_vertex_entities`        one vertex entity per id of `iter_vertices`, in that order, and the
                                 table row stored in the entity holds the coordinates of that vertex
  * `C20_index_map_injective`,
    `C20_index_map_onto`         `index_map` is a bijection between the vertex ids and the table rows
  * `C20_table_row`              `table[index_map v] = ` the value of vertex `v`
  * `C20_dart_start`             a dart entity carries `vertex_id(d)`, `edge_id(d)`, a face id of
                                 `iter_faces`, volume 1; `start` is the row of its vertex, which holds
                                 that vertex' coordinates
  * `C20_dart_end`               (WF, ClosedFaces) `end` is the row of `vertex_id(β1 d)`
  * `C20_edge_entity`            one edge entity per id of `iter_edges`; ends = rows of the vertices of
                                 the edge dart and of `β2 id` (`β1 id` when `id` is 2-free)
  * `C20_face_corners`           (WF, ClosedFaces) one face entity per id of `iter_faces`; its corner
                                 list is `index_map ∘ vertex_id` over the β1-cycle `f, β1 f, β1² f, …`
                                 (`β1^k f = f`, the `k` darts distinct)
  * `C20_dart_entities_of_face`  (WF, ClosedFaces) the dart entities are, face after face in
                                 `iter_faces` order, exactly the darts of the β1-cycle of the face id,
                                 each once, tagged with that face id
  * `C20_each_dart_once`         (WF, ClosedFaces) every in-use dart has exactly one dart entity and no
                                 other dart has one
  * `C20_3d_vertex_entities`, `C20_3d_dart_start`, `C20_3d_edge_entity`, `C20_3d_face_entity`
                                 the dimension-independent clauses for `extract3` (ids, table rows,
                                 start, edge ends `β3` else `β2` else `β1`, corner rows along the
                                 `Custom(&[1])` walk), conditional on `extract3 m = some sc`
  The walk lemma `walk1_cycle` (the `Custom(&[1])` orbit of an in-use dart on a closed face is its
  β1-cycle, closing back on the start) and C03's 2-D id theory carry the 2-D results.

  NOT PROVED (validated by tools/props/c20.py on the implementation, see SPEC["not_proved"]):
  * the normal *vectors* (`FaceNormals`, `VolumeNormals`) are finite unit vectors — glam `f32`
    arithmetic is not modelled; only the keys are (and those are compared, not proved).  The clause
    is in fact FALSE in 3-D at straight corners (NaN; known finding D20a).
  * (3-D dart `end`, corner order, two-sided enumeration, one entity per in-use dart, panic-freedom,
    normal keys, and the exact part of the normals are proved in Props/C20b.lean.)
-/
import Honeycomb.Model.Scene
import Honeycomb.Props.C03
import Mathlib.Data.List.Forall2
import Mathlib.Data.List.Iterate
import Mathlib.Data.List.Nodup

set_option linter.unusedSimpArgs false
set_option linter.unusedVariables false

namespace HC.C20
open HC

/-! ## `mapO`, `rowOf`, `cyclicPairs` -/

theorem mapO_iff {α β : Type} {f : α → Option β} :
    ∀ {l : List α} {r : List β}, mapO f l = some r ↔ List.Forall₂ (fun a b => f a = some b) l r := by
  intro l
  induction l with
  | nil =>
      intro r
      cases r with
      | nil => simp [mapO]
      | cons b bs => simp [mapO]
  | cons a as ih =>
      intro r
      unfold mapO
      cases hfa : f a with
      | none =>
          cases r with
          | nil => simp
          | cons b bs => simp [List.forall₂_cons, hfa]
      | some b =>
          cases hm : mapO f as with
          | none =>
              cases r with
              | nil => simp
              | cons b' bs =>
                  simp only [List.forall₂_cons, hfa, reduceCtorEq, false_iff, not_and]
                  intro _ h
                  rw [← ih] at h
                  rw [hm] at h
                  exact absurd h (by simp)
          | some bs =>
              cases r with
              | nil => simp
              | cons b' bs' =>
                  simp only [Option.some.injEq, List.cons.injEq, List.forall₂_cons, hfa]
                  rw [← ih, hm]
                  simp

theorem mapO_length {α β : Type} {f : α → Option β} {l : List α} {r : List β}
    (h : mapO f l = some r) : r.length = l.length :=
  ((mapO_iff.1 h).length_eq).symm

/-- index-wise reading of `mapO` (left to right) -/
theorem mapO_get {α β : Type} {f : α → Option β} {l : List α} {r : List β}
    (h : mapO f l = some r) {i : Nat} {a : α} (ha : l[i]? = some a) :
    ∃ b, r[i]? = some b ∧ f a = some b := by
  have h2 := List.forall₂_iff_get.1 (mapO_iff.1 h)
  obtain ⟨hi, rfl⟩ := List.getElem?_eq_some_iff.1 ha
  have hi' : i < r.length := by rw [← h2.1]; exact hi
  exact ⟨r[i], List.getElem?_eq_getElem hi', h2.2 i hi hi'⟩

/-- index-wise reading of `mapO` (right to left) -/
theorem mapO_get' {α β : Type} {f : α → Option β} {l : List α} {r : List β}
    (h : mapO f l = some r) {i : Nat} {b : β} (hb : r[i]? = some b) :
    ∃ a, l[i]? = some a ∧ f a = some b := by
  have h2 := List.forall₂_iff_get.1 (mapO_iff.1 h)
  obtain ⟨hi, rfl⟩ := List.getElem?_eq_some_iff.1 hb
  have hi' : i < l.length := by rw [h2.1]; exact hi
  exact ⟨l[i], List.getElem?_eq_getElem hi', h2.2 i hi' hi⟩

theorem mapO_mem' {α β : Type} {f : α → Option β} {l : List α} {r : List β}
    (h : mapO f l = some r) {b : β} (hb : b ∈ r) : ∃ a, a ∈ l ∧ f a = some b := by
  obtain ⟨i, hi⟩ := List.mem_iff_getElem?.1 hb
  obtain ⟨a, ha, hf⟩ := mapO_get' h hi
  exact ⟨a, List.mem_iff_getElem?.2 ⟨i, ha⟩, hf⟩

theorem mapO_mem {α β : Type} {f : α → Option β} {l : List α} {r : List β}
    (h : mapO f l = some r) {a : α} (ha : a ∈ l) : ∃ b, b ∈ r ∧ f a = some b := by
  obtain ⟨i, hi⟩ := List.mem_iff_getElem?.1 ha
  obtain ⟨b, hb, hf⟩ := mapO_get h hi
  exact ⟨b, List.mem_iff_getElem?.2 ⟨i, hb⟩, hf⟩

/-- `mapO` succeeds when every element does -/
theorem mapO_isSome {α β : Type} {f : α → Option β} :
    ∀ {l : List α}, (∀ a, a ∈ l → ∃ b, f a = some b) → ∃ r, mapO f l = some r := by
  intro l
  induction l with
  | nil => intro _; exact ⟨[], rfl⟩
  | cons a as ih =>
      intro h
      obtain ⟨b, hb⟩ := h a List.mem_cons_self
      obtain ⟨bs, hbs⟩ := ih fun x hx => h x (List.mem_cons_of_mem _ hx)
      exact ⟨b :: bs, by unfold mapO; rw [hb, hbs]⟩

/-- a `mapO` whose results remember their argument in a component `p` -/
theorem mapO_map_eq {α β : Type} {f : α → Option β} {p : β → α} {l : List α} {r : List β}
    (h : mapO f l = some r) (hp : ∀ a b, f a = some b → p b = a) : r.map p = l := by
  apply List.ext_getElem?
  intro i
  rw [List.getElem?_map]
  cases hr : r[i]? with
  | none =>
      have : l[i]? = none := by
        rw [List.getElem?_eq_none_iff] at hr ⊢
        rw [← mapO_length h]; exact hr
      rw [this]; rfl
  | some b =>
      obtain ⟨a, ha, hf⟩ := mapO_get' h hr
      rw [ha]; simp [hp a b hf]

theorem rowOf_get : ∀ {vs : List Nat} {v r : Nat}, rowOf vs v = some r → vs[r]? = some v := by
  intro vs
  induction vs with
  | nil => intro v r h; simp [rowOf] at h
  | cons x xs ih =>
      intro v r h
      unfold rowOf at h
      by_cases hx : x = v
      · simp only [hx, if_true, Option.some.injEq] at h
        subst h; simp [hx]
      · simp only [hx, if_false, Option.map_eq_some_iff] at h
        obtain ⟨r', hr', rfl⟩ := h
        simpa using ih hr'

theorem rowOf_of_mem : ∀ {vs : List Nat} {v : Nat}, v ∈ vs → ∃ r, rowOf vs v = some r := by
  intro vs
  induction vs with
  | nil => intro v h; simp at h
  | cons x xs ih =>
      intro v h
      unfold rowOf
      by_cases hx : x = v
      · exact ⟨0, by simp [hx]⟩
      · rcases List.mem_cons.1 h with h | h
        · exact absurd h.symm hx
        · obtain ⟨r, hr⟩ := ih h
          exact ⟨r + 1, by simp [hx, hr]⟩

theorem rowOf_of_get_nodup : ∀ {vs : List Nat} {v r : Nat}, vs.Nodup → vs[r]? = some v →
    rowOf vs v = some r := by
  intro vs
  induction vs with
  | nil => intro v r _ h; simp at h
  | cons x xs ih =>
      intro v r hn h
      unfold rowOf
      cases r with
      | zero =>
          simp only [List.getElem?_cons_zero, Option.some.injEq] at h
          simp [h]
      | succ r' =>
          simp only [List.getElem?_cons_succ] at h
          have hv : v ∈ xs := List.mem_iff_getElem?.2 ⟨r', h⟩
          have hx : x ≠ v := fun e => (List.nodup_cons.1 hn).1 (e ▸ hv)
          simp [hx, ih (List.nodup_cons.1 hn).2 h]

theorem length_cyclicPairs {α : Type} (l : List α) : (cyclicPairs l).length = l.length := by
  unfold cyclicPairs
  cases l with
  | nil => rfl
  | cons a as => simp

theorem map_fst_cyclicPairs {α : Type} (l : List α) : (cyclicPairs l).map Prod.fst = l := by
  unfold cyclicPairs
  apply List.map_fst_zip
  cases l with
  | nil => simp
  | cons a as => simp

/-- the partner of the `i`-th element in `cyclicPairs` is the cyclic successor -/
theorem cyclicPairs_succ {α : Type} (l : List α) (i : Nat) :
    (l.tail ++ l.take 1)[i]? = if i < l.length then l[(i + 1) % l.length]? else none := by
  by_cases hi : i < l.length
  · rw [if_pos hi, List.getElem?_append]
    by_cases h1 : i + 1 < l.length
    · have : i < l.tail.length := by simp; omega
      rw [if_pos this, Nat.mod_eq_of_lt h1]
      simp [List.getElem?_tail]
    · have h2 : i + 1 = l.length := by omega
      have : ¬ i < l.tail.length := by simp; omega
      rw [if_neg this]
      have e : (i + 1) % l.length = 0 := by rw [h2]; exact Nat.mod_self _
      have e2 : i - l.tail.length = 0 := by simp; omega
      rw [e, e2]
      cases l with
      | nil => simp at hi
      | cons a as => simp
  · rw [if_neg hi, List.getElem?_eq_none_iff]
    cases l with
    | nil => simp
    | cons a as => simp at hi ⊢; omega

theorem cyclicPairs_get {α : Type} (l : List α) {i : Nat} {a : α} (ha : l[i]? = some a) :
    ∃ b, l[(i + 1) % l.length]? = some b ∧ (cyclicPairs l)[i]? = some (a, b) := by
  have hi : i < l.length := (List.getElem?_eq_some_iff.1 ha).1
  have hj : (i + 1) % l.length < l.length := Nat.mod_lt _ (by omega)
  refine ⟨l[(i + 1) % l.length], List.getElem?_eq_getElem hj, ?_⟩
  unfold cyclicPairs
  rw [List.getElem?_zip_eq_some]
  refine ⟨ha, ?_⟩
  rw [cyclicPairs_succ, if_pos hi]
  exact List.getElem?_eq_getElem hj

/-! ## inversion of `extractWith` -/

variable {R : Reader} {vn : Option (List (Nat × Nat))} {sc : Scene}

theorem extractWith_inv (h : extractWith R vn = some sc) :
    ∃ table verts edges fbs,
      mapO R.coords R.vs = some table ∧
      mapO (fun v => (rowOf R.vs v).map (fun r => (v, r))) R.vs = some verts ∧
      mapO (edgeBundle R) R.es = some edges ∧
      mapO (faceBundle R) R.fs = some fbs ∧
      sc.table = table ∧ sc.verts = verts ∧ sc.edges = edges ∧
      sc.faces = fbs.map (·.1) ∧ sc.darts = (fbs.map (·.2.2)).flatten ∧
      sc.fnKeys = (fbs.map (·.2.1)).flatten ∧ sc.vnKeys = vn := by
  unfold extractWith at h
  split at h
  · rename_i table verts edges fbs h1 h2 h3 h4
    simp only [Option.some.injEq] at h
    subst h
    exact ⟨table, verts, edges, fbs, h1, h2, h3, h4, rfl, rfl, rfl, rfl, rfl, rfl, rfl⟩
  · exact absurd h (by simp)

theorem dartBundles_inv {f : Nat} {w : List Nat} {ents : List DartEnt}
    (h : dartBundles R f w = some ents) :
    ∃ rows, mapO R.rowOfDart w = some rows ∧
      mapO (fun (p : (Nat × Nat) × (Nat × Nat)) =>
        match R.vid p.1.1, R.eid p.1.1, R.volid p.1.1 with
        | some v, some e, some c =>
            some ({ d := p.1.1, v := v, e := e, f := f, vol := c, s := p.1.2, t := p.2.2 } : DartEnt)
        | _, _, _ => none) (cyclicPairs (w.zip rows)) = some ents := by
  unfold dartBundles at h
  split at h
  · exact absurd h (by simp)
  · rename_i rows hr
    exact ⟨rows, hr, h⟩

/-- what one dart bundle says -/
theorem dartEnt_of_pair {f : Nat} {p : (Nat × Nat) × (Nat × Nat)} {e : DartEnt}
    (h : (match R.vid p.1.1, R.eid p.1.1, R.volid p.1.1 with
        | some v, some e, some c =>
            some ({ d := p.1.1, v := v, e := e, f := f, vol := c, s := p.1.2, t := p.2.2 } : DartEnt)
        | _, _, _ => none) = some e) :
    e.d = p.1.1 ∧ R.vid p.1.1 = some e.v ∧ R.eid p.1.1 = some e.e ∧ R.volid p.1.1 = some e.vol ∧
      e.f = f ∧ e.s = p.1.2 ∧ e.t = p.2.2 := by
  split at h
  · rename_i v e' c h1 h2 h3
    simp only [Option.some.injEq] at h
    subst h
    exact ⟨rfl, h1, h2, h3, rfl, rfl, rfl⟩
  · exact absurd h (by simp)

/-- the dart bundles of a walk, index by index: the `i`-th bundle belongs to the `i`-th dart of the
    walk, its `start` is the row of that dart's vertex and its `end` the row of the vertex of the
    cyclically next dart of the walk -/
theorem dartBundles_get {f : Nat} {w : List Nat} {ents : List DartEnt}
    (h : dartBundles R f w = some ents) :
    ents.length = w.length ∧
    ∀ i d, w[i]? = some d → ∃ e d', ents[i]? = some e ∧ w[(i + 1) % w.length]? = some d' ∧
      e.d = d ∧ e.f = f ∧ R.vid d = some e.v ∧ R.eid d = some e.e ∧ R.volid d = some e.vol ∧
      R.rowOfDart d = some e.s ∧ R.rowOfDart d' = some e.t := by
  obtain ⟨rows, hr, he⟩ := dartBundles_inv h
  have hlen : rows.length = w.length := mapO_length hr
  have hz : (w.zip rows).length = w.length := by simp [hlen]
  refine ⟨by rw [mapO_length he, length_cyclicPairs, hz], ?_⟩
  intro i d hd
  obtain ⟨r, hri, hrd⟩ := mapO_get hr hd
  have hzi : (w.zip rows)[i]? = some (d, r) := List.getElem?_zip_eq_some.2 ⟨hd, hri⟩
  obtain ⟨b, hb, hp⟩ := cyclicPairs_get (w.zip rows) hzi
  rw [hz] at hb
  obtain ⟨hb1, hb2⟩ := List.getElem?_zip_eq_some.1 hb
  obtain ⟨a, ha, hra⟩ := mapO_get' hr hb2
  rw [hb1] at ha
  simp only [Option.some.injEq] at ha
  subst ha
  obtain ⟨e, hei, hfe⟩ := mapO_get he hp
  obtain ⟨h1, h2, h3, h4, h5, h6, h7⟩ := dartEnt_of_pair hfe
  simp only at h1 h2 h3 h4 h6 h7
  exact ⟨e, b.1, hei, hb1, h1, h5, h2, h3, h4, by rw [h6]; exact hrd, by rw [h7]; exact hra⟩

theorem dartBundles_map_d {f : Nat} {w : List Nat} {ents : List DartEnt}
    (h : dartBundles R f w = some ents) : ents.map (·.d) = w := by
  obtain ⟨hlen, hget⟩ := dartBundles_get h
  apply List.ext_getElem?
  intro i
  rw [List.getElem?_map]
  by_cases hi : i < w.length
  · obtain ⟨e, d', he, _, hd, _⟩ := hget i w[i] (List.getElem?_eq_getElem hi)
    rw [he, List.getElem?_eq_getElem hi]; simp [hd]
  · have h1 : ents[i]? = none := by rw [List.getElem?_eq_none_iff]; omega
    have h2 : w[i]? = none := by rw [List.getElem?_eq_none_iff]; omega
    rw [h1, h2]; rfl

theorem faceBundle_inv {f : Nat} {fb : (Nat × List Nat) × List (Nat × Nat) × List DartEnt}
    (h : faceBundle R f = some fb) :
    ∃ w rows d1 w2 d2, R.walk f = some w ∧ mapO R.rowOfDart w = some rows ∧ 2 ≤ rows.length ∧
      dartBundles R f w = some d1 ∧ R.side2 f = some w2 ∧ dartBundles R f w2 = some d2 ∧
      fb = ((f, rows), rows.map (fun r => (f, r)), d1 ++ d2) := by
  unfold faceBundle at h
  split at h
  · exact absurd h (by simp)
  · rename_i w hw
    split at h
    · exact absurd h (by simp)
    · rename_i rows hrows
      split at h
      · exact absurd h (by simp)
      · rename_i hlen
        split at h
        · rename_i d1 d2 hd1 hd2
          simp only [Option.some.injEq] at h
          cases hs : R.side2 f with
          | none => rw [hs] at hd2; simp at hd2
          | some w2 =>
              rw [hs] at hd2
              simp only [Option.bind_some] at hd2
              exact ⟨w, rows, d1, w2, d2, hw, hrows, by omega, hd1, rfl, hd2, h.symm⟩
        · exact absurd h (by simp)

/-! ## the dimension-independent clauses -/

/-- `table[index_map v]` is the value of vertex `v` -/
theorem table_row (h : extractWith R vn = some sc) {v r : Nat} (hr : rowOf R.vs v = some r) :
    ∃ x, sc.table[r]? = some x ∧ R.coords v = some x := by
  obtain ⟨table, verts, edges, fbs, h1, _, _, _, e1, _⟩ := extractWith_inv h
  obtain ⟨x, hx, hc⟩ := mapO_get h1 (rowOf_get hr)
  exact ⟨x, by rw [e1]; exact hx, hc⟩

theorem vertex_entities (h : extractWith R vn = some sc) :
    sc.verts.map Prod.fst = R.vs ∧ sc.table.length = R.vs.length ∧
    ∀ v r, (v, r) ∈ sc.verts → rowOf R.vs v = some r ∧
      ∃ x, sc.table[r]? = some x ∧ R.coords v = some x := by
  obtain ⟨table, verts, edges, fbs, h1, h2, _, _, e1, e2, _⟩ := extractWith_inv h
  refine ⟨?_, by rw [e1]; exact mapO_length h1, ?_⟩
  · rw [e2]
    refine mapO_map_eq h2 ?_
    intro a b hab
    simp only [Option.map_eq_some_iff] at hab
    obtain ⟨r, _, rfl⟩ := hab
    rfl
  · intro v r hvr
    rw [e2] at hvr
    obtain ⟨a, _, hf⟩ := mapO_mem' h2 hvr
    simp only [Option.map_eq_some_iff, Prod.mk.injEq] at hf
    obtain ⟨r', hr', rfl, rfl⟩ := hf
    exact ⟨hr', table_row h hr'⟩

theorem row_of_dart (h : extractWith R vn = some sc) {d r : Nat} (hr : R.rowOfDart d = some r) :
    ∃ v x, R.vid d = some v ∧ rowOf R.vs v = some r ∧ sc.table[r]? = some x ∧ R.coords v = some x := by
  unfold Reader.rowOfDart at hr
  cases hv : R.vid d with
  | none => rw [hv] at hr; simp at hr
  | some v =>
      rw [hv] at hr
      simp only [Option.bind_some] at hr
      obtain ⟨x, hx, hc⟩ := table_row h hr
      exact ⟨v, x, rfl, hr, hx, hc⟩

theorem edge_entities (h : extractWith R vn = some sc) :
    sc.edges.map (·.1) = R.es ∧
    ∀ id a b, (id, a, b) ∈ sc.edges →
      R.rowOfDart id = some a ∧ R.rowOfDart (R.edgeEnd id) = some b := by
  obtain ⟨table, verts, edges, fbs, _, _, h3, _, _, _, e3, _⟩ := extractWith_inv h
  have inv : ∀ a b, edgeBundle R a = some b →
      b.1 = a ∧ R.rowOfDart a = some b.2.1 ∧ R.rowOfDart (R.edgeEnd a) = some b.2.2 := by
    intro a b hab
    unfold edgeBundle at hab
    split at hab
    · rename_i r1 r2 h1 h2
      simp only [Option.some.injEq] at hab
      subst hab
      exact ⟨rfl, h1, h2⟩
    · exact absurd hab (by simp)
  refine ⟨?_, ?_⟩
  · rw [e3]; exact mapO_map_eq h3 fun a b hab => (inv a b hab).1
  · intro id a b hm
    rw [e3] at hm
    obtain ⟨x, _, hx⟩ := mapO_mem' h3 hm
    obtain ⟨e1, e2, e4⟩ := inv x _ hx
    simp only at e1 e2 e4
    subst e1
    exact ⟨e2, e4⟩

/-- the face entities and the dart entities, face by face -/
theorem face_blocks (h : extractWith R vn = some sc) :
    ∃ fbs : List ((Nat × List Nat) × List (Nat × Nat) × List DartEnt),
      sc.faces = fbs.map (·.1) ∧ sc.darts = (fbs.map (·.2.2)).flatten ∧
      List.Forall₂ (fun f fb => faceBundle R f = some fb) R.fs fbs := by
  obtain ⟨table, verts, edges, fbs, _, _, _, h4, _, _, _, e4, e5, _⟩ := extractWith_inv h
  exact ⟨fbs, e4, e5, mapO_iff.1 h4⟩

theorem face_entities (h : extractWith R vn = some sc) :
    sc.faces.map (·.1) = R.fs ∧
    ∀ f rows, (f, rows) ∈ sc.faces → f ∈ R.fs ∧ 2 ≤ rows.length ∧
      ∃ w, R.walk f = some w ∧ List.Forall₂ (fun d r => R.rowOfDart d = some r) w rows := by
  obtain ⟨table, verts, edges, fbs, _, _, _, h4, _, _, _, e4, _⟩ := extractWith_inv h
  refine ⟨?_, ?_⟩
  · rw [e4, List.map_map]
    refine mapO_map_eq h4 ?_
    intro a b hab
    obtain ⟨w, rows, d1, w2, d2, _, _, _, _, _, _, rfl⟩ := faceBundle_inv hab
    rfl
  · intro f rows hm
    rw [e4, List.mem_map] at hm
    obtain ⟨fb, hfb, efb⟩ := hm
    obtain ⟨a, ha, hf⟩ := mapO_mem' h4 hfb
    obtain ⟨w, rows', d1, w2, d2, hw, hrows, hlen, _, _, _, rfl⟩ := faceBundle_inv hf
    simp only [Prod.mk.injEq] at efb
    obtain ⟨rfl, rfl⟩ := efb
    exact ⟨ha, hlen, w, hw, mapO_iff.1 hrows⟩

/-- every dart entity comes from a walk of some face: its ids, its `start` and its `end` -/
theorem dart_entity (h : extractWith R vn = some sc) {e : DartEnt} (he : e ∈ sc.darts) :
    e.f ∈ R.fs ∧ R.vid e.d = some e.v ∧ R.eid e.d = some e.e ∧ R.volid e.d = some e.vol ∧
      R.rowOfDart e.d = some e.s ∧
      ∃ w w2, R.walk e.f = some w ∧ R.side2 e.f = some w2 ∧
        ((∃ i d', w[i]? = some e.d ∧ w[(i + 1) % w.length]? = some d' ∧ R.rowOfDart d' = some e.t) ∨
         (∃ i d', w2[i]? = some e.d ∧ w2[(i + 1) % w2.length]? = some d' ∧
            R.rowOfDart d' = some e.t)) := by
  obtain ⟨table, verts, edges, fbs, _, _, _, h4, _, _, _, _, e5, _⟩ := extractWith_inv h
  rw [e5, List.mem_flatten] at he
  obtain ⟨l, hl, hel⟩ := he
  rw [List.mem_map] at hl
  obtain ⟨fb, hfb, rfl⟩ := hl
  obtain ⟨f, hf, hfbf⟩ := mapO_mem' h4 hfb
  obtain ⟨w, rows, d1, w2, d2, hw, hrows, hlen, hd1, hs2, hd2, rfl⟩ := faceBundle_inv hfbf
  simp only [List.mem_append] at hel
  have key : ∀ (ww : List Nat) (dd : List DartEnt), dartBundles R f ww = some dd → e ∈ dd →
      e.f = f ∧ R.vid e.d = some e.v ∧ R.eid e.d = some e.e ∧ R.volid e.d = some e.vol ∧
      R.rowOfDart e.d = some e.s ∧
      ∃ i d', ww[i]? = some e.d ∧ ww[(i + 1) % ww.length]? = some d' ∧ R.rowOfDart d' = some e.t := by
    intro ww dd hdd hmem
    obtain ⟨hl2, hget⟩ := dartBundles_get hdd
    obtain ⟨i, hi⟩ := List.mem_iff_getElem?.1 hmem
    have hi' : i < ww.length := by
      have := (List.getElem?_eq_some_iff.1 hi).1
      omega
    obtain ⟨e', d', he', hd', h1, h2, h3, h4', h5, h6, h7⟩ :=
      hget i ww[i] (List.getElem?_eq_getElem hi')
    rw [hi] at he'
    simp only [Option.some.injEq] at he'
    subst he'
    refine ⟨h2, h1 ▸ h3, h1 ▸ h4', h1 ▸ h5, h1 ▸ h6, i, d', ?_, hd', h7⟩
    rw [h1]; exact List.getElem?_eq_getElem hi'
  rcases hel with hel | hel
  · obtain ⟨k1, k2, k3, k4, k5, i, d', k6, k7, k8⟩ := key w d1 hd1 hel
    rw [k1]
    exact ⟨hf, k2, k3, k4, k5, w, w2, hw, hs2, Or.inl ⟨i, d', k6, k7, k8⟩⟩
  · obtain ⟨k1, k2, k3, k4, k5, i, d', k6, k7, k8⟩ := key w2 d2 hd2 hel
    rw [k1]
    exact ⟨hf, k2, k3, k4, k5, w, w2, hw, hs2, Or.inr ⟨i, d', k6, k7, k8⟩⟩

theorem dartBundles_map_fd {f : Nat} {w : List Nat} {ents : List DartEnt}
    (h : dartBundles R f w = some ents) :
    ents.map (fun e => (e.f, e.d)) = w.map (fun d => (f, d)) := by
  obtain ⟨hlen, hget⟩ := dartBundles_get h
  apply List.ext_getElem?
  intro i
  rw [List.getElem?_map, List.getElem?_map]
  by_cases hi : i < w.length
  · obtain ⟨e, d', he, _, hd, hf, _⟩ := hget i w[i] (List.getElem?_eq_getElem hi)
    rw [he, List.getElem?_eq_getElem hi]; simp [hd, hf]
  · have h1 : ents[i]? = none := by rw [List.getElem?_eq_none_iff]; omega
    have h2 : w[i]? = none := by rw [List.getElem?_eq_none_iff]; omega
    rw [h1, h2]; rfl

theorem forall₂_map_eq {α β γ : Type} {P : α → β → Prop} {F : α → γ} {G : β → γ} :
    ∀ {l : List α} {r : List β}, List.Forall₂ P l r → (∀ a b, a ∈ l → P a b → F a = G b) →
      l.map F = r.map G := by
  intro l r h
  induction h with
  | nil => intro _; rfl
  | cons hab _ ih =>
      intro hall
      simp only [List.map_cons, List.cons.injEq]
      exact ⟨hall _ _ List.mem_cons_self hab, ih fun a b ha => hall a b (List.mem_cons_of_mem _ ha)⟩

/-- the extraction succeeds as soon as every lookup it performs does -/
theorem extractWith_isSome
    (hc : ∀ v, v ∈ R.vs → ∃ x, R.coords v = some x)
    (he : ∀ id, id ∈ R.es → ∃ b, edgeBundle R id = some b)
    (hf : ∀ f, f ∈ R.fs → ∃ fb, faceBundle R f = some fb) :
    ∃ sc, extractWith R vn = some sc := by
  obtain ⟨table, h1⟩ := mapO_isSome hc
  obtain ⟨verts, h2⟩ := mapO_isSome (f := fun v => (rowOf R.vs v).map (fun r => (v, r))) (l := R.vs)
    (fun v hv => by obtain ⟨r, hr⟩ := rowOf_of_mem hv; exact ⟨(v, r), by simp [hr]⟩)
  obtain ⟨edges, h3⟩ := mapO_isSome he
  obtain ⟨fbs, h4⟩ := mapO_isSome hf
  unfold extractWith
  rw [h1, h2, h3, h4]
  exact ⟨_, rfl⟩

theorem dartBundles_isSome {f : Nat} {w : List Nat}
    (hw : ∀ d, d ∈ w → (∃ r, R.rowOfDart d = some r) ∧ (∃ v, R.vid d = some v) ∧
      (∃ e, R.eid d = some e) ∧ ∃ c, R.volid d = some c) :
    ∃ ents, dartBundles R f w = some ents := by
  obtain ⟨rows, hr⟩ := mapO_isSome (f := R.rowOfDart) (l := w) fun d hd => (hw d hd).1
  unfold dartBundles
  rw [hr]
  apply mapO_isSome
  intro p hp
  have hp1 : p.1 ∈ w.zip rows := by
    have : p.1 ∈ (cyclicPairs (w.zip rows)).map Prod.fst := List.mem_map_of_mem hp
    rwa [map_fst_cyclicPairs] at this
  have hd : p.1.1 ∈ w := (List.of_mem_zip hp1).1
  obtain ⟨_, ⟨v, hv⟩, ⟨e, he⟩, ⟨c, hc⟩⟩ := hw _ hd
  rw [hv, he, hc]
  exact ⟨_, rfl⟩

theorem faceBundle_isSome {f : Nat} {w w2 : List Nat} (hwalk : R.walk f = some w)
    (hs2 : R.side2 f = some w2) (hlen : 2 ≤ w.length)
    (hw : ∀ d, d ∈ w ++ w2 → (∃ r, R.rowOfDart d = some r) ∧ (∃ v, R.vid d = some v) ∧
      (∃ e, R.eid d = some e) ∧ ∃ c, R.volid d = some c) :
    ∃ fb, faceBundle R f = some fb := by
  obtain ⟨rows, hr⟩ := mapO_isSome (f := R.rowOfDart) (l := w)
    fun d hd => (hw d (List.mem_append_left _ hd)).1
  obtain ⟨d1, hd1⟩ := dartBundles_isSome (R := R) (f := f) (w := w)
    fun d hd => hw d (List.mem_append_left _ hd)
  obtain ⟨d2, hd2⟩ := dartBundles_isSome (R := R) (f := f) (w := w2)
    fun d hd => hw d (List.mem_append_right _ hd)
  unfold faceBundle
  rw [hwalk]
  simp only [hr]
  have : ¬ rows.length < 2 := by rw [mapO_length hr]; omega
  rw [if_neg this, hd1, hs2]
  simp only [Option.bind_some, hd2]
  exact ⟨_, rfl⟩

/-! ## the `Custom(&[1])` walk on a closed face is the β1-cycle -/

/-- BFS with a single image per dart: one step -/
theorem bfsPure_single (s : Nat → Nat) (fuel d : Nat) (mk out : List Nat) :
    bfsPure (fun x => [s x]) (fuel + 1) [d] mk out =
      if mk.contains (s d) then out ++ [d]
      else bfsPure (fun x => [s x]) fuel [s d] (mk ++ [s d]) (out ++ [d]) := by
  rw [bfsPure]
  simp only [List.foldl_cons, List.foldl_nil, bfsCheck]
  by_cases hc : mk.contains (s d) = true
  · simp only [hc, if_true]
    cases fuel <;> rfl
  · simp only [hc, if_false, Bool.false_eq_true, List.nil_append]

/-- … hence the result is a chain `d, s d, s (s d), …` -/
theorem bfsPure_chain (s : Nat → Nat) : ∀ (fuel d : Nat) (mk out : List Nat),
    ∃ k, bfsPure (fun x => [s x]) fuel [d] mk out = out ++ List.iterate s d k := by
  intro fuel
  induction fuel with
  | zero => intro d mk out; exact ⟨0, by simp [bfsPure]⟩
  | succ f ih =>
      intro d mk out
      rw [bfsPure_single]
      by_cases hc : mk.contains (s d) = true
      · rw [if_pos hc]
        exact ⟨1, by simp [List.iterate]⟩
      · rw [if_neg hc]
        obtain ⟨k, hk⟩ := ih (s d) (mk ++ [s d]) (out ++ [d])
        exact ⟨k + 1, by rw [hk]; simp [List.iterate]⟩

/-- every in-use dart has a successor (the faces are closed) -/
def ClosedFaces {X : Type} (m : Map X) : Prop :=
  ∀ d, d < m.n → d ≠ 0 → m.unused d = false → m.β 1 d ≠ 0

instance {X : Type} (m : Map X) : Decidable (ClosedFaces m) := by
  unfold ClosedFaces; exact inferInstance

/-- in-use darts, as the property means it -/
def InUse {X : Type} (m : Map X) (d : Nat) : Prop := d ≠ 0 ∧ d < m.n ∧ m.unused d = false

instance {X : Type} (m : Map X) (d : Nat) : Decidable (InUse m d) := by
  unfold InUse; exact inferInstance

/-- the darts yielded by `orbit(Custom(&[1]), d)`, as a pure function (C03's `orb`) -/
def walk1 {X : Type} (m : Map X) (d : Nat) : List Nat := C03.orb m (.custom [1]) d

theorem polOK1 : C03.PolOK (.custom [1]) := by
  intro b hb
  simp only [List.mem_singleton] at hb
  omega

theorem g2_custom1 {X : Type} (m : Map X) : C03.g2 m (.custom [1]) = fun x => [m.β 1 x] := by
  funext x; rfl

/-- **walk lemma**: on a well-formed 2-map with closed faces, the `Custom(&[1])` orbit of an in-use
    dart `d` is `d, β1 d, β1² d, …, β1^(k-1) d` with `k ≥ 1` darts, all distinct and in use, and
    `β1^k d = d` -/
theorem walk1_cycle {X : Type} {m : Map X} (hwf : WF 3 m) (hcl : ClosedFaces m) {d : Nat}
    (hd : InUse m d) :
    walk1 m d = List.iterate (m.β 1) d (walk1 m d).length ∧ 0 < (walk1 m d).length ∧
    (walk1 m d).Nodup ∧ (m.β 1)^[(walk1 m d).length] d = d ∧ ∀ x, x ∈ walk1 m d → InUse m x := by
  obtain ⟨hd0, hdn, hdu⟩ := hd
  obtain ⟨_, hhead, hnd, hno0, hmem, hlt⟩ := C03.C03_orbit2_spec hwf polOK1 hd0 hdn
  have huse := C03.C03_orbit_of_in_use_is_in_use hwf polOK1 hd0 hdn hdu
  change (walk1 m d).head? = some d at hhead
  change (walk1 m d).Nodup at hnd
  change 0 ∉ walk1 m d at hno0
  change ∀ x, x ∈ walk1 m d ↔ x ≠ 0 ∧ Reach (C03.g2 m (.custom [1])) d x at hmem
  change ∀ x, x ∈ walk1 m d → x < m.n at hlt
  change ∀ x, x ∈ walk1 m d → m.unused x = false at huse
  obtain ⟨k, hk⟩ := bfsPure_chain (m.β 1) (m.n + 1) d [0, d] []
  have hk' : walk1 m d = List.iterate (m.β 1) d k := by
    show bfsPure (C03.g2 m (.custom [1])) (m.n + 1) [d] [0, d] [] = _
    rw [g2_custom1, hk]; rfl
  have hlen : (walk1 m d).length = k := by rw [hk', List.length_iterate]
  have hk0 : 0 < k := by
    cases k with
    | zero => rw [hk'] at hhead; simp [List.iterate] at hhead
    | succ k => omega
  have hin : ∀ x, x ∈ walk1 m d → InUse m x := fun x hx =>
    ⟨fun e => hno0 (e ▸ hx), hlt x hx, huse x hx⟩
  refine ⟨by rw [hlen]; exact hk', by omega, hnd, ?_, hin⟩
  rw [hlen]
  -- the last dart `x` of the walk and its successor
  have hx : (m.β 1)^[k - 1] d ∈ walk1 m d := by
    rw [hk', List.mem_iterate]; exact ⟨k - 1, by omega, rfl⟩
  obtain ⟨hx0, hxn, hxu⟩ := hin _ hx
  have hs0 : m.β 1 ((m.β 1)^[k - 1] d) ≠ 0 := hcl _ hxn hx0 hxu
  have hsk : m.β 1 ((m.β 1)^[k - 1] d) = (m.β 1)^[k] d := by
    rw [← Function.iterate_succ_apply' (m.β 1) (k - 1) d]
    congr 1; omega
  have hs : (m.β 1)^[k] d ∈ walk1 m d := by
    rw [hmem]
    refine ⟨by rw [← hsk]; exact hs0, ?_⟩
    have := ((hmem _).1 hx).2
    refine this.tail ?_
    rw [g2_custom1, ← hsk]; simp
  rw [hk', List.mem_iterate] at hs
  obtain ⟨j, hj, hje⟩ := hs
  cases j with
  | zero => simpa using hje
  | succ j =>
      exfalso
      -- `β1^k d = β1^(j+1) d`: apply β0 on both sides
      have e1 : (m.β 1)^[j + 1] d = m.β 1 ((m.β 1)^[j] d) := Function.iterate_succ_apply' _ _ _
      have hy : (m.β 1)^[j] d ∈ walk1 m d := by
        rw [hk', List.mem_iterate]; exact ⟨j, by omega, rfl⟩
      obtain ⟨_, hyn, _⟩ := hin _ hy
      have hne : m.β 1 ((m.β 1)^[j] d) ≠ 0 := by rw [← e1, ← hje, ← hsk]; exact hs0
      have i1 := hwf.inv01 _ hxn hs0
      have i2 := hwf.inv01 _ hyn hne
      have e2 : (m.β 1)^[k - 1] d = (m.β 1)^[j] d := by
        rw [← i1, ← i2, hsk, hje, e1]
      -- two positions of a duplicate-free list with the same dart
      rw [hk'] at hnd
      have h1 : (List.iterate (m.β 1) d k)[k - 1]'(by simp; omega) = (m.β 1)^[k - 1] d :=
        List.getElem_iterate _ _ _ _ _
      have h2 : (List.iterate (m.β 1) d k)[j]'(by simp; omega) = (m.β 1)^[j] d :=
        List.getElem_iterate _ _ _ _ _
      have := (List.Nodup.getElem_inj_iff hnd).1 (h1.trans (e2.trans h2.symm))
      omega

/-- the cyclic successor inside the walk is the β1-image -/
theorem walk1_succ {X : Type} {m : Map X} (hwf : WF 3 m) (hcl : ClosedFaces m) {d : Nat}
    (hd : InUse m d) {i x y : Nat} (hx : (walk1 m d)[i]? = some x)
    (hy : (walk1 m d)[(i + 1) % (walk1 m d).length]? = some y) : y = m.β 1 x := by
  obtain ⟨hit, hpos, _, hcyc, _⟩ := walk1_cycle hwf hcl hd
  generalize hk : (walk1 m d).length = k at *
  have hi : i < k := by
    have := (List.getElem?_eq_some_iff.1 hx).1; omega
  have gx : x = (m.β 1)^[i] d := by
    rw [hit] at hx
    obtain ⟨h1, h2⟩ := List.getElem?_eq_some_iff.1 hx
    rw [← h2]; exact List.getElem_iterate _ _ _ _ _
  by_cases h1 : i + 1 < k
  · rw [Nat.mod_eq_of_lt h1, hit] at hy
    obtain ⟨h2, h3⟩ := List.getElem?_eq_some_iff.1 hy
    rw [← h3, List.getElem_iterate, gx]
    exact Function.iterate_succ_apply' _ _ _
  · have h2 : i + 1 = k := by omega
    rw [h2, Nat.mod_self, hit] at hy
    obtain ⟨h3, h4⟩ := List.getElem?_eq_some_iff.1 hy
    rw [← h4, List.getElem_iterate, gx, ← Function.iterate_succ_apply' (m.β 1) i d,
      show i.succ = k by omega, hcyc]
    rfl

/-! ## 2-D: what the reader computes on a well-formed map -/

section TwoD
variable {m : Map Val} {sc : Scene}

theorem evalP_of_run {α : Type} {p : P Val α} {m : Map Val} {a : α} {m' : Map Val}
    (h : run p m = (.ok a, m')) : evalP p m = some a := by
  unfold evalP; rw [h]

theorem walk_eq (hwf : WF 3 m) {d : Nat} (hd0 : d ≠ 0) (hdn : d < m.n) :
    (reader2 m).walk d = some (walk1 m d) :=
  evalP_of_run (C03.C03_orbit2_spec hwf polOK1 hd0 hdn).1

theorem vid_eq (hwf : WF 3 m) {d : Nat} (hd0 : d ≠ 0) (hdn : d < m.n) :
    (reader2 m).vid d = some (C03.cellId m .vertex d) :=
  evalP_of_run (C03.C03_vertexId2_min hwf hd0 hdn).1

theorem mem_iterFaces_inUse {f : Nat} (hf : f ∈ iterFaces2 m) : InUse m f := by
  obtain ⟨h1, h2, h3, _⟩ := (C03.mem_iterCells m _ f).1 hf
  exact ⟨h2, h1, h3⟩

/-! ## C20, 2-D -/

/-- **C20, vertex entities**: the vertex entities are, in order, the ids of `iter_vertices`, the
    table has one row per vertex, and the row stored in the entity of vertex `v` holds the
    coordinates of `v` -/
theorem C20_vertex_entities (h : extract2 m = some sc) :
    sc.verts.map Prod.fst = iterVertices2 m ∧ sc.table.length = (iterVertices2 m).length ∧
    ∀ v r, (v, r) ∈ sc.verts → rowOf (iterVertices2 m) v = some r ∧
      ∃ x, sc.table[r]? = some x ∧ m.att 0 v = some x :=
  vertex_entities (R := reader2 m) h

/-- **C20, `index_map` is injective** (two vertex ids never share a table row) -/
theorem C20_index_map_injective (m : Map Val) {v w r : Nat}
    (hv : rowOf (iterVertices2 m) v = some r) (hw : rowOf (iterVertices2 m) w = some r) : v = w := by
  have h1 := rowOf_get hv
  have h2 := rowOf_get hw
  rw [h1] at h2
  exact Option.some.inj h2

/-- **C20, `index_map` is onto the table rows** and defined exactly on the vertex ids -/
theorem C20_index_map_onto (m : Map Val) :
    (∀ r, r < (iterVertices2 m).length → ∃ v, v ∈ iterVertices2 m ∧ rowOf (iterVertices2 m) v = some r) ∧
    (∀ v r, rowOf (iterVertices2 m) v = some r → v ∈ iterVertices2 m ∧ r < (iterVertices2 m).length) ∧
    (∀ v, v ∈ iterVertices2 m → ∃ r, rowOf (iterVertices2 m) v = some r) := by
  have hnd : (iterVertices2 m).Nodup :=
    (C03.iterCells_sorted m _).imp (fun h => Nat.ne_of_lt h)
  refine ⟨?_, ?_, fun v hv => rowOf_of_mem hv⟩
  · intro r hr
    exact ⟨_, List.getElem_mem hr, rowOf_of_get_nodup hnd (List.getElem?_eq_getElem hr)⟩
  · intro v r h
    have := rowOf_get h
    exact ⟨List.mem_iff_getElem?.2 ⟨r, this⟩, (List.getElem?_eq_some_iff.1 this).1⟩

/-- **C20, table = coordinates**: the row `index_map v` of the table holds the value of vertex `v` -/
theorem C20_table_row (h : extract2 m = some sc) {v r : Nat}
    (hr : rowOf (iterVertices2 m) v = some r) :
    ∃ x, sc.table[r]? = some x ∧ m.att 0 v = some x :=
  table_row (R := reader2 m) h hr

/-- **C20, dart entity: ids and start**: a dart entity of dart `d` carries `vertex_id(d)`,
    `edge_id(d)`, the id of a face of `iter_faces`, volume 1, and `start` is `index_map` of its
    vertex id — the table row holding the coordinates of that vertex -/
theorem C20_dart_start (h : extract2 m = some sc) {e : DartEnt} (he : e ∈ sc.darts) :
    e.f ∈ iterFaces2 m ∧ evalP (vertexId2 m.n e.d) m = some e.v ∧ evalP (edgeId2 e.d) m = some e.e ∧
    e.vol = 1 ∧ rowOf (iterVertices2 m) e.v = some e.s ∧
    ∃ x, sc.table[e.s]? = some x ∧ m.att 0 e.v = some x := by
  obtain ⟨h1, h2, h3, h4, h5, _⟩ := dart_entity (R := reader2 m) h he
  obtain ⟨v, x, k1, k2, k3, k4⟩ := row_of_dart (R := reader2 m) h h5
  have : v = e.v := by
    have : (reader2 m).vid e.d = some v := k1
    rw [h2] at this; exact (Option.some.inj this).symm
  subst this
  refine ⟨h1, h2, h3, ?_, k2, x, k3, k4⟩
  have : (some 1 : Option Nat) = some e.vol := h4
  exact (Option.some.inj this).symm

/-- **C20, dart entity: end** (closed faces): `end` is `index_map` of the vertex id of the
    successor `β1 d` — the table row holding the coordinates of that vertex -/
theorem C20_dart_end (hwf : WF 3 m) (hcl : ClosedFaces m) (h : extract2 m = some sc) {e : DartEnt}
    (he : e ∈ sc.darts) :
    ∃ v' x, evalP (vertexId2 m.n (m.β 1 e.d)) m = some v' ∧
      rowOf (iterVertices2 m) v' = some e.t ∧ sc.table[e.t]? = some x ∧ m.att 0 v' = some x := by
  obtain ⟨h1, _, _, _, _, w, w2, hw, hw2, hcase⟩ := dart_entity (R := reader2 m) h he
  have hf := mem_iterFaces_inUse h1
  have hw' : w = walk1 m e.f := by
    have := walk_eq hwf hf.1 hf.2.1
    rw [hw] at this; exact Option.some.inj this
  have hw2' : w2 = [] := by
    have : (some [] : Option (List Nat)) = some w2 := hw2
    exact (Option.some.inj this).symm
  rcases hcase with ⟨i, d', k1, k2, k3⟩ | ⟨i, d', k1, _, _⟩
  · subst hw'
    have hd' : d' = m.β 1 e.d := walk1_succ hwf hcl hf k1 k2
    subst hd'
    obtain ⟨v, x, j1, j2, j3, j4⟩ := row_of_dart (R := reader2 m) h k3
    exact ⟨v, x, j1, j2, j3, j4⟩
  · subst hw2'; simp at k1

/-- **C20, edge entities**: one per id of `iter_edges`, in that order; the two ends are
    `index_map` of the vertex of the edge's dart and of the vertex of `β2 id` (of `β1 id` when the
    dart is 2-free), and the table holds the coordinates of these vertices at those rows -/
theorem C20_edge_entity (h : extract2 m = some sc) :
    sc.edges.map (·.1) = iterEdges2 m ∧
    ∀ id a b, (id, a, b) ∈ sc.edges →
      ∃ v1 v2 x1 x2, evalP (vertexId2 m.n id) m = some v1 ∧
        evalP (vertexId2 m.n (if m.β 2 id = 0 then m.β 1 id else m.β 2 id)) m = some v2 ∧
        rowOf (iterVertices2 m) v1 = some a ∧ rowOf (iterVertices2 m) v2 = some b ∧
        sc.table[a]? = some x1 ∧ m.att 0 v1 = some x1 ∧
        sc.table[b]? = some x2 ∧ m.att 0 v2 = some x2 := by
  obtain ⟨h1, h2⟩ := edge_entities (R := reader2 m) h
  refine ⟨h1, ?_⟩
  intro id a b hm
  obtain ⟨k1, k2⟩ := h2 id a b hm
  obtain ⟨v1, x1, a1, a2, a3, a4⟩ := row_of_dart (R := reader2 m) h k1
  obtain ⟨v2, x2, b1, b2, b3, b4⟩ := row_of_dart (R := reader2 m) h k2
  exact ⟨v1, v2, x1, x2, a1, b1, a2, b2, a3, a4, b3, b4⟩

/-- **C20, face entities** (closed faces): one per id of `iter_faces`, in that order; the corner
    list of face `f` has as many entries as the β1-cycle of `f` has darts (`β1^k f = f`, the `k`
    darts `f, β1 f, …` distinct, `k ≥ 2`), and its `i`-th entry is `index_map` of the vertex id of
    `β1^i f` — the table row holding the coordinates of that corner -/
theorem C20_face_corners (hwf : WF 3 m) (hcl : ClosedFaces m) (h : extract2 m = some sc) :
    sc.faces.map (·.1) = iterFaces2 m ∧
    ∀ f rows, (f, rows) ∈ sc.faces →
      2 ≤ rows.length ∧ (m.β 1)^[rows.length] f = f ∧ (List.iterate (m.β 1) f rows.length).Nodup ∧
      ∀ i r, rows[i]? = some r →
        ∃ v x, evalP (vertexId2 m.n ((m.β 1)^[i] f)) m = some v ∧
          rowOf (iterVertices2 m) v = some r ∧ sc.table[r]? = some x ∧ m.att 0 v = some x := by
  obtain ⟨h1, h2⟩ := face_entities (R := reader2 m) h
  refine ⟨h1, ?_⟩
  intro f rows hm
  obtain ⟨hf, hlen, w, hw, hall⟩ := h2 f rows hm
  have hfu := mem_iterFaces_inUse hf
  have hw' : w = walk1 m f := by
    have := walk_eq hwf hfu.1 hfu.2.1
    have hw0 : (reader2 m).walk f = some w := hw
    rw [hw0] at this; exact Option.some.inj this
  subst hw'
  obtain ⟨hit, hpos, hnd, hcyc, _⟩ := walk1_cycle hwf hcl hfu
  have hl : (walk1 m f).length = rows.length := hall.length_eq
  refine ⟨hlen, by rw [← hl]; exact hcyc, by rw [← hl, ← hit]; exact hnd, ?_⟩
  intro i r hr
  have hi : i < rows.length := (List.getElem?_eq_some_iff.1 hr).1
  have hi' : i < (walk1 m f).length := by omega
  have hrel := (List.forall₂_iff_get.1 hall).2 i hi' hi
  have e1 : rows.get ⟨i, hi⟩ = r := by
    have := (List.getElem?_eq_some_iff.1 hr).2; simpa using this
  have e2 : (walk1 m f).get ⟨i, hi'⟩ = (m.β 1)^[i] f := by
    show (walk1 m f)[i] = _
    have : (walk1 m f)[i] = (List.iterate (m.β 1) f (walk1 m f).length)[i]'(by simp; omega) := by
      congr 1
    rw [this]; exact List.getElem_iterate _ _ _ _ _
  rw [e1, e2] at hrel
  obtain ⟨v, x, j1, j2, j3, j4⟩ := row_of_dart (R := reader2 m) h hrel
  exact ⟨v, x, j1, j2, j3, j4⟩

/-- the number of darts of the β1-cycle of `f` -/
def period (m : Map Val) (f : Nat) : Nat := (walk1 m f).length

/-- `period m f` is the least positive period of `β1` at `f` (closed faces): the cycle closes after
    `period` steps and its darts are pairwise distinct, all in use -/
theorem period_spec (hwf : WF 3 m) (hcl : ClosedFaces m) {f : Nat} (hf : InUse m f) :
    0 < period m f ∧ (m.β 1)^[period m f] f = f ∧ (List.iterate (m.β 1) f (period m f)).Nodup ∧
    ∀ x, x ∈ List.iterate (m.β 1) f (period m f) → InUse m x := by
  obtain ⟨hit, hpos, hnd, hcyc, hin⟩ := walk1_cycle hwf hcl hf
  unfold period
  exact ⟨hpos, hcyc, by rw [← hit]; exact hnd, by rw [← hit]; exact hin⟩

/-- **C20, dart entities, face by face** (closed faces): the dart entities are, in spawn order and
    face after face in `iter_faces` order, exactly the darts `f, β1 f, …, β1^(period-1) f` of the
    β1-cycle of the face id `f`, each once, tagged with that face id -/
theorem C20_dart_entities_of_face (hwf : WF 3 m) (hcl : ClosedFaces m) (h : extract2 m = some sc) :
    sc.darts.map (fun e => (e.f, e.d)) =
      (iterFaces2 m).flatMap (fun f => (List.iterate (m.β 1) f (period m f)).map (fun d => (f, d))) := by
  obtain ⟨fbs, _, e5, hall⟩ := face_blocks (R := reader2 m) h
  rw [e5, List.map_flatten, List.map_map, List.flatMap_def]
  congr 1
  symm
  refine forall₂_map_eq hall ?_
  intro f fb hf hfb
  have hfu := mem_iterFaces_inUse hf
  obtain ⟨w, rows, d1, w2, d2, hw, _, _, hd1, hs2, hd2, rfl⟩ := faceBundle_inv hfb
  have hw' : w = walk1 m f := by
    have := walk_eq hwf hfu.1 hfu.2.1
    have hw0 : (reader2 m).walk f = some w := hw
    rw [hw0] at this; exact Option.some.inj this
  have hw2' : w2 = [] := by
    have : (some [] : Option (List Nat)) = some w2 := hs2
    exact (Option.some.inj this).symm
  subst hw' hw2'
  have hd2' : d2 = [] := by
    have := (dartBundles_get hd2).1
    exact List.eq_nil_of_length_eq_zero (by simpa using this)
  subst hd2'
  simp only [Function.comp, List.append_nil]
  rw [dartBundles_map_fd hd1]
  unfold period
  rw [← (walk1_cycle hwf hcl hfu).1]

theorem orb_faceLinear_eq (m : Map Val) (f : Nat) : C03.orb m .faceLinear f = walk1 m f := by
  unfold walk1 C03.orb
  have : C03.g2 m .faceLinear = C03.g2 m (.custom [1]) := by funext x; rfl
  rw [this]

theorem mem_walk1_iff (hwf : WF 3 m) (hcl : ClosedFaces m) {f : Nat} (hf : InUse m f) (x : Nat) :
    x ∈ walk1 m f ↔ x ∈ C03.orb m .face f := by
  rw [← orb_faceLinear_eq]
  refine C03.C03_faceLinear_closed hwf hf.1 hf.2.1 ?_ x
  intro y hy
  have hyu := C03.C03_orbit_of_in_use_is_in_use hwf (pol := .face) trivial hf.1 hf.2.1 hf.2.2 y hy
  obtain ⟨_, _, _, hno0, _, hlt⟩ := C03.C03_orbit2_spec hwf (pol := .face) trivial hf.1 hf.2.1
  exact hcl y (hlt y hy) (fun e => hno0 (e ▸ hy)) hyu

theorem faceId_of_mem_iterFaces (hwf : WF 3 m) {f : Nat} (hf : f ∈ iterFaces2 m) :
    C03.cellId m .face f = f := by
  obtain ⟨h1, h2, _, h4⟩ := (C03.mem_iterCells m _ f).1 hf
  rw [(C03.C03_faceId2_min hwf h2 h1).1, C03.okVal_ok] at h4
  exact h4

/-- a dart of the cycle of a face id has that face id -/
theorem faceId_of_mem_walk1 (hwf : WF 3 m) (hcl : ClosedFaces m) {f d : Nat} (hf : f ∈ iterFaces2 m)
    (hd : d ∈ walk1 m f) : C03.cellId m .face d = f := by
  have hfu := mem_iterFaces_inUse hf
  have hdu := (walk1_cycle hwf hcl hfu).2.2.2.2 d hd
  have h1 := (mem_walk1_iff hwf hcl hfu d).1 hd
  have h2 := ((C03.mem_orb hwf (pol := .face) trivial hfu.1 hfu.2.1 d).1 h1).2
  have := ((C03.C03_same_id_iff_same_cell hwf (pol := .face) trivial hfu.1 hfu.2.1 hdu.1 hdu.2.1).1).2 h2
  rw [← this]; exact faceId_of_mem_iterFaces hwf hf

/-- **C20, one dart entity per in-use dart** (closed faces): no dart has two dart entities, and the
    darts that have one are exactly the in-use darts (non-null, existing, not removed) -/
theorem C20_each_dart_once (hwf : WF 3 m) (hcl : ClosedFaces m) (h : extract2 m = some sc) :
    (sc.darts.map (·.d)).Nodup ∧ ∀ d, d ∈ sc.darts.map (·.d) ↔ InUse m d := by
  have key : sc.darts.map (·.d) = (iterFaces2 m).flatMap (walk1 m) := by
    have := congrArg (List.map Prod.snd) (C20_dart_entities_of_face hwf hcl h)
    rw [List.map_map, List.map_flatMap] at this
    rw [show (fun e : DartEnt => e.d) = Prod.snd ∘ fun e => (e.f, e.d) from rfl, this]
    apply List.flatMap_congr
    intro f hf
    rw [List.map_map]
    unfold period
    rw [← (walk1_cycle hwf hcl (mem_iterFaces_inUse hf)).1]
    simp [Function.comp]
  rw [key]
  constructor
  · rw [List.nodup_flatMap]
    refine ⟨fun f hf => (walk1_cycle hwf hcl (mem_iterFaces_inUse hf)).2.2.1, ?_⟩
    refine List.Pairwise.imp_of_mem ?_ (C03.iterCells_sorted m (faceId2 m.n))
    intro a b ha hb hab
    show List.Disjoint (walk1 m a) (walk1 m b)
    intro d hda hdb
    have e1 := faceId_of_mem_walk1 hwf hcl ha hda
    have e2 := faceId_of_mem_walk1 hwf hcl hb hdb
    omega
  · intro d
    rw [List.mem_flatMap]
    constructor
    · rintro ⟨f, hf, hd⟩
      exact (walk1_cycle hwf hcl (mem_iterFaces_inUse hf)).2.2.2.2 d hd
    · rintro ⟨hd0, hdn, hdu⟩
      have hf : C03.cellId m .face d ∈ iterFaces2 m :=
        (C03.C03_iterFaces2_mem hwf _).2 ⟨d, hd0, hdn, hdu, rfl⟩
      refine ⟨_, hf, ?_⟩
      have hfu := mem_iterFaces_inUse hf
      rw [mem_walk1_iff hwf hcl hfu, C03.mem_orb hwf (pol := .face) trivial hfu.1 hfu.2.1]
      refine ⟨hd0, ?_⟩
      have h1 := (C03.cellId_spec hwf (pol := .face) trivial hd0 hdn).1
      have h2 := ((C03.mem_orb hwf (pol := .face) trivial hd0 hdn _).1 h1).2
      exact C03.reach_symm hwf (pol := .face) trivial hdn hfu.1 h2

/-! ## the extraction does not panic on embedded maps with closed faces -/

/-- every vertex id has coordinates -/
def Embedded (m : Map Val) : Prop := ∀ v, v ∈ iterVertices2 m → (m.att 0 v).isSome = true

/-- no face is a β1-loop on a single dart -/
def NoLoops {X : Type} (m : Map X) : Prop :=
  ∀ d, d < m.n → d ≠ 0 → m.unused d = false → m.β 1 d ≠ d

instance (m : Map Val) : Decidable (Embedded m) := by unfold Embedded; exact inferInstance
instance {X : Type} (m : Map X) : Decidable (NoLoops m) := by unfold NoLoops; exact inferInstance

theorem inUse_image (hwf : WF 3 m) {d i : Nat} (hd : InUse m d) (hi : i < 3) (hne : m.β i d ≠ 0) :
    InUse m (m.β i d) := by
  refine ⟨hne, hwf.range i hi d hd.2.1, ?_⟩
  cases hu : m.unused (m.β i d) with
  | false => rfl
  | true => exact absurd (C01.C01_unused_is_nobodys_image hwf i hi d hd.2.1 hu) hne

theorem lookups_inUse (hwf : WF 3 m) {d : Nat} (hd : InUse m d) :
    (∃ r, (reader2 m).rowOfDart d = some r) ∧ (∃ v, (reader2 m).vid d = some v) ∧
      (∃ e, (reader2 m).eid d = some e) ∧ ∃ c, (reader2 m).volid d = some c := by
  have hv := vid_eq hwf hd.1 hd.2.1
  have hmem : C03.cellId m .vertex d ∈ iterVertices2 m :=
    (C03.C03_iterVertices2_mem hwf _).2 ⟨d, hd.1, hd.2.1, hd.2.2, rfl⟩
  obtain ⟨r, hr⟩ := rowOf_of_mem hmem
  refine ⟨⟨r, ?_⟩, ⟨_, hv⟩, ⟨_, evalP_of_run (C03.C03_edgeId2_min hwf hd.1 hd.2.1).1⟩, ⟨1, rfl⟩⟩
  unfold Reader.rowOfDart
  rw [hv]; exact hr

/-- **C20, the extraction succeeds**: on a well-formed 2-map whose in-use darts all lie on closed
    faces of at least two sides and whose vertex ids all have coordinates, the start-up system does
    not panic (so the other theorems apply to the scene it builds) -/
theorem C20_no_panic (hwf : WF 3 m) (hcl : ClosedFaces m) (hnl : NoLoops m) (hemb : Embedded m) :
    ∃ sc, extract2 m = some sc := by
  unfold extract2
  apply extractWith_isSome
  · intro v hv
    exact Option.isSome_iff_exists.1 (hemb v hv)
  · intro id hid
    obtain ⟨h1, h2, h3, _⟩ := (C03.mem_iterCells m _ id).1 hid
    have hu : InUse m id := ⟨h2, h1, h3⟩
    obtain ⟨⟨r1, hr1⟩, _⟩ := lookups_inUse hwf hu
    have hend : InUse m ((reader2 m).edgeEnd id) := by
      show InUse m (if m.β 2 id = 0 then m.β 1 id else m.β 2 id)
      by_cases h2 : m.β 2 id = 0
      · rw [if_pos h2]; exact inUse_image hwf hu (by omega) (hcl id h1 hu.1 h3)
      · rw [if_neg h2]; exact inUse_image hwf hu (by omega) h2
    obtain ⟨⟨r2, hr2⟩, _⟩ := lookups_inUse hwf hend
    unfold edgeBundle
    rw [hr1, hr2]
    exact ⟨_, rfl⟩
  · intro f hf
    have hfu := mem_iterFaces_inUse hf
    obtain ⟨hit, hpos, _, hcyc, hin⟩ := walk1_cycle hwf hcl hfu
    refine faceBundle_isSome (w2 := []) (walk_eq hwf hfu.1 hfu.2.1) rfl ?_ ?_
    · -- a cycle of length 1 would be a β1-loop
      by_contra hlt
      have h1 : (walk1 m f).length = 1 := by omega
      rw [h1] at hcyc
      exact hnl f hfu.2.1 hfu.1 hfu.2.2 hcyc
    · intro d hd
      rw [List.append_nil] at hd
      exact lookups_inUse hwf (hin d hd)

end TwoD

/-! ## 3-D: the dimension-independent clauses for `extract3` -/

section ThreeD
variable {m : Map Val} {sc : Scene}

theorem extract3_inv (h : extract3 m = some sc) :
    ∃ sc0 k, extractWith (reader3 m) (some []) = some sc0 ∧ volKeys3 m (reader3 m) = some k ∧
      sc.table = sc0.table ∧ sc.verts = sc0.verts ∧ sc.edges = sc0.edges ∧ sc.faces = sc0.faces ∧
      sc.darts = sc0.darts ∧ sc.vnKeys = some k := by
  unfold extract3 at h
  simp only at h
  split at h
  · exact absurd h (by simp)
  · rename_i sc0 h0
    split at h
    · exact absurd h (by simp)
    · rename_i k hk
      simp only [Option.some.injEq] at h
      subst h
      exact ⟨sc0, k, h0, hk, rfl, rfl, rfl, rfl, rfl, rfl⟩

/-- **C20 (3-D), vertex entities and table**: as in 2-D, with `iter_vertices` of the 3-map -/
theorem C20_3d_vertex_entities (h : extract3 m = some sc) :
    sc.verts.map Prod.fst = iterVertices3 m ∧ sc.table.length = (iterVertices3 m).length ∧
    ∀ v r, (v, r) ∈ sc.verts → rowOf (iterVertices3 m) v = some r ∧
      ∃ x, sc.table[r]? = some x ∧ m.att 0 v = some x := by
  obtain ⟨sc0, k, h0, _, e1, e2, _⟩ := extract3_inv h
  rw [e1, e2]
  exact vertex_entities (R := reader3 m) h0

/-- **C20 (3-D), dart entity: ids and start**: a dart entity of dart `d` carries `vertex_id(d)`,
    `edge_id(d)`, `volume_id(d)`, the id of a face of `iter_faces`, and `start` is `index_map` of
    its vertex id — the table row holding the coordinates of that vertex -/
theorem C20_3d_dart_start (h : extract3 m = some sc) {e : DartEnt} (he : e ∈ sc.darts) :
    e.f ∈ iterFaces3 m ∧ evalP (vertexId3 m.n e.d) m = some e.v ∧
    evalP (edgeId3 m.n e.d) m = some e.e ∧ evalP (volumeId3 m.n e.d) m = some e.vol ∧
    rowOf (iterVertices3 m) e.v = some e.s ∧
    ∃ x, sc.table[e.s]? = some x ∧ m.att 0 e.v = some x := by
  obtain ⟨sc0, k, h0, _, e1, _, _, _, e5, _⟩ := extract3_inv h
  rw [e5] at he
  obtain ⟨h1, h2, h3, h4, h5, _⟩ := dart_entity (R := reader3 m) h0 he
  obtain ⟨v, x, k1, k2, k3, k4⟩ := row_of_dart (R := reader3 m) h0 h5
  have : v = e.v := by
    have : (reader3 m).vid e.d = some v := k1
    rw [h2] at this; exact (Option.some.inj this).symm
  subst this
  exact ⟨h1, h2, h3, h4, k2, x, by rw [e1]; exact k3, k4⟩

/-- **C20 (3-D), edge entities**: one per id of `iter_edges`; the ends are `index_map` of the vertex
    of the edge's dart and of the vertex of `β3 id`, else `β2 id`, else `β1 id` (first non-free), and
    the table holds the coordinates of these vertices at those rows -/
theorem C20_3d_edge_entity (h : extract3 m = some sc) :
    sc.edges.map (·.1) = iterEdges3 m ∧
    ∀ id a b, (id, a, b) ∈ sc.edges →
      ∃ v1 v2 x1 x2, evalP (vertexId3 m.n id) m = some v1 ∧
        evalP (vertexId3 m.n
          (if m.β 3 id = 0 then (if m.β 2 id = 0 then m.β 1 id else m.β 2 id) else m.β 3 id)) m = some v2 ∧
        rowOf (iterVertices3 m) v1 = some a ∧ rowOf (iterVertices3 m) v2 = some b ∧
        sc.table[a]? = some x1 ∧ m.att 0 v1 = some x1 ∧
        sc.table[b]? = some x2 ∧ m.att 0 v2 = some x2 := by
  obtain ⟨sc0, k, h0, _, e1, _, e3, _⟩ := extract3_inv h
  obtain ⟨h1, h2⟩ := edge_entities (R := reader3 m) h0
  rw [e3, e1]
  refine ⟨h1, ?_⟩
  intro id a b hm
  obtain ⟨k1, k2⟩ := h2 id a b hm
  obtain ⟨v1, x1, a1, a2, a3, a4⟩ := row_of_dart (R := reader3 m) h0 k1
  obtain ⟨v2, x2, b1, b2, b3, b4⟩ := row_of_dart (R := reader3 m) h0 k2
  exact ⟨v1, v2, x1, x2, a1, b1, a2, b2, a3, a4, b3, b4⟩

/-- **C20 (3-D), face entities carry the ids of `iter_faces`** and list, in walk order, the rows of
    the vertices of the darts of `orbit(Custom(&[1]), id)` (that this walk is the β1-cycle is proved
    in 2-D only) -/
theorem C20_3d_face_entity (h : extract3 m = some sc) :
    sc.faces.map (·.1) = iterFaces3 m ∧
    ∀ f rows, (f, rows) ∈ sc.faces → 2 ≤ rows.length ∧
      ∃ w, evalP (orbit3 m.n (.custom [1]) f) m = some w ∧
        List.Forall₂ (fun d r => ∃ v x, evalP (vertexId3 m.n d) m = some v ∧
          rowOf (iterVertices3 m) v = some r ∧ sc.table[r]? = some x ∧ m.att 0 v = some x) w rows := by
  obtain ⟨sc0, k, h0, _, e1, _, _, e4, _⟩ := extract3_inv h
  obtain ⟨h1, h2⟩ := face_entities (R := reader3 m) h0
  rw [e4, e1]
  refine ⟨h1, ?_⟩
  intro f rows hm
  obtain ⟨_, hlen, w, hw, hall⟩ := h2 f rows hm
  refine ⟨hlen, w, hw, hall.imp ?_⟩
  intro d r hdr
  obtain ⟨v, x, j1, j2, j3, j4⟩ := row_of_dart (R := reader3 m) h0 hdr
  exact ⟨v, x, j1, j2, j3, j4⟩

end ThreeD

/-! ## non-vacuity: the hypotheses are satisfiable and the conclusions say something -/

/-- two triangles `1-2-3` (A B C) and `4-5-6` (C B D) glued along `2|4`; dart 7 is removed.
    Vertex ids 1, 2, 3, 6 — the id 6 sits in table row 3 (id ≠ row). -/
def exT : Map Val :=
  { n := 8
    b := #[#[0, 3, 1, 2, 6, 4, 5, 0], #[0, 2, 3, 1, 5, 6, 4, 0], #[0, 0, 4, 0, 2, 0, 0, 0]]
    u := #[false, false, false, false, false, false, false, true]
    a := #[#[none, some (.pt 0 0 0), some (.pt 1 0 0), some (.pt 0 1 0), none, none,
             some (.pt 1 1 0), none]] }

def exTScene : Scene :=
  { table := [.pt 0 0 0, .pt 1 0 0, .pt 0 1 0, .pt 1 1 0]
    verts := [(1, 0), (2, 1), (3, 2), (6, 3)]
    edges := [(1, 0, 1), (2, 1, 2), (3, 2, 0), (5, 1, 3), (6, 3, 2)]
    faces := [(1, [0, 1, 2]), (4, [2, 1, 3])]
    darts := [⟨1, 1, 1, 1, 1, 0, 1⟩, ⟨2, 2, 2, 1, 1, 1, 2⟩, ⟨3, 3, 3, 1, 1, 2, 0⟩,
              ⟨4, 3, 2, 4, 1, 2, 1⟩, ⟨5, 2, 5, 4, 1, 1, 3⟩, ⟨6, 6, 6, 4, 1, 3, 2⟩]
    fnKeys := [(1, 0), (1, 1), (1, 2), (4, 2), (4, 1), (4, 3)]
    vnKeys := none }

theorem exT_wf : WF 3 exT := by decide
theorem exT_closed : ClosedFaces exT := by decide
theorem exT_noLoops : NoLoops exT := by decide
theorem exT_embedded : Embedded exT := by decide +kernel
theorem exT_scene : extract2 exT = some exTScene := by decide +kernel

example : ∃ sc, extract2 exT = some sc := C20_no_panic exT_wf exT_closed exT_noLoops exT_embedded
example : exTScene.verts.map Prod.fst = iterVertices2 exT := (C20_vertex_entities exT_scene).1
example : iterVertices2 exT = [1, 2, 3, 6] := by decide +kernel
example : rowOf (iterVertices2 exT) 6 = some 3 := by decide +kernel
example : ∃ x, exTScene.table[3]? = some x ∧ exT.att 0 6 = some x :=
  C20_table_row exT_scene (by decide +kernel)
example {v w r : Nat} (hv : rowOf (iterVertices2 exT) v = some r)
    (hw : rowOf (iterVertices2 exT) w = some r) : v = w := C20_index_map_injective exT hv hw
example : ∃ v, v ∈ iterVertices2 exT ∧ rowOf (iterVertices2 exT) v = some 3 :=
  (C20_index_map_onto exT).1 3 (by decide +kernel)
-- dart 4 (C → B, second triangle): vertex id 3 ≠ dart id; start row 2 = C, end row 1 = B = vertex of β1 4 = 5
example : (⟨4, 3, 2, 4, 1, 2, 1⟩ : DartEnt) ∈ exTScene.darts := by decide
example : rowOf (iterVertices2 exT) 3 = some 2 ∧
    ∃ x, exTScene.table[2]? = some x ∧ exT.att 0 3 = some x :=
  (C20_dart_start exT_scene (e := ⟨4, 3, 2, 4, 1, 2, 1⟩) (by decide)).2.2.2.2
example : ∃ v' x, evalP (vertexId2 exT.n (exT.β 1 4)) exT = some v' ∧
    rowOf (iterVertices2 exT) v' = some 1 ∧ exTScene.table[1]? = some x ∧ exT.att 0 v' = some x :=
  C20_dart_end exT_wf exT_closed exT_scene (e := ⟨4, 3, 2, 4, 1, 2, 1⟩) (by decide)
-- edges: 2 is sewn (second end through β2), 5 is a boundary edge (second end through β1)
example : exTScene.edges.map (·.1) = iterEdges2 exT := (C20_edge_entity exT_scene).1
example : exT.β 2 2 = 4 ∧ exT.β 2 5 = 0 ∧ exT.β 1 5 = 6 := by decide
example := (C20_edge_entity exT_scene).2 5 1 3 (by decide)
-- faces: corner order follows β1; the second face starts at its id 4 (corner C), not at a "first" dart
example : exTScene.faces.map (·.1) = iterFaces2 exT := (C20_face_corners exT_wf exT_closed exT_scene).1
example : (exT.β 1)^[3] 4 = 4 ∧ (List.iterate (exT.β 1) 4 3).Nodup :=
  let h := (C20_face_corners exT_wf exT_closed exT_scene).2 4 [2, 1, 3] (by decide)
  ⟨h.2.1, h.2.2.1⟩
example : period exT 4 = 3 := by decide +kernel
example : exTScene.darts.map (fun e => (e.f, e.d)) =
    [(1, 1), (1, 2), (1, 3), (4, 4), (4, 5), (4, 6)] := by decide
example : exTScene.darts.map (fun e => (e.f, e.d)) = (iterFaces2 exT).flatMap
    (fun f => (List.iterate (exT.β 1) f (period exT f)).map (fun d => (f, d))) :=
  C20_dart_entities_of_face exT_wf exT_closed exT_scene
-- the removed dart 7 has no entity, every other dart exactly one
example : (7 ∈ exTScene.darts.map (·.d) ↔ InUse exT 7) ∧ ¬ InUse exT 7 :=
  ⟨(C20_each_dart_once exT_wf exT_closed exT_scene).2 7, by decide⟩
example : (exTScene.darts.map (·.d)).Nodup := (C20_each_dart_once exT_wf exT_closed exT_scene).1

-- the hypotheses matter: an isolated in-use dart (open face) makes the start-up system panic
def exFree : Map Val :=
  { n := 2, b := #[#[0, 0], #[0, 0], #[0, 0]], u := #[false, false], a := #[#[none, some (.pt 0 0 0)]] }
example : WF 3 exFree ∧ ¬ ClosedFaces exFree ∧ extract2 exFree = none := by decide +kernel

/-- 3-D: one triangular face with two sides `1-2-3` / `4-5-6` (β3: 1↔4, 2↔6, 3↔5), mirrored -/
def exP : Map Val :=
  { n := 7
    b := #[#[0, 3, 1, 2, 6, 4, 5], #[0, 2, 3, 1, 5, 6, 4], #[0, 0, 0, 0, 0, 0, 0],
           #[0, 4, 6, 5, 1, 3, 2]]
    u := #[false, false, false, false, false, false, false]
    a := #[#[none, some (.pt 0 0 0), some (.pt 1 0 0), some (.pt 0 1 0), some (.pt 1 0 0),
             some (.pt 0 0 0), some (.pt 0 1 0)]] }

def exPScene : Scene :=
  { table := [.pt 0 0 0, .pt 1 0 0, .pt 0 1 0]
    verts := [(1, 0), (2, 1), (3, 2)]
    edges := [(1, 0, 1), (2, 1, 2), (3, 2, 0)]
    faces := [(1, [0, 1, 2])]
    darts := [⟨1, 1, 1, 1, 1, 0, 1⟩, ⟨2, 2, 2, 1, 1, 1, 2⟩, ⟨3, 3, 3, 1, 1, 2, 0⟩,
              ⟨4, 2, 1, 1, 4, 1, 0⟩, ⟨5, 1, 3, 1, 4, 0, 2⟩, ⟨6, 3, 2, 1, 4, 2, 1⟩]
    fnKeys := [(1, 0), (1, 1), (1, 2)]
    vnKeys := some [(1, 0), (1, 1), (1, 2), (4, 1), (4, 0), (4, 2)] }

theorem exP_wf : WF 4 exP ∧ Mirror exP := by decide
theorem exP_scene : extract3 exP = some exPScene := by decide +kernel

example : exPScene.verts.map Prod.fst = iterVertices3 exP := (C20_3d_vertex_entities exP_scene).1
example := (C20_3d_dart_start exP_scene (e := ⟨4, 2, 1, 1, 4, 1, 0⟩) (by decide))
example := (C20_3d_edge_entity exP_scene).2 1 0 1 (by decide)
example := (C20_3d_face_entity exP_scene).2 1 [0, 1, 2] (by decide)
-- both sides of the face are enumerated: six dart entities for the six darts
example : exPScene.darts.map (·.d) = [1, 2, 3, 4, 5, 6] := by decide

end HC.C20
